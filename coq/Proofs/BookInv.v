(* Proofs/BookInv.v — the well-formedness of one market's order book (queues, exposure index, rounds, counters),
   as a predicate over the keyed-store reads of BookAPI.v, and its preservation by the writes of the fulfilment loop.
   Part 1: definitions; the in-memory fulfilment map agrees with the store; effect of checkFullfillmentForOtherOdds and of
   prepareParticipationExposuresForNextRound. *)
From Coq Require Import ZArith Bool List Lia.
From Sge Require Import Lib.Dec Model.Types Model.Orderbook Proofs.Tactics Proofs.WagerLoop Proofs.CustodyLocal Proofs.Custody
     Proofs.BookFacts Proofs.BookAPI Proofs.DecFacts.
Import ListNotations.
Open Scope Z_scope.

Definition ekey (e : expo) : Z * Z := (e_odds e, e_part e).

Section WithOdds.
Variable odds : list Z.

Definition sumo (f : Z -> Z) : Z := zsum (map f odds).
Definition eexp (b : book) (i o : Z) : Z := match ge b o i with Some e => e_exp e | None => 0 end.
Definition ebet (b : book) (i o : Z) : Z := match ge b o i with Some e => e_bet e | None => 0 end.
Definition unful (b : book) (i o : Z) : Z := match ge b o i with Some e => if e_ful e then 0 else 1 | None => 0 end.

(* structure of the records of participation i *)
Record pw (b : book) (i : Z) (p : part) : Prop := {
  pw_idx : p_idx p = i;
  pw_round : exists r, 1 <= r /\
     (forall o, In o odds -> exists e, ge b o i = Some e /\ e_odds e = o /\ e_part e = i /\ e_round e = r) /\
     (forall h, In h (hist_i b i) -> e_round h < r /\ In (e_odds h) odds);
  pw_enf : p_enf p = sumo (unful b i);
  pw_crtb : p_crtb p = sumo (ebet b i) }.

(* the whole book *)
Record bw (b : book) : Prop := {
  bw_nodup : NoDup (map p_idx (bk_parts b));
  bw_range : forall p, In p (bk_parts b) -> 1 <= p_idx p <= bk_partcnt b;
  bw_count : bk_partcnt b = zlen (bk_parts b);
  bw_oddscnt : bk_oddscnt b = zlen odds;
  bw_ix : ix_eq b;
  bw_keys : NoDup (map ekey (bk_expo b));
  bw_expo : forall e, In e (bk_expo b) -> In (e_odds e) odds /\ exists p, get_part b (e_part e) = Some p;
  bw_hist : forall h, In h (bk_hist b) -> exists p, get_part b (e_part h) = Some p;
  bw_qkeys : map fst (bk_queues b) = odds;
  bw_parts : forall p, In p (bk_parts b) -> pw b (p_idx p) p }.

(* the fulfilment queue of outcome o *)
Definition queue_ok (b : book) (o : Z) (q : list Z) : Prop :=
  NoDup q /\ forall i, In i q -> exists p e, get_part b i = Some p /\ ge b o i = Some e /\ e_ful e = false.
Definition queues_ok (b : book) : Prop := forall o q, get_queue b o = Some q -> queue_ok b o q.

End WithOdds.

(* ---- get_part and list membership ---------------------------------------------------------------------------------- *)
Lemma gp_idx b i p : get_part b i = Some p -> p_idx p = i.
Proof. intros H. apply get_part_in in H. tauto. Qed.

Lemma gp_of_in b p : NoDup (map p_idx (bk_parts b)) -> In p (bk_parts b) -> get_part b (p_idx p) = Some p.
Proof.
  intros Hnd Hin. unfold get_part, findb. induction (bk_parts b) as [|q r IH]; [destruct Hin|].
  cbn [map] in Hnd. inversion Hnd as [|? ? Hni Hnd']; subst. cbn [find]. unfold part_is at 1.
  destruct Hin as [->|Hin]; [rewrite Z.eqb_refl; reflexivity|].
  destruct (p_idx q =? p_idx p) eqn:E; [|apply IH; assumption].
  apply Z.eqb_eq in E. exfalso. apply Hni. rewrite E. apply in_map. exact Hin.
Qed.

(* ---- the fulfilment map built by initFulfillmentInfo agrees with the store ---------------------------------------------- *)
Definition agrees (b : book) (sel i : Z) (it : fitem) : Prop :=
  get_part b i = Some (fi_part it) /\ fi_pe it = ge b sel i /\
  (forall o, findb (fun e => e_odds e =? o) (fi_all it) = ge b o i).

Lemma ge_of_all b o i : findb (fun e => e_odds e =? o) (expos_of_part b i) = ge b o i.
Proof.
  unfold expos_of_part, ge, findb. rewrite find_filter. apply find_ext. intros x. unfold expo_is. apply andb_comm.
Qed.
Lemma ge_of_sel b sel i : findb (fun e => e_part e =? i) (expos_of_odds b sel) = ge b sel i.
Proof. unfold expos_of_odds, ge, findb. rewrite find_filter. reflexivity. Qed.

Lemma fmap_get_map (f : part -> fitem) l i :
  fmap_get (map (fun p => (p_idx p, f p)) l) i = option_map f (find (part_is i) l).
Proof.
  unfold fmap_get, findb. induction l as [|q r IH]; cbn [map find fst]; [reflexivity|].
  unfold part_is at 1. destruct (p_idx q =? i); [reflexivity|exact IH].
Qed.

Lemma init_fmap_agrees b sel fm i p :
  init_fmap b sel = Some fm -> get_part b i = Some p ->
  exists it, fmap_get fm i = Some it /\ agrees b sel i it.
Proof.
  unfold init_fmap. intros H Hg. dmatch H. inv H.
  rewrite fmap_get_map. unfold get_part, findb in Hg. rewrite Hg. cbn [option_map].
  eexists. split; [reflexivity|]. unfold agrees. cbn [fi_part fi_pe fi_all].
  assert (Hi : p_idx p = i) by (apply (gp_idx b); exact Hg). rewrite Hi.
  split; [exact Hg|]. split; [apply ge_of_sel|intros o; apply ge_of_all].
Qed.

(* ---- checkFullfillmentForOtherOdds -------------------------------------------------------------------------------------- *)
(* every update it returns marks an unfulfilled exposure of participation i (as read from fi_all) on another outcome
   fulfilled, the outcomes are pairwise distinct, and the counter went down by their number *)
Fixpoint npred (n : nat) (x : Z) : Z := match n with O => x | S k => npred k (u64_pred x) end.

Lemma check_other_spec uids : forall sel al all p thr enf acc enf' upds,
  check_other uids sel al all p thr enf acc = Some (enf', upds) ->
  exists news, upds = acc ++ news /\ enf' = npred (length news) enf /\
    (forall u, In u news -> exists ex, findb (fun e => e_odds e =? e_odds u) all = Some ex /\ e_ful ex = false /\
                                     u = expo_upd ex (e_exp ex) (e_bet ex) true /\ In (e_odds u) uids /\ e_odds ex = e_odds u /\ e_odds u <> sel) /\
    (NoDup uids -> NoDup (map e_odds news)) /\
    (forall u, In u news -> In (e_odds u) uids).
Proof.
  induction uids as [|o rest IH]; intros sel al all p thr enf acc enf' upds H; cbn [check_other] in H.
  - inv H. exists []. rewrite app_nil_r. repeat split; try reflexivity; try (intros u []). intros _. constructor.
  - destruct (o =? sel) eqn:Es.
    { destruct (IH _ _ _ _ _ _ _ _ _ H) as (news & E1 & E2 & E3 & E4 & E5). exists news. repeat split; try assumption.
      - intros u Hu. destruct (E3 u Hu) as (ex & F1 & F2 & F3 & F4 & F5). exists ex. repeat split; try assumption; try tauto. right. exact F4.
      - intros Hnd. apply E4. inversion Hnd; assumption.
      - intros u Hu. right. apply E5. exact Hu. }
    destruct (findb (fun e => e_odds e =? o) all) as [ex|] eqn:Ef; [|discriminate].
    destruct (e_ful ex) eqn:Eful.
    { destruct (IH _ _ _ _ _ _ _ _ _ H) as (news & E1 & E2 & E3 & E4 & E5). exists news. repeat split; try assumption.
      - intros u Hu. destruct (E3 u Hu) as (ex' & F1 & F2 & F3 & F4 & F5). exists ex'. repeat split; try assumption; try tauto. right. exact F4.
      - intros Hnd. apply E4. inversion Hnd; assumption.
      - intros u Hu. right. apply E5. exact Hu. }
    destruct (odds_mult al o) as [m|]; [|discriminate].
    destruct (avail_liq m p ex <=? thr).
    + destruct (IH _ _ _ _ _ _ _ _ _ H) as (news & E1 & E2 & E3 & E4 & E5).
      assert (Hexo : e_odds ex = o).
      { unfold findb in Ef. apply find_some in Ef. destruct Ef as [_ Ef]. apply Z.eqb_eq in Ef. exact Ef. }
      exists (expo_upd ex (e_exp ex) (e_bet ex) true :: news). split; [rewrite E1, <- app_assoc; reflexivity|].
      split; [exact E2|]. split; [|split].
      * intros u [<-|Hu].
        -- exists ex. cbn [e_odds expo_upd]. rewrite Hexo. repeat split; try assumption; try reflexivity.
           ++ left. reflexivity.
           ++ apply Z.eqb_neq in Es. exact Es.
        -- destruct (E3 u Hu) as (ex' & F1 & F2 & F3 & F4 & F5). exists ex'. repeat split; try assumption; try tauto. right. exact F4.
      * intros Hnd. inversion Hnd as [|? ? Hni Hnd']. cbn [map e_odds expo_upd]. constructor; [|apply E4; exact Hnd'].
        intros Hin. apply in_map_iff in Hin. destruct Hin as (u & Hu1 & Hu2). apply Hni. rewrite Hexo in Hu1. rewrite <- Hu1. apply E5. exact Hu2.
      * intros u [<-|Hu]; [left; cbn; exact (eq_sym Hexo)|right; apply E5; exact Hu].
    + destruct (IH _ _ _ _ _ _ _ _ _ H) as (news & E1 & E2 & E3 & E4 & E5). exists news. repeat split; try assumption.
      * intros u Hu. destruct (E3 u Hu) as (ex' & F1 & F2 & F3 & F4 & F5). exists ex'. repeat split; try assumption; try tauto. right. exact F4.
      * intros Hnd. apply E4. inversion Hnd; assumption.
      * intros u Hu. right. apply E5. exact Hu.
Qed.

(* ---- prepareParticipationExposuresForNextRound (the eligible case) ------------------------------------------------------ *)
Lemma ekey_next e : ekey (expo_next e) = ekey e. Proof. reflexivity. Qed.
Lemma expo_is_ekey o i e : expo_is o i e = true <-> ekey e = (o, i).
Proof. rewrite expo_is_key. unfold ekey. split; [intros [-> ->]; reflexivity|intros H; inv H; split; reflexivity]. Qed.

Lemma remb_keys_nodup o i l : NoDup (map ekey l) -> NoDup (map ekey (remb (expo_is o i) l)) /\ ~ In (o, i) (map ekey (remb (expo_is o i) l)).
Proof.
  unfold remb. induction l as [|x r IH]; cbn [map filter]; intros Hnd; [split; [constructor|intros []]|].
  inversion Hnd as [|? ? Hni Hnd']; subst. destruct (IH Hnd') as [I1 I2].
  destruct (expo_is o i x) eqn:E; cbn [negb map]; [split; assumption|].
  split.
  - constructor; [|exact I1]. intros Hin. apply Hni. apply in_map_iff in Hin. destruct Hin as (y & Hy & Hin).
    apply filter_In in Hin. rewrite <- Hy. apply in_map. tauto.
  - intros [Hk|Hin]; [|exact (I2 Hin)]. apply expo_is_ekey in Hk. congruence.
Qed.

Lemma in_remb {A} (f : A -> bool) l x : In x (remb f l) -> In x l.
Proof. unfold remb. intros H. apply filter_In in H. tauto. Qed.

Lemma find_none_key o i l : ~ In (o, i) (map ekey l) -> find (expo_is o i) l = None.
Proof.
  intros Hni. destruct (find (expo_is o i) l) as [x|] eqn:E; [|reflexivity]. exfalso. apply find_some in E. destruct E as [Hin Hk].
  apply Hni. apply expo_is_ekey in Hk. rewrite <- Hk. apply in_map. exact Hin.
Qed.

Lemma prep_expos_spec pes : forall b sel cur b' cur',
  prep_expos pes b true sel cur = (b', cur') ->
  NoDup (map ekey pes) -> NoDup (map ekey (bk_expo b)) -> ix_eq b ->
  (forall e h, In e pes -> In h (bk_hist b) -> expo_is (e_odds e) (e_part e) h = true -> e_round h <> e_round e) ->
  (forall e, In e pes -> ge b' (e_odds e) (e_part e) = Some (expo_next e)) /\
  (forall o i, ~ In (o, i) (map ekey pes) -> ge b' o i = ge b o i) /\
  bk_hist b' = bk_hist b ++ pes /\
  NoDup (map ekey (bk_expo b')) /\ ix_eq b' /\
  (forall e', In e' (bk_expo b') -> exists e0, (In e0 (bk_expo b) \/ In e0 pes) /\ ekey e0 = ekey e') /\
  bk_parts b' = bk_parts b /\ bk_queues b' = bk_queues b /\ bk_status b' = bk_status b /\
  bk_partcnt b' = bk_partcnt b /\ bk_oddscnt b' = bk_oddscnt b /\
  cur' = fold_left (fun c e => if e_odds e =? sel then Some (expo_next e) else c) pes cur.
Proof.
  induction pes as [|pe rest IH]; intros b sel cur b' cur' H Hnd Hkb Hix Habs; cbn [prep_expos] in H.
  - inv H. rewrite app_nil_r. repeat split; try reflexivity; try assumption; try (intros e []).
    intros e' He. exists e'. split; [left; exact He|reflexivity].
  - cbn [map] in Hnd. inversion Hnd as [|? ? Hni Hnd']; subst.
    set (b1 := move_to_hist b pe) in *. set (b2 := set_expo b1 (expo_next pe)) in *.
    assert (Hh1 : bk_hist b1 = bk_hist b ++ [pe]).
    { unfold b1, move_to_hist. cbn [bk_hist book_upd]. apply upd_absent_app.
      destruct (find _ (bk_hist b)) as [h|] eqn:Ef; [|reflexivity]. exfalso. apply find_some in Ef. destruct Ef as [Hin Hk].
      apply andb_true_iff in Hk. destruct Hk as [Hk Hr]. apply Z.eqb_eq in Hr.
      exact (Habs pe h (or_introl eq_refl) Hin Hk Hr). }
    destruct (remb_keys_nodup (e_odds pe) (e_part pe) _ Hkb) as [Hk1 Hk1'].
    assert (He2 : bk_expo b2 = remb (expo_is (e_odds pe) (e_part pe)) (bk_expo b) ++ [expo_next pe]).
    { unfold b2, set_expo, b1, move_to_hist. cbn [bk_expo book_upd e_odds e_part expo_next]. apply upd_absent_app.
      apply find_none_key. exact Hk1'. }
    assert (Hk2 : NoDup (map ekey (bk_expo b2))).
    { rewrite He2, map_app. cbn [map]. apply NoDup_snoc; [exact Hk1|]. rewrite ekey_next. exact Hk1'. }
    assert (Hix2 : ix_eq b2) by (unfold b2, b1; apply ix_set_expo, ix_move_to_hist; exact Hix).
    assert (Habs2 : forall e h, In e rest -> In h (bk_hist b2) -> expo_is (e_odds e) (e_part e) h = true -> e_round h <> e_round e).
    { intros e h He Hh Hk. change (bk_hist b2) with (bk_hist b1) in Hh. rewrite Hh1 in Hh. apply in_app_or in Hh.
      destruct Hh as [Hh|[<-|[]]]; [apply (Habs e h (or_intror He) Hh Hk)|].
      exfalso. apply Hni. apply expo_is_ekey in Hk. rewrite Hk. apply (in_map ekey) in He. exact He. }
    destruct (IH b2 sel (if e_odds pe =? sel then Some (expo_next pe) else cur) b' cur' H Hnd' Hk2 Hix2 Habs2)
      as (A & B & C & D & E & F & G1 & G2 & G3 & G4 & G5 & G6).
    split; [|split; [|split; [|split; [exact D|split; [exact E|split; [|repeat split; try assumption]]]]]].
    + intros e [<-|He]; [|apply A; exact He].
      rewrite B by exact Hni. unfold b2.
      change (ge (set_expo b1 (expo_next pe)) (e_odds (expo_next pe)) (e_part (expo_next pe)) = Some (expo_next pe)). apply ge_set_expo_same.
    + intros o i Hn. rewrite B by (intros Hin; apply Hn; right; exact Hin).
      unfold b2. rewrite ge_set_expo_other by (intros Hk; apply Hn; left; cbn [e_odds e_part expo_next] in Hk; symmetry; exact Hk).
      unfold b1. apply ge_move_other. intros Hk. apply Hn. left. symmetry. exact Hk.
    + rewrite C. change (bk_hist b2) with (bk_hist b1). rewrite Hh1, <- app_assoc. reflexivity.
    + intros e' He'. destruct (F e' He') as (e0 & [H0|H0] & Hk0).
      * rewrite He2 in H0. apply in_app_or in H0. destruct H0 as [H0|[<-|[]]].
        -- exists e0. split; [left; eapply in_remb; exact H0|exact Hk0].
        -- exists pe. split; [right; left; reflexivity|rewrite <- Hk0; reflexivity].
      * exists e0. split; [right; right; exact H0|exact Hk0].
Qed.

(* ---- the secondary fulfilments: SetParticipationExposure + removeFromFulfillmentQueue per update ---------------------------- *)
Definition sec_step (idx : Z) (b : book) (e : expo) : book := drop_from_queue (set_expo b e) (e_odds e) idx.

Lemma ekeys_set_expo_existing b e e0 : ge b (e_odds e) (e_part e) = Some e0 -> map ekey (bk_expo (set_expo b e)) = map ekey (bk_expo b).
Proof.
  intros H. unfold set_expo. cbn [bk_expo book_upd]. apply upd_map_same.
  - apply existsb_exists. unfold ge, findb in H. apply find_some in H. exists e0. exact H.
  - intros x _ Hx. apply expo_is_ekey in Hx. exact Hx.
Qed.
Lemma in_set_expo b e x : In x (bk_expo (set_expo b e)) -> x = e \/ In x (bk_expo b).
Proof. unfold set_expo. cbn [bk_expo book_upd]. apply in_upd. Qed.

Record same_static (b b' : book) : Prop := {
  ss_parts : bk_parts b' = bk_parts b; ss_partcnt : bk_partcnt b' = bk_partcnt b; ss_oddscnt : bk_oddscnt b' = bk_oddscnt b;
  ss_status : bk_status b' = bk_status b; ss_qkeys : map fst (bk_queues b') = map fst (bk_queues b);
  ss_hist : bk_hist b' = bk_hist b }.
Lemma ss_refl b : same_static b b. Proof. constructor; reflexivity. Qed.
Lemma ss_trans a b c : same_static a b -> same_static b c -> same_static a c.
Proof. intros [] []. constructor; congruence. Qed.
Lemma ss_set_expo b e : same_static b (set_expo b e). Proof. constructor; reflexivity. Qed.
Lemma ss_add_pair b x y : same_static b (add_pair b x y). Proof. constructor; reflexivity. Qed.
Lemma ss_drop b o x : same_static b (drop_from_queue b o x).
Proof.
  constructor; try (unfold drop_from_queue; destruct (get_queue b o); reflexivity).
  apply qkeys_drop.
Qed.

Lemma sec_fold_spec idx upds : forall b,
  NoDup (map e_odds upds) -> (forall u, In u upds -> e_part u = idx /\ exists e0, ge b (e_odds u) idx = Some e0) ->
  let b' := fold_left (sec_step idx) upds b in
  same_static b b' /\
  (forall u, In u upds -> ge b' (e_odds u) idx = Some u) /\
  (forall o i, (i <> idx \/ ~ In o (map e_odds upds)) -> ge b' o i = ge b o i) /\
  (forall o, ~ In o (map e_odds upds) -> get_queue b' o = get_queue b o) /\
  (forall o ql, In o (map e_odds upds) -> get_queue b o = Some ql -> get_queue b' o = Some (filter (fun y => negb (y =? idx)) ql)) /\
  (ix_eq b -> ix_eq b') /\ map ekey (bk_expo b') = map ekey (bk_expo b) /\
  (forall x, In x (bk_expo b') -> In x upds \/ In x (bk_expo b)).
Proof.
  induction upds as [|u rest IH]; intros b Hnd Hall; cbn [fold_left].
  - split; [apply ss_refl|]. split; [intros u []|]. split; [reflexivity|]. split; [reflexivity|]. split; [intros o0 ql0 []|].
    split; [trivial|]. split; [reflexivity|]. intros x Hx. right. exact Hx.
  - cbn [map] in Hnd. inversion Hnd as [|? ? Hni Hnd']; subst.
    destruct (Hall u (or_introl eq_refl)) as [Hpu (e0 & He0)].
    set (b1 := sec_step idx b u).
    assert (G1 : forall o i, ge b1 o i = if expo_is o i u then Some u else ge b o i).
    { intros o i. unfold b1, sec_step. rewrite ge_drop. destruct (expo_is o i u) eqn:E.
      - apply expo_is_key in E. destruct E as [<- <-]. apply ge_set_expo_same.
      - apply ge_set_expo_other. intros Hk. inv Hk. rewrite expo_is_self in E. discriminate. }
    assert (Hall1 : forall v, In v rest -> e_part v = idx /\ exists e1, ge b1 (e_odds v) idx = Some e1).
    { intros v Hv. destruct (Hall v (or_intror Hv)) as [Hpv (e1 & He1)]. split; [exact Hpv|]. rewrite G1.
      destruct (expo_is (e_odds v) idx u); eexists; [reflexivity|exact He1]. }
    destruct (IH b1 Hnd' Hall1) as (S & A & B & C & D & E & F & G).
    split; [eapply ss_trans; [|exact S]; unfold b1, sec_step; eapply ss_trans; [apply ss_set_expo|apply ss_drop]|].
    split; [|split; [|split; [|split; [|split; [|split]]]]].
    + intros v [<-|Hv]; [|apply A; exact Hv].
      rewrite B by (right; exact Hni). rewrite G1. rewrite <- Hpu. rewrite expo_is_self. reflexivity.
    + intros o i Hc. rewrite B by (destruct Hc as [Hc|Hc]; [left; exact Hc|right; intros Hin; apply Hc; right; exact Hin]).
      rewrite G1. destruct (expo_is o i u) eqn:Ek; [|reflexivity]. exfalso. apply expo_is_key in Ek. destruct Ek as [<- <-].
      destruct Hc as [Hc|Hc]; [apply Hc; exact Hpu|apply Hc; left; reflexivity].
    + intros o Hn. rewrite C by (intros Hin; apply Hn; right; exact Hin).
      unfold b1, sec_step. rewrite gq_drop_other by (intros ->; apply Hn; left; reflexivity). reflexivity.
    + intros o ql [<-|Hin] Hq.
      * rewrite C by exact Hni. unfold b1, sec_step. apply gq_drop_same. exact Hq.
      * apply D; [exact Hin|]. unfold b1, sec_step. rewrite gq_drop_other; [exact Hq|].
        intros ->. apply Hni. exact Hin.
    + intros Hix. apply E. unfold b1, sec_step. apply ix_drop_from_queue, ix_set_expo. exact Hix.
    + rewrite F. unfold b1, sec_step. rewrite expo_drop. eapply ekeys_set_expo_existing. rewrite Hpu. exact He0.
    + intros x Hx. destruct (G x Hx) as [Hx1|Hx1]; [left; right; exact Hx1|].
      unfold b1, sec_step in Hx1. rewrite expo_drop in Hx1. apply in_set_expo in Hx1. destruct Hx1 as [->|Hx1]; [left; left; reflexivity|right; exact Hx1].
Qed.

(* ---- one iteration, up to the two store writes (before a possible round refresh) --------------------------------------------- *)
Definition ful (e : expo) : expo := expo_upd e (e_exp e) (e_bet e) true.

Lemma ge_key b o i e : ge b o i = Some e -> e_odds e = o /\ e_part e = i /\ In e (bk_expo b).
Proof. unfold ge, findb. intros H. apply find_some in H. destruct H as [Hin Hk]. apply expo_is_key in Hk. tauto. Qed.

Lemma npred_S k x : npred (S k) x = npred k (u64_pred x). Proof. reflexivity. Qed.

Lemma iter_fulfilled_effect A idx it setf p1 pe1 uq bk0 p3 pe3 uq3 bk1 :
  iter_fulfilled A idx it setf p1 pe1 uq bk0 = Some (p3, pe3, uq3, bk1) ->
  (forall o, findb (fun e => e_odds e =? o) (fi_all it) = ge bk0 o idx) -> NoDup (wa_uids A) ->
  exists news,
    pe3 = (if setf then ful pe1 else pe1) /\
    p3 = (if setf then part_set_enf p1 (npred (S (length news)) (p_enf p1)) else p1) /\
    uq3 = (if setf then tl uq else uq) /\
    bk1 = fold_left (sec_step idx) news bk0 /\
    NoDup (map e_odds news) /\
    (forall u, In u news -> setf = true /\ e_part u = idx /\ In (e_odds u) (wa_uids A) /\ e_odds u <> wa_sel A /\
                            exists ex, ge bk0 (e_odds u) idx = Some ex /\ e_ful ex = false /\ u = ful ex).
Proof.
  unfold iter_fulfilled. intros H Hall Hnd.
  destruct setf.
  2:{ inv H. exists []. split; [reflexivity|]. split; [reflexivity|]. split; [reflexivity|]. split; [reflexivity|].
      split; [constructor|]. intros u0 []. }
  set (p2 := part_set_enf p1 (u64_pred (p_enf p1))) in *.
  assert (Hbase : exists news : list expo,
     ful pe1 = ful pe1 /\ p2 = part_set_enf p1 (npred (S (length news)) (p_enf p1)) /\ tl uq = tl uq /\
     bk0 = fold_left (sec_step idx) news bk0 /\ NoDup (map e_odds news) /\
     (forall u, In u news -> true = true /\ e_part u = idx /\ In (e_odds u) (wa_uids A) /\ e_odds u <> wa_sel A /\
                            exists ex, ge bk0 (e_odds u) idx = Some ex /\ e_ful ex = false /\ u = ful ex)).
  { exists []. split; [reflexivity|]. split; [reflexivity|]. split; [reflexivity|]. split; [reflexivity|].
    split; [constructor|]. intros u0 []. }
  destruct (eligible_pre p2); [|inv H; exact Hbase].
  destruct (p_enf p2 =? 0); [inv H; exact Hbase|]. clear Hbase.
  destruct (check_other _ _ _ _ _ _ _ _) as [[enf upds]|] eqn:EC; [|discriminate]. inv H.
  destruct (check_other_spec _ _ _ _ _ _ _ _ _ _ EC) as (news & E1 & E2 & E3 & E4 & E5). cbn [app] in E1. subst upds.
  exists news. split; [reflexivity|]. split; [rewrite E2; reflexivity|]. split; [reflexivity|]. split; [reflexivity|].
  split; [apply E4; exact Hnd|].
  intros u Hu. destruct (E3 u Hu) as (ex & F1 & F2 & F3 & F4 & F5 & F6). rewrite Hall in F1.
  destruct (ge_key _ _ _ _ F1) as (K1 & K2 & _).
  split; [reflexivity|]. split; [rewrite F3; cbn; exact K2|]. split; [exact F4|]. split; [exact F6|].
  exists ex. repeat split; assumption.
Qed.

Lemma iter_switch_cases A p0 pe0 s p1 pe1 setf so c1 :
  iter_switch A p0 pe0 s = (p1, pe1, setf, so, c1) -> 0 <= ws_profit s ->
  (so = None /\ p1 = p0 /\ pe1 = pe0 /\ setf = true) \/
  (exists st pay, so = Some (st, pay) /\ fulfil_records p0 pe0 (wa_sel A) st pay = (p1, pe1) /\
                  0 <= pay <= avail_liq (wa_mult A) p0 pe0 /\ 0 < avail_liq (wa_mult A) p0 pe0).
Proof.
  unfold iter_switch. intros H Hp.
  destruct (avail_liq (wa_mult A) p0 pe0 <=? 0) eqn:E0; [inv H; left; repeat split; reflexivity|]. apply Z.leb_gt in E0.
  destruct (avail_liq (wa_mult A) p0 pe0 <=? dec_trunc_int (ws_profit s)) eqn:E1.
  - destruct (bet_amount_int _ _ _) as [st0 c]. destruct (fulfil_records _ _ _ _ _) as [p e] eqn:EF. inv H.
    right. eexists _, _. split; [reflexivity|]. split; [exact EF|]. lia.
  - destruct (fulfil_records _ _ _ _ _) as [p e] eqn:EF. inv H. apply Z.leb_gt in E1.
    right. eexists _, _. split; [reflexivity|]. split; [exact EF|].
    unfold dec_trunc_int in *. rewrite chop_trunc_nonneg in * by exact Hp.
    pose proof PREC_pos. assert (0 <= ws_profit s / PREC) by (apply Z.div_pos; lia). lia.
Qed.

Lemma fulfil_records_shape p e o st pay p' e' :
  fulfil_records p e o st pay = (p', e') ->
  e' = expo_upd e (e_exp e + pay) (e_bet e + st) (e_ful e) /\
  p_idx p' = p_idx p /\ p_owner p' = p_owner p /\ p_liq p' = p_liq p /\ p_crl p' = p_crl p /\ p_enf p' = p_enf p /\
  p_tba p' = p_tba p + st /\ p_crtb p' = p_crtb p + st /\ p_maxloss p' = p_maxloss p /\ p_profit p' = p_profit p /\
  p_fee p' = p_fee p /\ p_settled p' = p_settled p.
Proof.
  unfold fulfil_records. cbv zeta. intros H.
  destruct (p_crml_odds p =? o); [inv H; repeat split|].
  match type of H with context [if ?c then _ else _] => destruct c end; inv H; repeat split.
Qed.

Lemma pidx_set_part_existing b p p0 : get_part b (p_idx p) = Some p0 -> map p_idx (bk_parts (set_part b p)) = map p_idx (bk_parts b).
Proof.
  intros H. unfold set_part. cbn [bk_parts book_upd]. apply upd_map_same.
  - apply existsb_exists. unfold get_part, findb in H. apply find_some in H. exists p0. exact H.
  - intros x _ Hx. unfold part_is in Hx. apply Z.eqb_eq in Hx. exact Hx.
Qed.
Lemma in_set_part b p x : In x (bk_parts (set_part b p)) -> x = p \/ In x (bk_parts b).
Proof. unfold set_part. cbn [bk_parts book_upd]. apply in_upd. Qed.

(* what the store looks like after the two writes of the iteration for participation idx *)
Record stored (A : wargs) (idx : Z) (b : book) (p0 : part) (pe0 : expo) (so : option (Z * Z)) (setf : bool) (news : list expo)
              (p1 : part) (pe1 : expo) (p3 : part) (pe3 : expo) (bk2 : book) : Prop := {
  st_p3 : p3 = (if setf then part_set_enf p1 (npred (S (length news)) (p_enf p1)) else p1);
  st_pe3 : pe3 = (if setf then ful pe1 else pe1);
  st_gp_same : get_part bk2 idx = Some p3;
  st_gp_other : forall i, i <> idx -> get_part bk2 i = get_part b i;
  st_ge_sel : ge bk2 (wa_sel A) idx = Some pe3;
  st_ge_news : forall u, In u news -> ge bk2 (e_odds u) idx = Some u;
  st_ge_other : forall o i, i <> idx \/ (o <> wa_sel A /\ ~ In o (map e_odds news)) -> ge bk2 o i = ge b o i;
  st_news_nd : NoDup (map e_odds news);
  st_news : forall u, In u news -> setf = true /\ e_part u = idx /\ In (e_odds u) (wa_uids A) /\ e_odds u <> wa_sel A /\
                                  exists ex, ge b (e_odds u) idx = Some ex /\ e_ful ex = false /\ u = ful ex;
  st_hist : bk_hist bk2 = bk_hist b;
  st_q_other : forall o, ~ In o (map e_odds news) -> get_queue bk2 o = get_queue b o;
  st_q_news : forall o ql, In o (map e_odds news) -> get_queue b o = Some ql -> get_queue bk2 o = Some (filter (fun y => negb (y =? idx)) ql);
  st_pidx : map p_idx (bk_parts bk2) = map p_idx (bk_parts b);
  st_partcnt : bk_partcnt bk2 = bk_partcnt b; st_oddscnt : bk_oddscnt bk2 = bk_oddscnt b; st_status : bk_status bk2 = bk_status b;
  st_qkeys : map fst (bk_queues bk2) = map fst (bk_queues b);
  st_ix : ix_eq b -> ix_eq bk2;
  st_ekeys : map ekey (bk_expo bk2) = map ekey (bk_expo b);
  st_parts_in : forall x, In x (bk_parts bk2) -> x = p3 \/ In x (bk_parts b) }.

Lemma iter_store A idx it s pe0 p1 pe1 setf so c1 ba fu pr pa bk0 p3 pe3 uq3 bk1 :
  agrees (ws_book s) (wa_sel A) idx it -> fi_pe it = Some pe0 -> NoDup (wa_uids A) ->
  iter_switch A (fi_part it) pe0 s = (p1, pe1, setf, so, c1) ->
  iter_betside A (fi_part it) so s = (ba, fu, pr, pa, bk0) ->
  iter_fulfilled A idx it setf p1 pe1 (ws_uq s) bk0 = Some (p3, pe3, uq3, bk1) ->
  p_idx p1 = idx -> ekey pe1 = (wa_sel A, idx) ->
  exists news, uq3 = (if setf then tl (ws_uq s) else ws_uq s) /\
    stored A idx (ws_book s) (fi_part it) pe0 so setf news p1 pe1 p3 pe3 (set_part (set_expo bk1 pe3) p3).
Proof.
  intros (Ag1 & Ag2 & Ag3) Hpe0 Hnd ES EB EF Hi1 Hk1.
  set (b := ws_book s) in *.
  assert (Hb0 : forall o i, ge bk0 o i = ge b o i /\ get_part bk0 i = get_part b i /\ get_queue bk0 o = get_queue b o).
  { intros o i. unfold iter_betside in EB. destruct so as [[st pay]|]; inv EB; repeat split. }
  assert (Hs0 : same_static b bk0 /\ (ix_eq b -> ix_eq bk0) /\ bk_expo bk0 = bk_expo b).
  { unfold iter_betside in EB. destruct so as [[st pay]|]; inv EB; (split; [first [apply ss_add_pair|apply ss_refl]|split; [trivial|reflexivity]]). }
  destruct Hs0 as (Hs0 & Hix0 & Hex0).
  destruct (iter_fulfilled_effect _ _ _ _ _ _ _ _ _ _ _ _ EF) as (news & N1 & N2 & N3 & N4 & N5 & N6);
    [intros o; rewrite Ag3; symmetry; apply Hb0|exact Hnd|].
  exists news. split; [exact N3|].
  assert (Hnews0 : forall u, In u news -> e_part u = idx /\ exists e0, ge bk0 (e_odds u) idx = Some e0).
  { intros u Hu. destruct (N6 u Hu) as (_ & K1 & _ & _ & ex & K2 & _). split; [exact K1|exists ex; exact K2]. }
  destruct (sec_fold_spec idx news bk0 N5 Hnews0) as (S & SA & SB & SC & SD & SE & SF & SG). rewrite <- N4 in *.
  assert (Hi3 : p_idx p3 = idx) by (rewrite N2; destruct setf; cbn; exact Hi1).
  assert (Hk3 : ekey pe3 = (wa_sel A, idx)) by (rewrite N1; destruct setf; exact Hk1).
  assert (Hk3' : e_odds pe3 = wa_sel A /\ e_part pe3 = idx) by (unfold ekey in Hk3; inv Hk3; split; reflexivity).
  destruct Hk3' as [Ho3 Hp3].
  assert (Hgsel : exists e0, ge bk1 (e_odds pe3) (e_part pe3) = Some e0).
  { rewrite Ho3, Hp3. rewrite SB.
    - exists pe0. rewrite (proj1 (Hb0 _ _)). rewrite <- Ag2. exact Hpe0.
    - right. intros Hin. apply in_map_iff in Hin. destruct Hin as (u & Hu1 & Hu2). destruct (N6 u Hu2) as (_ & _ & _ & K & _). congruence. }
  destruct Hgsel as (e0 & Hgsel).
  constructor.
  - exact N2.
  - exact N1.
  - rewrite <- Hi3. apply gp_set_part_same.
  - intros i Hne. rewrite gp_set_part_other by (rewrite Hi3; exact Hne). rewrite gp_set_expo.
    destruct S as [Sp _ _ _ _ _]. unfold get_part. rewrite Sp. exact (proj1 (proj2 (Hb0 0 i))).
  - rewrite ge_set_part. rewrite <- Ho3, <- Hp3. apply ge_set_expo_same.
  - intros u Hu. rewrite ge_set_part. destruct (N6 u Hu) as (_ & K1 & _ & K2 & _).
    rewrite ge_set_expo_other by (rewrite Ho3, Hp3; intros Hk; inv Hk; congruence). apply SA. exact Hu.
  - intros o i Hc. rewrite ge_set_part. rewrite ge_set_expo_other.
    + rewrite SB by (destruct Hc as [Hc|[_ Hc]]; [left; exact Hc|right; exact Hc]). exact (proj1 (Hb0 o i)).
    + rewrite Ho3, Hp3. intros Hk. inv Hk. destruct Hc as [Hc|[Hc _]]; apply Hc; reflexivity.
  - exact N5.
  - intros u Hu. destruct (N6 u Hu) as (K0 & K1 & K2 & K3 & ex & K4 & K5 & K6). rewrite (proj1 (Hb0 _ _)) in K4.
    repeat split; try assumption. exists ex. repeat split; assumption.
  - cbn [bk_hist set_part set_expo book_upd]. destruct S as [_ _ _ _ _ Sh]. rewrite Sh. apply Hs0.
  - intros o Hn. rewrite gq_set_part, gq_set_expo. rewrite SC by exact Hn. exact (proj2 (proj2 (Hb0 o 0))).
  - intros o ql Hin Hq. rewrite gq_set_part, gq_set_expo. apply SD; [exact Hin|]. rewrite (proj2 (proj2 (Hb0 o 0))). exact Hq.
  - rewrite (pidx_set_part_existing _ _ (fi_part it)).
    + rewrite parts_set_expo. destruct S as [Sp _ _ _ _ _]. rewrite Sp. destruct Hs0 as [Sp0 _ _ _ _ _]. rewrite Sp0. reflexivity.
    + rewrite Hi3, gp_set_expo. destruct S as [Sp _ _ _ _ _]. unfold get_part. rewrite Sp. rewrite <- Ag1. exact (proj1 (proj2 (Hb0 0 idx))).
  - destruct S as [_ Sc _ _ _ _]. destruct Hs0 as [_ Sc0 _ _ _ _]. cbn [bk_partcnt set_part set_expo book_upd]. congruence.
  - destruct S as [_ _ Sc _ _ _]. destruct Hs0 as [_ _ Sc0 _ _ _]. cbn [bk_oddscnt set_part set_expo book_upd]. congruence.
  - destruct S as [_ _ _ Sc _ _]. destruct Hs0 as [_ _ _ Sc0 _ _]. cbn [bk_status set_part set_expo book_upd]. congruence.
  - destruct S as [_ _ _ _ Sc _]. destruct Hs0 as [_ _ _ _ Sc0 _]. cbn [bk_queues set_part set_expo book_upd]. congruence.
  - intros Hix. apply ix_set_part, ix_set_expo, SE, Hix0, Hix.
  - cbn [bk_expo set_part book_upd]. rewrite (ekeys_set_expo_existing _ _ _ Hgsel). rewrite SF, Hex0. reflexivity.
  - intros x Hx. apply in_set_part in Hx. destruct Hx as [->|Hx]; [left; reflexivity|right].
    rewrite parts_set_expo in Hx. destruct S as [Sp _ _ _ _ _]. rewrite Sp in Hx. destruct Hs0 as [Sp0 _ _ _ _ _]. rewrite Sp0 in Hx. exact Hx.
Qed.

(* ---- refreshQueueAndState -------------------------------------------------------------------------------------------------- *)
Definition requeue1 (idx : Z) (l : list Z) : list Z :=
  (match l with h :: t => if h =? idx then t else l | [] => l end) ++ [idx].

Lemma gq_requeue b idx o : get_queue (set_queues b (requeue_all (bk_queues b) idx)) o = option_map (requeue1 idx) (get_queue b o).
Proof.
  unfold get_queue, set_queues, requeue_all, findb. cbn [bk_queues book_upd].
  induction (bk_queues b) as [|[k l] r IH]; cbn [map find fst snd]; [reflexivity|].
  destruct (k =? o); [reflexivity|exact IH].
Qed.
Lemma qkeys_requeue qs idx : map fst (requeue_all qs idx) = map fst qs.
Proof. unfold requeue_all. rewrite map_map. reflexivity. Qed.

Definition reset_part (A : wargs) (p3 : part) : part :=
  let p4 := part_set_crl p3 (p_crl p3 - zmax0 (p_crml p3)) in
  part_upd p4 (p_liq p4) (p_crl p4) (wa_oddscnt A) (p_tba p4) 0 (p_maxloss p4 + p_crml p4) 0 (p_crml_odds p4) (p_profit p4).

Lemma fmap_get_set_other fm idx it i : i <> idx -> fmap_get (fmap_set fm idx it) i = fmap_get fm i.
Proof.
  intros Hne. unfold fmap_get, fmap_set, findb.
  rewrite (find_upd_other (fun x : Z * fitem => fst x =? idx) (fun x => fst x =? i)); [reflexivity| |].
  - cbn. apply Z.eqb_neq. lia.
  - intros y Hy. apply Z.eqb_eq in Hy. apply Z.eqb_neq. lia.
Qed.

Record refreshed (A : wargs) (idx : Z) (bk2 : book) (p3 : part) (bk5 : book) : Prop := {
  rf_gp_same : get_part bk5 idx = Some (reset_part A p3);
  rf_gp_other : forall i, i <> idx -> get_part bk5 i = get_part bk2 i;
  rf_ge_same : forall o, ge bk5 o idx = option_map expo_next (ge bk2 o idx);
  rf_ge_other : forall o i, i <> idx -> ge bk5 o i = ge bk2 o i;
  rf_hist : bk_hist bk5 = bk_hist bk2 ++ filter (fun e => e_part e =? idx) (bk_expo bk2);
  rf_queue : forall o, get_queue bk5 o = option_map (requeue1 idx) (get_queue bk2 o);
  rf_pidx : map p_idx (bk_parts bk5) = map p_idx (bk_parts bk2);
  rf_partcnt : bk_partcnt bk5 = bk_partcnt bk2; rf_oddscnt : bk_oddscnt bk5 = bk_oddscnt bk2; rf_status : bk_status bk5 = bk_status bk2;
  rf_qkeys : map fst (bk_queues bk5) = map fst (bk_queues bk2);
  rf_ix : ix_eq bk5;
  rf_keys : NoDup (map ekey (bk_expo bk5));
  rf_expo_in : forall e', In e' (bk_expo bk5) -> exists e0, In e0 (bk_expo bk2) /\ ekey e0 = ekey e';
  rf_parts_in : forall x, In x (bk_parts bk5) -> x = reset_part A p3 \/ In x (bk_parts bk2) }.

Lemma in_filter_part b idx e : In e (filter (fun e => e_part e =? idx) (bk_expo b)) <-> In e (bk_expo b) /\ e_part e = idx.
Proof. rewrite filter_In, Z.eqb_eq. tauto. Qed.

Lemma nodup_map_filter {A B} (g : A -> B) (f : A -> bool) l : NoDup (map g l) -> NoDup (map g (filter f l)).
Proof.
  induction l as [|x r IH]; cbn [map filter]; intros H; [constructor|]. inversion H as [|? ? Hni Hnd]; subst.
  destruct (f x); cbn [map]; [constructor; [|apply IH; exact Hnd]|apply IH; exact Hnd].
  intros Hin. apply Hni. apply in_map_iff in Hin. destruct Hin as (y & Hy & Hin). apply filter_In in Hin. rewrite <- Hy. apply in_map. tauto.
Qed.

Lemma ge_of_in b e : NoDup (map ekey (bk_expo b)) -> In e (bk_expo b) -> ge b (e_odds e) (e_part e) = Some e.
Proof.
  intros Hnd Hin. unfold ge, findb. induction (bk_expo b) as [|x r IH]; [destruct Hin|].
  cbn [map] in Hnd. inversion Hnd as [|? ? Hni Hnd']; subst. cbn [find].
  destruct Hin as [->|Hin]; [rewrite expo_is_self; reflexivity|].
  destruct (expo_is (e_odds e) (e_part e) x) eqn:E; [|apply IH; assumption].
  exfalso. apply Hni. apply expo_is_ekey in E. rewrite E. apply (in_map ekey) in Hin. exact Hin.
Qed.

Lemma iter_refresh_effect A idx it p3 bk2 fm uq3 bk5 fm2 uq5 :
  iter_refresh A idx it p3 bk2 fm uq3 = (bk5, fm2, uq5) ->
  get_part bk2 idx = Some p3 -> eligible_pre p3 = true -> ix_eq bk2 -> NoDup (map ekey (bk_expo bk2)) ->
  (forall e h, In e (bk_expo bk2) -> e_part e = idx -> In h (bk_hist bk2) -> expo_is (e_odds e) (e_part e) h = true -> e_round h <> e_round e) ->
  refreshed A idx bk2 p3 bk5 /\ uq5 = uq3 ++ [idx] /\ (forall i, i <> idx -> fmap_get fm2 i = fmap_get fm i).
Proof.
  unfold iter_refresh. cbv zeta. intros H Hgp Hel Hix Hnd Habs.
  pose proof (gp_idx _ _ _ Hgp) as Hi3.
  set (p4 := part_set_crl p3 (p_crl p3 - zmax0 (p_crml p3))) in *.
  assert (He4 : eligible_next p4 = true).
  { unfold eligible_next, p4. cbn. unfold eligible_pre in Hel. exact Hel. }
  rewrite He4 in H.
  destruct (prep_expos (expos_of_part_ix bk2 idx) bk2 true (wa_sel A) None) as [bk3 pe4] eqn:EP.
  unfold expos_of_part_ix in EP. rewrite Hix in EP.
  set (pes := filter (fun e => e_part e =? idx) (bk_expo bk2)) in *.
  destruct (prep_expos_spec pes bk2 (wa_sel A) None bk3 pe4 EP) as (PA & PB & PC & PD & PE & PF & G1 & G2 & G3 & G4 & G5 & _).
  { apply nodup_map_filter. exact Hnd. }
  { exact Hnd. }
  { exact Hix. }
  { intros e h He Hh Hk. apply in_filter_part in He. destruct He as [He1 He2]. eapply Habs; eassumption. }
  assert (He5 : forall enf tba crtb ml crml co pr, eligible_next (part_upd p4 (p_liq p4) (p_crl p4) enf tba crtb ml crml co pr) = true) by (intros; exact He4).
  rewrite He5 in H.
  change (part_upd p4 (p_liq p4) (p_crl p4) (wa_oddscnt A) (p_tba p4) 0 (p_maxloss p4 + p_crml p4) 0 (p_crml_odds p4) (p_profit p4)) with (reset_part A p3) in H.
  set (p5 := reset_part A p3) in *.
  assert (Hi5 : p_idx p5 = idx) by exact Hi3.
  set (fm1 := match pe4 with Some e => fmap_set fm idx _ | None => fm end) in *.
  assert (Hfm : forall i, i <> idx -> fmap_get fm2 i = fmap_get fm i).
  { intros i Hne. injection H as E1 E2 E3. subst bk5 fm2 uq5.
    assert (H1 : fmap_get fm1 i = fmap_get fm i) by (unfold fm1; destruct pe4; [apply fmap_get_set_other; exact Hne|reflexivity]).
    destruct (fmap_get fm1 idx); [rewrite fmap_get_set_other by exact Hne|]; exact H1. }
  split; [|split; [injection H as E1 E2 E3; congruence|exact Hfm]].
  injection H as E1 E2 E3. subst bk5. clear E2 E3.
  assert (Hgp3 : get_part bk3 idx = Some p3) by (unfold get_part; rewrite G1; exact Hgp).
  constructor.
  - rewrite gp_set_queues. rewrite <- Hi5. apply gp_set_part_same.
  - intros i Hne. rewrite gp_set_queues. rewrite gp_set_part_other by (rewrite Hi5; exact Hne). unfold get_part. rewrite G1. reflexivity.
  - intros o. rewrite ge_set_queues, ge_set_part.
    destruct (ge bk2 o idx) as [e|] eqn:Eg.
    + destruct (ge_key _ _ _ _ Eg) as (K1 & K2 & K3). cbn [option_map]. rewrite <- K1, <- K2. apply PA. apply in_filter_part. split; [exact K3|exact K2].
    + cbn [option_map]. rewrite PB; [exact Eg|]. intros Hin. apply in_map_iff in Hin. destruct Hin as (e & Hk & Hin).
      apply in_filter_part in Hin. destruct Hin as [Hin Hp]. unfold ekey in Hk. injection Hk as Hk1 Hk2.
      pose proof (ge_of_in _ _ Hnd Hin) as Hge. rewrite Hk1, Hk2 in Hge. congruence.
  - intros o i Hne. rewrite ge_set_queues, ge_set_part. apply PB. intros Hin. apply in_map_iff in Hin. destruct Hin as (e & Hk & Hin).
    apply in_filter_part in Hin. destruct Hin as [_ Hp]. unfold ekey in Hk. injection Hk as Hk1 Hk2. apply Hne. congruence.
  - cbn [bk_hist set_queues set_part book_upd]. exact PC.
  - intros o. change (bk_queues (set_part bk3 p5)) with (bk_queues bk3).
    pose proof (gq_requeue (set_part bk3 p5) idx o) as Hq. cbn [bk_queues set_part book_upd] in Hq. rewrite Hq.
    unfold get_queue. cbn [bk_queues set_part book_upd]. rewrite G2. reflexivity.
  - cbn [bk_parts set_queues book_upd]. rewrite (pidx_set_part_existing _ _ p3) by (rewrite Hi5; exact Hgp3). rewrite G1. reflexivity.
  - cbn [bk_partcnt set_queues set_part book_upd]. exact G4.
  - cbn [bk_oddscnt set_queues set_part book_upd]. exact G5.
  - cbn [bk_status set_queues set_part book_upd]. exact G3.
  - cbn [bk_queues set_queues book_upd]. rewrite qkeys_requeue. cbn [bk_queues set_part book_upd]. rewrite G2. reflexivity.
  - apply ix_set_queues, ix_set_part. exact PE.
  - cbn [bk_expo set_queues set_part book_upd]. exact PD.
  - intros e' He'. cbn [bk_expo set_queues set_part book_upd] in He'. destruct (PF e' He') as (e0 & [H0|H0] & Hk0).
    + exists e0. split; assumption.
    + apply in_filter_part in H0. exists e0. split; [tauto|exact Hk0].
  - intros x Hx. cbn [bk_parts set_queues book_upd] in Hx. apply in_set_part in Hx. destruct Hx as [->|Hx]; [left; reflexivity|right]. rewrite G1 in Hx. exact Hx.
Qed.

(* ---- sums over the outcomes ---------------------------------------------------------------------------------------------------- *)
Lemma sumo_ext odds f g : (forall o, In o odds -> f o = g o) -> sumo odds f = sumo odds g.
Proof.
  unfold sumo. induction odds as [|x r IH]; intros H; cbn [map zsum]; [reflexivity|].
  rewrite (H x (or_introl eq_refl)), IH; [reflexivity|]. intros o Ho. apply H. right. exact Ho.
Qed.
Lemma sumo_point odds f g sel d : NoDup odds -> In sel odds ->
  (forall o, In o odds -> g o = f o + (if o =? sel then d else 0)) -> sumo odds g = sumo odds f + d.
Proof.
  unfold sumo. induction odds as [|x r IH]; intros Hnd Hin H; [destruct Hin|]. cbn [map zsum].
  inversion Hnd as [|? ? Hni Hnd']; subst. rewrite (H x (or_introl eq_refl)).
  destruct Hin as [->|Hin].
  - rewrite Z.eqb_refl. assert (E : zsum (map g r) = zsum (map f r)); [|lia].
    apply (sumo_ext r). intros o Ho. rewrite (H o (or_intror Ho)).
    destruct (o =? sel) eqn:E; [apply Z.eqb_eq in E; subst; contradiction|lia].
  - destruct (x =? sel) eqn:E; [apply Z.eqb_eq in E; subst; contradiction|].
    rewrite IH; [lia|exact Hnd'|exact Hin|]. intros o Ho. apply H. right. exact Ho.
Qed.
Lemma sumo_dec_set odds f g K : NoDup odds -> NoDup K -> (forall k, In k K -> In k odds) ->
  (forall o, In o odds -> g o = f o - (if zmem o K then 1 else 0)) -> sumo odds g = sumo odds f - zlen K.
Proof.
  revert f g. induction K as [|k K IH]; intros f g Hnd HK Hsub H.
  - rewrite (sumo_ext odds g f); [unfold zlen; cbn; lia|]. intros o Ho. rewrite (H o Ho). cbn. lia.
  - inversion HK as [|? ? Hnk HK']; subst.
    set (h := fun o => f o - (if o =? k then 1 else 0)).
    assert (E1 : sumo odds h = sumo odds f + -1).
    { apply (sumo_point odds f h k (-1)); [exact Hnd|apply Hsub; left; reflexivity|]. intros o Ho. unfold h. destruct (o =? k); lia. }
    rewrite (IH h g Hnd HK'); [rewrite E1; unfold zlen; cbn [length]; lia| |].
    + intros x Hx. apply Hsub. right. exact Hx.
    + intros o Ho. rewrite (H o Ho). unfold h. cbn [zmem existsb].
      destruct (o =? k) eqn:E.
      * apply Z.eqb_eq in E. subst o. cbn [orb]. assert (zmem k K = false); [|rewrite H0; lia].
        destruct (zmem k K) eqn:Ez; [|reflexivity]. exfalso. apply Hnk. unfold zmem in Ez. apply existsb_exists in Ez.
        destruct Ez as (y & Hy & Ey). apply Z.eqb_eq in Ey. subst y. exact Hy.
      * cbn [orb]. change (existsb (Z.eqb o) K) with (zmem o K). lia.
Qed.
Lemma sumo_const odds f c : (forall o, In o odds -> f o = c) -> sumo odds f = c * zlen odds.
Proof.
  unfold sumo, zlen. induction odds as [|x r IH]; intros H; cbn [map zsum length]; [lia|].
  rewrite (H x (or_introl eq_refl)), IH by (intros o Ho; apply H; right; exact Ho). lia.
Qed.
Lemma sumo_nonneg odds f : (forall o, In o odds -> 0 <= f o) -> 0 <= sumo odds f.
Proof.
  unfold sumo. induction odds as [|x r IH]; intros H; cbn [map zsum]; [lia|].
  pose proof (H x (or_introl eq_refl)). assert (0 <= zsum (map f r)) by (apply IH; intros o Ho; apply H; right; exact Ho). lia.
Qed.
Lemma sumo_zero_each odds f : (forall o, In o odds -> 0 <= f o) -> sumo odds f = 0 -> forall o, In o odds -> f o = 0.
Proof.
  unfold sumo. induction odds as [|x r IH]; intros H Hs o Ho; [destruct Ho|]. cbn [map zsum] in Hs.
  pose proof (H x (or_introl eq_refl)). assert (0 <= zsum (map f r)) by (apply (sumo_nonneg r); intros y Hy; apply H; right; exact Hy).
  destruct Ho as [->|Ho]; [lia|]. apply IH; [intros y Hy; apply H; right; exact Hy|lia|exact Ho].
Qed.
Lemma sumo_le_len odds f : (forall o, In o odds -> f o <= 1) -> sumo odds f <= zlen odds.
Proof.
  unfold sumo, zlen. induction odds as [|x r IH]; intros H; cbn [map zsum length]; [lia|].
  pose proof (H x (or_introl eq_refl)). assert (zsum (map f r) <= Z.of_nat (length r)) by (apply IH; intros o Ho; apply H; right; exact Ho). lia.
Qed.

Lemma npred_exact k : forall x, Z.of_nat k <= x < U64 -> npred k x = x - Z.of_nat k.
Proof.
  induction k as [|k IH]; intros x Hx; cbn [npred]; [lia|].
  assert (E : u64_pred x = x - 1). { unfold u64_pred. rewrite Z.mod_small; lia. }
  rewrite E, IH; lia.
Qed.

Lemma unful_range b i o : 0 <= unful b i o <= 1.
Proof. unfold unful. destruct (ge b o i) as [e|]; [destruct (e_ful e)|]; lia. Qed.

(* ---- pw depends on the reads of participation i only ------------------------------------------------------------------------------ *)
Lemma pw_ext odds b b' i p :
  (forall o, ge b' o i = ge b o i) -> hist_i b' i = hist_i b i -> pw odds b i p -> pw odds b' i p.
Proof.
  intros Hg Hh [P1 (r & R1 & R2 & R3) P3 P4]. constructor.
  - exact P1.
  - exists r. split; [exact R1|]. split; [intros o Ho; rewrite Hg; apply R2; exact Ho|rewrite Hh; exact R3].
  - rewrite P3. apply sumo_ext. intros o _. unfold unful. rewrite Hg. reflexivity.
  - rewrite P4. apply sumo_ext. intros o _. unfold ebet. rewrite Hg. reflexivity.
Qed.
Lemma hist_i_eq b b' i : bk_hist b' = bk_hist b -> hist_i b' i = hist_i b i.
Proof. unfold hist_i. intros ->. reflexivity. Qed.

(* ---- the iteration keeps the structure of the records of participation idx ------------------------------------------------------ *)
Lemma switch_norm A p0 pe0 s p1 pe1 setf so c1 :
  iter_switch A p0 pe0 s = (p1, pe1, setf, so, c1) -> 0 <= ws_profit s ->
  exists st pay,
    pe1 = expo_upd pe0 (e_exp pe0 + pay) (e_bet pe0 + st) (e_ful pe0) /\
    p_idx p1 = p_idx p0 /\ p_owner p1 = p_owner p0 /\ p_enf p1 = p_enf p0 /\ p_crtb p1 = p_crtb p0 + st /\ p_tba p1 = p_tba p0 + st /\
    p_liq p1 = p_liq p0 /\ p_crl p1 = p_crl p0 /\
    (so = None -> st = 0 /\ pay = 0 /\ p1 = p0 /\ setf = true) /\
    (forall a b, so = Some (a, b) -> st = a /\ pay = b /\ fulfil_records p0 pe0 (wa_sel A) a b = (p1, pe1) /\
                                   0 <= b <= avail_liq (wa_mult A) p0 pe0 /\ 0 < avail_liq (wa_mult A) p0 pe0).
Proof.
  intros H Hp. destruct (iter_switch_cases _ _ _ _ _ _ _ _ _ H Hp) as [(-> & -> & -> & ->)|(st & pay & -> & EF & Hb & Ha)].
  - exists 0, 0. split; [destruct pe0; cbn; rewrite !Z.add_0_r; reflexivity|].
    do 7 (split; [try reflexivity; lia|]). split; [intros _; repeat split; reflexivity|intros a0 b0 Hab; discriminate Hab].
  - exists st, pay. destruct (fulfil_records_shape _ _ _ _ _ _ _ EF) as (E1 & E2 & E3 & E4 & E5 & E6 & E7 & E8 & _).
    split; [exact E1|]. do 7 (split; [assumption|]). split; [intros Hn; discriminate Hn|].
    intros a0 b0 Hab. injection Hab as <- <-. repeat split; try assumption; lia.
Qed.

Section Loop.
Variable odds : list Z.
Hypothesis Hndo : NoDup odds.
Hypothesis Hsmall : zlen odds < U64.

Lemma sumo_unful_bound b i : 0 <= sumo odds (unful b i) <= zlen odds.
Proof.
  split; [apply sumo_nonneg; intros o _; apply unful_range|apply sumo_le_len; intros o _; apply unful_range].
Qed.

Lemma pw_after_store A idx b p0 pe0 so setf news p1 pe1 p3 pe3 bk2 st pay :
  stored A idx b p0 pe0 so setf news p1 pe1 p3 pe3 bk2 ->
  wa_uids A = odds -> In (wa_sel A) odds ->
  pw odds b idx p0 -> ge b (wa_sel A) idx = Some pe0 -> e_ful pe0 = false ->
  pe1 = expo_upd pe0 (e_exp pe0 + pay) (e_bet pe0 + st) (e_ful pe0) ->
  p_idx p1 = p_idx p0 -> p_enf p1 = p_enf p0 -> p_crtb p1 = p_crtb p0 + st ->
  pw odds bk2 idx p3.
Proof.
  intros S Hu Hsel [P1 (r & R1 & R2 & R3) P3 P4] Hge0 Hful0 Epe1 Ei1 Eenf Ecrtb.
  destruct S. destruct (ge_key _ _ _ _ Hge0) as (K1 & K2 & _).
  assert (Hcur : forall o, In o odds -> ge bk2 o idx =
            if o =? wa_sel A then Some pe3 else if zmem o (map e_odds news) then option_map ful (ge b o idx) else ge b o idx).
  { intros o Ho. destruct (o =? wa_sel A) eqn:Es; [apply Z.eqb_eq in Es; subst o; exact st_ge_sel0|]. apply Z.eqb_neq in Es.
    destruct (zmem o (map e_odds news)) eqn:Ez.
    - unfold zmem in Ez. apply existsb_exists in Ez. destruct Ez as (y & Hy & Ey). apply Z.eqb_eq in Ey. subst y.
      apply in_map_iff in Hy. destruct Hy as (u & Hu1 & Hu2). destruct (st_news0 u Hu2) as (_ & _ & _ & _ & ex & X1 & X2 & X3).
      rewrite <- Hu1. rewrite (st_ge_news0 u Hu2), X1. cbn. rewrite X3. reflexivity.
    - apply st_ge_other0. right. split; [exact Es|]. intros Hin. assert (zmem o (map e_odds news) = true); [|congruence].
      unfold zmem. apply existsb_exists. exists o. split; [exact Hin|apply Z.eqb_refl]. }
  assert (Hpe3 : pe3 = expo_upd pe0 (e_exp pe0 + pay) (e_bet pe0 + st) (if setf then true else e_ful pe0)).
  { rewrite st_pe4, Epe1. destruct setf; reflexivity. }
  constructor.
  - rewrite st_p4. destruct setf; cbn; congruence.
  - exists r. split; [exact R1|]. split.
    + intros o Ho. rewrite (Hcur o Ho). destruct (R2 o Ho) as (e & G1 & G2 & G3 & G4).
      destruct (o =? wa_sel A) eqn:Es.
      * apply Z.eqb_eq in Es. rewrite Es in G1. rewrite Hge0 in G1. injection G1 as G1. subst e. exists pe3. rewrite Hpe3. cbn. repeat split; assumption.
      * destruct (zmem o (map e_odds news)); rewrite G1; cbn; eexists; (split; [reflexivity|]); cbn; repeat split; assumption.
    + rewrite (hist_i_eq b bk2 idx st_hist0). exact R3.
  - (* the counter of unfulfilled exposures *)
    destruct setf.
    + set (K := wa_sel A :: map e_odds news).
      assert (HK : sumo odds (unful bk2 idx) = sumo odds (unful b idx) - zlen K).
      { apply sumo_dec_set; [exact Hndo| | |].
        - unfold K. constructor; [|exact st_news_nd0]. intros Hin. apply in_map_iff in Hin. destruct Hin as (u & Hu1 & Hu2).
          destruct (st_news0 u Hu2) as (_ & _ & _ & X & _). congruence.
        - intros k [<-|Hk]; [exact Hsel|]. apply in_map_iff in Hk. destruct Hk as (u & Hu1 & Hu2).
          destruct (st_news0 u Hu2) as (_ & _ & X & _). rewrite <- Hu1, <- Hu. exact X.
        - intros o Ho. unfold unful. rewrite (Hcur o Ho). unfold K. cbn [zmem existsb].
          destruct (R2 o Ho) as (e & G1 & _).
          destruct (o =? wa_sel A) eqn:Es.
          + apply Z.eqb_eq in Es. subst o. rewrite Hge0, Hpe3. cbn. rewrite Hful0. lia.
          + cbn [orb]. change (existsb (Z.eqb o) (map e_odds news)) with (zmem o (map e_odds news)).
            destruct (zmem o (map e_odds news)) eqn:Ez; [|destruct (ge b o idx) as [x|]; [destruct (e_ful x)|]; lia].
            unfold zmem in Ez. apply existsb_exists in Ez. destruct Ez as (y & Hy & Ey). apply Z.eqb_eq in Ey. subst y.
            apply in_map_iff in Hy. destruct Hy as (u & Hu1 & Hu2). destruct (st_news0 u Hu2) as (_ & _ & _ & _ & ex & X1 & X2 & X3).
            rewrite <- Hu1, X1. cbn. rewrite X2. lia. }
      rewrite st_p4. cbn [p_enf part_set_enf part_upd]. rewrite Eenf, P3.
      assert (Hlen : zlen K = Z.of_nat (S (length news))) by (unfold K, zlen; cbn [length]; rewrite map_length; reflexivity).
      pose proof (sumo_unful_bound bk2 idx) as B2. pose proof (sumo_unful_bound b idx) as B1.
      rewrite npred_exact by lia. lia.
    + rewrite st_p4, Eenf, P3. apply sumo_ext. intros o Ho. unfold unful. rewrite (Hcur o Ho).
      assert (Hn : news = []) by (destruct news as [|u l]; [reflexivity|destruct (st_news0 u (or_introl eq_refl)) as (X & _); discriminate]).
      rewrite Hn. cbn [map zmem existsb].
      destruct (o =? wa_sel A) eqn:Es; [|reflexivity]. apply Z.eqb_eq in Es. subst o. rewrite Hge0, Hpe3. reflexivity.
  - (* current-round total bet amount *)
    assert (Ec3 : p_crtb p3 = p_crtb p0 + st) by (rewrite st_p4; destruct setf; cbn; exact Ecrtb).
    rewrite Ec3, P4. symmetry. apply (sumo_point odds (ebet b idx) (ebet bk2 idx) (wa_sel A) st Hndo Hsel).
    intros o Ho. unfold ebet. rewrite (Hcur o Ho).
    destruct (o =? wa_sel A) eqn:Es.
    + apply Z.eqb_eq in Es. subst o. rewrite Hge0, Hpe3. cbn. lia.
    + destruct (zmem o (map e_odds news)); [|lia]. destruct (ge b o idx) as [x|]; cbn; lia.
Qed.
End Loop.

Section Loop2.
Variable odds : list Z.
Hypothesis Hndo : NoDup odds.
Hypothesis Hsmall : zlen odds < U64.

Lemma filter_idem {A} (f : A -> bool) l : filter f (filter f l) = filter f l.
Proof. induction l as [|x r IH]; cbn; [reflexivity|]. destruct (f x) eqn:E; cbn; [rewrite E, IH; reflexivity|exact IH]. Qed.

Lemma pw_after_refresh A idx bk2 p3 bk5 :
  refreshed A idx bk2 p3 bk5 -> wa_oddscnt A = zlen odds ->
  NoDup (map ekey (bk_expo bk2)) -> (forall e, In e (bk_expo bk2) -> In (e_odds e) odds) ->
  pw odds bk2 idx p3 -> pw odds bk5 idx (reset_part A p3).
Proof.
  intros R Hoc Hnd Hexp [P1 (r & R1 & R2 & R3) P3 P4]. destruct R.
  assert (Hcur : forall o, In o odds -> exists e, ge bk2 o idx = Some e /\ ge bk5 o idx = Some (expo_next e) /\ e_odds e = o /\ e_part e = idx /\ e_round e = r).
  { intros o Ho. destruct (R2 o Ho) as (e & G1 & G2 & G3 & G4). exists e. rewrite rf_ge_same0, G1. repeat split; assumption. }
  constructor.
  - exact P1.
  - exists (r + 1). split; [lia|]. split.
    + intros o Ho. destruct (Hcur o Ho) as (e & _ & G & G2 & G3 & G4). exists (expo_next e). cbn. repeat split; try assumption. lia.
    + intros h Hh. unfold hist_i in Hh. rewrite rf_hist0, filter_app in Hh. apply in_app_or in Hh. destruct Hh as [Hh|Hh].
      * destruct (R3 h Hh) as [X1 X2]. split; [lia|exact X2].
      * rewrite filter_idem in Hh. apply in_filter_part in Hh. destruct Hh as [Hin Hp].
        pose proof (Hexp h Hin) as Ho. destruct (Hcur _ Ho) as (e & G1 & _ & _ & _ & G4).
        pose proof (ge_of_in _ _ Hnd Hin) as Hge. rewrite Hp, G1 in Hge. injection Hge as ->. split; [lia|exact Ho].
  - cbn [p_enf reset_part part_upd]. rewrite Hoc. rewrite (sumo_const odds (unful bk5 idx) 1); [lia|].
    intros o Ho. destruct (Hcur o Ho) as (e & _ & G & _). unfold unful. rewrite G. reflexivity.
  - cbn [p_crtb reset_part part_upd]. rewrite (sumo_const odds (ebet bk5 idx) 0); [lia|].
    intros o Ho. destruct (Hcur o Ho) as (e & _ & G & _). unfold ebet. rewrite G. reflexivity.
Qed.

(* ---- the whole book ---------------------------------------------------------------------------------------------------------------- *)
Lemma map_pidx_len b b' : map p_idx (bk_parts b') = map p_idx (bk_parts b) -> zlen (bk_parts b') = zlen (bk_parts b).
Proof. intros H. unfold zlen. rewrite <- (map_length p_idx (bk_parts b')), H, map_length. reflexivity. Qed.

Lemma ekeys_in b b' e : map ekey (bk_expo b') = map ekey (bk_expo b) -> In e (bk_expo b') -> exists e0, In e0 (bk_expo b) /\ ekey e0 = ekey e.
Proof. intros H Hin. exact (map_eq_in ekey _ _ e H Hin). Qed.

Lemma bw_after_store A idx b p0 pe0 so setf news p1 pe1 p3 pe3 bk2 st pay :
  stored A idx b p0 pe0 so setf news p1 pe1 p3 pe3 bk2 ->
  wa_uids A = odds -> In (wa_sel A) odds -> bw odds b ->
  get_part b idx = Some p0 -> ge b (wa_sel A) idx = Some pe0 -> e_ful pe0 = false ->
  pe1 = expo_upd pe0 (e_exp pe0 + pay) (e_bet pe0 + st) (e_ful pe0) ->
  p_idx p1 = p_idx p0 -> p_enf p1 = p_enf p0 -> p_crtb p1 = p_crtb p0 + st ->
  bw odds bk2.
Proof.
  intros S Hu Hsel W Hgp Hge0 Hful0 Epe1 Ei1 Eenf Ecrtb.
  pose proof (gp_idx _ _ _ Hgp) as Hi0.
  assert (Hin0 : In p0 (bk_parts b)) by (apply get_part_in in Hgp; tauto).
  assert (Hpw0 : pw odds b idx p0) by (rewrite <- Hi0; apply (bw_parts _ _ W); exact Hin0).
  pose proof (pw_after_store odds Hndo Hsmall _ _ _ _ _ _ _ _ _ _ _ _ _ _ _ S Hu Hsel Hpw0 Hge0 Hful0 Epe1 Ei1 Eenf Ecrtb) as Hpw3.
  destruct S. destruct W.
  assert (Hnd2 : NoDup (map p_idx (bk_parts bk2))) by (rewrite st_pidx0; exact bw_nodup0).
  constructor.
  - exact Hnd2.
  - intros p Hp. rewrite st_partcnt0. destruct (st_parts_in0 p Hp) as [->|Hp'].
    + assert (p_idx p3 = idx) by (apply (gp_idx bk2); exact st_gp_same0). rewrite H. rewrite <- Hi0. apply bw_range0. exact Hin0.
    + apply bw_range0. exact Hp'.
  - rewrite st_partcnt0, bw_count0. symmetry. apply map_pidx_len. exact st_pidx0.
  - rewrite st_oddscnt0. exact bw_oddscnt0.
  - apply st_ix0. exact bw_ix0.
  - rewrite st_ekeys0. exact bw_keys0.
  - intros e He. destruct (ekeys_in _ _ _ st_ekeys0 He) as (e0 & H0 & Hk). unfold ekey in Hk. injection Hk as Hk1 Hk2.
    destruct (bw_expo0 e0 H0) as [X1 (p & X2)]. rewrite <- Hk1, <- Hk2. split; [exact X1|].
    destruct (Z.eq_dec (e_part e0) idx) as [->|Hne]; [exists p3; exact st_gp_same0|exists p; rewrite st_gp_other0 by exact Hne; exact X2].
  - intros h Hh. rewrite st_hist0 in Hh. destruct (bw_hist0 h Hh) as (p & X).
    destruct (Z.eq_dec (e_part h) idx) as [->|Hne]; [exists p3; exact st_gp_same0|exists p; rewrite st_gp_other0 by exact Hne; exact X].
  - rewrite st_qkeys0. exact bw_qkeys0.
  - intros p Hp. destruct (Z.eq_dec (p_idx p) idx) as [Hi|Hne].
    + assert (p = p3). { pose proof (gp_of_in _ _ Hnd2 Hp) as G. rewrite Hi, st_gp_same0 in G. congruence. }
      subst p. rewrite Hi. exact Hpw3.
    + destruct (st_parts_in0 p Hp) as [->|Hp']; [exfalso; apply Hne; apply (gp_idx bk2); exact st_gp_same0|].
      apply (pw_ext odds b bk2); [intros o; apply st_ge_other0; left; exact Hne|apply hist_i_eq; exact st_hist0|apply bw_parts0; exact Hp'].
Qed.
End Loop2.

From Sge Require Import Proofs.WagerBounds.

Section Loop3.
Variable odds : list Z.
Hypothesis Hndo : NoDup odds.
Hypothesis Hsmall : zlen odds < U64.

Lemma filter_part_disjoint (l : list expo) i idx : i <> idx ->
  filter (fun h => e_part h =? i) (filter (fun e => e_part e =? idx) l) = [].
Proof.
  intros Hne. induction l as [|x r IH]; cbn; [reflexivity|]. destruct (e_part x =? idx) eqn:E1; cbn; [|exact IH].
  apply Z.eqb_eq in E1. destruct (e_part x =? i) eqn:E2; [apply Z.eqb_eq in E2; congruence|exact IH].
Qed.
Lemma hist_i_refresh_other A idx bk2 p3 bk5 i : refreshed A idx bk2 p3 bk5 -> i <> idx -> hist_i bk5 i = hist_i bk2 i.
Proof.
  intros R Hne. destruct R. unfold hist_i. rewrite rf_hist0, filter_app, (filter_part_disjoint _ _ _ Hne), app_nil_r. reflexivity.
Qed.

Lemma bw_after_refresh A idx bk2 p3 bk5 :
  refreshed A idx bk2 p3 bk5 -> wa_oddscnt A = zlen odds -> bw odds bk2 -> get_part bk2 idx = Some p3 -> bw odds bk5.
Proof.
  intros R Hoc W Hgp.
  pose proof (gp_idx _ _ _ Hgp) as Hi3.
  assert (Hin3 : In p3 (bk_parts bk2)) by (apply get_part_in in Hgp; tauto).
  assert (Hpw3 : pw odds bk2 idx p3) by (rewrite <- Hi3; apply (bw_parts _ _ W); exact Hin3).
  assert (Hpw5 : pw odds bk5 idx (reset_part A p3)).
  { eapply pw_after_refresh; try eassumption; [apply (bw_keys _ _ W)|intros e He; apply (bw_expo _ _ W e He)]. }
  pose proof (fun i => hist_i_refresh_other A idx bk2 p3 bk5 i R) as Hho.
  destruct R. destruct W.
  assert (Hnd5 : NoDup (map p_idx (bk_parts bk5))) by (rewrite rf_pidx0; exact bw_nodup0).
  constructor.
  - exact Hnd5.
  - intros p Hp. rewrite rf_partcnt0. destruct (rf_parts_in0 p Hp) as [->|Hp']; [|apply bw_range0; exact Hp'].
    change (p_idx (reset_part A p3)) with (p_idx p3). apply bw_range0. exact Hin3.
  - rewrite rf_partcnt0, bw_count0. symmetry. apply map_pidx_len. exact rf_pidx0.
  - rewrite rf_oddscnt0. exact bw_oddscnt0.
  - exact rf_ix0.
  - exact rf_keys0.
  - intros e He. destruct (rf_expo_in0 e He) as (e0 & H0 & Hk). unfold ekey in Hk. injection Hk as Hk1 Hk2.
    destruct (bw_expo0 e0 H0) as [X1 (p & X2)]. rewrite <- Hk1, <- Hk2. split; [exact X1|].
    destruct (Z.eq_dec (e_part e0) idx) as [->|Hne]; [eexists; exact rf_gp_same0|exists p; rewrite rf_gp_other0 by exact Hne; exact X2].
  - intros h Hh. rewrite rf_hist0 in Hh. apply in_app_or in Hh. destruct Hh as [Hh|Hh].
    + destruct (bw_hist0 h Hh) as (p & X).
      destruct (Z.eq_dec (e_part h) idx) as [->|Hne]; [eexists; exact rf_gp_same0|exists p; rewrite rf_gp_other0 by exact Hne; exact X].
    + apply in_filter_part in Hh. destruct Hh as [_ Hp]. rewrite Hp. eexists. exact rf_gp_same0.
  - rewrite rf_qkeys0. exact bw_qkeys0.
  - intros p Hp. destruct (Z.eq_dec (p_idx p) idx) as [Hi|Hne].
    + assert (p = reset_part A p3). { pose proof (gp_of_in _ _ Hnd5 Hp) as G. rewrite Hi, rf_gp_same0 in G. congruence. }
      subst p. rewrite Hi. exact Hpw5.
    + destruct (rf_parts_in0 p Hp) as [->|Hp']; [exfalso; apply Hne; exact Hi3|].
      apply (pw_ext odds bk2 bk5); [intros o; apply rf_ge_other0; exact Hne| |apply bw_parts0; exact Hp'].
      apply Hho. exact Hne.
Qed.

(* ---- the queues of the other outcomes ------------------------------------------------------------------------------------------------ *)
Definition qinv (sel : Z) (b : book) : Prop := forall o ql, o <> sel -> get_queue b o = Some ql -> queue_ok b o ql.

Lemma qinv_after_store A idx b p0 pe0 so setf news p1 pe1 p3 pe3 bk2 :
  stored A idx b p0 pe0 so setf news p1 pe1 p3 pe3 bk2 -> qinv (wa_sel A) b -> qinv (wa_sel A) bk2.
Proof.
  intros S Q o ql' Hne Hq'. destruct S.
  assert (Hk : In o (map fst (bk_queues b))) by (rewrite <- st_qkeys0; eapply gq_in_keys; exact Hq').
  destruct (keys_in_gq _ _ Hk) as (ql & Hq). destruct (Q o ql Hne Hq) as [Hnd Hel].
  destruct (in_dec Z.eq_dec o (map e_odds news)) as [Hin|Hni].
  - rewrite (st_q_news0 o ql Hin Hq) in Hq'. injection Hq' as <-. split; [apply NoDup_filter; exact Hnd|].
    intros i Hi. apply filter_In in Hi. destruct Hi as [Hi Hx]. apply negb_true_iff, Z.eqb_neq in Hx.
    destruct (Hel i Hi) as (p & e & X1 & X2 & X3). exists p, e. rewrite st_gp_other0 by exact Hx. rewrite st_ge_other0 by (left; exact Hx). tauto.
  - rewrite (st_q_other0 o Hni), Hq in Hq'. injection Hq' as <-. split; [exact Hnd|].
    intros i Hi. destruct (Hel i Hi) as (p & e & X1 & X2 & X3).
    destruct (Z.eq_dec i idx) as [->|Hx].
    + exists p3, e. rewrite st_ge_other0 by (right; split; assumption). tauto.
    + exists p, e. rewrite st_gp_other0 by exact Hx. rewrite st_ge_other0 by (left; exact Hx). tauto.
Qed.

Lemma requeue1_notin idx l : ~ In idx l -> requeue1 idx l = l ++ [idx].
Proof.
  intros Hn. unfold requeue1. destruct l as [|h t]; [reflexivity|]. destruct (h =? idx) eqn:E; [|reflexivity].
  apply Z.eqb_eq in E. exfalso. apply Hn. left. exact E.
Qed.

Lemma qinv_after_refresh A idx bk2 p3 bk5 :
  refreshed A idx bk2 p3 bk5 -> bw odds bk2 -> get_part bk2 idx = Some p3 -> qinv (wa_sel A) bk2 ->
  (forall o e, ge bk2 o idx = Some e -> e_ful e = true) -> qinv (wa_sel A) bk5.
Proof.
  intros R W Hgp Q Hall o ql' Hne Hq'. destruct R.
  rewrite rf_queue0 in Hq'. destruct (get_queue bk2 o) as [ql|] eqn:Hq; [|discriminate]. cbn in Hq'. injection Hq' as <-.
  destruct (Q o ql Hne Hq) as [Hnd Hel].
  assert (Hni : ~ In idx ql). { intros Hin. destruct (Hel idx Hin) as (p & e & _ & X2 & X3). rewrite (Hall o e X2) in X3. discriminate. }
  rewrite (requeue1_notin _ _ Hni). split; [apply NoDup_snoc; assumption|].
  intros i Hi. apply in_app_or in Hi. destruct Hi as [Hi|[<-|[]]].
  - destruct (Hel i Hi) as (p & e & X1 & X2 & X3). assert (Hx : i <> idx) by (intros ->; exact (Hni Hi)).
    exists p, e. rewrite rf_gp_other0, rf_ge_other0 by exact Hx. tauto.
  - assert (Ho : In o odds) by (rewrite <- (bw_qkeys _ _ W); eapply gq_in_keys; exact Hq).
    pose proof (gp_idx _ _ _ Hgp) as Hi3. assert (Hin3 : In p3 (bk_parts bk2)) by (apply get_part_in in Hgp; tauto).
    destruct (pw_round _ _ _ _ (bw_parts _ _ W p3 Hin3)) as (r & _ & R2 & _). rewrite Hi3 in R2.
    destruct (R2 o Ho) as (e & G1 & _). eexists _, (expo_next e). rewrite rf_gp_same0, rf_ge_same0, G1. repeat split.
Qed.
End Loop3.

(* ---- the loop ------------------------------------------------------------------------------------------------------------------------------ *)
Section Loop4.
Variable odds : list Z.
Hypothesis Hndo : NoDup odds.
Hypothesis Hsmall : zlen odds < U64.
Variable A : wargs.
Hypothesis Huids : wa_uids A = odds.
Hypothesis Hoc : wa_oddscnt A = zlen odds.
Hypothesis Hsel : In (wa_sel A) odds.

Definition unful_in (b : book) (i : Z) : Prop :=
  exists p e, get_part b i = Some p /\ ge b (wa_sel A) i = Some e /\ e_ful e = false.

Record lfin (s : wstate) : Prop := {
  lf_bw : bw odds (ws_book s);
  lf_qinv : qinv (wa_sel A) (ws_book s);
  lf_uq : queue_ok (ws_book s) (wa_sel A) (ws_uq s) }.

Record linv (B : Z) (q : list Z) (s : wstate) : Prop := {
  li_bw : bw odds (ws_book s);
  li_qinv : qinv (wa_sel A) (ws_book s);
  li_uq : exists R, ws_uq s = q ++ R /\ NoDup (q ++ R) /\ (forall i, In i R -> unful_in (ws_book s) i);
  li_q : forall i, In i q -> unful_in (ws_book s) i /\ exists it, fmap_get (ws_fmap s) i = Some it /\ agrees (ws_book s) (wa_sel A) i it;
  li_bound : wbound B s }.

Lemma linv_fin B q s : linv B q s -> lfin s.
Proof.
  intros [W Q (R & E & Hnd & HR) Hq _]. constructor; [exact W|exact Q|]. rewrite E. split; [exact Hnd|].
  intros i Hi. apply in_app_or in Hi. destruct Hi as [Hi|Hi]; [apply (Hq i Hi)|apply HR; exact Hi].
Qed.

Lemma wager_setf_eq idx s it pe0 p1 pe1 setf so c1 :
  fmap_get (ws_fmap s) idx = Some it -> fi_pe it = Some pe0 ->
  iter_switch A (fi_part it) pe0 s = (p1, pe1, setf, so, c1) -> wager_setf A idx s = setf.
Proof.
  intros Hf Hpe H. unfold wager_setf. rewrite Hf, Hpe. unfold iter_switch in H.
  destruct (avail_liq (wa_mult A) (fi_part it) pe0 <=? 0); [inv H; reflexivity|].
  destruct (avail_liq (wa_mult A) (fi_part it) pe0 <=? dec_trunc_int (ws_profit s)).
  - destruct (bet_amount_int _ _ _). destruct (fulfil_records _ _ _ _ _). inv H. reflexivity.
  - destruct (fulfil_records _ _ _ _ _). inv H. reflexivity.
Qed.

Lemma wager_iter_linv B idx rest s s' :
  wager_iter A idx s = Some s' -> linv B (idx :: rest) s ->
  if wager_setf A idx s then linv B rest s' else lfin s'.
Proof.
  intros H L. pose proof (wager_iter_bound B _ _ _ _ H (li_bound _ _ _ L)) as Hb'.
  destruct L as [W Q (R & EU & NU & HR) Hq Hb].
  destruct (Hq idx (or_introl eq_refl)) as [(p0' & e0' & Hgp & Hge0 & Hful0) (it & Hf & Hag)].
  unfold wager_iter in H. rewrite Hf in H.
  pose proof Hag as (Ag1 & Ag2 & Ag3). rewrite Hgp in Ag1. injection Ag1 as Ep0. subst p0'.
  rewrite Hge0 in Ag2. rewrite Ag2 in H. rename e0' into pe0.
  destruct (iter_switch A (fi_part it) pe0 s) as [[[[p1 pe1] setf] so] c1] eqn:ES.
  rewrite (wager_setf_eq _ _ _ _ _ _ _ _ _ Hf Ag2 ES).
  destruct (switch_norm _ _ _ _ _ _ _ _ _ ES (wb_profit _ _ Hb)) as (st & pay & Epe1 & Ei1 & _ & Eenf & Ecrtb & _ & _ & _ & _ & _).
  destruct (iter_betside A (fi_part it) so s) as [[[[ba fu] pr] pa] bk0] eqn:EB.
  destruct (iter_fulfilled A idx it setf p1 pe1 (ws_uq s) bk0) as [[[[p3 pe3] uq3] bk1]|] eqn:EF; [|discriminate].
  pose proof (gp_idx _ _ _ Hgp) as Hi0.
  destruct (ge_key _ _ _ _ Hge0) as (K1 & K2 & _).
  assert (Hk1 : ekey pe1 = (wa_sel A, idx)) by (rewrite Epe1; unfold ekey; cbn; congruence).
  destruct (iter_store A idx it s pe0 p1 pe1 setf so c1 ba fu pr pa bk0 p3 pe3 uq3 bk1 Hag Ag2 ltac:(rewrite Huids; exact Hndo) ES EB EF ltac:(congruence) Hk1)
    as (news & Euq3 & S).
  set (bk2 := set_part (set_expo bk1 pe3) p3) in *.
  assert (W2 : bw odds bk2) by (eapply (bw_after_store odds Hndo Hsmall); eassumption).
  assert (Q2 : qinv (wa_sel A) bk2) by (eapply qinv_after_store; eassumption).
  assert (Hgp3 : get_part bk2 idx = Some p3) by (destruct S; assumption).
  assert (Hge3 : ge bk2 (wa_sel A) idx = Some pe3) by (destruct S; assumption).
  assert (Hful3 : e_ful pe3 = setf).
  { destruct S. rewrite st_pe4, Epe1. destruct setf; cbn; [reflexivity|exact Hful0]. }
  (* reads of the other participations are unchanged *)
  assert (Hoth : forall i, i <> idx -> get_part bk2 i = get_part (ws_book s) i /\ forall o, ge bk2 o i = ge (ws_book s) o i).
  { intros i Hne. destruct S. split; [apply st_gp_other0; exact Hne|intros o; apply st_ge_other0; left; exact Hne]. }
  assert (Huf_oth : forall i, i <> idx -> unful_in (ws_book s) i -> unful_in bk2 i).
  { intros i Hne (p & e & X1 & X2 & X3). destruct (Hoth i Hne) as [Y1 Y2]. exists p, e. rewrite Y1, Y2. tauto. }
  assert (Hag_oth : forall i x, i <> idx -> agrees (ws_book s) (wa_sel A) i x -> agrees bk2 (wa_sel A) i x).
  { intros i x Hne (X1 & X2 & X3). destruct (Hoth i Hne) as [Y1 Y2]. unfold agrees. rewrite Y1, Y2. repeat split; try assumption.
    intros o. rewrite Y2. apply X3. }
  cbn [app] in EU, NU. pose proof (NoDup_cons_iff idx (rest ++ R)) as Hcons. apply Hcons in NU. destruct NU as [Hni NU']. clear Hcons.
  destruct ((p_enf p3 =? 0) && eligible_pre p3) eqn:ERf.
  - (* all exposures of idx are fulfilled and liquidity remains: next round *)
    apply andb_true_iff in ERf. destruct ERf as [Eenf0 Eel]. apply Z.eqb_eq in Eenf0.
    assert (Hin3 : In p3 (bk_parts bk2)) by (apply get_part_in in Hgp3; tauto).
    pose proof (gp_idx _ _ _ Hgp3) as Hi3.
    assert (Hpw3 : pw odds bk2 idx p3) by (rewrite <- Hi3; apply (bw_parts _ _ W2); exact Hin3).
    assert (Hallful : forall o e, ge bk2 o idx = Some e -> e_ful e = true).
    { intros o e Hg. destruct (ge_key _ _ _ _ Hg) as (X1 & X2 & X3). destruct (bw_expo _ _ W2 e X3) as [Ho _]. rewrite X1 in Ho.
      pose proof (sumo_zero_each odds (unful bk2 idx) (fun x _ => proj1 (unful_range bk2 idx x))) as Hz.
      rewrite <- (pw_enf _ _ _ _ Hpw3), Eenf0 in Hz. specialize (Hz eq_refl o Ho). unfold unful in Hz. rewrite Hg in Hz.
      destruct (e_ful e); [reflexivity|discriminate]. }
    assert (Hsetf : setf = true).
    { destruct setf; [reflexivity|]. rewrite (Hallful _ _ Hge3) in Hful3. discriminate. }
    clear Hful3. subst setf.
    destruct (iter_refresh A idx it p3 bk2 (ws_fmap s) uq3) as [[bk5 fm2] uq5] eqn:ER.
    destruct (iter_refresh_effect _ _ _ _ _ _ _ _ _ _ ER Hgp3 Eel (bw_ix _ _ W2) (bw_keys _ _ W2)) as (Rf & Euq5 & Hfm5).
    { intros e h He Hp Hh Hk. destruct (pw_round _ _ _ _ Hpw3) as (r & _ & R2 & R3).
      destruct (bw_expo _ _ W2 e He) as [Ho _]. destruct (R2 _ Ho) as (e' & G1 & _ & _ & G4).
      pose proof (ge_of_in _ _ (bw_keys _ _ W2) He) as Hge. rewrite Hp, G1 in Hge. injection Hge as ->.
      apply expo_is_key in Hk. destruct Hk as [_ Hk]. rewrite Hp in Hk.
      assert (Hhi : In h (hist_i bk2 idx)) by (unfold hist_i; apply filter_In; split; [exact Hh|apply Z.eqb_eq; exact Hk]).
      destruct (R3 h Hhi) as [X _]. lia. }
    injection H as Hs'. subst s'.
    assert (W5 : bw odds bk5) by (eapply (bw_after_refresh odds); eassumption).
    assert (Q5 : qinv (wa_sel A) bk5) by (eapply (qinv_after_refresh odds); eassumption).
    assert (Hoth5 : forall i, i <> idx -> get_part bk5 i = get_part bk2 i /\ forall o, ge bk5 o i = ge bk2 o i).
    { intros i Hne. destruct Rf. split; [apply rf_gp_other0; exact Hne|intros o; apply rf_ge_other0; exact Hne]. }
    cbv beta iota. constructor; cbn [ws_book ws_fmap ws_uq].
    + exact W5.
    + exact Q5.
    + exists (R ++ [idx]). rewrite Euq5, Euq3, EU. cbn [tl]. rewrite <- app_assoc. split; [reflexivity|]. split.
      * rewrite app_assoc. apply NoDup_snoc; assumption.
      * intros i Hi. apply in_app_or in Hi. destruct Hi as [Hi|[<-|[]]].
        -- assert (Hne : i <> idx) by (intros ->; apply Hni; apply in_or_app; right; exact Hi).
           destruct (Huf_oth i Hne (HR i Hi)) as (p & e & X1 & X2 & X3). destruct (Hoth5 i Hne) as [Y1 Y2].
           exists p, e. rewrite Y1, Y2. tauto.
        -- destruct Rf. destruct (pw_round _ _ _ _ Hpw3) as (r & _ & R2 & _). destruct (R2 _ Hsel) as (e & G1 & _).
           eexists _, (expo_next e). rewrite rf_gp_same0, rf_ge_same0, G1. repeat split.
    + intros i Hi. assert (Hne : i <> idx) by (intros ->; apply Hni; apply in_or_app; left; exact Hi).
      destruct (Hq i (or_intror Hi)) as [Hu (x & Hx & Hax)]. destruct (Hoth5 i Hne) as [Y1 Y2]. split.
      * destruct (Huf_oth i Hne Hu) as (p & e & X1 & X2 & X3). exists p, e. rewrite Y1, Y2. tauto.
      * exists x. split; [rewrite Hfm5 by exact Hne; exact Hx|].
        destruct (Hag_oth i x Hne Hax) as (X1 & X2 & X3). unfold agrees. rewrite Y1, Y2. repeat split; try assumption.
        intros o. rewrite Y2. apply X3.
    + exact Hb'.
  - injection H as Hs'. subst s'. destruct setf.
    + cbv beta iota. constructor; cbn [ws_book ws_fmap ws_uq].
      * exact W2.
      * exact Q2.
      * exists R. rewrite Euq3, EU. cbn [tl]. split; [reflexivity|]. split; [exact NU'|].
        intros i Hi. apply Huf_oth; [intros ->; apply Hni; apply in_or_app; right; exact Hi|apply HR; exact Hi].
      * intros i Hi. assert (Hne : i <> idx) by (intros ->; apply Hni; apply in_or_app; left; exact Hi).
        destruct (Hq i (or_intror Hi)) as [Hu (x & Hx & Hax)]. split; [apply Huf_oth; assumption|].
        exists x. split; [exact Hx|apply Hag_oth; assumption].
      * exact Hb'.
    + cbv beta iota. constructor; cbn [ws_book ws_uq].
      * exact W2.
      * exact Q2.
      * rewrite Euq3, EU. split; [constructor; assumption|].
        intros i [<-|Hi]; [exists p3, pe3; tauto|].
        assert (Hne : i <> idx) by (intros ->; exact (Hni Hi)).
        apply Huf_oth; [exact Hne|]. apply in_app_or in Hi. destruct Hi as [Hi|Hi]; [apply (Hq i (or_intror Hi))|apply HR; exact Hi].
Qed.
End Loop4.

Section Loop5.
Variable odds : list Z.
Hypothesis Hndo : NoDup odds.
Hypothesis Hsmall : zlen odds < U64.
Variable A : wargs.
Hypothesis Huids : wa_uids A = odds.
Hypothesis Hoc : wa_oddscnt A = zlen odds.
Hypothesis Hsel : In (wa_sel A) odds.

(* the branch that does not remove the head of the queue covers the whole remaining profit: the loop stops after it *)
Lemma last_fill_ends idx s s' :
  wager_iter A idx s = Some s' -> wager_setf A idx s = false -> 0 <= ws_profit s -> ws_profit s' < PREC.
Proof.
  unfold wager_iter, wager_setf. intros H Hs Hp.
  destruct (fmap_get (ws_fmap s) idx) as [it|]; [|discriminate].
  destruct (fi_pe it) as [pe0|]; [|discriminate].
  unfold iter_switch in H.
  destruct (avail_liq (wa_mult A) (fi_part it) pe0 <=? 0); [discriminate|].
  destruct (avail_liq (wa_mult A) (fi_part it) pe0 <=? dec_trunc_int (ws_profit s)); [discriminate|].
  destruct (fulfil_records _ _ _ _ _) as [p e].
  cbn [iter_betside] in H.
  match type of H with context [iter_fulfilled ?a ?b ?c ?d ?e ?f ?g ?h] => destruct (iter_fulfilled a b c d e f g h) as [[[[p3 pe3] uq3] bk1]|] end; [|discriminate].
  assert (Hr : ws_profit s - dec_of_int (dec_trunc_int (ws_profit s)) < PREC).
  { unfold dec_trunc_int, dec_of_int. rewrite chop_trunc_nonneg by exact Hp. pose proof PREC_pos as HP.
    pose proof (Z.mod_pos_bound (ws_profit s) PREC HP). rewrite Z.mod_eq in H0 by lia. lia. }
  destruct ((p_enf p3 =? 0) && eligible_pre p3).
  - destruct (iter_refresh _ _ _ _ _ _ _) as [[bk5 fm2] uq5]. injection H as <-. cbn. exact Hr.
  - injection H as <-. cbn. exact Hr.
Qed.

Lemma wager_loop_lfin B fuel : forall q s s', wager_loop fuel A q s = Some s' -> linv odds A B q s -> lfin odds A s'.
Proof.
  induction fuel as [|f IH]; intros q s s' H L; destruct q as [|idx rest]; cbn [wager_loop] in H.
  - injection H as <-. eapply linv_fin; exact L.
  - discriminate.
  - injection H as <-. eapply linv_fin; exact L.
  - destruct (wager_iter A idx s) as [s1|] eqn:E; [|discriminate].
    pose proof (wager_iter_linv odds Hndo Hsmall A Huids Hoc Hsel B idx rest s s1 E L) as H1.
    destruct (wager_setf A idx s) eqn:Es.
    + destruct ((ws_profit s1 <? PREC) || _); [injection H as <-; eapply linv_fin; exact H1|]. eapply IH; eassumption.
    + pose proof (last_fill_ends _ _ _ E Es (wb_profit _ _ (li_bound _ _ _ _ _ L))) as Hlt.
      apply Z.ltb_lt in Hlt. rewrite Hlt in H. cbn [orb] in H. injection H as <-. exact H1.
Qed.

Lemma pw_set_queue b o q i p : pw odds b i p -> pw odds (set_queue b o q) i p.
Proof. apply pw_ext; reflexivity. Qed.

Lemma bw_set_queue b o q : bw odds b -> In o odds -> bw odds (set_queue b o q).
Proof.
  intros W Ho. destruct W. constructor; try assumption.
  - cbn [bk_queues set_queue book_upd]. rewrite <- bw_qkeys0. apply (qkeys_set_queue b o q). rewrite bw_qkeys0. exact Ho.
  - intros p Hp. apply pw_set_queue. apply bw_parts0. exact Hp.
Qed.

(* ProcessWager keeps the book well formed and every fulfilment queue duplicate-free and made of participations whose
   exposure on that outcome is still open *)
Theorem process_wager_bw b betamt profit bettor fee b' parts effs :
  process_wager b A betamt profit bettor fee = Some (b', parts, effs) ->
  bw odds b -> queues_ok b -> 0 <= betamt -> 0 <= profit -> bw odds b' /\ queues_ok b'.
Proof.
  unfold process_wager. intros H W Q Hb Hp.
  destruct (get_queue b (wa_sel A)) as [q|] eqn:Eq; [|discriminate].
  destruct (init_fmap b (wa_sel A)) as [fm|] eqn:EI; [|discriminate].
  match type of H with context [wager_loop ?f ?a ?qq ?s0] => destruct (wager_loop f a qq s0) as [s|] eqn:EL end; [|discriminate].
  destruct (PREC <=? ws_profit s); [discriminate|].
  destruct (ws_parts s); [discriminate|]. injection H as <- _ _.
  destruct (Q _ _ Eq) as [Hnd Hel].
  assert (L : lfin odds A s).
  { eapply (wager_loop_lfin betamt); [exact EL|]. constructor; cbn [ws_book ws_fmap ws_uq].
    - exact W.
    - intros o ql _ Hq. exact (Q o ql Hq).
    - exists []. rewrite app_nil_r. split; [reflexivity|]. split; [exact Hnd|intros i []].
    - intros i Hi. destruct (Hel i Hi) as (p & e & X1 & X2 & X3). split; [exists p, e; tauto|].
      eapply init_fmap_agrees; eassumption.
    - constructor; cbn; try lia. constructor. }
  destruct L as [W' Q' U']. split; [apply bw_set_queue; assumption|].
  intros o ql Hq. destruct (Z.eq_dec o (wa_sel A)) as [->|Hne].
  - rewrite gq_set_queue_same in Hq. injection Hq as <-. exact U'.
  - rewrite gq_set_queue_other in Hq by exact Hne. exact (Q' o ql Hne Hq).
Qed.
End Loop5.

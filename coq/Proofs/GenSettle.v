(* Proofs/GenSettle.v — x/orderbook/keeper/orderbook_settle.go settleParticipation and batchSettlementOfParticipation, generated from the
   source as functions on (effect log, participations of the book): the payments and hook calls the code makes are emitted as effects in
   order, SetOrderBookParticipation replaces the record with the same index.  They ARE the model's settle_participation and batch_parts
   (budget, "all settled" flag, settled count, records, effects). *)
From Coq Require Import ZArith Bool List Lia.
From Sge Require Import Lib.Dec Model.Types Model.Orderbook Model.Chain Gen.kernels Proofs.GenOb.
Import ListNotations.
Open Scope Z_scope.

Definition eff_code (e : effect) : Z * Z * Z * Z :=
  match e with
  | Pay f t a => (0, f, t, a)
  | HookWin a l p => (1, a, l, p)
  | HookLoss a l p => (2, a, l, p)
  | HookRefund a x => (3, a, x, 0)
  | HookFeeRefund a x => (4, a, x, 0)
  end.
Definition settle_state (effs : list effect) (parts : list part) : S_settle :=
  {| S_settle_Effects := map eff_code effs; S_settle_Parts := map gp_of parts |}.
Definition gmk (status creator : Z) : G_Market :=
  {| G_Market_UID := 0; G_Market_StartTS := 0; G_Market_EndTS := 0; G_Market_Odds := []; G_Market_WinnerOddsUIDs := []; G_Market_Status := status;
     G_Market_ResolutionTS := 0; G_Market_Creator := creator; G_Market_Meta := 0; G_Market_BookUID := 0 |}.

Lemma kupd_gp (parts : list part) q :
  kupd (fun g => G_OrderBookParticipation_Index g =? G_OrderBookParticipation_Index (gp_of q)) (gp_of q) (map gp_of parts) =
  map gp_of (upd (part_is (p_idx q)) q parts).
Proof.
  induction parts as [|a r IH]; cbn [map kupd upd]; [reflexivity|]. unfold part_is at 1. cbn [gp_of G_OrderBookParticipation_Index].
  destruct (p_idx a =? p_idx q); cbn [map]; [reflexivity|]. f_equal. exact IH.
Qed.

(* (an unsettled participation has no reimbursed fee recorded: the code leaves the field alone when the fee goes to the market creator,
   the model writes 0) *)
Lemma gen_settleParticipation effs0 parts p mstatus creator : p_reimb p = 0 ->
  K_settle_settleParticipation (settle_state effs0 parts) (gp_of p) (gmk mstatus creator) =
  match settle_participation p mstatus creator with
  | None => None
  | Some (p', effs) => Some (settle_state (effs0 ++ effs) (upd (part_is (p_idx p)) p' parts))
  end.
Proof.
  intros HR0.
  assert (HK : forall q, p_idx q = p_idx p ->
     kupd (fun g => G_OrderBookParticipation_Index g =? G_OrderBookParticipation_Index (gp_of q)) (gp_of q) (map gp_of parts) =
     map gp_of (upd (part_is (p_idx p)) q parts)) by (intros q Eq; rewrite kupd_gp, Eq; reflexivity).
  destruct p as [idx owner liq fee crl enf tba crtb ml crml crmlo prof sett ret reimb]. cbn [p_reimb] in HR0. subst reimb. cbn [p_idx] in HK.
  unfold K_settle_settleParticipation, settle_participation, settle_state, MK_DECLARED, MK_CANCELED, MK_ABORTED, POOL, HOUSEFEE,
    K_OrderBookParticipation_NotParticipatedInBetFulfillment.
  cbn [S_settle_Effects S_settle_Parts set_S_settle_Effects set_S_settle_Parts gp_of gmk G_Market_Status G_Market_Creator
       p_idx p_owner p_liq p_fee p_crl p_enf p_tba p_crtb p_maxloss p_crml p_crml_odds p_profit p_settled p_returned p_reimb
       G_OrderBookParticipation_IsSettled G_OrderBookParticipation_ParticipantAddress G_OrderBookParticipation_TotalBetAmount
       G_OrderBookParticipation_ActualProfit G_OrderBookParticipation_Liquidity G_OrderBookParticipation_Fee
       G_OrderBookParticipation_ReturnedAmount G_OrderBookParticipation_ReimbursedFee G_OrderBookParticipation_Index
       set_G_OrderBookParticipation_ReturnedAmount set_G_OrderBookParticipation_ReimbursedFee set_G_OrderBookParticipation_IsSettled].
  destruct sett; [reflexivity|].
  assert (Hfin : forall (m : list (Z * Z * Z * Z)) g q es, p_idx q = idx -> g = gp_of q -> m = map eff_code (effs0 ++ es) ->
     Some {| S_settle_Effects := m; S_settle_Parts := kupd (fun g__x => G_OrderBookParticipation_Index g__x =? idx) g (map gp_of parts) |} =
     Some {| S_settle_Effects := map eff_code (effs0 ++ es); S_settle_Parts := map gp_of (upd (part_is idx) q parts) |}).
  { intros m g q es Eq -> ->. rewrite <- (HK q Eq). change (G_OrderBookParticipation_Index (gp_of q)) with (p_idx q). rewrite Eq. reflexivity. }
  destruct (mstatus =? 5).
  - destruct (tba =? 0); destruct (prof <? 0); cbv zeta.
    all: cbn [G_OrderBookParticipation_TotalBetAmount G_OrderBookParticipation_ActualProfit G_OrderBookParticipation_Liquidity G_OrderBookParticipation_Fee
           G_OrderBookParticipation_ReturnedAmount G_OrderBookParticipation_ReimbursedFee G_OrderBookParticipation_Index
           G_OrderBookParticipation_ParticipantAddress set_S_settle_Parts set_S_settle_Effects S_settle_Effects S_settle_Parts].
    all: apply Hfin; [reflexivity|reflexivity|rewrite map_app, <- !app_assoc; reflexivity].
  - destruct ((mstatus =? 3) || (mstatus =? 4)); [|reflexivity]. cbv zeta.
    cbn [G_OrderBookParticipation_TotalBetAmount G_OrderBookParticipation_ActualProfit G_OrderBookParticipation_Liquidity G_OrderBookParticipation_Fee
         G_OrderBookParticipation_ReturnedAmount G_OrderBookParticipation_ReimbursedFee G_OrderBookParticipation_Index
         G_OrderBookParticipation_ParticipantAddress set_S_settle_Parts set_S_settle_Effects S_settle_Effects S_settle_Parts].
    apply Hfin; [reflexivity|reflexivity|rewrite map_app, <- !app_assoc; reflexivity].
Qed.

Lemma upd_mid (pre rest : list part) p q : ~ In (p_idx p) (map p_idx pre) ->
  upd (part_is (p_idx p)) q (pre ++ p :: rest) = pre ++ q :: rest.
Proof.
  induction pre as [|a l IH]; cbn [app upd map]; intros Hn.
  - unfold part_is. rewrite Z.eqb_refl. reflexivity.
  - unfold part_is at 1. destruct (p_idx a =? p_idx p) eqn:E.
    + exfalso. apply Hn. left. apply Z.eqb_eq. exact E.
    + f_equal. apply IH. intros Hi. apply Hn. right. exact Hi.
Qed.
Lemma settle_idx p ms cr p' e : settle_participation p ms cr = Some (p', e) -> p_idx p' = p_idx p /\ p_settled p = false.
Proof.
  unfold settle_participation. destruct (p_settled p); [discriminate|]. destruct (ms =? MK_DECLARED).
  - destruct (p_tba p =? 0); intros H; injection H as <- _; split; reflexivity.
  - destruct ((ms =? MK_CANCELED) || (ms =? MK_ABORTED)); [|discriminate]. intros H; injection H as <- _; split; reflexivity.
Qed.

Definition part_ok (p : part) : Prop := p_settled p = false -> p_reimb p = 0.

(* batchSettlementOfParticipation IS batch_parts: budget, settled count, "all settled" flag, records and effects *)
Lemma gen_batch effs0 ps mstatus creator limit :
  NoDup (map p_idx ps) -> Forall part_ok ps ->
  K_settle_batchSettlementOfParticipation (settle_state effs0 ps) (gmk mstatus creator) limit =
  match batch_parts ps mstatus creator limit 0 with
  | None => None
  | Some (alls, c, ps', effs) => Some (settle_state (effs0 ++ effs) ps', (alls, c))
  end.
Proof.
  intros ND OK. unfold K_settle_batchSettlementOfParticipation. cbv zeta.
  replace (S_settle_Parts (settle_state effs0 ps)) with (map gp_of ps) by reflexivity.
  match goal with |- context [kfold _ _ ?f] => set (F := f) end. unfold kfold.
  assert (Hstop : forall l st n c r, fold_left F l (st, n, c, r, true) = (st, n, c, r, true)).
  { induction l as [|a l IH]; intros; cbn [fold_left]; [reflexivity|apply IH]. }
  assert (Hlen1 : forall (pre rest' : list part) (p : part),
            (Z.of_nat (length (pre ++ p :: rest')) =? Z.of_nat (length pre) + 1) = match rest' with [] => true | _ => false end).
  { intros pre rest' p. rewrite app_length. cbn [length]. destruct rest' as [|x r]; cbn [length].
    - apply Z.eqb_eq. lia.
    - apply Z.eqb_neq. lia. }
  assert (HFs : forall st n c (q : part), F (st, n, c, None, false) (gp_of q) =
            if negb (p_settled q)
            then match K_settle_settleParticipation st (gp_of q) (gmk mstatus creator) with
                 | Some st0 => if limit <=? c + 1 then (st0, n + 1, c + 1, None, true) else (st0, n + 1, c + 1, None, false)
                 | None => (st, n + 1, c, Some None, true)
                 end
            else if limit <=? c then (st, n + 1, c, None, true) else (st, n + 1, c, None, false)) by reflexivity.
  assert (Hrun : forall rest pre effs cnt, NoDup (map p_idx (pre ++ rest)) -> Forall part_ok rest ->
     match batch_parts rest mstatus creator limit cnt with
     | None => exists st n c, fold_left F (map gp_of rest) (settle_state effs (pre ++ rest), Z.of_nat (length pre), cnt, None, false) = (st, n, c, Some None, true)
     | Some (alls, c, rest', effs') =>
         exists n brk, fold_left F (map gp_of rest) (settle_state effs (pre ++ rest), Z.of_nat (length pre), cnt, None, false) =
                       (settle_state (effs ++ effs') (pre ++ rest'), n, c, None, brk) /\
                       (Z.of_nat (length (pre ++ rest)) =? n) = alls
     end).
  { induction rest as [|p rest IH]; intros pre effs cnt ND1 OK1; cbn [batch_parts map fold_left].
    - exists (Z.of_nat (length pre)), false. rewrite !app_nil_r. split; [reflexivity|apply Z.eqb_refl].
    - inversion OK1 as [|? ? Hp Hr]; subst.
      assert (Hnin : ~ In (p_idx p) (map p_idx pre)).
      { rewrite map_app in ND1. cbn [map] in ND1. apply NoDup_remove_2 in ND1. intros Hi. apply ND1. apply in_or_app. left. exact Hi. }
      assert (Hnext : forall q, p_idx q = p_idx p -> NoDup (map p_idx ((pre ++ [q]) ++ rest))).
      { intros q Eq. rewrite <- app_assoc. cbn [app]. rewrite map_app in *. cbn [map] in *. rewrite Eq. exact ND1. }
      assert (Hlenp : forall q : part, Z.of_nat (length pre) + 1 = Z.of_nat (length (pre ++ [q]))) by (intros; rewrite app_length; cbn [length]; lia).
      rewrite !HFs.
      destruct (p_settled p) eqn:ES; cbn [negb].
      + (* already paid: not settled again, counted as processed *)
        destruct (limit <=? cnt).
        * rewrite Hstop. rewrite app_nil_r. exists (Z.of_nat (length pre) + 1), true. split; [reflexivity|apply Hlen1].
        * specialize (IH (pre ++ [p]) effs cnt (Hnext p eq_refl) Hr). rewrite <- app_assoc in IH. cbn [app] in IH. rewrite <- Hlenp in IH.
          destruct (batch_parts rest mstatus creator limit cnt) as [[[[alls c] rest'] effs']|].
          -- destruct IH as (n & brk & E & Ha). exists n, brk. rewrite E. rewrite <- app_assoc. cbn [app]. split; [reflexivity|exact Ha].
          -- exact IH.
      + rewrite (gen_settleParticipation effs (pre ++ p :: rest) p mstatus creator (Hp ES)).
        destruct (settle_participation p mstatus creator) as [[p' e]|] eqn:ESP.
        * destruct (settle_idx _ _ _ _ _ ESP) as [Eidx _]. rewrite (upd_mid pre rest p p' Hnin).
          destruct (limit <=? cnt + 1).
          -- rewrite Hstop. exists (Z.of_nat (length pre) + 1), true. split; [reflexivity|].
             rewrite <- (Hlen1 pre rest p). rewrite !app_length. cbn [length]. reflexivity.
          -- specialize (IH (pre ++ [p']) (effs ++ e) (cnt + 1) (Hnext p' Eidx) Hr). rewrite <- app_assoc in IH. cbn [app] in IH. rewrite <- Hlenp in IH.
             destruct (batch_parts rest mstatus creator limit (cnt + 1)) as [[[[alls c] rest'] effs']|].
             ++ destruct IH as (n & brk & E & Ha). exists n, brk. rewrite E. rewrite <- !app_assoc. cbn [app]. split; [reflexivity|].
                rewrite <- Ha. rewrite !app_length. cbn [length]. reflexivity.
             ++ exact IH.
        * rewrite Hstop. eexists _, _, _. reflexivity. }
  specialize (Hrun ps [] effs0 0 ND OK). cbn [app length] in Hrun. change (Z.of_nat 0) with 0 in Hrun.
  destruct (batch_parts ps mstatus creator limit 0) as [[[[alls c] ps'] effs']|].
  - destruct Hrun as (n & brk & E & Ha). rewrite E. cbv iota beta. unfold klen. rewrite map_length, Ha. destruct alls; reflexivity.
  - destruct Hrun as (st & n & c & E). rewrite E. reflexivity.
Qed.

(* Proofs/WagerPay.v — C03: the winnings promised by the backing parts of an accepted bet add up to exactly the integer part of
   (requested stake) x (odds - 1): the loop hands out the payout profit in whole units and refuses to finish with a whole unit left. *)
From Coq Require Import ZArith Bool List Lia.
From Sge Require Import Lib.Dec Model.Types Model.Orderbook Proofs.Tactics Proofs.DecFacts Proofs.WagerLoop Proofs.WagerBounds.
Import ListNotations.
Open Scope Z_scope.

Definition pay_inv (profit0 : Z) (s : wstate) : Prop := ws_profit s + dec_of_int (zsum (map f_pay (ws_parts s))) = profit0.

Lemma dec_of_int_add a b : dec_of_int (a + b) = dec_of_int a + dec_of_int b.
Proof. unfold dec_of_int. lia. Qed.

Lemma wager_iter_pay profit0 A idx s s' : wager_iter A idx s = Some s' -> pay_inv profit0 s -> pay_inv profit0 s'.
Proof.
  unfold wager_iter, pay_inv. intros H Hp.
  destruct (fmap_get (ws_fmap s) idx) as [it|]; [|discriminate].
  destruct (fi_pe it) as [pe0|]; [|discriminate].
  destruct (iter_switch A (fi_part it) pe0 s) as [[[[p1 pe1] setf] so] c1] eqn:ES.
  destruct (iter_betside A (fi_part it) so s) as [[[[ba fu] pr] pa] bk0] eqn:EB.
  assert (HB : pr + dec_of_int (zsum (map f_pay pa)) = profit0).
  { unfold iter_betside in EB. destruct so as [[stake pay]|]; injection EB as _ _ E3 E4 _; subst pr pa; [|exact Hp].
    rewrite map_app, zsum_app. cbn [map zsum f_pay]. rewrite dec_of_int_add. unfold dec_of_int in *. lia. }
  destruct (iter_fulfilled A idx it setf p1 pe1 (ws_uq s) bk0) as [[[[p3 pe3] uq3] bk1]|]; [|discriminate].
  destruct ((p_enf p3 =? 0) && eligible_pre p3).
  - destruct (iter_refresh A idx it p3 _ (ws_fmap s) uq3) as [[bk5 fm2] uq5]. inversion H. cbn. exact HB.
  - inversion H. cbn. exact HB.
Qed.

Lemma wager_loop_pay profit0 fuel : forall A q s s', wager_loop fuel A q s = Some s' -> pay_inv profit0 s -> pay_inv profit0 s'.
Proof.
  induction fuel as [|f IH]; intros A q s s' H Hinv; destruct q as [|idx rest]; cbn [wager_loop] in H.
  - inv H. exact Hinv.
  - discriminate.
  - inv H. exact Hinv.
  - destruct (wager_iter A idx s) as [s1|] eqn:E; [|discriminate].
    pose proof (wager_iter_pay _ _ _ _ _ E Hinv) as H1.
    destruct ((ws_profit s1 <? PREC) || _); [inv H; exact H1|].
    eapply IH; eassumption.
Qed.

Theorem process_wager_pay_total b A betamt profit bettor fee b' parts effs :
  process_wager b A betamt profit bettor fee = Some (b', parts, effs) -> 0 <= betamt -> 0 <= profit ->
  zsum (map f_pay parts) = dec_trunc_int profit.
Proof.
  unfold process_wager. intros H Hb Hp.
  destruct (get_queue b (wa_sel A)) as [q|]; [|discriminate].
  destruct (init_fmap b (wa_sel A)) as [fm|]; [|discriminate].
  match type of H with context [wager_loop ?f ?a ?qq ?s0] => destruct (wager_loop f a qq s0) as [s|] eqn:EL end; [|discriminate].
  destruct (PREC <=? ws_profit s) eqn:EP0; [discriminate|]. apply Z.leb_gt in EP0.
  destruct (ws_parts s) as [|x r] eqn:EP; [discriminate|]. inv H.
  assert (Hw : wbound betamt s) by (eapply wager_loop_bound; [exact EL|]; constructor; cbn; try lia; constructor).
  assert (Hi : pay_inv profit s) by (eapply wager_loop_pay; [exact EL|]; unfold pay_inv; cbn; unfold dec_of_int; lia).
  destruct Hw as [_ _ Hpr _]. unfold pay_inv in Hi. rewrite EP in Hi.
  unfold dec_trunc_int. rewrite chop_trunc_nonneg by exact Hp. unfold dec_of_int in Hi. pose proof PREC_pos.
  set (T := zsum (map f_pay (x :: r))) in *. apply (Z.div_unique profit PREC T (ws_profit s)); lia.
Qed.

From Sge Require Import Model.Mint Model.Chain.

(* the stored bet of a successful wager: its parts promise exactly the integer part of (amount - fee) x (odds - 1) *)
Theorem wager_core_promised s sg u a sm so ov mu al s' :
  wager_core s sg u a sm so ov mu al = Some s' -> pr_bet_fee (c_prm s) <= pr_bet_min (c_prm s) ->
  exists x x' b profit,
    get_ms s sm = Some x /\ get_ms s' sm = Some x' /\ ms_bets x' = ms_bets x ++ [b] /\ b_uid b = u /\ b_oddsval b = ov /\
    payout_profit ov (a - pr_bet_fee (c_prm s)) = Some profit /\ 0 <= profit /\
    zsum (map f_pay (b_parts b)) = dec_trunc_int profit /\
    profit = dec_mulint ov (a - pr_bet_fee (c_prm s)) - dec_of_int (a - pr_bet_fee (c_prm s)).
Proof.
  unfold wager_core. intros H HP.
  destruct (get_ms s sm) as [x|] eqn:EM; [|discriminate].
  dmatch H. inv H.
  match goal with E : (a <? _) = false |- _ => apply Z.ltb_ge in E; rename E into Hmin end.
  match goal with E : payout_profit _ _ = Some ?pr |- _ => pose proof (payout_profit_nonneg _ _ _ E ltac:(lia)) as Hpr; rename E into EPP; rename pr into profit end.
  match goal with E : process_wager _ _ _ _ _ _ = Some _ |- _ =>
    pose proof (process_wager_pay_total _ _ _ _ _ _ _ _ _ E ltac:(lia) Hpr) as Hsum end.
  eexists x, _, _, profit. split; [reflexivity|]. split.
  { unfold get_ms. cbn [c_ms chain_upd]. unfold set_ms_list.
    unfold get_ms in EM. destruct (findb (fun y => fst y =? sm) (c_ms s)) as [[k v]|] eqn:EF; [|discriminate].
    inv EM. clear - EF. induction (c_ms s) as [|[k2 v2] r IH]; cbn [findb find] in EF; [discriminate|].
    cbn [upd findb find fst] in *. destruct (k2 =? sm) eqn:Ek; cbn [findb find fst].
    - rewrite Z.eqb_refl. reflexivity.
    - rewrite Ek. apply IH. exact EF. }
  cbn [ms_bets mstate_upd b_uid b_parts b_oddsval]. split; [reflexivity|]. split; [reflexivity|]. split; [reflexivity|]. split; [first [exact EPP|reflexivity]|]. split; [exact Hpr|].
  split; [exact Hsum|]. unfold payout_profit in EPP. destruct (ov <=? PREC); [discriminate|]. injection EPP as <-. reflexivity.
Qed.

(* Proofs/GenKernels.v — the functions GENERATED from /repo's Go sources on every run (Gen/kernels.v, by /verif/translator/kernels.go)
   are equal to the corresponding functions of the hand-written model.  A change of one of these Go methods changes the generated
   definition and breaks the lemma here that names it: the tie between model and code is, for these kernels, a proof obligation and
   not a sample.  Covered: x/subaccount AccountSummary (7 methods), x/orderbook OrderBookParticipation / ParticipationExposure
   (14 methods: withdrawable amounts, eligibility, liquidity trimming, round reset, the max-loss bookkeeping of a fulfilment),
   x/ovm MajorityCount and IsExpired, x/reward Pool (5 methods), x/house CalcHouseParticipationFeeAmount. *)
From Coq Require Import ZArith Bool List Lia.
From Sge Require Import Lib.Dec Model.Types Model.Orderbook Model.Mint Model.Chain Gen.kernels.
From Sge Require Model.Reward.
Import ListNotations.
Open Scope Z_scope.

(* ---- x/subaccount/types/accsummary.go ----------------------------------------------------------------------------------------------- *)
Definition as_of (x : subacc) : G_AccountSummary :=
  {| G_AccountSummary_DepositedAmount := sa_dep x; G_AccountSummary_SpentAmount := sa_spent x;
     G_AccountSummary_WithdrawnAmount := sa_wd x; G_AccountSummary_LostAmount := sa_lost x |}.

Lemma gen_Available x : K_AccountSummary_Available (as_of x) = sub_available x.
Proof. reflexivity. Qed.

Lemma gen_Spend x a : K_AccountSummary_Spend (as_of x) a = option_map as_of (sub_spend x a).
Proof. unfold K_AccountSummary_Spend, sub_spend. rewrite gen_Available. destruct (a <? 0); [reflexivity|]. destruct (sub_available x <? a); reflexivity. Qed.
Lemma gen_Unspend x a : K_AccountSummary_Unspend (as_of x) a = option_map as_of (sub_unspend x a).
Proof. unfold K_AccountSummary_Unspend, sub_unspend. cbn [as_of G_AccountSummary_SpentAmount]. destruct (a <? 0); [reflexivity|]. destruct (sa_spent x <? a); reflexivity. Qed.
Lemma gen_AddLoss x a : K_AccountSummary_AddLoss (as_of x) a = option_map as_of (sub_addloss x a).
Proof. unfold K_AccountSummary_AddLoss, sub_addloss. destruct (a <? 0); reflexivity. Qed.
Lemma gen_Withdraw x a : K_AccountSummary_Withdraw (as_of x) a = option_map as_of (sub_withdraw x a).
Proof. unfold K_AccountSummary_Withdraw, sub_withdraw. rewrite gen_Available. destruct (a <? 0); [reflexivity|]. destruct (sub_available x <? a); reflexivity. Qed.

(* the amount sub_withdraw_unlocked pays (keeper/balance.go withdrawUnlocked) and the bound of sub_wager (withdrawLockedAndUnlocked) *)
Lemma gen_WithdrawableUnlockedBalance x unlocked bank :
  K_AccountSummary_WithdrawableUnlockedBalance (as_of x) unlocked bank = Z.min (Z.min (sub_available x) (zmax0 (unlocked - sa_wd x))) bank.
Proof. unfold K_AccountSummary_WithdrawableUnlockedBalance, zmax0. rewrite gen_Available. cbn [as_of G_AccountSummary_WithdrawnAmount]. rewrite Z.max_comm. reflexivity. Qed.
Lemma gen_WithdrawableBalance x bank : K_AccountSummary_WithdrawableBalance (as_of x) bank = Z.min (sub_available x) bank.
Proof. reflexivity. Qed.

(* the model uses exactly these two expressions *)
Lemma model_uses_withdrawable_unlocked s owner x :
  sub_by_owner (c_subs s) owner = Some x ->
  sub_withdraw_unlocked s owner =
  (let w := K_AccountSummary_WithdrawableUnlockedBalance (as_of x) (unlocked_total (c_now s) x) (bget (c_bank s) (sub_addr x)) in
   if w =? 0 then None else
   match sub_withdraw x w with
   | None => None
   | Some x' => match pay (c_bank s) (sub_addr x) owner w with None => None | Some b => Some (set_bank (with_subs s (set_sub (c_subs s) x')) b) end
   end).
Proof. intros E. unfold sub_withdraw_unlocked. rewrite E, gen_WithdrawableUnlockedBalance. reflexivity. Qed.

(* ---- x/orderbook/types/participation.go, exposure.go ------------------------------------------------------------------------------- *)
Definition gp_of (p : part) : G_OrderBookParticipation :=
  {| G_OrderBookParticipation_Index := p_idx p; G_OrderBookParticipation_OrderBookUID := 0;
     G_OrderBookParticipation_ParticipantAddress := p_owner p; G_OrderBookParticipation_Liquidity := p_liq p;
     G_OrderBookParticipation_Fee := p_fee p; G_OrderBookParticipation_CurrentRoundLiquidity := p_crl p;
     G_OrderBookParticipation_ExposuresNotFilled := p_enf p; G_OrderBookParticipation_TotalBetAmount := p_tba p;
     G_OrderBookParticipation_CurrentRoundTotalBetAmount := p_crtb p; G_OrderBookParticipation_MaxLoss := p_maxloss p;
     G_OrderBookParticipation_CurrentRoundMaxLoss := p_crml p; G_OrderBookParticipation_CurrentRoundMaxLossOddsUID := p_crml_odds p;
     G_OrderBookParticipation_ActualProfit := p_profit p; G_OrderBookParticipation_IsSettled := p_settled p;
     G_OrderBookParticipation_ReturnedAmount := p_returned p; G_OrderBookParticipation_ReimbursedFee := p_reimb p |}.
Definition ge_of (e : expo) : G_ParticipationExposure :=
  {| G_ParticipationExposure_OrderBookUID := 0; G_ParticipationExposure_OddsUID := e_odds e;
     G_ParticipationExposure_ParticipationIndex := e_part e; G_ParticipationExposure_Exposure := e_exp e;
     G_ParticipationExposure_BetAmount := e_bet e; G_ParticipationExposure_IsFulfilled := e_ful e; G_ParticipationExposure_Round := e_round e |}.

Lemma gen_maxWithdrawalAmount p : K_OrderBookParticipation_maxWithdrawalAmount (gp_of p) = max_withdrawal p.
Proof. reflexivity. Qed.

Lemma gen_WithdrawableAmount p mode amount : K_OrderBookParticipation_WithdrawableAmount (gp_of p) mode amount = withdrawable_amount p mode amount.
Proof.
  unfold K_OrderBookParticipation_WithdrawableAmount, withdrawable_amount. rewrite gen_maxWithdrawalAmount. unfold WM_FULL, WM_PARTIAL.
  destruct (mode =? 1); [destruct (max_withdrawal p <=? 0); reflexivity|]. destruct (mode =? 2); [destruct (max_withdrawal p <? amount); reflexivity|reflexivity].
Qed.

Lemma gen_IsEligibleForNextRound p : K_OrderBookParticipation_IsEligibleForNextRound (gp_of p) = eligible_next p.
Proof. reflexivity. Qed.
Lemma gen_IsLiquidityInCurrentRound p : K_OrderBookParticipation_IsLiquidityInCurrentRound (gp_of p) = (0 <? p_crl p).
Proof. reflexivity. Qed.
Lemma gen_IsEligiblePre p : K_OrderBookParticipation_IsEligibleForNextRoundPreLiquidityReduction (gp_of p) = eligible_pre p.
Proof. reflexivity. Qed.
Lemma gen_NotParticipated p : K_OrderBookParticipation_NotParticipatedInBetFulfillment (gp_of p) = (p_tba p =? 0).
Proof. reflexivity. Qed.

(* the participation written by a withdrawal (WithdrawOrderBookParticipation) *)
Lemma gen_SetLiquidityAfterWithdrawal p amt :
  K_OrderBookParticipation_SetLiquidityAfterWithdrawal (gp_of p) amt =
  gp_of (part_upd p (p_liq p - amt) (p_crl p - amt) (p_enf p) (p_tba p) (p_crtb p) (p_maxloss p) (p_crml p) (p_crml_odds p) (p_profit p)).
Proof. reflexivity. Qed.

(* the two steps of refreshQueueAndState on the participation: trim, then reset for the next round (iter_refresh: p4, p5) *)
Lemma gen_TrimCurrentRoundLiquidity p :
  K_OrderBookParticipation_TrimCurrentRoundLiquidity (gp_of p) = gp_of (part_set_crl p (p_crl p - zmax0 (p_crml p))).
Proof. reflexivity. Qed.
Lemma gen_ResetForNextRound p n :
  K_OrderBookParticipation_ResetForNextRound (gp_of p) n =
  gp_of (part_upd p (p_liq p) (p_crl p) n (p_tba p) 0 (p_maxloss p + p_crml p) 0 (p_crml_odds p) (p_profit p)).
Proof. reflexivity. Qed.

(* the bookkeeping of one fulfilment: exposure.SetCurrentRound, then participation.SetCurrentRound with setMaxLoss, is fulfil_records *)
Lemma gen_fulfil_records p e o stake pay :
  let pe' := K_ParticipationExposure_SetCurrentRound (ge_of e) stake pay in
  let p' := K_OrderBookParticipation_SetCurrentRound (gp_of p) pe' o stake in
  (p', pe') = (gp_of (fst (fulfil_records p e o stake pay)), ge_of (snd (fulfil_records p e o stake pay))).
Proof.
  cbv zeta. unfold fulfil_records. cbv zeta.
  unfold K_OrderBookParticipation_SetCurrentRound, K_OrderBookParticipation_setMaxLoss, K_OrderBookParticipation_CalculateMaxLoss,
    K_ParticipationExposure_CalculateMaxLoss, K_ParticipationExposure_SetCurrentRound.
  cbn [gp_of ge_of G_OrderBookParticipation_CurrentRoundMaxLossOddsUID G_OrderBookParticipation_CurrentRoundMaxLoss
       G_OrderBookParticipation_CurrentRoundTotalBetAmount G_OrderBookParticipation_TotalBetAmount
       set_G_OrderBookParticipation_TotalBetAmount set_G_OrderBookParticipation_CurrentRoundTotalBetAmount
       set_G_OrderBookParticipation_CurrentRoundMaxLoss set_G_OrderBookParticipation_CurrentRoundMaxLossOddsUID
       G_ParticipationExposure_Exposure G_ParticipationExposure_BetAmount set_G_ParticipationExposure_Exposure set_G_ParticipationExposure_BetAmount
       e_exp e_bet expo_upd].
  destruct (p_crml_odds p =? o) eqn:E1.
  - cbn [fst snd]. reflexivity.
  - destruct (p_crml p - stake <? e_exp e + pay + (e_bet e + stake) - (p_crtb p + stake)); cbn [fst snd]; reflexivity.
Qed.

(* ---- x/ovm ---------------------------------------------------------------------------------------------------------------------------- *)
(* MajorityCount = ceil(n x 0.6667), for every vault size up to 1000 (the vault holds 4 or 5 keys) *)
Definition kv_of (keys : list Z) : G_KeyVault := {| G_KeyVault_PublicKeys := keys |}.
Lemma gen_MajorityCount_len keys keys' : length keys = length keys' -> K_KeyVault_MajorityCount (kv_of keys) = K_KeyVault_MajorityCount (kv_of keys').
Proof. intros H. unfold K_KeyVault_MajorityCount, kv_of, klen. cbn [G_KeyVault_PublicKeys]. rewrite H. reflexivity. Qed.
Lemma gen_MajorityCount : forall keys, zlen keys <= 1000 -> K_KeyVault_MajorityCount (kv_of keys) = majority_count (zlen keys).
Proof.
  assert (H : forallb (fun i => K_KeyVault_MajorityCount (kv_of (List.repeat 0 i)) =? majority_count (Z.of_nat i)) (seq 0 1001) = true)
    by (vm_compute; reflexivity).
  intros keys Hn. unfold zlen in *. rewrite forallb_forall in H. specialize (H (length keys)).
  rewrite (gen_MajorityCount_len keys (List.repeat 0 (length keys))) by (rewrite repeat_length; reflexivity).
  apply Z.eqb_eq. apply H. apply in_seq. lia.
Qed.

Definition gprop_of (p : proposal) : G_PublicKeysChangeProposal :=
  {| G_PublicKeysChangeProposal_Id := pp_id p; G_PublicKeysChangeProposal_Creator := pp_creator p;
     G_PublicKeysChangeProposal_Modifications := {| G_PubkeysChangeProposalPayload_PublicKeys := pp_keys p; G_PubkeysChangeProposalPayload_LeaderIndex := pp_leader p |};
     G_PublicKeysChangeProposal_Votes := map (fun v => {| G_Vote_PublicKey := fst v; G_Vote_Vote := snd v |}) (pp_votes p);
     G_PublicKeysChangeProposal_StartTS := pp_start p; G_PublicKeysChangeProposal_Result := pp_result p; G_PublicKeysChangeProposal_ResultMeta := 0;
     G_PublicKeysChangeProposal_FinishTS := pp_finish p; G_PublicKeysChangeProposal_Status := pp_status p |}.
(* the expiry test of ovm_finish *)
Lemma gen_IsExpired p now : K_PublicKeysChangeProposal_IsExpired (gprop_of p) now = (1800 <? now - pp_start p).
Proof. reflexivity. Qed.

(* ---- x/reward/types/pool.go ------------------------------------------------------------------------------------------------------------ *)
Definition pool_of (c : Reward.campaign) : G_Pool := {| G_Pool_Total := Reward.cm_total c; G_Pool_Spent := Reward.cm_spent c; G_Pool_Withdrawn := Reward.cm_withdrawn c |}.
Lemma gen_AvailableAmount c : K_Pool_AvailableAmount (pool_of c) = Reward.cm_avail c.
Proof. reflexivity. Qed.
Lemma gen_CheckBalance c x : K_Pool_CheckBalance (pool_of c) x = negb (Reward.cm_avail c <? x).
Proof. unfold K_Pool_CheckBalance. rewrite gen_AvailableAmount. destruct (Reward.cm_avail c <? x); reflexivity. Qed.
Lemma gen_Pool_Spend c x : K_Pool_Spend (pool_of c) x = {| G_Pool_Total := Reward.cm_total c; G_Pool_Spent := Reward.cm_spent c + x; G_Pool_Withdrawn := Reward.cm_withdrawn c |}.
Proof. reflexivity. Qed.
Lemma gen_Pool_TopUp c x : K_Pool_TopUp (pool_of c) x = {| G_Pool_Total := Reward.cm_total c + x; G_Pool_Spent := Reward.cm_spent c; G_Pool_Withdrawn := Reward.cm_withdrawn c |}.
Proof. reflexivity. Qed.
Lemma gen_Pool_Withdraw c x : K_Pool_Withdraw (pool_of c) x = {| G_Pool_Total := Reward.cm_total c; G_Pool_Spent := Reward.cm_spent c; G_Pool_Withdrawn := Reward.cm_withdrawn c + x |}.
Proof. reflexivity. Qed.

(* ---- x/house/types/deposit.go ------------------------------------------------------------------------------------------------------------ *)
Lemma gen_HouseFee creator dep mkt idx amount wc wt fee :
  K_Deposit_CalcHouseParticipationFeeAmount
    {| G_Deposit_Creator := creator; G_Deposit_DepositorAddress := dep; G_Deposit_MarketUID := mkt; G_Deposit_ParticipationIndex := idx;
       G_Deposit_Amount := amount; G_Deposit_WithdrawalCount := wc; G_Deposit_TotalWithdrawalAmount := wt |} fee =
  dec_round_int (dec_mulint fee amount).
Proof. reflexivity. Qed.

(* ---- x/bet/types/payout.go, odds_type.go ---------------------------------------------------------------------------------------------- *)
(* the decimal odds string of the ticket is the model's Dec value (parsing belongs to the harness): CalculatePayoutProfit is payout_profit *)
Lemma gen_CalculatePayoutProfit ov amount : K__CalculatePayoutProfit ov amount = payout_profit ov amount.
Proof.
  unfold K__CalculatePayoutProfit, K__calculatePayout, K__CalculateDecimalPayout, payout_profit.
  destruct (0 <? ov) eqn:E1; cbn [negb].
  - destruct (ov <=? PREC); reflexivity.
  - apply Z.ltb_ge in E1. assert (E2 : ov <=? PREC = true) by (apply Z.leb_le; unfold PREC; lia). rewrite E2. reflexivity.
Qed.

Lemma gen_CalculateBetAmountInt ov profit carry : PREC < ov ->
  K__CalculateBetAmountInt ov profit carry = Some (bet_amount_int ov profit carry).
Proof.
  intros H. unfold K__CalculateBetAmountInt, K__CalculateBetAmount, K__calculateBetAmount, K__CalculateDecimalBetAmount, bet_amount_int.
  assert (E1 : 0 <? ov = true) by (apply Z.ltb_lt; unfold PREC in H; lia). assert (E2 : ov <=? PREC = false) by (apply Z.leb_gt; exact H).
  rewrite E1, E2. cbn [negb]. reflexivity.
Qed.

(* ---- x/mint/types/minter.go ------------------------------------------------------------------------------------------------------------ *)
Lemma gen_NextPhaseProvisions infl step prov trunc supply exclude ph :
  K_Minter_NextPhaseProvisions {| G_Minter_Inflation := infl; G_Minter_PhaseStep := step; G_Minter_PhaseProvisions := prov; G_Minter_TruncatedTokens := trunc |}
    supply exclude {| G_Phase_Inflation := ph_infl ph; G_Phase_YearCoefficient := ph_coef ph |} =
  next_phase_provisions infl supply exclude ph.
Proof.
  unfold K_Minter_NextPhaseProvisions, next_phase_provisions, zmax0. cbn [G_Minter_Inflation G_Phase_YearCoefficient].
  destruct (supply - exclude <? 0) eqn:E; [apply Z.ltb_lt in E; rewrite Z.max_l by lia; reflexivity|apply Z.ltb_ge in E; rewrite Z.max_r by lia; reflexivity].
Qed.

(* ---- x/market/types/market.go, x/bet/types/bet.go, LockedBalance.Validate, ValidateWithdraw ------------------------------------------- *)
Definition gm_of (mk : market) : G_Market :=
  {| G_Market_UID := k_uid mk; G_Market_StartTS := k_start mk; G_Market_EndTS := k_end mk; G_Market_Odds := map (fun o => {| G_Odds_UID := o; G_Odds_Meta := 0 |}) (k_odds mk);
     G_Market_WinnerOddsUIDs := k_winners mk; G_Market_Status := k_status mk; G_Market_ResolutionTS := k_rts mk;
     G_Market_Creator := k_creator mk; G_Market_Meta := 0; G_Market_BookUID := k_uid mk |}.

Lemma gen_market_update_allowed mk : K_Market_IsUpdateAllowed (gm_of mk) = status_ai (k_status mk).
Proof. reflexivity. Qed.
Lemma gen_market_resolve_allowed mk : K_Market_IsResolveAllowed (gm_of mk) = status_ai (k_status mk).
Proof. reflexivity. Qed.
Lemma gen_market_resolved mk : K_Market_IsResolved (gm_of mk) = status_resolved (k_status mk).
Proof.
  unfold K_Market_IsResolved, status_resolved, MK_CANCELED, MK_ABORTED, MK_DECLARED. cbn [gm_of G_Market_Status].
  destruct (k_status mk =? 5), (k_status mk =? 3), (k_status mk =? 4); reflexivity.
Qed.

(* Bet_STATUS_CANCELED (2) is never assigned by any code path; apart from it the eligibility test is "not settled yet" *)
Lemma gen_bet_eligible st uid mkt odds ov amt fee res cr cat sh ml bf : st <> 2 ->
  K_Bet_CheckSettlementEligiblity {| G_Bet_UID := uid; G_Bet_MarketUID := mkt; G_Bet_OddsUID := odds; G_Bet_OddsValue := ov; G_Bet_Amount := amt;
      G_Bet_Fee := fee; G_Bet_Status := st; G_Bet_Result := res; G_Bet_Creator := cr; G_Bet_CreatedAt := cat; G_Bet_SettlementHeight := sh;
      G_Bet_MaxLossMultiplier := ml; G_Bet_BetFulfillment := bf |} = negb (st =? BS_SETTLED).
Proof.
  intros H. unfold K_Bet_CheckSettlementEligiblity, BS_SETTLED. cbn [G_Bet_Status].
  destruct (st =? 6); [reflexivity|]. destruct (Z.eqb_spec st 2); [contradiction|reflexivity].
Qed.

Lemma gen_lock_ok now ts amt : K_LockedBalance_Validate {| G_LockedBalance_UnlockTS := ts; G_LockedBalance_Amount := amt |} = lock_ok now (ts, amt).
Proof. unfold K_LockedBalance_Validate, lock_ok. cbn [G_LockedBalance_UnlockTS G_LockedBalance_Amount fst snd]. destruct (ts =? 0); [reflexivity|]. destruct (amt <? 0); reflexivity. Qed.

(* the two guards at the head of calc_withdrawal *)
Lemma gen_ValidateWithdraw p depositor idx :
  K_OrderBookParticipation_ValidateWithdraw (gp_of p) depositor idx = negb (p_settled p) && (p_owner p =? depositor).
Proof.
  unfold K_OrderBookParticipation_ValidateWithdraw. cbn [gp_of G_OrderBookParticipation_IsSettled G_OrderBookParticipation_ParticipantAddress].
  destruct (p_settled p); [reflexivity|]. destruct (p_owner p =? depositor); reflexivity.
Qed.

(* ---- kernels with range loops (generated as folds carrying the assigned variables and a "broke out" flag) ------------------------------- *)
(* proposal.go DecideResult: the vote count and the comparison with the majority *)
Lemma triple_eq (a b a' b' : Z) (c : bool) : a = a' -> b = b' -> (a, b, c) = (a', b', c).
Proof. intros -> ->. reflexivity. Qed.
Lemma decide_fold votes : forall y n,
  kfold (y, n, false) (map (fun v => {| G_Vote_PublicKey := fst v; G_Vote_Vote := snd v |}) votes)
    (fun '(g_yesCount, g_noCount, g__brk) g_v => if g__brk : bool then (g_yesCount, g_noCount, true) else
       (if (G_Vote_Vote g_v) =? 2 then let g_yesCount := g_yesCount + 1 in (g_yesCount, g_noCount, false)
        else (if (G_Vote_Vote g_v) =? 1 then let g_noCount := g_noCount + 1 in (g_yesCount, g_noCount, false) else (g_yesCount, g_noCount, false))))
  = (y + count_votes VOTE_YES votes, n + count_votes VOTE_NO votes, false).
Proof.
  unfold kfold, count_votes, VOTE_YES, VOTE_NO, zlen. induction votes as [|[k v] r IH]; intros y n; cbn [map fold_left filter snd fst G_Vote_Vote length].
  - apply triple_eq; lia.
  - destruct (v =? 2) eqn:E2.
    + apply Z.eqb_eq in E2. subst v. cbn [Z.eqb Pos.eqb]. rewrite IH. cbn [length]. apply triple_eq; lia.
    + destruct (v =? 1) eqn:E1; rewrite IH; cbn [length]; apply triple_eq; lia.
Qed.
Lemma gen_DecideResult p keys : zlen keys <= 1000 -> K_PublicKeysChangeProposal_DecideResult (gprop_of p) (kv_of keys) = decide p (zlen keys).
Proof.
  intros Hk. unfold K_PublicKeysChangeProposal_DecideResult, decide. cbn [gprop_of G_PublicKeysChangeProposal_Votes].
  rewrite decide_fold. rewrite gen_MajorityCount by exact Hk. cbn [Z.add]. unfold PR_REJECTED, PR_APPROVED.
  destruct (majority_count (zlen keys) <=? count_votes VOTE_NO (pp_votes p)); [reflexivity|].
  destruct (majority_count (zlen keys) <=? count_votes VOTE_YES (pp_votes p)); reflexivity.
Qed.

(* market.go HasOdds: a return inside the loop *)
Lemma has_odds_fold o odds : forall r,
  kfold (r, true) (map (fun o => {| G_Odds_UID := o; G_Odds_Meta := 0 |}) odds)
    (fun '(g__ret, g__brk) g_o => if g__brk : bool then (g__ret, true) else
      (if o =? G_Odds_UID g_o then let g__ret := Some true in (g__ret, true) else (g__ret, false))) = (r, true).
Proof. unfold kfold. induction odds as [|x l IH]; intros r; cbn [map fold_left]; [reflexivity|apply IH]. Qed.
Lemma gen_HasOdds mk o : K_Market_HasOdds (gm_of mk) o = zmem o (k_odds mk).
Proof.
  unfold K_Market_HasOdds, zmem. cbn [gm_of G_Market_Odds]. unfold kfold.
  induction (k_odds mk) as [|x l IH]; cbn [map fold_left existsb G_Odds_UID]; [reflexivity|].
  destruct (o =? x).
  - pose proof (has_odds_fold o l (Some true)) as F. unfold kfold in F. rewrite F. reflexivity.
  - exact IH.
Qed.

(* bet.go SetResult: the membership loop with break; the status / result written *)
Lemma set_result_fold o ws : forall e,
  kfold (e, true) ws (fun '(g_exist, g__brk) g_wid => if g__brk : bool then (g_exist, true) else
      (if g_wid =? o then let g_exist := true in (g_exist, true) else (g_exist, false))) = (e, true).
Proof. unfold kfold. induction ws as [|x l IH]; intros e; cbn [fold_left]; [reflexivity|apply IH]. Qed.
Lemma set_result_fold2 o ws :
  fst (kfold (false, false) ws (fun '(g_exist, g__brk) g_wid => if g__brk : bool then (g_exist, true) else
      (if g_wid =? o then let g_exist := true in (g_exist, true) else (g_exist, false)))) = zmem o ws.
Proof.
  unfold zmem. pose proof (set_result_fold o) as S. unfold kfold in *. induction ws as [|x l IH]; cbn [fold_left existsb]; [reflexivity|].
  rewrite (Z.eqb_sym o x). destruct (x =? o); [rewrite S; reflexivity|exact IH].
Qed.
Definition gb_of (b : bet) : G_Bet :=
  {| G_Bet_UID := b_uid b; G_Bet_MarketUID := b_mkt b; G_Bet_OddsUID := b_odds b; G_Bet_OddsValue := b_oddsval b; G_Bet_Amount := b_amount b;
     G_Bet_Fee := b_fee b; G_Bet_Status := b_status b; G_Bet_Result := b_result b; G_Bet_Creator := b_creator b; G_Bet_CreatedAt := b_created b;
     G_Bet_SettlementHeight := b_sheight b; G_Bet_MaxLossMultiplier := b_mult b; G_Bet_BetFulfillment := zlen (b_parts b) |}.
(* settle_bet: "not declared => error", then won iff the bet's outcome is among the market's winners *)
Lemma gen_SetResult b mk :
  K_Bet_SetResult (gb_of b) (gm_of mk) =
  if negb (k_status mk =? MK_DECLARED) then None
  else Some (gb_of (bet_with b BS_DECLARED (if zmem (b_odds b) (k_winners mk) then BR_WON else BR_LOST) (b_sheight b))).
Proof.
  unfold K_Bet_SetResult, MK_DECLARED. cbn [gm_of G_Market_Status G_Market_WinnerOddsUIDs gb_of G_Bet_OddsUID].
  destruct (negb (k_status mk =? 5)); [reflexivity|].
  pose proof (set_result_fold2 (b_odds b) (k_winners mk)) as F.
  destruct (kfold (false, false) (k_winners mk) _) as [e brk]. cbn [fst] in F. subst e.
  destruct (zmem (b_odds b) (k_winners mk)); reflexivity.
Qed.

(* ticket.go ValidateWinnerOdds: nested loops; the guard of market_resolve *)
Lemma vwo_inner w odds : forall v,
  kfold (v, false) (map (fun o => {| G_Odds_UID := o; G_Odds_Meta := 0 |}) odds)
    (fun '(g_validWinnerOdds, g__brk) g_o => if g__brk : bool then (g_validWinnerOdds, true) else
      (if G_Odds_UID g_o =? w then let g_validWinnerOdds := true in (g_validWinnerOdds, false) else (g_validWinnerOdds, false)))
  = (v || zmem w odds, false).
Proof.
  unfold kfold, zmem. induction odds as [|x l IH]; intros v; cbn [map fold_left existsb G_Odds_UID]; [rewrite orb_false_r; reflexivity|].
  rewrite (Z.eqb_sym w x). destruct (x =? w); rewrite IH; [cbn [orb]; rewrite orb_true_r; reflexivity|cbn [orb]; reflexivity].
Qed.
Lemma gen_ValidateWinnerOdds uid rts winners status mk :
  K_MarketResolutionTicketPayload_ValidateWinnerOdds
    {| G_MarketResolutionTicketPayload_UID := uid; G_MarketResolutionTicketPayload_ResolutionTS := rts;
       G_MarketResolutionTicketPayload_WinnerOddsUIDs := winners; G_MarketResolutionTicketPayload_Status := status |} (gm_of mk)
  = negb ((status =? MK_DECLARED) && ((rts <? k_start mk) || negb (forallb (fun w => zmem w (k_odds mk)) winners))).
Proof.
  unfold K_MarketResolutionTicketPayload_ValidateWinnerOdds, MK_DECLARED.
  cbn [G_MarketResolutionTicketPayload_Status G_MarketResolutionTicketPayload_ResolutionTS G_MarketResolutionTicketPayload_WinnerOddsUIDs gm_of G_Market_StartTS G_Market_Odds].
  destruct (status =? 5); [|reflexivity]. cbn [andb]. destruct (rts <? k_start mk); [reflexivity|]. cbn [orb].
  match goal with |- (let '(_, _) := kfold _ _ ?f in _) = _ => set (F := f) end.
  assert (Hstop : forall ws v, fold_left F ws (v, true) = (v, true)) by (induction ws as [|x l IH]; intros v; cbn [fold_left]; [reflexivity|apply IH]).
  assert (Hrun : forall ws, fst (fold_left F ws (true, false)) = forallb (fun w => zmem w (k_odds mk)) ws).
  { induction ws as [|x l IH]; cbn [fold_left forallb]; [reflexivity|].
    unfold F at 2. cbv beta iota. rewrite vwo_inner. cbn [orb].
    destruct (zmem x (k_odds mk)); cbn [negb andb]; [exact IH|rewrite Hstop; reflexivity]. }
  specialize (Hrun winners). unfold kfold at 1. destruct (fold_left F winners (true, false)) as [v brk]. cbn [fst] in Hrun. subst v.
  destruct (forallb _ winners); reflexivity.
Qed.


(* ---- x/bet/types/params.go Params.Validate (generated with its three validators): what an accepted bet parameter set satisfies ------------- *)
Definition gbp_of (P : params) (query_count : Z) : G_betParams :=
  {| G_betParams_BatchSettlementCount := pr_bet_batch P; G_betParams_MaxBetByUidQueryCount := query_count;
     G_betParams_Constraints := {| G_Constraints_MinAmount := pr_bet_min P; G_Constraints_Fee := pr_bet_fee P |} |}.
Lemma gen_bet_Validate P qc :
  K_betParams_Validate (gbp_of P qc) = ((0 <? pr_bet_batch P) && (0 <? qc) && (1 <? pr_bet_min P) && (0 <=? pr_bet_fee P) && (pr_bet_fee P <? pr_bet_min P)).
Proof.
  unfold K_betParams_Validate, K__validateBatchSettlementCount, K__validateMaxBetByUIDQueryCount, K__validateConstraints. cbv zeta.
  cbn [negb gbp_of G_betParams_BatchSettlementCount G_betParams_MaxBetByUidQueryCount G_betParams_Constraints G_Constraints_MinAmount G_Constraints_Fee].
  rewrite (Z.leb_antisym 0 (pr_bet_batch P)), (Z.leb_antisym 0 qc), (Z.leb_antisym 1 (pr_bet_min P)), (Z.ltb_antisym 0 (pr_bet_fee P)),
    (Z.leb_antisym (pr_bet_fee P) (pr_bet_min P)).
  destruct (0 <? pr_bet_batch P), (0 <? qc), (1 <? pr_bet_min P), (0 <=? pr_bet_fee P), (pr_bet_fee P <? pr_bet_min P); reflexivity.
Qed.
Lemma bet_Validate_accepts P qc : K_betParams_Validate (gbp_of P qc) = true ->
  0 < pr_bet_batch P /\ 1 < pr_bet_min P /\ 0 <= pr_bet_fee P < pr_bet_min P.
Proof.
  rewrite gen_bet_Validate. intros H. repeat (apply andb_true_iff in H; destruct H as [H ?]).
  repeat match goal with
         | X : (_ <? _) = true |- _ => apply Z.ltb_lt in X
         | X : (_ <=? _) = true |- _ => apply Z.leb_le in X
         end. lia.
Qed.

(* ---- x/orderbook and x/house Params.Validate ------------------------------------------------------------------------------------------------ *)
Definition gobp_of (P : params) : G_orderbookParams :=
  {| G_orderbookParams_MaxOrderBookParticipations := pr_ob_maxpart P; G_orderbookParams_BatchSettlementCount := pr_ob_batch P;
     G_orderbookParams_RequeueThreshold := pr_ob_thr P |}.
Lemma gen_ob_Validate P : K_orderbookParams_Validate (gobp_of P) = (negb (pr_ob_maxpart P =? 0) && negb (pr_ob_batch P =? 0)).
Proof.
  unfold K_orderbookParams_Validate, K__validateMaxOrderBookParticipations, K_orderbook_validateBatchSettlementCount, K__validateRequeueThreshold.
  cbv zeta. cbn [negb gobp_of G_orderbookParams_MaxOrderBookParticipations G_orderbookParams_BatchSettlementCount G_orderbookParams_RequeueThreshold].
  destruct (pr_ob_maxpart P =? 0), (pr_ob_batch P =? 0); reflexivity.
Qed.
Definition ghp_of (P : params) : G_houseParams :=
  {| G_houseParams_MinDeposit := pr_h_mindep P; G_houseParams_HouseParticipationFee := pr_h_fee P; G_houseParams_MaxWithdrawalCount := pr_h_maxw P |}.
Lemma gen_house_Validate P : K_houseParams_Validate (ghp_of P) = ((1 <? pr_h_mindep P) && (0 <=? pr_h_fee P)).
Proof.
  unfold K_houseParams_Validate, K__validateMinimumDeposit, K__validateHouseParticipationFee. cbv zeta.
  cbn [negb ghp_of G_houseParams_MinDeposit G_houseParams_HouseParticipationFee].
  rewrite (Z.leb_antisym 1 (pr_h_mindep P)), (Z.ltb_antisym 0 (pr_h_fee P)).
  destruct (1 <? pr_h_mindep P), (0 <=? pr_h_fee P); reflexivity.
Qed.

(* ---- time checks and ticket payload validation with the block time (sdk.Context is its BlockTime().Unix()) ------------------------------------ *)
Lemma gen_validateMarketTS now st en : K__validateMarketTS now st en = market_ts_ok now st en.
Proof. unfold K__validateMarketTS, market_ts_ok. destruct (en <=? now); [reflexivity|]. destruct ((en <=? st) || (st =? 0)); reflexivity. Qed.
(* the two guards of market_update that come from the ticket payload *)
Lemma gen_update_Validate uid st en status now :
  K_MarketUpdateTicketPayload_Validate {| G_MarketUpdateTicketPayload_UID := uid; G_MarketUpdateTicketPayload_StartTS := st;
      G_MarketUpdateTicketPayload_EndTS := en; G_MarketUpdateTicketPayload_Status := status |} now
  = status_ai status && market_ts_ok now st en.
Proof.
  unfold K_MarketUpdateTicketPayload_Validate, status_ai, MK_ACTIVE, MK_INACTIVE.
  cbn [G_MarketUpdateTicketPayload_Status G_MarketUpdateTicketPayload_StartTS G_MarketUpdateTicketPayload_EndTS].
  rewrite gen_validateMarketTS. destruct ((status =? 1) || (status =? 2)); reflexivity.
Qed.
(* the payload guards of market_resolve (identifiers are integers, the invalid spellings the negative ones) *)
Lemma gen_resolution_Validate uid rts winners status :
  K_MarketResolutionTicketPayload_Validate
    {| G_MarketResolutionTicketPayload_UID := uid; G_MarketResolutionTicketPayload_ResolutionTS := rts;
       G_MarketResolutionTicketPayload_WinnerOddsUIDs := winners; G_MarketResolutionTicketPayload_Status := status |}
  = status_resolved status && negb ((status =? MK_DECLARED) && (1 <? zlen winners)) && negb (negb (status =? MK_DECLARED) && (0 <? zlen winners))
    && negb (rts =? 0) && negb (uid <? 0) && negb ((status =? MK_DECLARED) && (zlen winners <? 1)) && forallb (fun o => 0 <=? o) winners.
Proof.
  unfold K_MarketResolutionTicketPayload_Validate, status_resolved, MK_CANCELED, MK_ABORTED, MK_DECLARED.
  cbn [G_MarketResolutionTicketPayload_Status G_MarketResolutionTicketPayload_ResolutionTS G_MarketResolutionTicketPayload_WinnerOddsUIDs
       G_MarketResolutionTicketPayload_UID].
  match goal with |- context [kfold _ _ ?f] => set (F := f) end.
  assert (Hstop : forall l r, fold_left F l (r, true) = (r, true)).
  { induction l as [|x l IH]; intros r; cbn [fold_left]; [reflexivity|apply IH]. }
  assert (Hrun : forall l, kfold (None, false) l F = if forallb (fun o => 0 <=? o) l then (None, false) else (Some false, true)).
  { unfold kfold. induction l as [|x l IH]; cbn [fold_left forallb]; [reflexivity|].
    unfold F at 2. cbv beta iota. destruct (0 <=? x); cbn [negb andb]; [exact IH|apply Hstop]. }
  rewrite !Hrun. unfold klen, zlen. rewrite (Z.ltb_antisym 0 uid).
  destruct (status =? 3), (status =? 4), (status =? 5), (1 <? Z.of_nat (length winners)), (0 <? Z.of_nat (length winners)), (rts =? 0),
    (0 <=? uid), (Z.of_nat (length winners) <? 1), (forallb (fun o => 0 <=? o) winners); reflexivity.
Qed.

(* subaccount keeper sumLockedBalance: refused when an unlock time lies before the block time, else the sum *)
Definition glb_of (l : Z * Z) : G_LockedBalance := {| G_LockedBalance_UnlockTS := fst l; G_LockedBalance_Amount := snd l |}.
Lemma gen_sumLockedBalance now ls : K__sumLockedBalance now (map glb_of ls) = sum_locks now ls.
Proof.
  unfold K__sumLockedBalance, sum_locks.
  match goal with |- context [kfold _ _ ?f] => set (F := f) end. unfold kfold.
  assert (Hstop : forall l a r, fold_left F l (a, r, true) = (a, r, true)).
  { induction l as [|x l IH]; intros a r; cbn [fold_left]; [reflexivity|apply IH]. }
  assert (Hrun : forall l a, fold_left F (map glb_of l) (a, None, false) =
            if existsb (fun l => fst l <? now) l then (fst (fst (fold_left F (map glb_of l) (a, None, false))), Some None, true)
            else (a + zsum (map snd l), None, false)).
  { induction l as [|x l IH]; intros a; cbn [map fold_left existsb zsum].
    - f_equal. f_equal. lia.
    - assert (HF : F (a, None, false) (glb_of x) = if fst x <? now then (a, Some None, true) else (a + snd x, None, false)).
      { unfold F. cbv beta iota. cbn [glb_of G_LockedBalance_UnlockTS G_LockedBalance_Amount]. destruct (fst x <? now); reflexivity. }
      rewrite HF. destruct (fst x <? now); cbn [orb].
      + rewrite Hstop. reflexivity.
      + rewrite IH. destruct (existsb (fun l0 => fst l0 <? now) l); [reflexivity|]. f_equal. f_equal. lia. }
  rewrite Hrun. destruct (existsb (fun l => fst l <? now) ls); [reflexivity|]. cbn [Z.add]. reflexivity.
Qed.

(* ---- stateful kernels of x/subaccount/keeper/balance.go: withdrawUnlocked and withdrawLockedAndUnlocked, generated as functions on the
   state they reach through the keeper (account summary, unlocked total, bank balances of the subaccount and of its owner; SendCoins is the
   guarded transfer between the two balances) ------------------------------------------------------------------------------------------- *)
Definition subwd_state (x : subacc) (unl sb ob : Z) : S_subwd :=
  {| S_subwd_Summary := as_of x; S_subwd_Unlocked := unl; S_subwd_SubBal := sb; S_subwd_OwnerBal := ob |}.

(* = the body of sub_withdraw_unlocked: amount, refusal of a zero amount, Withdraw, then the transfer *)
Lemma gen_withdrawUnlocked x unl sb ob :
  K_subwd_withdrawUnlocked (subwd_state x unl sb ob) =
  let w := Z.min (Z.min (sub_available x) (zmax0 (unl - sa_wd x))) sb in
  if w =? 0 then None else
  match sub_withdraw x w with
  | None => None
  | Some x' => if sb <? w then None else Some (subwd_state x' unl (sb - w) (ob + w))
  end.
Proof.
  unfold K_subwd_withdrawUnlocked, subwd_state. cbn [S_subwd_Summary S_subwd_Unlocked S_subwd_SubBal S_subwd_OwnerBal].
  rewrite gen_WithdrawableUnlockedBalance. cbv zeta.
  set (w := Z.min (Z.min (sub_available x) (zmax0 (unl - sa_wd x))) sb).
  destruct (w =? 0); [reflexivity|]. rewrite gen_Withdraw. destruct (sub_withdraw x w) as [x'|]; cbn [option_map]; [|reflexivity].
  cbn [set_S_subwd_Summary set_S_subwd_SubBal set_S_subwd_OwnerBal S_subwd_Summary S_subwd_Unlocked S_subwd_SubBal S_subwd_OwnerBal].
  destruct (sb <? w); reflexivity.
Qed.

(* = the subaccount part of sub_wager: the bound, the transfer, then Withdraw *)
Lemma gen_withdrawLockedAndUnlocked x unl sb ob d :
  K_subwd_withdrawLockedAndUnlocked (subwd_state x unl sb ob) d =
  if Z.min (Z.min (sub_available x) sb) d <? d then None else
  if sb <? d then None else
  match sub_withdraw x d with None => None | Some x' => Some (subwd_state x' unl (sb - d) (ob + d)) end.
Proof.
  unfold K_subwd_withdrawLockedAndUnlocked, subwd_state. cbn [S_subwd_Summary S_subwd_Unlocked S_subwd_SubBal S_subwd_OwnerBal].
  rewrite gen_WithdrawableBalance. destruct (Z.min (Z.min (sub_available x) sb) d <? d); [reflexivity|].
  destruct (sb <? d); [reflexivity|].
  cbn [set_S_subwd_Summary set_S_subwd_SubBal set_S_subwd_OwnerBal S_subwd_Summary S_subwd_Unlocked S_subwd_SubBal S_subwd_OwnerBal].
  rewrite gen_Withdraw. destruct (sub_withdraw x d); reflexivity.
Qed.

(* the model's sub_withdraw_unlocked IS the generated handler: state assembled from the chain state, result written back to it *)
Lemma model_is_withdrawUnlocked s owner x :
  sub_by_owner (c_subs s) owner = Some x ->
  sub_withdraw_unlocked s owner =
  match K_subwd_withdrawUnlocked (subwd_state x (unlocked_total (c_now s) x) (bget (c_bank s) (sub_addr x)) (bget (c_bank s) owner)) with
  | None => None
  | Some st => match sub_withdraw x (bget (c_bank s) (sub_addr x) - S_subwd_SubBal st) with
               | None => None
               | Some x' => match pay (c_bank s) (sub_addr x) owner (bget (c_bank s) (sub_addr x) - S_subwd_SubBal st) with
                            | None => None
                            | Some b => Some (set_bank (with_subs s (set_sub (c_subs s) x')) b)
                            end
               end
  end.
Proof.
  intros E. unfold sub_withdraw_unlocked. rewrite E, gen_withdrawUnlocked. cbv zeta.
  set (w := Z.min (Z.min (sub_available x) (zmax0 (unlocked_total (c_now s) x - sa_wd x))) (bget (c_bank s) (sub_addr x))).
  destruct (w =? 0); [reflexivity|]. destruct (sub_withdraw x w) as [x'|] eqn:EW; [|reflexivity].
  destruct (bget (c_bank s) (sub_addr x) <? w) eqn:EL.
  - unfold pay. rewrite EL. destruct (w <? 0); reflexivity.
  - cbn [subwd_state S_subwd_SubBal]. replace (bget (c_bank s) (sub_addr x) - (bget (c_bank s) (sub_addr x) - w)) with w by lia.
    rewrite EW. reflexivity.
Qed.

(* ---- the market update and resolution handlers (x/market/keeper msg_server_market.go Update, msg_server_market_resolve.go Resolve, market.go
   Resolve), generated as functions on the state they reach: whether the ticket verifies and the payload it carries, the market stored under
   the payload's uid and whether it exists, the queue of resolved markets, the block time ---------------------------------------------------- *)
Definition mkt_state (tok : bool) (up : G_MarketUpdateTicketPayload) (rp : G_MarketResolutionTicketPayload) (found : bool) (mk : market)
                     (q : list Z) (now : Z) : S_mkt :=
  {| S_mkt_TicketOK := tok; S_mkt_UpdPayload := up; S_mkt_ResPayload := rp; S_mkt_Found := found; S_mkt_Market := gm_of mk; S_mkt_Queue := q; S_mkt_Now := now |}.
Definition upd_payload (uid st en status : Z) : G_MarketUpdateTicketPayload :=
  {| G_MarketUpdateTicketPayload_UID := uid; G_MarketUpdateTicketPayload_StartTS := st; G_MarketUpdateTicketPayload_EndTS := en;
     G_MarketUpdateTicketPayload_Status := status |}.
Definition res_payload (uid rts : Z) (winners : list Z) (status : Z) : G_MarketResolutionTicketPayload :=
  {| G_MarketResolutionTicketPayload_UID := uid; G_MarketResolutionTicketPayload_ResolutionTS := rts;
     G_MarketResolutionTicketPayload_WinnerOddsUIDs := winners; G_MarketResolutionTicketPayload_Status := status |}.

(* = market_update after the ticket and the lookup: the three guards, then the three fields are replaced *)
Lemma gen_msgUpdate tok uid st en status rp found mk q now :
  K_mkt_msgUpdate (mkt_state tok (upd_payload uid st en status) rp found mk q now) =
  if negb tok then None else if negb found then None
  else if negb (status_ai (k_status mk)) then None
  else if negb (status_ai status) then None
  else if negb (market_ts_ok now st en) then None
  else Some (mkt_state tok (upd_payload uid st en status) rp true (market_with mk st en status (k_winners mk) (k_rts mk)) q now).
Proof.
  unfold K_mkt_msgUpdate, mkt_state. cbn [S_mkt_TicketOK S_mkt_UpdPayload S_mkt_Found S_mkt_Market S_mkt_Now].
  destruct tok; cbn [negb]; [|reflexivity]. destruct found; cbn [negb]; [|reflexivity].
  rewrite gen_market_update_allowed. destruct (status_ai (k_status mk)); cbn [negb]; [|reflexivity].
  unfold upd_payload at 1. rewrite gen_update_Validate.
  destruct (status_ai status); cbn [negb andb]; [|reflexivity]. destruct (market_ts_ok now st en); cbn [negb]; reflexivity.
Qed.

(* = market_resolve after the ticket: payload guards, lookup, status, winners; the record is rewritten and the market queued *)
Lemma gen_msgResolve tok up uid rts winners status found mk q now :
  K_mkt_msgResolve (mkt_state tok up (res_payload uid rts winners status) found mk q now) =
  if negb tok then None
  else if negb (status_resolved status && negb ((status =? MK_DECLARED) && (1 <? zlen winners)) && negb (negb (status =? MK_DECLARED) && (0 <? zlen winners))
                && negb (rts =? 0) && negb (uid <? 0) && negb ((status =? MK_DECLARED) && (zlen winners <? 1)) && forallb (fun o => 0 <=? o) winners) then None
  else if negb found then None
  else if negb (status_ai (k_status mk)) then None
  else if (status =? MK_DECLARED) && ((rts <? k_start mk) || negb (forallb (fun w => zmem w (k_odds mk)) winners)) then None
  else Some (mkt_state tok up (res_payload uid rts winners status) true
               (market_with mk (k_start mk) (k_end mk) status (if status =? MK_DECLARED then winners else k_winners mk) rts) (q ++ [k_uid mk]) now).
Proof.
  unfold K_mkt_msgResolve, mkt_state. cbn [S_mkt_TicketOK S_mkt_ResPayload S_mkt_Found S_mkt_Market S_mkt_Now].
  destruct tok; cbn [negb]; [|reflexivity].
  unfold res_payload at 1. rewrite gen_resolution_Validate.
  match goal with |- (if negb ?g then _ else _) = _ => destruct g eqn:EG end; cbn [negb]; [|reflexivity].
  destruct found; cbn [negb]; [|reflexivity].
  rewrite gen_market_resolve_allowed. destruct (status_ai (k_status mk)); cbn [negb]; [|reflexivity].
  unfold res_payload at 1. rewrite gen_ValidateWinnerOdds.
  destruct ((status =? MK_DECLARED) && ((rts <? k_start mk) || negb (forallb (fun w => zmem w (k_odds mk)) winners))); cbn [negb]; [reflexivity|].
  (* the resolved status is one of the three (from the payload guard) *)
  assert (HR : status_resolved status = true).
  { repeat (apply andb_true_iff in EG; destruct EG as [EG _]). exact EG. }
  unfold K_mkt_Resolve, res_payload, MK_DECLARED.
  cbn [G_MarketResolutionTicketPayload_ResolutionTS G_MarketResolutionTicketPayload_Status G_MarketResolutionTicketPayload_WinnerOddsUIDs].
  unfold status_resolved, MK_CANCELED, MK_ABORTED, MK_DECLARED in HR.
  unfold K_Market_IsResolved, set_G_Market_WinnerOddsUIDs, set_G_Market_Status, set_G_Market_ResolutionTS, gm_of.
  cbn [G_Market_Status G_Market_UID G_Market_StartTS G_Market_EndTS G_Market_Odds G_Market_WinnerOddsUIDs G_Market_ResolutionTS G_Market_Creator
       G_Market_Meta G_Market_BookUID].
  destruct (status =? 5) eqn:E5.
  - cbn [orb]. reflexivity.
  - rewrite orb_false_r in HR. cbn [orb]. rewrite HR. reflexivity.
Qed.

(* the model's handlers accept exactly when the generated handlers do (on the state assembled from the chain state), and gen_msgUpdate /
   gen_msgResolve say that the record and the queue the generated handlers store are the model's *)
Lemma model_market_update s tk uid st en status rp :
  market_update s tk uid st en status =
  match get_ms s uid with
  | None => None
  | Some x =>
      match K_mkt_msgUpdate (mkt_state (ticket_ok s tk) (upd_payload uid st en status) rp true (ms_mkt x) (c_mqueue s) (c_now s)) with
      | None => None
      | Some _ =>
          let x' := mstate_upd x (market_with (ms_mkt x) st en status (k_winners (ms_mkt x)) (k_rts (ms_mkt x))) (ms_book x)
                               (ms_bets x) (ms_pending x) (ms_deps x) (ms_wds x) in
          Some (chain_upd s (c_bank s) (set_ms_list (c_ms s) uid x') (c_mqueue s) (c_bqueue s) (c_betcnt s) (c_uid2id s) (c_settledix s) (c_grants s))
      end
  end.
Proof.
  unfold market_update. destruct (ticket_ok s tk) eqn:ET; cbn [negb].
  - destruct (get_ms s uid) as [x|]; [|reflexivity]. rewrite gen_msgUpdate. cbn [negb].
    destruct (status_ai (k_status (ms_mkt x))); cbn [negb]; [|reflexivity].
    destruct (status_ai status); cbn [negb]; [|reflexivity]. destruct (market_ts_ok (c_now s) st en); reflexivity.
  - destruct (get_ms s uid) as [x|]; [|reflexivity]. rewrite gen_msgUpdate. reflexivity.
Qed.

Lemma model_market_resolve s tk uid rts winners status up :
  market_resolve s tk uid rts winners status =
  match get_ms s uid with
  | None => match K_mkt_msgResolve (mkt_state (ticket_ok s tk) up (res_payload uid rts winners status) false
                                              {| k_uid := uid; k_creator := 0; k_start := 0; k_end := 0; k_odds := []; k_status := 0; k_winners := []; k_rts := 0 |}
                                              (c_mqueue s) (c_now s)) with
            | None => None | Some _ => None end
  | Some x =>
      match K_mkt_msgResolve (mkt_state (ticket_ok s tk) up (res_payload uid rts winners status) true (ms_mkt x) (c_mqueue s) (c_now s)) with
      | None => None
      | Some _ =>
          let mk' := market_with (ms_mkt x) (k_start (ms_mkt x)) (k_end (ms_mkt x)) status
                                 (if status =? MK_DECLARED then winners else k_winners (ms_mkt x)) rts in
          let x' := mstate_upd x mk' (ms_book x) (ms_bets x) (ms_pending x) (ms_deps x) (ms_wds x) in
          Some (chain_upd s (c_bank s) (set_ms_list (c_ms s) uid x') (c_mqueue s ++ [uid]) (c_bqueue s) (c_betcnt s) (c_uid2id s) (c_settledix s) (c_grants s))
      end
  end.
Proof.
  unfold market_resolve. destruct (get_ms s uid) as [x|]; rewrite gen_msgResolve; destruct (ticket_ok s tk); cbn [negb].
  2, 4: (repeat match goal with |- context [if ?c then None else _] => destruct c end); reflexivity.
  - destruct (status_resolved status); cbn [negb andb]; [|reflexivity].
    destruct ((status =? MK_DECLARED) && (1 <? zlen winners)); cbn [negb andb]; [reflexivity|].
    destruct (negb (status =? MK_DECLARED) && (0 <? zlen winners)); cbn [negb andb]; [reflexivity|].
    destruct (rts =? 0); cbn [negb andb]; [reflexivity|]. destruct (uid <? 0); cbn [negb andb]; [reflexivity|].
    destruct ((status =? MK_DECLARED) && (zlen winners <? 1)); cbn [negb andb]; [reflexivity|].
    destruct (forallb (fun o => 0 <=? o) winners); cbn [negb]; [|reflexivity].
    destruct (status_ai (k_status (ms_mkt x))); cbn [negb]; [|reflexivity].
    destruct ((status =? MK_DECLARED) && ((rts <? k_start (ms_mkt x)) || negb (forallb (fun w => zmem w (k_odds (ms_mkt x))) winners))); reflexivity.
  - destruct (status_resolved status); cbn [negb andb]; [|reflexivity].
    destruct ((status =? MK_DECLARED) && (1 <? zlen winners)); cbn [negb andb]; [reflexivity|].
    destruct (negb (status =? MK_DECLARED) && (0 <? zlen winners)); cbn [negb andb]; [reflexivity|].
    destruct (rts =? 0); cbn [negb andb]; [reflexivity|]. destruct (uid <? 0); cbn [negb andb]; [reflexivity|].
    destruct ((status =? MK_DECLARED) && (zlen winners <? 1)); cbn [negb andb]; [reflexivity|].
    destruct (forallb (fun o => 0 <=? o) winners); reflexivity.
Qed.

(* ---- x/subaccount/keeper/balance.go TopUp, generated over the state it reaches: does the owner have a subaccount, its summary and lock
   records, the bank balances of the funding account and of the subaccount, the block time --------------------------------------------------- *)
Definition subtop_state (ex : bool) (x : subacc) (sumex : bool) (cb sb now : Z) : S_subtop :=
  {| S_subtop_Exists := ex; S_subtop_Summary := as_of x; S_subtop_SummaryExists := sumex; S_subtop_Locks := map glb_of (sa_locks x);
     S_subtop_CreatorBal := cb; S_subtop_SubBal := sb; S_subtop_Now := now |}.

Lemma existsb_glb (old : list (Z * Z)) k :
  existsb (fun g => G_LockedBalance_UnlockTS g =? k) (map glb_of old) = existsb (fun o => fst o =? k) old.
Proof. induction old as [|a l IH]; cbn [map existsb]; [reflexivity|]. rewrite IH. reflexivity. Qed.
Lemma kupd_glb (acc : list (Z * Z)) l :
  kupd (fun g => G_LockedBalance_UnlockTS g =? G_LockedBalance_UnlockTS (glb_of l)) (glb_of l) (map glb_of acc) =
  map glb_of (upd (fun x => fst x =? fst l) l acc).
Proof. induction acc as [|a r IH]; cbn [map kupd upd]; [reflexivity|]. cbn [glb_of G_LockedBalance_UnlockTS]. destruct (fst a =? fst l); cbn [map]; [reflexivity|]. f_equal. exact IH. Qed.
Lemma set_locks_glb (new old : list (Z * Z)) :
  fold_left (fun acc g => kupd (fun y => G_LockedBalance_UnlockTS y =? G_LockedBalance_UnlockTS g) g acc) (map glb_of new) (map glb_of old) =
  map glb_of (set_locks old new).
Proof.
  unfold set_locks. revert old. induction new as [|l r IH]; intros old; cbn [map fold_left]; [reflexivity|].
  rewrite kupd_glb. apply IH.
Qed.

(* = sub_topup after the validity of the lock list and the owner lookup: refusal of an unlock time before the block time or one that
   already has a record, the deposited amount grows by the sum, the lock records are written (last write per unlock time wins), the sum
   moves from the funding account to the subaccount (refused when the funding account holds less) *)
Lemma gen_TopUp x locks cb sb now :
  K_subtop_TopUp (subtop_state true x true cb sb now) (map glb_of locks) =
  match sum_locks now locks with
  | None => None
  | Some tot =>
      if existsb (fun l => existsb (fun o => fst o =? fst l) (sa_locks x)) locks then None
      else if cb <? tot then None
      else Some (subtop_state true (sub_with x (sa_dep x + tot) (sa_spent x) (sa_wd x) (sa_lost x) (set_locks (sa_locks x) locks)) true (cb - tot) (sb + tot) now)
  end.
Proof.
  unfold K_subtop_TopUp. replace (S_subtop_Now (subtop_state true x true cb sb now)) with now by reflexivity.
  rewrite gen_sumLockedBalance. destruct (sum_locks now locks) as [tot|]; [|reflexivity].
  cbv zeta. replace (S_subtop_Exists (subtop_state true x true cb sb now)) with true by reflexivity.
  replace (S_subtop_SummaryExists (subtop_state true x true cb sb now)) with true by reflexivity.
  replace (S_subtop_Summary (subtop_state true x true cb sb now)) with (as_of x) by reflexivity. cbn [negb]. cbv iota beta.
  match goal with |- context [kfold _ _ ?f] => set (F := f) end. unfold kfold.
  set (st0 := subtop_state true x true cb sb now).
  assert (Hstop : forall l s r, fold_left F l (s, r, true) = (s, r, true)).
  { induction l as [|a l IH]; intros s r; cbn [fold_left]; [reflexivity|apply IH]. }
  assert (Hrun : forall l, fold_left F (map glb_of l) (st0, None, false) =
            if existsb (fun l0 => existsb (fun o => fst o =? fst l0) (sa_locks x)) l then (st0, Some None, true) else (st0, None, false)).
  { induction l as [|a l IH]; cbn [map fold_left existsb]; [reflexivity|].
    assert (HF : F (st0, None, false) (glb_of a) = if existsb (fun o => fst o =? fst a) (sa_locks x) then (st0, Some None, true) else (st0, None, false)).
    { unfold F. cbv beta iota. replace (S_subtop_Locks st0) with (map glb_of (sa_locks x)) by reflexivity.
      cbn [glb_of G_LockedBalance_UnlockTS]. rewrite existsb_glb. destruct (existsb (fun o => fst o =? fst a) (sa_locks x)); reflexivity. }
    rewrite HF. destruct (existsb (fun o => fst o =? fst a) (sa_locks x)); cbn [orb]; [apply Hstop|exact IH]. }
  rewrite Hrun. destruct (existsb (fun l0 => existsb (fun o => fst o =? fst l0) (sa_locks x)) locks); [reflexivity|].
  cbv iota beta. subst st0. unfold subtop_state.
  cbn [set_S_subtop_Summary set_S_subtop_Locks set_S_subtop_CreatorBal set_S_subtop_SubBal S_subtop_Exists S_subtop_Summary S_subtop_SummaryExists
       S_subtop_Locks S_subtop_CreatorBal S_subtop_SubBal S_subtop_Now].
  rewrite set_locks_glb. destruct (cb <? tot); reflexivity.
Qed.

Lemma lock_ok_sum_nonneg now locks tot : forallb (lock_ok now) locks = true -> sum_locks now locks = Some tot -> 0 <= tot.
Proof.
  unfold sum_locks. destruct (existsb (fun l => fst l <? now) locks); [discriminate|]. intros H E. injection E as <-.
  induction locks as [|a l IH]; cbn [map zsum]; [lia|]. cbn [forallb] in H. apply andb_true_iff in H. destruct H as [Ha Hl].
  unfold lock_ok in Ha. apply andb_true_iff in Ha. destruct Ha as [_ Ha]. apply negb_true_iff, Z.ltb_ge in Ha. specialize (IH Hl). lia.
Qed.

(* the model's sub_topup accepts exactly when the generated TopUp does on the state assembled from the chain state (gen_TopUp says that what
   the generated function stores is the model's new subaccount record and balances) *)
Lemma model_sub_topup s creator owner locks x :
  forallb (lock_ok (c_now s)) locks = true -> sub_by_owner (c_subs s) owner = Some x ->
  (sub_topup s creator owner locks = None <->
   K_subtop_TopUp (subtop_state true x true (bget (c_bank s) creator) (bget (c_bank s) (sub_addr x)) (c_now s)) (map glb_of locks) = None).
Proof.
  intros HL E. unfold sub_topup. rewrite HL, E, gen_TopUp. cbn [negb].
  destruct (sum_locks (c_now s) locks) as [tot|] eqn:ES; [|split; reflexivity].
  pose proof (lock_ok_sum_nonneg _ _ _ HL ES) as Hn.
  destruct (existsb (fun l => existsb (fun o => fst o =? fst l) (sa_locks x)) locks); [split; reflexivity|].
  unfold pay. replace (tot <? 0) with false by (symmetry; apply Z.ltb_ge; exact Hn).
  destruct (bget (c_bank s) creator <? tot); split; intros H; try reflexivity; discriminate.
Qed.

(* Proofs/GenKernels.v — umbrella: the equivalence lemmas between the generated kernels and the model live in one file per module
   (GenSub, GenOb, GenBet, GenMarket, GenOvmK, GenReward, GenHouse, GenMintK, GenParams; stateful kernels also in GenMint, GenOvm, GenSettle). *)
From Sge Require Export Proofs.GenSub Proofs.GenOb Proofs.GenMarket Proofs.GenBet Proofs.GenOvmK Proofs.GenReward Proofs.GenHouse Proofs.GenMintK Proofs.GenParams.

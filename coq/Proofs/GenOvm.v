(* Proofs/GenOvm.v — x/ovm/keeper/proposal.go finishPubkeysChangeProposals and finishPubkeysChangeProposal (with KeyVault.SetLeader and
   utils.PopStrAtIndex), generated from the source as functions on the state they reach through the keeper (the active proposals in id
   order, the finished ones, the key vault, the block time), compute the model's ovm_finish: the same proposals are finished with the same
   results in the same order, the same proposals stay active, the same key vault is installed — including the behaviour recorded as finding
   D10 (every decision of one end block is taken against the number of keys read before the loop). *)
From Coq Require Import ZArith Bool List Lia.
From Sge Require Import Lib.Dec Model.Types Model.Chain Gen.kernels Proofs.GenOvmK.
Import ListNotations.
Open Scope Z_scope.

Lemma gen_PopStrAtIndex keys i : 0 <= i ->
  K__PopStrAtIndex keys i = (firstn (Z.to_nat i) keys ++ skipn (S (Z.to_nat i)) keys, knth keys i 0).
Proof. intros H. unfold K__PopStrAtIndex. replace (Z.to_nat (i + 1)) with (S (Z.to_nat i)) by lia. reflexivity. Qed.

Lemma gen_SetLeader keys i : 0 <= i < zlen keys -> K_KeyVault_SetLeader (kv_of keys) i = kv_of (set_leader keys i).
Proof.
  intros H. unfold K_KeyVault_SetLeader, kv_of, set_leader. cbn [G_KeyVault_PublicKeys]. rewrite gen_PopStrAtIndex by lia.
  unfold set_G_KeyVault_PublicKeys. cbn [app]. unfold knth. destruct (i <? 0) eqn:E; [apply Z.ltb_lt in E; lia|].
  rewrite (nth_indep keys 0 (-1)) by (unfold zlen in H; lia). reflexivity.
Qed.

Definition is_active (p : proposal) : bool := pp_status p =? PS_ACTIVE.

Definition ovm_state (act fin : list proposal) (vault : list Z) (now : Z) : S_ovm :=
  {| S_ovm_Active := map gprop_of act; S_ovm_Finished := map gprop_of fin; S_ovm_Vault := kv_of vault; S_ovm_VaultFound := true; S_ovm_Now := now |}.

(* finishing the active proposal p: it leaves the active list and is appended, finished, to the finished ones *)
Lemma find_gprop (act : list proposal) id :
  find (fun g => G_PublicKeysChangeProposal_Id g =? id) (map gprop_of act) = option_map gprop_of (find (fun p => pp_id p =? id) act).
Proof. induction act as [|a l IH]; cbn [map find option_map]; [reflexivity|]. cbn [gprop_of G_PublicKeysChangeProposal_Id]. destruct (pp_id a =? id); [reflexivity|exact IH]. Qed.
Lemma filter_gprop (act : list proposal) id :
  filter (fun g => negb (G_PublicKeysChangeProposal_Id g =? id)) (map gprop_of act) = map gprop_of (filter (fun p => negb (pp_id p =? id)) act).
Proof. induction act as [|a l IH]; cbn [map filter]; [reflexivity|]. cbn [gprop_of G_PublicKeysChangeProposal_Id]. destruct (pp_id a =? id); cbn [negb map]; rewrite IH; reflexivity. Qed.

Lemma gen_finishOne act fin vault now p result :
  find (fun q => pp_id q =? pp_id p) act = Some p ->
  K_ovm_finishPubkeysChangeProposal (ovm_state act fin vault now) (pp_id p) result =
  Some (ovm_state (filter (fun q => negb (pp_id q =? pp_id p)) act) (fin ++ [finish_prop p result now]) vault now).
Proof.
  intros F. unfold K_ovm_finishPubkeysChangeProposal, ovm_state. cbn [S_ovm_Active S_ovm_Finished S_ovm_Now].
  rewrite find_gprop, F. cbn [option_map negb].
  cbn [set_S_ovm_Active set_S_ovm_Finished S_ovm_Active S_ovm_Finished S_ovm_Vault S_ovm_VaultFound S_ovm_Now].
  rewrite filter_gprop, map_app. reflexivity.
Qed.

(* the loop over the snapshot of active proposals, on the model side: what stays active, what is finished (in order), the vault *)
Fixpoint fin_act (act : list proposal) (now n0 : Z) (vault : list Z) : list proposal * list proposal * list Z :=
  match act with
  | [] => ([], [], vault)
  | p :: r =>
      if 1800 <? now - pp_start p then let '(k, f, v) := fin_act r now n0 vault in (k, finish_prop p PR_EXPIRED now :: f, v)
      else let d := decide p n0 in
           if d =? PR_REJECTED then let '(k, f, v) := fin_act r now n0 vault in (k, finish_prop p PR_REJECTED now :: f, v)
           else if d =? PR_APPROVED then let '(k, f, v) := fin_act r now n0 (set_leader (pp_keys p) (pp_leader p)) in (k, finish_prop p PR_APPROVED now :: f, v)
           else let '(k, f, v) := fin_act r now n0 vault in (p :: k, f, v)
  end.

(* fin_act on the active proposals is ovm_finish on all of them *)
Lemma fin_act_finish ps now n0 : forall vault, Forall (fun p => pp_status p = PS_ACTIVE \/ pp_status p = PS_FINISHED) ps ->
  let '(k, f, v) := fin_act (filter is_active ps) now n0 vault in
  filter is_active (fst (ovm_finish ps now n0 vault)) = k /\ snd (ovm_finish ps now n0 vault) = v.
Proof.
  induction ps as [|p r IH]; intros vault HS; cbn [filter fin_act ovm_finish fst snd]; [split; reflexivity|].
  inversion HS as [|? ? Hp Hr]; subst. unfold is_active at 1.
  destruct (pp_status p =? PS_ACTIVE) eqn:EA; cbn [negb].
  - cbn [fin_act]. destruct (1800 <? now - pp_start p).
    + specialize (IH vault Hr). destruct (fin_act (filter is_active r) now n0 vault) as [[k f] v]. destruct (ovm_finish r now n0 vault) as [r' v'].
      cbn [fst snd filter] in *. unfold is_active at 1. cbn [finish_prop pp_status]. unfold PS_FINISHED, PS_ACTIVE. cbn [Z.eqb Pos.eqb]. exact IH.
    + cbv zeta. destruct (decide p n0 =? PR_REJECTED).
      * specialize (IH vault Hr). destruct (fin_act (filter is_active r) now n0 vault) as [[k f] v]. destruct (ovm_finish r now n0 vault) as [r' v'].
        cbn [fst snd filter] in *. unfold is_active at 1. cbn [finish_prop pp_status]. unfold PS_FINISHED, PS_ACTIVE. cbn [Z.eqb Pos.eqb]. exact IH.
      * destruct (decide p n0 =? PR_APPROVED).
        -- specialize (IH (set_leader (pp_keys p) (pp_leader p)) Hr).
           destruct (fin_act (filter is_active r) now n0 (set_leader (pp_keys p) (pp_leader p))) as [[k f] v].
           destruct (ovm_finish r now n0 (set_leader (pp_keys p) (pp_leader p))) as [r' v'].
           cbn [fst snd filter] in *. unfold is_active at 1. cbn [finish_prop pp_status]. unfold PS_FINISHED, PS_ACTIVE. cbn [Z.eqb Pos.eqb]. exact IH.
        -- specialize (IH vault Hr). destruct (fin_act (filter is_active r) now n0 vault) as [[k f] v]. destruct (ovm_finish r now n0 vault) as [r' v'].
           cbn [fst snd filter] in *. unfold is_active at 1. rewrite EA. destruct IH as [IH1 IH2]. split; [f_equal; exact IH1|exact IH2].
  - specialize (IH vault Hr). destruct (fin_act (filter is_active r) now n0 vault) as [[k f] v]. destruct (ovm_finish r now n0 vault) as [r' v'].
    cbn [fst snd filter] in *. unfold is_active at 1. rewrite EA. exact IH.
Qed.

Lemma find_mid (kept r : list proposal) p : NoDup (map pp_id (kept ++ p :: r)) ->
  find (fun q => pp_id q =? pp_id p) (kept ++ p :: r) = Some p.
Proof.
  induction kept as [|a l IH]; cbn [app map find]; intros ND.
  - rewrite Z.eqb_refl. reflexivity.
  - inversion ND as [|? ? Hn Hr]; subst. destruct (pp_id a =? pp_id p) eqn:E; [|apply IH; exact Hr].
    apply Z.eqb_eq in E. exfalso. apply Hn. rewrite E, map_app. apply in_or_app. right. left. reflexivity.
Qed.
Lemma filter_mid (kept r : list proposal) p : NoDup (map pp_id (kept ++ p :: r)) ->
  filter (fun q => negb (pp_id q =? pp_id p)) (kept ++ p :: r) = kept ++ r.
Proof.
  intros ND. rewrite filter_app. cbn [filter]. rewrite Z.eqb_refl. cbn [negb].
  assert (H : forall l, (forall q, In q l -> pp_id q <> pp_id p) -> filter (fun q => negb (pp_id q =? pp_id p)) l = l).
  { induction l as [|a l IH]; intros Hq; cbn [filter]; [reflexivity|].
    destruct (Z.eqb_spec (pp_id a) (pp_id p)) as [E|E]; [exfalso; apply (Hq a); [left; reflexivity|exact E]|].
    cbn [negb]. f_equal. apply IH. intros q Hi. apply Hq. right. exact Hi. }
  rewrite map_app in ND. cbn [map] in ND. apply NoDup_remove in ND. destruct ND as [_ Hn].
  rewrite !H; [reflexivity| |].
  - intros q Hi E. apply Hn. apply in_or_app. right. rewrite <- E. apply in_map. exact Hi.
  - intros q Hi E. apply Hn. apply in_or_app. left. rewrite <- E. apply in_map. exact Hi.
Qed.

Definition prop_wf (p : proposal) : Prop := 0 <= pp_leader p < zlen (pp_keys p).

(* the generated end-block function is fin_act: same proposals kept, same proposals finished in the same order with the same results, same vault *)
Lemma gen_finishAll act fin vault now :
  NoDup (map pp_id act) -> Forall prop_wf act -> zlen vault <= 1000 ->
  K_ovm_finishPubkeysChangeProposals (ovm_state act fin vault now) =
  let '(k, f, v) := fin_act act now (zlen vault) vault in Some (ovm_state k (fin ++ f) v now).
Proof.
  intros ND WF HV. unfold K_ovm_finishPubkeysChangeProposals.
  destruct act as [|p0 act0].
  { cbn [fin_act]. unfold ovm_state at 1 2. cbn [S_ovm_Active map klen length Z.of_nat Z.eqb]. rewrite app_nil_r. reflexivity. }
  set (act := p0 :: act0) in *.
  replace (klen (S_ovm_Active (ovm_state act fin vault now)) =? 0) with false
    by (symmetry; apply Z.eqb_neq; unfold klen, ovm_state; cbn [S_ovm_Active]; rewrite map_length; subst act; cbn [length]; lia).
  cbv zeta. replace (S_ovm_Now (ovm_state act fin vault now)) with now by reflexivity.
  replace (S_ovm_Vault (ovm_state act fin vault now)) with (kv_of vault) by reflexivity.
  replace (S_ovm_VaultFound (ovm_state act fin vault now)) with true by reflexivity. cbv iota beta.
  match goal with |- context [kfold _ _ ?f] => set (F := f) end. unfold kfold.
  replace (S_ovm_Active (ovm_state act fin vault now)) with (map gprop_of act) by reflexivity.
  assert (Hrun : forall rest kept fin1 vault1, NoDup (map pp_id (kept ++ rest)) -> Forall prop_wf rest ->
     fold_left F (map gprop_of rest) (ovm_state (kept ++ rest) fin1 vault1 now, None, false) =
     let '(k, f, v) := fin_act rest now (zlen vault) vault1 in (ovm_state (kept ++ k) (fin1 ++ f) v now, None, false)).
  { induction rest as [|p rest IH]; intros kept fin1 vault1 ND1 WF1; cbn [map fold_left fin_act].
    - rewrite !app_nil_r. reflexivity.
    - inversion WF1 as [|? ? Hp Hr]; subst.
      assert (Efind := find_mid kept rest p ND1). assert (Efilt := filter_mid kept rest p ND1).
      assert (ND2 : NoDup (map pp_id (kept ++ rest))).
      { rewrite map_app in *. cbn [map] in ND1. apply NoDup_remove_1 in ND1. exact ND1. }
      unfold F at 2. cbv beta iota. rewrite gen_IsExpired.
      replace (G_PublicKeysChangeProposal_Id (gprop_of p)) with (pp_id p) by reflexivity.
      destruct (1800 <? now - pp_start p).
      + rewrite (gen_finishOne (kept ++ p :: rest) fin1 vault1 now p 3 Efind). rewrite Efilt.
        specialize (IH kept (fin1 ++ [finish_prop p 3 now]) vault1 ND2 Hr). rewrite IH.
        destruct (fin_act rest now (zlen vault) vault1) as [[k f] v]. unfold PR_EXPIRED. rewrite <- app_assoc. reflexivity.
      + rewrite (gen_DecideResult p vault HV). cbv zeta. unfold PR_REJECTED, PR_APPROVED.
        destruct (decide p (zlen vault) =? 2).
        * rewrite (gen_finishOne (kept ++ p :: rest) fin1 vault1 now p 2 Efind). rewrite Efilt.
          specialize (IH kept (fin1 ++ [finish_prop p 2 now]) vault1 ND2 Hr). rewrite IH.
          destruct (fin_act rest now (zlen vault) vault1) as [[k f] v]. rewrite <- app_assoc. reflexivity.
        * destruct (decide p (zlen vault) =? 1).
          -- replace (G_PubkeysChangeProposalPayload_PublicKeys (G_PublicKeysChangeProposal_Modifications (gprop_of p))) with (pp_keys p) by reflexivity.
             replace (G_PubkeysChangeProposalPayload_LeaderIndex (G_PublicKeysChangeProposal_Modifications (gprop_of p))) with (pp_leader p) by reflexivity.
             replace (set_G_KeyVault_PublicKeys (S_ovm_Vault (ovm_state (kept ++ p :: rest) fin1 vault1 now)) (pp_keys p)) with (kv_of (pp_keys p)) by reflexivity.
             rewrite (gen_SetLeader (pp_keys p) (pp_leader p) Hp).
             rewrite (gen_finishOne (kept ++ p :: rest) fin1 vault1 now p 1 Efind). rewrite Efilt.
             replace (set_S_ovm_Vault (ovm_state (kept ++ rest) (fin1 ++ [finish_prop p 1 now]) vault1 now) (kv_of (set_leader (pp_keys p) (pp_leader p))))
               with (ovm_state (kept ++ rest) (fin1 ++ [finish_prop p 1 now]) (set_leader (pp_keys p) (pp_leader p)) now) by reflexivity.
             specialize (IH kept (fin1 ++ [finish_prop p 1 now]) (set_leader (pp_keys p) (pp_leader p)) ND2 Hr). rewrite IH.
             destruct (fin_act rest now (zlen vault) (set_leader (pp_keys p) (pp_leader p))) as [[k f] v]. rewrite <- app_assoc. reflexivity.
          -- specialize (IH (kept ++ [p]) fin1 vault1). rewrite <- !app_assoc in IH. cbn [app] in IH. rewrite (IH ND1 Hr).
             destruct (fin_act rest now (zlen vault) vault1) as [[k f] v]. rewrite <- app_assoc. reflexivity. }
  specialize (Hrun act [] fin vault ND WF). cbn [app] in Hrun. rewrite Hrun.
  destruct (fin_act act now (zlen vault) vault) as [[k f] v]. reflexivity.
Qed.

(* on the whole proposal list of the model: the generated end-block function keeps active exactly what ovm_finish keeps active and installs
   the vault ovm_finish computes *)
Lemma NoDup_filter_ids (ps : list proposal) (f : proposal -> bool) : NoDup (map pp_id ps) -> NoDup (map pp_id (filter f ps)).
Proof.
  induction ps as [|p r IH]; cbn [map filter]; intros ND; [constructor|]. inversion ND as [|? ? Hn Hr]; subst.
  destruct (f p); [|apply IH; exact Hr]. cbn [map]. constructor; [|apply IH; exact Hr].
  intros Hi. apply Hn. apply in_map_iff in Hi. destruct Hi as (q & Eq & Hq). apply filter_In in Hq. rewrite <- Eq. apply in_map. apply Hq.
Qed.
Lemma Forall_filter_wf (ps : list proposal) (f : proposal -> bool) : Forall prop_wf ps -> Forall prop_wf (filter f ps).
Proof. intros H. apply Forall_forall. intros q Hq. apply filter_In in Hq. rewrite Forall_forall in H. apply H. apply Hq. Qed.

Theorem gen_ovm_endblock ps fin vault now :
  NoDup (map pp_id ps) -> Forall prop_wf ps -> Forall (fun p => pp_status p = PS_ACTIVE \/ pp_status p = PS_FINISHED) ps -> zlen vault <= 1000 ->
  exists st', K_ovm_finishPubkeysChangeProposals (ovm_state (filter is_active ps) fin vault now) = Some st' /\
              S_ovm_Active st' = map gprop_of (filter is_active (fst (ovm_finish ps now (zlen vault) vault))) /\
              S_ovm_Vault st' = kv_of (snd (ovm_finish ps now (zlen vault) vault)) /\ S_ovm_Now st' = now.
Proof.
  intros ND WF HS HV. rewrite (gen_finishAll _ fin vault now (NoDup_filter_ids ps is_active ND) (Forall_filter_wf ps is_active WF) HV).
  pose proof (fin_act_finish ps now (zlen vault) vault HS) as R.
  destruct (fin_act (filter is_active ps) now (zlen vault) vault) as [[k f] v]. destruct R as [R1 R2].
  eexists. split; [reflexivity|]. cbn [ovm_state S_ovm_Active S_ovm_Vault S_ovm_Now]. rewrite R1, R2. repeat split.
Qed.

(* the behaviour recorded as finding D10, on the generated code: four registered keys 0..3; proposal 1 (keys 4..7) has three yes votes and is
   approved; proposal 2 (keys 8..11) has three yes votes of keys 0..2, which proposal 1 has just removed - it is approved all the same and
   its keys are installed, although none of the currently registered keys voted for it *)
Example d10_on_generated_code :
  let votes := [(0, 2); (1, 2); (2, 2)] in
  let p1 := {| pp_id := 1; pp_creator := 0; pp_keys := [4; 5; 6; 7]; pp_leader := 0; pp_start := 100; pp_votes := votes; pp_status := PS_ACTIVE; pp_result := 0; pp_finish := 0 |} in
  let p2 := {| pp_id := 2; pp_creator := 0; pp_keys := [8; 9; 10; 11]; pp_leader := 0; pp_start := 100; pp_votes := votes; pp_status := PS_ACTIVE; pp_result := 0; pp_finish := 0 |} in
  option_map (fun st => (G_KeyVault_PublicKeys (S_ovm_Vault st), map G_PublicKeysChangeProposal_Result (S_ovm_Finished st)))
             (K_ovm_finishPubkeysChangeProposals (ovm_state [p1; p2] [] [0; 1; 2; 3] 200)) = Some ([8; 9; 10; 11], [1; 1]).
Proof. vm_compute. reflexivity. Qed.

(* ---- msg_server_vote.go VotePubkeysChange, generated over: does the ticket verify and under which key, the vote payload it carries, the key
   vault, the active proposals.  It is the model's ovm_vote read on the active proposals: index in range, ticket of exactly the voting key,
   vote yes or no, active proposal with that id, at most one vote per key, the vote appended. ------------------------------------------------- *)
Definition vote_state (tok : bool) (tkey : Z) (pid vote : Z) (vault : list Z) (act : list proposal) : S_vote :=
  {| S_vote_TicketOK := tok; S_vote_TicketKey := tkey;
     S_vote_VotePayload := {| G_ProposalVotePayload_ProposalId := pid; G_ProposalVotePayload_Vote := vote |};
     S_vote_Vault := kv_of vault; S_vote_VaultFound := true; S_vote_Active := map gprop_of act |}.
Definition vmsg (creator ticket idx : Z) : G_MsgVotePubkeysChangeRequest :=
  {| G_MsgVotePubkeysChangeRequest_Creator := creator; G_MsgVotePubkeysChangeRequest_Ticket := ticket; G_MsgVotePubkeysChangeRequest_VoterKeyIndex := idx |}.
Definition with_vote (p : proposal) (key vote : Z) : proposal :=
  {| pp_id := pp_id p; pp_creator := pp_creator p; pp_keys := pp_keys p; pp_leader := pp_leader p; pp_start := pp_start p;
     pp_votes := pp_votes p ++ [(key, vote)]; pp_status := pp_status p; pp_result := pp_result p; pp_finish := pp_finish p |}.

Lemma kupd_gprop (act : list proposal) q :
  kupd (fun g => G_PublicKeysChangeProposal_Id g =? G_PublicKeysChangeProposal_Id (gprop_of q)) (gprop_of q) (map gprop_of act) =
  map gprop_of (upd (fun x => pp_id x =? pp_id q) q act).
Proof.
  induction act as [|a r IH]; cbn [map kupd upd]; [reflexivity|]. cbn [gprop_of G_PublicKeysChangeProposal_Id].
  destruct (pp_id a =? pp_id q); cbn [map]; [reflexivity|]. f_equal. exact IH.
Qed.

Lemma gen_vote tok tkey pid vote vault act creator ticket idx : 0 <= idx ->
  K_vote_msgVotePubkeysChange (vote_state tok tkey pid vote vault act) (vmsg creator ticket idx) =
  if zlen vault <=? idx then None else
  let key := nth (Z.to_nat idx) vault (-1) in
  if negb (tok && (tkey =? key)) then None
  else if negb ((vote =? VOTE_YES) || (vote =? VOTE_NO)) then None
  else match find (fun p => pp_id p =? pid) act with
       | None => None
       | Some p => if existsb (fun v => fst v =? key) (pp_votes p) then None
                   else Some (vote_state tok tkey pid vote vault (upd (fun q => pp_id q =? pid) (with_vote p key vote) act))
       end.
Proof.
  intros Hi. unfold K_vote_msgVotePubkeysChange, vote_state, vmsg.
  cbn [S_vote_Vault S_vote_VaultFound S_vote_TicketOK S_vote_TicketKey S_vote_VotePayload S_vote_Active negb kv_of G_KeyVault_PublicKeys
       G_MsgVotePubkeysChangeRequest_VoterKeyIndex].
  unfold klen. fold (zlen vault). destruct (zlen vault <=? idx) eqn:EL; [reflexivity|]. apply Z.leb_gt in EL. cbv zeta.
  assert (Ek : knth vault idx 0 = nth (Z.to_nat idx) vault (-1)).
  { unfold knth. destruct (idx <? 0) eqn:E; [apply Z.ltb_lt in E; lia|]. apply nth_indep. unfold zlen in EL. lia. }
  rewrite Ek. set (key := nth (Z.to_nat idx) vault (-1)).
  destruct (tok && (tkey =? key)); cbn [negb]; [|reflexivity].
  unfold K_ProposalVotePayload_Validate, VOTE_YES, VOTE_NO. cbn [G_ProposalVotePayload_Vote G_ProposalVotePayload_ProposalId].
  destruct ((vote =? 2) || (vote =? 1)); cbn [negb]; [|reflexivity].
  rewrite find_gprop. destruct (find (fun p => pp_id p =? pid) act) as [p|] eqn:EF; cbn [option_map negb]; [|reflexivity].
  match goal with |- context [kfold _ _ ?f] => set (F := f) end. unfold kfold.
  set (st0 := {| S_vote_TicketOK := tok; S_vote_TicketKey := tkey;
                 S_vote_VotePayload := {| G_ProposalVotePayload_ProposalId := pid; G_ProposalVotePayload_Vote := vote |};
                 S_vote_Vault := {| G_KeyVault_PublicKeys := vault |}; S_vote_VaultFound := true; S_vote_Active := map gprop_of act |}).
  assert (Hstop : forall l s r, fold_left F l (s, r, true) = (s, r, true)).
  { induction l as [|a l IH]; intros s r; cbn [fold_left]; [reflexivity|apply IH]. }
  assert (Hrun : forall vs, fold_left F (map (fun v => {| G_Vote_PublicKey := fst v; G_Vote_Vote := snd v |}) vs) (st0, None, false) =
            if existsb (fun v => fst v =? key) vs then (st0, Some None, true) else (st0, None, false)).
  { induction vs as [|a l IH]; cbn [map fold_left existsb]; [reflexivity|].
    unfold F at 2. cbv beta iota. cbn [G_Vote_PublicKey]. destruct (fst a =? key); cbn [orb]; [apply Hstop|exact IH]. }
  replace (G_PublicKeysChangeProposal_Votes (gprop_of p)) with (map (fun v => {| G_Vote_PublicKey := fst v; G_Vote_Vote := snd v |}) (pp_votes p)) by reflexivity.
  rewrite Hrun. destruct (existsb (fun v => fst v =? key) (pp_votes p)); [reflexivity|]. cbv iota beta.
  assert (Eid : pp_id p = pid). { apply find_some in EF. destruct EF as [_ E]. apply Z.eqb_eq. exact E. }
  assert (Ep' : set_G_PublicKeysChangeProposal_Votes (gprop_of p)
                  (map (fun v => {| G_Vote_PublicKey := fst v; G_Vote_Vote := snd v |}) (pp_votes p) ++ [K__NewVote key vote]) = gprop_of (with_vote p key vote)).
  { unfold with_vote, gprop_of, set_G_PublicKeysChangeProposal_Votes, K__NewVote. cbn. rewrite map_app. reflexivity. }
  rewrite Ep'. subst st0. cbn [set_S_vote_Active S_vote_Active S_vote_TicketOK S_vote_TicketKey S_vote_VotePayload S_vote_Vault S_vote_VaultFound].
  rewrite kupd_gprop. replace (pp_id (with_vote p key vote)) with pid by (cbn [with_vote pp_id]; symmetry; exact Eid). reflexivity.
Qed.

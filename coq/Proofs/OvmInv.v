(* Proofs/OvmInv.v — key vault governance (C14) *)
From Coq Require Import ZArith Bool List Lia.
From Sge Require Import Lib.Dec Model.Types Model.Orderbook Model.Mint Model.Chain Proofs.Tactics.
Import ListNotations.
Open Scope Z_scope.

(* the code's 0.6667 threshold is the two-thirds super-majority, rounded up, for the admissible vault sizes *)
Lemma majority_two_thirds n : n = 4 \/ n = 5 -> majority_count n = (2 * n + 2) / 3.
Proof. intros [H|H]; subst n; reflexivity. Qed.
(* ... and only there: with 3 keys 0.6667 would demand 3 of 3 where two thirds is 2 *)
Lemma majority_not_two_thirds_at_3 : majority_count 3 <> (2 * 3 + 2) / 3.
Proof. vm_compute. discriminate. Qed.

(* only EndBlock can change the key vault *)
Lemma vault_upd s bk ms mq bq bc u2i sidx gr : c_vault (chain_upd s bk ms mq bq bc u2i sidx gr) = c_vault s.
Proof. reflexivity. Qed.

Definition keeps_vault (s s' : chain) : Prop := c_vault s' = c_vault s /\ c_propcnt s' >= c_propcnt s.

Lemma ovm_propose_vault s sg tk ks li s' : ovm_propose s sg tk ks li = Some s' -> c_vault s' = c_vault s.
Proof. unfold ovm_propose. intros H; dmatch H; inv H; reflexivity. Qed.
Lemma ovm_vote_vault s tk vi pid v s' : ovm_vote s tk vi pid v = Some s' -> c_vault s' = c_vault s.
Proof. unfold ovm_vote. intros H; dmatch H; inv H; reflexivity. Qed.

(* a recorded vote carries a ticket of the voting key, and each key votes once per proposal *)
Lemma ovm_vote_spec s tk vi pid v s' :
  ovm_vote s tk vi pid v = Some s' ->
  0 <= vi < zlen (c_vault s) /\
  tk_signer tk = nth (Z.to_nat vi) (c_vault s) (-1) /\ c_now s < tk_exp tk /\
  (v = VOTE_YES \/ v = VOTE_NO) /\
  exists p, findb (fun p => (pp_id p =? pid) && (pp_status p =? PS_ACTIVE)) (c_props s) = Some p /\
            existsb (fun x => fst x =? tk_signer tk) (pp_votes p) = false.
Proof.
  unfold ovm_vote. intros H. dmatch H. inv H.
  match goal with E : (vi <? 0) || _ = false |- _ => apply orb_false_iff in E; destruct E as [Ea Eb] end.
  apply Z.ltb_ge in Ea. apply Z.leb_gt in Eb.
  match goal with E : negb (_ && _ && _) = false |- _ =>
    apply negb_false_iff in E; apply andb_true_iff in E; destruct E as [E Ec];
    apply andb_true_iff in E; destruct E as [Ed Ee] end.
  apply Z.ltb_lt in Ec. apply Z.eqb_eq in Ee.
  match goal with E : negb (_ || _) = false |- _ =>
    apply negb_false_iff in E; apply orb_true_iff in E;
    assert (Ev : v = VOTE_YES \/ v = VOTE_NO) by (destruct E as [E|E]; apply Z.eqb_eq in E; [left|right]; exact E) end.
  repeat split; try lia; try assumption.
  exists p. split; [reflexivity|]. rewrite Ee. assumption.
Qed.

(* ---- the vault changes only in EndBlock, and only through an approved proposal ------------------ *)
Definition ovm_frame (s s' : chain) : Prop :=
  c_vault s' = c_vault s /\ c_props s' = c_props s /\ c_now s' = c_now s /\ c_propcnt s' = c_propcnt s.
Lemma ovm_frame_refl s : ovm_frame s s. Proof. repeat split. Qed.
Lemma ovm_frame_trans a b c : ovm_frame a b -> ovm_frame b c -> ovm_frame a c.
Proof. unfold ovm_frame. intros (A1&A2&A3&A4) (B1&B2&B3&B4). repeat split; congruence. Qed.
Lemma ovm_frame_upd_subs s subs bk ms mq bq bc u2i sidx gr :
  ovm_frame s (chain_upd (with_subs s subs) bk ms mq bq bc u2i sidx gr).
Proof. repeat split. Qed.

Lemma bet_endblock_ovm fuel : forall s n s', bet_endblock fuel s n = Some s' -> ovm_frame s s'.
Proof.
  induction fuel as [|f IH]; intros s n s' H; cbn [bet_endblock] in H.
  - destruct (n <=? 0); [inv H; apply ovm_frame_refl|discriminate].
  - destruct (n <=? 0); [inv H; apply ovm_frame_refl|].
    destruct (c_mqueue s) as [|m q] eqn:EQ; [inv H; apply ovm_frame_refl|].
    destruct (get_ms s m) as [x|]; [|discriminate].
    destruct (settle_bets _ x (c_bank s) (c_subs s) (c_height s) (c_settledix s) 0) as [[[[[x1 bk1] subs1] sidx1] cnt]|]; [|discriminate].
    destruct (ms_pending x1).
    + destruct (negb (bk_status (ms_book x1) =? BK_ACTIVE)); [discriminate|].
      eapply ovm_frame_trans; [|eapply IH; exact H]. apply ovm_frame_upd_subs.
    + eapply ovm_frame_trans; [|eapply IH; exact H]. apply ovm_frame_upd_subs.
Qed.

Lemma ob_endblock_ovm fuel : forall s n i s', ob_endblock fuel s n i = Some s' -> ovm_frame s s'.
Proof.
  induction fuel as [|f IH]; intros s n i s' H; cbn [ob_endblock] in H.
  - destruct (n <=? 0); [inv H; apply ovm_frame_refl|discriminate].
  - destruct (n <=? 0); [inv H; apply ovm_frame_refl|].
    destruct (nth_error (c_bqueue s) i) as [m|]; [|inv H; apply ovm_frame_refl].
    destruct (get_ms s m) as [x|]; [|discriminate].
    destruct (negb (bk_status (ms_book x) =? BK_RESOLVED)); [discriminate|].
    destruct (batch_parts _ _ _ _ _) as [[[[alls cnt] ps] effs]|]; [|discriminate].
    destruct (apply_effects (c_bank s) (c_subs s) effs) as [[bk1 subs1]|]; [|discriminate].
    eapply ovm_frame_trans; [|eapply IH; exact H]. apply ovm_frame_upd_subs.
Qed.

Definition yes_votes (p : proposal) : Z := count_votes VOTE_YES (pp_votes p).

(* what the code guarantees when the vault changes in finishPubkeysChangeProposals: some active,
   unexpired proposal had at least MajorityCount(vault size at the START of the loop) yes votes
   among ALL its recorded votes, and the vault becomes the proposed key list, leader first *)
Lemma ovm_finish_changed ps : forall now n v ps' v',
  ovm_finish ps now n v = (ps', v') -> v' <> v ->
  exists p, In p ps /\ pp_status p = PS_ACTIVE /\ now - pp_start p <= 1800 /\
            majority_count n <= yes_votes p /\ v' = set_leader (pp_keys p) (pp_leader p).
Proof.
  induction ps as [|p r IH]; intros now n v ps' v' H Hne; cbn [ovm_finish] in H.
  - inv H. contradiction.
  - destruct (negb (pp_status p =? PS_ACTIVE)) eqn:Es.
    { destruct (ovm_finish r now n v) as [r' v2] eqn:E. inv H.
      destruct (IH _ _ _ _ _ E Hne) as (q & Hin & Hq). exists q. split; [right; exact Hin|exact Hq]. }
    apply negb_false_iff in Es. apply Z.eqb_eq in Es.
    destruct (1800 <? now - pp_start p) eqn:Ex.
    { destruct (ovm_finish r now n v) as [r' v2] eqn:E. inv H.
      destruct (IH _ _ _ _ _ E Hne) as (q & Hin & Hq). exists q. split; [right; exact Hin|exact Hq]. }
    apply Z.ltb_ge in Ex.
    destruct (decide p n =? PR_REJECTED) eqn:Er.
    { destruct (ovm_finish r now n v) as [r' v2] eqn:E. inv H.
      destruct (IH _ _ _ _ _ E Hne) as (q & Hin & Hq). exists q. split; [right; exact Hin|exact Hq]. }
    destruct (decide p n =? PR_APPROVED) eqn:Ea.
    { destruct (ovm_finish r now n (set_leader (pp_keys p) (pp_leader p))) as [r' v2] eqn:E. inv H.
      assert (Hyes : majority_count n <= yes_votes p).
      { unfold decide in Ea. destruct (majority_count n <=? count_votes VOTE_NO (pp_votes p)); [discriminate|].
        destruct (majority_count n <=? count_votes VOTE_YES (pp_votes p)) eqn:Ey; [apply Z.leb_le in Ey; exact Ey|discriminate]. }
      destruct (list_eq_dec Z.eq_dec v' (set_leader (pp_keys p) (pp_leader p))) as [Heq|Hd].
      - exists p. repeat split; [left; reflexivity|exact Es|lia|exact Hyes|exact Heq].
      - destruct (IH _ _ _ _ _ E Hd) as (q & Hin & Hq). exists q. split; [right; exact Hin|exact Hq]. }
    destruct (ovm_finish r now n v) as [r' v2] eqn:E. inv H.
    destruct (IH _ _ _ _ _ E Hne) as (q & Hin & Hq). exists q. split; [right; exact Hin|exact Hq].
Qed.

Theorem vault_change_at_end s :
  c_halted s = false -> c_vault (fst (step s OEnd)) <> c_vault s ->
  exists p, In p (c_props s) /\ pp_status p = PS_ACTIVE /\ c_now s - pp_start p <= 1800 /\
            majority_count (zlen (c_vault s)) <= yes_votes p /\
            c_vault (fst (step s OEnd)) = set_leader (pp_keys p) (pp_leader p).
Proof.
  intros Hh Hne. unfold step in *. rewrite Hh in *. unfold end_block in *.
  destruct (bet_endblock _ s _) as [s1|] eqn:E1; [|cbn in Hne; contradiction].
  destruct (ob_endblock _ s1 _ _) as [s2|] eqn:E2; [|cbn in Hne; contradiction].
  cbn [fst] in *.
  pose proof (ovm_frame_trans _ _ _ (bet_endblock_ovm _ _ _ _ E1) (ob_endblock_ovm _ _ _ _ _ E2)) as (Fv & Fp & Fn & _).
  unfold ovm_endblock in *. rewrite Fv, Fp, Fn in *.
  destruct (ovm_finish (c_props s) (c_now s) (zlen (c_vault s)) (c_vault s)) as [ps' v'] eqn:EF.
  cbn [c_vault chain_set_ovm] in *.
  exact (ovm_finish_changed _ _ _ _ _ _ EF Hne).
Qed.

(* every operation other than EndBlock leaves the vault alone *)
Ltac vault_refl := intros H; dmatch H; inv H; reflexivity.
Lemma house_deposit_core_vault s c d m a g s' : house_deposit_core s c d m a g = Some s' -> c_vault s' = c_vault s.
Proof. unfold house_deposit_core. vault_refl. Qed.
Lemma withdraw_core_vault s sg d m p mo a ob s' amt : withdraw_core s sg d m p mo a ob = Some (s', amt) -> c_vault s' = c_vault s.
Proof. unfold withdraw_core. vault_refl. Qed.
Lemma wager_core_vault s sg u a sm so ov mu al s' : wager_core s sg u a sm so ov mu al = Some s' -> c_vault s' = c_vault s.
Proof. unfold wager_core. vault_refl. Qed.

Theorem vault_fixed_outside_end s o : o <> OEnd -> c_vault (fst (step s o)) = c_vault s.
Proof.
  intros Hne. unfold step. destruct (c_halted s); [reflexivity|].
  destruct o; try contradiction; unfold tx.
  - unfold begin_block_op. destruct (begin_block _ _ _ _); reflexivity.
  - destruct (market_add _ _ _ _ _ _ _ _) eqn:E; [|reflexivity]. unfold market_add in E. dmatch E; inv E; reflexivity.
  - destruct (market_update _ _ _ _ _ _) eqn:E; [|reflexivity]. unfold market_update in E. dmatch E; inv E; reflexivity.
  - destruct (market_resolve _ _ _ _ _ _) eqn:E; [|reflexivity]. unfold market_resolve in E. dmatch E; inv E; reflexivity.
  - destruct (house_deposit _ _ _ _ _ _ _) eqn:E; [|reflexivity]. unfold house_deposit in E. dmatch E.
    cbn [fst]. eapply house_deposit_core_vault; exact E.
  - destruct (house_withdraw _ _ _ _ _ _ _ _ _) eqn:E; [|reflexivity]. unfold house_withdraw in E. dmatch E. inv E.
    cbn [fst]. match goal with X : withdraw_core _ _ _ _ _ _ _ _ = Some _ |- _ => eapply withdraw_core_vault; exact X end.
  - destruct (bet_wager _ _ _ _ _ _ _ _ _ _ _ _) eqn:E; [|reflexivity]. unfold bet_wager in E. dmatch E.
    cbn [fst]. eapply wager_core_vault; exact E.
  - destruct (do_grant _ _ _ _ _ _) eqn:E; [|reflexivity]. unfold do_grant in E. dmatch E; inv E; reflexivity.
  - destruct (do_revoke _ _ _ _) eqn:E; [|reflexivity]. unfold do_revoke in E. dmatch E; inv E; reflexivity.
  - destruct (do_send _ _ _ _) eqn:E; [|reflexivity]. unfold do_send in E. dmatch E; inv E; reflexivity.
  - destruct (ovm_propose _ _ _ _ _) eqn:E; [|reflexivity]. cbn [fst]. eapply ovm_propose_vault; exact E.
  - destruct (ovm_vote _ _ _ _ _) eqn:E; [|reflexivity]. cbn [fst]. eapply ovm_vote_vault; exact E.
  - destruct (sub_create _ _ _ _) eqn:E; [|reflexivity]. unfold sub_create in E. dmatch E; inv E; reflexivity.
  - destruct (sub_topup _ _ _ _) eqn:E; [|reflexivity]. unfold sub_topup in E. dmatch E; inv E; reflexivity.
  - destruct (sub_withdraw_unlocked _ _) eqn:E; [|reflexivity]. unfold sub_withdraw_unlocked in E. dmatch E; inv E; reflexivity.
  - destruct (sub_wager _ _ _ _ _ _ _ _ _ _ _ _ _ _ _ _) eqn:E; [|reflexivity]. unfold sub_wager in E. dmatch E.
    cbn [fst]. rewrite (wager_core_vault _ _ _ _ _ _ _ _ _ _ E). reflexivity.
  - destruct (sub_house_deposit _ _ _ _ _ _ _) eqn:E; [|reflexivity]. unfold sub_house_deposit in E. dmatch E; inv E.
    cbn [fst]. match goal with X : house_deposit_core _ _ _ _ _ _ = Some _ |- _ => rewrite <- (house_deposit_core_vault _ _ _ _ _ _ _ X) end. reflexivity.
  - destruct (sub_house_withdraw _ _ _ _ _ _ _ _ _) eqn:E; [|reflexivity]. unfold sub_house_withdraw in E. dmatch E; inv E.
    cbn [fst]. match goal with X : withdraw_core _ _ _ _ _ _ _ _ = Some _ |- _ => rewrite <- (withdraw_core_vault _ _ _ _ _ _ _ _ _ _ X) end. reflexivity.
Qed.

(* Proofs/BookCover.v — C10 (totals) and C02 (coverage): for every participation the order-book records agree with the backing
   parts recorded in the bets, and the liquidity left in the book covers, for every outcome, what the participation has promised on
   it minus what it has received on the other outcomes.  Part 1: definitions and the arithmetic of one fulfilment. *)
From Coq Require Import ZArith Bool List Lia.
From Sge Require Import Lib.Dec Model.Types Model.Orderbook Proofs.Tactics Proofs.DecFacts Proofs.WagerLoop Proofs.CustodyLocal
     Proofs.Custody Proofs.BookFacts Proofs.BookAPI Proofs.BookInv.
Import ListNotations.
Open Scope Z_scope.

(* ---- sums over the archive of one participation ---------------------------------------------------------------------------- *)
Definition hexp (hs : list expo) (o : Z) : Z := zsum (map e_exp (filter (fun h => e_odds h =? o) hs)).
Definition hbet (hs : list expo) (o : Z) : Z := zsum (map e_bet (filter (fun h => e_odds h =? o) hs)).
Definition hbet_all (hs : list expo) : Z := zsum (map e_bet hs).
(* what the finished rounds lose if o wins: promised on o minus received on the other outcomes *)
Definition past (hs : list expo) (o : Z) : Z := hexp hs o - (hbet_all hs - hbet hs o).

Lemma hexp_app a b o : hexp (a ++ b) o = hexp a o + hexp b o.
Proof. unfold hexp. rewrite filter_app, map_app, zsum_app. reflexivity. Qed.
Lemma hbet_app a b o : hbet (a ++ b) o = hbet a o + hbet b o.
Proof. unfold hbet. rewrite filter_app, map_app, zsum_app. reflexivity. Qed.
Lemma hbet_all_app a b : hbet_all (a ++ b) = hbet_all a + hbet_all b.
Proof. unfold hbet_all. rewrite map_app, zsum_app. reflexivity. Qed.

(* ---- sums over the backing parts of the bets ------------------------------------------------------------------------------------- *)
(* a bet as far as the book is concerned: the outcome it is on and its backing parts *)
Definition parts_i (i : Z) (fs : list bpart) : list bpart := filter (fun f => f_idx f =? i) fs.
Definition stk (i : Z) (fs : list bpart) : Z := zsum (map f_stake (parts_i i fs)).
Definition pyo (i : Z) (fs : list bpart) : Z := zsum (map f_pay (parts_i i fs)).
Definition stake_i (i : Z) (bs : list (Z * list bpart)) : Z := zsum (map (fun b => stk i (snd b)) bs).
Definition stake_io (i o : Z) (bs : list (Z * list bpart)) : Z := zsum (map (fun b => if fst b =? o then stk i (snd b) else 0) bs).
Definition pay_io (i o : Z) (bs : list (Z * list bpart)) : Z := zsum (map (fun b => if fst b =? o then pyo i (snd b) else 0) bs).

Lemma stk_app i a b : stk i (a ++ b) = stk i a + stk i b.
Proof. unfold stk, parts_i. rewrite filter_app, map_app, zsum_app. reflexivity. Qed.
Lemma pyo_app i a b : pyo i (a ++ b) = pyo i a + pyo i b.
Proof. unfold pyo, parts_i. rewrite filter_app, map_app, zsum_app. reflexivity. Qed.
Lemma stake_i_app i a b : stake_i i (a ++ b) = stake_i i a + stake_i i b.
Proof. unfold stake_i. rewrite map_app, zsum_app. reflexivity. Qed.
Lemma stake_io_app i o a b : stake_io i o (a ++ b) = stake_io i o a + stake_io i o b.
Proof. unfold stake_io. rewrite map_app, zsum_app. reflexivity. Qed.
Lemma pay_io_app i o a b : pay_io i o (a ++ b) = pay_io i o a + pay_io i o b.
Proof. unfold pay_io. rewrite map_app, zsum_app. reflexivity. Qed.

Section Defs.
Variable odds : list Z.

Definition loss (b : book) (i : Z) (p : part) (o : Z) : Z := eexp b i o + ebet b i o - p_crtb p.

(* coverage bookkeeping of participation i *)
Record pc (b : book) (i : Z) (p : part) : Prop := {
  c_nonneg : forall o, In o odds -> 0 <= eexp b i o /\ 0 <= ebet b i o;
  c_crml : forall o, In o odds -> loss b i p o <= p_crml p;
  c_crml_eq : In (p_crml_odds p) odds -> p_crml p = loss b i p (p_crml_odds p);
  c_crl : forall o, In o odds -> loss b i p o <= p_crl p;
  c_past : forall o, In o odds -> past (hist_i b i) o <= p_liq p - p_crl p }.

(* the book's totals against the bets' backing parts *)
Record pt (b : book) (i : Z) (p : part) (bs : list (Z * list bpart)) : Prop := {
  t_tba : p_tba p = stake_i i bs;
  t_exp : forall o, In o odds -> eexp b i o + hexp (hist_i b i) o = pay_io i o bs;
  t_bet : forall o, In o odds -> ebet b i o + hbet (hist_i b i) o = stake_io i o bs }.

Lemma pc_ext b b' i p : (forall o, ge b' o i = ge b o i) -> hist_i b' i = hist_i b i -> pc b i p -> pc b' i p.
Proof.
  intros Hg Hh [C1 C2 C3 C4 C5].
  assert (E1 : forall o, eexp b' i o = eexp b i o) by (intros o; unfold eexp; rewrite Hg; reflexivity).
  assert (E2 : forall o, ebet b' i o = ebet b i o) by (intros o; unfold ebet; rewrite Hg; reflexivity).
  assert (E3 : forall o, loss b' i p o = loss b i p o) by (intros o; unfold loss; rewrite E1, E2; reflexivity).
  constructor.
  - intros o Ho. rewrite E1, E2. apply C1. exact Ho.
  - intros o Ho. rewrite E3. apply C2. exact Ho.
  - intros Ho. rewrite E3. apply C3. exact Ho.
  - intros o Ho. rewrite E3. apply C4. exact Ho.
  - intros o Ho. rewrite Hh. apply C5. exact Ho.
Qed.
Lemma pt_ext b b' i p bs : (forall o, ge b' o i = ge b o i) -> hist_i b' i = hist_i b i -> pt b i p bs -> pt b' i p bs.
Proof.
  intros Hg Hh [T1 T2 T3].
  assert (E1 : forall o, eexp b' i o = eexp b i o) by (intros o; unfold eexp; rewrite Hg; reflexivity).
  assert (E2 : forall o, ebet b' i o = ebet b i o) by (intros o; unfold ebet; rewrite Hg; reflexivity).
  constructor; [exact T1|intros o Ho; rewrite E1, Hh; apply T2; exact Ho|intros o Ho; rewrite E2, Hh; apply T3; exact Ho].
Qed.
End Defs.

(* ---- one fulfilment: the max-loss bookkeeping ------------------------------------------------------------------------------------------ *)
Lemma sumo_ge_term odds f o : (forall x, In x odds -> 0 <= f x) -> In o odds -> f o <= sumo odds f.
Proof.
  unfold sumo. induction odds as [|x r IH]; intros Hf Ho; [destruct Ho|]. cbn [map zsum].
  assert (0 <= zsum (map f r)) by (apply (sumo_nonneg r); intros y Hy; apply Hf; right; exact Hy).
  pose proof (Hf x (or_introl eq_refl)).
  destruct Ho as [->|Ho]; [lia|]. assert (f o <= zsum (map f r)); [|lia]. apply IH; [intros y Hy; apply Hf; right; exact Hy|exact Ho].
Qed.

(* available liquidity bounds the new exposure by the current-round liquidity *)
Lemma avail_bound mult p e pay :
  0 < mult <= PREC -> 0 <= e_exp e -> 0 <= pay <= avail_liq mult p e -> 0 < avail_liq mult p e -> e_exp e + pay <= p_crl p.
Proof.
  unfold avail_liq, dec_mulint, dec_of_int, dec_trunc_int, chop_trunc. intros Hm He Hp Ha.
  pose proof PREC_pos as HP.
  set (x := mult * p_crl p - e_exp e * PREC) in *.
  assert (Hx : 0 < x). { destruct (Z_lt_le_dec 0 x) as [H|H]; [exact H|]. exfalso. assert (Z.quot x PREC <= 0); [|lia]. apply Z.quot_le_upper_bound; lia. }
  rewrite Z.quot_div_nonneg in * by lia.
  assert (Hq : pay * PREC <= x). { pose proof (Z.mul_div_le x PREC HP). nia. }
  assert (Hc : 0 < p_crl p) by (unfold x in Hx; nia).
  unfold x in Hq. nia.
Qed.

(* setMaxLoss: after a fulfilment on outcome o the recorded current-round max loss still bounds the loss on every outcome and is
   attained on the recorded outcome.  lo = loss on o before; the loss on every other outcome goes down by the stake. *)
Lemma fulfil_crml p e o st pay p' e' :
  fulfil_records p e o st pay = (p', e') -> 0 <= st -> 0 <= pay ->
  let lo := e_exp e + e_bet e - p_crtb p in
  lo <= p_crml p -> (p_crml_odds p = o -> p_crml p = lo) ->
  lo + pay <= p_crml p' /\ p_crml p - st <= p_crml p' /\
  (p_crml_odds p' = o -> p_crml p' = lo + pay) /\
  (p_crml_odds p' <> o -> p_crml_odds p' = p_crml_odds p /\ p_crml p' = p_crml p - st).
Proof.
  unfold fulfil_records. cbv zeta. intros H Hst Hpay Hle Heq.
  destruct (p_crml_odds p =? o) eqn:Eo.
  - apply Z.eqb_eq in Eo. injection H as <- _. cbn [p_crml p_crml_odds part_upd expo_upd e_exp e_bet]. specialize (Heq Eo).
    repeat split; intros; try contradiction; lia.
  - apply Z.eqb_neq in Eo.
    match type of H with context [if ?c then _ else _] => destruct c eqn:Ec end; injection H as <- _;
      cbn [p_crml p_crml_odds part_upd expo_upd e_exp e_bet] in *.
    + apply Z.ltb_lt in Ec. repeat split; intros; try contradiction; lia.
    + apply Z.ltb_ge in Ec. repeat split; intros; try contradiction; lia.
Qed.

Ltac dS S := destruct S as [S_p3 S_pe3 S_gp_same S_gp_other S_ge_sel S_ge_news S_ge_other S_news_nd S_news S_hist S_q_other S_q_news
                              S_pidx S_partcnt S_oddscnt S_status S_qkeys S_ix S_ekeys S_parts_in].

(* ---- reads of participation idx after the two store writes ------------------------------------------------------------------------------ *)
Lemma stored_cur A idx b p0 pe0 so setf news p1 pe1 p3 pe3 bk2 :
  stored A idx b p0 pe0 so setf news p1 pe1 p3 pe3 bk2 ->
  forall o, ge bk2 o idx = if o =? wa_sel A then Some pe3 else if zmem o (map e_odds news) then option_map ful (ge b o idx) else ge b o idx.
Proof.
  intros S o. dS S.
  destruct (o =? wa_sel A) eqn:Es; [apply Z.eqb_eq in Es; subst o; exact S_ge_sel|]. apply Z.eqb_neq in Es.
  destruct (zmem o (map e_odds news)) eqn:Ez.
  - unfold zmem in Ez. apply existsb_exists in Ez. destruct Ez as (y & Hy & Ey). apply Z.eqb_eq in Ey. subst y.
    apply in_map_iff in Hy. destruct Hy as (u & Hu1 & Hu2). destruct (S_news u Hu2) as (_ & _ & _ & _ & ex & X1 & X2 & X3).
    rewrite <- Hu1. rewrite (S_ge_news u Hu2), X1. cbn. rewrite X3. reflexivity.
  - apply S_ge_other. right. split; [exact Es|]. intros Hin. assert (zmem o (map e_odds news) = true); [|congruence].
    unfold zmem. apply existsb_exists. exists o. split; [exact Hin|apply Z.eqb_refl].
Qed.

Lemma stored_vals A idx b p0 pe0 so setf news p1 pe1 p3 pe3 bk2 st pay :
  stored A idx b p0 pe0 so setf news p1 pe1 p3 pe3 bk2 -> ge b (wa_sel A) idx = Some pe0 ->
  pe1 = expo_upd pe0 (e_exp pe0 + pay) (e_bet pe0 + st) (e_ful pe0) ->
  forall o, eexp bk2 idx o = eexp b idx o + (if o =? wa_sel A then pay else 0) /\
            ebet bk2 idx o = ebet b idx o + (if o =? wa_sel A then st else 0).
Proof.
  intros S Hge0 Epe1 o. pose proof (stored_cur _ _ _ _ _ _ _ _ _ _ _ _ _ S o) as Hc. unfold eexp, ebet. rewrite Hc.
  destruct (o =? wa_sel A) eqn:Es.
  - apply Z.eqb_eq in Es. subst o. rewrite Hge0. dS S. rewrite S_pe3, Epe1. destruct setf; cbn; split; reflexivity.
  - destruct (zmem o (map e_odds news)); [|split; lia]. destruct (ge b o idx) as [x|]; cbn; split; lia.
Qed.

Section Cover.
Variable odds : list Z.
Hypothesis Hndo : NoDup odds.

Lemma p3_fields (setf : bool) p1 n :
  let p3 := if setf then part_set_enf p1 n else p1 in
  p_crml p3 = p_crml p1 /\ p_crml_odds p3 = p_crml_odds p1 /\ p_crtb p3 = p_crtb p1 /\ p_crl p3 = p_crl p1 /\ p_liq p3 = p_liq p1 /\
  p_tba p3 = p_tba p1.
Proof. destruct setf; cbn; repeat split. Qed.

(* the coverage bookkeeping survives the iteration's two store writes *)
Lemma pc_after_store A idx b p0 pe0 so setf news p1 pe1 p3 pe3 bk2 st pay :
  stored A idx b p0 pe0 so setf news p1 pe1 p3 pe3 bk2 ->
  In (wa_sel A) odds -> 0 < wa_mult A <= PREC ->
  pw odds b idx p0 -> pc odds b idx p0 -> ge b (wa_sel A) idx = Some pe0 ->
  pe1 = expo_upd pe0 (e_exp pe0 + pay) (e_bet pe0 + st) (e_ful pe0) -> 0 <= st -> 0 <= pay ->
  (st = 0 /\ pay = 0 /\ p1 = p0) \/
  (fulfil_records p0 pe0 (wa_sel A) st pay = (p1, pe1) /\ pay <= avail_liq (wa_mult A) p0 pe0 /\ 0 < avail_liq (wa_mult A) p0 pe0) ->
  pc odds bk2 idx p3.
Proof.
  intros S Hsel Hm PW [C1 C2 C3 C4 C5] Hge0 Epe1 Hst Hpay Hcase.
  pose proof (stored_vals _ _ _ _ _ _ _ _ _ _ _ _ _ _ _ S Hge0 Epe1) as Hv.
  assert (Hh : hist_i bk2 idx = hist_i b idx) by (apply hist_i_eq; dS S; assumption).
  assert (Hp3 : p3 = if setf then part_set_enf p1 (npred (Datatypes.S (length news)) (p_enf p1)) else p1) by (dS S; assumption).
  destruct (p3_fields setf p1 (npred (Datatypes.S (length news)) (p_enf p1))) as (F1 & F2 & F3 & F4 & F5 & _). rewrite <- Hp3 in *.
  set (sel := wa_sel A) in *.
  assert (He0 : eexp b idx sel = e_exp pe0 /\ ebet b idx sel = e_bet pe0) by (unfold eexp, ebet; rewrite Hge0; split; reflexivity).
  destruct He0 as [He0 Hb0].
  destruct Hcase as [(-> & -> & ->)|(EF & Hav & Hav0)].
  - (* nothing was taken *)
    assert (Hl : forall o, loss bk2 idx p3 o = loss b idx p0 o).
    { intros o. unfold loss. destruct (Hv o) as [X1 X2]. rewrite X1, X2, F3. destruct (o =? sel); lia. }
    constructor.
    + intros o Ho. destruct (Hv o) as [X1 X2]. rewrite X1, X2. destruct (C1 o Ho). destruct (o =? sel); lia.
    + intros o Ho. rewrite Hl, F1. apply C2. exact Ho.
    + rewrite F2, F1. intros Ho. rewrite Hl. apply C3. exact Ho.
    + intros o Ho. rewrite Hl, F4. apply C4. exact Ho.
    + intros o Ho. rewrite Hh, F5, F4. apply C5. exact Ho.
  - destruct (fulfil_records_shape _ _ _ _ _ _ _ EF) as (_ & _ & _ & G4 & G5 & _ & _ & G8 & _).
    assert (Hlo : e_exp pe0 + e_bet pe0 - p_crtb p0 = loss b idx p0 sel) by (unfold loss; rewrite He0, Hb0; reflexivity).
    destruct (fulfil_crml _ _ _ _ _ _ _ EF Hst Hpay) as (K1 & K2 & K3 & K4).
    { rewrite Hlo. apply C2. exact Hsel. }
    { intros E. rewrite Hlo. rewrite <- E. apply C3. rewrite E. exact Hsel. }
    rewrite Hlo in K1, K3.
    assert (Hl : forall o, loss bk2 idx p3 o = if o =? sel then loss b idx p0 sel + pay else loss b idx p0 o - st).
    { intros o. unfold loss. destruct (Hv o) as [X1 X2]. rewrite X1, X2, F3, G8. destruct (o =? sel) eqn:E; [apply Z.eqb_eq in E; subst o|]; lia. }
    constructor.
    + intros o Ho. destruct (Hv o) as [X1 X2]. rewrite X1, X2. destruct (C1 o Ho). destruct (o =? sel); lia.
    + intros o Ho. rewrite Hl, F1. destruct (o =? sel); [exact K1|]. pose proof (C2 o Ho). lia.
    + rewrite F2, F1. intros Ho. rewrite Hl. destruct (p_crml_odds p1 =? sel) eqn:E.
      * apply Z.eqb_eq in E. exact (K3 E).
      * apply Z.eqb_neq in E. destruct (K4 E) as [E1 E2]. rewrite E2, E1. rewrite E1 in Ho. rewrite (C3 Ho). reflexivity.
    + intros o Ho. rewrite Hl, F4, G5. destruct (o =? sel) eqn:E; [|pose proof (C4 o Ho); lia].
      (* exposure on the selected outcome stays within the current-round liquidity *)
      assert (Hcrtb : ebet b idx sel <= p_crtb p0).
      { rewrite (pw_crtb _ _ _ _ PW). apply sumo_ge_term; [intros x Hx; apply (C1 x Hx)|exact Hsel]. }
      assert (Hexp : e_exp pe0 + pay <= p_crl p0).
      { apply (avail_bound (wa_mult A)); try assumption; [rewrite <- He0; apply (C1 sel Hsel)|lia]. }
      unfold loss. rewrite He0, Hb0. rewrite Hb0 in Hcrtb. lia.
    + intros o Ho. rewrite Hh, F5, F4, G4, G5. apply C5. exact Ho.
Qed.

(* the totals against the bets: the current wager is the last bet of the list, its parts grow by the iteration's part *)
Lemma pt_after_store A idx b p0 pe0 so setf news p1 pe1 p3 pe3 bk2 st pay bs parts owner :
  stored A idx b p0 pe0 so setf news p1 pe1 p3 pe3 bk2 ->
  ge b (wa_sel A) idx = Some pe0 ->
  pe1 = expo_upd pe0 (e_exp pe0 + pay) (e_bet pe0 + st) (e_ful pe0) -> p_tba p1 = p_tba p0 + st ->
  pt odds b idx p0 (bs ++ [(wa_sel A, parts)]) ->
  pt odds bk2 idx p3 (bs ++ [(wa_sel A, parts ++ [{| f_owner := owner; f_idx := idx; f_stake := st; f_pay := pay |}])]).
Proof.
  intros S Hge0 Epe1 Etba [T1 T2 T3].
  pose proof (stored_vals _ _ _ _ _ _ _ _ _ _ _ _ _ _ _ S Hge0 Epe1) as Hv.
  assert (Hh : hist_i bk2 idx = hist_i b idx) by (apply hist_i_eq; dS S; assumption).
  assert (Hp3 : p3 = if setf then part_set_enf p1 (npred (Datatypes.S (length news)) (p_enf p1)) else p1) by (dS S; assumption).
  destruct (p3_fields setf p1 (npred (Datatypes.S (length news)) (p_enf p1))) as (_ & _ & _ & _ & _ & F6). rewrite <- Hp3 in *.
  set (f := {| f_owner := owner; f_idx := idx; f_stake := st; f_pay := pay |}).
  assert (Hsf : stk idx [f] = st /\ pyo idx [f] = pay) by (unfold stk, pyo, parts_i; cbn; rewrite Z.eqb_refl; cbn; split; lia).
  destruct Hsf as [Hs Hp].
  constructor.
  - rewrite F6, Etba, T1, !stake_i_app. unfold stake_i. cbn [map zsum snd]. rewrite stk_app, Hs. lia.
  - intros o Ho. destruct (Hv o) as [X1 _]. rewrite X1, Hh. specialize (T2 o Ho). rewrite !pay_io_app in *. unfold pay_io in *. cbn [map zsum fst snd] in *.
    destruct (wa_sel A =? o) eqn:E; [rewrite pyo_app, Hp; rewrite Z.eqb_sym, E; lia|rewrite Z.eqb_sym, E; lia].
  - intros o Ho. destruct (Hv o) as [_ X2]. rewrite X2, Hh. specialize (T3 o Ho). rewrite !stake_io_app in *. unfold stake_io in *. cbn [map zsum fst snd] in *.
    destruct (wa_sel A =? o) eqn:E; [rewrite stk_app, Hs; rewrite Z.eqb_sym, E; lia|rewrite Z.eqb_sym, E; lia].
Qed.
End Cover.

(* ---- the round refresh ---------------------------------------------------------------------------------------------------------------------- *)
Lemma filter_filter_key (l : list expo) o i :
  filter (fun h => e_odds h =? o) (filter (fun e => e_part e =? i) l) = filter (expo_is o i) l.
Proof.
  induction l as [|x r IH]; cbn; [reflexivity|]. unfold expo_is at 1. destruct (e_part x =? i); cbn; [|rewrite andb_false_r; exact IH].
  rewrite andb_true_r. destruct (e_odds x =? o); [f_equal|]; exact IH.
Qed.

Lemma sum_filter_key (g : expo -> Z) l o i : NoDup (map ekey l) ->
  zsum (map g (filter (expo_is o i) l)) = match find (expo_is o i) l with Some e => g e | None => 0 end.
Proof.
  induction l as [|x r IH]; intros Hnd; cbn [filter find map zsum]; [reflexivity|]. inversion Hnd as [|? ? Hni Hnd']; subst.
  destruct (expo_is o i x) eqn:E; cbn [map zsum]; [|apply IH; exact Hnd'].
  rewrite IH by exact Hnd'. rewrite (find_none_key o i r); [lia|]. apply expo_is_ekey in E. rewrite <- E. exact Hni.
Qed.

Lemma sum_partition (g : expo -> Z) odds (l : list expo) : NoDup odds -> (forall e, In e l -> In (e_odds e) odds) ->
  zsum (map g l) = sumo odds (fun o => zsum (map g (filter (fun h => e_odds h =? o) l))).
Proof.
  intros Hnd. induction l as [|x r IH]; intros Hin; cbn [map zsum filter].
  - symmetry. rewrite (sumo_const odds _ 0); [lia|reflexivity].
  - rewrite IH by (intros e He; apply Hin; right; exact He).
    symmetry. rewrite <- (Z.add_comm (sumo odds _)).
    apply (sumo_point odds _ _ (e_odds x) (g x) Hnd (Hin x (or_introl eq_refl))).
    intros o Ho. rewrite (Z.eqb_sym o). destruct (e_odds x =? o); cbn [map zsum]; lia.
Qed.

Section Refresh.
Variable odds : list Z.
Hypothesis Hndo : NoDup odds.

Lemma refreshed_vals A idx bk2 p3 bk5 :
  refreshed A idx bk2 p3 bk5 -> NoDup (map ekey (bk_expo bk2)) -> (forall e, In e (bk_expo bk2) -> In (e_odds e) odds) ->
  pw odds bk2 idx p3 ->
  let pes := filter (fun e => e_part e =? idx) (bk_expo bk2) in
  hist_i bk5 idx = hist_i bk2 idx ++ pes /\
  (forall o, In o odds -> eexp bk5 idx o = 0 /\ ebet bk5 idx o = 0) /\
  (forall o, hexp pes o = eexp bk2 idx o /\ hbet pes o = ebet bk2 idx o) /\
  hbet_all pes = p_crtb p3.
Proof.
  intros R Hnd Hexp PW pes. destruct R as [R1 R2 R3 R4 R5 R6 R7 R8 R9 R10 R11 R12 R13 R14 R15].
  split; [unfold hist_i; rewrite R5, filter_app; fold pes; unfold pes; rewrite filter_idem; reflexivity|].
  split.
  - intros o Ho. destruct (pw_round _ _ _ _ PW) as (r & _ & X & _). destruct (X o Ho) as (e & G & _). unfold eexp, ebet. rewrite R3, G. cbn. split; reflexivity.
  - assert (Hk : forall o, hexp pes o = eexp bk2 idx o /\ hbet pes o = ebet bk2 idx o).
    { intros o. unfold hexp, hbet, pes, eexp, ebet, ge, findb. rewrite filter_filter_key, !sum_filter_key by exact Hnd.
      destruct (find (expo_is o idx) (bk_expo bk2)); split; reflexivity. }
    split; [exact Hk|].
    unfold hbet_all. rewrite (sum_partition e_bet odds pes Hndo).
    + rewrite (pw_crtb _ _ _ _ PW). apply sumo_ext. intros o _. exact (proj2 (Hk o)).
    + intros e He. apply Hexp. unfold pes in He. apply filter_In in He. tauto.
Qed.

Lemma pc_after_refresh A idx bk2 p3 bk5 :
  refreshed A idx bk2 p3 bk5 -> NoDup (map ekey (bk_expo bk2)) -> (forall e, In e (bk_expo bk2) -> In (e_odds e) odds) ->
  pw odds bk2 idx p3 -> pc odds bk2 idx p3 -> eligible_pre p3 = true -> pc odds bk5 idx (reset_part A p3).
Proof.
  intros R Hnd Hexp PW [C1 C2 C3 C4 C5] Hel.
  destruct (refreshed_vals _ _ _ _ _ R Hnd Hexp PW) as (Hh & Hz & Hk & Hall).
  unfold eligible_pre in Hel. apply Z.ltb_lt in Hel.
  assert (Hl : forall o, In o odds -> loss bk5 idx (reset_part A p3) o = 0).
  { intros o Ho. unfold loss. destruct (Hz o Ho) as [-> ->]. cbn. lia. }
  constructor.
  - intros o Ho. destruct (Hz o Ho) as [-> ->]. lia.
  - intros o Ho. rewrite (Hl o Ho). cbn. lia.
  - cbn [p_crml_odds p_crml reset_part part_upd part_set_crl]. intros Ho. rewrite (Hl _ Ho). reflexivity.
  - intros o Ho. rewrite (Hl o Ho). cbn [p_crl reset_part part_upd part_set_crl]. lia.
  - intros o Ho. rewrite Hh. unfold past. rewrite hexp_app, hbet_all_app, hbet_app. destruct (Hk o) as [-> ->]. rewrite Hall.
    cbn [p_liq p_crl reset_part part_upd part_set_crl].
    pose proof (C5 o Ho) as X. unfold past in X. pose proof (C2 o Ho) as Y. unfold loss in Y. unfold zmax0. lia.
Qed.

Lemma pt_after_refresh A idx bk2 p3 bk5 bs :
  refreshed A idx bk2 p3 bk5 -> NoDup (map ekey (bk_expo bk2)) -> (forall e, In e (bk_expo bk2) -> In (e_odds e) odds) ->
  pw odds bk2 idx p3 -> pt odds bk2 idx p3 bs -> pt odds bk5 idx (reset_part A p3) bs.
Proof.
  intros R Hnd Hexp PW [T1 T2 T3].
  destruct (refreshed_vals _ _ _ _ _ R Hnd Hexp PW) as (Hh & Hz & Hk & _).
  constructor.
  - exact T1.
  - intros o Ho. destruct (Hz o Ho) as [-> _]. rewrite Hh, hexp_app. destruct (Hk o) as [-> _]. rewrite <- (T2 o Ho). lia.
  - intros o Ho. destruct (Hz o Ho) as [_ ->]. rewrite Hh, hbet_app. destruct (Hk o) as [_ ->]. rewrite <- (T3 o Ho). lia.
Qed.
End Refresh.

(* ---- one iteration, decomposed once and for all ------------------------------------------------------------------------------------------------ *)
From Sge Require Import Proofs.WagerBounds.

Section Iter.
Variable odds : list Z.
Hypothesis Hndo : NoDup odds.
Hypothesis Hsmall : zlen odds < U64.
Variable A : wargs.
Hypothesis Huids : wa_uids A = odds.
Hypothesis Hoc : wa_oddscnt A = zlen odds.
Hypothesis Hsel : In (wa_sel A) odds.

Definition new_part (p0 : part) (so : option (Z * Z)) : list bpart :=
  match so with Some (a, b) => [{| f_owner := p_owner p0; f_idx := p_idx p0; f_stake := a; f_pay := b |}] | None => [] end.

Lemma wager_iter_decomp B idx rest s s' :
  wager_iter A idx s = Some s' -> linv odds A B (idx :: rest) s ->
  exists p0 pe0 so setf news p1 pe1 p3 pe3 bk2 st pay,
    get_part (ws_book s) idx = Some p0 /\ ge (ws_book s) (wa_sel A) idx = Some pe0 /\
    stored A idx (ws_book s) p0 pe0 so setf news p1 pe1 p3 pe3 bk2 /\
    pe1 = expo_upd pe0 (e_exp pe0 + pay) (e_bet pe0 + st) (e_ful pe0) /\ p_tba p1 = p_tba p0 + st /\ p_owner p1 = p_owner p0 /\ 0 <= st /\ 0 <= pay /\
    ((so = None /\ st = 0 /\ pay = 0 /\ p1 = p0) \/
     (so = Some (st, pay) /\ fulfil_records p0 pe0 (wa_sel A) st pay = (p1, pe1) /\
      pay <= avail_liq (wa_mult A) p0 pe0 /\ 0 < avail_liq (wa_mult A) p0 pe0)) /\
    ws_parts s' = ws_parts s ++ new_part p0 so /\
    bw odds bk2 /\ get_part bk2 idx = Some p3 /\
    (ws_book s' = bk2 \/ (eligible_pre p3 = true /\ refreshed A idx bk2 p3 (ws_book s'))).
Proof.
  intros H L.
  destruct L as [W Q (R & EU & NU & HR) Hq Hb].
  destruct (Hq idx (or_introl eq_refl)) as [(p0' & e0' & Hgp & Hge0 & Hful0) (it & Hf & Hag)].
  unfold wager_iter in H. rewrite Hf in H.
  pose proof Hag as (Ag1 & Ag2 & Ag3). rewrite Hgp in Ag1. injection Ag1 as Ep0. subst p0'.
  rewrite Hge0 in Ag2. rewrite Ag2 in H. rename e0' into pe0.
  destruct (iter_switch A (fi_part it) pe0 s) as [[[[p1 pe1] setf] so] c1] eqn:ES.
  destruct (switch_norm _ _ _ _ _ _ _ _ _ ES (wb_profit _ _ Hb)) as (st & pay & Epe1 & Ei1 & Eown & Eenf & Ecrtb & Etba & _ & _ & HN & HS).
  pose proof (iter_switch_bounds _ _ _ _ _ _ _ _ _ ES (wb_left _ _ Hb) (wb_profit _ _ Hb)) as Hbnd.
  destruct (iter_betside A (fi_part it) so s) as [[[[ba fu] pr] pa] bk0] eqn:EB.
  destruct (iter_fulfilled A idx it setf p1 pe1 (ws_uq s) bk0) as [[[[p3 pe3] uq3] bk1]|] eqn:EF; [|discriminate].
  pose proof (gp_idx _ _ _ Hgp) as Hi0.
  destruct (ge_key _ _ _ _ Hge0) as (K1 & K2 & _).
  assert (Hk1 : ekey pe1 = (wa_sel A, idx)) by (rewrite Epe1; unfold ekey; cbn; congruence).
  destruct (iter_store A idx it s pe0 p1 pe1 setf so c1 ba fu pr pa bk0 p3 pe3 uq3 bk1 Hag Ag2 ltac:(rewrite Huids; exact Hndo) ES EB EF ltac:(congruence) Hk1)
    as (news & Euq3 & HSt).
  set (bk2 := set_part (set_expo bk1 pe3) p3) in *.
  assert (W2 : bw odds bk2) by (eapply (bw_after_store odds Hndo Hsmall); eassumption).
  assert (Hgp3 : get_part bk2 idx = Some p3) by (dS HSt; assumption).
  assert (Hpa : pa = ws_parts s ++ new_part (fi_part it) so).
  { unfold iter_betside in EB. destruct so as [[a b]|]; injection EB as _ _ _ <- _; [reflexivity|cbn; rewrite app_nil_r; reflexivity]. }
  exists (fi_part it), pe0, so, setf, news, p1, pe1, p3, pe3, bk2, st, pay.
  split; [exact Hgp|]. split; [exact Hge0|]. split; [exact HSt|]. split; [exact Epe1|]. split; [exact Etba|]. split; [exact Eown|].
  assert (Hst : 0 <= st /\ 0 <= pay).
  { destruct so as [[a b]|]; [destruct (HS a b eq_refl) as (-> & -> & _); destruct Hbnd as (X1 & X2 & _); lia|destruct (HN eq_refl) as (-> & -> & _); lia]. }
  split; [apply Hst|]. split; [apply Hst|]. split.
  { destruct so as [[a b]|].
    - right. destruct (HS a b eq_refl) as (-> & -> & EFR & X1 & X2). repeat split; try assumption; lia.
    - left. destruct (HN eq_refl) as (-> & -> & -> & _). repeat split. }
  destruct ((p_enf p3 =? 0) && eligible_pre p3) eqn:ERf.
  - apply andb_true_iff in ERf. destruct ERf as [Eenf0 Eel]. apply Z.eqb_eq in Eenf0.
    assert (Hin3 : In p3 (bk_parts bk2)) by (apply get_part_in in Hgp3; tauto).
    pose proof (gp_idx _ _ _ Hgp3) as Hi3.
    assert (Hpw3 : pw odds bk2 idx p3) by (rewrite <- Hi3; apply (bw_parts _ _ W2); exact Hin3).
    destruct (iter_refresh A idx it p3 bk2 (ws_fmap s) uq3) as [[bk5 fm2] uq5] eqn:ER.
    destruct (iter_refresh_effect _ _ _ _ _ _ _ _ _ _ ER Hgp3 Eel (bw_ix _ _ W2) (bw_keys _ _ W2)) as (Rf & _ & _).
    { intros e h He Hp Hh Hk. destruct (pw_round _ _ _ _ Hpw3) as (r & _ & R2 & R3).
      destruct (bw_expo _ _ W2 e He) as [Ho _]. destruct (R2 _ Ho) as (e' & G1 & _ & _ & G4).
      pose proof (ge_of_in _ _ (bw_keys _ _ W2) He) as Hge. rewrite Hp, G1 in Hge. injection Hge as ->.
      apply expo_is_key in Hk. destruct Hk as [_ Hk]. rewrite Hp in Hk.
      assert (Hhi : In h (hist_i bk2 idx)) by (unfold hist_i; apply filter_In; split; [exact Hh|apply Z.eqb_eq; exact Hk]).
      destruct (R3 h Hhi) as [X _]. lia. }
    injection H as Hs'. subst s'. cbn [ws_parts ws_book].
    split; [exact Hpa|]. split; [exact W2|]. split; [exact Hgp3|]. right. split; assumption.
  - injection H as Hs'. subst s'. cbn [ws_parts ws_book].
    split; [exact Hpa|]. split; [exact W2|]. split; [exact Hgp3|]. left. reflexivity.
Qed.
End Iter.

(* ---- the coverage / totals invariant of a book against a list of bets ---------------------------------------------------------------------- *)
Definition cinv (odds : list Z) (b : book) (bs : list (Z * list bpart)) : Prop :=
  forall p, In p (bk_parts b) -> pc odds b (p_idx p) p /\ pt odds b (p_idx p) p bs.

Lemma pt_add_part odds b i p bs sel parts f :
  f_idx f <> i -> pt odds b i p (bs ++ [(sel, parts)]) -> pt odds b i p (bs ++ [(sel, parts ++ [f])]).
Proof.
  intros Hne [T1 T2 T3].
  assert (Hs : stk i (parts ++ [f]) = stk i parts /\ pyo i (parts ++ [f]) = pyo i parts).
  { rewrite stk_app, pyo_app. unfold stk, pyo, parts_i. cbn [filter]. apply Z.eqb_neq in Hne. rewrite Hne. cbn. split; lia. }
  destruct Hs as [Hs Hp].
  constructor.
  - rewrite T1, !stake_i_app. unfold stake_i. cbn [map zsum snd]. rewrite Hs. reflexivity.
  - intros o Ho. rewrite (T2 o Ho), !pay_io_app. unfold pay_io. cbn [map zsum fst snd]. rewrite Hp. reflexivity.
  - intros o Ho. rewrite (T3 o Ho), !stake_io_app. unfold stake_io. cbn [map zsum fst snd]. rewrite Hs. reflexivity.
Qed.

Lemma pt_zero_part odds b i p bs sel parts f :
  f_stake f = 0 -> f_pay f = 0 -> pt odds b i p (bs ++ [(sel, parts ++ [f])]) -> pt odds b i p (bs ++ [(sel, parts)]).
Proof.
  intros Z1 Z2 [T1 T2 T3].
  assert (Hs : stk i (parts ++ [f]) = stk i parts /\ pyo i (parts ++ [f]) = pyo i parts).
  { rewrite stk_app, pyo_app. unfold stk, pyo, parts_i. cbn [filter]. destruct (f_idx f =? i); cbn; rewrite ?Z1, ?Z2; split; lia. }
  destruct Hs as [Hs Hp].
  constructor.
  - rewrite T1, !stake_i_app. unfold stake_i. cbn [map zsum snd]. rewrite Hs. reflexivity.
  - intros o Ho. rewrite (T2 o Ho), !pay_io_app. unfold pay_io. cbn [map zsum fst snd]. rewrite Hp. reflexivity.
  - intros o Ho. rewrite (T3 o Ho), !stake_io_app. unfold stake_io. cbn [map zsum fst snd]. rewrite Hs. reflexivity.
Qed.

Section IterCov.
Variable odds : list Z.
Hypothesis Hndo : NoDup odds.
Hypothesis Hsmall : zlen odds < U64.
Variable A : wargs.
Hypothesis Huids : wa_uids A = odds.
Hypothesis Hoc : wa_oddscnt A = zlen odds.
Hypothesis Hsel : In (wa_sel A) odds.
Hypothesis Hmult : 0 < wa_mult A <= PREC.

Lemma wager_iter_cov B idx rest s s' bs :
  wager_iter A idx s = Some s' -> linv odds A B (idx :: rest) s ->
  cinv odds (ws_book s) (bs ++ [(wa_sel A, ws_parts s)]) ->
  cinv odds (ws_book s') (bs ++ [(wa_sel A, ws_parts s')]).
Proof.
  intros H L CI.
  destruct (wager_iter_decomp odds Hndo Hsmall A Huids Hsel B idx rest s s' H L)
    as (p0 & pe0 & so & setf & news & p1 & pe1 & p3 & pe3 & bk2 & st & pay & Hgp & Hge0 & HSt & Epe1 & Etba & Eown & Hst & Hpay & Hcase & Hparts & W2 & Hgp3 & Hbook).
  pose proof (li_bw _ _ _ _ _ L) as W.
  pose proof (gp_idx _ _ _ Hgp) as Hi0.
  assert (Hin0 : In p0 (bk_parts (ws_book s))) by (apply get_part_in in Hgp; tauto).
  assert (Hpw0 : pw odds (ws_book s) idx p0) by (rewrite <- Hi0; apply (bw_parts _ _ W); exact Hin0).
  destruct (CI p0 Hin0) as [PC0 PT0]. rewrite Hi0 in PC0, PT0.
  (* the part recorded by this iteration *)
  set (f0 := {| f_owner := p_owner p0; f_idx := idx; f_stake := st; f_pay := pay |}).
  assert (Hnp : forall i q, pt odds (ws_book s) i q (bs ++ [(wa_sel A, ws_parts s)]) -> i <> idx ->
                            pt odds (ws_book s) i q (bs ++ [(wa_sel A, ws_parts s ++ new_part p0 so)])).
  { intros i q Hq Hne. destruct so as [[a b]|]; cbn [new_part]; [|rewrite app_nil_r; exact Hq].
    apply pt_add_part; [cbn [f_idx]; rewrite Hi0; intros E; apply Hne; symmetry; exact E|exact Hq]. }
  (* participation idx after the two writes *)
  assert (PC3 : pc odds bk2 idx p3).
  { eapply (pc_after_store odds); try eassumption.
    destruct Hcase as [(_ & -> & -> & ->)|(_ & EF & X1 & X2)]; [left; repeat split|right; repeat split; assumption]. }
  assert (PT3 : pt odds bk2 idx p3 (bs ++ [(wa_sel A, ws_parts s ++ new_part p0 so)])).
  { pose proof (pt_after_store odds A idx (ws_book s) p0 pe0 so setf news p1 pe1 p3 pe3 bk2 st pay bs (ws_parts s) (p_owner p0) HSt Hge0 Epe1 Etba PT0) as X.
    destruct Hcase as [(-> & Z1 & Z2 & _)|(-> & _)].
    - cbn [new_part]. rewrite app_nil_r. eapply pt_zero_part; [| |exact X]; cbn; assumption.
    - cbn [new_part]. rewrite Hi0. exact X. }
  (* the other participations after the two writes *)
  assert (Hoth2 : forall q, In q (bk_parts bk2) -> p_idx q <> idx ->
             pc odds bk2 (p_idx q) q /\ pt odds bk2 (p_idx q) q (bs ++ [(wa_sel A, ws_parts s ++ new_part p0 so)])).
  { intros q Hq Hne. dS HSt. destruct (S_parts_in q Hq) as [->|Hq']; [exfalso; apply Hne; apply (gp_idx bk2); exact S_gp_same|].
    destruct (CI q Hq') as [PCq PTq].
    assert (Hg : forall o, ge bk2 o (p_idx q) = ge (ws_book s) o (p_idx q)) by (intros o; apply S_ge_other; left; exact Hne).
    assert (Hh : hist_i bk2 (p_idx q) = hist_i (ws_book s) (p_idx q)) by (apply hist_i_eq; exact S_hist).
    split; [apply (pc_ext odds (ws_book s)); assumption|apply (pt_ext odds (ws_book s)); try assumption; apply Hnp; assumption]. }
  assert (Hnd2 : NoDup (map p_idx (bk_parts bk2))) by apply (bw_nodup _ _ W2).
  assert (CI2 : cinv odds bk2 (bs ++ [(wa_sel A, ws_parts s ++ new_part p0 so)])).
  { intros q Hq. destruct (Z.eq_dec (p_idx q) idx) as [Hi|Hne]; [|apply Hoth2; assumption].
    assert (q = p3). { pose proof (gp_of_in _ _ Hnd2 Hq) as G. rewrite Hi, Hgp3 in G. congruence. }
    subst q. rewrite Hi. split; assumption. }
  rewrite Hparts.
  destruct Hbook as [->|(Hel & Rf)]; [exact CI2|].
  (* the round refresh *)
  assert (Hin3 : In p3 (bk_parts bk2)) by (apply get_part_in in Hgp3; tauto).
  pose proof (gp_idx _ _ _ Hgp3) as Hi3.
  assert (Hpw3 : pw odds bk2 idx p3) by (rewrite <- Hi3; apply (bw_parts _ _ W2); exact Hin3).
  assert (Hexp2 : forall e, In e (bk_expo bk2) -> In (e_odds e) odds) by (intros e He; apply (bw_expo _ _ W2 e He)).
  assert (W5 : bw odds (ws_book s')) by (eapply (bw_after_refresh odds); eassumption).
  assert (Hnd5 : NoDup (map p_idx (bk_parts (ws_book s')))) by apply (bw_nodup _ _ W5).
  pose proof (fun i => hist_i_refresh_other A idx bk2 p3 (ws_book s') i Rf) as Hho.
  intros q Hq. destruct (Z.eq_dec (p_idx q) idx) as [Hi|Hne].
  - assert (q = reset_part A p3). { pose proof (gp_of_in _ _ Hnd5 Hq) as G. rewrite Hi, (rf_gp_same _ _ _ _ _ Rf) in G. congruence. }
    subst q. rewrite Hi. pose proof (bw_keys _ _ W2) as Hk2.
    split; [eapply (pc_after_refresh odds); eassumption|eapply (pt_after_refresh odds); eassumption].
  - destruct (rf_parts_in _ _ _ _ _ Rf q Hq) as [->|Hq']; [exfalso; apply Hne; exact Hi3|].
    destruct (CI2 q Hq') as [PCq PTq].
    assert (Hg : forall o, ge (ws_book s') o (p_idx q) = ge bk2 o (p_idx q)) by (intros o; apply (rf_ge_other _ _ _ _ _ Rf); exact Hne).
    split; [apply (pc_ext odds bk2)|apply (pt_ext odds bk2)]; try assumption; apply Hho; exact Hne.
Qed.
End IterCov.

Lemma pt_add_empty odds b i p bs sel : pt odds b i p bs -> pt odds b i p (bs ++ [(sel, [])]).
Proof.
  intros [T1 T2 T3]. constructor.
  - rewrite T1, stake_i_app. unfold stake_i. cbn. lia.
  - intros o Ho. rewrite (T2 o Ho), pay_io_app. unfold pay_io. cbn. destruct (sel =? o); lia.
  - intros o Ho. rewrite (T3 o Ho), stake_io_app. unfold stake_io. cbn. destruct (sel =? o); lia.
Qed.

Section LoopCov.
Variable odds : list Z.
Hypothesis Hndo : NoDup odds.
Hypothesis Hsmall : zlen odds < U64.
Variable A : wargs.
Hypothesis Huids : wa_uids A = odds.
Hypothesis Hoc : wa_oddscnt A = zlen odds.
Hypothesis Hsel : In (wa_sel A) odds.
Hypothesis Hmult : 0 < wa_mult A <= PREC.

Lemma wager_loop_cov B bs fuel : forall q s s', wager_loop fuel A q s = Some s' -> linv odds A B q s ->
  cinv odds (ws_book s) (bs ++ [(wa_sel A, ws_parts s)]) -> cinv odds (ws_book s') (bs ++ [(wa_sel A, ws_parts s')]).
Proof.
  induction fuel as [|f IH]; intros q s s' H L CI; destruct q as [|idx rest]; cbn [wager_loop] in H.
  - injection H as <-. exact CI.
  - discriminate.
  - injection H as <-. exact CI.
  - destruct (wager_iter A idx s) as [s1|] eqn:E; [|discriminate].
    pose proof (wager_iter_cov odds Hndo Hsmall A Huids Hoc Hsel Hmult B idx rest s s1 bs E L CI) as C1.
    pose proof (wager_iter_linv odds Hndo Hsmall A Huids Hoc Hsel B idx rest s s1 E L) as L1.
    destruct (wager_setf A idx s) eqn:Es.
    + destruct ((ws_profit s1 <? PREC) || _); [injection H as <-; exact C1|]. eapply IH; eassumption.
    + pose proof (last_fill_ends A _ _ _ E Es (wb_profit _ _ (li_bound _ _ _ _ _ L))) as Hlt.
      apply Z.ltb_lt in Hlt. rewrite Hlt in H. cbn [orb] in H. injection H as <-. exact C1.
Qed.

Theorem process_wager_cov b betamt profit bettor fee b' parts effs bs :
  process_wager b A betamt profit bettor fee = Some (b', parts, effs) ->
  bw odds b -> queues_ok b -> 0 <= betamt -> 0 <= profit -> cinv odds b bs -> cinv odds b' (bs ++ [(wa_sel A, parts)]).
Proof.
  unfold process_wager. intros H W Q Hb Hp CI.
  destruct (get_queue b (wa_sel A)) as [q|] eqn:Eq; [|discriminate].
  destruct (init_fmap b (wa_sel A)) as [fm|] eqn:EI; [|discriminate].
  match type of H with context [wager_loop ?f ?a ?qq ?s0] => destruct (wager_loop f a qq s0) as [s|] eqn:EL end; [|discriminate].
  destruct (PREC <=? ws_profit s); [discriminate|].
  destruct (ws_parts s) as [|x r] eqn:EP; [discriminate|]. injection H as <- <- _.
  destruct (Q _ _ Eq) as [Hnd Hel].
  assert (C : cinv odds (ws_book s) (bs ++ [(wa_sel A, ws_parts s)])).
  { eapply (wager_loop_cov betamt bs); [exact EL| |].
    - constructor; cbn [ws_book ws_fmap ws_uq].
      + exact W.
      + intros o ql _ Hq. exact (Q o ql Hq).
      + exists []. rewrite app_nil_r. split; [reflexivity|]. split; [exact Hnd|intros i []].
      + intros i Hi. destruct (Hel i Hi) as (p & e & X1 & X2 & X3). split; [exists p, e; tauto|]. eapply init_fmap_agrees; eassumption.
      + constructor; cbn; try lia. constructor.
    - cbn [ws_book ws_parts]. intros p Hp'. destruct (CI p Hp') as [X1 X2]. split; [exact X1|apply pt_add_empty; exact X2]. }
  rewrite EP in C. intros p Hp'. change (bk_parts (set_queue (ws_book s) (wa_sel A) (ws_uq s))) with (bk_parts (ws_book s)) in Hp'.
  destruct (C p Hp') as [X1 X2]. split; [apply (pc_ext odds (ws_book s)); [reflexivity|reflexivity|exact X1]|apply (pt_ext odds (ws_book s)); [reflexivity|reflexivity|exact X2]].
Qed.
End LoopCov.

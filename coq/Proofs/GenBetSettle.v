(* Proofs/GenBetSettle.v — x/orderbook/keeper/bet_settle.go RefundBettor, BettorWins and BettorLoses, generated from the source as functions on
   (effect log, participations of the book): what a settled bet is paid, from which module account, in which order, and what is booked on the
   participations that backed it.  They ARE the model's bettor_wins / bettor_loses and the two payments of a refunded bet in settle_bet. *)
From Coq Require Import ZArith Bool List Lia.
From Sge Require Import Lib.Dec Model.Types Model.Orderbook Model.Chain Gen.kernels Proofs.GenOb Proofs.GenBet Proofs.GenMarket Proofs.GenSettle.
Import ListNotations.
Open Scope Z_scope.

(* a refunded bet: the stake out of the liquidity pool, then the fee out of the bet fee collector, both to the bettor *)
Lemma gen_RefundBettor effs0 parts bettor amount fee x :
  K_settle_RefundBettor (settle_state effs0 parts) bettor amount fee x =
  Some (settle_state (effs0 ++ [Pay POOL bettor amount; Pay BETFEE bettor fee]) parts).
Proof.
  unfold K_settle_RefundBettor, settle_state. cbn [S_settle_Effects S_settle_Parts set_S_settle_Effects].
  rewrite map_app, <- app_assoc. reflexivity.
Qed.

Lemma set_profit_gp p v : set_G_OrderBookParticipation_ActualProfit (gp_of p) v = gp_of (part_set_profit p v).
Proof. reflexivity. Qed.

Lemma fold_stop {S R A} (F : S * option R * bool -> A -> S * option R * bool) :
  (forall st r a, F (st, r, true) a = (st, r, true)) -> forall l st r, fold_left F l (st, r, true) = (st, r, true).
Proof. intros H. induction l as [|a l IH]; intros; cbn [fold_left]; [reflexivity|]. rewrite H. apply IH. Qed.

(* a won bet: every part is paid stake + payout profit out of the pool, in the order of the parts, and the profit is taken off the
   participation that backed the part; a part whose participation is missing is an error *)
Lemma gen_BettorWins fs : forall b effs0 bettor,
  K_settle_BettorWins (settle_state effs0 (bk_parts b)) bettor (map gbf_of fs) =
  match bettor_wins b bettor fs with
  | None => None
  | Some (b', effs) => Some (settle_state (effs0 ++ effs) (bk_parts b'))
  end.
Proof.
  intros b effs0 bettor. unfold K_settle_BettorWins. cbv zeta.
  match goal with |- context [kfold _ _ ?f] => set (F := f) end. unfold kfold.
  assert (Hstop : forall l st r, fold_left F l (st, r, true) = (st, r, true)) by (apply fold_stop; reflexivity).
  assert (Hrun : forall fs b effs0,
    match bettor_wins b bettor fs with
    | None => exists st, fold_left F (map gbf_of fs) (settle_state effs0 (bk_parts b), None, false) = (st, Some None, true)
    | Some (b', effs) => fold_left F (map gbf_of fs) (settle_state effs0 (bk_parts b), None, false) = (settle_state (effs0 ++ effs) (bk_parts b'), None, false)
    end).
  { clear b effs0. intros fs0. induction fs0 as [|f rest IH]; intros b effs0; cbn [bettor_wins map fold_left].
    - rewrite app_nil_r. reflexivity.
    - assert (HF : F (settle_state effs0 (bk_parts b), None, false) (gbf_of f) =
                match get_part b (f_idx f) with
                | None => (settle_state effs0 (bk_parts b), Some None, true)
                | Some p => (settle_state (effs0 ++ [Pay POOL bettor (f_pay f + f_stake f)])
                                          (bk_parts (set_part b (part_set_profit p (p_profit p - f_pay f)))), None, false)
                end).
      { unfold F. cbn [gbf_of G_BetFulfillment_ParticipationIndex G_BetFulfillment_PayoutProfit G_BetFulfillment_BetAmount].
        unfold settle_state at 1. cbn [S_settle_Parts]. rewrite find_gp. unfold get_part.
        destruct (findb (part_is (f_idx f)) (bk_parts b)) as [p|]; cbn [option_map negb]; [|reflexivity].
        cbn [S_settle_Effects S_settle_Parts set_S_settle_Effects set_S_settle_Parts settle_state].
        rewrite set_profit_gp. cbn [G_OrderBookParticipation_ActualProfit gp_of].
        change (G_OrderBookParticipation_Index (gp_of (part_set_profit p (p_profit p - f_pay f)))) with
               (G_OrderBookParticipation_Index (gp_of (part_set_profit p (p_profit p - f_pay f)))).
        rewrite (kupd_gp (bk_parts b) (part_set_profit p (p_profit p - f_pay f))).
        unfold settle_state. rewrite map_app. reflexivity. }
      rewrite HF. destruct (get_part b (f_idx f)) as [p|].
      + specialize (IH (set_part b (part_set_profit p (p_profit p - f_pay f))) (effs0 ++ [Pay POOL bettor (f_pay f + f_stake f)])).
        destruct (bettor_wins (set_part b (part_set_profit p (p_profit p - f_pay f))) bettor rest) as [[b2 effs]|].
        * rewrite IH. rewrite <- app_assoc. reflexivity.
        * exact IH.
      + rewrite Hstop. eexists. reflexivity. }
  specialize (Hrun fs b effs0). destruct (bettor_wins b bettor fs) as [[b' effs]|].
  - rewrite Hrun. reflexivity.
  - destruct Hrun as [st E]. rewrite E. reflexivity.
Qed.

(* a lost bet: the stake of every part is added to the profit of the participation that backed it; nothing is paid *)
Lemma gen_BettorLoses fs : forall b effs0,
  K_settle_BettorLoses (settle_state effs0 (bk_parts b)) (map gbf_of fs) =
  match bettor_loses b fs with
  | None => None
  | Some b' => Some (settle_state effs0 (bk_parts b'))
  end.
Proof.
  intros b effs0. unfold K_settle_BettorLoses. cbv zeta.
  match goal with |- context [kfold _ _ ?f] => set (F := f) end. unfold kfold.
  assert (Hstop : forall l st r, fold_left F l (st, r, true) = (st, r, true)) by (apply fold_stop; reflexivity).
  assert (Hrun : forall fs b,
    match bettor_loses b fs with
    | None => exists st, fold_left F (map gbf_of fs) (settle_state effs0 (bk_parts b), None, false) = (st, Some None, true)
    | Some b' => fold_left F (map gbf_of fs) (settle_state effs0 (bk_parts b), None, false) = (settle_state effs0 (bk_parts b'), None, false)
    end).
  { clear b. intros fs0. induction fs0 as [|f rest IH]; intros b; cbn [bettor_loses map fold_left].
    - reflexivity.
    - assert (HF : F (settle_state effs0 (bk_parts b), None, false) (gbf_of f) =
                match get_part b (f_idx f) with
                | None => (settle_state effs0 (bk_parts b), Some None, true)
                | Some p => (settle_state effs0 (bk_parts (set_part b (part_set_profit p (p_profit p + f_stake f)))), None, false)
                end).
      { unfold F. cbn [gbf_of G_BetFulfillment_ParticipationIndex G_BetFulfillment_PayoutProfit G_BetFulfillment_BetAmount].
        unfold settle_state at 1. cbn [S_settle_Parts]. rewrite find_gp. unfold get_part.
        destruct (findb (part_is (f_idx f)) (bk_parts b)) as [p|]; cbn [option_map negb]; [|reflexivity].
        cbn [S_settle_Effects S_settle_Parts set_S_settle_Effects set_S_settle_Parts settle_state].
        rewrite set_profit_gp. cbn [G_OrderBookParticipation_ActualProfit gp_of].
        rewrite (kupd_gp (bk_parts b) (part_set_profit p (p_profit p + f_stake f))). reflexivity. }
      rewrite HF. destruct (get_part b (f_idx f)) as [p|].
      + exact (IH (set_part b (part_set_profit p (p_profit p + f_stake f)))).
      + rewrite Hstop. eexists. reflexivity. }
  specialize (Hrun fs b). destruct (bettor_loses b fs) as [b'|].
  - rewrite Hrun. reflexivity.
  - destruct Hrun as [st E]. rewrite E. reflexivity.
Qed.

(* ---- x/bet/keeper/settle.go --------------------------------------------------------------------------------------------------------- *)
Lemma gen_WithdrawBetFee effs0 parts creator fee :
  K_settle_WithdrawBetFee (settle_state effs0 parts) creator fee = Some (settle_state (effs0 ++ [Pay BETFEE creator fee]) parts).
Proof. unfold K_settle_WithdrawBetFee, settle_state. cbn [S_settle_Effects S_settle_Parts set_S_settle_Effects]. rewrite map_app. reflexivity. Qed.

Lemma gb_of_set_status b st : set_G_Bet_Status (gb_of b) st = gb_of (bet_with b st (b_result b) (b_sheight b)).
Proof. reflexivity. Qed.

(* settleResolved: a lost bet books its stakes, a won bet is paid; the bet becomes settled *)
Lemma gen_settleResolved b bk effs0 : b_result b = BR_WON \/ b_result b = BR_LOST ->
  K_settle_settleResolved (settle_state effs0 (bk_parts bk)) (gb_of b) =
  if b_result b =? BR_LOST
  then match bettor_loses bk (b_parts b) with
       | None => None
       | Some bk' => Some (settle_state effs0 (bk_parts bk'), gb_of (bet_with b BS_SETTLED (b_result b) (b_sheight b)))
       end
  else match bettor_wins bk (b_creator b) (b_parts b) with
       | None => None
       | Some (bk', effs) => Some (settle_state (effs0 ++ effs) (bk_parts bk'), gb_of (bet_with b BS_SETTLED (b_result b) (b_sheight b)))
       end.
Proof.
  intros HR. unfold K_settle_settleResolved, BR_LOST, BR_WON in *.
  change (G_Bet_Result (gb_of b)) with (b_result b). change (G_Bet_Creator (gb_of b)) with (b_creator b).
  change (G_Bet_BetFulfillment (gb_of b)) with (map gbf_of (b_parts b)).
  destruct (b_result b =? 3) eqn:E3.
  - rewrite gen_BettorLoses. destruct (bettor_loses bk (b_parts b)); reflexivity.
  - assert (E2 : b_result b =? 2 = true). { destruct HR as [H|H]; [apply Z.eqb_eq; exact H|]. apply Z.eqb_neq in E3. contradiction. }
    rewrite E2. rewrite gen_BettorWins. destruct (bettor_wins bk (b_creator b) (b_parts b)) as [[bk' effs]|]; reflexivity.
Qed.

(* the state Settle works on, built from the model's market state: the uid index entry and the bet are the ones stored for this bet, the
   market is the bet's market *)
Definition bset_state (x : mstate) (b : bet) (id h : Z) : S_bset :=
  {| S_bset_Ob := settle_state [] (bk_parts (ms_book x)); S_bset_Uid2ID := {| G_UID2ID_UID := b_uid b; G_UID2ID_ID := id |}; S_bset_Uid2IDFound := true;
     S_bset_Bet := gb_of b; S_bset_BetFound := true; S_bset_Market := gm_of (ms_mkt x); S_bset_MarketFound := true; S_bset_Height := h;
     S_bset_Pending := ms_pending x; S_bset_SettledIx := [] |}.
Definition bset_after (x : mstate) (b : bet) (id h : Z) (x' : mstate) (effs : list effect) (res : Z) : S_bset :=
  {| S_bset_Ob := settle_state effs (bk_parts (ms_book x')); S_bset_Uid2ID := {| G_UID2ID_UID := b_uid b; G_UID2ID_ID := id |}; S_bset_Uid2IDFound := true;
     S_bset_Bet := gb_of (bet_with b BS_SETTLED res h); S_bset_BetFound := true; S_bset_Market := gm_of (ms_mkt x); S_bset_MarketFound := true;
     S_bset_Height := h; S_bset_Pending := ms_pending x'; S_bset_SettledIx := [(id, h)] |}.
(* the result a settlement records *)
Definition settled_as (mk : market) (b : bet) : Z :=
  if (k_status mk =? MK_ABORTED) || (k_status mk =? MK_CANCELED) then BR_REFUNDED
  else if zmem (b_odds b) (k_winners mk) then BR_WON else BR_LOST.

Lemma remb_filter id (l : list Z) : filter (fun g => negb (g =? id)) l = remb (Z.eqb id) l.
Proof. unfold remb. induction l as [|a r IH]; cbn [filter]; [reflexivity|]. rewrite (Z.eqb_sym a id). destruct (id =? a); cbn [negb]; rewrite IH; reflexivity. Qed.

(* Keeper.Settle IS the model's settle_bet: the same refusals, the same payments in the same order, the same participation updates, the
   bet recorded as settled with the same result at this height, taken out of the pending index and entered once in the settled index *)
Lemma gen_Settle x h id b :
  findb (fun c => b_id c =? id) (ms_bets x) = Some b -> 0 <= b_uid b -> b_status b <> 2 ->
  K_bset_Settle (bset_state x b id h) (b_creator b) (b_uid b) =
  match settle_bet x h id with
  | None => None
  | Some (x', effs) => Some (bset_after x b id h x' effs (settled_as (ms_mkt x) b))
  end.
Proof.
  intros HF HU HS. unfold K_bset_Settle, settle_bet. rewrite HF.
  assert (EU : 0 <=? b_uid b = true) by (apply Z.leb_le; exact HU). rewrite EU.
  cbn [negb bset_state S_bset_Ob S_bset_Uid2ID S_bset_Uid2IDFound S_bset_Bet S_bset_BetFound S_bset_Market S_bset_MarketFound G_UID2ID_ID].
  change (G_Bet_Creator (gb_of b)) with (b_creator b). rewrite Z.eqb_refl. cbn [negb].
  assert (EE : K_Bet_CheckSettlementEligiblity (gb_of b) = negb (b_status b =? BS_SETTLED)) by (unfold gb_of; apply gen_bet_eligible; exact HS).
  rewrite EE. rewrite negb_involutive. destruct (b_status b =? BS_SETTLED); [reflexivity|].
  change (G_Market_Status (gm_of (ms_mkt x))) with (k_status (ms_mkt x)). change (G_Market_Creator (gm_of (ms_mkt x))) with (k_creator (ms_mkt x)).
  unfold settled_as, MK_ABORTED, MK_CANCELED.
  destruct ((k_status (ms_mkt x) =? 4) || (k_status (ms_mkt x) =? 3)) eqn:ECA.
  - (* cancelled / aborted: stake and fee back *)
    change (G_Bet_OddsValue (gb_of b)) with (b_oddsval b). change (G_Bet_Amount (gb_of b)) with (b_amount b). change (G_Bet_Fee (gb_of b)) with (b_fee b).
    rewrite gen_CalculatePayoutProfit. destruct (payout_profit (b_oddsval b) (b_amount b)) as [pp|]; [|reflexivity].
    rewrite gen_RefundBettor. cbn [app].
    unfold K_bset_updateSettlementState, bset_after. cbn [set_S_bset_Ob set_S_bset_Bet set_S_bset_Pending set_S_bset_SettledIx
      S_bset_Ob S_bset_Uid2ID S_bset_Uid2IDFound S_bset_Bet S_bset_BetFound S_bset_Market S_bset_MarketFound S_bset_Height S_bset_Pending S_bset_SettledIx
      G_UID2ID_ID mstate_upd ms_book ms_pending app]. rewrite remb_filter. reflexivity.
  - (* resolved: the verdict, the order-book side, the bet fee to the market creator *)
    rewrite gen_SetResult. destruct (negb (k_status (ms_mkt x) =? MK_DECLARED)); [reflexivity|].
    set (r := if zmem (b_odds b) (k_winners (ms_mkt x)) then BR_WON else BR_LOST).
    set (b1 := bet_with b BS_DECLARED r (b_sheight b)).
    assert (HR : b_result b1 = BR_WON \/ b_result b1 = BR_LOST) by (unfold b1, r; cbn [bet_with b_result]; destruct (zmem _ _); [left|right]; reflexivity).
    rewrite (gen_settleResolved b1 (ms_book x) [] HR).
    change (b_result b1) with r. change (b_parts b1) with (b_parts b). change (b_creator b1) with (b_creator b). change (b_sheight b1) with (b_sheight b).
    unfold r. destruct (zmem (b_odds b) (k_winners (ms_mkt x))) eqn:EW.
    + change (BR_WON =? BR_LOST) with false. cbv iota.
      destruct (bettor_wins (ms_book x) (b_creator b) (b_parts b)) as [[bk' effs]|]; [|reflexivity].
      cbn [set_S_bset_Ob S_bset_Ob]. change (G_Bet_Fee (gb_of (bet_with b1 BS_SETTLED BR_WON (b_sheight b)))) with (b_fee b).
      rewrite gen_WithdrawBetFee.
      unfold K_bset_updateSettlementState, bset_after. cbn [set_S_bset_Ob set_S_bset_Bet set_S_bset_Pending set_S_bset_SettledIx
        S_bset_Ob S_bset_Uid2ID S_bset_Uid2IDFound S_bset_Bet S_bset_BetFound S_bset_Market S_bset_MarketFound S_bset_Height S_bset_Pending S_bset_SettledIx
        G_UID2ID_ID mstate_upd ms_book ms_pending app]. rewrite remb_filter. reflexivity.
    + change (BR_LOST =? BR_LOST) with true. cbv iota.
      destruct (bettor_loses (ms_book x) (b_parts b)) as [bk'|]; [|reflexivity].
      cbn [set_S_bset_Ob S_bset_Ob]. change (G_Bet_Fee (gb_of (bet_with b1 BS_SETTLED BR_LOST (b_sheight b)))) with (b_fee b).
      rewrite gen_WithdrawBetFee.
      unfold K_bset_updateSettlementState, bset_after. cbn [set_S_bset_Ob set_S_bset_Bet set_S_bset_Pending set_S_bset_SettledIx
        S_bset_Ob S_bset_Uid2ID S_bset_Uid2IDFound S_bset_Bet S_bset_BetFound S_bset_Market S_bset_MarketFound S_bset_Height S_bset_Pending S_bset_SettledIx
        G_UID2ID_ID mstate_upd ms_book ms_pending app]. rewrite remb_filter. reflexivity.
Qed.

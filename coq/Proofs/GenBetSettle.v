(* Proofs/GenBetSettle.v — x/orderbook/keeper/bet_settle.go RefundBettor, BettorWins and BettorLoses, generated from the source as functions on
   (effect log, participations of the book): what a settled bet is paid, from which module account, in which order, and what is booked on the
   participations that backed it.  They ARE the model's bettor_wins / bettor_loses and the two payments of a refunded bet in settle_bet. *)
From Coq Require Import ZArith Bool List Lia.
From Sge Require Import Lib.Dec Model.Types Model.Orderbook Model.Chain Gen.kernels Proofs.GenOb Proofs.GenBet Proofs.GenSettle.
Import ListNotations.
Open Scope Z_scope.

Lemma find_gp i (ps : list part) :
  find (fun g => G_OrderBookParticipation_Index g =? i) (map gp_of ps) = option_map gp_of (findb (part_is i) ps).
Proof.
  unfold findb. induction ps as [|a r IH]; cbn [map find option_map]; [reflexivity|].
  unfold part_is at 1. cbn [gp_of G_OrderBookParticipation_Index]. destruct (p_idx a =? i); [reflexivity|exact IH].
Qed.

(* a refunded bet: the stake out of the liquidity pool, then the fee out of the bet fee collector, both to the bettor *)
Lemma gen_RefundBettor effs0 parts bettor amount fee x :
  K_settle_RefundBettor (settle_state effs0 parts) bettor amount fee x =
  Some (settle_state (effs0 ++ [Pay POOL bettor amount; Pay BETFEE bettor fee]) parts).
Proof.
  unfold K_settle_RefundBettor, settle_state. cbn [S_settle_Effects S_settle_Parts set_S_settle_Effects].
  rewrite map_app, <- app_assoc. reflexivity.
Qed.

Lemma set_profit_gp p v : set_G_OrderBookParticipation_ActualProfit (gp_of p) v = gp_of (part_set_profit p v).
Proof. reflexivity. Qed.

Lemma fold_stop {S R A} (F : S * option R * bool -> A -> S * option R * bool) :
  (forall st r a, F (st, r, true) a = (st, r, true)) -> forall l st r, fold_left F l (st, r, true) = (st, r, true).
Proof. intros H. induction l as [|a l IH]; intros; cbn [fold_left]; [reflexivity|]. rewrite H. apply IH. Qed.

(* a won bet: every part is paid stake + payout profit out of the pool, in the order of the parts, and the profit is taken off the
   participation that backed the part; a part whose participation is missing is an error *)
Lemma gen_BettorWins fs : forall b effs0 bettor,
  K_settle_BettorWins (settle_state effs0 (bk_parts b)) bettor (map gbf_of fs) =
  match bettor_wins b bettor fs with
  | None => None
  | Some (b', effs) => Some (settle_state (effs0 ++ effs) (bk_parts b'))
  end.
Proof.
  intros b effs0 bettor. unfold K_settle_BettorWins. cbv zeta.
  match goal with |- context [kfold _ _ ?f] => set (F := f) end. unfold kfold.
  assert (Hstop : forall l st r, fold_left F l (st, r, true) = (st, r, true)) by (apply fold_stop; reflexivity).
  assert (Hrun : forall fs b effs0,
    match bettor_wins b bettor fs with
    | None => exists st, fold_left F (map gbf_of fs) (settle_state effs0 (bk_parts b), None, false) = (st, Some None, true)
    | Some (b', effs) => fold_left F (map gbf_of fs) (settle_state effs0 (bk_parts b), None, false) = (settle_state (effs0 ++ effs) (bk_parts b'), None, false)
    end).
  { clear b effs0. intros fs0. induction fs0 as [|f rest IH]; intros b effs0; cbn [bettor_wins map fold_left].
    - rewrite app_nil_r. reflexivity.
    - assert (HF : F (settle_state effs0 (bk_parts b), None, false) (gbf_of f) =
                match get_part b (f_idx f) with
                | None => (settle_state effs0 (bk_parts b), Some None, true)
                | Some p => (settle_state (effs0 ++ [Pay POOL bettor (f_pay f + f_stake f)])
                                          (bk_parts (set_part b (part_set_profit p (p_profit p - f_pay f)))), None, false)
                end).
      { unfold F. cbn [gbf_of G_BetFulfillment_ParticipationIndex G_BetFulfillment_PayoutProfit G_BetFulfillment_BetAmount].
        unfold settle_state at 1. cbn [S_settle_Parts]. rewrite find_gp. unfold get_part.
        destruct (findb (part_is (f_idx f)) (bk_parts b)) as [p|]; cbn [option_map negb]; [|reflexivity].
        cbn [S_settle_Effects S_settle_Parts set_S_settle_Effects set_S_settle_Parts settle_state].
        rewrite set_profit_gp. cbn [G_OrderBookParticipation_ActualProfit gp_of].
        change (G_OrderBookParticipation_Index (gp_of (part_set_profit p (p_profit p - f_pay f)))) with
               (G_OrderBookParticipation_Index (gp_of (part_set_profit p (p_profit p - f_pay f)))).
        rewrite (kupd_gp (bk_parts b) (part_set_profit p (p_profit p - f_pay f))).
        unfold settle_state. rewrite map_app. reflexivity. }
      rewrite HF. destruct (get_part b (f_idx f)) as [p|].
      + specialize (IH (set_part b (part_set_profit p (p_profit p - f_pay f))) (effs0 ++ [Pay POOL bettor (f_pay f + f_stake f)])).
        destruct (bettor_wins (set_part b (part_set_profit p (p_profit p - f_pay f))) bettor rest) as [[b2 effs]|].
        * rewrite IH. rewrite <- app_assoc. reflexivity.
        * exact IH.
      + rewrite Hstop. eexists. reflexivity. }
  specialize (Hrun fs b effs0). destruct (bettor_wins b bettor fs) as [[b' effs]|].
  - rewrite Hrun. reflexivity.
  - destruct Hrun as [st E]. rewrite E. reflexivity.
Qed.

(* a lost bet: the stake of every part is added to the profit of the participation that backed it; nothing is paid *)
Lemma gen_BettorLoses fs : forall b effs0,
  K_settle_BettorLoses (settle_state effs0 (bk_parts b)) (map gbf_of fs) =
  match bettor_loses b fs with
  | None => None
  | Some b' => Some (settle_state effs0 (bk_parts b'))
  end.
Proof.
  intros b effs0. unfold K_settle_BettorLoses. cbv zeta.
  match goal with |- context [kfold _ _ ?f] => set (F := f) end. unfold kfold.
  assert (Hstop : forall l st r, fold_left F l (st, r, true) = (st, r, true)) by (apply fold_stop; reflexivity).
  assert (Hrun : forall fs b,
    match bettor_loses b fs with
    | None => exists st, fold_left F (map gbf_of fs) (settle_state effs0 (bk_parts b), None, false) = (st, Some None, true)
    | Some b' => fold_left F (map gbf_of fs) (settle_state effs0 (bk_parts b), None, false) = (settle_state effs0 (bk_parts b'), None, false)
    end).
  { clear b. intros fs0. induction fs0 as [|f rest IH]; intros b; cbn [bettor_loses map fold_left].
    - reflexivity.
    - assert (HF : F (settle_state effs0 (bk_parts b), None, false) (gbf_of f) =
                match get_part b (f_idx f) with
                | None => (settle_state effs0 (bk_parts b), Some None, true)
                | Some p => (settle_state effs0 (bk_parts (set_part b (part_set_profit p (p_profit p + f_stake f)))), None, false)
                end).
      { unfold F. cbn [gbf_of G_BetFulfillment_ParticipationIndex G_BetFulfillment_PayoutProfit G_BetFulfillment_BetAmount].
        unfold settle_state at 1. cbn [S_settle_Parts]. rewrite find_gp. unfold get_part.
        destruct (findb (part_is (f_idx f)) (bk_parts b)) as [p|]; cbn [option_map negb]; [|reflexivity].
        cbn [S_settle_Effects S_settle_Parts set_S_settle_Effects set_S_settle_Parts settle_state].
        rewrite set_profit_gp. cbn [G_OrderBookParticipation_ActualProfit gp_of].
        rewrite (kupd_gp (bk_parts b) (part_set_profit p (p_profit p + f_stake f))). reflexivity. }
      rewrite HF. destruct (get_part b (f_idx f)) as [p|].
      + exact (IH (set_part b (part_set_profit p (p_profit p + f_stake f)))).
      + rewrite Hstop. eexists. reflexivity. }
  specialize (Hrun fs b). destruct (bettor_loses b fs) as [b'|].
  - rewrite Hrun. reflexivity.
  - destruct Hrun as [st E]. rewrite E. reflexivity.
Qed.

(* Proofs/GenSub.v — generated kernels (Gen/kernels.v, regenerated from the Go source on every run) proved equal to the hand-written model:
   x/subaccount: account summary arithmetic, lock validation, sumLockedBalance, withdrawUnlocked / withdrawLockedAndUnlocked, TopUp.  Split by module so that a change of one module only touches the properties that depend on it. *)
From Coq Require Import ZArith Bool List Lia.
From Sge Require Import Lib.Dec Model.Types Model.Orderbook Model.Mint Model.Chain Gen.kernels.
Import ListNotations.
Open Scope Z_scope.

(* ---- x/subaccount/types/accsummary.go ----------------------------------------------------------------------------------------------- *)
Definition as_of (x : subacc) : G_AccountSummary :=
  {| G_AccountSummary_DepositedAmount := sa_dep x; G_AccountSummary_SpentAmount := sa_spent x;
     G_AccountSummary_WithdrawnAmount := sa_wd x; G_AccountSummary_LostAmount := sa_lost x |}.

Lemma gen_Available x : K_AccountSummary_Available (as_of x) = sub_available x.
Proof. reflexivity. Qed.

Lemma gen_Spend x a : K_AccountSummary_Spend (as_of x) a = option_map as_of (sub_spend x a).
Proof. unfold K_AccountSummary_Spend, sub_spend. rewrite gen_Available. destruct (a <? 0); [reflexivity|]. destruct (sub_available x <? a); reflexivity. Qed.
Lemma gen_Unspend x a : K_AccountSummary_Unspend (as_of x) a = option_map as_of (sub_unspend x a).
Proof. unfold K_AccountSummary_Unspend, sub_unspend. cbn [as_of G_AccountSummary_SpentAmount]. destruct (a <? 0); [reflexivity|]. destruct (sa_spent x <? a); reflexivity. Qed.
Lemma gen_AddLoss x a : K_AccountSummary_AddLoss (as_of x) a = option_map as_of (sub_addloss x a).
Proof. unfold K_AccountSummary_AddLoss, sub_addloss. destruct (a <? 0); reflexivity. Qed.
Lemma gen_Withdraw x a : K_AccountSummary_Withdraw (as_of x) a = option_map as_of (sub_withdraw x a).
Proof. unfold K_AccountSummary_Withdraw, sub_withdraw. rewrite gen_Available. destruct (a <? 0); [reflexivity|]. destruct (sub_available x <? a); reflexivity. Qed.

(* ---- x/subaccount/types/ticket.go: the split of a subaccount wager into a main-account part and a subaccount part ----------------- *)
Definition wager_parts_ok (md sd amount : Z) : bool := negb ((md <? 0) || (sd <? 0)) && (md + sd =? amount).
Lemma gen_wager_parts md sd amount :
  K_SubAccWagerTicketPayload_Validate {| G_SubAccWagerTicketPayload_MainaccDeductAmount := md; G_SubAccWagerTicketPayload_SubaccDeductAmount := sd |} amount
  = wager_parts_ok md sd amount.
Proof.
  unfold K_SubAccWagerTicketPayload_Validate, wager_parts_ok. cbn [G_SubAccWagerTicketPayload_MainaccDeductAmount G_SubAccWagerTicketPayload_SubaccDeductAmount orb].
  destruct ((md <? 0) || (sd <? 0)); [reflexivity|]. destruct (md + sd =? amount); reflexivity.
Qed.
(* the model's handler refuses exactly what the generated Validate refuses, and an accepted split has no negative part: the subaccount
   pays at most the stake and nothing but the stake reaches the owner *)
Lemma sub_wager_parts s sg tk ic tk2 u a sm so ov mu al k ot md sd s' :
  sub_wager s sg tk ic tk2 u a sm so ov mu al k ot md sd = Some s' ->
  wager_parts_ok md sd a = true /\ 0 <= md /\ 0 <= sd <= a.
Proof.
  unfold sub_wager, wager_parts_ok. intros H.
  destruct (negb (c_sub_wager s)); [discriminate|]. destruct (sub_by_owner (c_subs s) sg); [|discriminate].
  destruct (negb (ticket_ok s tk)); [discriminate|]. destruct (negb (sg =? ic)); [discriminate|].
  destruct (negb (wager_prepare s ic tk2 u a sm so mu al k ot)); [discriminate|].
  destruct ((md <? 0) || (sd <? 0)) eqn:N; [discriminate|]. destruct (md + sd =? a) eqn:E; [|discriminate].
  apply orb_false_iff in N. destruct N as [N1 N2]. apply Z.ltb_ge in N1. apply Z.ltb_ge in N2. apply Z.eqb_eq in E.
  split; [reflexivity|]. lia.
Qed.

(* the amount sub_withdraw_unlocked pays (keeper/balance.go withdrawUnlocked) and the bound of sub_wager (withdrawLockedAndUnlocked) *)
Lemma gen_WithdrawableUnlockedBalance x unlocked bank :
  K_AccountSummary_WithdrawableUnlockedBalance (as_of x) unlocked bank = Z.min (Z.min (sub_available x) (zmax0 (unlocked - sa_wd x))) bank.
Proof. unfold K_AccountSummary_WithdrawableUnlockedBalance, zmax0. rewrite gen_Available. cbn [as_of G_AccountSummary_WithdrawnAmount]. rewrite Z.max_comm. reflexivity. Qed.
Lemma gen_WithdrawableBalance x bank : K_AccountSummary_WithdrawableBalance (as_of x) bank = Z.min (sub_available x) bank.
Proof. reflexivity. Qed.

(* the model uses exactly these two expressions *)
Lemma model_uses_withdrawable_unlocked s owner x :
  sub_by_owner (c_subs s) owner = Some x ->
  sub_withdraw_unlocked s owner =
  (let w := K_AccountSummary_WithdrawableUnlockedBalance (as_of x) (unlocked_total (c_now s) x) (bget (c_bank s) (sub_addr x)) in
   if w =? 0 then None else
   match sub_withdraw x w with
   | None => None
   | Some x' => match pay (c_bank s) (sub_addr x) owner w with None => None | Some b => Some (set_bank (with_subs s (set_sub (c_subs s) x')) b) end
   end).
Proof. intros E. unfold sub_withdraw_unlocked. rewrite E, gen_WithdrawableUnlockedBalance. reflexivity. Qed.

Lemma gen_lock_ok now ts amt : K_LockedBalance_Validate {| G_LockedBalance_UnlockTS := ts; G_LockedBalance_Amount := amt |} = lock_ok now (ts, amt).
Proof. unfold K_LockedBalance_Validate, lock_ok. cbn [G_LockedBalance_UnlockTS G_LockedBalance_Amount fst snd]. destruct (ts =? 0); [reflexivity|]. destruct (amt <? 0); reflexivity. Qed.

(* subaccount keeper sumLockedBalance: refused when an unlock time lies before the block time, else the sum *)
Definition glb_of (l : Z * Z) : G_LockedBalance := {| G_LockedBalance_UnlockTS := fst l; G_LockedBalance_Amount := snd l |}.
Lemma gen_sumLockedBalance now ls : K__sumLockedBalance now (map glb_of ls) = sum_locks now ls.
Proof.
  unfold K__sumLockedBalance, sum_locks.
  match goal with |- context [kfold _ _ ?f] => set (F := f) end. unfold kfold.
  assert (Hstop : forall l a r, fold_left F l (a, r, true) = (a, r, true)).
  { induction l as [|x l IH]; intros a r; cbn [fold_left]; [reflexivity|apply IH]. }
  assert (Hrun : forall l a, fold_left F (map glb_of l) (a, None, false) =
            if existsb (fun l => fst l <? now) l then (fst (fst (fold_left F (map glb_of l) (a, None, false))), Some None, true)
            else (a + zsum (map snd l), None, false)).
  { induction l as [|x l IH]; intros a; cbn [map fold_left existsb zsum].
    - f_equal. f_equal. lia.
    - assert (HF : F (a, None, false) (glb_of x) = if fst x <? now then (a, Some None, true) else (a + snd x, None, false)).
      { unfold F. cbv beta iota. cbn [glb_of G_LockedBalance_UnlockTS G_LockedBalance_Amount]. destruct (fst x <? now); reflexivity. }
      rewrite HF. destruct (fst x <? now); cbn [orb].
      + rewrite Hstop. reflexivity.
      + rewrite IH. destruct (existsb (fun l0 => fst l0 <? now) l); [reflexivity|]. f_equal. f_equal. lia. }
  rewrite Hrun. destruct (existsb (fun l => fst l <? now) ls); [reflexivity|]. cbn [Z.add]. reflexivity.
Qed.

(* ---- stateful kernels of x/subaccount/keeper/balance.go: withdrawUnlocked and withdrawLockedAndUnlocked, generated as functions on the
   state they reach through the keeper (account summary, unlocked total, bank balances of the subaccount and of its owner; SendCoins is the
   guarded transfer between the two balances) ------------------------------------------------------------------------------------------- *)
Definition subwd_state (x : subacc) (unl sb ob : Z) : S_subwd :=
  {| S_subwd_Summary := as_of x; S_subwd_Unlocked := unl; S_subwd_SubBal := sb; S_subwd_OwnerBal := ob |}.

(* = the body of sub_withdraw_unlocked: amount, refusal of a zero amount, Withdraw, then the transfer *)
Lemma gen_withdrawUnlocked x unl sb ob :
  K_subwd_withdrawUnlocked (subwd_state x unl sb ob) =
  let w := Z.min (Z.min (sub_available x) (zmax0 (unl - sa_wd x))) sb in
  if w =? 0 then None else
  match sub_withdraw x w with
  | None => None
  | Some x' => if sb <? w then None else Some (subwd_state x' unl (sb - w) (ob + w))
  end.
Proof.
  unfold K_subwd_withdrawUnlocked, subwd_state. cbn [S_subwd_Summary S_subwd_Unlocked S_subwd_SubBal S_subwd_OwnerBal].
  rewrite gen_WithdrawableUnlockedBalance. cbv zeta.
  set (w := Z.min (Z.min (sub_available x) (zmax0 (unl - sa_wd x))) sb).
  destruct (w =? 0); [reflexivity|]. rewrite gen_Withdraw. destruct (sub_withdraw x w) as [x'|]; cbn [option_map]; [|reflexivity].
  cbn [set_S_subwd_Summary set_S_subwd_SubBal set_S_subwd_OwnerBal S_subwd_Summary S_subwd_Unlocked S_subwd_SubBal S_subwd_OwnerBal].
  destruct (sb <? w); reflexivity.
Qed.

(* = the subaccount part of sub_wager: the bound, the transfer, then Withdraw *)
Lemma gen_withdrawLockedAndUnlocked x unl sb ob d :
  K_subwd_withdrawLockedAndUnlocked (subwd_state x unl sb ob) d =
  if Z.min (Z.min (sub_available x) sb) d <? d then None else
  if sb <? d then None else
  match sub_withdraw x d with None => None | Some x' => Some (subwd_state x' unl (sb - d) (ob + d)) end.
Proof.
  unfold K_subwd_withdrawLockedAndUnlocked, subwd_state. cbn [S_subwd_Summary S_subwd_Unlocked S_subwd_SubBal S_subwd_OwnerBal].
  rewrite gen_WithdrawableBalance. destruct (Z.min (Z.min (sub_available x) sb) d <? d); [reflexivity|].
  destruct (sb <? d); [reflexivity|].
  cbn [set_S_subwd_Summary set_S_subwd_SubBal set_S_subwd_OwnerBal S_subwd_Summary S_subwd_Unlocked S_subwd_SubBal S_subwd_OwnerBal].
  rewrite gen_Withdraw. destruct (sub_withdraw x d); reflexivity.
Qed.

(* the model's sub_withdraw_unlocked IS the generated handler: state assembled from the chain state, result written back to it *)
Lemma model_is_withdrawUnlocked s owner x :
  sub_by_owner (c_subs s) owner = Some x ->
  sub_withdraw_unlocked s owner =
  match K_subwd_withdrawUnlocked (subwd_state x (unlocked_total (c_now s) x) (bget (c_bank s) (sub_addr x)) (bget (c_bank s) owner)) with
  | None => None
  | Some st => match sub_withdraw x (bget (c_bank s) (sub_addr x) - S_subwd_SubBal st) with
               | None => None
               | Some x' => match pay (c_bank s) (sub_addr x) owner (bget (c_bank s) (sub_addr x) - S_subwd_SubBal st) with
                            | None => None
                            | Some b => Some (set_bank (with_subs s (set_sub (c_subs s) x')) b)
                            end
               end
  end.
Proof.
  intros E. unfold sub_withdraw_unlocked. rewrite E, gen_withdrawUnlocked. cbv zeta.
  set (w := Z.min (Z.min (sub_available x) (zmax0 (unlocked_total (c_now s) x - sa_wd x))) (bget (c_bank s) (sub_addr x))).
  destruct (w =? 0); [reflexivity|]. destruct (sub_withdraw x w) as [x'|] eqn:EW; [|reflexivity].
  destruct (bget (c_bank s) (sub_addr x) <? w) eqn:EL.
  - unfold pay. rewrite EL. destruct (w <? 0); reflexivity.
  - cbn [subwd_state S_subwd_SubBal]. replace (bget (c_bank s) (sub_addr x) - (bget (c_bank s) (sub_addr x) - w)) with w by lia.
    rewrite EW. reflexivity.
Qed.

(* ---- x/subaccount/keeper/balance.go TopUp, generated over the state it reaches: does the owner have a subaccount, its summary and lock
   records, the bank balances of the funding account and of the subaccount, the block time --------------------------------------------------- *)
Definition subtop_state (ex : bool) (x : subacc) (sumex : bool) (cb sb now : Z) : S_subtop :=
  {| S_subtop_Exists := ex; S_subtop_Summary := as_of x; S_subtop_SummaryExists := sumex; S_subtop_Locks := map glb_of (sa_locks x);
     S_subtop_CreatorBal := cb; S_subtop_SubBal := sb; S_subtop_Now := now |}.

Lemma existsb_glb (old : list (Z * Z)) k :
  existsb (fun g => G_LockedBalance_UnlockTS g =? k) (map glb_of old) = existsb (fun o => fst o =? k) old.
Proof. induction old as [|a l IH]; cbn [map existsb]; [reflexivity|]. rewrite IH. reflexivity. Qed.
Lemma kupd_glb (acc : list (Z * Z)) l :
  kupd (fun g => G_LockedBalance_UnlockTS g =? G_LockedBalance_UnlockTS (glb_of l)) (glb_of l) (map glb_of acc) =
  map glb_of (upd (fun x => fst x =? fst l) l acc).
Proof. induction acc as [|a r IH]; cbn [map kupd upd]; [reflexivity|]. cbn [glb_of G_LockedBalance_UnlockTS]. destruct (fst a =? fst l); cbn [map]; [reflexivity|]. f_equal. exact IH. Qed.
Lemma set_locks_glb (new old : list (Z * Z)) :
  fold_left (fun acc g => kupd (fun y => G_LockedBalance_UnlockTS y =? G_LockedBalance_UnlockTS g) g acc) (map glb_of new) (map glb_of old) =
  map glb_of (set_locks old new).
Proof.
  unfold set_locks. revert old. induction new as [|l r IH]; intros old; cbn [map fold_left]; [reflexivity|].
  rewrite kupd_glb. apply IH.
Qed.

(* = sub_topup after the validity of the lock list and the owner lookup: refusal of an unlock time before the block time or one that
   already has a record, the deposited amount grows by the sum, the lock records are written (last write per unlock time wins), the sum
   moves from the funding account to the subaccount (refused when the funding account holds less) *)
Lemma gen_TopUp x locks cb sb now :
  K_subtop_TopUp (subtop_state true x true cb sb now) (map glb_of locks) =
  match sum_locks now locks with
  | None => None
  | Some tot =>
      if existsb (fun l => existsb (fun o => fst o =? fst l) (sa_locks x)) locks then None
      else if cb <? tot then None
      else Some (subtop_state true (sub_with x (sa_dep x + tot) (sa_spent x) (sa_wd x) (sa_lost x) (set_locks (sa_locks x) locks)) true (cb - tot) (sb + tot) now)
  end.
Proof.
  unfold K_subtop_TopUp. replace (S_subtop_Now (subtop_state true x true cb sb now)) with now by reflexivity.
  rewrite gen_sumLockedBalance. destruct (sum_locks now locks) as [tot|]; [|reflexivity].
  cbv zeta. replace (S_subtop_Exists (subtop_state true x true cb sb now)) with true by reflexivity.
  replace (S_subtop_SummaryExists (subtop_state true x true cb sb now)) with true by reflexivity.
  replace (S_subtop_Summary (subtop_state true x true cb sb now)) with (as_of x) by reflexivity. cbn [negb]. cbv iota beta.
  match goal with |- context [kfold _ _ ?f] => set (F := f) end. unfold kfold.
  set (st0 := subtop_state true x true cb sb now).
  assert (Hstop : forall l s r, fold_left F l (s, r, true) = (s, r, true)).
  { induction l as [|a l IH]; intros s r; cbn [fold_left]; [reflexivity|apply IH]. }
  assert (Hrun : forall l, fold_left F (map glb_of l) (st0, None, false) =
            if existsb (fun l0 => existsb (fun o => fst o =? fst l0) (sa_locks x)) l then (st0, Some None, true) else (st0, None, false)).
  { induction l as [|a l IH]; cbn [map fold_left existsb]; [reflexivity|].
    assert (HF : F (st0, None, false) (glb_of a) = if existsb (fun o => fst o =? fst a) (sa_locks x) then (st0, Some None, true) else (st0, None, false)).
    { unfold F. cbv beta iota. replace (S_subtop_Locks st0) with (map glb_of (sa_locks x)) by reflexivity.
      cbn [glb_of G_LockedBalance_UnlockTS]. rewrite existsb_glb. destruct (existsb (fun o => fst o =? fst a) (sa_locks x)); reflexivity. }
    rewrite HF. destruct (existsb (fun o => fst o =? fst a) (sa_locks x)); cbn [orb]; [apply Hstop|exact IH]. }
  rewrite Hrun. destruct (existsb (fun l0 => existsb (fun o => fst o =? fst l0) (sa_locks x)) locks); [reflexivity|].
  cbv iota beta. subst st0. unfold subtop_state.
  cbn [set_S_subtop_Summary set_S_subtop_Locks set_S_subtop_CreatorBal set_S_subtop_SubBal S_subtop_Exists S_subtop_Summary S_subtop_SummaryExists
       S_subtop_Locks S_subtop_CreatorBal S_subtop_SubBal S_subtop_Now].
  rewrite set_locks_glb. destruct (cb <? tot); reflexivity.
Qed.

Lemma lock_ok_sum_nonneg now locks tot : forallb (lock_ok now) locks = true -> sum_locks now locks = Some tot -> 0 <= tot.
Proof.
  unfold sum_locks. destruct (existsb (fun l => fst l <? now) locks); [discriminate|]. intros H E. injection E as <-.
  induction locks as [|a l IH]; cbn [map zsum]; [lia|]. cbn [forallb] in H. apply andb_true_iff in H. destruct H as [Ha Hl].
  unfold lock_ok in Ha. apply andb_true_iff in Ha. destruct Ha as [_ Ha]. apply negb_true_iff, Z.ltb_ge in Ha. specialize (IH Hl). lia.
Qed.

(* the model's sub_topup accepts exactly when the generated TopUp does on the state assembled from the chain state (gen_TopUp says that what
   the generated function stores is the model's new subaccount record and balances) *)
Lemma model_sub_topup s creator owner locks x :
  forallb (lock_ok (c_now s)) locks = true -> sub_by_owner (c_subs s) owner = Some x ->
  (sub_topup s creator owner locks = None <->
   K_subtop_TopUp (subtop_state true x true (bget (c_bank s) creator) (bget (c_bank s) (sub_addr x)) (c_now s)) (map glb_of locks) = None).
Proof.
  intros HL E. unfold sub_topup. rewrite HL, E, gen_TopUp. cbn [negb].
  destruct (sum_locks (c_now s) locks) as [tot|] eqn:ES; [|split; reflexivity].
  pose proof (lock_ok_sum_nonneg _ _ _ HL ES) as Hn.
  destruct (existsb (fun l => existsb (fun o => fst o =? fst l) (sa_locks x)) locks); [split; reflexivity|].
  unfold pay. replace (tot <? 0) with false by (symmetry; apply Z.ltb_ge; exact Hn).
  destruct (bget (c_bank s) creator <? tot); split; intros H; try reflexivity; discriminate.
Qed.

(* ---- x/subaccount/keeper/hooks.go: the four order-book hooks, generated as functions on (the account summary stored for the address and
   whether there is one, whether the owner record exists, the bank balances of the subaccount and of its owner); a panic is None.
   They are what the model's hook_sub does with the subaccount it finds: no subaccount - nothing happens; otherwise Unspend (and AddLoss
   for a loss), and for a win the guarded transfer of the profit to the owner ------------------------------------------------------------ *)
Definition hook_state (ex : bool) (x : subacc) (own : bool) (sb ob : Z) : S_subhook :=
  {| S_subhook_Summary := as_of x; S_subhook_Exists := ex; S_subhook_OwnerFound := own; S_subhook_SubBal := sb; S_subhook_OwnerBal := ob |}.

Lemma gen_AfterHouseWin ex x own sb ob liq profit :
  K_subhook_AfterHouseWin (hook_state ex x own sb ob) liq profit =
  if negb ex then Some (hook_state ex x own sb ob) else
  match sub_unspend x liq with
  | None => None
  | Some x' => if negb own then None else if sb <? profit then None else Some (hook_state ex x' own (sb - profit) (ob + profit))
  end.
Proof.
  unfold K_subhook_AfterHouseWin, hook_state. cbn [S_subhook_Summary S_subhook_Exists]. destruct ex; cbn [negb]; [|reflexivity].
  rewrite gen_Unspend. destruct (sub_unspend x liq) as [x'|]; cbn [option_map]; [|reflexivity].
  cbn [set_S_subhook_Summary set_S_subhook_SubBal set_S_subhook_OwnerBal S_subhook_Summary S_subhook_Exists S_subhook_OwnerFound S_subhook_SubBal S_subhook_OwnerBal].
  destruct own; cbn [negb]; [|reflexivity]. destruct (sb <? profit); reflexivity.
Qed.
Lemma gen_AfterHouseLoss ex x own sb ob liq lost :
  K_subhook_AfterHouseLoss (hook_state ex x own sb ob) liq lost =
  if negb ex then Some (hook_state ex x own sb ob) else
  match sub_unspend x liq with
  | None => None
  | Some y => match sub_addloss y lost with None => None | Some x' => Some (hook_state ex x' own sb ob) end
  end.
Proof.
  unfold K_subhook_AfterHouseLoss, hook_state. cbn [S_subhook_Summary S_subhook_Exists]. destruct ex; cbn [negb]; [|reflexivity].
  rewrite gen_Unspend. destruct (sub_unspend x liq) as [y|]; cbn [option_map]; [|reflexivity].
  rewrite gen_AddLoss. destruct (sub_addloss y lost) as [x'|]; cbn [option_map]; reflexivity.
Qed.
Lemma gen_AfterHouseRefund ex x own sb ob amt :
  K_subhook_AfterHouseRefund (hook_state ex x own sb ob) amt =
  if negb ex then Some (hook_state ex x own sb ob) else
  match sub_unspend x amt with None => None | Some x' => Some (hook_state ex x' own sb ob) end.
Proof.
  unfold K_subhook_AfterHouseRefund, hook_state. cbn [S_subhook_Summary S_subhook_Exists]. destruct ex; cbn [negb]; [|reflexivity].
  rewrite gen_Unspend. destruct (sub_unspend x amt) as [x'|]; cbn [option_map]; reflexivity.
Qed.
Lemma gen_AfterHouseFeeRefund ex x own sb ob fee :
  K_subhook_AfterHouseFeeRefund (hook_state ex x own sb ob) fee =
  if negb ex then Some (hook_state ex x own sb ob) else
  match sub_unspend x fee with None => None | Some x' => Some (hook_state ex x' own sb ob) end.
Proof.
  unfold K_subhook_AfterHouseFeeRefund, hook_state. cbn [S_subhook_Summary S_subhook_Exists]. destruct ex; cbn [negb]; [|reflexivity].
  rewrite gen_Unspend. destruct (sub_unspend x fee) as [x'|]; cbn [option_map]; reflexivity.
Qed.

(* the model's hook_sub, unfolded for a registered subaccount: the ledger function, then (for a non-zero amount) the guarded transfer of
   `pay` - the same two steps, with the same refusals, as the generated hooks above *)
Lemma hook_sub_found b subs a f fwd x : sub_by_addr subs a = Some x ->
  hook_sub b subs a f fwd =
  match f x with
  | None => None
  | Some x' => if fwd =? 0 then Some (b, set_sub subs x')
               else if fwd <? 0 then None else if bget b a <? fwd then None
               else Some (badd (badd b a (- fwd)) (sa_owner x) fwd, set_sub subs x')
  end.
Proof.
  intros E. unfold hook_sub. rewrite E. destruct (f x) as [x'|]; [|reflexivity]. destruct (fwd =? 0); [reflexivity|].
  unfold pay. destruct (fwd <? 0); [reflexivity|]. destruct (bget b a <? fwd); reflexivity.
Qed.
Lemma hook_sub_none b subs a f fwd : sub_by_addr subs a = None -> hook_sub b subs a f fwd = Some (b, subs).
Proof. intros E. unfold hook_sub. rewrite E. reflexivity. Qed.

(* Proofs/Tactics.v — small tactics shared by the proof files *)
From Coq Require Import ZArith Bool List Lia.

(* destruct every scrutinee in hypothesis H, closing the branches in which H is absurd *)
Ltac dmatch H :=
  repeat match type of H with
  | context [match ?x with _ => _ end] =>
      let E := fresh "E" in destruct x eqn:E; try discriminate H
  | context [if ?x then _ else _] =>
      let E := fresh "E" in destruct x eqn:E; try discriminate H
  end.

Ltac inv H := inversion H; subst; clear H.

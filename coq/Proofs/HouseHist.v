(* Proofs/HouseHist.v — C09 over every history: the deposit and withdrawal records of every market agree with its order book.
   For every deposit: its participation exists and belongs to the depositor; the withdrawal count is the number of recorded
   withdrawals of that participation and never exceeds the configured maximum; the withdrawn total is the sum of their amounts; and
   liquidity left + withdrawn total = deposited amount - participation fee.  Every withdrawal is a non-negative amount taken by the
   depositor's deposit.  Proved against the local transitions (Local.mtrans). *)
From Coq Require Import ZArith Bool List Lia.
From Sge Require Import Lib.Dec Model.Types Model.Orderbook Model.Mint Model.Chain
     Proofs.Tactics Proofs.WagerLoop Proofs.CustodyLocal Proofs.Custody Proofs.BookFacts Proofs.BookAPI Proofs.BookInv
     Proofs.WagerBounds Proofs.Local Proofs.BookHist Proofs.BookCover Proofs.CoverHist.
Import ListNotations.
Open Scope Z_scope.

Definition wds_of (pidx : Z) (ws : list withdrawal) : list withdrawal := filter (fun w => w_pidx w =? pidx) ws.
Definition dsig (p : part) : Z * Z * Z * Z := (p_idx p, p_owner p, p_liq p, p_fee p).

Record dep_ok (P : params) (x : mstate) (d : deposit) : Prop := {
  do_count : d_wcount d = zlen (wds_of (d_pidx d) (ms_wds x));
  do_max : d_wcount d <= zmax0 (pr_h_maxw P);
  do_total : d_wtotal d = zsum (map w_amount (wds_of (d_pidx d) (ms_wds x)));
  do_part : exists p, get_part (ms_book x) (d_pidx d) = Some p /\ p_owner p = d_depositor d /\
                      p_liq p + d_wtotal d = d_amount d - p_fee p }.

Record dinv (P : params) (x : mstate) : Prop := {
  di_deps : forall d, In d (ms_deps x) -> dep_ok P x d;
  di_nodup : NoDup (map d_pidx (ms_deps x));
  di_wds : forall w, In w (ms_wds x) -> 0 <= w_amount w /\ exists d, In d (ms_deps x) /\ d_pidx d = w_pidx w /\ d_depositor d = w_depositor w }.

(* ---- books that keep every participation's (index, owner, liquidity, fee) ------------------------------------------------------------ *)
Lemma find_part_dsig l l' i p : map dsig l' = map dsig l -> find (part_is i) l = Some p -> exists p', find (part_is i) l' = Some p' /\ dsig p' = dsig p.
Proof.
  revert l'. induction l as [|x r IH]; intros l' H Hf; [discriminate|]. destruct l' as [|y t]; [discriminate|].
  cbn [map] in H. pose proof (f_equal (hd (dsig x)) H) as H1. pose proof (f_equal (@tl _) H) as H2. cbn [hd tl] in H1, H2.
  cbn [find] in *. unfold part_is in *.
  assert (E : p_idx y = p_idx x) by (unfold dsig in H1; congruence). rewrite E.
  destruct (p_idx x =? i); [injection Hf as <-; exists y; split; [reflexivity|exact H1]|eapply IH; eassumption].
Qed.

Lemma dep_ok_same P x x' d : ms_wds x' = ms_wds x -> map dsig (bk_parts (ms_book x')) = map dsig (bk_parts (ms_book x)) ->
  dep_ok P x d -> dep_ok P x' d.
Proof.
  intros Hw Hs [D1 D2 D3 (p & G & O & L)]. constructor; rewrite ?Hw; try assumption.
  unfold get_part, findb in *. destruct (find_part_dsig _ _ _ _ Hs G) as (p' & G' & E). exists p'. split; [exact G'|].
  unfold dsig in E. injection E as E1 E2 E3 E4. split; congruence.
Qed.

Lemma dinv_same P x x' : ms_deps x' = ms_deps x -> ms_wds x' = ms_wds x ->
  map dsig (bk_parts (ms_book x')) = map dsig (bk_parts (ms_book x)) -> dinv P x -> dinv P x'.
Proof.
  intros Hd Hw Hs [D1 D2 D3]. constructor; rewrite ?Hd, ?Hw; try assumption.
  intros d Hd'. eapply dep_ok_same; [exact Hw|exact Hs|apply D1; exact Hd'].
Qed.

Lemma cproj_dsig l l' : map cproj l' = map cproj l -> map dsig l' = map dsig l.
Proof.
  intros H. replace (map dsig l') with (map (fun c : Z*Z*Z*Z*Z*bool => let '(i, o, lq, _, f, _) := c in (i, o, lq, f)) (map cproj l')) by (rewrite map_map; reflexivity).
  rewrite H, map_map. reflexivity.
Qed.

Lemma set_profit_dsig b p v : get_part b (p_idx p) = Some p -> map dsig (bk_parts (set_part b (part_set_profit p v))) = map dsig (bk_parts b).
Proof.
  intros Hg. unfold set_part. cbn [bk_parts book_upd]. apply (upd_map_first _ _ _ p); [exact Hg|reflexivity].
Qed.
Lemma bettor_wins_dsig fs : forall b bettor b' effs, bettor_wins b bettor fs = Some (b', effs) -> map dsig (bk_parts b') = map dsig (bk_parts b).
Proof.
  induction fs as [|f r IH]; intros b bettor b' effs H; cbn [bettor_wins] in H; [inv H; reflexivity|].
  destruct (get_part b (f_idx f)) as [p|] eqn:Eg; [|discriminate].
  destruct (bettor_wins _ bettor r) as [[b2 e2]|] eqn:EB; [|discriminate]. inv H.
  pose proof (gp_idx _ _ _ Eg) as Hi. rewrite <- Hi in Eg. rewrite (IH _ _ _ _ EB). apply (set_profit_dsig b p _ Eg).
Qed.
Lemma bettor_loses_dsig fs : forall b b', bettor_loses b fs = Some b' -> map dsig (bk_parts b') = map dsig (bk_parts b).
Proof.
  induction fs as [|f r IH]; intros b b' H; cbn [bettor_loses] in H; [inv H; reflexivity|].
  destruct (get_part b (f_idx f)) as [p|] eqn:Eg; [|discriminate].
  pose proof (gp_idx _ _ _ Eg) as Hi. rewrite <- Hi in Eg. rewrite (IH _ _ H). apply (set_profit_dsig b p _ Eg).
Qed.
Lemma batch_parts_dsig ps : forall st creator limit cnt alls c ps' effs,
  batch_parts ps st creator limit cnt = Some (alls, c, ps', effs) -> map dsig ps' = map dsig ps.
Proof.
  induction ps as [|p r IH]; intros st creator limit cnt alls c ps' effs H; cbn [batch_parts] in H; [inv H; reflexivity|].
  destruct (p_settled p).
  - destruct (limit <=? cnt); [inv H; reflexivity|].
    destruct (batch_parts r st creator limit cnt) as [[[[a2 c2] ps2] e2]|] eqn:EB; [|discriminate]. inv H. cbn [map]. f_equal. eapply IH; exact EB.
  - destruct (settle_participation p st creator) as [[p1 e1]|] eqn:ES; [|discriminate].
    assert (Hp1 : dsig p1 = dsig p) by (unfold settle_participation in ES; dmatch ES; inv ES; reflexivity).
    destruct (limit <=? cnt + 1); [inv H; cbn [map]; rewrite Hp1; reflexivity|].
    destruct (batch_parts r st creator limit (cnt + 1)) as [[[[a2 c2] ps2] e2]|] eqn:EB; [|discriminate]. inv H. cbn [map]. rewrite Hp1. f_equal. eapply IH; exact EB.
Qed.

From Sge Require Import Proofs.Mono.

(* ---- a withdrawal: what the new book reads ----------------------------------------------------------------------------------------------------- *)
Lemma withdraw_reads b idx amt b' effs :
  withdraw_participation b idx amt = Some (b', effs) ->
  exists p p', get_part b idx = Some p /\ get_part b' idx = Some p' /\
    dsig p' = (idx, p_owner p, p_liq p - amt, p_fee p) /\ (forall i, i <> idx -> get_part b' i = get_part b i).
Proof.
  unfold withdraw_participation. intros H. destruct (get_part b idx) as [p|] eqn:Eg; [|discriminate].
  pose proof (gp_idx _ _ _ Eg) as Hi.
  set (p' := part_upd p (p_liq p - amt) (p_crl p - amt) (p_enf p) (p_tba p) (p_crtb p) (p_maxloss p) (p_crml p) (p_crml_odds p) (p_profit p)) in *.
  exists p, p'. split; [reflexivity|].
  assert (G1 : get_part (set_part b p') idx = Some p') by (rewrite <- Hi; apply (gp_set_part_same b p')).
  assert (G2 : forall i, i <> idx -> get_part (set_part b p') i = get_part b i) by (intros i Hne; apply gp_set_part_other; cbn; rewrite Hi; exact Hne).
  assert (E : dsig p' = (idx, p_owner p, p_liq p - amt, p_fee p)) by (unfold dsig; cbn; rewrite Hi; reflexivity).
  destruct (0 <? p_crl p'); [injection H as <- _; repeat split; assumption|].
  destruct (remove_from_queues _ idx); [|discriminate]. injection H as <- _. repeat split; assumption.
Qed.

Lemma wds_of_app pidx a b : wds_of pidx (a ++ b) = wds_of pidx a ++ wds_of pidx b.
Proof. unfold wds_of. apply filter_app. Qed.

Lemma find_dep_is depositor pidx l d : findb (dep_is depositor pidx) l = Some d -> In d l /\ d_depositor d = depositor /\ d_pidx d = pidx.
Proof.
  unfold findb. intros H. apply find_some in H. destruct H as [Hin Hk]. unfold dep_is in Hk. apply andb_true_iff in Hk.
  destruct Hk as [K1 K2]. apply Z.eqb_eq in K1. apply Z.eqb_eq in K2. tauto.
Qed.

(* ---- every local transition ---------------------------------------------------------------------------------------------------------------------- *)
Theorem dinv_step P x x' : pr_bet_fee P <= pr_bet_min P -> mwf x -> dinv P x -> mtrans P x x' -> dinv P x'.
Proof.
  intros HP (Hnd & Hsm & W & Q) D T. destruct T.
  - eapply (dinv_same P x); [| | |exact D]; reflexivity.
  - eapply (dinv_same P x); [| | |exact D]; reflexivity.
  - (* deposit *)
    destruct (init_participation_reads (k_odds (ms_mkt x)) _ _ _ _ _ _ _ _ H3 Hnd W) as (Hnone & p & Hparts & Hsig & Hfee & _ & _ & _ & Hgp & Hgpi).
    unfold psig in Hsig. injection Hsig as S1 S2 S3 _ _ _ _ _.
    destruct D as [D1 D2 D3].
    assert (Hfresh : forall d, In d (ms_deps x) -> d_pidx d <> idx).
    { intros d Hd E. destruct (do_part _ _ _ (D1 d Hd)) as (q & G & _). rewrite E, Hnone in G. discriminate. }
    assert (Hnow : wds_of idx (ms_wds x) = []).
    { unfold wds_of. destruct (filter _ (ms_wds x)) as [|w r] eqn:E; [reflexivity|]. exfalso.
      assert (Hin : In w (filter (fun w => w_pidx w =? idx) (ms_wds x))) by (rewrite E; left; reflexivity).
      apply filter_In in Hin. destruct Hin as [Hin Hp]. apply Z.eqb_eq in Hp. destruct (D3 w Hin) as (_ & d & Hd & Ed & _).
      apply (Hfresh d Hd). congruence. }
    constructor; cbn [ms_deps ms_wds ms_book mstate_upd].
    + intros d Hd. apply in_app_or in Hd. destruct Hd as [Hd|[<-|[]]].
      * destruct (D1 d Hd) as [X1 X2 X3 (q & G & O & L)]. constructor; cbn [ms_wds ms_book mstate_upd]; try assumption.
        exists q. rewrite Hgp by (apply Hfresh; exact Hd). tauto.
      * constructor; cbn [ms_wds ms_book mstate_upd d_pidx d_wcount d_wtotal d_amount d_depositor].
        -- rewrite Hnow. reflexivity.
        -- unfold zmax0. lia.
        -- rewrite Hnow. reflexivity.
        -- exists p. split; [exact Hgpi|]. split; [exact S2|]. rewrite S3, Hfee. lia.
    + rewrite map_app. cbn [map d_pidx]. apply NoDup_snoc; [exact D2|]. intros Hin. apply in_map_iff in Hin. destruct Hin as (d & E & Hd).
      exact (Hfresh d Hd E).
    + intros w Hw. destruct (D3 w Hw) as (X & d & Hd & Y). split; [exact X|]. exists d. split; [apply in_or_app; left; exact Hd|exact Y].
  - (* withdrawal *)
    destruct (find_dep_is _ _ _ _ H) as (Hind & Hdep & Hpid).
    destruct (withdraw_reads _ _ _ _ _ H3) as (p & p' & G & G' & Es & Goth).
    destruct D as [D1 D2 D3].
    set (d' := {| d_creator := d_creator d; d_depositor := d_depositor d; d_mkt := d_mkt d; d_pidx := d_pidx d; d_amount := d_amount d;
                  d_wcount := d_wcount d + 1; d_wtotal := d_wtotal d + amt |}) in *.
    set (w := {| w_id := d_wcount d + 1; w_creator := signer; w_depositor := depositor; w_mkt := dmkt; w_pidx := pidx; w_mode := mode; w_amount := amt |}) in *.
    assert (Hmap : map d_pidx (upd (dep_is depositor pidx) d' (ms_deps x)) = map d_pidx (ms_deps x)) by (apply (upd_map_first _ _ _ d); [exact H|reflexivity]).
    assert (Hnd' : NoDup (map d_pidx (upd (dep_is depositor pidx) d' (ms_deps x)))) by (rewrite Hmap; exact D2).
    constructor; cbn [ms_deps ms_wds ms_book mstate_upd].
    + intros d2 Hd2. destruct (Z.eq_dec (d_pidx d2) pidx) as [E|Hne].
      * assert (d2 = d') by (apply (NoDup_map_inj d_pidx _ d2 d' Hnd' Hd2 (in_upd_new _ _ _)); cbn; congruence). subst d2.
        destruct (D1 d Hind) as [X1 X2 X3 (q & Gq & O & L)]. rewrite Hpid, G in Gq. injection Gq as <-.
        constructor; cbn [ms_wds ms_book mstate_upd d_pidx d_wcount d_wtotal d_amount d_depositor d'].
        -- rewrite Hpid, wds_of_app. unfold wds_of at 2. cbn [filter w_pidx w]. rewrite Z.eqb_refl. rewrite <- Hpid.
           unfold zlen in *. rewrite app_length. cbn [length]. rewrite X1. unfold zlen. lia.
        -- unfold zmax0 in *. lia.
        -- rewrite Hpid, wds_of_app. unfold wds_of at 2. cbn [filter w_pidx w]. rewrite Z.eqb_refl. rewrite map_app, zsum_app. cbn [map zsum w_amount w].
           rewrite <- Hpid, X3. lia.
        -- exists p'. rewrite Hpid. split; [exact G'|]. unfold dsig in Es. injection Es as E1 E2 E3 E4. split; [congruence|]. rewrite E3, E4. lia.
      * assert (Hin2 : In d2 (ms_deps x)). { apply in_upd in Hd2. destruct Hd2 as [->|Hd2]; [exfalso; apply Hne; cbn; exact Hpid|exact Hd2]. }
        destruct (D1 d2 Hin2) as [X1 X2 X3 (q & Gq & O & L)].
        assert (Hw2 : wds_of (d_pidx d2) (ms_wds x ++ [w]) = wds_of (d_pidx d2) (ms_wds x)).
        { rewrite wds_of_app. unfold wds_of at 2. cbn [filter w_pidx w]. apply Z.eqb_neq in Hne. rewrite Z.eqb_sym, Hne. apply app_nil_r. }
        constructor; cbn [ms_wds ms_book mstate_upd]; rewrite ?Hw2; try assumption.
        exists q. rewrite Goth by exact Hne. tauto.
    + exact Hnd'.
    + intros w2 Hw2. apply in_app_or in Hw2. destruct Hw2 as [Hw2|[<-|[]]].
      * destruct (D3 w2 Hw2) as (X & d2 & Hd2 & E1 & E2). split; [exact X|].
        destruct (Z.eq_dec (d_pidx d2) pidx) as [E|Hne].
        -- assert (d2 = d) by (apply (NoDup_map_inj d_pidx _ d2 d D2 Hd2 Hind); congruence). subst d2.
           exists d'. split; [apply in_upd_new|]. cbn. split; assumption.
        -- exists d2. split; [|split; assumption]. eapply in_upd_other; [exact H|exact Hd2|]. intros ->. apply Hne. exact Hpid.
      * cbn [w_amount w_pidx w_depositor w]. split; [assumption|]. exists d'. split; [apply in_upd_new|]. cbn. split; assumption.
  - (* wager *)
    assert (Hpr : 0 <= profit) by (eapply payout_profit_nonneg; [eassumption|lia]).
    eapply (dinv_same P x); [reflexivity|reflexivity| |exact D]. cbn [ms_book mstate_upd]. apply cproj_dsig.
    eapply process_wager_cproj; [eassumption|].
    intros c1 c2 H1' H2' E. apply in_map_iff in H1'. destruct H1' as (q1 & <- & I1). apply in_map_iff in H2'. destruct H2' as (q2 & <- & I2).
    rewrite !cidx_cproj in E. rewrite (NoDup_map_inj p_idx _ q1 q2 (bw_nodup _ _ W) I1 I2 E). reflexivity.
  - (* settlement of one bet *)
    unfold settle_bet in H1. cbv zeta in H1.
    destruct (findb _ (ms_bets x)) as [b|]; [|discriminate].
    destruct (b_status b =? BS_SETTLED); [discriminate|].
    destruct ((k_status (ms_mkt x) =? MK_ABORTED) || (k_status (ms_mkt x) =? MK_CANCELED)).
    + destruct (payout_profit _ _); [|discriminate]. injection H1 as <- _. eapply (dinv_same P x); [| | |exact D]; reflexivity.
    + destruct (negb (k_status (ms_mkt x) =? MK_DECLARED)); [discriminate|].
      destruct (zmem (b_odds b) (k_winners (ms_mkt x))).
      * destruct (bettor_wins _ _ _) as [[bk effs0]|] eqn:EB; [|discriminate]. injection H1 as <- _.
        eapply (dinv_same P x); [reflexivity|reflexivity| |exact D]. cbn [ms_book mstate_upd]. eapply bettor_wins_dsig; exact EB.
      * destruct (bettor_loses _ _) as [bk|] eqn:EB; [|discriminate]. injection H1 as <- _.
        eapply (dinv_same P x); [reflexivity|reflexivity| |exact D]. cbn [ms_book mstate_upd]. eapply bettor_loses_dsig; exact EB.
  - eapply (dinv_same P x); [| | |exact D]; reflexivity.
  - eapply (dinv_same P x); [reflexivity|reflexivity| |exact D]. cbn [ms_book with_book mstate_upd bk_parts book_upd]. eapply batch_parts_dsig; exact H0.
Qed.

Lemma dinv_fresh P mk : dinv P (fresh_ms mk).
Proof. constructor; cbn; [intros d []|constructor|intros w []]. Qed.

(* both invariants together (the record invariant needs the book's well-formedness at each step) *)
Theorem house_records_over_histories P bk supply vault MP t0 sw sd ops :
  pr_bet_fee P <= pr_bet_min P ->
  bget bk POOL = 0 -> bget bk HOUSEFEE = 0 -> bget bk BETFEE = 0 -> Forall valid_op ops ->
  forall m x, get_ms (run (init bk supply P vault MP t0 sw sd) ops) m = Some x -> dinv P x.
Proof.
  intros HP B1 B2 B3 Hv m x Hg.
  assert (H : mwf x /\ dinv P x); [|exact (proj2 H)].
  revert m x Hg. apply (local_invariant P (fun x => mwf x /\ dinv P x)); try assumption.
  - intros mk Hmk. split; [apply mwf_fresh; exact Hmk|apply dinv_fresh].
  - intros x x' [Hw Hd] T. split; [exact (mwf_step P x x' HP Hw T)|exact (dinv_step P x x' HP Hw Hd T)].
Qed.

Theorem house_records_spelled : forall P bk supply vault MP t0 sw sd ops,
  pr_bet_fee P <= pr_bet_min P ->
  bget bk POOL = 0 -> bget bk HOUSEFEE = 0 -> bget bk BETFEE = 0 -> Forall valid_op ops ->
  forall m x, get_ms (run (init bk supply P vault MP t0 sw sd) ops) m = Some x ->
  (forall d, In d (ms_deps x) ->
     d_wcount d = zlen (wds_of (d_pidx d) (ms_wds x)) /\ d_wcount d <= zmax0 (pr_h_maxw P) /\
     d_wtotal d = zsum (map w_amount (wds_of (d_pidx d) (ms_wds x))) /\
     exists p, get_part (ms_book x) (d_pidx d) = Some p /\ p_owner p = d_depositor d /\ p_liq p + d_wtotal d = d_amount d - p_fee p) /\
  NoDup (map d_pidx (ms_deps x)) /\
  (forall w, In w (ms_wds x) -> 0 <= w_amount w /\ exists d, In d (ms_deps x) /\ d_pidx d = w_pidx w /\ d_depositor d = w_depositor w).
Proof.
  intros P bk supply vault MP t0 sw sd ops HP B1 B2 B3 Hv m x Hg.
  destruct (house_records_over_histories P bk supply vault MP t0 sw sd ops HP B1 B2 B3 Hv m x Hg) as [D1 D2 D3].
  split; [|split; assumption]. intros d Hd. destruct (D1 d Hd) as [X1 X2 X3 X4]. repeat split; assumption.
Qed.

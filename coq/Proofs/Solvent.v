(* Proofs/Solvent.v — what a market holds in custody covers everything its settlement will pay (C02/C04/C05): from the settlement
   readiness invariant (Settle.v) and the coverage invariant (CoverHist.v).  All statements are about one market record. *)
From Coq Require Import ZArith Bool List Lia.
From Sge Require Import Lib.Dec Model.Types Model.Orderbook Model.Mint Model.Chain Proofs.Tactics Proofs.CustodyLocal Proofs.Custody
     Proofs.BookFacts Proofs.BookAPI Proofs.BookInv Proofs.Local Proofs.BookHist Proofs.BookCover Proofs.CoverHist Proofs.Settle.
Import ListNotations.
Open Scope Z_scope.

(* ---- sums ------------------------------------------------------------------------------------------------------------------------------ *)
Lemma zsum_map_add {A} (f g : A -> Z) l : zsum (map (fun a => f a + g a) l) = zsum (map f l) + zsum (map g l).
Proof. induction l as [|a r IH]; cbn [map zsum]; [reflexivity|]. rewrite IH. lia. Qed.
Lemma zsum_map_ext {A} (f g : A -> Z) l : (forall a, In a l -> f a = g a) -> zsum (map f l) = zsum (map g l).
Proof. induction l as [|a r IH]; intros H; cbn [map zsum]; [reflexivity|]. rewrite (H a (or_introl eq_refl)), IH; [reflexivity|]. intros b Hb. apply H. right. exact Hb. Qed.
Lemma zsum_map_zero {A} (f : A -> Z) l : (forall a, In a l -> f a = 0) -> zsum (map f l) = 0.
Proof. induction l as [|a r IH]; intros H; cbn [map zsum]; [reflexivity|]. rewrite (H a (or_introl eq_refl)), IH; [reflexivity|]. intros b Hb. apply H. right. exact Hb. Qed.
Lemma zsum_map_nonneg {A} (f : A -> Z) l : (forall a, In a l -> 0 <= f a) -> 0 <= zsum (map f l).
Proof. induction l as [|a r IH]; intros H; cbn [map zsum]; [lia|]. pose proof (H a (or_introl eq_refl)). assert (0 <= zsum (map f r)) by (apply IH; intros b Hb; apply H; right; exact Hb). lia. Qed.
Lemma zsum_term_le {A} (f : A -> Z) l a : (forall b, In b l -> 0 <= f b) -> In a l -> f a <= zsum (map f l).
Proof.
  induction l as [|c r IH]; intros H Ha; [destruct Ha|]. cbn [map zsum]. pose proof (H c (or_introl eq_refl)).
  assert (0 <= zsum (map f r)) by (apply zsum_map_nonneg; intros b Hb; apply H; right; exact Hb).
  destruct Ha as [->|Ha]; [lia|]. assert (f a <= zsum (map f r)) by (apply IH; [intros b Hb; apply H; right; exact Hb|exact Ha]). lia.
Qed.
Lemma zsum_map_le {A} (f g : A -> Z) l : (forall a, In a l -> f a <= g a) -> zsum (map f l) <= zsum (map g l).
Proof. induction l as [|a r IH]; intros H; cbn [map zsum]; [lia|]. pose proof (H a (or_introl eq_refl)). assert (zsum (map f r) <= zsum (map g r)) by (apply IH; intros b Hb; apply H; right; exact Hb). lia. Qed.

(* a quantity attached to one participation index, summed over the participations, is the quantity *)
Lemma sum_point (ps : list part) (i v : Z) : NoDup (map p_idx ps) -> In i (map p_idx ps) ->
  zsum (map (fun p => if i =? p_idx p then v else 0) ps) = v.
Proof.
  induction ps as [|p r IH]; cbn [map zsum]; intros Hnd Hin; [destruct Hin|]. inversion Hnd as [|? ? Hni Hnd']; subst.
  destruct (Z.eqb_spec i (p_idx p)) as [E|E].
  - rewrite zsum_map_zero; [lia|]. intros q Hq. destruct (Z.eqb_spec i (p_idx q)) as [E2|]; [|reflexivity].
    exfalso. apply Hni. rewrite <- E, E2. apply in_map. exact Hq.
  - destruct Hin as [Hin|Hin]; [exfalso; apply E; symmetry; exact Hin|]. rewrite (IH Hnd' Hin). lia.
Qed.

Definition sel (g : bpart -> Z) (i : Z) (fs : list bpart) : Z := zsum (map g (parts_i i fs)).
Lemma sel_cons g i f r : sel g i (f :: r) = (if f_idx f =? i then g f else 0) + sel g i r.
Proof. unfold sel, parts_i. cbn [filter]. destruct (f_idx f =? i); cbn [map zsum]; lia. Qed.

Lemma exchange (g : bpart -> Z) ps fs : NoDup (map p_idx ps) -> (forall f, In f fs -> In (f_idx f) (map p_idx ps)) ->
  zsum (map g fs) = zsum (map (fun p => sel g (p_idx p) fs) ps).
Proof.
  intros Hnd. induction fs as [|f r IH]; intros Hin.
  - cbn [map zsum]. symmetry. apply zsum_map_zero. intros p _. reflexivity.
  - cbn [map zsum]. rewrite (zsum_map_ext _ (fun p => (if f_idx f =? p_idx p then g f else 0) + sel g (p_idx p) r)) by (intros p _; apply sel_cons).
    rewrite zsum_map_add, (sum_point ps (f_idx f) (g f) Hnd (Hin f (or_introl eq_refl))), IH; [reflexivity|].
    intros h Hh. apply Hin. right. exact Hh.
Qed.

(* ---- contributions over all bets against the coverage theorem -------------------------------------------------------------------------------- *)
Definition ctot (i w : Z) (bets : list bet) : Z := zsum (map (contrib i w) bets).
Definition bo (b : bet) : Z * list bpart := (b_odds b, b_parts b).

Lemma ctot_eq i w bets : ctot i w bets = stake_i i (map bo bets) - stake_io i w (map bo bets) - pay_io i w (map bo bets).
Proof.
  unfold ctot, stake_i, stake_io, pay_io. induction bets as [|b r IH]; cbn [map zsum]; [reflexivity|]. rewrite IH.
  unfold contrib. cbn [bo fst snd]. destruct (b_odds b =? w); lia.
Qed.

Lemma ctot_cover x p w : mcov x -> In p (bk_parts (ms_book x)) -> In w (k_odds (ms_mkt x)) -> 0 <= p_liq p + ctot (p_idx p) w (ms_bets x).
Proof.
  intros MC Hp Hw. pose proof (coverage_of_mcov x p w MC Hp Hw) as H. rewrite ctot_eq. fold (bets_of x) in *.
  change (map bo (ms_bets x)) with (bets_of x). lia.
Qed.

(* settled part + open part of the contributions *)
Definition copen (i w : Z) (b : bet) : Z := if is_settled b then 0 else contrib i w b.
Lemma attr_open i w bets : attr i w bets + zsum (map (copen i w) bets) = ctot i w bets.
Proof.
  unfold attr, ctot, copen. induction bets as [|b r IH]; cbn [map zsum]; [reflexivity|]. destruct (is_settled b); lia.
Qed.

(* ---- what the open bets of a declared market still need from the pool -------------------------------------------------------------------------- *)
Definition need_b (w : Z) (b : bet) : Z :=
  if is_settled b then 0 else if b_odds b =? w then zsum (map f_pay (b_parts b)) + zsum (map f_stake (b_parts b)) else 0.

Lemma open_exchange ps w b : NoDup (map p_idx ps) -> (forall f, In f (b_parts b) -> In (f_idx f) (map p_idx ps)) ->
  b_amount b = zsum (map f_stake (b_parts b)) ->
  bet_open_amt b - need_b w b = zsum (map (fun p => copen (p_idx p) w b) ps).
Proof.
  intros Hnd Hin Ha. unfold bet_open_amt, need_b, copen, is_settled. destruct (b_status b =? BS_SETTLED).
  - symmetry. rewrite zsum_map_zero; [lia|reflexivity].
  - unfold contrib. destruct (b_odds b =? w).
    + rewrite Ha. rewrite (zsum_map_ext _ (fun p => - sel f_pay (p_idx p) (b_parts b))) by reflexivity.
      rewrite (exchange f_pay ps (b_parts b) Hnd Hin).
      assert (X : forall l, zsum (map (fun p : part => - sel f_pay (p_idx p) (b_parts b)) l) = - zsum (map (fun p => sel f_pay (p_idx p) (b_parts b)) l)).
      { induction l as [|q r IH]; cbn [map zsum]; [reflexivity|]. rewrite IH. lia. }
      rewrite X. lia.
    + rewrite Ha, (exchange f_stake ps (b_parts b) Hnd Hin). unfold sel, stk. lia.
Qed.

Lemma opens_exchange ps w bets : NoDup (map p_idx ps) ->
  (forall b, In b bets -> (forall f, In f (b_parts b) -> In (f_idx f) (map p_idx ps)) /\ b_amount b = zsum (map f_stake (b_parts b))) ->
  zsum (map bet_open_amt bets) - zsum (map (need_b w) bets) = zsum (map (fun p => zsum (map (copen (p_idx p) w) bets)) ps).
Proof.
  intros Hnd. induction bets as [|b r IH]; intros H.
  - cbn [map zsum]. rewrite zsum_map_zero; [lia|reflexivity].
  - cbn [map zsum]. destruct (H b (or_introl eq_refl)) as [H1 H2].
    rewrite zsum_map_add, <- (open_exchange ps w b Hnd H1 H2), <- IH; [lia|]. intros c Hc. apply H. right. exact Hc.
Qed.

Lemma refs_idx b fs : refs b fs -> forall f, In f fs -> In (f_idx f) (map p_idx (bk_parts b)).
Proof.
  intros R f Hf. destruct (R f Hf) as (p & Hg & _). apply get_part_in in Hg. destruct Hg as [Hin Hi]. rewrite <- Hi. apply in_map. exact Hin.
Qed.

(* a declared market whose bets are being settled: custody minus what the open winning bets will take is the sum, over the
   participations, of liquidity + contributions of ALL bets; each term is non-negative by the coverage theorem *)
Theorem declared_solvent x w : msett x -> k_status (ms_mkt x) = MK_DECLARED -> k_winners (ms_mkt x) = [w] -> In w (k_odds (ms_mkt x)) ->
  bk_status (ms_book x) = BK_ACTIVE ->
  owed_pool x - zsum (map (need_b w) (ms_bets x)) = zsum (map (fun p => p_liq p + ctot (p_idx p) w (ms_bets x)) (bk_parts (ms_book x))) /\
  forall p, In p (bk_parts (ms_book x)) -> 0 <= p_liq p + ctot (p_idx p) w (ms_bets x).
Proof.
  intros S Hd Hw Hwin Hact. destruct S as [MC SS SA ST SD SW SP SB].
  split; [|intros p Hp; apply ctot_cover; assumption].
  pose proof MC as MC0. destruct MC0 as [(Hnd & Hsm & W & Q) MN MO MR MCI].
  unfold owed_pool, open_amt. rewrite pool_parts_eq.
  rewrite (zsum_map_ext part_pool (fun p => p_liq p + attr (p_idx p) w (ms_bets x))).
  2:{ intros p Hp. unfold part_pool. rewrite (ST Hact p Hp). rewrite (po_profit _ _ (SP p Hp)). unfold exp_profit, winner. rewrite Hd, Hw. reflexivity. }
  assert (E : zsum (map bet_open_amt (ms_bets x)) - zsum (map (need_b w) (ms_bets x)) =
              zsum (map (fun p => zsum (map (copen (p_idx p) w) (ms_bets x))) (bk_parts (ms_book x)))).
  { apply opens_exchange; [apply (bw_nodup _ _ W)|]. intros b Hb. split; [|apply (bo_amount _ (SB b Hb))].
    apply refs_idx. apply (MR (bo b)). unfold bets_of. apply in_map_iff. exists b. split; [reflexivity|exact Hb]. }
  rewrite (zsum_map_ext (fun p => p_liq p + ctot (p_idx p) w (ms_bets x)) (fun p => (p_liq p + attr (p_idx p) w (ms_bets x)) + zsum (map (copen (p_idx p) w) (ms_bets x)))).
  2:{ intros p _. rewrite <- attr_open. lia. }
  rewrite !zsum_map_add. lia.
Qed.

(* ---- consequences used by the no-abort proof ------------------------------------------------------------------------------------------------- *)
Definition bets_closed (x : mstate) : Prop := bk_status (ms_book x) <> BK_ACTIVE -> forall b, In b (ms_bets x) -> is_settled b = true.

Lemma need_nonneg x w b : msett x -> In b (ms_bets x) -> 0 <= need_b w b.
Proof.
  intros S Hb. unfold need_b. destruct (is_settled b); [lia|]. destruct (b_odds b =? w); [|lia].
  pose proof (se_bets _ S b Hb) as [_ _ _ B4].
  assert (0 <= zsum (map f_pay (b_parts b))) by (apply zsum_map_nonneg; intros f Hf; apply (B4 f Hf)).
  assert (0 <= zsum (map f_stake (b_parts b))) by (apply zsum_map_nonneg; intros f Hf; apply (B4 f Hf)). lia.
Qed.

Lemma open_amt_nonneg x : msett x -> forall b, In b (ms_bets x) -> 0 <= bet_open_amt b.
Proof.
  intros S b Hb. unfold bet_open_amt. destruct (b_status b =? BS_SETTLED); [lia|]. pose proof (se_bets _ S b Hb) as [_ _ B3 B4].
  rewrite B3. apply zsum_map_nonneg. intros f Hf. apply (B4 f Hf).
Qed.
Lemma open_fee_nonneg x : msett x -> forall b, In b (ms_bets x) -> 0 <= bet_open_fee b.
Proof. intros S b Hb. unfold bet_open_fee. destruct (b_status b =? BS_SETTLED); [lia|]. apply (bo_fee _ (se_bets _ S b Hb)). Qed.

(* what an unsettled participation gets back is never negative once all bets are settled *)
Lemma part_pool_closed x p : msett x -> bets_closed x -> bk_status (ms_book x) <> BK_ACTIVE -> In p (bk_parts (ms_book x)) -> 0 <= part_pool p.
Proof.
  intros S C Hna Hp. unfold part_pool. destruct (p_settled p); [lia|].
  pose proof (se_parts _ S p Hp) as [K1 K2 K3 K4]. rewrite K4. unfold exp_profit.
  destruct (Z.eqb_spec (k_status (ms_mkt x)) MK_DECLARED) as [Hd|Hd]; [|lia].
  destruct (se_decl _ S Hd) as (w & Hw & Hwin). unfold winner. rewrite Hw. cbn [hd].
  pose proof (attr_open (p_idx p) w (ms_bets x)) as E.
  rewrite (zsum_map_zero (copen (p_idx p) w)) in E by (intros b Hb; unfold copen; rewrite (C Hna b Hb); reflexivity).
  pose proof (ctot_cover x p w (se_cov _ S) Hp Hwin). lia.
Qed.

(* a market never owes a negative amount from any of the three custody accounts *)
Theorem owed_nonneg x : msett x -> bets_closed x -> 0 <= owed_pool x /\ 0 <= owed_hfee x /\ 0 <= owed_bfee x.
Proof.
  intros S C. split; [|split].
  - destruct (Z.eq_dec (bk_status (ms_book x)) BK_ACTIVE) as [Hact|Hna].
    + destruct (Z.eq_dec (k_status (ms_mkt x)) MK_DECLARED) as [Hd|Hd].
      * destruct (se_decl _ S Hd) as (w & Hw & Hwin). destruct (declared_solvent x w S Hd Hw Hwin Hact) as [E N].
        assert (0 <= zsum (map (need_b w) (ms_bets x))) by (apply zsum_map_nonneg; intros b Hb; eapply need_nonneg; eassumption).
        assert (0 <= zsum (map (fun p => p_liq p + ctot (p_idx p) w (ms_bets x)) (bk_parts (ms_book x)))) by (apply zsum_map_nonneg; exact N). lia.
      * unfold owed_pool, open_amt. rewrite pool_parts_eq.
        assert (0 <= zsum (map part_pool (bk_parts (ms_book x)))).
        { apply zsum_map_nonneg. intros p Hp. unfold part_pool. rewrite (se_act _ S Hact p Hp). pose proof (se_parts _ S p Hp) as [K1 K2 K3 K4].
          rewrite K4, exp_profit_nd by exact Hd. lia. }
        assert (0 <= zsum (map bet_open_amt (ms_bets x))) by (apply zsum_map_nonneg; apply open_amt_nonneg; exact S). lia.
    + unfold owed_pool, open_amt. rewrite pool_parts_eq.
      assert (0 <= zsum (map part_pool (bk_parts (ms_book x)))) by (apply zsum_map_nonneg; intros p Hp; eapply part_pool_closed; eassumption).
      assert (0 <= zsum (map bet_open_amt (ms_bets x))) by (apply zsum_map_nonneg; apply open_amt_nonneg; exact S). lia.
  - unfold owed_hfee. rewrite fee_parts_eq. apply zsum_map_nonneg. intros p Hp. unfold part_fee. destruct (p_settled p); [lia|]. apply (po_fee _ _ (se_parts _ S p Hp)).
  - unfold owed_bfee, open_fee. apply zsum_map_nonneg. apply open_fee_nonneg. exact S.
Qed.

(* the open bet b of a market whose bets are being settled: what its settlement takes from the pool and from the bet-fee account is there *)
Theorem bet_payable x b : msett x -> status_res (k_status (ms_mkt x)) -> bk_status (ms_book x) = BK_ACTIVE ->
  In b (ms_bets x) -> is_settled b = false ->
  0 <= b_fee b <= owed_bfee x /\ 0 <= b_amount b /\
  (k_status (ms_mkt x) <> MK_DECLARED -> b_amount b <= owed_pool x) /\
  (k_status (ms_mkt x) = MK_DECLARED -> zmem (b_odds b) (k_winners (ms_mkt x)) = true ->
     zsum (map f_pay (b_parts b)) + zsum (map f_stake (b_parts b)) <= owed_pool x).
Proof.
  intros S Hres Hact Hb Hs. pose proof (se_bets _ S b Hb) as [B1 B2 B3 B4].
  assert (Hst : b_status b =? BS_SETTLED = false) by exact Hs.
  split; [|split; [|split]].
  - split; [exact B2|]. unfold owed_bfee, open_fee.
    assert (bet_open_fee b <= zsum (map bet_open_fee (ms_bets x))) by (apply zsum_term_le; [apply open_fee_nonneg; exact S|exact Hb]).
    unfold bet_open_fee at 1 in H. rewrite Hst in H. exact H.
  - rewrite B3. apply zsum_map_nonneg. intros f Hf. apply (B4 f Hf).
  - intros Hd. unfold owed_pool, open_amt. rewrite pool_parts_eq.
    assert (0 <= zsum (map part_pool (bk_parts (ms_book x)))).
    { apply zsum_map_nonneg. intros p Hp. unfold part_pool. rewrite (se_act _ S Hact p Hp). pose proof (se_parts _ S p Hp) as [K1 K2 K3 K4].
      rewrite K4, exp_profit_nd by exact Hd. lia. }
    assert (bet_open_amt b <= zsum (map bet_open_amt (ms_bets x))) by (apply zsum_term_le; [apply open_amt_nonneg; exact S|exact Hb]).
    unfold bet_open_amt at 1 in H0. rewrite Hst in H0. lia.
  - intros Hd Hz. destruct (se_decl _ S Hd) as (w & Hw & Hwin). destruct (declared_solvent x w S Hd Hw Hwin Hact) as [E N].
    assert (Eo : b_odds b = w). { rewrite Hw in Hz. unfold zmem in Hz. cbn in Hz. rewrite orb_false_r in Hz. apply Z.eqb_eq in Hz. exact Hz. }
    assert (need_b w b <= zsum (map (need_b w) (ms_bets x))) by (apply zsum_term_le; [intros c Hc; eapply need_nonneg; eassumption|exact Hb]).
    unfold need_b at 1 in H. rewrite Hs, Eo, Z.eqb_refl in H.
    assert (0 <= zsum (map (fun p => p_liq p + ctot (p_idx p) w (ms_bets x)) (bk_parts (ms_book x)))) by (apply zsum_map_nonneg; exact N). lia.
Qed.

(* C04: once every bet of a declared market is settled, what an unsettled participation gets back is its remaining liquidity plus the
   stakes of the losing bets it backed minus the winnings of the winning bets it backed, and that is never negative *)
Theorem payout_formula x p w : msett x -> bets_closed x -> bk_status (ms_book x) <> BK_ACTIVE ->
  k_status (ms_mkt x) = MK_DECLARED -> k_winners (ms_mkt x) = [w] -> In p (bk_parts (ms_book x)) ->
  p_liq p + p_profit p =
    p_liq p + (stake_i (p_idx p) (bets_of x) - stake_io (p_idx p) w (bets_of x)) - pay_io (p_idx p) w (bets_of x) /\
  0 <= p_liq p + p_profit p.
Proof.
  intros S C Hna Hd Hw Hp. pose proof (se_parts _ S p Hp) as [K1 K2 K3 K4].
  destruct (se_decl _ S Hd) as (w' & Hw' & Hwin). rewrite Hw in Hw'. injection Hw' as <-.
  assert (E : p_profit p = ctot (p_idx p) w (ms_bets x)).
  { rewrite K4. unfold exp_profit, winner. rewrite Hd, Hw. cbn [hd]. change (MK_DECLARED =? MK_DECLARED) with true. cbv iota.
    pose proof (attr_open (p_idx p) w (ms_bets x)) as A.
    rewrite (zsum_map_zero (copen (p_idx p) w)) in A by (intros b Hb; unfold copen; rewrite (C Hna b Hb); reflexivity). lia. }
  split.
  - rewrite E, ctot_eq. change (map bo (ms_bets x)) with (bets_of x). lia.
  - rewrite E. apply ctot_cover; [apply (se_cov _ S)|exact Hp|exact Hwin].
Qed.

(* Proofs/Lifecycle.v — C07 over every history: a market has at least two distinct outcomes from its creation on, a declared winner is
   one of them, and every settled bet carries the result that the market's (final) resolution gives to its outcome. *)
From Coq Require Import ZArith Bool List Lia.
From Sge Require Import Lib.Dec Model.Types Model.Orderbook Model.Mint Model.Chain Proofs.Tactics Proofs.CustodyLocal Proofs.Custody
     Proofs.Mono Proofs.Local Proofs.Settle Proofs.SubLock Proofs.NoAbort.
Import ListNotations.
Open Scope Z_scope.

(* the result a settled bet must carry under the market's resolution *)
Definition result_of (mk : market) (b : bet) : Z :=
  if (k_status mk =? MK_ABORTED) || (k_status mk =? MK_CANCELED) then BR_REFUNDED
  else if zmem (b_odds b) (k_winners mk) then BR_WON else BR_LOST.

Record life (x : mstate) : Prop := {
  lf_two : 2 <= zlen (k_odds (ms_mkt x));
  lf_distinct : zdistinct (k_odds (ms_mkt x)) = true;
  lf_nonneg : forallb (fun o => 0 <=? o) (k_odds (ms_mkt x)) = true;
  lf_results : forall b, In b (ms_bets x) -> is_settled b = true ->
     status_res (k_status (ms_mkt x)) /\ b_result b = result_of (ms_mkt x) b }.

Lemma life_fresh mk : market_new mk -> life (fresh_ms mk).
Proof. intros [A B C _ _ _ _]. constructor; cbn [ms_mkt ms_bets fresh_ms]; try assumption. intros b []. Qed.

Lemma life_same x x' : ms_mkt x' = ms_mkt x -> ms_bets x' = ms_bets x -> life x -> life x'.
Proof. intros E1 E2 [A B C D]. constructor; rewrite ?E1, ?E2; assumption. Qed.

Lemma ai_of_bool st : status_ai st = true -> status_AI st.
Proof. unfold status_ai. intros H. apply orb_true_iff in H. destruct H as [H|H]; apply Z.eqb_eq in H; [left|right]; exact H. Qed.

Lemma life_step P x x' : msett x -> life x -> mtrans P x x' -> life x'.
Proof.
  intros S L T. destruct L as [A B C D]. destruct T.
  - (* update: the market is active or inactive, so no bet is settled *)
    constructor; cbn [ms_mkt ms_bets with_market mstate_upd market_with k_odds]; try assumption.
    intros b Hb Hs. exfalso. match goal with E : status_ai (k_status (ms_mkt x)) = true |- _ => destruct (se_ai _ S (ai_of_bool _ E)) as [_ U] end.
    rewrite (U b Hb) in Hs. discriminate.
  - constructor; cbn [ms_mkt ms_bets with_market mstate_upd market_with k_odds]; try assumption.
    intros b Hb Hs. exfalso. match goal with E : status_ai (k_status (ms_mkt x)) = true |- _ => destruct (se_ai _ S (ai_of_bool _ E)) as [_ U] end.
    rewrite (U b Hb) in Hs. discriminate.
  - apply (life_same x); [reflexivity|reflexivity|constructor; assumption].
  - apply (life_same x); [reflexivity|reflexivity|constructor; assumption].
  - (* wager: the new bet is not settled *)
    constructor; cbn [ms_mkt ms_bets mstate_upd]; try assumption.
    intros b Hb Hs. apply in_app_or in Hb. destruct Hb as [Hb|[<-|[]]]; [apply D; assumption|]. unfold is_settled in Hs. cbn in Hs. discriminate.
  - (* settle one bet *)
    match goal with E : settle_bet _ _ _ = Some _ |- _ => unfold settle_bet in E; cbv zeta in E; rename E into HSB end.
    destruct (findb (fun b => b_id b =? id) (ms_bets x)) as [b|] eqn:EF; [|discriminate].
    destruct (b_status b =? BS_SETTLED); [discriminate|].
    assert (K : forall r bk, b_result (bet_with b BS_SETTLED r h) = result_of (ms_mkt x) b ->
       life (mstate_upd x (ms_mkt x) bk (upd (fun c => b_id c =? id) (bet_with b BS_SETTLED r h) (ms_bets x))
                        (remb (Z.eqb id) (ms_pending x)) (ms_deps x) (ms_wds x))).
    { intros r bk Er. constructor; cbn [ms_mkt ms_bets mstate_upd]; try assumption.
      intros c Hc Hs. apply in_upd in Hc. destruct Hc as [->|Hc]; [|apply D; assumption].
      split; [assumption|]. rewrite Er. unfold result_of. cbn [b_odds bet_with]. reflexivity. }
    unfold result_of in K.
    destruct ((k_status (ms_mkt x) =? MK_ABORTED) || (k_status (ms_mkt x) =? MK_CANCELED)).
    + destruct (payout_profit _ _); [|discriminate]. injection HSB as <- _. apply K. reflexivity.
    + destruct (negb _); [discriminate|]. destruct (zmem (b_odds b) (k_winners (ms_mkt x))).
      * destruct (bettor_wins _ _ _) as [[bk e0]|]; [|discriminate]. injection HSB as <- _. apply K. reflexivity.
      * destruct (bettor_loses _ _) as [bk|]; [|discriminate]. injection HSB as <- _. apply K. reflexivity.
  - apply (life_same x); [reflexivity|reflexivity|constructor; assumption].
  - apply (life_same x); [reflexivity|reflexivity|constructor; assumption].
Qed.

Theorem life_over_histories P bk supply vault MP t0 sw sd ops :
  pr_bet_fee P <= pr_bet_min P -> 0 <= pr_bet_fee P ->
  bget bk POOL = 0 -> bget bk HOUSEFEE = 0 -> bget bk BETFEE = 0 -> Forall valid_op ops ->
  forall m x, get_ms (run (init bk supply P vault MP t0 sw sd) ops) m = Some x -> msett x /\ life x.
Proof.
  intros HP HF. apply (local_invariant P (fun y => msett y /\ life y)).
  - intros mk Hmk. split; [apply msett_fresh; exact Hmk|apply life_fresh; exact Hmk].
  - intros y y' [Sy Ly] T. split; [eapply (msett_step P); eassumption|eapply life_step; eassumption].
Qed.

(* C07 in full, for every market of every reachable state *)
Theorem lifecycle_over_histories P bk supply vault MP t0 sw sd ops :
  pr_bet_fee P <= pr_bet_min P -> 0 <= pr_bet_fee P ->
  bget bk POOL = 0 -> bget bk HOUSEFEE = 0 -> bget bk BETFEE = 0 -> Forall valid_op ops ->
  forall m x, get_ms (run (init bk supply P vault MP t0 sw sd) ops) m = Some x ->
  2 <= zlen (k_odds (ms_mkt x)) /\ zdistinct (k_odds (ms_mkt x)) = true /\
  (status_AI (k_status (ms_mkt x)) \/ status_res (k_status (ms_mkt x))) /\
  (k_status (ms_mkt x) = MK_DECLARED -> exists w, k_winners (ms_mkt x) = [w] /\ In w (k_odds (ms_mkt x))) /\
  (status_AI (k_status (ms_mkt x)) -> forall b, In b (ms_bets x) -> b_status b <> BS_SETTLED) /\
  (forall b, In b (ms_bets x) -> b_status b = BS_SETTLED ->
     status_res (k_status (ms_mkt x)) /\ b_result b = result_of (ms_mkt x) b).
Proof.
  intros HP HF B1 B2 B3 Hv m x Hx. destruct (life_over_histories P bk supply vault MP t0 sw sd ops HP HF B1 B2 B3 Hv m x Hx) as [S L].
  split; [apply (lf_two _ L)|]. split; [apply (lf_distinct _ L)|]. split; [apply (se_status _ S)|]. split; [apply (se_decl _ S)|].
  split.
  - intros Hai b Hb Hs. destruct (se_ai _ S Hai) as [_ U]. pose proof (U b Hb) as E. unfold is_settled in E. rewrite Hs in E. discriminate.
  - intros b Hb Hs. apply (lf_results _ L b Hb). unfold is_settled. rewrite Hs. reflexivity.
Qed.

(* Proofs/GenHouse.v — generated kernels (Gen/kernels.v, regenerated from the Go source on every run) proved equal to the hand-written model:
   x/house/types/deposit.go.  Split by module so that a change of one module only touches the properties that depend on it. *)
From Coq Require Import ZArith Bool List Lia.
From Sge Require Import Lib.Dec Model.Types Model.Orderbook Model.Mint Model.Chain Gen.kernels.
Import ListNotations.
Open Scope Z_scope.

(* ---- x/house/types/deposit.go ------------------------------------------------------------------------------------------------------------ *)
Lemma gen_HouseFee creator dep mkt idx amount wc wt fee :
  K_Deposit_CalcHouseParticipationFeeAmount
    {| G_Deposit_Creator := creator; G_Deposit_DepositorAddress := dep; G_Deposit_MarketUID := mkt; G_Deposit_ParticipationIndex := idx;
       G_Deposit_Amount := amount; G_Deposit_WithdrawalCount := wc; G_Deposit_TotalWithdrawalAmount := wt |} fee =
  dec_round_int (dec_mulint fee amount).
Proof. reflexivity. Qed.

(* ---- x/house/keeper/withdrawal.go Withdraw (generated over: the verdict of the order-book keeper's WithdrawOrderBookParticipation, the
   withdrawal records, the stored deposit): the records of an executed withdrawal are the ones the model's withdraw_core writes - a new
   withdrawal numbered count + 1 for the signer / depositor / market / participation / mode / executed amount, appended; the deposit's
   count + 1 and total + amount -------------------------------------------------------------------------------------------------------- *)
Definition gd_of (d : deposit) : G_Deposit :=
  {| G_Deposit_Creator := d_creator d; G_Deposit_DepositorAddress := d_depositor d; G_Deposit_MarketUID := d_mkt d; G_Deposit_ParticipationIndex := d_pidx d;
     G_Deposit_Amount := d_amount d; G_Deposit_WithdrawalCount := d_wcount d; G_Deposit_TotalWithdrawalAmount := d_wtotal d |}.
Definition gw_of (w : withdrawal) : G_Withdrawal :=
  {| G_Withdrawal_Creator := w_creator w; G_Withdrawal_ID := w_id w; G_Withdrawal_Address := w_depositor w; G_Withdrawal_MarketUID := w_mkt w;
     G_Withdrawal_ParticipationIndex := w_pidx w; G_Withdrawal_Mode := w_mode w; G_Withdrawal_Amount := w_amount w |}.
Definition hwd_state (ok : bool) (wds : list withdrawal) (d : deposit) : S_hwd :=
  {| S_hwd_ObOK := ok; S_hwd_Withdrawals := map gw_of wds; S_hwd_Deposit := gd_of d |}.
Lemma gen_house_Withdraw ok wds d0 d signer depositor mkt pidx mode amt :
  K_hwd_Withdraw (hwd_state ok wds d0) (gd_of d) signer depositor mkt pidx mode amt =
  if negb ok then None else
  Some (hwd_state ok
          (wds ++ [{| w_id := d_wcount d + 1; w_creator := signer; w_depositor := depositor; w_mkt := mkt; w_pidx := pidx; w_mode := mode; w_amount := amt |}])
          {| d_creator := d_creator d; d_depositor := d_depositor d; d_mkt := d_mkt d; d_pidx := d_pidx d; d_amount := d_amount d;
             d_wcount := d_wcount d + 1; d_wtotal := d_wtotal d + amt |},
        d_wcount d + 1).
Proof.
  unfold K_hwd_Withdraw, hwd_state. cbn [S_hwd_ObOK]. destruct ok; cbn [negb]; [|reflexivity].
  cbn [set_S_hwd_Withdrawals set_S_hwd_Deposit S_hwd_ObOK S_hwd_Withdrawals S_hwd_Deposit]. rewrite map_app. reflexivity.
Qed.

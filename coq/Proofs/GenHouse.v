(* Proofs/GenHouse.v — generated kernels (Gen/kernels.v, regenerated from the Go source on every run) proved equal to the hand-written model:
   x/house/types/deposit.go.  Split by module so that a change of one module only touches the properties that depend on it. *)
From Coq Require Import ZArith Bool List Lia.
From Sge Require Import Lib.Dec Model.Types Model.Orderbook Model.Mint Model.Chain Gen.kernels.
Import ListNotations.
Open Scope Z_scope.

(* ---- x/house/types/deposit.go ------------------------------------------------------------------------------------------------------------ *)
Lemma gen_HouseFee creator dep mkt idx amount wc wt fee :
  K_Deposit_CalcHouseParticipationFeeAmount
    {| G_Deposit_Creator := creator; G_Deposit_DepositorAddress := dep; G_Deposit_MarketUID := mkt; G_Deposit_ParticipationIndex := idx;
       G_Deposit_Amount := amount; G_Deposit_WithdrawalCount := wc; G_Deposit_TotalWithdrawalAmount := wt |} fee =
  dec_round_int (dec_mulint fee amount).
Proof. reflexivity. Qed.

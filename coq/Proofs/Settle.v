(* Proofs/Settle.v — settlement readiness of a market (C03/C04/C05): profit attribution (the profit recorded on a participation equals
   the stakes of the settled losing bets it backed minus the winnings of the settled winning bets it backed), the pending list is
   exactly the list of unsettled bets, and the amounts every settlement step pays are covered by what the market holds in custody.
   Part 1: current-round liquidity never exceeds the liquidity, through the fulfilment loop. *)
From Coq Require Import ZArith Bool List Lia.
From Sge Require Import Lib.Dec Model.Types Model.Orderbook Model.Mint Model.Chain Proofs.Tactics Proofs.DecFacts Proofs.WagerLoop
     Proofs.CustodyLocal Proofs.Custody Proofs.BookFacts Proofs.BookAPI Proofs.BookInv Proofs.WagerBounds Proofs.Local Proofs.BookHist
     Proofs.BookCover Proofs.CoverHist.
Import ListNotations.
Open Scope Z_scope.

Definition crl_le (b : book) : Prop := forall p, In p (bk_parts b) -> p_crl p <= p_liq p.

Lemma fulfil_keeps p e o st pay p' e' : fulfil_records p e o st pay = (p', e') -> p_crl p' = p_crl p /\ p_liq p' = p_liq p.
Proof.
  unfold fulfil_records. cbv zeta. intros H.
  destruct (p_crml_odds p =? o); [|destruct (_ <? _)]; injection H as <- _; cbn; split; reflexivity.
Qed.

Section LoopCrl.
Variable odds : list Z.
Hypothesis Hndo : NoDup odds.
Hypothesis Hsmall : zlen odds < U64.
Variable A : wargs.
Hypothesis Huids : wa_uids A = odds.
Hypothesis Hoc : wa_oddscnt A = zlen odds.
Hypothesis Hsel : In (wa_sel A) odds.

Lemma wager_iter_crl B idx rest s s' :
  wager_iter A idx s = Some s' -> linv odds A B (idx :: rest) s -> crl_le (ws_book s) -> crl_le (ws_book s').
Proof.
  intros H L C.
  destruct (wager_iter_decomp odds Hndo Hsmall A Huids Hsel B idx rest s s' H L)
    as (p0 & pe0 & so & setf & news & p1 & pe1 & p3 & pe3 & bk2 & st & pay & Hgp & Hge0 & HSt & Epe1 & Etba & Eown & Hst & Hpay & Hcase & Hparts & W2 & Hgp3 & Hbook).
  assert (Hin0 : In p0 (bk_parts (ws_book s))) by (apply get_part_in in Hgp; tauto).
  assert (H3 : p_crl p3 <= p_liq p3).
  { assert (E1 : p_crl p1 = p_crl p0 /\ p_liq p1 = p_liq p0).
    { destruct Hcase as [(_ & _ & _ & ->)|(_ & EF & _)]; [split; reflexivity|eapply fulfil_keeps; exact EF]. }
    dS HSt. subst p3. pose proof (C p0 Hin0). destruct setf; cbn; lia. }
  assert (C2 : crl_le bk2).
  { intros q Hq. dS HSt. destruct (S_parts_in q Hq) as [->|Hq']; [exact H3|apply C; exact Hq']. }
  destruct Hbook as [->|(Hel & Rf)]; [exact C2|].
  intros q Hq. destruct (rf_parts_in _ _ _ _ _ Rf q Hq) as [->|Hq']; [|apply C2; exact Hq'].
  unfold reset_part, zmax0. cbn. lia.
Qed.

Lemma wager_loop_crl B fuel : forall q s s', wager_loop fuel A q s = Some s' -> linv odds A B q s ->
  crl_le (ws_book s) -> crl_le (ws_book s').
Proof.
  induction fuel as [|f IH]; intros q s s' H L CI; destruct q as [|idx rest]; cbn [wager_loop] in H.
  - injection H as <-. exact CI.
  - discriminate.
  - injection H as <-. exact CI.
  - destruct (wager_iter A idx s) as [s1|] eqn:E; [|discriminate].
    pose proof (wager_iter_crl B idx rest s s1 E L CI) as C1.
    pose proof (wager_iter_linv odds Hndo Hsmall A Huids Hoc Hsel B idx rest s s1 E L) as L1.
    destruct (wager_setf A idx s) eqn:Es.
    + destruct ((ws_profit s1 <? PREC) || _); [injection H as <-; exact C1|]. eapply IH; eassumption.
    + pose proof (last_fill_ends A _ _ _ E Es (wb_profit _ _ (li_bound _ _ _ _ _ L))) as Hlt.
      apply Z.ltb_lt in Hlt. rewrite Hlt in H. cbn [orb] in H. injection H as <-. exact C1.
Qed.

Theorem process_wager_crl b betamt profit bettor fee b' parts effs :
  process_wager b A betamt profit bettor fee = Some (b', parts, effs) ->
  bw odds b -> queues_ok b -> 0 <= betamt -> 0 <= profit -> crl_le b -> crl_le b'.
Proof.
  unfold process_wager. intros H W Q Hb Hp CI.
  destruct (get_queue b (wa_sel A)) as [q|] eqn:Eq; [|discriminate].
  destruct (init_fmap b (wa_sel A)) as [fm|] eqn:EI; [|discriminate].
  match type of H with context [wager_loop ?f ?a ?qq ?s0] => destruct (wager_loop f a qq s0) as [s|] eqn:EL end; [|discriminate].
  destruct (PREC <=? ws_profit s); [discriminate|].
  destruct (ws_parts s) as [|x r] eqn:EP; [discriminate|]. injection H as <- _ _.
  destruct (Q _ _ Eq) as [Hnd Hel].
  assert (C : crl_le (ws_book s)).
  { eapply (wager_loop_crl betamt); [exact EL| |exact CI].
    constructor; cbn [ws_book ws_fmap ws_uq].
    + exact W.
    + intros o ql _ Hq. exact (Q o ql Hq).
    + exists []. rewrite app_nil_r. split; [reflexivity|]. split; [exact Hnd|intros i []].
    + intros i Hi. destruct (Hel i Hi) as (p & e & X1 & X2 & X3). split; [exists p, e; tauto|]. eapply init_fmap_agrees; eassumption.
    + constructor; cbn; try lia. constructor. }
  exact C.
Qed.
End LoopCrl.

(* ---- part 2: what settling a bet does to the profits ------------------------------------------------------------------------------------------ *)
Lemma part_set_profit_id q v : v = p_profit q -> part_set_profit q v = q.
Proof. intros ->. destruct q; reflexivity. Qed.

Definition adj_win (fs : list bpart) (i : Z) (q : part) : part := part_set_profit q (p_profit q - pyo i fs).
Definition adj_lose (fs : list bpart) (i : Z) (q : part) : part := part_set_profit q (p_profit q + stk i fs).

Lemma pyo_cons i f r : pyo i (f :: r) = (if f_idx f =? i then f_pay f else 0) + pyo i r.
Proof. unfold pyo, parts_i. cbn [filter]. destruct (f_idx f =? i); cbn [map zsum]; lia. Qed.
Lemma stk_cons i f r : stk i (f :: r) = (if f_idx f =? i then f_stake f else 0) + stk i r.
Proof. unfold stk, parts_i. cbn [filter]. destruct (f_idx f =? i); cbn [map zsum]; lia. Qed.

Lemma bettor_wins_parts fs : forall b bettor b' effs, bettor_wins b bettor fs = Some (b', effs) ->
  (forall i, get_part b' i = option_map (adj_win fs i) (get_part b i)) /\
  bk_status b' = bk_status b /\ effs = map (fun f => Pay POOL bettor (f_pay f + f_stake f)) fs.
Proof.
  induction fs as [|f r IH]; intros b bettor b' effs H; cbn [bettor_wins] in H.
  - inv H. split; [|split; reflexivity]. intros i. destruct (get_part b' i) as [q|]; cbn [option_map]; [|reflexivity].
    f_equal. symmetry. apply part_set_profit_id. unfold pyo, parts_i. cbn. lia.
  - destruct (get_part b (f_idx f)) as [p|] eqn:Eg; [|discriminate].
    destruct (bettor_wins _ bettor r) as [[b2 e2]|] eqn:EB; [|discriminate]. inv H.
    destruct (IH _ _ _ _ EB) as (G & S & E). pose proof (gp_idx _ _ _ Eg) as Hi.
    split; [|split; [rewrite S; reflexivity|cbn [map]; rewrite E; reflexivity]].
    intros i. rewrite G. destruct (Z.eq_dec i (f_idx f)) as [->|Hne].
    + pose proof (gp_set_part_same b (part_set_profit p (p_profit p - f_pay f))) as X.
      change (p_idx (part_set_profit p (p_profit p - f_pay f))) with (p_idx p) in X. rewrite Hi in X. rewrite X, Eg. cbn [option_map]. f_equal. unfold adj_win. rewrite pyo_cons, Z.eqb_refl.
      unfold part_set_profit, part_upd. cbn. f_equal; lia.
    + rewrite gp_set_part_other by (cbn; rewrite Hi; exact Hne). destruct (get_part b i) as [q|]; cbn [option_map]; [|reflexivity].
      f_equal. unfold adj_win. rewrite pyo_cons. destruct (Z.eqb_spec (f_idx f) i); [exfalso; apply Hne; congruence|]. f_equal; lia.
Qed.

Lemma bettor_loses_parts fs : forall b b', bettor_loses b fs = Some b' ->
  (forall i, get_part b' i = option_map (adj_lose fs i) (get_part b i)) /\ bk_status b' = bk_status b.
Proof.
  induction fs as [|f r IH]; intros b b' H; cbn [bettor_loses] in H.
  - inv H. split; [|reflexivity]. intros i. destruct (get_part b' i) as [q|]; cbn [option_map]; [|reflexivity].
    f_equal. symmetry. apply part_set_profit_id. unfold stk, parts_i. cbn. lia.
  - destruct (get_part b (f_idx f)) as [p|] eqn:Eg; [|discriminate].
    destruct (IH _ _ H) as (G & S). pose proof (gp_idx _ _ _ Eg) as Hi.
    split; [|rewrite S; reflexivity].
    intros i. rewrite G. destruct (Z.eq_dec i (f_idx f)) as [->|Hne].
    + pose proof (gp_set_part_same b (part_set_profit p (p_profit p + f_stake f))) as X.
      change (p_idx (part_set_profit p (p_profit p + f_stake f))) with (p_idx p) in X. rewrite Hi in X. rewrite X, Eg. cbn [option_map]. f_equal. unfold adj_lose. rewrite stk_cons, Z.eqb_refl.
      unfold part_set_profit, part_upd. cbn. f_equal; lia.
    + rewrite gp_set_part_other by (cbn; rewrite Hi; exact Hne). destruct (get_part b i) as [q|]; cbn [option_map]; [|reflexivity].
      f_equal. unfold adj_lose. rewrite stk_cons. destruct (Z.eqb_spec (f_idx f) i); [exfalso; apply Hne; congruence|]. f_equal; lia.
Qed.

(* success of the two functions: every backing part names an existing participation *)
Lemma bettor_wins_total fs : forall b bettor, refs b fs -> exists b' effs, bettor_wins b bettor fs = Some (b', effs).
Proof.
  induction fs as [|f r IH]; intros b bettor R; cbn [bettor_wins]; [eexists _, _; reflexivity|].
  destruct (R f (or_introl eq_refl)) as (p & Hg & Ho). rewrite Hg. pose proof (gp_idx _ _ _ Hg) as Hi.
  destruct (IH (set_part b (part_set_profit p (p_profit p - f_pay f))) bettor) as (b' & effs & E).
  { eapply refs_set_part_sig; [cbn; rewrite Hi; exact Hg|reflexivity|intros g Hgin; apply R; right; exact Hgin]. }
  rewrite E. eexists _, _; reflexivity.
Qed.
Lemma bettor_loses_total fs : forall b, refs b fs -> exists b', bettor_loses b fs = Some b'.
Proof.
  induction fs as [|f r IH]; intros b R; cbn [bettor_loses]; [eexists; reflexivity|].
  destruct (R f (or_introl eq_refl)) as (p & Hg & Ho). rewrite Hg. pose proof (gp_idx _ _ _ Hg) as Hi.
  apply IH. eapply refs_set_part_sig; [cbn; rewrite Hi; exact Hg|reflexivity|intros g Hgin; apply R; right; exact Hgin].
Qed.

(* ---- part 3: the settlement-readiness invariant of one market ------------------------------------------------------------------------------- *)
Definition is_settled (b : bet) : bool := b_status b =? BS_SETTLED.
(* what settling bet b adds to the profit of participation i when outcome w won *)
Definition contrib (i w : Z) (b : bet) : Z := if b_odds b =? w then - pyo i (b_parts b) else stk i (b_parts b).
Definition attr (i w : Z) (bets : list bet) : Z := zsum (map (fun b => if is_settled b then contrib i w b else 0) bets).
Definition winner (mk : market) : Z := hd 0 (k_winners mk).
Definition exp_profit (x : mstate) (i : Z) : Z :=
  if k_status (ms_mkt x) =? MK_DECLARED then attr i (winner (ms_mkt x)) (ms_bets x) else 0.

Definition qsig (p : part) := (p_idx p, p_crl p, p_liq p, p_fee p, p_profit p).

Record part_ok (x : mstate) (p : part) : Prop := {
  po_crl : p_crl p <= p_liq p;
  po_liq : 0 <= p_liq p;
  po_fee : 0 <= p_fee p;
  po_profit : p_profit p = exp_profit x (p_idx p) }.

Record bet_ok (b : bet) : Prop := {
  bo_odds : PREC < b_oddsval b;
  bo_fee : 0 <= b_fee b;
  bo_amount : b_amount b = zsum (map f_stake (b_parts b));
  bo_parts : forall f, In f (b_parts b) -> 0 <= f_stake f /\ 0 <= f_pay f }.

Record msett (x : mstate) : Prop := {
  se_cov : mcov x;
  se_status : status_AI (k_status (ms_mkt x)) \/ status_res (k_status (ms_mkt x));
  se_ai : status_AI (k_status (ms_mkt x)) -> bk_status (ms_book x) = BK_ACTIVE /\ forall b, In b (ms_bets x) -> is_settled b = false;
  se_act : bk_status (ms_book x) = BK_ACTIVE -> all_unsettled (ms_book x);
  se_done : bk_status (ms_book x) <> BK_ACTIVE -> ms_pending x = [] /\ status_res (k_status (ms_mkt x));
  se_decl : k_status (ms_mkt x) = MK_DECLARED -> exists w, k_winners (ms_mkt x) = [w] /\ In w (k_odds (ms_mkt x));
  se_parts : forall p, In p (bk_parts (ms_book x)) -> part_ok x p;
  se_bets : forall b, In b (ms_bets x) -> bet_ok b }.

Lemma attr_unsettled i w bets : (forall b, In b bets -> is_settled b = false) -> attr i w bets = 0.
Proof.
  unfold attr. induction bets as [|b r IH]; intros H; cbn [map zsum]; [reflexivity|].
  rewrite (H b (or_introl eq_refl)), IH; [reflexivity|]. intros c Hc. apply H. right. exact Hc.
Qed.

Lemma attr_upd i w bets id b b' : findb (fun c => b_id c =? id) bets = Some b -> is_settled b = false -> is_settled b' = true ->
  b_odds b' = b_odds b -> b_parts b' = b_parts b ->
  attr i w (upd (fun c => b_id c =? id) b' bets) = attr i w bets + contrib i w b.
Proof.
  intros F S S' E1 E2. unfold attr. rewrite (upd_sum_found _ _ _ b _ F). rewrite S, S'. unfold contrib. rewrite E1, E2. lia.
Qed.

Lemma part_ok_ext x x' p : exp_profit x' (p_idx p) = exp_profit x (p_idx p) -> part_ok x p -> part_ok x' p.
Proof. intros E [A B C D]. constructor; try assumption. rewrite E. exact D. Qed.

Lemma part_ok_qsig x p p' : qsig p' = qsig p -> part_ok x p -> part_ok x p'.
Proof.
  unfold qsig. intros E [A B C D]. injection E as E1 E2 E3 E4 E5. constructor; rewrite ?E1, ?E2, ?E3, ?E4, ?E5; assumption.
Qed.

Lemma batch_parts_qsig ps : forall st creator limit cnt alls c ps' effs,
  batch_parts ps st creator limit cnt = Some (alls, c, ps', effs) -> map qsig ps' = map qsig ps.
Proof.
  induction ps as [|p r IH]; intros st creator limit cnt alls c ps' effs H; cbn [batch_parts] in H; [inv H; reflexivity|].
  destruct (p_settled p).
  - destruct (limit <=? cnt); [inv H; reflexivity|].
    destruct (batch_parts r st creator limit cnt) as [[[[a2 c2] ps2] e2]|] eqn:EB; [|discriminate]. inv H. cbn [map]. f_equal. eapply IH; exact EB.
  - destruct (settle_participation p st creator) as [[p1 e1]|] eqn:ES; [|discriminate].
    assert (Hp1 : qsig p1 = qsig p) by (unfold settle_participation in ES; dmatch ES; inv ES; reflexivity).
    destruct (limit <=? cnt + 1); [inv H; cbn [map]; rewrite Hp1; reflexivity|].
    destruct (batch_parts r st creator limit (cnt + 1)) as [[[[a2 c2] ps2] e2]|] eqn:EB; [|discriminate]. inv H. cbn [map]. rewrite Hp1. f_equal. eapply IH; exact EB.
Qed.

Lemma winners_one (l : list Z) : zlen l = 1 -> exists w, l = [w].
Proof. destruct l as [|w [|v r]]; unfold zlen; cbn [length]; intros H; try lia. exists w. reflexivity. Qed.

Lemma BK_codes : BK_ACTIVE <> BK_RESOLVED /\ BK_ACTIVE <> BK_SETTLED. Proof. split; discriminate. Qed.

Lemma exp_profit_same x x' i : ms_mkt x' = ms_mkt x -> ms_bets x' = ms_bets x -> exp_profit x' i = exp_profit x i.
Proof. unfold exp_profit. intros -> ->. reflexivity. Qed.

Lemma exp_profit_nd x i : k_status (ms_mkt x) <> MK_DECLARED -> exp_profit x i = 0.
Proof. unfold exp_profit. intros H. destruct (Z.eqb_spec (k_status (ms_mkt x)) MK_DECLARED); [contradiction|reflexivity]. Qed.

Lemma active_AI st : st = MK_ACTIVE -> status_AI st. Proof. intros ->. left. reflexivity. Qed.
Lemma active_nd st : st = MK_ACTIVE -> st <> MK_DECLARED. Proof. intros ->. discriminate. Qed.

Theorem msett_step P x x' : pr_bet_fee P <= pr_bet_min P -> 0 <= pr_bet_fee P -> msett x -> mtrans P x x' -> msett x'.
Proof.
  intros HP HF [MC SS SA ST SD SW SP SB] T.
  pose proof (mcov_step P x x' HP MC T) as MC'.
  destruct T as [x st en status Hai Hai' | x rts winners status Hai Hres Hw | x creator depositor amount bk idx effs dmkt Hact Hpos Hmin Hfee HI
                | x signer depositor pidx mode amount d amt bk effs dmkt Hf Hcnt HC Hamt HW
                | x signer betuid amount selmkt selodds oddsval mult allodds betid now profit bk parts effs Hact Hsel Hlen Hall Hmin Hmult Hmults Hpp HPW
                | x h id x' effs Hres Hbk HS | x Hres Hpend Hbk | x limit alls cnt ps effs Hbk HB].
  - (* update *)
    apply status_ai_iff in Hai, Hai'. destruct (SA Hai) as [A1 A2].
    constructor; cbn [ms_mkt ms_book ms_bets ms_pending with_market mstate_upd market_with k_status k_winners]; try assumption.
    + left. exact Hai'.
    + intros _. split; assumption.
    + intros Hne. contradiction.
    + intros E. exfalso. exact (ai_not_declared _ Hai' E).
    + intros p Hp. eapply part_ok_ext; [|apply SP; exact Hp].
      rewrite (exp_profit_nd x) by (apply ai_not_declared; exact Hai). apply exp_profit_nd. cbn. apply ai_not_declared. exact Hai'.
  - (* resolution *)
    apply status_ai_iff in Hai. apply status_resolved_iff in Hres. destruct (SA Hai) as [A1 A2].
    constructor; cbn [ms_mkt ms_book ms_bets ms_pending with_market mstate_upd market_with k_status k_winners]; try assumption.
    + right. exact Hres.
    + intros Hx. exfalso. exact (ai_not_res _ Hx Hres).
    + intros Hne. contradiction.
    + intros E. destruct (Hw E) as [Hz Hall]. rewrite E. cbn. destruct (winners_one _ Hz) as (w & ->). exists w. split; [reflexivity|].
      cbn in Hall. rewrite andb_true_r in Hall. apply zmem_in. exact Hall.
    + intros p Hp. eapply part_ok_ext; [|apply SP; exact Hp].
      rewrite (exp_profit_nd x) by (apply ai_not_declared; exact Hai). unfold exp_profit. cbn [ms_mkt ms_bets with_market mstate_upd market_with k_status].
      destruct (status =? MK_DECLARED); [|reflexivity]. apply attr_unsettled. exact A2.
  - (* deposit *)
    pose proof (active_AI _ Hact) as Hai. destruct (SA Hai) as [A1 A2].
    destruct MC as [(Hnd & Hsm & W & Q) MN MO MR MCI].
    destruct (init_participation_reads (k_odds (ms_mkt x)) _ _ _ _ _ _ _ _ HI Hnd W) as (Hnone & p & Hps & Hsig & Hfee' & _).
    destruct (init_participation_delta _ _ _ _ _ _ _ _ HI) as (_ & _ & _ & Hst & _ & p2 & Hps2 & Hset & Hprof & _).
    rewrite Hps in Hps2. apply app_inj_tail in Hps2. destruct Hps2 as [_ <-].
    constructor; cbn [ms_mkt ms_book ms_bets ms_pending mstate_upd]; try assumption.
    + intros _. split; [rewrite Hst; exact A1|exact A2].
    + intros _ q Hq. rewrite Hps in Hq. apply in_app_or in Hq. destruct Hq as [Hq|[<-|[]]]; [apply (ST A1); exact Hq|exact Hset].
    + rewrite Hst. intros Hne. contradiction.
    + intros q Hq. rewrite Hps in Hq. apply in_app_or in Hq. destruct Hq as [Hq|[<-|[]]].
      * eapply part_ok_ext; [|apply SP; exact Hq]. apply exp_profit_same; reflexivity.
      * unfold psig in Hsig. injection Hsig as S1 S2 S3 S4 _ _ _ _.
        constructor; rewrite ?S3, ?S4, ?Hfee', ?Hprof; try lia.
        symmetry. apply exp_profit_nd. cbn. apply active_nd. exact Hact.
  - (* withdrawal *)
    destruct (calc_withdrawal_spec _ _ _ _ _ _ _ HC) as (p & Hg & Hset & _ & Hle & _).
    pose proof (gp_idx _ _ _ Hg) as Hi.
    destruct (withdraw_participation_delta _ _ _ _ _ _ HW Hg Hset) as (_ & _ & _ & Hst & _).
    assert (Hin : In p (bk_parts (ms_book x))) by (apply get_part_in in Hg; tauto).
    pose proof (SP p Hin) as [K1 K2 K3 K4].
    set (p' := part_upd p (p_liq p - amt) (p_crl p - amt) (p_enf p) (p_tba p) (p_crtb p) (p_maxloss p) (p_crml p) (p_crml_odds p) (p_profit p)).
    assert (Hparts : forall q, In q (bk_parts bk) -> q = p' \/ In q (bk_parts (ms_book x))).
    { unfold withdraw_participation in HW. rewrite Hg in HW. fold p' in HW.
      destruct (0 <? p_crl p'); [injection HW as <- _; apply in_set_part|].
      destruct (remove_from_queues _ _); [|discriminate]. injection HW as <- _. apply in_set_part. }
    constructor; cbn [ms_mkt ms_book ms_bets ms_pending mstate_upd]; try assumption.
    + intros Hx. destruct (SA Hx) as [A1 A2]. split; [rewrite Hst; exact A1|exact A2].
    + rewrite Hst. intros Hb q Hq. destruct (Hparts q Hq) as [->|Hq']; [exact Hset|apply (ST Hb); exact Hq'].
    + rewrite Hst. exact SD.
    + intros q Hq. destruct (Hparts q Hq) as [->|Hq'].
      * unfold zmax0 in Hle. constructor; cbn [p_crl p_liq p_fee p_profit p_idx p' part_upd]; try lia.
        -- rewrite K4. symmetry. apply exp_profit_same; reflexivity.
      * eapply part_ok_ext; [|apply SP; exact Hq']. apply exp_profit_same; reflexivity.
  - (* wager *)
    pose proof (active_AI _ Hact) as Hai. destruct (SA Hai) as [A1 A2].
    destruct MC as [(Hnd & Hsm & W & Q) MN MO MR MCI].
    assert (Hpr : 0 <= profit) by (eapply payout_profit_nonneg; [eassumption|lia]).
    assert (Hsel' : In selodds (k_odds (ms_mkt x))) by (apply zmem_in; assumption).
    pose proof (mult_ok_bounds _ Hmult) as Hm.
    pose proof (process_wager_cproj _ _ _ _ _ _ _ _ _ HPW (nodup_cidx_unique _ (bw_nodup _ _ W))) as Hcp.
    pose proof (process_wager_status _ _ _ _ _ _ _ _ _ HPW) as Hst.
    match type of HPW with process_wager _ ?A _ _ _ _ = _ =>
      pose proof (process_wager_crl (k_odds (ms_mkt x)) Hnd Hsm A eq_refl (bw_oddscnt _ _ W) Hsel' _ _ _ _ _ _ _ _ HPW W Q ltac:(lia) Hpr
                    (fun q Hq => po_crl _ _ (SP q Hq))) as Hcrl end.
    destruct (process_wager_bounds _ _ _ _ _ _ _ _ _ HPW ltac:(lia) Hpr) as [Hpn _].
    assert (Hq : forall q', In q' (bk_parts bk) -> exists q, In q (bk_parts (ms_book x)) /\ cproj q = cproj q').
    { intros q' Hq'. apply (map_eq_in cproj _ _ q' Hcp Hq'). }
    constructor; cbn [ms_mkt ms_book ms_bets ms_pending mstate_upd]; try assumption.
    + intros _. split; [rewrite Hst; exact A1|]. intros b Hb. apply in_app_or in Hb. destruct Hb as [Hb|[<-|[]]]; [apply A2; exact Hb|reflexivity].
    + intros _ q' Hq'. destruct (Hq q' Hq') as (q & Hq0 & E). unfold cproj in E. injection E as _ _ _ _ _ E. rewrite <- E. apply (ST A1). exact Hq0.
    + rewrite Hst. intros Hne. contradiction.
    + intros q' Hq'. destruct (Hq q' Hq') as (q & Hq0 & E). unfold cproj in E. injection E as E1 _ E3 E4 E5 _.
      destruct (SP q Hq0) as [K1 K2 K3 K4]. constructor; rewrite <- ?E1, <- ?E3, <- ?E4, <- ?E5; try assumption.
      * rewrite E3. apply Hcrl. exact Hq'.
      * rewrite K4. rewrite !exp_profit_nd; [reflexivity|cbn; apply active_nd; exact Hact|apply active_nd; exact Hact].
    + intros b Hb. apply in_app_or in Hb. destruct Hb as [Hb|[<-|[]]]; [apply SB; exact Hb|].
      constructor; cbn.
      * unfold payout_profit in Hpp. destruct (oddsval <=? PREC) eqn:E; [discriminate|]. apply Z.leb_gt in E. exact E.
      * exact HF.
      * reflexivity.
      * intros f Hf. rewrite Forall_forall in Hpn. apply (Hpn f Hf).
  - (* settlement of one bet *)
    pose proof HS as HS0. unfold settle_bet in HS. cbv zeta in HS.
    destruct (findb (fun b => b_id b =? id) (ms_bets x)) as [b|] eqn:EF; [|discriminate].
    destruct (b_status b =? BS_SETTLED) eqn:EST; [discriminate|].
    assert (Hbin : In b (ms_bets x)) by (apply find_some in EF; tauto).
    assert (Hbets : forall st r c, In c (upd (fun c => b_id c =? id) (bet_with b st r h) (ms_bets x)) -> bet_ok c).
    { intros st r c Hc. apply in_upd in Hc. destruct Hc as [->|Hc]; [|apply SB; exact Hc]. destruct (SB b Hbin) as [B1 B2 B3 B4]. constructor; assumption. }
    destruct MC as [(Hnd & Hsm & W & Q) MN MO MR MCI].
    assert (Hnres : ~ status_AI (k_status (ms_mkt x))) by (intros Hx; exact (ai_not_res _ Hx Hres)).
    destruct ((k_status (ms_mkt x) =? MK_ABORTED) || (k_status (ms_mkt x) =? MK_CANCELED)) eqn:ERF.
    + destruct (payout_profit _ _); [|discriminate]. injection HS as <- _.
      assert (Hnd' : k_status (ms_mkt x) <> MK_DECLARED).
      { apply orb_true_iff in ERF. destruct ERF as [E|E]; apply Z.eqb_eq in E; rewrite E; discriminate. }
      constructor; cbn [ms_mkt ms_book ms_bets ms_pending mstate_upd]; try assumption.
      * intros Hx. contradiction.
      * intros Hne. contradiction.
      * intros p Hp. eapply part_ok_ext; [|apply SP; exact Hp]. rewrite !exp_profit_nd; [reflexivity|exact Hnd'|cbn; exact Hnd'].
      * apply Hbets.
    + destruct (negb (k_status (ms_mkt x) =? MK_DECLARED)) eqn:ED; [discriminate|]. apply negb_false_true, Z.eqb_eq in ED.
      destruct (SW ED) as (w & Hw & Hwin).
      destruct (zmem (b_odds b) (k_winners (ms_mkt x))) eqn:EZ.
      * destruct (bettor_wins _ _ _) as [[bk effs0]|] eqn:EB; [|discriminate]. injection HS as <- _.
        destruct (bettor_wins_parts _ _ _ _ _ EB) as (G & Sst & _).
        assert (Eo : b_odds b = w). { rewrite Hw in EZ. unfold zmem in EZ. cbn in EZ. rewrite orb_false_r in EZ. apply Z.eqb_eq in EZ. exact EZ. }
        pose proof MC' as MC2. destruct MC2 as [(_ & _ & W' & _) _ _ _ _]. cbn [ms_book mstate_upd] in W'.
        assert (Hq : forall q', In q' (bk_parts bk) -> exists q, In q (bk_parts (ms_book x)) /\ q' = adj_win (b_parts b) (p_idx q') q).
        { intros q' Hq'. pose proof (gp_of_in _ _ (bw_nodup _ _ W') Hq') as Hg. rewrite G in Hg.
          destruct (get_part (ms_book x) (p_idx q')) as [q|] eqn:Eg; [|discriminate]. injection Hg as Hg. exists q. split; [apply get_part_in in Eg; tauto|congruence]. }
        constructor; cbn [ms_mkt ms_book ms_bets ms_pending mstate_upd]; try assumption.
        -- intros Hx. contradiction.
        -- rewrite Sst. intros Hb q' Hq'. destruct (Hq q' Hq') as (q & Hq0 & ->). cbn. apply (ST Hb). exact Hq0.
        -- rewrite Sst. intros Hne. contradiction.
        -- intros q' Hq'. destruct (Hq q' Hq') as (q & Hq0 & E). destruct (SP q Hq0) as [K1 K2 K3 K4].
           assert (Ei : p_idx q' = p_idx q) by (rewrite E; reflexivity).
           rewrite E. constructor; cbn [p_crl p_liq p_fee p_profit p_idx adj_win part_set_profit part_upd]; try assumption.
           rewrite K4, <- Ei. unfold exp_profit. cbn [ms_mkt ms_bets mstate_upd]. rewrite ED. cbn [Z.eqb]. change (MK_DECLARED =? MK_DECLARED) with true. cbv iota.
           rewrite (attr_upd _ _ _ _ b _ EF); [|unfold is_settled; exact EST|reflexivity|reflexivity|reflexivity].
           unfold contrib, winner. rewrite Hw. cbn [hd]. rewrite Eo, Z.eqb_refl. lia.
        -- apply Hbets.
      * destruct (bettor_loses _ _) as [bk|] eqn:EB; [|discriminate]. injection HS as <- _.
        destruct (bettor_loses_parts _ _ _ EB) as (G & Sst).
        assert (Eo : b_odds b <> w). { rewrite Hw in EZ. unfold zmem in EZ. cbn in EZ. rewrite orb_false_r in EZ. apply Z.eqb_neq in EZ. exact EZ. }
        pose proof MC' as MC2. destruct MC2 as [(_ & _ & W' & _) _ _ _ _]. cbn [ms_book mstate_upd] in W'.
        assert (Hq : forall q', In q' (bk_parts bk) -> exists q, In q (bk_parts (ms_book x)) /\ q' = adj_lose (b_parts b) (p_idx q') q).
        { intros q' Hq'. pose proof (gp_of_in _ _ (bw_nodup _ _ W') Hq') as Hg. rewrite G in Hg.
          destruct (get_part (ms_book x) (p_idx q')) as [q|] eqn:Eg; [|discriminate]. injection Hg as Hg. exists q. split; [apply get_part_in in Eg; tauto|congruence]. }
        constructor; cbn [ms_mkt ms_book ms_bets ms_pending mstate_upd]; try assumption.
        -- intros Hx. contradiction.
        -- rewrite Sst. intros Hb q' Hq'. destruct (Hq q' Hq') as (q & Hq0 & ->). cbn. apply (ST Hb). exact Hq0.
        -- rewrite Sst. intros Hne. contradiction.
        -- intros q' Hq'. destruct (Hq q' Hq') as (q & Hq0 & E). destruct (SP q Hq0) as [K1 K2 K3 K4].
           assert (Ei : p_idx q' = p_idx q) by (rewrite E; reflexivity).
           rewrite E. constructor; cbn [p_crl p_liq p_fee p_profit p_idx adj_lose part_set_profit part_upd]; try assumption.
           rewrite K4, <- Ei. unfold exp_profit. cbn [ms_mkt ms_bets mstate_upd]. rewrite ED. change (MK_DECLARED =? MK_DECLARED) with true. cbv iota.
           rewrite (attr_upd _ _ _ _ b _ EF); [|unfold is_settled; exact EST|reflexivity|reflexivity|reflexivity].
           unfold contrib, winner. rewrite Hw. cbn [hd]. destruct (Z.eqb_spec (b_odds b) w); [contradiction|]. lia.
        -- apply Hbets.
  - (* the book is marked resolved *)
    constructor; cbn [ms_mkt ms_book ms_bets ms_pending with_book mstate_upd set_status bk_status bk_parts book_upd]; try assumption.
    + intros Hx. exfalso. exact (ai_not_res _ Hx Hres).
    + intros E. discriminate E.
    + intros _. split; assumption.
    + intros p Hp. eapply part_ok_ext; [|apply SP; exact Hp]. apply exp_profit_same; reflexivity.
  - (* a batch of participations is paid *)
    pose proof (batch_parts_qsig _ _ _ _ _ _ _ _ _ HB) as Hs.
    assert (Hne : bk_status (ms_book x) <> BK_ACTIVE) by (rewrite Hbk; discriminate).
    destruct (SD Hne) as [D1 D2].
    constructor; cbn [ms_mkt ms_book ms_bets ms_pending with_book mstate_upd bk_status bk_parts book_upd]; try assumption.
    + intros Hx. exfalso. exact (ai_not_res _ Hx D2).
    + rewrite Hbk. destruct alls; intros E; discriminate E.
    + intros _. split; assumption.
    + intros p' Hp'. destruct (map_eq_in qsig _ _ p' Hs Hp') as (p & Hp & E).
      eapply part_ok_ext; [|eapply part_ok_qsig; [symmetry; exact E|apply SP; exact Hp]]. apply exp_profit_same; reflexivity.
Qed.

Lemma msett_fresh mk : market_new mk -> msett (fresh_ms mk).
Proof.
  intros M. pose proof (mn_status _ M) as Hs. apply status_ai_iff in Hs.
  constructor; cbn [ms_mkt ms_book ms_bets ms_pending fresh_ms new_book bk_status bk_parts].
  - apply mcov_fresh. exact M.
  - left. exact Hs.
  - intros _. split; [reflexivity|intros b []].
  - intros _ p [].
  - intros Hne. contradiction.
  - intros E. exfalso. exact (ai_not_declared _ Hs E).
  - intros p [].
  - intros b [].
Qed.

Theorem settle_over_histories P bk supply vault MP t0 sw sd ops :
  pr_bet_fee P <= pr_bet_min P -> 0 <= pr_bet_fee P ->
  bget bk POOL = 0 -> bget bk HOUSEFEE = 0 -> bget bk BETFEE = 0 -> Forall valid_op ops ->
  forall m x, get_ms (run (init bk supply P vault MP t0 sw sd) ops) m = Some x -> msett x.
Proof.
  intros HP HF. apply (local_invariant P msett).
  - apply msett_fresh.
  - intros x x' I T. eapply msett_step; eassumption.
Qed.

(* Proofs/SubLock.v — two cross-module invariants needed by the no-abort theorem (C05), over every history:
   (1) every market in the order-book settlement queue exists and its book is marked resolved;
   (2) a subaccount's "spent" amount covers the liquidity and fees of the unsettled participations its address owns, so the
       settlement hooks (Unspend) never fail. *)
From Coq Require Import ZArith Bool List Lia.
From Sge Require Import Lib.Dec Model.Types Model.Orderbook Model.Mint Model.Chain Proofs.Tactics Proofs.Supply Proofs.WagerLoop
     Proofs.CustodyLocal Proofs.Custody Proofs.SubInv Proofs.Mono Proofs.BookFacts Proofs.BookAPI Proofs.BookInv Proofs.BookHist Proofs.CoverHist Proofs.SubHist Proofs.Settle.
Import ListNotations.
Open Scope Z_scope.

Definition lproj (p : part) : bool * Z * Z * Z := (p_settled p, p_owner p, p_liq p, p_fee p).
Definition lockl (a : Z) (c : bool * Z * Z * Z) : Z :=
  let '(st, o, l, f) := c in if st then 0 else if o =? a then l + f else 0.
Definition lockp (a : Z) (p : part) : Z := lockl a (lproj p).
Definition lock_book (b : book) (a : Z) : Z := zsum (map (lockp a) (bk_parts b)).
Definition locked (l : list (Z * mstate)) (a : Z) : Z := tot (fun x => lock_book (ms_book x) a) l.

Lemma lock_book_lproj b b' a : map lproj (bk_parts b') = map lproj (bk_parts b) -> lock_book b' a = lock_book b a.
Proof. intros E. unfold lock_book, lockp. rewrite <- !(map_map lproj (lockl a)), E. reflexivity. Qed.

Definition lofc (c : Z * Z * Z * Z * Z * bool) : bool * Z * Z * Z := let '(i, o, l, pr, f, st) := c in (st, o, l, f).
Lemma cproj_lproj l l' : map cproj l' = map cproj l -> map lproj l' = map lproj l.
Proof.
  intros H. assert (E : forall k, map lproj k = map lofc (map cproj k)) by (intros k; rewrite map_map; apply map_ext; intros p; reflexivity).
  rewrite !E, H. reflexivity.
Qed.

Definition owners_below (B : Z) (b : book) : Prop := forall p, In p (bk_parts b) -> p_owner p < B.

Record xinv (s : chain) : Prop := {
  x_bq_nd : NoDup (c_bqueue s);
  x_bq : forall m, In m (c_bqueue s) -> exists x, get_ms s m = Some x /\ bk_status (ms_book x) = BK_RESOLVED;
  x_own : forall e, In e (c_ms s) -> owners_below (SUBBASE + c_subnext s) (ms_book (snd e));
  x_lock : forall y, In y (c_subs s) -> locked (c_ms s) (sub_addr y) <= sa_spent y }.

Lemma owners_lproj B b b' : map lproj (bk_parts b') = map lproj (bk_parts b) -> owners_below B b -> owners_below B b'.
Proof.
  intros E H p' Hp'. destruct (map_eq_in lproj _ _ p' E Hp') as (p & Hp & Eq). unfold lproj in Eq. injection Eq as _ Eo _ _. rewrite <- Eo. apply H. exact Hp.
Qed.

(* ---- frames ---------------------------------------------------------------------------------------------------------------------- *)
Lemma get_ms_set_same s s' m0 x0' : c_ms s' = set_ms_list (c_ms s) m0 x0' -> get_ms s' m0 = Some x0'.
Proof. intros E. unfold get_ms, findb. rewrite E, get_set_same. reflexivity. Qed.
Lemma get_ms_set_other s s' m0 x0' m : c_ms s' = set_ms_list (c_ms s) m0 x0' -> m <> m0 -> get_ms s' m = get_ms s m.
Proof. intros E Hne. unfold get_ms, findb. rewrite E, (get_set_other _ _ _ _ Hne). reflexivity. Qed.

Lemma locked_set l m x x' a : find (fun e => fst e =? m) l = Some (m, x) ->
  locked (set_ms_list l m x') a = locked l a - lock_book (ms_book x) a + lock_book (ms_book x') a.
Proof. intros H. unfold locked. rewrite (tot_set _ _ _ _ x' H). reflexivity. Qed.

Lemma xinv_same s s' : c_bqueue s' = c_bqueue s -> c_ms s' = c_ms s -> c_subs s' = c_subs s -> c_subnext s' = c_subnext s -> xinv s -> xinv s'.
Proof.
  intros Q M S N [A B C D]. constructor; rewrite ?Q, ?M, ?S, ?N; try assumption.
  intros m Hm. destruct (B m Hm) as (x & Hg & Hs). exists x. split; [rewrite (get_ms_ext s s' m M); exact Hg|exact Hs].
Qed.

(* one market record changes; the status of its book does not; the id counter does not decrease *)
Lemma xinv_upd s s' m0 x0 x0' :
  get_ms s m0 = Some x0 -> c_ms s' = set_ms_list (c_ms s) m0 x0' -> c_bqueue s' = c_bqueue s ->
  bk_status (ms_book x0') = bk_status (ms_book x0) -> c_subnext s <= c_subnext s' ->
  owners_below (SUBBASE + c_subnext s') (ms_book x0') ->
  (forall y', In y' (c_subs s') -> exists y, In y (c_subs s) /\ sub_addr y' = sub_addr y /\
     lock_book (ms_book x0') (sub_addr y) - lock_book (ms_book x0) (sub_addr y) <= sa_spent y' - sa_spent y) ->
  xinv s -> xinv s'.
Proof.
  intros Hg E Q St N O S [ND B C L]. constructor.
  - rewrite Q. exact ND.
  - intros m Hm. rewrite Q in Hm. destruct (B m Hm) as (x & Hgx & Hs). destruct (Z.eq_dec m m0) as [->|Hne].
    + exists x0'. split; [apply (get_ms_set_same s s' m0 x0' E)|]. rewrite Hg in Hgx. injection Hgx as <-. congruence.
    + exists x. split; [rewrite (get_ms_set_other s s' m0 x0' m E Hne); exact Hgx|exact Hs].
  - intros e He. rewrite E in He. unfold set_ms_list in He. apply in_upd in He. destruct He as [->|He]; [exact O|].
    intros p Hp. pose proof (C e He p Hp). lia.
  - intros y' Hy'. destruct (S y' Hy') as (y & Hy & Ea & Hd). rewrite Ea, E, (locked_set _ _ _ x0' _ (get_ms_find _ _ _ Hg)).
    pose proof (L y Hy). lia.
Qed.

Lemma subs_same_rel (subs : list subacc) d : (forall a, d a <= 0) ->
  forall y', In y' subs -> exists y, In y subs /\ sub_addr y' = sub_addr y /\ d (sub_addr y) <= sa_spent y' - sa_spent y.
Proof. intros Hd y Hy. exists y. split; [exact Hy|]. split; [reflexivity|]. pose proof (Hd (sub_addr y)). lia. Qed.

(* participations owned by user accounts do not count for any subaccount address *)
Lemma lockp_user a p : p_owner p < SUBBASE -> SUBBASE <= a -> lockp a p = 0.
Proof. intros H1 H2. unfold lockp, lproj, lockl. destruct (p_settled p); [reflexivity|]. destruct (Z.eqb_spec (p_owner p) a); [lia|reflexivity]. Qed.

Lemma sub_addr_ge y : 0 <= sa_id y -> SUBBASE <= sub_addr y. Proof. unfold sub_addr. lia. Qed.

(* ---- what a list of effects releases from the "spent" amount of the subaccount at address a ------------------------------------------------ *)
Definition unsp_e (a : Z) (e : effect) : Z :=
  match e with
  | Pay _ _ _ => 0
  | HookWin x liq _ => if x =? a then liq else 0
  | HookLoss x liq _ => if x =? a then liq else 0
  | HookRefund x amt => if x =? a then amt else 0
  | HookFeeRefund x fee => if x =? a then fee else 0
  end.
Definition unsp (a : Z) (effs : list effect) : Z := zsum (map (unsp_e a) effs).
Lemma unsp_app a e1 e2 : unsp a (e1 ++ e2) = unsp a e1 + unsp a e2.
Proof. unfold unsp. rewrite map_app, zsum_app. reflexivity. Qed.

Definition spent_rel (subs subs' : list subacc) (d : Z -> Z) : Prop :=
  NoDup (map sa_id subs') /\ forall y', In y' subs' -> exists y, In y subs /\ sa_id y' = sa_id y /\ sa_spent y' = sa_spent y - d (sub_addr y).

Lemma spent_rel_refl subs : NoDup (map sa_id subs) -> spent_rel subs subs (fun _ => 0).
Proof. intros H. split; [exact H|]. intros y Hy. exists y. repeat split; try assumption; lia. Qed.

Lemma hook_sub_spent b subs a g fwd b' subs' amt :
  NoDup (map sa_id subs) -> (forall x x', g x = Some x' -> sa_id x' = sa_id x /\ sa_spent x' = sa_spent x - amt) ->
  hook_sub b subs a g fwd = Some (b', subs') -> spent_rel subs subs' (fun adr => if a =? adr then amt else 0).
Proof.
  unfold hook_sub. intros Hnd Hg H. destruct (sub_by_addr subs a) as [x|] eqn:EA.
  - destruct (sub_by_addr_spec _ _ _ EA) as [Hin Hadr]. destruct (g x) as [x'|] eqn:EG; [|discriminate]. destruct (Hg _ _ EG) as [E1 E2].
    assert (S : subs' = set_sub subs x').
    { destruct (fwd =? 0); [injection H as _ <-; reflexivity|]. destruct (pay b a (sa_owner x) fwd); [|discriminate]. injection H as _ <-. reflexivity. }
    subst subs'. split; [rewrite (set_sub_ids subs x x' Hin E1); exact Hnd|].
    intros y' Hy'. destruct (in_set_sub _ _ _ Hnd Hy') as [->|[Hy Hne]].
    + exists x. split; [exact Hin|]. split; [exact E1|]. rewrite Hadr, Z.eqb_refl. exact E2.
    + exists y'. split; [exact Hy|]. split; [reflexivity|]. destruct (Z.eqb_spec a (sub_addr y')) as [E|E]; [|lia].
      exfalso. apply Hne. rewrite E1. apply sub_addr_inj. congruence.
  - injection H as _ <-. split; [exact Hnd|]. intros y Hy. exists y. split; [exact Hy|]. split; [reflexivity|].
    destruct (Z.eqb_spec a (sub_addr y)) as [E|E]; [|lia]. exfalso.
    unfold sub_by_addr, findb in EA. apply (find_none _ _ EA) in Hy. apply Z.eqb_neq in Hy. apply Hy. symmetry. exact E.
Qed.

Lemma unspend_spent x a x' : sub_unspend x a = Some x' -> sa_id x' = sa_id x /\ sa_spent x' = sa_spent x - a.
Proof. unfold sub_unspend. intros H. dmatch H. inv H. split; reflexivity. Qed.
Lemma unspend_loss_spent x liq lost x' : (match sub_unspend x liq with Some y => sub_addloss y lost | None => None end) = Some x' ->
  sa_id x' = sa_id x /\ sa_spent x' = sa_spent x - liq.
Proof.
  intros H. destruct (sub_unspend x liq) as [y|] eqn:E; [|discriminate]. destruct (unspend_spent _ _ _ E) as [A B].
  unfold sub_addloss in H. dmatch H. inv H. cbn. split; assumption.
Qed.

Lemma spent_rel_trans s0 s1 s2 d1 d2 : spent_rel s0 s1 d1 -> spent_rel s1 s2 d2 -> spent_rel s0 s2 (fun a => d1 a + d2 a).
Proof.
  intros [N1 R1] [N2 R2]. split; [exact N2|]. intros y2 Hy2. destruct (R2 y2 Hy2) as (y1 & Hy1 & I2 & S2). destruct (R1 y1 Hy1) as (y0 & Hy0 & I1 & S1).
  exists y0. split; [exact Hy0|]. split; [congruence|]. assert (sub_addr y1 = sub_addr y0) by (unfold sub_addr; congruence). rewrite S2, S1, H. lia.
Qed.

Lemma spent_rel_ext s0 s1 d d' : (forall a, d a = d' a) -> spent_rel s0 s1 d -> spent_rel s0 s1 d'.
Proof. intros E [N R]. split; [exact N|]. intros y' Hy'. destruct (R y' Hy') as (y & A & B & C). exists y. rewrite <- E. repeat split; assumption. Qed.

Lemma apply_effects_spent effs : forall b subs b' subs', NoDup (map sa_id subs) ->
  apply_effects b subs effs = Some (b', subs') -> spent_rel subs subs' (fun a => unsp a effs).
Proof.
  induction effs as [|e r IH]; intros b subs b' subs' Hnd H; cbn [apply_effects] in H.
  - injection H as _ <-. apply spent_rel_refl. exact Hnd.
  - assert (K : forall b1 s1 amt x, spent_rel subs s1 (fun adr => if x =? adr then amt else 0) -> (forall a, unsp_e a e = if x =? a then amt else 0) ->
                  apply_effects b1 s1 r = Some (b', subs') -> spent_rel subs subs' (fun a => unsp a (e :: r))).
    { intros b1 s1 amt x R1 He H1. eapply spent_rel_ext; [|eapply spent_rel_trans; [exact R1|eapply IH; [apply R1|exact H1]]].
      intros a. unfold unsp. cbn [map zsum]. rewrite He. reflexivity. }
    destruct e as [f t a|a liq profit|a liq lost|a amt|a fee].
    + destruct (pay b f t a) as [b1|]; [|discriminate]. eapply (K b1 subs 0 0); [|intros a0; cbn [unsp_e]; destruct (0 =? a0); reflexivity|exact H].
      eapply spent_rel_ext; [|apply spent_rel_refl; exact Hnd]. intros adr. destruct (0 =? adr); reflexivity.
    + destruct (hook_sub b subs a (fun x => sub_unspend x liq) profit) as [[b1 s1]|] eqn:EH; [|discriminate].
      eapply (K b1 s1 liq a); [|reflexivity|exact H]. eapply hook_sub_spent; [exact Hnd| |exact EH]. intros x x' E. exact (unspend_spent _ _ _ E).
    + destruct (hook_sub b subs a _ 0) as [[b1 s1]|] eqn:EH; [|discriminate].
      eapply (K b1 s1 liq a); [|reflexivity|exact H]. eapply hook_sub_spent; [exact Hnd| |exact EH]. intros x x' E. exact (unspend_loss_spent _ _ _ _ E).
    + destruct (hook_sub b subs a (fun x => sub_unspend x amt) 0) as [[b1 s1]|] eqn:EH; [|discriminate].
      eapply (K b1 s1 amt a); [|reflexivity|exact H]. eapply hook_sub_spent; [exact Hnd| |exact EH]. intros x x' E. exact (unspend_spent _ _ _ E).
    + destruct (hook_sub b subs a (fun x => sub_unspend x fee) 0) as [[b1 s1]|] eqn:EH; [|discriminate].
      eapply (K b1 s1 fee a); [|reflexivity|exact H]. eapply hook_sub_spent; [exact Hnd| |exact EH]. intros x x' E. exact (unspend_spent _ _ _ E).
Qed.

(* what the settlement of participations releases is at most what they had locked *)
Lemma settle_participation_unsp p st creator p' effs a :
  settle_participation p st creator = Some (p', effs) -> 0 <= p_liq p -> 0 <= p_fee p -> unsp a effs <= lockp a p - lockp a p'.
Proof.
  unfold settle_participation. intros H Hl Hf. destruct (p_settled p) eqn:Es; [discriminate|].
  assert (L' : forall r1 r2, lockp a (part_settle p r1 r2) = 0) by (intros; reflexivity).
  assert (L : lockp a p = if p_owner p =? a then p_liq p + p_fee p else 0) by (unfold lockp, lproj, lockl; rewrite Es; reflexivity).
  destruct (st =? MK_DECLARED).
  - destruct (p_tba p =? 0); injection H as <- <-; rewrite L', L; unfold unsp; cbn [map zsum unsp_e]; destruct (p_profit p <? 0); cbn [unsp_e]; destruct (p_owner p =? a); lia.
  - destruct ((st =? MK_CANCELED) || (st =? MK_ABORTED)); [|discriminate]. injection H as <- <-. rewrite L', L. unfold unsp. cbn [map zsum unsp_e]. destruct (p_owner p =? a); lia.
Qed.

Lemma batch_parts_unsp ps a : forall st creator limit cnt alls c ps' effs,
  batch_parts ps st creator limit cnt = Some (alls, c, ps', effs) -> (forall p, In p ps -> 0 <= p_liq p /\ 0 <= p_fee p) ->
  unsp a effs <= zsum (map (lockp a) ps) - zsum (map (lockp a) ps').
Proof.
  induction ps as [|p r IH]; intros st creator limit cnt alls c ps' effs H Hn; cbn [batch_parts] in H; [inv H; cbn; lia|].
  assert (Hr : forall q, In q r -> 0 <= p_liq q /\ 0 <= p_fee q) by (intros q Hq; apply Hn; right; exact Hq).
  destruct (p_settled p).
  - destruct (limit <=? cnt); [inv H; unfold unsp; cbn; lia|].
    destruct (batch_parts r st creator limit cnt) as [[[[a2 c2] ps2] e2]|] eqn:EB; [|discriminate]. inv H. cbn [app map zsum].
    pose proof (IH _ _ _ _ _ _ _ _ EB Hr). lia.
  - destruct (settle_participation p st creator) as [[p1 e1]|] eqn:ES; [|discriminate].
    destruct (Hn p (or_introl eq_refl)) as [Hl Hf].
    pose proof (settle_participation_unsp _ _ _ _ _ a ES Hl Hf) as U1.
    destruct (limit <=? cnt + 1); [inv H; cbn [map zsum]; lia|].
    destruct (batch_parts r st creator limit (cnt + 1)) as [[[[a2 c2] ps2] e2]|] eqn:EB; [|discriminate]. inv H.
    rewrite unsp_app. cbn [map zsum]. pose proof (IH _ _ _ _ _ _ _ _ EB Hr). lia.
Qed.

(* ---- the book functions ------------------------------------------------------------------------------------------------------------ *)
Lemma init_participation_lock b mx owner amount fee b' idx effs a :
  init_participation b mx owner amount fee = Some (b', idx, effs) ->
  lock_book b' a = lock_book b a + (if owner =? a then amount else 0) /\
  bk_status b' = bk_status b /\
  forall B, owners_below B b -> owner < B -> owners_below B b'.
Proof.
  unfold init_participation. intros H.
  destruct (negb (bk_status b =? BK_ACTIVE)) eqn:ES; [discriminate|].
  destruct (mx <=? bk_partcnt b); [discriminate|].
  destruct (get_part b (bk_partcnt b + 1)) eqn:EG; [discriminate|].
  inv H.
  match goal with |- context [fold_left ?f ?qs ?x] => destruct (fold_init_parts qs x (bk_partcnt b + 1)) as [HP HS] end.
  unfold lock_book, owners_below. cbn [bk_parts bk_status book_upd]. rewrite HP, HS.
  unfold set_part. cbn [bk_parts bk_status book_upd].
  assert (Hnone : find (part_is (bk_partcnt b + 1)) (bk_parts b) = None) by exact EG.
  rewrite (upd_absent_app _ _ _ Hnone). rewrite !map_app, !zsum_app. cbn [map zsum].
  split; [|split; [reflexivity|]].
  - unfold lockp at 2. unfold lproj, lockl. cbn [p_settled p_owner p_liq p_fee]. destruct (owner =? a); lia.
  - intros B HB Ho p Hp. apply in_app_or in Hp. destruct Hp as [Hp|[<-|[]]]; [apply HB; exact Hp|exact Ho].
Qed.

Lemma withdraw_participation_lock b idx amt b' effs p a :
  withdraw_participation b idx amt = Some (b', effs) -> get_part b idx = Some p -> p_settled p = false ->
  lock_book b' a = lock_book b a - (if p_owner p =? a then amt else 0) /\
  forall B, owners_below B b -> owners_below B b'.
Proof.
  unfold withdraw_participation. intros H Hg Hs. rewrite Hg in H.
  set (p' := part_upd p (p_liq p - amt) (p_crl p - amt) (p_enf p) (p_tba p) (p_crtb p) (p_maxloss p) (p_crml p) (p_crml_odds p) (p_profit p)) in *.
  assert (Hidx : p_idx p' = idx).
  { unfold get_part, findb in Hg. apply find_some in Hg. destruct Hg as [_ Hg]. unfold part_is in Hg. apply Z.eqb_eq in Hg. exact Hg. }
  assert (K : lock_book (set_part b p') a = lock_book b a - (if p_owner p =? a then amt else 0) /\
              forall B, owners_below B b -> owners_below B (set_part b p')).
  { split.
    - unfold lock_book, set_part. cbn [bk_parts book_upd]. rewrite Hidx.
      rewrite (upd_sum_found _ (lockp a) p' p _ Hg). unfold lockp, lproj, lockl. cbn [p' part_upd p_settled p_owner p_liq p_fee]. rewrite Hs.
      destruct (p_owner p =? a); lia.
    - intros B HB q Hq. apply in_set_part in Hq. destruct Hq as [->|Hq]; [|apply HB; exact Hq].
      cbn. apply HB. apply get_part_in in Hg. tauto. }
  destruct (0 <? p_crl p'); [injection H as <- _; exact K|].
  destruct (remove_from_queues _ _); [|discriminate]. injection H as <- _. exact K.
Qed.

Lemma set_part_profit_lproj b p v : get_part b (p_idx p) = Some p ->
  map lproj (bk_parts (set_part b (part_set_profit p v))) = map lproj (bk_parts b).
Proof. intros Hg. unfold set_part. cbn [bk_parts book_upd]. eapply upd_map_first; [exact Hg|reflexivity]. Qed.

Lemma bettor_wins_lproj fs : forall b bettor b' effs, bettor_wins b bettor fs = Some (b', effs) ->
  map lproj (bk_parts b') = map lproj (bk_parts b).
Proof.
  induction fs as [|f r IH]; intros b bettor b' effs H; cbn [bettor_wins] in H; [inv H; reflexivity|].
  destruct (get_part b (f_idx f)) as [p|] eqn:EG; [|discriminate].
  destruct (get_part_in _ _ _ EG) as [_ Hi]. rewrite <- Hi in EG.
  destruct (bettor_wins _ bettor r) as [[b2 effs2]|] eqn:ER; [|discriminate]. inv H.
  rewrite (IH _ _ _ _ ER). apply set_part_profit_lproj. exact EG.
Qed.
Lemma bettor_loses_lproj fs : forall b b', bettor_loses b fs = Some b' -> map lproj (bk_parts b') = map lproj (bk_parts b).
Proof.
  induction fs as [|f r IH]; intros b b' H; cbn [bettor_loses] in H; [inv H; reflexivity|].
  destruct (get_part b (f_idx f)) as [p|] eqn:EG; [|discriminate].
  destruct (get_part_in _ _ _ EG) as [_ Hi]. rewrite <- Hi in EG.
  rewrite (IH _ _ H). apply set_part_profit_lproj. exact EG.
Qed.

Definition pays_only (effs : list effect) : Prop := forall e, In e effs -> exists f t a, e = Pay f t a.
Lemma pays_only_subs effs : pays_only effs -> forall b subs b' subs', apply_effects b subs effs = Some (b', subs') -> subs' = subs.
Proof.
  induction effs as [|e r IH]; intros Hp b subs b' subs' H; cbn [apply_effects] in H; [injection H as _ <-; reflexivity|].
  destruct (Hp e (or_introl eq_refl)) as (f & t & a & ->). destruct (pay b f t a); [|discriminate].
  eapply IH; [intros e He; apply Hp; right; exact He|exact H].
Qed.

Lemma settle_bet_lproj x h id x' effs : settle_bet x h id = Some (x', effs) ->
  map lproj (bk_parts (ms_book x')) = map lproj (bk_parts (ms_book x)) /\ pays_only effs.
Proof.
  unfold settle_bet. cbv zeta. intros H.
  destruct (findb _ _) as [b|]; [|discriminate]. destruct (b_status b =? BS_SETTLED); [discriminate|].
  destruct ((k_status (ms_mkt x) =? MK_ABORTED) || (k_status (ms_mkt x) =? MK_CANCELED)).
  - destruct (payout_profit _ _); [|discriminate]. injection H as <- <-. split; [reflexivity|].
    intros e [<-|[<-|[]]]; eexists _, _, _; reflexivity.
  - destruct (negb _); [discriminate|]. destruct (zmem _ _).
    + destruct (bettor_wins _ _ _) as [[bk e0]|] eqn:EB; [|discriminate]. injection H as <- <-.
      split; [apply (bettor_wins_lproj _ _ _ _ _ EB)|].
      rewrite (bettor_wins_effs _ _ _ _ _ EB).
      intros e He. apply in_app_or in He. destruct He as [He|[<-|[]]]; [|eexists _, _, _; reflexivity].
      apply in_map_iff in He. destruct He as (f & <- & _). eexists _, _, _; reflexivity.
    + destruct (bettor_loses _ _) as [bk|] eqn:EB; [|discriminate]. injection H as <- <-.
      split; [apply (bettor_loses_lproj _ _ _ EB)|]. intros e [<-|[]]. eexists _, _, _; reflexivity.
Qed.

(* ---- the handlers ---------------------------------------------------------------------------------------------------------------------- *)
Lemma xinv_upd_lproj s s' m0 x0 x0' :
  get_ms s m0 = Some x0 -> c_ms s' = set_ms_list (c_ms s) m0 x0' -> c_bqueue s' = c_bqueue s -> c_subs s' = c_subs s -> c_subnext s' = c_subnext s ->
  bk_status (ms_book x0') = bk_status (ms_book x0) -> map lproj (bk_parts (ms_book x0')) = map lproj (bk_parts (ms_book x0)) ->
  xinv s -> xinv s'.
Proof.
  intros Hg E Q S N St Lp I. eapply (xinv_upd s s' m0 x0 x0' Hg E Q St); [lia| | |exact I].
  - rewrite N. eapply owners_lproj; [exact Lp|]. apply (x_own _ I (m0, x0)). apply get_ms_in. exact Hg.
  - rewrite S. apply (subs_same_rel (c_subs s) (fun adr => lock_book (ms_book x0') adr - lock_book (ms_book x0) adr)).
    intros a. rewrite (lock_book_lproj _ _ a Lp). lia.
Qed.

Lemma lock_book_new odds a : lock_book (new_book odds) a = 0. Proof. reflexivity. Qed.

Lemma market_add_xinv s sg tk u st en od sts s' : market_add s sg tk u st en od sts = Some s' -> xinv s -> xinv s'.
Proof.
  intros H [ND B C L]. unfold market_add in H. dmatchS H. inv H. constructor; cbn [c_bqueue c_ms c_subs c_subnext chain_upd].
  - exact ND.
  - intros m Hm. destruct (B m Hm) as (x & Hg & Hs). exists x. split; [|exact Hs]. unfold get_ms, findb in *. cbn [c_ms chain_upd].
    destruct (find (fun e => fst e =? m) (c_ms s)) as [e|] eqn:Efd; [|discriminate]. rewrite (find_app_l _ _ _ _ Efd). exact Hg.
  - intros e He. apply in_app_or in He. destruct He as [He|[<-|[]]]; [apply C; exact He|intros p []].
  - intros y Hy. unfold locked. rewrite tot_app. cbn [snd ms_book]. rewrite lock_book_new. pose proof (L y Hy). unfold locked in H. lia.
Qed.

Lemma market_update_xinv s tk u st en sts s' : market_update s tk u st en sts = Some s' -> xinv s -> xinv s'.
Proof.
  intros H I. unfold market_update in H. dmatchS H. inv H.
  match goal with E : get_ms s u = Some ?x |- _ => eapply (xinv_upd_lproj s _ u x _ E); try reflexivity; exact I end.
Qed.

Lemma market_resolve_xinv s tk u r w sts s' : market_resolve s tk u r w sts = Some s' -> xinv s -> xinv s'.
Proof.
  intros H I. unfold market_resolve in H. dmatchS H. inv H.
  match goal with E : get_ms s u = Some ?x |- _ => eapply (xinv_upd_lproj s _ u x _ E); try reflexivity; exact I end.
Qed.

(* the three order-book entry points: the record of one market changes *)
Lemma house_deposit_core_x s c d m a g s' : house_deposit_core s c d m a g = Some s' ->
  exists x0 x0', get_ms s m = Some x0 /\ c_ms s' = set_ms_list (c_ms s) m x0' /\ c_bqueue s' = c_bqueue s /\ c_subs s' = c_subs s /\
    c_subnext s' = c_subnext s /\ bk_status (ms_book x0') = bk_status (ms_book x0) /\
    (forall adr, lock_book (ms_book x0') adr = lock_book (ms_book x0) adr + (if d =? adr then a else 0)) /\
    (forall B, owners_below B (ms_book x0) -> d < B -> owners_below B (ms_book x0')).
Proof.
  intros H. unfold house_deposit_core in H.
  destruct (get_ms s m) as [x|] eqn:EG; [|discriminate]. destruct (negb _); [discriminate|].
  destruct (init_participation _ _ _ _ _) as [[[bk idx] effs]|] eqn:EI; [|discriminate].
  destruct (apply_effects _ _ _) as [[bank' subs']|] eqn:EA; [|discriminate]. inv H.
  destruct (init_participation_delta _ _ _ _ _ _ _ _ EI) as (_ & _ & Ee & _). rewrite Ee in EA.
  assert (subs' = c_subs s). { eapply pays_only_subs; [|exact EA]. intros e [<-|[<-|[]]]; eexists _, _, _; reflexivity. } subst subs'.
  eexists x, _. split; [reflexivity|]. split; [reflexivity|]. split; [reflexivity|]. split; [reflexivity|]. split; [reflexivity|].
  cbn [ms_book mstate_upd].
  split; [|split]; [apply (init_participation_lock _ _ _ _ _ _ _ _ 0 EI)|intros adr; apply (init_participation_lock _ _ _ _ _ _ _ _ adr EI)|apply (init_participation_lock _ _ _ _ _ _ _ _ 0 EI)].
Qed.

Lemma withdraw_core_x s sg d m pidx mo a ob s' amt : withdraw_core s sg d m pidx mo a ob = Some (s', amt) ->
  exists x0 x0', get_ms s m = Some x0 /\ c_ms s' = set_ms_list (c_ms s) m x0' /\ c_bqueue s' = c_bqueue s /\ c_subs s' = c_subs s /\
    c_subnext s' = c_subnext s /\ bk_status (ms_book x0') = bk_status (ms_book x0) /\
    (forall adr, lock_book (ms_book x0') adr = lock_book (ms_book x0) adr - (if d =? adr then amt else 0)) /\
    (forall B, owners_below B (ms_book x0) -> owners_below B (ms_book x0')).
Proof.
  intros H. unfold withdraw_core in H.
  destruct (get_ms s m) as [x|] eqn:EG; [|discriminate]. destruct (findb _ _); [|discriminate]. destruct (_ <=? _); [discriminate|].
  destruct (calc_withdrawal _ _ _ _ _ _) as [amt0|] eqn:EC; [|discriminate]. destruct (if ob then _ else _); [|discriminate].
  destruct (withdraw_participation _ _ _) as [[bk effs]|] eqn:EP; [|discriminate].
  destruct (apply_effects _ _ _) as [[bank' subs']|] eqn:EA; [|discriminate]. injection H as <- <-.
  destruct (calc_withdrawal_spec _ _ _ _ _ _ _ EC) as (p & Gp & Hset & Eow & _).
  destruct (withdraw_participation_delta _ _ _ _ _ _ EP Gp Hset) as (_ & _ & Ee & Hst & _).
  assert (subs' = c_subs s). { eapply pays_only_subs; [|exact EA]. rewrite Ee. intros e [<-|[]]; eexists _, _, _; reflexivity. } subst subs'.
  eexists x, _. split; [reflexivity|]. split; [reflexivity|]. split; [reflexivity|]. split; [reflexivity|]. split; [reflexivity|].
  cbn [ms_book mstate_upd]. split; [exact Hst|].
  split; [intros adr; rewrite <- Eow; apply (withdraw_participation_lock _ _ _ _ _ _ adr EP Gp Hset)|apply (withdraw_participation_lock _ _ _ _ _ _ 0 EP Gp Hset)].
Qed.

Lemma wager_core_x s sg u a sm so ov mu al s' : wager_core s sg u a sm so ov mu al = Some s' ->
  (forall e, In e (c_ms s) -> NoDup (map p_idx (bk_parts (ms_book (snd e))))) ->
  exists x0 x0', get_ms s sm = Some x0 /\ c_ms s' = set_ms_list (c_ms s) sm x0' /\ c_bqueue s' = c_bqueue s /\ c_subs s' = c_subs s /\
    c_subnext s' = c_subnext s /\ bk_status (ms_book x0') = bk_status (ms_book x0) /\
    map lproj (bk_parts (ms_book x0')) = map lproj (bk_parts (ms_book x0)).
Proof.
  intros H Hinv. unfold wager_core in H.
  destruct (get_ms s sm) as [x|] eqn:EM; [|discriminate]. dmatchS H. inv H.
  pose proof (Hinv _ (get_ms_in _ _ _ EM)) as Hx. cbn [snd] in Hx.
  match goal with E : process_wager _ _ _ _ _ _ = Some _ |- _ =>
    pose proof (process_wager_cproj _ _ _ _ _ _ _ _ _ E (nodup_cidx_unique _ Hx)) as Hcp;
    pose proof (process_wager_status _ _ _ _ _ _ _ _ _ E) as Hst;
    destruct (process_wager_effects _ _ _ _ _ _ _ _ _ E) as [Ee _] end.
  match goal with E : apply_effects _ _ ?effs = Some (_, ?s1) |- _ =>
    assert (s1 = c_subs s) by (eapply pays_only_subs; [|exact E]; rewrite Ee; intros e [<-|[<-|[]]]; eexists _, _, _; reflexivity) end. subst.
  eexists x, _. split; [reflexivity|]. split; [reflexivity|]. split; [reflexivity|]. split; [reflexivity|]. split; [reflexivity|].
  cbn [ms_book mstate_upd]. split; [exact Hst|apply cproj_lproj; exact Hcp].
Qed.


Lemma xinv_subs s s' : c_ms s' = c_ms s -> c_bqueue s' = c_bqueue s -> c_subnext s <= c_subnext s' ->
  (forall y', In y' (c_subs s') -> exists y, In y (c_subs s) /\ sub_addr y' = sub_addr y /\ sa_spent y <= sa_spent y') ->
  xinv s -> xinv s'.
Proof.
  intros M Q N S [ND B C L]. constructor; rewrite ?M, ?Q; try assumption.
  - intros m Hm. destruct (B m Hm) as (x & Hg & Hs). exists x. split; [rewrite (get_ms_ext s s' m M); exact Hg|exact Hs].
  - intros e He p Hp. pose proof (C e He p Hp). lia.
  - intros y' Hy'. destruct (S y' Hy') as (y & Hy & Ea & Hsp). rewrite Ea. pose proof (L y Hy). lia.
Qed.

Lemma locked_zero l B a : (forall e, In e l -> owners_below B (ms_book (snd e))) -> B <= a -> locked l a = 0.
Proof.
  intros H Ha. unfold locked, tot. induction l as [|e r IH]; cbn [map zsum]; [reflexivity|].
  rewrite IH by (intros e' He'; apply H; right; exact He').
  assert (lock_book (ms_book (snd e)) a = 0); [|lia]. unfold lock_book.
  assert (K : forall ps, (forall p, In p ps -> p_owner p < B) -> zsum (map (lockp a) ps) = 0).
  { induction ps as [|p ps IHp]; intros Hp; cbn [map zsum]; [reflexivity|]. rewrite IHp by (intros q Hq; apply Hp; right; exact Hq).
    pose proof (Hp p (or_introl eq_refl)). unfold lockp, lproj, lockl. destruct (p_settled p); [reflexivity|]. destruct (Z.eqb_spec (p_owner p) a); lia. }
  apply K. apply (H e (or_introl eq_refl)).
Qed.

(* ---- the end blockers ------------------------------------------------------------------------------------------------------------------------- *)
Lemma settle_bet_status x h id x' effs : settle_bet x h id = Some (x', effs) -> bk_status (ms_book x') = bk_status (ms_book x).
Proof.
  unfold settle_bet. cbv zeta. intros H.
  destruct (findb _ _) as [b|]; [|discriminate]. destruct (b_status b =? BS_SETTLED); [discriminate|].
  destruct ((k_status (ms_mkt x) =? MK_ABORTED) || (k_status (ms_mkt x) =? MK_CANCELED)).
  - destruct (payout_profit _ _); [|discriminate]. injection H as <- _. reflexivity.
  - destruct (negb _); [discriminate|]. destruct (zmem _ _).
    + destruct (bettor_wins _ _ _) as [[bk e0]|] eqn:EB; [|discriminate]. injection H as <- _. apply (bettor_wins_parts _ _ _ _ _ EB).
    + destruct (bettor_loses _ _) as [bk|] eqn:EB; [|discriminate]. injection H as <- _. apply (bettor_loses_parts _ _ _ EB).
Qed.

Lemma settle_bets_x ids : forall x bk subs h sidx cnt x' bk' subs' sidx' cnt',
  settle_bets ids x bk subs h sidx cnt = Some (x', bk', subs', sidx', cnt') ->
  map lproj (bk_parts (ms_book x')) = map lproj (bk_parts (ms_book x)) /\ subs' = subs /\ bk_status (ms_book x') = bk_status (ms_book x).
Proof.
  induction ids as [|id r IH]; intros x bk subs h sidx cnt x' bk' subs' sidx' cnt' H; cbn [settle_bets] in H.
  - inv H. repeat split.
  - destruct (settle_bet x h id) as [[x1 effs]|] eqn:ES; [|discriminate].
    destruct (apply_effects bk subs effs) as [[bk1 subs1]|] eqn:EA; [|discriminate].
    destruct (settle_bet_lproj _ _ _ _ _ ES) as [L1 P1]. pose proof (settle_bet_status _ _ _ _ _ ES) as S1.
    pose proof (pays_only_subs _ P1 _ _ _ _ EA) as ->.
    destruct (IH _ _ _ _ _ _ _ _ _ _ _ H) as (L2 & -> & S2). split; [congruence|]. split; [reflexivity|congruence].
Qed.

Lemma bet_endblock_xinv fuel : forall s n s', bet_endblock fuel s n = Some s' -> xinv s -> xinv s'.
Proof.
  induction fuel as [|f IH]; intros s n s' H I; cbn [bet_endblock] in H.
  - destruct (n <=? 0); [inv H; exact I|discriminate].
  - destruct (n <=? 0); [inv H; exact I|].
    destruct (c_mqueue s) as [|m q] eqn:EQ; [inv H; exact I|].
    destruct (get_ms s m) as [x|] eqn:Hg; [|discriminate].
    destruct (settle_bets _ x (c_bank s) (c_subs s) (c_height s) (c_settledix s) 0) as [[[[[x1 bk1] subs1] sidx1] cnt]|] eqn:ES; [|discriminate].
    destruct (settle_bets_x _ _ _ _ _ _ _ _ _ _ _ _ ES) as (Lp & -> & St).
    destruct (ms_pending x1) eqn:EP.
    + destruct (negb (bk_status (ms_book x1) =? BK_ACTIVE)) eqn:EA; [discriminate|]. apply negb_false_iff, Z.eqb_eq in EA.
      eapply IH; [exact H|]. destruct I as [ND B C L].
      assert (Hni : ~ In m (c_bqueue s)).
      { intros Hin. destruct (B m Hin) as (x0 & Hg0 & Hs0). rewrite Hg in Hg0. injection Hg0 as <-. rewrite <- St, EA in Hs0. discriminate. }
      constructor; cbn [c_bqueue c_ms c_subs c_subnext chain_upd with_subs chain_set_subs].
      * apply NoDup_snoc; assumption.
      * intros m' Hm'. apply in_app_or in Hm'. destruct (Z.eq_dec m' m) as [->|Hne].
        -- eexists. split; [unfold get_ms, findb; cbn [c_ms chain_upd]; rewrite get_set_same; reflexivity|reflexivity].
        -- destruct Hm' as [Hm'|[E|[]]]; [|exfalso; apply Hne; symmetry; exact E]. destruct (B m' Hm') as (x0 & Hg0 & Hs0). exists x0. split; [|exact Hs0].
           unfold get_ms, findb in *. cbn [c_ms chain_upd]. rewrite (get_set_other _ _ _ _ Hne). exact Hg0.
      * intros e He. unfold set_ms_list in He. apply in_upd in He. destruct He as [->|He]; [|apply C; exact He].
        cbn [snd ms_book mstate_upd]. intros p Hp. change (bk_parts (set_status (ms_book x1) BK_RESOLVED)) with (bk_parts (ms_book x1)) in Hp.
        eapply (owners_lproj _ (ms_book x) (ms_book x1) Lp); [|exact Hp]. apply (C (m, x)). apply get_ms_in. exact Hg.
      * intros y Hy. rewrite (locked_set _ _ _ _ _ (get_ms_find _ _ _ Hg)). cbn [ms_book mstate_upd].
        assert (E : lock_book (set_status (ms_book x1) BK_RESOLVED) (sub_addr y) = lock_book (ms_book x) (sub_addr y)) by (apply lock_book_lproj; exact Lp).
        rewrite E. pose proof (L y Hy). lia.
    + eapply IH; [exact H|]. eapply (xinv_upd_lproj s _ m x x1 Hg); try reflexivity; try assumption.
Qed.

Lemma remove_first_notin m l : NoDup l -> ~ In m (remove_first m l).
Proof.
  induction l as [|h t IH]; cbn; intros Hnd; [tauto|]. inversion Hnd as [|? ? Hni Hnd']; subst.
  destruct (Z.eqb_spec h m) as [->|Hne]; [exact Hni|]. intros [E|Hin]; [contradiction|apply (IH Hnd'); exact Hin].
Qed.

Definition parts_nonneg (s : chain) : Prop :=
  forall m x, get_ms s m = Some x -> forall p, In p (bk_parts (ms_book x)) -> 0 <= p_liq p /\ 0 <= p_fee p.

Lemma parts_nonneg_upd s s' m x x' : get_ms s m = Some x -> c_ms s' = set_ms_list (c_ms s) m x' ->
  (forall p', In p' (bk_parts (ms_book x')) -> exists p, In p (bk_parts (ms_book x)) /\ p_liq p' = p_liq p /\ p_fee p' = p_fee p) ->
  parts_nonneg s -> parts_nonneg s'.
Proof.
  intros Hg E Hp Hnn m' y Hy p' Hp'. destruct (Z.eq_dec m' m) as [->|Hne].
  - rewrite (get_ms_set_same s s' m x' E) in Hy. injection Hy as <-. destruct (Hp p' Hp') as (p & Hin & E1 & E2). rewrite E1, E2. apply (Hnn m x Hg p Hin).
  - rewrite (get_ms_set_other s s' m x' m' E Hne) in Hy. apply (Hnn m' y Hy p' Hp').
Qed.

Definition ob_next (s : chain) (m : Z) (x : mstate) (alls : bool) (ps : list part) (bk1 : bank) (subs1 : list subacc) : chain :=
  chain_upd (with_subs s subs1) bk1
    (set_ms_list (c_ms s) m
       (mstate_upd x (ms_mkt x)
          (book_upd (ms_book x) (if alls then BK_SETTLED else bk_status (ms_book x)) (bk_partcnt (ms_book x)) (bk_queues (ms_book x)) ps
                    (bk_expo (ms_book x)) (bk_expo_ix (ms_book x)) (bk_hist (ms_book x)) (bk_pairs (ms_book x)))
          (ms_bets x) (ms_pending x) (ms_deps x) (ms_wds x)))
    (c_mqueue s) (if alls then remove_uid m (c_bqueue s) else c_bqueue s) (c_betcnt s) (c_uid2id s) (c_settledix s) (c_grants s).

(* one iteration of the order-book end blocker *)
Lemma ob_iter_xinv s m x limit alls cnt ps effs bk1 subs1 :
  xinv s -> NoDup (map sa_id (c_subs s)) -> parts_nonneg s ->
  get_ms s m = Some x -> bk_status (ms_book x) = BK_RESOLVED ->
  batch_parts (bk_parts (ms_book x)) (k_status (ms_mkt x)) (k_creator (ms_mkt x)) limit 0 = Some (alls, cnt, ps, effs) ->
  apply_effects (c_bank s) (c_subs s) effs = Some (bk1, subs1) ->
  xinv (ob_next s m x alls ps bk1 subs1) /\ NoDup (map sa_id subs1) /\ parts_nonneg (ob_next s m x alls ps bk1 subs1).
Proof.
  intros I Hnd Hnn Hg ER EB EA.
  destruct (apply_effects_spent _ _ _ _ _ Hnd EA) as [Hnd1 SR].
  pose proof (batch_parts_qsig _ _ _ _ _ _ _ _ _ EB) as Hq. pose proof (batch_parts_psig _ _ _ _ _ _ _ _ _ EB) as Hps.
  pose proof (get_ms_in _ _ _ Hg) as Hin.
  split; [|split; [exact Hnd1|]].
  - destruct I as [ND B C L]. unfold ob_next. constructor; cbn [c_bqueue c_ms c_subs c_subnext chain_upd with_subs chain_set_subs].
    + destruct alls; [apply remove_first_nodup; exact ND|exact ND].
    + intros m' Hm'. assert (Hm0 : In m' (c_bqueue s)) by (destruct alls; [eapply remove_first_sub; exact Hm'|exact Hm']).
      destruct (Z.eq_dec m' m) as [->|Hne].
      * destruct alls; [exfalso; exact (remove_first_notin m _ ND Hm')|].
        eexists. split; [unfold get_ms, findb; cbn [c_ms chain_upd]; rewrite get_set_same; reflexivity|exact ER].
      * destruct (B m' Hm0) as (x0 & Hg0 & Hs0). exists x0. split; [|exact Hs0].
        unfold get_ms, findb in *. cbn [c_ms chain_upd]. rewrite (get_set_other _ _ _ _ Hne). exact Hg0.
    + intros e He. unfold set_ms_list in He. apply in_upd in He. destruct He as [->|He]; [|apply C; exact He].
      cbn [snd ms_book mstate_upd bk_parts book_upd]. intros p' Hp'. destruct (map_eq_in psig _ _ p' Hps Hp') as (p & Hp & E).
      unfold psig in E. injection E as _ Eo _ _ _ _ _ _. rewrite <- Eo. apply (C (m, x) Hin). exact Hp.
    + intros y1 Hy1. destruct (SR y1 Hy1) as (y & Hy & Ei & Es). assert (Ea : sub_addr y1 = sub_addr y) by (unfold sub_addr; congruence).
      rewrite Ea, (locked_set _ _ _ _ _ (get_ms_find _ _ _ Hg)). cbn [ms_book mstate_upd].
      pose proof (batch_parts_unsp _ (sub_addr y) _ _ _ _ _ _ _ _ EB (Hnn m x Hg)) as U.
      unfold lock_book at 1 2. cbn [bk_parts book_upd]. pose proof (L y Hy). lia.
  - eapply (parts_nonneg_upd s _ m x _ Hg); [reflexivity| |exact Hnn].
    cbn [ms_book mstate_upd bk_parts book_upd]. intros p' Hp'. destruct (map_eq_in qsig _ _ p' Hq Hp') as (p & Hp & E).
    unfold qsig in E. injection E as _ _ E3 E4 _. exists p. repeat split; congruence.
Qed.

Lemma ob_endblock_xinv fuel : forall s n i s', ob_endblock fuel s n i = Some s' -> xinv s -> NoDup (map sa_id (c_subs s)) -> parts_nonneg s -> xinv s'.
Proof.
  induction fuel as [|f IH]; intros s n i s' H I Hnd Hnn; cbn [ob_endblock] in H.
  - destruct (n <=? 0); [inv H; exact I|discriminate].
  - destruct (n <=? 0); [inv H; exact I|].
    destruct (nth_error (c_bqueue s) i) as [m|] eqn:EN; [|inv H; exact I].
    destruct (get_ms s m) as [x|] eqn:Hg; [|discriminate].
    destruct (negb (bk_status (ms_book x) =? BK_RESOLVED)) eqn:ER; [discriminate|]. apply negb_false_iff, Z.eqb_eq in ER.
    destruct (batch_parts _ _ _ _ _) as [[[[alls cnt] ps] effs]|] eqn:EB; [|discriminate].
    destruct (apply_effects (c_bank s) (c_subs s) effs) as [[bk1 subs1]|] eqn:EA; [|discriminate].
    destruct (ob_iter_xinv s m x _ alls cnt ps effs bk1 subs1 I Hnd Hnn Hg ER EB EA) as (I1 & N1 & P1).
    eapply IH; [exact H|exact I1|exact N1|exact P1].
Qed.

(* ---- every operation ----------------------------------------------------------------------------------------------------------------------- *)
Lemma nodup_parts_of_inv s : inv s -> forall e, In e (c_ms s) -> NoDup (map p_idx (bk_parts (ms_book (snd e)))).
Proof. intros Hinv e He. apply (mi_nodup _ (i_minv s Hinv e He)). Qed.

Lemma house_deposit_core_xinv s c d m a g s' : d < SUBBASE -> house_deposit_core s c d m a g = Some s' -> sinv s -> xinv s -> xinv s'.
Proof.
  intros Hd H SI I. destruct (house_deposit_core_x _ _ _ _ _ _ _ H) as (x0 & x0' & Hg & E & Q & S & N & St & Lk & Ow).
  eapply (xinv_upd s s' m x0 x0' Hg E Q St); [lia| | |exact I].
  - rewrite N. apply Ow; [apply (x_own _ I (m, x0)); apply get_ms_in; exact Hg|pose proof (sv_n0 _ SI); lia].
  - rewrite S. intros y Hy. exists y. split; [exact Hy|]. split; [reflexivity|]. rewrite Lk.
    destruct (lo_each _ _ (sv_led _ SI) y Hy) as (A & _). destruct (Z.eqb_spec d (sub_addr y)) as [Eq|]; [unfold sub_addr in Eq; lia|lia].
Qed.

Lemma withdraw_core_xinv s sg d m pidx mo a ob s' amt : d < SUBBASE -> withdraw_core s sg d m pidx mo a ob = Some (s', amt) -> sinv s -> xinv s -> xinv s'.
Proof.
  intros Hd H SI I. destruct (withdraw_core_x _ _ _ _ _ _ _ _ _ _ H) as (x0 & x0' & Hg & E & Q & S & N & St & Lk & Ow).
  eapply (xinv_upd s s' m x0 x0' Hg E Q St); [lia| | |exact I].
  - rewrite N. apply Ow. apply (x_own _ I (m, x0)). apply get_ms_in. exact Hg.
  - rewrite S. intros y Hy. exists y. split; [exact Hy|]. split; [reflexivity|]. rewrite Lk.
    destruct (lo_each _ _ (sv_led _ SI) y Hy) as (A & _). destruct (Z.eqb_spec d (sub_addr y)) as [Eq|]; [unfold sub_addr in Eq; lia|lia].
Qed.

Lemma wager_core_xinv s sg u a sm so ov mu al s' : wager_core s sg u a sm so ov mu al = Some s' ->
  (forall e, In e (c_ms s) -> NoDup (map p_idx (bk_parts (ms_book (snd e))))) -> xinv s -> xinv s'.
Proof.
  intros H Hnd I. destruct (wager_core_x _ _ _ _ _ _ _ _ _ _ H Hnd) as (x0 & x0' & Hg & E & Q & S & N & St & Lp).
  eapply (xinv_upd_lproj s s' sm x0 x0'); eassumption.
Qed.

Lemma withdraw_validate_dep s sg tk m p mo a k d dp ob : withdraw_validate s sg tk m p mo a k d = Some (dp, ob) -> sg < SUBBASE -> d < SUBBASE -> dp < SUBBASE.
Proof. unfold withdraw_validate. intros H Hs Hd. dmatchS H. inv H. destruct (0 <=? d); lia. Qed.

Lemma sub_create_xinv s c o l s' : sub_create s c o l = Some s' -> sinv s -> xinv s -> xinv s'.
Proof.
  intros H SI [ND B C L]. unfold sub_create in H. dmatchS H. inv H.
  constructor; cbn [c_bqueue c_ms c_subs c_subnext set_bank chain_upd chain_set_subs]; try assumption.
  - intros e He p Hp. pose proof (C e He p Hp). lia.
  - intros y Hy. apply in_app_or in Hy. destruct Hy as [Hy|[<-|[]]]; [apply L; exact Hy|].
    unfold sub_addr. cbn [sa_id sa_spent]. rewrite (locked_zero _ (SUBBASE + c_subnext s)); [lia|exact C|lia].
Qed.

Lemma set_sub_rel s x x' : sinv s -> In x (c_subs s) -> sa_id x' = sa_id x -> forall d : Z -> Z,
  (forall a, a <> sub_addr x -> d a <= 0) -> d (sub_addr x) <= sa_spent x' - sa_spent x ->
  forall y', In y' (set_sub (c_subs s) x') -> exists y, In y (c_subs s) /\ sub_addr y' = sub_addr y /\ d (sub_addr y) <= sa_spent y' - sa_spent y.
Proof.
  intros SI Hin Ei d Hd Hx y' Hy'. destruct (in_set_sub _ _ _ (lo_ids _ _ (sv_led _ SI)) Hy') as [->|[Hy Hne]].
  - exists x. split; [exact Hin|]. split; [unfold sub_addr; congruence|exact Hx].
  - exists y'. split; [exact Hy|]. split; [reflexivity|]. assert (sub_addr y' <> sub_addr x) by (unfold sub_addr; lia). pose proof (Hd _ H). lia.
Qed.

Lemma sub_topup_xinv s c o l s' : sub_topup s c o l = Some s' -> sinv s -> xinv s -> xinv s'.
Proof.
  intros H SI I. unfold sub_topup in H. dmatchS H. inv H.
  match goal with E : sub_by_owner _ o = Some ?y |- _ => rename y into x; destruct (sub_by_owner_spec _ _ _ E) as [Hin _] end.
  eapply (xinv_subs s); try reflexivity; try exact I.
  cbn [c_subs set_bank chain_upd with_subs chain_set_subs]. intros y' Hy'.
  match type of Hy' with In _ (set_sub _ ?xx) => destruct (set_sub_rel s x xx SI Hin eq_refl (fun _ => 0) ltac:(intros; lia) ltac:(cbn; lia) y' Hy') as (y & A & B & D) end. exists y. repeat split; try assumption; lia.
Qed.

Lemma sub_withdraw_unlocked_xinv s o s' : sub_withdraw_unlocked s o = Some s' -> sinv s -> xinv s -> xinv s'.
Proof.
  intros H SI I. unfold sub_withdraw_unlocked in H. dmatchS H. inv H.
  match goal with E : sub_by_owner _ o = Some ?y |- _ => rename y into x; destruct (sub_by_owner_spec _ _ _ E) as [Hin _] end.
  match goal with E : sub_withdraw x _ = Some ?y |- _ => destruct (sub_withdraw_id _ _ _ E) as [I1 _]; rename y into x2; unfold sub_withdraw in E; dmatch E; inv E end.
  eapply (xinv_subs s); try reflexivity; try exact I.
  cbn [c_subs set_bank chain_upd with_subs chain_set_subs]. intros y' Hy'.
  match type of Hy' with In _ (set_sub _ ?xx) => destruct (set_sub_rel s x xx SI Hin eq_refl (fun _ => 0) ltac:(intros; lia) ltac:(cbn; lia) y' Hy') as (y & A & B & D) end. exists y. repeat split; try assumption; lia.
Qed.

Lemma sub_wager_xinv s sg tk ic tk2 u a sm so ov mu al k ot md sd s' :
  sub_wager s sg tk ic tk2 u a sm so ov mu al k ot md sd = Some s' -> sinv s -> inv s -> xinv s -> xinv s'.
Proof.
  intros H SI Hinv I. unfold sub_wager in H. dmatchS H.
  match goal with E : sub_by_owner _ sg = Some ?y |- _ => rename y into x; destruct (sub_by_owner_spec _ _ _ E) as [Hin _] end.
  match goal with E : sub_withdraw x _ = Some ?y |- _ => rename y into x2; unfold sub_withdraw in E; dmatch E; inv E end.
  eapply wager_core_xinv; [exact H|exact (nodup_parts_of_inv s Hinv)|].
  eapply (xinv_subs s); try reflexivity; try exact I.
  cbn [c_subs set_bank chain_upd with_subs chain_set_subs]. intros y' Hy'.
  match type of Hy' with In _ (set_sub _ ?xx) => destruct (set_sub_rel s x xx SI Hin eq_refl (fun _ => 0) ltac:(intros; lia) ltac:(cbn; lia) y' Hy') as (y & A & B & D) end. exists y. repeat split; try assumption; lia.
Qed.

Lemma sub_house_deposit_xinv s sg tk m a k d s' : sub_house_deposit s sg tk m a k d = Some s' -> sinv s -> xinv s -> xinv s'.
Proof.
  intros H SI I. unfold sub_house_deposit in H. dmatchS H. inv H.
  match goal with E : sub_by_owner _ sg = Some ?y |- _ => rename y into x; destruct (sub_by_owner_spec _ _ _ E) as [Hin _] end.
  destruct (lo_each _ _ (sv_led _ SI) x Hin) as (A & B & N & D).
  match goal with E : sub_spend x a = Some ?y |- _ => destruct (sub_spend_ok _ _ _ E N) as (N' & W1 & W2 & W3 & I1 & I2 & _); rename y into x2 end.
  match goal with E : house_deposit_core s sg (sub_addr x) m a _ = Some ?t |- _ => rename E into EH; rename t into s1 end.
  destruct (house_deposit_core_x _ _ _ _ _ _ _ EH) as (x0 & x0' & Hg & Ems & Q & S & Nx & St & Lk & Ow).
  eapply (xinv_upd s _ m x0 x0' Hg); try exact I; cbn [c_ms c_bqueue c_subs c_subnext with_subs chain_set_subs]; try assumption; [lia| |].
  - rewrite Nx. apply Ow; [apply (x_own _ I (m, x0)); apply get_ms_in; exact Hg|]. pose proof (sv_next _ SI x Hin). unfold sub_addr. lia.
  - rewrite S. apply (set_sub_rel s x x2 SI Hin I1 (fun adr => lock_book (ms_book x0') adr - lock_book (ms_book x0) adr)).
    + intros adr Hne. rewrite Lk. destruct (Z.eqb_spec (sub_addr x) adr); [exfalso; apply Hne; congruence|lia].
    + rewrite Lk, Z.eqb_refl. lia.
Qed.

Lemma sub_house_withdraw_xinv s sg tk m p mo a k d s' : sub_house_withdraw s sg tk m p mo a k d = Some s' -> sinv s -> xinv s -> xinv s'.
Proof.
  intros H SI I. unfold sub_house_withdraw in H.
  destruct (sub_by_owner (c_subs s) sg) as [x|] eqn:EO; [|discriminate]. destruct (sub_by_owner_spec _ _ _ EO) as [Hin Eown].
  destruct (withdraw_validate _ _ _ _ _ _ _ _ _); [|discriminate].
  destruct (withdraw_core s sg (sub_addr x) m p mo a false) as [[s1 amt]|] eqn:EW; [|discriminate].
  destruct (sub_unspend x amt) as [x2|] eqn:EU; [|discriminate]. inv H.
  destruct (lo_each _ _ (sv_led _ SI) x Hin) as (A & B & N & D).
  destruct (sub_unspend_ok _ _ _ EU N) as (N' & W1 & W2 & I1 & I2 & _).
  destruct (withdraw_core_x _ _ _ _ _ _ _ _ _ _ EW) as (x0 & x0' & Hg & E & Q & S & Nx & St & Lk & Ow).
  eapply (xinv_upd s _ m x0 x0' Hg); try exact I; cbn [c_ms c_bqueue c_subs c_subnext with_subs chain_set_subs]; try assumption; [lia| |].
  - rewrite Nx. apply Ow. apply (x_own _ I (m, x0)). apply get_ms_in. exact Hg.
  - rewrite S. apply (set_sub_rel s x x2 SI Hin I1 (fun adr => lock_book (ms_book x0') adr - lock_book (ms_book x0) adr)).
    + intros adr Hne. rewrite Lk. destruct (Z.eqb_spec (sub_addr x) adr); [exfalso; apply Hne; congruence|lia].
    + rewrite Lk, Z.eqb_refl. lia.
Qed.

Lemma end_block_xinv s : xinv s -> sinv s -> parts_nonneg s -> inv s -> xinv (fst (end_block s)).
Proof.
  intros I SI Hnn Hinv. unfold end_block.
  destruct (bet_endblock _ s _) as [s1|] eqn:E1; [|cbn [fst]; eapply xinv_same; [| | | |exact I]; reflexivity].
  pose proof (bet_endblock_xinv _ _ _ _ E1 I) as I1. pose proof (bet_endblock_sinv _ _ _ _ E1 SI) as SI1.
  destruct (ob_endblock _ s1 _ _) as [s2|] eqn:E2; [|cbn [fst]; eapply xinv_same; [| | | |exact I]; reflexivity].
  cbn [fst]. assert (I2 : xinv s2).
  { eapply ob_endblock_xinv; [exact E2|exact I1|apply (lo_ids _ _ (sv_led _ SI1))|].
    (* liquidity and fees stay non-negative through the bet end blocker: the books keep their (settled, owner, liquidity, fee) lists *)
    clear E2. revert E1 Hnn. generalize (pr_bet_batch (c_prm s)). generalize (S (length (c_mqueue s) + total_pending s)). clear.
    intros fuel. revert s. induction fuel as [|f IH]; intros s n H Hnn; cbn [bet_endblock] in H.
    - destruct (n <=? 0); [inv H; exact Hnn|discriminate].
    - destruct (n <=? 0); [inv H; exact Hnn|]. destruct (c_mqueue s) as [|m q]; [inv H; exact Hnn|].
      destruct (get_ms s m) as [x|] eqn:Hg; [|discriminate].
      destruct (settle_bets _ x (c_bank s) (c_subs s) (c_height s) (c_settledix s) 0) as [[[[[x1 bk1] subs1] sidx1] cnt]|] eqn:ES; [|discriminate].
      destruct (settle_bets_x _ _ _ _ _ _ _ _ _ _ _ _ ES) as (Lp & _ & _).
      assert (K : forall bk', bk_parts bk' = bk_parts (ms_book x1) -> forall p', In p' (bk_parts bk') -> exists p, In p (bk_parts (ms_book x)) /\ p_liq p' = p_liq p /\ p_fee p' = p_fee p).
      { intros bk' Eb p' Hp'. rewrite Eb in Hp'. destruct (map_eq_in lproj _ _ p' Lp Hp') as (p & Hp & E). unfold lproj in E. injection E as _ _ E3 E4.
        exists p. repeat split; congruence. }
      destruct (ms_pending x1).
      + destruct (negb _); [discriminate|]. eapply IH; [exact H|]. eapply (parts_nonneg_upd s _ m x _ Hg); [reflexivity| |exact Hnn]. apply K. reflexivity.
      + eapply IH; [exact H|]. eapply (parts_nonneg_upd s _ m x _ Hg); [reflexivity| |exact Hnn]. apply K. reflexivity. }
  unfold ovm_endblock. destruct (ovm_finish _ _ _ _) as [ps v]. eapply xinv_same; [| | | |exact I2]; reflexivity.
Qed.

Lemma tx_xinv s r : xinv s -> (forall s', r = Some s' -> xinv s') -> xinv (fst (tx s r)).
Proof. intros I H. unfold tx. destruct r as [s'|]; cbn [fst]; [apply H; reflexivity|exact I]. Qed.

Theorem step_xinv s o : xinv s -> sinv s -> inv s -> parts_nonneg s -> user_op o -> xinv (fst (step s o)).
Proof.
  intros I SI Hinv Hnn Hv. unfold step. destruct (c_halted s); [exact I|].
  destruct o; cbn [user_op] in Hv; try (apply tx_xinv; [exact I|intros s' H]).
  - unfold begin_block_op. destruct (begin_block _ _ _ _); cbn [fst]; eapply xinv_same; [| | | |exact I| | | | |exact I]; reflexivity.
  - apply end_block_xinv; assumption.
  - eapply market_add_xinv; eassumption.
  - eapply market_update_xinv; eassumption.
  - eapply market_resolve_xinv; eassumption.
  - unfold house_deposit in H. destruct (deposit_validate _ _ _ _ _ _ _ _) as [[dp gr]|] eqn:EV; [|discriminate].
    eapply house_deposit_core_xinv; [|exact H|exact SI|exact I].
    unfold deposit_validate in EV. dmatchS EV. inv EV. destruct Hv as [[? ?] ?]. destruct ((0 <=? depositor) && negb (depositor =? signer)); lia.
  - unfold house_withdraw in H. destruct (withdraw_validate _ _ _ _ _ _ _ _ _) as [[dp ob]|] eqn:EV; [|discriminate].
    destruct (withdraw_core _ _ _ _ _ _ _ _) as [[s1 amt0]|] eqn:EW; [|discriminate]. inv H.
    eapply withdraw_core_xinv; [|exact EW|exact SI|exact I]. destruct Hv as [[? ?] ?]. eapply withdraw_validate_dep; eassumption.
  - unfold bet_wager in H. destruct (wager_prepare _ _ _ _ _ _ _ _ _ _ _); [|discriminate].
    eapply wager_core_xinv; [exact H|exact (nodup_parts_of_inv s Hinv)|exact I].
  - unfold do_grant in H. dmatchS H. inv H. eapply xinv_same; [| | | |exact I]; reflexivity.
  - unfold do_revoke in H. dmatchS H. inv H. eapply xinv_same; [| | | |exact I]; reflexivity.
  - unfold do_send in H. dmatchS H. inv H. eapply xinv_same; [| | | |exact I]; reflexivity.
  - unfold ovm_propose in H. dmatchS H. inv H. eapply xinv_same; [| | | |exact I]; reflexivity.
  - unfold ovm_vote in H. dmatchS H. inv H. eapply xinv_same; [| | | |exact I]; reflexivity.
  - eapply sub_create_xinv; eassumption.
  - eapply sub_topup_xinv; eassumption.
  - eapply sub_withdraw_unlocked_xinv; eassumption.
  - eapply sub_wager_xinv; eassumption.
  - eapply sub_house_deposit_xinv; eassumption.
  - eapply sub_house_withdraw_xinv; eassumption.
Qed.

(* ---- every history ----------------------------------------------------------------------------------------------------------------------------- *)
Lemma run_snoc s ops o : run s (ops ++ [o]) = fst (step (run s ops) o).
Proof. unfold run. rewrite fold_left_app. reflexivity. Qed.

Theorem xinv_over_histories P bk supply vault MP t0 sw sd ops :
  pr_bet_fee P <= pr_bet_min P -> 0 <= pr_bet_fee P ->
  bget bk POOL = 0 -> bget bk HOUSEFEE = 0 -> bget bk BETFEE = 0 -> (forall a, SUBBASE <= a -> 0 <= bget bk a) ->
  Forall user_op ops -> xinv (run (init bk supply P vault MP t0 sw sd) ops).
Proof.
  intros HP HF B1 B2 B3 Hb. induction ops as [|o ops IH] using rev_ind; intros Hv.
  - constructor; cbn; [constructor|intros m []|intros e []|intros y []].
  - apply Forall_app in Hv. destruct Hv as [Hv Ho]. inversion Ho as [|? ? Ho1 _]; subst. rewrite run_snoc.
    assert (Hval : Forall valid_op ops) by (eapply Forall_impl; [|exact Hv]; intros a Ha; apply user_valid; exact Ha).
    apply step_xinv; [apply IH; exact Hv| | | |exact Ho1].
    + apply run_sinv; [|exact Hv]. constructor; cbn; [constructor; cbn; [exact Hb|constructor|intros x []]|constructor|intros x []|lia].
    + apply run_inv; [apply init_inv; assumption|exact Hval].
    + intros m x Hg p Hp. pose proof (settle_over_histories P bk supply vault MP t0 sw sd ops HP HF B1 B2 B3 Hval m x Hg) as S.
      destruct (se_parts _ S p Hp) as [_ K2 K3 _]. split; assumption.
Qed.

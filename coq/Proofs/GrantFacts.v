(* Proofs/GrantFacts.v — authz grant accounting used by house deposit/withdraw (C09). *)
From Coq Require Import ZArith Bool List Lia.
From Sge Require Import Lib.Dec Model.Types Model.Chain Proofs.Tactics Proofs.MarketFacts.
Import ListNotations.
Open Scope Z_scope.

Definition grant_key (g : grant) : Z * Z * Z := (g_grantee g, g_granter g, g_kind g).

(* a delegated action requires an existing grant, never exceeds it, and reduces it by exactly the amount *)
Theorem use_grant_spec now gs grantee granter kind amount gs' :
  use_grant now gs grantee granter kind amount = Some gs' ->
  exists g, findb (grant_is grantee granter kind) gs = Some g /\ amount <= g_limit g /\
    ((g_limit g = amount /\ gs' = remb (grant_is grantee granter kind) gs) \/
     (amount < g_limit g /\ (g_exp g < 0 \/ now < g_exp g) /\
      gs' = upd (grant_is grantee granter kind)
                {| g_grantee := grantee; g_granter := granter; g_kind := kind; g_limit := g_limit g - amount; g_exp := g_exp g |} gs)).
Proof.
  unfold use_grant. intros H.
  destruct (findb (grant_is grantee granter kind) gs) as [g|]; [|discriminate].
  destruct (g_limit g - amount <? 0) eqn:E1; [discriminate|]. apply Z.ltb_ge in E1.
  destruct (g_limit g - amount =? 0) eqn:E2.
  - inv H. exists g. split; [reflexivity|split; [lia|]]. left. apply Z.eqb_eq in E2. split; [lia|reflexivity].
  - destruct ((0 <=? g_exp g) && (g_exp g <=? now)) eqn:E3; [discriminate|]. inv H. exists g. split; [reflexivity|split; [lia|]].
    right. apply Z.eqb_neq in E2. split; [lia|]. split; [|reflexivity].
    apply andb_false_iff in E3. destruct E3 as [E3|E3]; [left; apply Z.leb_gt in E3; lia|right; apply Z.leb_gt in E3; lia].
Qed.

(* Proofs/GenParams.v — generated kernels (Gen/kernels.v, regenerated from the Go source on every run) proved equal to the hand-written model:
   Params.Validate of x/bet, x/orderbook, x/house.  Split by module so that a change of one module only touches the properties that depend on it. *)
From Coq Require Import ZArith Bool List Lia.
From Sge Require Import Lib.Dec Model.Types Model.Orderbook Model.Mint Model.Chain Gen.kernels.
Import ListNotations.
Open Scope Z_scope.

(* ---- x/bet/types/params.go Params.Validate (generated with its three validators): what an accepted bet parameter set satisfies ------------- *)
Definition gbp_of (P : params) (query_count : Z) : G_betParams :=
  {| G_betParams_BatchSettlementCount := pr_bet_batch P; G_betParams_MaxBetByUidQueryCount := query_count;
     G_betParams_Constraints := {| G_Constraints_MinAmount := pr_bet_min P; G_Constraints_Fee := pr_bet_fee P |} |}.
Lemma gen_bet_Validate P qc :
  K_betParams_Validate (gbp_of P qc) = ((0 <? pr_bet_batch P) && (0 <? qc) && (1 <? pr_bet_min P) && (0 <=? pr_bet_fee P) && (pr_bet_fee P <? pr_bet_min P)).
Proof.
  unfold K_betParams_Validate, K__validateBatchSettlementCount, K__validateMaxBetByUIDQueryCount, K__validateConstraints. cbv zeta.
  cbn [negb gbp_of G_betParams_BatchSettlementCount G_betParams_MaxBetByUidQueryCount G_betParams_Constraints G_Constraints_MinAmount G_Constraints_Fee].
  rewrite (Z.leb_antisym 0 (pr_bet_batch P)), (Z.leb_antisym 0 qc), (Z.leb_antisym 1 (pr_bet_min P)), (Z.ltb_antisym 0 (pr_bet_fee P)),
    (Z.leb_antisym (pr_bet_fee P) (pr_bet_min P)).
  destruct (0 <? pr_bet_batch P), (0 <? qc), (1 <? pr_bet_min P), (0 <=? pr_bet_fee P), (pr_bet_fee P <? pr_bet_min P); reflexivity.
Qed.
Lemma bet_Validate_accepts P qc : K_betParams_Validate (gbp_of P qc) = true ->
  0 < pr_bet_batch P /\ 1 < pr_bet_min P /\ 0 <= pr_bet_fee P < pr_bet_min P.
Proof.
  rewrite gen_bet_Validate. intros H. repeat (apply andb_true_iff in H; destruct H as [H ?]).
  repeat match goal with
         | X : (_ <? _) = true |- _ => apply Z.ltb_lt in X
         | X : (_ <=? _) = true |- _ => apply Z.leb_le in X
         end. lia.
Qed.

(* ---- x/orderbook and x/house Params.Validate ------------------------------------------------------------------------------------------------ *)
Definition gobp_of (P : params) : G_orderbookParams :=
  {| G_orderbookParams_MaxOrderBookParticipations := pr_ob_maxpart P; G_orderbookParams_BatchSettlementCount := pr_ob_batch P;
     G_orderbookParams_RequeueThreshold := pr_ob_thr P |}.
Lemma gen_ob_Validate P : K_orderbookParams_Validate (gobp_of P) = (negb (pr_ob_maxpart P =? 0) && negb (pr_ob_batch P =? 0)).
Proof.
  unfold K_orderbookParams_Validate, K__validateMaxOrderBookParticipations, K_orderbook_validateBatchSettlementCount, K__validateRequeueThreshold.
  cbv zeta. cbn [negb gobp_of G_orderbookParams_MaxOrderBookParticipations G_orderbookParams_BatchSettlementCount G_orderbookParams_RequeueThreshold].
  destruct (pr_ob_maxpart P =? 0), (pr_ob_batch P =? 0); reflexivity.
Qed.
Definition ghp_of (P : params) : G_houseParams :=
  {| G_houseParams_MinDeposit := pr_h_mindep P; G_houseParams_HouseParticipationFee := pr_h_fee P; G_houseParams_MaxWithdrawalCount := pr_h_maxw P |}.
Lemma gen_house_Validate P : K_houseParams_Validate (ghp_of P) = ((1 <? pr_h_mindep P) && (0 <=? pr_h_fee P)).
Proof.
  unfold K_houseParams_Validate, K__validateMinimumDeposit, K__validateHouseParticipationFee. cbv zeta.
  cbn [negb ghp_of G_houseParams_MinDeposit G_houseParams_HouseParticipationFee].
  rewrite (Z.leb_antisym 1 (pr_h_mindep P)), (Z.ltb_antisym 0 (pr_h_fee P)).
  destruct (1 <? pr_h_mindep P), (0 <=? pr_h_fee P); reflexivity.
Qed.

(* Proofs/Progress.v — C05: resolved markets finish settling within a bounded number of blocks.
   Part 1: what ONE run of each end blocker does to the work queued in front of a market (work-conserving: a run with budget n
   takes exactly n units of the work queued up to and including a market, or moves the market on);
   Part 2: no transaction touches the queued work of a resolved market (frame over all message handlers);
   Part 3: over every history: a market in the bet-settlement queue with `a` pending bets queued up to and including its own leaves
   that queue, all its bets settled, after at most a / batch + 1 end blocks, whatever else happens in between; likewise for the
   participations of the books in the order-book settlement queue. *)
From Coq Require Import ZArith Bool List Lia.
From Sge Require Import Lib.Dec Model.Types Model.Orderbook Model.Mint Model.Chain Proofs.Tactics Proofs.Supply Proofs.CustodyLocal Proofs.Custody
     Proofs.BookFacts Proofs.Mono Proofs.Params Proofs.Local Proofs.BetIndex Proofs.Settle Proofs.SubLock Proofs.SubHist Proofs.NoAbort.
Import ListNotations.
Open Scope Z_scope.

(* ---- work queued in front of a market -------------------------------------------------------------------------------------------- *)
(* f h = units of work of market h; ahead f q m = work of the markets of q up to and including the first occurrence of m *)
Fixpoint ahead (f : Z -> Z) (q : list Z) (m : Z) : Z :=
  match q with [] => 0 | h :: r => f h + (if h =? m then 0 else ahead f r m) end.

Lemma ahead_ext f g q m : (forall h, In h q -> f h = g h) -> ahead f q m = ahead g q m.
Proof.
  induction q as [|h r IH]; intros H; cbn [ahead]; [reflexivity|].
  rewrite (H h (or_introl eq_refl)). destruct (h =? m); [reflexivity|]. rewrite IH; [reflexivity|]. intros k Hk. apply H. right. exact Hk.
Qed.

Lemma ahead_nonneg f q m : (forall h, In h q -> 0 <= f h) -> 0 <= ahead f q m.
Proof.
  induction q as [|h r IH]; intros H; cbn [ahead]; [lia|].
  pose proof (H h (or_introl eq_refl)). destruct (h =? m); [lia|]. assert (0 <= ahead f r m) by (apply IH; intros k Hk; apply H; right; exact Hk). lia.
Qed.

Lemma ahead_app_in f q1 q2 m : In m q1 -> ahead f (q1 ++ q2) m = ahead f q1 m.
Proof.
  induction q1 as [|h r IH]; intros Hin; [destruct Hin|]. cbn [app ahead].
  destruct (Z.eqb_spec h m) as [E|Hne]; [reflexivity|]. destruct Hin as [E|Hin]; [contradiction|]. rewrite (IH Hin). reflexivity.
Qed.

Definition pend_of (s : chain) (m : Z) : Z := match get_ms s m with Some x => zlen (ms_pending x) | None => 0 end.
Definition unpaid (x : mstate) : Z := zlen (filter (fun p => negb (p_settled p)) (bk_parts (ms_book x))).
Definition unpaid_of (s : chain) (m : Z) : Z := match get_ms s m with Some x => unpaid x | None => 0 end.

Lemma zlen_nonneg {A} (l : list A) : 0 <= zlen l. Proof. unfold zlen. lia. Qed.
Lemma pend_of_nonneg s m : 0 <= pend_of s m. Proof. unfold pend_of. destruct (get_ms s m); [apply zlen_nonneg|lia]. Qed.
Lemma unpaid_of_nonneg s m : 0 <= unpaid_of s m. Proof. unfold unpaid_of, unpaid. destruct (get_ms s m); [apply zlen_nonneg|lia]. Qed.

(* ---- a batch of bets of one market takes the first ids off the pending list -------------------------------------------------------- *)
Lemma settle_bets_pending h ids : forall x bk subs sidx cnt tl x' bk' subs' sidx' cnt',
  settle_bets ids x bk subs h sidx cnt = Some (x', bk', subs', sidx', cnt') ->
  ms_pending x = ids ++ tl -> NoDup (ids ++ tl) -> ms_pending x' = tl /\ cnt' = cnt + zlen ids.
Proof.
  induction ids as [|id r IH]; intros x bk subs sidx cnt tl x' bk' subs' sidx' cnt' H Hp Hnd; cbn [settle_bets] in H.
  - inv H. split; [exact Hp|unfold zlen; cbn; lia].
  - destruct (settle_bet x h id) as [[x1 effs]|] eqn:ES; [|discriminate].
    destruct (apply_effects bk subs effs) as [[bk1 subs1]|]; [|discriminate].
    destruct (settle_bet_shape _ _ _ _ _ ES) as (b0 & r0 & _ & _ & Hpend).
    cbn [app] in Hp, Hnd. inversion Hnd as [|? ? Hni Hnd']; subst.
    destruct (IH _ _ _ _ _ tl _ _ _ _ _ H) as [A B].
    + rewrite Hpend, Hp. apply remb_head. exact Hni.
    + exact Hnd'.
    + split; [exact A|]. rewrite B. unfold zlen. cbn [length]. lia.
Qed.

(* the participation flags of a market are not touched by bet settlement *)
Definition pflags (x : mstate) : list bool := map p_settled (bk_parts (ms_book x)).
Lemma unpaid_flags x x' : pflags x' = pflags x -> unpaid x' = unpaid x.
Proof.
  unfold pflags, unpaid. intros E. unfold zlen. f_equal.
  revert E. generalize (bk_parts (ms_book x')) (bk_parts (ms_book x)). intros l1. induction l1 as [|a r IH]; intros l2 E; destruct l2 as [|b r2]; try discriminate E; [reflexivity|].
  cbn [map] in E. injection E as E1 E2. cbn [filter]. rewrite E1. destruct (negb (p_settled b)); cbn [length]; rewrite (IH _ E2); reflexivity.
Qed.

(* ---- the light queue invariant the bet end blocker needs for its progress law ------------------------------------------------------- *)
Definition qok (s : chain) : Prop :=
  NoDup (c_mqueue s) /\ forall m, In m (c_mqueue s) -> exists x, get_ms s m = Some x /\ NoDup (ms_pending x).

Definition moved (s' : chain) (m : Z) : Prop := In m (c_bqueue s') /\ ~ In m (c_mqueue s').

Lemma bet_endblock_zero fuel s n : n <= 0 -> bet_endblock fuel s n = Some s.
Proof. intros H. destruct fuel; cbn [bet_endblock]; destruct (n <=? 0) eqn:E; try reflexivity; apply Z.leb_gt in E; lia. Qed.

Lemma skipn_nil_len {A} k (l : list A) : skipn k l = [] -> (length l <= k)%nat.
Proof. revert l. induction k as [|k IH]; intros l H; [cbn in H; subst l; cbn; lia|]. destruct l as [|a r]; [cbn; lia|]. cbn [skipn] in H. cbn [length]. apply IH in H. lia. Qed.

Lemma bet_endblock_ahead fuel : forall s n s', bet_endblock fuel s n = Some s' -> qok s -> 0 <= n ->
  (forall m, In m (c_bqueue s) -> In m (c_bqueue s')) /\
  (forall m, In m (c_mqueue s') -> In m (c_mqueue s)) /\
  forall m, In m (c_mqueue s) ->
    (ahead (pend_of s) (c_mqueue s) m < n -> moved s' m) /\
    (moved s' m \/ (In m (c_mqueue s') /\ ahead (pend_of s') (c_mqueue s') m = ahead (pend_of s) (c_mqueue s) m - n)).
Proof.
  induction fuel as [|f IH]; intros s n s' H Q Hn.
  { cbn [bet_endblock] in H. destruct (n <=? 0) eqn:En; [|discriminate]. inv H. apply Z.leb_le in En.
    split; [tauto|]. split; [tauto|]. intros m Hm. pose proof (ahead_nonneg (pend_of s') (c_mqueue s') m ltac:(intros; apply pend_of_nonneg)).
    split; [lia|]. right. split; [exact Hm|lia]. }
  cbn [bet_endblock] in H. destruct (n <=? 0) eqn:En.
  { inv H. apply Z.leb_le in En. split; [tauto|]. split; [tauto|]. intros m Hm.
    pose proof (ahead_nonneg (pend_of s') (c_mqueue s') m ltac:(intros; apply pend_of_nonneg)). split; [lia|]. right. split; [exact Hm|lia]. }
  apply Z.leb_gt in En.
  destruct (c_mqueue s) as [|m0 q] eqn:EQ.
  { inv H. rewrite EQ. split; [tauto|]. split; [tauto|]. intros m []. }
  destruct Q as [Qnd Qp]. rewrite EQ in Qnd, Qp. inversion Qnd as [|? ? Hni Hndq]; subst.
  destruct (Qp m0 (or_introl eq_refl)) as (x & Hg & Hndp). rewrite Hg in H.
  set (k := Z.to_nat n) in *. set (ids := firstn k (ms_pending x)) in *. set (tl := skipn k (ms_pending x)).
  assert (Hsplit : ms_pending x = ids ++ tl) by (symmetry; apply firstn_skipn).
  destruct (settle_bets ids x (c_bank s) (c_subs s) (c_height s) (c_settledix s) 0) as [[[[[x1 bk1] subs1] sidx1] cnt]|] eqn:ES; [|discriminate].
  destruct (settle_bets_pending _ _ _ _ _ _ _ tl _ _ _ _ _ ES Hsplit ltac:(rewrite <- Hsplit; exact Hndp)) as [Hp1 Hcnt].
  assert (Hlen : zlen (ms_pending x) = zlen ids + zlen tl) by (rewrite Hsplit at 1; unfold zlen; rewrite app_length; lia).
  assert (Hp0 : pend_of s m0 = zlen (ms_pending x)) by (unfold pend_of; rewrite Hg; reflexivity).
  assert (Hother : forall s1 v, c_ms s1 = set_ms_list (c_ms s) m0 v -> forall h, In h q -> pend_of s h = pend_of s1 h).
  { intros s1 v E h Hh. unfold pend_of. rewrite (get_ms_set_other s s1 m0 v h E); [reflexivity|]. intros ->. contradiction. }
  rewrite Hp1 in H. destruct tl as [|t0 tl'] eqn:Etl.
  - (* every pending bet of the head market is settled: the market moves on to the order-book queue *)
    destruct (negb (bk_status (ms_book x1) =? BK_ACTIVE)); [discriminate|].
    match type of H with bet_endblock f ?st _ = _ => set (s1 := st) in * end.
    assert (Hidsall : zlen ids = zlen (ms_pending x)) by (rewrite Hlen; unfold zlen; cbn; lia).
    assert (Hple : zlen (ms_pending x) <= n).
    { pose proof (skipn_nil_len k (ms_pending x) Etl). unfold zlen, k. lia. }
    assert (Q1 : qok s1).
    { split; [unfold s1; cbn [c_mqueue chain_upd]; unfold remove_uid; cbn [remove_first]; rewrite Z.eqb_refl; exact Hndq|].
      unfold s1 at 1. cbn [c_mqueue chain_upd]. unfold remove_uid. cbn [remove_first]. rewrite Z.eqb_refl. intros m Hm.
      destruct (Qp m (or_intror Hm)) as (y & Hy & Hndy). exists y. split; [|exact Hndy].
      rewrite (get_ms_set_other s s1 m0 _ m eq_refl); [exact Hy|]. intros ->. contradiction. }
    destruct (IH s1 (n - cnt) s' H Q1 ltac:(lia)) as (I1 & I2 & I3).
    assert (Hq1 : c_mqueue s1 = q) by (unfold s1; cbn [c_mqueue chain_upd]; unfold remove_uid; cbn [remove_first]; rewrite Z.eqb_refl; reflexivity).
    assert (Hb1 : c_bqueue s1 = c_bqueue s ++ [m0]) by reflexivity.
    split; [intros m Hm; apply I1; rewrite Hb1; apply in_or_app; left; exact Hm|].
    split; [intros m Hm; right; rewrite <- Hq1; apply I2; exact Hm|].
    intros m [->|Hm].
    + assert (M : moved s' m). { split; [apply I1; rewrite Hb1; apply in_or_app; right; left; reflexivity|intros Hc; apply I2 in Hc; rewrite Hq1 in Hc; contradiction]. }
      split; [intros _; exact M|left; exact M].
    + assert (Hne : m0 <> m) by (intros ->; contradiction).
      cbn [ahead]. destruct (Z.eqb_spec m0 m) as [E|_]; [contradiction|].
      rewrite Hq1 in I3. destruct (I3 m Hm) as [J1 J2].
      rewrite <- (ahead_ext (pend_of s) (pend_of s1) q m (Hother s1 _ eq_refl)) in J1, J2.
      split; [intros Hlt; apply J1; lia|]. destruct J2 as [J2|[J2 J3]]; [left; exact J2|right; split; [exact J2|rewrite J3; lia]].
  - (* the budget is used up inside the head market *)
    match type of H with bet_endblock f ?st _ = _ => set (s1 := st) in * end.
    assert (Hk : (k < length (ms_pending x))%nat).
    { destruct (Nat.lt_ge_cases k (length (ms_pending x))) as [L|L]; [exact L|]. unfold tl in Etl. rewrite (skipn_all2 _ L) in Etl. discriminate. }
    assert (Hidn : zlen ids = n) by (unfold zlen, ids; rewrite firstn_length_le by lia; unfold k; lia).
    rewrite (bet_endblock_zero f s1 (n - cnt)) in H by lia. injection H as Es. rewrite <- Es. clear Es s'.
    assert (Hq1 : c_mqueue s1 = m0 :: q) by reflexivity.
    split; [tauto|]. split; [intros m Hm; rewrite Hq1 in Hm; exact Hm|].
    assert (Hp1' : pend_of s1 m0 = zlen (ms_pending x) - n).
    { unfold pend_of. rewrite (get_ms_set_same s s1 m0 x1 eq_refl). rewrite Hp1. lia. }
    intros m Hm. rewrite Hq1. cbn [ahead]. rewrite Hp0, Hp1'.
    assert (Hgt : n < zlen (ms_pending x)) by (unfold zlen, k in *; lia).
    destruct (Z.eqb_spec m0 m) as [E|Hne].
    + split; [lia|]. right. split; [left; exact E|lia].
    + destruct Hm as [E|Hm]; [contradiction|].
      rewrite <- (ahead_ext (pend_of s) (pend_of s1) q m (Hother s1 _ eq_refl)).
      pose proof (ahead_nonneg (pend_of s) q m ltac:(intros; apply pend_of_nonneg)).
      split; [lia|]. right. split; [right; exact Hm|lia].
Qed.

(* ---- what the bet end blocker leaves alone: participation flags, and the two queues read as one list --------------------------------- *)
Lemma lproj_flags (l l' : list part) : map lproj l' = map lproj l -> map p_settled l' = map p_settled l.
Proof.
  intros E. assert (H : forall k : list part, map p_settled k = map (fun c : bool * Z * Z * Z => fst (fst (fst c))) (map lproj k)).
  { intros k. rewrite map_map. apply map_ext. intros p. reflexivity. }
  rewrite (H l'), (H l), E. reflexivity.
Qed.

Lemma bet_endblock_queues fuel : forall s n s', bet_endblock fuel s n = Some s' ->
  c_bqueue s' ++ c_mqueue s' = c_bqueue s ++ c_mqueue s /\ forall m, unpaid_of s' m = unpaid_of s m.
Proof.
  induction fuel as [|f IH]; intros s n s' H; cbn [bet_endblock] in H.
  - destruct (n <=? 0); [inv H; split; reflexivity|discriminate].
  - destruct (n <=? 0); [inv H; split; reflexivity|].
    destruct (c_mqueue s) as [|m0 q] eqn:EQ; [inv H; rewrite EQ; split; reflexivity|].
    destruct (get_ms s m0) as [x|] eqn:Hg; [|discriminate].
    destruct (settle_bets _ x (c_bank s) (c_subs s) (c_height s) (c_settledix s) 0) as [[[[[x1 bk1] subs1] sidx1] cnt]|] eqn:ES; [|discriminate].
    destruct (settle_bets_x _ _ _ _ _ _ _ _ _ _ _ _ ES) as (L & _ & _).
    assert (Hun : forall s1 v, c_ms s1 = set_ms_list (c_ms s) m0 v -> pflags v = pflags x -> forall m, unpaid_of s1 m = unpaid_of s m).
    { intros s1 v E Ef m. unfold unpaid_of. destruct (Z.eq_dec m m0) as [->|Hne].
      - rewrite (get_ms_set_same s s1 m0 v E), Hg. apply unpaid_flags. exact Ef.
      - rewrite (get_ms_set_other s s1 m0 v m E Hne). reflexivity. }
    destruct (ms_pending x1).
    + destruct (negb (bk_status (ms_book x1) =? BK_ACTIVE)); [discriminate|].
      destruct (IH _ _ _ H) as [I1 I2]. split.
      * rewrite I1. cbn [c_bqueue c_mqueue chain_upd]. unfold remove_uid. cbn [remove_first]. rewrite Z.eqb_refl. rewrite <- app_assoc. reflexivity.
      * intros m. rewrite I2. eapply Hun; [reflexivity|]. unfold pflags. cbn [ms_book mstate_upd]. unfold set_status. cbn [bk_parts book_upd]. apply lproj_flags. exact L.
    + destruct (IH _ _ _ H) as [I1 I2]. split.
      * rewrite I1. reflexivity.
      * intros m. rewrite I2. eapply Hun; [reflexivity|]. unfold pflags. apply lproj_flags. exact L.
Qed.

(* ---- a batch of participations -------------------------------------------------------------------------------------------------------- *)
Definition unsettled_cnt (ps : list part) : Z := zlen (filter (fun p => negb (p_settled p)) ps).

Lemma batch_parts_count ps : forall st cr limit cnt alls c ps' effs,
  batch_parts ps st cr limit cnt = Some (alls, c, ps', effs) -> cnt < limit ->
  cnt <= c <= limit /\ unsettled_cnt ps' = unsettled_cnt ps - (c - cnt) /\
  (alls = true -> unsettled_cnt ps' = 0) /\ (alls = false -> c = limit) /\ (unsettled_cnt ps < limit - cnt -> alls = true).
Proof.
  induction ps as [|p rest IH]; intros st cr limit cnt alls c ps' effs H Hlt; cbn [batch_parts] in H.
  - inv H. unfold unsettled_cnt, zlen. cbn. repeat split; try lia; intros; try discriminate; reflexivity.
  - assert (Hz : forall l : list part, 0 <= unsettled_cnt l) by (intros; apply zlen_nonneg).
    destruct (p_settled p) eqn:Ep.
    + destruct (limit <=? cnt) eqn:El; [apply Z.leb_le in El; lia|].
      destruct (batch_parts rest st cr limit cnt) as [[[[a1 c1] ps1] e1]|] eqn:EB; [|discriminate]. inv H.
      destruct (IH _ _ _ _ _ _ _ _ EB Hlt) as (A & B & C & D & E).
      unfold unsettled_cnt in *. cbn [filter]. rewrite Ep. cbn [negb]. repeat split; try lia; assumption.
    + destruct (settle_participation p st cr) as [[p' e0]|] eqn:ESP; [|discriminate].
      destruct (settle_participation_marks _ _ _ _ _ ESP) as (_ & Hs' & _).
      destruct (limit <=? cnt + 1) eqn:El.
      * apply Z.leb_le in El. inv H. unfold unsettled_cnt. cbn [filter]. rewrite Ep, Hs'. cbn [negb]. unfold zlen. cbn [length].
        repeat split; try lia.
        intros Ha. destruct rest; [reflexivity|discriminate].
      * apply Z.leb_gt in El.
        destruct (batch_parts rest st cr limit (cnt + 1)) as [[[[a1 c1] ps1] e1]|] eqn:EB; [|discriminate]. inv H.
        destruct (IH _ _ _ _ _ _ _ _ EB El) as (A & B & C & D & E).
        unfold unsettled_cnt in *. cbn [filter]. rewrite Ep, Hs'. cbn [negb]. unfold zlen in *. cbn [length]. repeat split; try lia; try assumption.
        intros Hu. apply E. lia.
Qed.

(* ---- the order-book end blocker -------------------------------------------------------------------------------------------------------------- *)
Definition qok2 (s : chain) : Prop := NoDup (c_bqueue s).

Definition paid_out (s' : chain) (m : Z) : Prop :=
  ~ In m (c_bqueue s') /\ exists x, get_ms s' m = Some x /\ bk_status (ms_book x) = BK_SETTLED /\ unpaid x = 0.

Lemma ob_endblock_zero fuel s n i : n <= 0 -> ob_endblock fuel s n i = Some s.
Proof. intros H. destruct fuel; cbn [ob_endblock]; destruct (n <=? 0) eqn:E; try reflexivity; apply Z.leb_gt in E; lia. Qed.

Lemma remove_first_notin_id m l : ~ In m l -> remove_first m l = l.
Proof. induction l as [|h t IH]; intros H; [reflexivity|]. cbn [remove_first]. destruct (Z.eqb_spec h m) as [->|_]; [exfalso; apply H; left; reflexivity|]. f_equal. apply IH. intros Hi. apply H. right. exact Hi. Qed.

Lemma ob_endblock_ahead fuel : forall s n s', ob_endblock fuel s n 0 = Some s' -> qok2 s -> 0 <= n ->
  c_mqueue s' = c_mqueue s /\ (forall m, pend_of s' m = pend_of s m) /\
  (forall m, In m (c_bqueue s') -> In m (c_bqueue s)) /\
  (forall m, ~ In m (c_bqueue s) -> get_ms s' m = get_ms s m) /\
  forall m, In m (c_bqueue s) ->
    (ahead (unpaid_of s) (c_bqueue s) m < n -> paid_out s' m) /\
    (paid_out s' m \/ (In m (c_bqueue s') /\ ahead (unpaid_of s') (c_bqueue s') m = ahead (unpaid_of s) (c_bqueue s) m - n)).
Proof.
  induction fuel as [|f IH]; intros s n s' H Q Hn.
  { cbn [ob_endblock] in H. destruct (n <=? 0) eqn:En; [|discriminate]. inv H. apply Z.leb_le in En.
    refine (conj eq_refl (conj (fun _ => eq_refl) (conj (fun _ H => H) (conj (fun _ _ => eq_refl) _)))).
    intros m Hm. pose proof (ahead_nonneg (unpaid_of s') (c_bqueue s') m ltac:(intros; apply unpaid_of_nonneg)).
    split; [lia|]. right. split; [exact Hm|lia]. }
  cbn [ob_endblock] in H. destruct (n <=? 0) eqn:En.
  { inv H. apply Z.leb_le in En. refine (conj eq_refl (conj (fun _ => eq_refl) (conj (fun _ H => H) (conj (fun _ _ => eq_refl) _)))). intros m Hm.
    pose proof (ahead_nonneg (unpaid_of s') (c_bqueue s') m ltac:(intros; apply unpaid_of_nonneg)). split; [lia|]. right. split; [exact Hm|lia]. }
  apply Z.leb_gt in En.
  destruct (c_bqueue s) as [|m0 q] eqn:EQ.
  { cbn [nth_error] in H. inv H. rewrite EQ. refine (conj eq_refl (conj (fun _ => eq_refl) (conj (fun _ H => H) (conj (fun _ _ => eq_refl) _)))). intros m []. }
  cbn [nth_error] in H. unfold qok2 in Q. rewrite EQ in Q. inversion Q as [|? ? Hni Hndq]; subst.
  destruct (get_ms s m0) as [x|] eqn:Hg; [|discriminate].
  destruct (negb (bk_status (ms_book x) =? BK_RESOLVED)); [discriminate|].
  destruct (batch_parts (bk_parts (ms_book x)) (k_status (ms_mkt x)) (k_creator (ms_mkt x)) n 0) as [[[[alls cnt] ps] effs]|] eqn:EB; [|discriminate].
  destruct (apply_effects (c_bank s) (c_subs s) effs) as [[bk1 subs1]|] eqn:EA; [|discriminate].
  destruct (batch_parts_count _ _ _ _ _ _ _ _ _ EB En) as (C1 & C2 & C3 & C4 & C5).
  match type of H with ob_endblock f ?st _ _ = _ => set (s1 := st) in * end.
  assert (Hms1 : c_ms s1 = set_ms_list (c_ms s) m0 (mstate_upd x (ms_mkt x)
            (book_upd (ms_book x) (if alls then BK_SETTLED else bk_status (ms_book x)) (bk_partcnt (ms_book x)) (bk_queues (ms_book x)) ps
               (bk_expo (ms_book x)) (bk_expo_ix (ms_book x)) (bk_hist (ms_book x)) (bk_pairs (ms_book x))) (ms_bets x) (ms_pending x) (ms_deps x) (ms_wds x))) by reflexivity.
  assert (Hp0 : unpaid_of s m0 = unsettled_cnt (bk_parts (ms_book x))) by (unfold unpaid_of; rewrite Hg; reflexivity).
  assert (Hp1 : unpaid_of s1 m0 = unsettled_cnt ps) by (unfold unpaid_of; rewrite (get_ms_set_same s s1 m0 _ Hms1); reflexivity).
  assert (Hother : forall h, h <> m0 -> get_ms s1 h = get_ms s h) by (intros h Hh; apply (get_ms_set_other s s1 m0 _ h Hms1 Hh)).
  assert (Hpend1 : forall m, pend_of s1 m = pend_of s m).
  { intros m. unfold pend_of. destruct (Z.eq_dec m m0) as [->|Hne]; [rewrite (get_ms_set_same s s1 m0 _ Hms1), Hg; reflexivity|rewrite (Hother m Hne); reflexivity]. }
  assert (Hun1 : forall h, In h q -> unpaid_of s h = unpaid_of s1 h).
  { intros h Hh. unfold unpaid_of. rewrite Hother; [reflexivity|]. intros ->. contradiction. }
  destruct alls.
  - (* every participation of the head book is paid: the book is settled and leaves the queue *)
    assert (Hq1 : c_bqueue s1 = q) by (unfold s1; cbn [c_bqueue chain_upd]; unfold remove_uid; cbn [remove_first]; rewrite Z.eqb_refl; reflexivity).
    destruct (IH s1 (n - cnt) s' H ltac:(unfold qok2; rewrite Hq1; exact Hndq) ltac:(lia)) as (I0 & I0p & I1 & I2 & I3).
    rewrite Hq1 in I1, I2, I3.
    split; [rewrite I0; reflexivity|]. split; [intros m; rewrite I0p; apply Hpend1|].
    split; [intros m Hm; right; apply I1; exact Hm|].
    split; [intros m Hm; rewrite I2 by (intros Hc; apply Hm; right; exact Hc); apply Hother; intros ->; apply Hm; left; reflexivity|].
    assert (D0 : paid_out s' m0).
    { split; [intros Hc; apply I1 in Hc; contradiction|]. rewrite (I2 m0 Hni), (get_ms_set_same s s1 m0 _ Hms1). eexists. split; [reflexivity|].
      cbn [ms_book mstate_upd bk_status book_upd]. split; [reflexivity|]. unfold unpaid. cbn [ms_book mstate_upd bk_parts book_upd]. apply (C3 eq_refl). }
    intros m [->|Hm].
    + split; [intros _; exact D0|left; exact D0].
    + assert (Hne : m0 <> m) by (intros ->; contradiction).
      cbn [ahead]. destruct (Z.eqb_spec m0 m) as [E|_]; [contradiction|]. rewrite Hp0.
      destruct (I3 m Hm) as [J1 J2]. rewrite <- (ahead_ext (unpaid_of s) (unpaid_of s1) q m Hun1) in J1, J2.
      rewrite (C3 eq_refl) in C2.
      split; [intros Hlt; apply J1; lia|]. destruct J2 as [J2|[J2 J3]]; [left; exact J2|right; split; [exact J2|rewrite J3; lia]].
  - (* the budget is used up inside the head book *)
    pose proof (C4 eq_refl) as Hc. subst cnt.
    rewrite (ob_endblock_zero f s1 (n - n) 1%nat) in H by lia. injection H as Es. rewrite <- Es. clear Es s'.
    assert (Hq1 : c_bqueue s1 = m0 :: q) by reflexivity.
    split; [reflexivity|]. split; [exact Hpend1|]. split; [intros m Hm; rewrite Hq1 in Hm; exact Hm|].
    split; [intros m Hm; apply Hother; intros ->; apply Hm; left; reflexivity|].
    intros m Hm. rewrite Hq1. cbn [ahead]. rewrite Hp0, Hp1.
    assert (Hge : n <= unsettled_cnt (bk_parts (ms_book x))).
    { destruct (Z.lt_ge_cases (unsettled_cnt (bk_parts (ms_book x))) n) as [L|L]; [|exact L]. specialize (C5 ltac:(lia)). discriminate C5. }
    destruct (Z.eqb_spec m0 m) as [E|Hne].
    + split; [lia|]. right. split; [left; exact E|lia].
    + destruct Hm as [E|Hm]; [contradiction|].
      rewrite <- (ahead_ext (unpaid_of s) (unpaid_of s1) q m Hun1).
      pose proof (ahead_nonneg (unpaid_of s) q m ltac:(intros; apply unpaid_of_nonneg)).
      split; [lia|]. right. split; [right; exact Hm|lia].
Qed.

(* =================================================================================================================================== *)
(* Part 2: no transaction touches the queued work of a resolved market                                                                 *)
(* =================================================================================================================================== *)
Definition resolvedb (x : mstate) : bool := status_resolved (k_status (ms_mkt x)).
Definition wproj (x : mstate) : list Z * list bool * Z := (ms_pending x, pflags x, bk_status (ms_book x)).

Record qframe (s s' : chain) : Prop := {
  qf_mq : exists new, c_mqueue s' = c_mqueue s ++ new;
  qf_bq : c_bqueue s' = c_bqueue s;
  qf_res : forall m x, get_ms s m = Some x -> resolvedb x = true -> exists x', get_ms s' m = Some x' /\ resolvedb x' = true /\ wproj x' = wproj x;
  qf_status : forall m x', get_ms s' m = Some x' ->
     bk_status (ms_book x') = BK_ACTIVE \/ exists x, get_ms s m = Some x /\ bk_status (ms_book x) = bk_status (ms_book x') }.

Lemma qframe_refl s : qframe s s.
Proof.
  constructor; [exists []; rewrite app_nil_r; reflexivity|reflexivity| |].
  - intros m x H R. exists x. repeat split; assumption.
  - intros m x H. right. exists x. split; [exact H|reflexivity].
Qed.

Lemma qframe_trans a b c : qframe a b -> qframe b c -> qframe a c.
Proof.
  intros [[n1 A1] A2 A3 A4] [[n2 B1] B2 B3 B4]. constructor.
  - exists (n1 ++ n2). rewrite B1, A1, app_assoc. reflexivity.
  - congruence.
  - intros m x H R. destruct (A3 m x H R) as (y & Hy & Ry & Ey). destruct (B3 m y Hy Ry) as (z & Hz & Rz & Ez). exists z. repeat split; [exact Hz|exact Rz|congruence].
  - intros m z Hz. destruct (B4 m z Hz) as [E|(y & Hy & Ey)]; [left; exact E|].
    destruct (A4 m y Hy) as [E|(x & Hx & Ex)]; [left; congruence|right; exists x; split; [exact Hx|congruence]].
Qed.

Lemma qframe_same s s' : c_ms s' = c_ms s -> c_mqueue s' = c_mqueue s -> c_bqueue s' = c_bqueue s -> qframe s s'.
Proof.
  intros E Q B. constructor; [exists []; rewrite app_nil_r; exact Q|exact B| |].
  - intros m x H R. exists x. rewrite (get_ms_ext s s' m E). repeat split; assumption.
  - intros m x H. right. exists x. rewrite <- (get_ms_ext s s' m E). split; [exact H|reflexivity].
Qed.

Lemma qframe_upd s s' m0 x0 x0' new :
  get_ms s m0 = Some x0 -> c_ms s' = set_ms_list (c_ms s) m0 x0' -> c_mqueue s' = c_mqueue s ++ new -> c_bqueue s' = c_bqueue s ->
  bk_status (ms_book x0') = bk_status (ms_book x0) ->
  (resolvedb x0 = true -> resolvedb x0' = true /\ wproj x0' = wproj x0) -> qframe s s'.
Proof.
  intros Hg E Q B St W. constructor; [exists new; exact Q|exact B| |].
  - intros m x H R. destruct (Z.eq_dec m m0) as [->|Hne].
    + rewrite Hg in H. inv H. exists x0'. split; [apply (get_ms_set_same s s' m0 x0' E)|apply W; exact R].
    + exists x. rewrite (get_ms_set_other s s' m0 x0' m E Hne). repeat split; assumption.
  - intros m x' H. right. destruct (Z.eq_dec m m0) as [->|Hne].
    + rewrite (get_ms_set_same s s' m0 x0' E) in H. inv H. exists x0. split; [exact Hg|symmetry; exact St].
    + rewrite (get_ms_set_other s s' m0 x0' m E Hne) in H. exists x'. split; [exact H|reflexivity].
Qed.

Lemma ai_not_resolved st : status_ai st = true -> status_resolved st = false.
Proof. unfold status_ai, status_resolved. intros H. apply orb_true_iff in H. destruct H as [H|H]; apply Z.eqb_eq in H; subst st; reflexivity. Qed.

Lemma find_app_some {A} (f : A -> bool) l1 l2 y : find f l1 = Some y -> find f (l1 ++ l2) = Some y.
Proof. induction l1 as [|a r IH]; cbn [find app]; intros H; [discriminate|]. destruct (f a); [exact H|apply IH; exact H]. Qed.

Lemma market_add_qf s sg tk u st en od sts s' : market_add s sg tk u st en od sts = Some s' -> qframe s s'.
Proof.
  unfold market_add. intros H. dmatch H. inv H. constructor; cbn [c_mqueue c_bqueue c_ms chain_upd]; [exists []; rewrite app_nil_r; reflexivity|reflexivity| |].
  - intros m x Hg R. exists x. split; [|split; [exact R|reflexivity]]. unfold get_ms, findb in *. cbn [c_ms chain_upd].
    destruct (find (fun e => fst e =? m) (c_ms s)) as [e|] eqn:EF; [|discriminate]. rewrite (find_app_some _ _ _ _ EF). exact Hg.
  - intros m x' Hg. unfold get_ms, findb in Hg. cbn [c_ms chain_upd] in Hg.
    destruct (find (fun e => fst e =? m) (c_ms s)) as [e|] eqn:EF.
    + rewrite (find_app_some _ _ _ _ EF) in Hg. right. exists x'. split; [unfold get_ms, findb; rewrite EF; exact Hg|reflexivity].
    + rewrite (find_app_none _ _ _ EF) in Hg. cbn [find fst] in Hg. destruct (u =? m); [|discriminate]. inv Hg. left. reflexivity.
Qed.

Lemma market_update_qf s tk u st en sts s' : market_update s tk u st en sts = Some s' -> qframe s s'.
Proof.
  unfold market_update. intros H. destruct (negb (ticket_ok s tk)); [discriminate|].
  destruct (get_ms s u) as [x|] eqn:Hg; [|discriminate]. destruct (negb (status_ai (k_status (ms_mkt x)))) eqn:E1; [discriminate|]. dmatch H. inv H.
  eapply (qframe_upd s _ u x _ []); [exact Hg|reflexivity|cbn [c_mqueue chain_upd]; rewrite app_nil_r; reflexivity|reflexivity|reflexivity|].
  intros R. unfold resolvedb in R. apply negb_false_iff in E1. rewrite (ai_not_resolved _ E1) in R. discriminate.
Qed.

Lemma market_resolve_qf s tk u r w sts s' : market_resolve s tk u r w sts = Some s' -> qframe s s'.
Proof.
  unfold market_resolve. intros H. repeat (match type of H with (if ?c then None else _) = _ => destruct c; [discriminate|] end).
  destruct (get_ms s u) as [x|] eqn:Hg; [|discriminate]. destruct (negb (status_ai (k_status (ms_mkt x)))) eqn:E1; [discriminate|]. apply negb_false_iff in E1.
  dmatch H; inv H; (eapply (qframe_upd s _ u x _ [u]); [exact Hg|reflexivity|reflexivity|reflexivity|reflexivity|];
  intros R; unfold resolvedb in R; rewrite (ai_not_resolved _ E1) in R; discriminate).
Qed.

Lemma active_not_resolved x : (k_status (ms_mkt x) =? MK_ACTIVE) = true -> resolvedb x = false.
Proof. intros E. apply Z.eqb_eq in E. unfold resolvedb. rewrite E. reflexivity. Qed.

Lemma house_deposit_core_qf s c d m a g s' : house_deposit_core s c d m a g = Some s' -> qframe s s'.
Proof.
  unfold house_deposit_core. intros H. destruct (get_ms s m) as [x|] eqn:Hg; [|discriminate].
  destruct (negb (k_status (ms_mkt x) =? MK_ACTIVE)) eqn:E1; [discriminate|].
  destruct (init_participation _ _ _ _ _) as [[[bk idx] effs]|] eqn:EI; [|discriminate].
  destruct (apply_effects _ _ _) as [[bank' subs']|]; [|discriminate]. inv H.
  eapply (qframe_upd s _ m x _ []); [exact Hg|reflexivity|cbn [c_mqueue chain_upd]; rewrite app_nil_r; reflexivity|reflexivity| |].
  - cbn [ms_book mstate_upd]. apply (init_participation_lock _ _ _ _ _ _ _ _ 0 EI).
  - intros R. apply negb_false_iff in E1. rewrite (active_not_resolved x E1) in R. discriminate.
Qed.

Lemma upd_map_keep {A B} (f : A -> bool) (g : A -> B) (v p : A) l : find f l = Some p -> g v = g p -> map g (upd f v l) = map g l.
Proof. intros Hf Hg. destruct (upd_split _ _ _ Hf) as (l1 & l2 & E1 & E2). rewrite E2, E1, !map_app. cbn [map]. rewrite Hg. reflexivity. Qed.

Lemma withdraw_participation_flags b idx amt b' effs :
  withdraw_participation b idx amt = Some (b', effs) -> map p_settled (bk_parts b') = map p_settled (bk_parts b) /\ bk_status b' = bk_status b.
Proof.
  unfold withdraw_participation. intros H. destruct (get_part b idx) as [p|] eqn:Hg; [|discriminate].
  set (p' := part_upd p (p_liq p - amt) (p_crl p - amt) (p_enf p) (p_tba p) (p_crtb p) (p_maxloss p) (p_crml p) (p_crml_odds p) (p_profit p)) in *.
  assert (Hidx : p_idx p' = idx).
  { unfold get_part, findb in Hg. apply find_some in Hg. destruct Hg as [_ Hg]. unfold part_is in Hg. apply Z.eqb_eq in Hg. exact Hg. }
  assert (K : map p_settled (bk_parts (set_part b p')) = map p_settled (bk_parts b)).
  { unfold set_part. cbn [bk_parts book_upd]. rewrite Hidx. apply (upd_map_keep _ _ _ p); [exact Hg|reflexivity]. }
  destruct (0 <? p_crl p'); [injection H as <- _; split; [exact K|reflexivity]|].
  destruct (remove_from_queues _ _); [|discriminate]. injection H as <- _. split; [exact K|reflexivity].
Qed.

Lemma withdraw_core_qf s sg d m pidx mo a ob s' amt : withdraw_core s sg d m pidx mo a ob = Some (s', amt) -> qframe s s'.
Proof.
  unfold withdraw_core. intros H. destruct (get_ms s m) as [x|] eqn:Hg; [|discriminate]. destruct (findb _ _); [|discriminate]. destruct (_ <=? _); [discriminate|].
  destruct (calc_withdrawal _ _ _ _ _ _) as [amt0|]; [|discriminate]. destruct (if ob then _ else _); [|discriminate].
  destruct (withdraw_participation _ _ _) as [[bk effs]|] eqn:EP; [|discriminate].
  destruct (apply_effects _ _ _) as [[bank' subs']|]; [|discriminate]. injection H as <- <-.
  destruct (withdraw_participation_flags _ _ _ _ _ EP) as [F S].
  eapply (qframe_upd s _ m x _ []); [exact Hg|reflexivity|cbn [c_mqueue chain_upd]; rewrite app_nil_r; reflexivity|reflexivity|exact S|].
  intros R. split; [exact R|]. unfold wproj, pflags. cbn [ms_pending ms_book mstate_upd]. rewrite F, S. reflexivity.
Qed.

Lemma wager_core_qf s sg u a sm so ov mu al s' : wager_core s sg u a sm so ov mu al = Some s' -> qframe s s'.
Proof.
  unfold wager_core. intros H. destruct (get_ms s sm) as [x|] eqn:Hg; [|discriminate].
  destruct (negb (k_status (ms_mkt x) =? MK_ACTIVE)) eqn:E1; [discriminate|]. dmatch H. inv H.
  eapply (qframe_upd s _ sm x _ []); [exact Hg|reflexivity|cbn [c_mqueue chain_upd]; rewrite app_nil_r; reflexivity|reflexivity| |].
  - cbn [ms_book mstate_upd]. match goal with E : process_wager _ _ _ _ _ _ = Some _ |- _ => exact (process_wager_status _ _ _ _ _ _ _ _ _ E) end.
  - intros R. apply negb_false_iff in E1. rewrite (active_not_resolved x E1) in R. discriminate.
Qed.

Ltac qf_same := apply qframe_same; reflexivity.

Lemma do_grant_qf s a b k l e s' : do_grant s a b k l e = Some s' -> qframe s s'.
Proof. unfold do_grant. intros H; dmatch H; inv H; qf_same. Qed.
Lemma do_revoke_qf s a b k s' : do_revoke s a b k = Some s' -> qframe s s'.
Proof. unfold do_revoke. intros H; dmatch H; inv H; qf_same. Qed.
Lemma do_send_qf s a b k s' : do_send s a b k = Some s' -> qframe s s'.
Proof. unfold do_send. intros H; dmatch H; inv H; qf_same. Qed.
Lemma ovm_propose_qf s sg tk ks li s' : ovm_propose s sg tk ks li = Some s' -> qframe s s'.
Proof. unfold ovm_propose. intros H; dmatch H; inv H; qf_same. Qed.
Lemma ovm_vote_qf s tk vi pid v s' : ovm_vote s tk vi pid v = Some s' -> qframe s s'.
Proof. unfold ovm_vote. intros H; dmatch H; inv H; qf_same. Qed.
Lemma sub_create_qf s c o l s' : sub_create s c o l = Some s' -> qframe s s'.
Proof. unfold sub_create. intros H; dmatch H; inv H; qf_same. Qed.
Lemma sub_topup_qf s c o l s' : sub_topup s c o l = Some s' -> qframe s s'.
Proof. unfold sub_topup. intros H; dmatch H; inv H; qf_same. Qed.
Lemma sub_withdraw_unlocked_qf s o s' : sub_withdraw_unlocked s o = Some s' -> qframe s s'.
Proof. unfold sub_withdraw_unlocked. intros H; dmatch H; inv H; qf_same. Qed.
Lemma sub_wager_qf s sg tk ic tk2 u a sm so ov mu al k ot md sd s' :
  sub_wager s sg tk ic tk2 u a sm so ov mu al k ot md sd = Some s' -> qframe s s'.
Proof.
  unfold sub_wager. intros H; dmatch H. eapply qframe_trans; [|eapply wager_core_qf; exact H]. qf_same.
Qed.
Lemma sub_house_deposit_qf s sg tk m a k d s' : sub_house_deposit s sg tk m a k d = Some s' -> qframe s s'.
Proof.
  unfold sub_house_deposit. intros H; dmatch H; inv H.
  eapply qframe_trans; [eapply house_deposit_core_qf; eassumption|qf_same].
Qed.
Lemma sub_house_withdraw_qf s sg tk m p mo a k d s' : sub_house_withdraw s sg tk m p mo a k d = Some s' -> qframe s s'.
Proof.
  unfold sub_house_withdraw. intros H; dmatch H; inv H.
  eapply qframe_trans; [eapply withdraw_core_qf; eassumption|qf_same].
Qed.

Lemma tx_qf s r : (forall s', r = Some s' -> qframe s s') -> qframe s (fst (tx s r)).
Proof. intros H. unfold tx. destruct r as [s'|]; cbn [fst]; [apply H; reflexivity|apply qframe_refl]. Qed.

(* every operation other than the end blocker *)
Theorem step_qframe s o : o <> OEnd -> qframe s (fst (step s o)).
Proof.
  intros Hne. unfold step. destruct (c_halted s); [apply qframe_refl|].
  destruct o; try (apply tx_qf; intros s' H).
  - unfold begin_block_op. destruct (begin_block _ _ _ _); cbn [fst]; [qf_same|qf_same].
  - contradiction.
  - eapply market_add_qf; exact H.
  - eapply market_update_qf; exact H.
  - eapply market_resolve_qf; exact H.
  - unfold house_deposit in H. dmatch H. eapply house_deposit_core_qf; exact H.
  - unfold house_withdraw in H. dmatch H. inv H. match goal with E : withdraw_core _ _ _ _ _ _ _ _ = Some _ |- _ => eapply withdraw_core_qf; exact E end.
  - unfold bet_wager in H. dmatch H. eapply wager_core_qf; exact H.
  - eapply do_grant_qf; exact H.
  - eapply do_revoke_qf; exact H.
  - eapply do_send_qf; exact H.
  - eapply ovm_propose_qf; exact H.
  - eapply ovm_vote_qf; exact H.
  - eapply sub_create_qf; exact H.
  - eapply sub_topup_qf; exact H.
  - eapply sub_withdraw_unlocked_qf; exact H.
  - eapply sub_wager_qf; exact H.
  - eapply sub_house_deposit_qf; exact H.
  - eapply sub_house_withdraw_qf; exact H.
Qed.

(* =================================================================================================================================== *)
(* Part 3: over every history                                                                                                          *)
(* =================================================================================================================================== *)
Lemma ob_endblock_pend fuel : forall s n i s', ob_endblock fuel s n i = Some s' ->
  c_mqueue s' = c_mqueue s /\ forall m, pend_of s' m = pend_of s m.
Proof.
  induction fuel as [|f IH]; intros s n i s' H; cbn [ob_endblock] in H.
  - destruct (n <=? 0); [inv H; split; reflexivity|discriminate].
  - destruct (n <=? 0); [inv H; split; reflexivity|].
    destruct (nth_error (c_bqueue s) i) as [m0|]; [|inv H; split; reflexivity].
    destruct (get_ms s m0) as [x|] eqn:Hg; [|discriminate].
    destruct (negb (bk_status (ms_book x) =? BK_RESOLVED)); [discriminate|].
    destruct (batch_parts _ _ _ _ _) as [[[[alls cnt] ps] effs]|]; [|discriminate].
    destruct (apply_effects (c_bank s) (c_subs s) effs) as [[bk1 subs1]|]; [|discriminate].
    destruct (IH _ _ _ _ H) as [I1 I2]. split; [rewrite I1; reflexivity|].
    intros m. rewrite I2. unfold pend_of. destruct (Z.eq_dec m m0) as [->|Hne].
    + erewrite get_ms_set_same by reflexivity. rewrite Hg. reflexivity.
    + erewrite get_ms_set_other by (try reflexivity; exact Hne). reflexivity.
Qed.

Lemma bet_endblock_bq fuel : forall s n s', bet_endblock fuel s n = Some s' -> exists q1, c_bqueue s' = c_bqueue s ++ q1.
Proof.
  induction fuel as [|f IH]; intros s n s' H; cbn [bet_endblock] in H.
  - destruct (n <=? 0); [inv H; exists []; rewrite app_nil_r; reflexivity|discriminate].
  - destruct (n <=? 0); [inv H; exists []; rewrite app_nil_r; reflexivity|].
    destruct (c_mqueue s) as [|m0 q] eqn:EQ; [inv H; exists []; rewrite app_nil_r; reflexivity|].
    destruct (get_ms s m0) as [x|]; [|discriminate].
    destruct (settle_bets _ x (c_bank s) (c_subs s) (c_height s) (c_settledix s) 0) as [[[[[x1 bk1] subs1] sidx1] cnt]|]; [|discriminate].
    destruct (ms_pending x1).
    + destruct (negb (bk_status (ms_book x1) =? BK_ACTIVE)); [discriminate|].
      destruct (IH _ _ _ H) as (q1 & E). exists ([m0] ++ q1). rewrite E. cbn [c_bqueue chain_upd]. rewrite <- app_assoc. reflexivity.
    + destruct (IH _ _ _ H) as (q1 & E). exists q1. rewrite E. reflexivity.
Qed.

Fixpoint count_end (ops : list op) : Z :=
  match ops with [] => 0 | OEnd :: r => 1 + count_end r | _ :: r => count_end r end.
Lemma count_end_app a b : count_end (a ++ b) = count_end a + count_end b.
Proof. induction a as [|o r IH]; cbn [app count_end]; [lia|]. destruct o; lia. Qed.
Lemma count_end_nonneg a : 0 <= count_end a.
Proof. induction a as [|o r IH]; cbn [count_end]; [lia|]. destruct o; lia. Qed.

(* the book of market m has left the active stage (all its bets are settled) / is settled *)
Definition book_at_least (st : Z) (s : chain) (m : Z) : Prop := exists x, get_ms s m = Some x /\ st <= bk_status (ms_book x).

Lemma book_at_least_step st s o m : inv s -> book_at_least st s m -> book_at_least st (fst (step s o)) m.
Proof.
  intros Hinv (x & Hx & Hs). destruct (step_cmono s o Hinv m x Hx) as (x' & Hx' & M). exists x'. split; [exact Hx'|]. pose proof (mo_book _ _ M). lia.
Qed.

Lemma op_eq_end (o : op) : o = OEnd \/ o <> OEnd.
Proof. destruct o; try (right; discriminate). left. reflexivity. Qed.

Lemma status_res_resolvedb x : status_res (k_status (ms_mkt x)) -> resolvedb x = true.
Proof. unfold resolvedb. intros [E|[E|E]]; rewrite E; reflexivity. Qed.

Section Hist.
Variables (P : params) (bk : bank) (supply : Z) (vault : list Z) (MP : mparams) (t0 : Z) (sw sd : bool).
Hypothesis HP : pr_bet_fee P <= pr_bet_min P.
Hypothesis HF : 0 <= pr_bet_fee P.
Hypothesis B1 : bget bk POOL = 0.
Hypothesis B2 : bget bk HOUSEFEE = 0.
Hypothesis B3 : bget bk BETFEE = 0.
Hypothesis Hb : forall a, SUBBASE <= a -> 0 <= bget bk a.
Hypothesis HM : mparams_valid MP = true.

Let s0 := init bk supply P vault MP t0 sw sd.

Lemma reach_g2 ops : Forall user_op ops -> g2 (run s0 ops).
Proof. apply g2_reachable; assumption. Qed.
Lemma reach_prm ops : c_prm (run s0 ops) = P.
Proof. destruct (run_cfg ops s0) as (E & _). rewrite E. reflexivity. Qed.
Lemma reach_live ops : Forall user_op ops -> c_halted (run s0 ops) = false.
Proof. apply no_abort; assumption. Qed.

Lemma g2_qok s : g2 s -> qok s.
Proof.
  intros G. pose proof (g_inv _ (g2_g1 _ G)) as I. split; [apply (i_mq_nodup _ I)|].
  intros m Hm. destruct (i_mq _ I m Hm) as (x & Hg & _). exists x. split; [exact Hg|]. apply (g1_pending s m x (g2_g1 _ G) Hg).
Qed.

(* the two halves of an end block on a reachable state *)
Lemma end_block_split s : g2 s -> c_halted s = false ->
  exists s1 s2, bet_endblock (S (length (c_mqueue s) + total_pending s)) s (pr_bet_batch (c_prm s)) = Some s1 /\ g2 s1 /\
    ob_endblock (S (length (c_bqueue s1))) s1 (pr_ob_batch (c_prm s1)) 0 = Some s2 /\
    fst (step s OEnd) = ovm_endblock s2.
Proof.
  intros G Hh.
  destruct (bet_endblock_ok P HP HF (S (length (c_mqueue s) + total_pending s)) s (pr_bet_batch (c_prm s)) (g2_g1 _ G) ltac:(lia)) as (s1 & E1 & G1).
  assert (G2 : g2 s1) by (constructor; [exact G1|eapply bet_endblock_sinv; [exact E1|apply (g2_sinv _ G)]|eapply bet_endblock_xinv; [exact E1|apply (g2_xinv _ G)]]).
  destruct (ob_endblock_ok P HP HF (S (length (c_bqueue s1))) s1 (pr_ob_batch (c_prm s1)) O G2 ltac:(lia)) as (s2 & E2 & _).
  exists s1, s2. split; [exact E1|]. split; [exact G2|]. split; [exact E2|].
  unfold step. rewrite Hh. unfold end_block. rewrite E1, E2. reflexivity.
Qed.

Lemma ovm_endblock_ms s : c_ms (ovm_endblock s) = c_ms s /\ c_mqueue (ovm_endblock s) = c_mqueue s /\ c_bqueue (ovm_endblock s) = c_bqueue s.
Proof. unfold ovm_endblock. destruct (ovm_finish _ _ _ _). repeat split. Qed.

Lemma pend_of_ext s s' : c_ms s' = c_ms s -> forall m, pend_of s' m = pend_of s m.
Proof. intros E m. unfold pend_of. rewrite (get_ms_ext s s' m E). reflexivity. Qed.
Lemma unpaid_of_ext s s' : c_ms s' = c_ms s -> forall m, unpaid_of s' m = unpaid_of s m.
Proof. intros E m. unfold unpaid_of. rewrite (get_ms_ext s s' m E). reflexivity. Qed.

(* ---- phase 1: the bets ------------------------------------------------------------------------------------------------------------- *)
Definition bets_measure (s : chain) (m : Z) : Z := ahead (pend_of s) (c_mqueue s) m.

Lemma step_bets s o m : g2 s -> c_halted s = false -> c_prm s = P -> 0 <= pr_bet_batch P -> In m (c_mqueue s) ->
  let s' := fst (step s o) in
  book_at_least BK_RESOLVED s' m \/
  (In m (c_mqueue s') /\ bets_measure s' m = bets_measure s m - (match o with OEnd => pr_bet_batch P | _ => 0 end)).
Proof.
  intros G Hh HPm Hk Hm. cbv zeta. pose proof (g_inv _ (g2_g1 _ G)) as I.
  destruct (op_eq_end o) as [->|Hne].
  - destruct (end_block_split s G Hh) as (s1 & s2 & E1 & G2 & E2 & Es). rewrite Es. rewrite HPm in E1.
    destruct (bet_endblock_ahead _ _ _ _ E1 (g2_qok s G) Hk) as (_ & _ & A). destruct (A m Hm) as [_ [Mv|[Hin Ha]]].
    + left. destruct Mv as [Hb1 _]. destruct (x_bq _ (g2_xinv _ G2) m Hb1) as (x1 & Hx1 & Hs1).
      destruct (ob_endblock_cmono _ _ _ _ _ E2 (g_inv _ (g2_g1 _ G2)) m x1 Hx1) as (x2 & Hx2 & M).
      exists x2. split; [rewrite (get_ms_ext s2 (ovm_endblock s2) m (proj1 (ovm_endblock_ms s2))); exact Hx2|]. pose proof (mo_book _ _ M). lia.
    + right. destruct (ob_endblock_pend _ _ _ _ _ E2) as [Q2 P2]. destruct (ovm_endblock_ms s2) as (O1 & O2 & _).
      unfold bets_measure. rewrite O2, Q2. split; [exact Hin|].
      rewrite (ahead_ext (pend_of (ovm_endblock s2)) (pend_of s1) (c_mqueue s1) m); [exact Ha|].
      intros h _. rewrite (pend_of_ext s2 (ovm_endblock s2) O1). apply P2.
  - right. destruct (step_qframe s o Hne) as [[new Q] _ R _]. unfold bets_measure. rewrite Q. split; [apply in_or_app; left; exact Hm|].
    rewrite (ahead_app_in _ _ _ _ Hm). replace (match o with OEnd => pr_bet_batch P | _ => 0 end) with 0 by (destruct o; try reflexivity; contradiction). rewrite Z.sub_0_r.
    apply ahead_ext. intros h Hh'. destruct (i_mq _ I h Hh') as (x & Hx & Hres & _).
    assert (Rb : resolvedb x = true) by (apply status_res_resolvedb; exact Hres).
    destruct (R h x Hx Rb) as (x' & Hx' & _ & W). unfold pend_of. rewrite Hx, Hx'. unfold wproj in W. injection W as W _ _. rewrite W. reflexivity.
Qed.

Lemma run_app s a b : run s (a ++ b) = run (run s a) b.
Proof. unfold run. apply fold_left_app. Qed.

Theorem bets_phase ops1 m : Forall user_op ops1 -> In m (c_mqueue (run s0 ops1)) -> 0 <= pr_bet_batch P ->
  forall ops2, Forall user_op ops2 ->
  book_at_least BK_RESOLVED (run s0 (ops1 ++ ops2)) m \/
  (In m (c_mqueue (run s0 (ops1 ++ ops2))) /\
   bets_measure (run s0 (ops1 ++ ops2)) m + pr_bet_batch P * count_end ops2 = bets_measure (run s0 ops1) m).
Proof.
  intros H1 Hm Hk ops2. induction ops2 as [|o pre IH] using rev_ind; intros H2.
  - right. rewrite app_nil_r. split; [exact Hm|cbn [count_end]; lia].
  - apply Forall_app in H2. destruct H2 as [H2 Ho]. specialize (IH H2).
    assert (Hall : Forall user_op (ops1 ++ pre)) by (apply Forall_app; split; assumption).
    rewrite app_assoc, run_snoc. set (s := run s0 (ops1 ++ pre)) in *.
    pose proof (reach_g2 _ Hall) as G. fold s in G.
    destruct IH as [L|[Hin Hmeas]].
    + left. apply book_at_least_step; [apply (g_inv _ (g2_g1 _ G))|exact L].
    + destruct (step_bets s o m G (reach_live _ Hall) (reach_prm _) Hk Hin) as [L|[Hin' Hm']]; [left; exact L|right].
      split; [exact Hin'|]. rewrite Hm', count_end_app. cbn [count_end]. destruct o; cbn [count_end]; lia.
Qed.

(* a market queued for bet settlement with `a` pending bets queued up to and including its own has left that stage -- all its bets
   settled, its book handed to the order-book settlement queue -- after a / batch + 1 end blocks, whatever else happens *)
Theorem bets_settled_within ops1 ops2 m : Forall user_op ops1 -> Forall user_op ops2 ->
  In m (c_mqueue (run s0 ops1)) -> 0 < pr_bet_batch P ->
  bets_measure (run s0 ops1) m / pr_bet_batch P + 1 <= count_end ops2 ->
  book_at_least BK_RESOLVED (run s0 (ops1 ++ ops2)) m.
Proof.
  intros H1 H2 Hm Hk Hc. destruct (bets_phase ops1 m H1 Hm ltac:(lia) ops2 H2) as [L|[Hin E]]; [exact L|exfalso].
  set (a := bets_measure (run s0 ops1) m) in *. set (k := pr_bet_batch P) in *.
  assert (0 <= bets_measure (run s0 (ops1 ++ ops2)) m) by (apply ahead_nonneg; intros; apply pend_of_nonneg).
  pose proof (Z.div_mod a k ltac:(lia)) as Hd. pose proof (Z.mod_pos_bound a k Hk) as Hb'.
  assert (k * (a / k + 1) <= k * count_end ops2) by (apply Z.mul_le_mono_nonneg_l; lia). lia.
Qed.

(* ---- phase 2: the participations -------------------------------------------------------------------------------------------------------- *)
Definition parts_measure (s : chain) (m : Z) : Z := ahead (unpaid_of s) (c_bqueue s) m.

Lemma step_parts s o m : g2 s -> c_halted s = false -> c_prm s = P -> 0 <= pr_ob_batch P -> In m (c_bqueue s) ->
  let s' := fst (step s o) in
  book_at_least BK_SETTLED s' m \/
  (In m (c_bqueue s') /\ parts_measure s' m = parts_measure s m - (match o with OEnd => pr_ob_batch P | _ => 0 end)).
Proof.
  intros G Hh HPm Hk Hm. cbv zeta. pose proof (g_inv _ (g2_g1 _ G)) as I.
  destruct (op_eq_end o) as [->|Hne].
  - destruct (end_block_split s G Hh) as (s1 & s2 & E1 & G2 & E2 & Es). rewrite Es.
    destruct (bet_endblock_bq _ _ _ _ E1) as (q1 & Eq1). destruct (bet_endblock_queues _ _ _ _ E1) as [_ Eu1].
    assert (Hm1 : In m (c_bqueue s1)) by (rewrite Eq1; apply in_or_app; left; exact Hm).
    assert (Ea1 : ahead (unpaid_of s1) (c_bqueue s1) m = parts_measure s m).
    { rewrite Eq1, (ahead_app_in _ _ _ _ Hm). apply ahead_ext. intros h _. apply Eu1. }
    rewrite (bet_endblock_prm _ _ _ _ E1), HPm in E2.
    destruct (ob_endblock_ahead _ _ _ _ E2 (x_bq_nd _ (g2_xinv _ G2)) Hk) as (_ & _ & _ & _ & A). destruct (A m Hm1) as [_ [Pd|[Hin Ha]]].
    + left. destruct Pd as (_ & x & Hx & Hs & _). exists x. split; [rewrite (get_ms_ext s2 (ovm_endblock s2) m (proj1 (ovm_endblock_ms s2))); exact Hx|rewrite Hs; lia].
    + right. destruct (ovm_endblock_ms s2) as (O1 & _ & O3). unfold parts_measure at 1. rewrite O3. split; [exact Hin|].
      rewrite (ahead_ext (unpaid_of (ovm_endblock s2)) (unpaid_of s2) (c_bqueue s2) m) by (intros h _; apply (unpaid_of_ext s2 (ovm_endblock s2) O1)).
      rewrite Ha, Ea1. reflexivity.
  - right. destruct (step_qframe s o Hne) as [_ Q R _]. unfold parts_measure. rewrite Q. split; [exact Hm|].
    replace (match o with OEnd => pr_ob_batch P | _ => 0 end) with 0 by (destruct o; try reflexivity; contradiction). rewrite Z.sub_0_r.
    apply ahead_ext. intros h Hh'. destruct (x_bq _ (g2_xinv _ G) h Hh') as (x & Hx & Hst).
    pose proof (g_all _ (g2_g1 _ G) _ (get_ms_in _ _ _ Hx)) as Sx. cbn [snd] in Sx.
    assert (Hna : bk_status (ms_book x) <> BK_ACTIVE) by (rewrite Hst; discriminate).
    assert (Rb : resolvedb x = true) by (apply status_res_resolvedb; apply (se_done _ Sx Hna)).
    destruct (R h x Hx Rb) as (x' & Hx' & _ & W). unfold unpaid_of. rewrite Hx, Hx'. unfold wproj in W. injection W as _ W _. apply unpaid_flags. exact W.
Qed.

Theorem parts_phase ops1 m : Forall user_op ops1 -> In m (c_bqueue (run s0 ops1)) -> 0 <= pr_ob_batch P ->
  forall ops2, Forall user_op ops2 ->
  book_at_least BK_SETTLED (run s0 (ops1 ++ ops2)) m \/
  (In m (c_bqueue (run s0 (ops1 ++ ops2))) /\
   parts_measure (run s0 (ops1 ++ ops2)) m + pr_ob_batch P * count_end ops2 = parts_measure (run s0 ops1) m).
Proof.
  intros H1 Hm Hk ops2. induction ops2 as [|o pre IH] using rev_ind; intros H2.
  - right. rewrite app_nil_r. split; [exact Hm|cbn [count_end]; lia].
  - apply Forall_app in H2. destruct H2 as [H2 Ho]. specialize (IH H2).
    assert (Hall : Forall user_op (ops1 ++ pre)) by (apply Forall_app; split; assumption).
    rewrite app_assoc, run_snoc. set (s := run s0 (ops1 ++ pre)) in *.
    pose proof (reach_g2 _ Hall) as G. fold s in G.
    destruct IH as [L|[Hin Hmeas]].
    + left. apply book_at_least_step; [apply (g_inv _ (g2_g1 _ G))|exact L].
    + destruct (step_parts s o m G (reach_live _ Hall) (reach_prm _) Hk Hin) as [L|[Hin' Hm']]; [left; exact L|right].
      split; [exact Hin'|]. rewrite Hm', count_end_app. cbn [count_end]. destruct o; cbn [count_end]; lia.
Qed.

(* a book queued for payment with `a` unpaid participations queued up to and including its own is settled -- every participation
   paid, the book marked settled and out of the queue -- after a / batch + 1 end blocks, whatever else happens *)
Theorem parts_settled_within ops1 ops2 m : Forall user_op ops1 -> Forall user_op ops2 ->
  In m (c_bqueue (run s0 ops1)) -> 0 < pr_ob_batch P ->
  parts_measure (run s0 ops1) m / pr_ob_batch P + 1 <= count_end ops2 ->
  book_at_least BK_SETTLED (run s0 (ops1 ++ ops2)) m.
Proof.
  intros H1 H2 Hm Hk Hc. destruct (parts_phase ops1 m H1 Hm ltac:(lia) ops2 H2) as [L|[Hin E]]; [exact L|exfalso].
  set (a := parts_measure (run s0 ops1) m) in *. set (k := pr_ob_batch P) in *.
  assert (0 <= parts_measure (run s0 (ops1 ++ ops2)) m) by (apply ahead_nonneg; intros; apply unpaid_of_nonneg).
  pose proof (Z.div_mod a k ltac:(lia)) as Hd. pose proof (Z.mod_pos_bound a k Hk) as Hb'.
  assert (k * (a / k + 1) <= k * count_end ops2) by (apply Z.mul_le_mono_nonneg_l; lia). lia.
Qed.
End Hist.

(* =================================================================================================================================== *)
(* Part 4: the book status is one of active / resolved / settled, and a settled book has no unpaid participation                        *)
(* =================================================================================================================================== *)
Lemma batch_parts_alls ps : forall st cr limit cnt c ps' effs,
  batch_parts ps st cr limit cnt = Some (true, c, ps', effs) -> unsettled_cnt ps' = 0.
Proof.
  induction ps as [|p rest IH]; intros st cr limit cnt c ps' effs H; cbn [batch_parts] in H.
  - inv H. reflexivity.
  - assert (K : forall p' e0 cnt', p_settled p' = true ->
      (if limit <=? cnt' then Some (match rest with [] => true | _ :: _ => false end, cnt', p' :: rest, e0)
       else match batch_parts rest st cr limit cnt' with None => None | Some (alls, c0, ps0, effs') => Some (alls, c0, p' :: ps0, e0 ++ effs') end)
      = Some (true, c, ps', effs) -> unsettled_cnt ps' = 0).
    { intros p' e0 cnt' Hs' HK. destruct (limit <=? cnt').
      - destruct rest; [|discriminate]. inv HK. unfold unsettled_cnt. cbn [filter]. rewrite Hs'. reflexivity.
      - destruct (batch_parts rest st cr limit cnt') as [[[[a1 c1] ps1] e1]|] eqn:EB; [|discriminate]. inv HK.
        unfold unsettled_cnt. cbn [filter]. rewrite Hs'. cbn [negb]. apply (IH _ _ _ _ _ _ _ EB). }
    destruct (p_settled p) eqn:Ep; [apply (K p [] cnt Ep H)|].
    destruct (settle_participation p st cr) as [[p' e0]|] eqn:ESP; [|discriminate].
    destruct (settle_participation_marks _ _ _ _ _ ESP) as (_ & Hs' & _). apply (K p' e0 (cnt + 1) Hs' H).
Qed.

Record i3 (x : mstate) : Prop := {
  i3_range : BK_ACTIVE <= bk_status (ms_book x) <= BK_SETTLED;
  i3_paid : bk_status (ms_book x) = BK_SETTLED -> unpaid x = 0 }.

Lemma i3_same x x' : bk_status (ms_book x') = bk_status (ms_book x) -> pflags x' = pflags x -> i3 x -> i3 x'.
Proof. intros E F [R Pd]. constructor; [rewrite E; exact R|rewrite E, (unpaid_flags _ _ F); exact Pd]. Qed.

Lemma i3_active x : bk_status (ms_book x) = BK_ACTIVE -> i3 x.
Proof. intros E. constructor; rewrite E; [unfold BK_ACTIVE, BK_SETTLED; lia|discriminate]. Qed.

Lemma i3_step P x x' : msett x -> i3 x -> mtrans P x x' -> i3 x'.
Proof.
  intros S I T. destruct T.
  - eapply i3_same; [| |exact I]; reflexivity.
  - eapply i3_same; [| |exact I]; reflexivity.
  - apply i3_active. cbn [ms_book mstate_upd].
    match goal with E : init_participation _ _ _ _ _ = Some _ |- _ => rewrite (proj1 (proj2 (init_participation_lock _ _ _ _ _ _ _ _ 0 E))) end.
    apply (se_ai _ S). left. assumption.
  - match goal with E : withdraw_participation _ _ _ = Some _ |- _ => destruct (withdraw_participation_flags _ _ _ _ _ E) as [F St] end.
    eapply i3_same; [| |exact I]; [exact St|exact F].
  - apply i3_active. cbn [ms_book mstate_upd].
    match goal with E : process_wager _ _ _ _ _ _ = Some _ |- _ => rewrite (process_wager_status _ _ _ _ _ _ _ _ _ E) end.
    apply (se_ai _ S). left. assumption.
  - apply i3_active. match goal with E : settle_bet _ _ _ = Some _ |- _ => rewrite (settle_bet_status _ _ _ _ _ E) end. assumption.
  - constructor; cbn [ms_book with_book mstate_upd set_status bk_status book_upd]; [unfold BK_ACTIVE, BK_RESOLVED, BK_SETTLED; lia|discriminate].
  - destruct alls.
    + constructor; cbn [ms_book with_book mstate_upd bk_status book_upd]; [unfold BK_ACTIVE, BK_SETTLED; lia|].
      intros _. unfold unpaid. cbn [ms_book with_book mstate_upd bk_parts book_upd].
      match goal with E : batch_parts _ _ _ _ _ = Some _ |- _ => exact (batch_parts_alls _ _ _ _ _ _ _ _ E) end.
    + constructor; cbn [ms_book with_book mstate_upd bk_status book_upd]; [apply (i3_range _ I)|].
      match goal with E : bk_status (ms_book _) = BK_RESOLVED |- _ => rewrite E end. discriminate.
Qed.

Lemma i3_fresh mk : i3 (fresh_ms mk).
Proof. apply i3_active. reflexivity. Qed.

Theorem i3_over_histories P bk supply vault MP t0 sw sd ops :
  pr_bet_fee P <= pr_bet_min P -> 0 <= pr_bet_fee P ->
  bget bk POOL = 0 -> bget bk HOUSEFEE = 0 -> bget bk BETFEE = 0 -> Forall valid_op ops ->
  forall m x, get_ms (run (init bk supply P vault MP t0 sw sd) ops) m = Some x -> i3 x.
Proof.
  intros HP HF H1 H2 H3 Hv m x Hg.
  assert (K : msett x /\ i3 x).
  { apply (local_invariant P (fun y => msett y /\ i3 y)) with (bk := bk) (supply := supply) (vault := vault) (MP := MP) (t0 := t0) (sw := sw) (sd := sd) (ops := ops) (m := m); try assumption.
    - intros mk Hmk. split; [apply msett_fresh; exact Hmk|apply i3_fresh].
    - intros y y' [Sy Iy] T. split; [eapply (msett_step P); eassumption|eapply i3_step; eassumption]. }
  exact (proj2 K).
Qed.

(* =================================================================================================================================== *)
(* Part 5: what the two stages mean for the market, and the drained chain (C01)                                                          *)
(* =================================================================================================================================== *)
Lemma unpaid_zero_all x : unpaid x = 0 -> forall p, In p (bk_parts (ms_book x)) -> p_settled p = true.
Proof.
  unfold unpaid, zlen. intros H p Hp. destruct (p_settled p) eqn:E; [reflexivity|exfalso].
  assert (Hin : In p (filter (fun q => negb (p_settled q)) (bk_parts (ms_book x)))) by (apply filter_In; split; [exact Hp|rewrite E; reflexivity]).
  destruct (filter _ _); [destruct Hin|cbn [length] in H; lia].
Qed.

Lemma zsum_map_zero {A} (f : A -> Z) l : (forall a, In a l -> f a = 0) -> zsum (map f l) = 0.
Proof. induction l as [|a r IH]; intros H; cbn [map zsum]; [reflexivity|]. rewrite (H a (or_introl eq_refl)), IH; [reflexivity|]. intros b Hb. apply H. right. exact Hb. Qed.

Lemma settled_owes_nothing x : unpaid x = 0 -> (forall b, In b (ms_bets x) -> is_settled b = true) ->
  owed_pool x = 0 /\ owed_hfee x = 0 /\ owed_bfee x = 0.
Proof.
  intros Hu Hb. pose proof (unpaid_zero_all x Hu) as Hp. unfold owed_pool, owed_hfee, owed_bfee, open_amt, open_fee. rewrite pool_parts_eq, fee_parts_eq.
  rewrite (zsum_map_zero part_pool) by (intros p Hpi; unfold part_pool; rewrite (Hp p Hpi); reflexivity).
  rewrite (zsum_map_zero part_fee) by (intros p Hpi; unfold part_fee; rewrite (Hp p Hpi); reflexivity).
  rewrite (zsum_map_zero bet_open_amt) by (intros b Hbi; unfold bet_open_amt; pose proof (Hb b Hbi) as E; unfold is_settled in E; rewrite E; reflexivity).
  rewrite (zsum_map_zero bet_open_fee) by (intros b Hbi; unfold bet_open_fee; pose proof (Hb b Hbi) as E; unfold is_settled in E; rewrite E; reflexivity).
  repeat split; reflexivity.
Qed.

Section Final.
Variables (P : params) (bk : bank) (supply : Z) (vault : list Z) (MP : mparams) (t0 : Z) (sw sd : bool).
Hypothesis HP : pr_bet_fee P <= pr_bet_min P.
Hypothesis HF : 0 <= pr_bet_fee P.
Hypothesis B1 : bget bk POOL = 0.
Hypothesis B2 : bget bk HOUSEFEE = 0.
Hypothesis B3 : bget bk BETFEE = 0.
Hypothesis Hb : forall a, SUBBASE <= a -> 0 <= bget bk a.
Hypothesis HM : mparams_valid MP = true.

Let s0 := init bk supply P vault MP t0 sw sd.

Lemma user_valid_all ops : Forall user_op ops -> Forall valid_op ops.
Proof. intros Hv. eapply Forall_impl; [|exact Hv]. intros a Ha. apply user_valid. exact Ha. Qed.

(* the book of m is resolved or settled: every bet of m is settled, nothing is pending, m has left the bet-settlement queue *)
Lemma resolved_means ops m : Forall user_op ops -> book_at_least BK_RESOLVED (run s0 ops) m ->
  exists x, get_ms (run s0 ops) m = Some x /\ ms_pending x = [] /\ (forall b, In b (ms_bets x) -> b_status b = BS_SETTLED) /\
    ~ In m (c_mqueue (run s0 ops)) /\ (bk_status (ms_book x) = BK_RESOLVED \/ bk_status (ms_book x) = BK_SETTLED).
Proof.
  intros Hv (x & Hx & Hs). exists x. split; [exact Hx|].
  pose proof (reach_g2 P bk supply vault MP t0 sw sd HP HF B1 B2 B3 Hb ops Hv) as G. fold s0 in G.
  pose proof (get_ms_in _ _ _ Hx) as Hin. pose proof (g_all _ (g2_g1 _ G) _ Hin) as S. cbn [snd] in S.
  assert (Hna : bk_status (ms_book x) <> BK_ACTIVE) by (unfold BK_ACTIVE, BK_RESOLVED in *; lia).
  split; [apply (se_done _ S Hna)|].
  split; [intros b Hbi; pose proof (g1_closed _ _ (g2_g1 _ G) Hin Hna b Hbi) as E; unfold is_settled in E; apply Z.eqb_eq in E; exact E|].
  split; [intros Hq; destruct (i_mq _ (g_inv _ (g2_g1 _ G)) m Hq) as (y & Hy & _ & Hact); rewrite Hx in Hy; inv Hy; contradiction|].
  pose proof (i3_range _ (i3_over_histories P bk supply vault MP t0 sw sd ops HP HF B1 B2 B3 (user_valid_all ops Hv) m x Hx)) as R.
  unfold BK_ACTIVE, BK_RESOLVED, BK_SETTLED in *. lia.
Qed.

(* the book of m is settled: every participation paid, every bet settled, m in neither queue, nothing left in custody for m *)
Lemma settled_means ops m : Forall user_op ops -> book_at_least BK_SETTLED (run s0 ops) m ->
  exists x, get_ms (run s0 ops) m = Some x /\ bk_status (ms_book x) = BK_SETTLED /\
    (forall p, In p (bk_parts (ms_book x)) -> p_settled p = true) /\
    ms_pending x = [] /\ (forall b, In b (ms_bets x) -> b_status b = BS_SETTLED) /\
    ~ In m (c_mqueue (run s0 ops)) /\ ~ In m (c_bqueue (run s0 ops)) /\
    owed_pool x = 0 /\ owed_hfee x = 0 /\ owed_bfee x = 0.
Proof.
  intros Hv Hs. destruct Hs as (x & Hx & Hs).
  destruct (resolved_means ops m Hv) as (y & Hy & Hp & Hbs & Hnq & _); [exists x; split; [exact Hx|unfold BK_RESOLVED, BK_SETTLED in *; lia]|].
  rewrite Hx in Hy. inv Hy. exists y. split; [exact Hx|].
  pose proof (i3_over_histories P bk supply vault MP t0 sw sd ops HP HF B1 B2 B3 (user_valid_all ops Hv) m y Hx) as [R Pd].
  assert (Est : bk_status (ms_book y) = BK_SETTLED) by (unfold BK_SETTLED in *; lia).
  pose proof (reach_g2 P bk supply vault MP t0 sw sd HP HF B1 B2 B3 Hb ops Hv) as G. fold s0 in G.
  split; [exact Est|]. split; [apply unpaid_zero_all; apply Pd; exact Est|]. split; [exact Hp|]. split; [exact Hbs|]. split; [exact Hnq|].
  split; [intros Hq; destruct (x_bq _ (g2_xinv _ G) m Hq) as (z & Hz & Hr); rewrite Hx in Hz; inv Hz; rewrite Est in Hr; discriminate|].
  apply settled_owes_nothing; [apply Pd; exact Est|]. intros b Hbi. unfold is_settled. rewrite (Hbs b Hbi). reflexivity.
Qed.

(* C01, last clause: once the book of every market is settled, the three custody accounts are empty *)
Theorem drained ops : Forall user_op ops ->
  (forall m x, get_ms (run s0 ops) m = Some x -> bk_status (ms_book x) = BK_SETTLED) ->
  bget (c_bank (run s0 ops)) POOL = 0 /\ bget (c_bank (run s0 ops)) HOUSEFEE = 0 /\ bget (c_bank (run s0 ops)) BETFEE = 0.
Proof.
  intros Hv Hall. pose proof (reach_g2 P bk supply vault MP t0 sw sd HP HF B1 B2 B3 Hb ops Hv) as G. fold s0 in G.
  destruct (i_cust _ (g_inv _ (g2_g1 _ G))) as (C1 & C2 & C3).
  assert (K : forall e, In e (c_ms (run s0 ops)) -> owed_pool (snd e) = 0 /\ owed_hfee (snd e) = 0 /\ owed_bfee (snd e) = 0).
  { intros [m x] He. cbn [snd]. pose proof (keys_get _ m x (g_keys _ (g2_g1 _ G)) He) as Hx.
    destruct (settled_means ops m Hv) as (y & Hy & _ & _ & _ & _ & _ & _ & O); [exists x; split; [exact Hx|rewrite (Hall m x Hx); lia]|].
    rewrite Hx in Hy. inv Hy. exact O. }
  unfold tot in *. rewrite C1, C2, C3.
  rewrite (zsum_map_zero (fun e : Z * mstate => owed_pool (snd e))) by (intros e He; apply (K e He)).
  rewrite (zsum_map_zero (fun e : Z * mstate => owed_hfee (snd e))) by (intros e He; apply (K e He)).
  rewrite (zsum_map_zero (fun e : Z * mstate => owed_bfee (snd e))) by (intros e He; apply (K e He)).
  repeat split; reflexivity.
Qed.

(* C05: the two progress bounds in full *)
Theorem bets_done_within ops1 ops2 m : Forall user_op ops1 -> Forall user_op ops2 ->
  In m (c_mqueue (run s0 ops1)) -> 0 < pr_bet_batch P ->
  bets_measure (run s0 ops1) m / pr_bet_batch P + 1 <= count_end ops2 ->
  exists x, get_ms (run s0 (ops1 ++ ops2)) m = Some x /\ ms_pending x = [] /\ (forall b, In b (ms_bets x) -> b_status b = BS_SETTLED) /\
    ~ In m (c_mqueue (run s0 (ops1 ++ ops2))) /\ (bk_status (ms_book x) = BK_RESOLVED \/ bk_status (ms_book x) = BK_SETTLED).
Proof.
  intros H1 H2 Hm Hk Hc. apply resolved_means; [apply Forall_app; split; assumption|].
  eapply bets_settled_within; eassumption.
Qed.

Theorem book_done_within ops1 ops2 m : Forall user_op ops1 -> Forall user_op ops2 ->
  In m (c_bqueue (run s0 ops1)) -> 0 < pr_ob_batch P ->
  parts_measure (run s0 ops1) m / pr_ob_batch P + 1 <= count_end ops2 ->
  exists x, get_ms (run s0 (ops1 ++ ops2)) m = Some x /\ bk_status (ms_book x) = BK_SETTLED /\
    (forall p, In p (bk_parts (ms_book x)) -> p_settled p = true) /\
    ms_pending x = [] /\ (forall b, In b (ms_bets x) -> b_status b = BS_SETTLED) /\
    ~ In m (c_mqueue (run s0 (ops1 ++ ops2))) /\ ~ In m (c_bqueue (run s0 (ops1 ++ ops2))) /\
    owed_pool x = 0 /\ owed_hfee x = 0 /\ owed_bfee x = 0.
Proof.
  intros H1 H2 Hm Hk Hc. apply settled_means; [apply Forall_app; split; assumption|].
  eapply parts_settled_within; eassumption.
Qed.
End Final.

(* =================================================================================================================================== *)
(* Part 6: from resolution to the settled book, one bound                                                                               *)
(* =================================================================================================================================== *)
Inductive sub : list Z -> list Z -> Prop :=
| sub_nil : sub [] []
| sub_keep a l' l : sub l' l -> sub (a :: l') (a :: l)
| sub_drop a l' l : sub l' l -> sub l' (a :: l).

Lemma sub_refl l : sub l l. Proof. induction l; constructor; assumption. Qed.
Lemma sub_in l' l : sub l' l -> forall m, In m l' -> In m l.
Proof. intros S. induction S; intros m Hm; [destruct Hm|destruct Hm as [->|Hm]; [left; reflexivity|right; apply IHS; exact Hm]|right; apply IHS; exact Hm]. Qed.
Lemma sub_app l' l c : sub l' l -> sub (l' ++ c) (l ++ c).
Proof. intros S. induction S; cbn [app]; [apply sub_refl|constructor; assumption|constructor; assumption]. Qed.
Lemma sub_trans a b c : sub a b -> sub b c -> sub a c.
Proof.
  intros S1 S2. revert a S1. induction S2; intros a0 S1.
  - exact S1.
  - inversion S1; subst; [constructor; apply IHS2; assumption|apply sub_drop; apply IHS2; assumption].
  - apply sub_drop. apply IHS2. exact S1.
Qed.

Lemma ahead_sub f' f l' l m : sub l' l -> (forall h, 0 <= f' h <= f h) -> NoDup l -> In m l' -> ahead f' l' m <= ahead f l m.
Proof.
  intros S Hf. induction S; intros Hnd Hm; [destruct Hm| |].
  - inversion Hnd; subst. cbn [ahead]. pose proof (Hf a). destruct (Z.eqb_spec a m) as [E|Hne]; [lia|].
    destruct Hm as [E|Hm]; [contradiction|]. specialize (IHS H2 Hm). lia.
  - inversion Hnd; subst. cbn [ahead]. pose proof (Hf a). destruct (Z.eqb_spec a m) as [E|Hne].
    + exfalso. subst a. apply H1. apply (sub_in _ _ S). exact Hm.
    + specialize (IHS H2 Hm). lia.
Qed.

(* the order-book end blocker only takes books off the queue and only pays participations *)
Lemma ob_endblock_sub fuel : forall s n s', ob_endblock fuel s n 0 = Some s' -> 0 <= n ->
  sub (c_bqueue s') (c_bqueue s) /\ forall h, unpaid_of s' h <= unpaid_of s h.
Proof.
  induction fuel as [|f IH]; intros s n s' H Hn.
  { cbn [ob_endblock] in H. destruct (n <=? 0); [|discriminate]. inv H. split; [apply sub_refl|intros; lia]. }
  cbn [ob_endblock] in H. destruct (n <=? 0) eqn:En; [inv H; split; [apply sub_refl|intros; lia]|]. apply Z.leb_gt in En.
  destruct (c_bqueue s) as [|m0 q] eqn:EQ; [cbn [nth_error] in H; inv H; rewrite EQ; split; [apply sub_refl|intros; lia]|].
  cbn [nth_error] in H.
  destruct (get_ms s m0) as [x|] eqn:Hg; [|discriminate].
  destruct (negb (bk_status (ms_book x) =? BK_RESOLVED)); [discriminate|].
  destruct (batch_parts (bk_parts (ms_book x)) (k_status (ms_mkt x)) (k_creator (ms_mkt x)) n 0) as [[[[alls cnt] ps] effs]|] eqn:EB; [|discriminate].
  destruct (apply_effects (c_bank s) (c_subs s) effs) as [[bk1 subs1]|]; [|discriminate].
  destruct (batch_parts_count _ _ _ _ _ _ _ _ _ EB En) as (C1 & C2 & C3 & C4 & C5).
  match type of H with ob_endblock f ?st _ _ = _ => set (s1 := st) in * end.
  assert (Hu1 : forall h, unpaid_of s1 h <= unpaid_of s h).
  { intros h. unfold unpaid_of. destruct (Z.eq_dec h m0) as [->|Hne].
    - erewrite (get_ms_set_same s s1 m0) by reflexivity. rewrite Hg. unfold unpaid. cbn [ms_book mstate_upd bk_parts book_upd].
      fold (unsettled_cnt ps). fold (unsettled_cnt (bk_parts (ms_book x))). lia.
    - erewrite (get_ms_set_other s s1 m0) by (try reflexivity; exact Hne). lia. }
  destruct alls.
  - assert (Hq1 : c_bqueue s1 = q) by (unfold s1; cbn [c_bqueue chain_upd]; unfold remove_uid; cbn [remove_first]; rewrite Z.eqb_refl; reflexivity).
    destruct (IH s1 (n - cnt) s' H ltac:(lia)) as [S U]. rewrite Hq1 in S. split; [apply sub_drop; exact S|]. intros h. pose proof (U h). pose proof (Hu1 h). lia.
  - pose proof (C4 eq_refl) as Hc. subst cnt. rewrite (ob_endblock_zero f s1 (n - n) 1%nat) in H by lia. injection H as Es. rewrite <- Es.
    split; [apply sub_refl|exact Hu1].
Qed.

Lemma NoDup_app_iff_local (l1 l2 : list Z) : NoDup l1 -> NoDup l2 -> (forall m, In m l1 -> In m l2 -> False) -> NoDup (l1 ++ l2).
Proof.
  induction l1 as [|a r IH]; intros N1 N2 D; cbn [app]; [exact N2|]. inversion N1; subst. constructor.
  - intros Hc. apply in_app_or in Hc. destruct Hc as [Hc|Hc]; [contradiction|apply (D a (or_introl eq_refl) Hc)].
  - apply IH; [assumption|exact N2|]. intros m Hm1 Hm2. apply (D m (or_intror Hm1) Hm2).
Qed.

Section Bound.
Variables (P : params) (bk : bank) (supply : Z) (vault : list Z) (MP : mparams) (t0 : Z) (sw sd : bool).
Hypothesis HP : pr_bet_fee P <= pr_bet_min P.
Hypothesis HF : 0 <= pr_bet_fee P.
Hypothesis B1 : bget bk POOL = 0.
Hypothesis B2 : bget bk HOUSEFEE = 0.
Hypothesis B3 : bget bk BETFEE = 0.
Hypothesis Hb : forall a, SUBBASE <= a -> 0 <= bget bk a.
Hypothesis HM : mparams_valid MP = true.
Hypothesis Hk : 0 < pr_bet_batch P.
Hypothesis Hkb : 0 < pr_ob_batch P.

Let s0 := init bk supply P vault MP t0 sw sd.

(* unpaid participations queued up to and including m, over both queues read as one (payment queue first) *)
Definition queued_parts (s : chain) (m : Z) : Z := ahead (unpaid_of s) (c_bqueue s ++ c_mqueue s) m.

Definition stage (s : chain) (m : Z) (a1 a2 e : Z) : Prop :=
  book_at_least BK_SETTLED s m \/
  (In m (c_mqueue s) /\ bets_measure s m + pr_bet_batch P * e <= a1 /\ queued_parts s m <= a2) \/
  (In m (c_bqueue s) /\ exists eA, pr_bet_batch P * eA <= a1 + pr_bet_batch P /\ eA <= e /\ parts_measure s m + pr_ob_batch P * (e - eA) <= a2).

Lemma queues_disjoint s m : g2 s -> In m (c_mqueue s) -> ~ In m (c_bqueue s).
Proof.
  intros G Hm Hb'. destruct (i_mq _ (g_inv _ (g2_g1 _ G)) m Hm) as (x & Hx & _ & Ha). destruct (x_bq _ (g2_xinv _ G) m Hb') as (y & Hy & Hr).
  rewrite Hx in Hy. inv Hy. rewrite Ha in Hr. discriminate.
Qed.

Lemma queues_nodup s : g2 s -> NoDup (c_bqueue s ++ c_mqueue s).
Proof.
  intros G. apply NoDup_app_iff_local; [apply (x_bq_nd _ (g2_xinv _ G))|apply (i_mq_nodup _ (g_inv _ (g2_g1 _ G)))|].
  intros m Hb' Hm. exact (queues_disjoint s m G Hm Hb').
Qed.

Lemma stage_step s o m a1 a2 e : g2 s -> c_halted s = false -> c_prm s = P -> stage s m a1 a2 e ->
  stage (fst (step s o)) m a1 a2 (e + match o with OEnd => 1 | _ => 0 end).
Proof.
  intros G Hh HPm [L|[(Hm & Hbm & Hq)|(Hm & eA & HeA & Hle & Hpm)]]; pose proof (g_inv _ (g2_g1 _ G)) as I.
  - left. apply book_at_least_step; assumption.
  - destruct (op_eq_end o) as [->|Hne].
    + (* an end block while m waits for bet settlement *)
      destruct (end_block_split P HP HF s G Hh) as (s1 & s2 & E1 & G2 & E2 & Es). rewrite Es. rewrite HPm in E1.
      destruct (bet_endblock_ahead _ _ _ _ E1 (g2_qok s G) ltac:(lia)) as (_ & _ & A). destruct (A m Hm) as [_ A'].
      destruct (bet_endblock_queues _ _ _ _ E1) as [Eq1 Eu1].
      assert (Hau1 : queued_parts s1 m = queued_parts s m).
      { unfold queued_parts. rewrite Eq1. apply ahead_ext. intros h _. apply Eu1. }
      rewrite (bet_endblock_prm _ _ _ _ E1), HPm in E2.
      destruct (ob_endblock_sub _ _ _ _ E2 ltac:(lia)) as [Sb Ub].
      destruct (ob_endblock_pend _ _ _ _ _ E2) as [Q2 P2]. destruct (ovm_endblock_ms s2) as (O1 & O2 & O3).
      destruct A' as [Mv|[Hin Ha]].
      * (* moved to the payment queue in this block *)
        destruct Mv as [Hb1 _].
        assert (Epm : parts_measure s1 m = queued_parts s1 m) by (unfold parts_measure, queued_parts; symmetry; apply ahead_app_in; exact Hb1).
        destruct (ob_endblock_ahead _ _ _ _ E2 (x_bq_nd _ (g2_xinv _ G2)) ltac:(lia)) as (_ & _ & _ & _ & A2). destruct (A2 m Hb1) as [_ [Pd|[Hin2 Ha2]]].
        -- left. destruct Pd as (_ & x & Hx & Hs & _). exists x. split; [rewrite (get_ms_ext s2 (ovm_endblock s2) m O1); exact Hx|rewrite Hs; lia].
        -- right. right. rewrite O3. split; [exact Hin2|]. exists (e + 1).
           assert (Hbn : 0 <= bets_measure s m) by (apply ahead_nonneg; intros; apply pend_of_nonneg).
           split; [rewrite Z.mul_add_distr_l, Z.mul_1_r; lia|]. split; [lia|].
           unfold parts_measure at 1. rewrite O3.
           rewrite (ahead_ext (unpaid_of (ovm_endblock s2)) (unpaid_of s2) (c_bqueue s2) m) by (intros h _; apply (unpaid_of_ext s2 (ovm_endblock s2) O1)).
           fold (parts_measure s1 m) in Ha2. rewrite Ha2, Epm, Hau1. lia.
      * (* still waiting: the bet measure went down by the batch size, the queued participations did not grow *)
        right. left. rewrite O2, Q2. split; [exact Hin|]. split.
        -- unfold bets_measure at 1. rewrite O2, Q2.
           rewrite (ahead_ext (pend_of (ovm_endblock s2)) (pend_of s1) (c_mqueue s1) m) by (intros h _; rewrite (pend_of_ext s2 (ovm_endblock s2) O1); apply P2).
           fold (bets_measure s m) in Ha. rewrite Ha. rewrite Z.mul_add_distr_l, Z.mul_1_r. lia.
        -- unfold queued_parts. rewrite O3, O2, Q2.
           rewrite (ahead_ext (unpaid_of (ovm_endblock s2)) (unpaid_of s2) _ m) by (intros h _; apply (unpaid_of_ext s2 (ovm_endblock s2) O1)).
           assert (ahead (unpaid_of s2) (c_bqueue s2 ++ c_mqueue s1) m <= ahead (unpaid_of s1) (c_bqueue s1 ++ c_mqueue s1) m).
           { apply ahead_sub; [apply sub_app; exact Sb|intros h; split; [apply unpaid_of_nonneg|apply Ub]|apply (queues_nodup s1 G2)|apply in_or_app; right; exact Hin]. }
           fold (queued_parts s1 m) in H. lia.
    + (* any other operation: nothing queued for m changes *)
      right. left. destruct (step_qframe s o Hne) as [[new Q] Qb R _].
      assert (Hsame : forall h, In h (c_bqueue s ++ c_mqueue s) -> unpaid_of (fst (step s o)) h = unpaid_of s h /\ pend_of (fst (step s o)) h = pend_of s h).
      { intros h Hh'. assert (exists x, get_ms s h = Some x /\ resolvedb x = true) as (x & Hx & Rb).
        { apply in_app_or in Hh'. destruct Hh' as [Hq'|Hq'].
          - destruct (x_bq _ (g2_xinv _ G) h Hq') as (x & Hx & Hst). exists x. split; [exact Hx|].
            pose proof (g_all _ (g2_g1 _ G) _ (get_ms_in _ _ _ Hx)) as Sx. cbn [snd] in Sx. apply status_res_resolvedb. apply (se_done _ Sx). rewrite Hst. discriminate.
          - destruct (i_mq _ I h Hq') as (x & Hx & Hres & _). exists x. split; [exact Hx|apply status_res_resolvedb; exact Hres]. }
        destruct (R h x Hx Rb) as (x' & Hx' & _ & W). unfold unpaid_of, pend_of. rewrite Hx, Hx'. unfold wproj in W. injection W as W1 W2 _. rewrite W1. split; [apply unpaid_flags; exact W2|reflexivity]. }
      replace (e + match o with OEnd => 1 | _ => 0 end) with e by (destruct o; try lia; contradiction).
      rewrite Q. split; [apply in_or_app; left; exact Hm|]. split.
      * unfold bets_measure. rewrite Q, (ahead_app_in _ _ _ _ Hm).
        rewrite (ahead_ext (pend_of (fst (step s o))) (pend_of s) (c_mqueue s) m) by (intros h Hh'; apply Hsame; apply in_or_app; right; exact Hh'). exact Hbm.
      * unfold queued_parts. rewrite Q, Qb, app_assoc, (ahead_app_in _ (c_bqueue s ++ c_mqueue s) new m) by (apply in_or_app; right; exact Hm).
        rewrite (ahead_ext (unpaid_of (fst (step s o))) (unpaid_of s) _ m) by (intros h Hh'; apply Hsame; exact Hh'). exact Hq.
  - (* m waits for payment: the argument of parts_phase *)
    destruct (step_parts P HP HF s o m G Hh HPm ltac:(lia) Hm) as [L|[Hin' Hm']]; [left; exact L|right; right].
    split; [exact Hin'|]. exists eA. split; [exact HeA|]. rewrite Hm'. destruct o; split; lia.
Qed.

Theorem stage_over_history ops1 m : Forall user_op ops1 -> In m (c_mqueue (run s0 ops1)) ->
  forall ops2, Forall user_op ops2 ->
  stage (run s0 (ops1 ++ ops2)) m (bets_measure (run s0 ops1) m) (queued_parts (run s0 ops1) m) (count_end ops2).
Proof.
  intros H1 Hm ops2. induction ops2 as [|o pre IH] using rev_ind; intros H2.
  - rewrite app_nil_r. right. left. split; [exact Hm|]. cbn [count_end]. split; lia.
  - apply Forall_app in H2. destruct H2 as [H2 Ho]. specialize (IH H2).
    assert (Hall : Forall user_op (ops1 ++ pre)) by (apply Forall_app; split; assumption).
    rewrite app_assoc, run_snoc, count_end_app.
    replace (count_end [o]) with (match o with OEnd => 1 | _ => 0 end) by (destruct o; reflexivity).
    apply stage_step; [apply (reach_g2 P bk supply vault MP t0 sw sd HP HF B1 B2 B3 Hb _ Hall)|apply (reach_live P bk supply vault MP t0 sw sd HP HF B1 B2 B3 Hb HM _ Hall)|apply (reach_prm P bk supply vault MP t0 sw sd)|exact IH].
Qed.

(* a resolved market -- waiting for bet settlement with a1 pending bets queued up to and including its own, and a2 unpaid participations
   queued up to and including its own over both queues -- is completely settled after (a1 / bet batch + 1) + (a2 / book batch + 1) end
   blocks, whatever else happens in between *)
Theorem settled_within ops1 ops2 m : Forall user_op ops1 -> Forall user_op ops2 -> In m (c_mqueue (run s0 ops1)) ->
  (bets_measure (run s0 ops1) m / pr_bet_batch P + 1) + (queued_parts (run s0 ops1) m / pr_ob_batch P + 1) <= count_end ops2 ->
  book_at_least BK_SETTLED (run s0 (ops1 ++ ops2)) m.
Proof.
  intros H1 H2 Hm Hc. set (a1 := bets_measure (run s0 ops1) m) in *. set (a2 := queued_parts (run s0 ops1) m) in *.
  set (k := pr_bet_batch P) in *. set (kb := pr_ob_batch P) in *. set (e := count_end ops2) in *.
  assert (Ha1 : 0 <= a1) by (apply ahead_nonneg; intros; apply pend_of_nonneg).
  assert (Ha2 : 0 <= a2) by (apply ahead_nonneg; intros; apply unpaid_of_nonneg).
  pose proof (Z.div_mod a1 k ltac:(lia)) as D1. pose proof (Z.mod_pos_bound a1 k Hk) as M1.
  pose proof (Z.div_mod a2 kb ltac:(lia)) as D2. pose proof (Z.mod_pos_bound a2 kb Hkb) as M2.
  pose proof (Z.div_pos a1 k Ha1 Hk) as Q1. pose proof (Z.div_pos a2 kb Ha2 Hkb) as Q2.
  destruct (stage_over_history ops1 m H1 Hm ops2 H2) as [L|[(Hin & Hbm & _)|(Hin & eA & HeA & Hle & Hpm)]]; [exact L|exfalso|exfalso].
  - fold a1 k e in Hbm.
    assert (0 <= bets_measure (run s0 (ops1 ++ ops2)) m) by (apply ahead_nonneg; intros; apply pend_of_nonneg).
    assert (k * (a1 / k + 1) <= k * e) by (apply Z.mul_le_mono_nonneg_l; lia). lia.
  - fold a1 a2 k kb e in HeA, Hpm.
    assert (0 <= parts_measure (run s0 (ops1 ++ ops2)) m) by (apply ahead_nonneg; intros; apply unpaid_of_nonneg).
    assert (E1 : eA <= a1 / k + 1).
    { destruct (Z.le_gt_cases eA (a1 / k + 1)) as [L|L]; [exact L|exfalso]. assert (k * (a1 / k + 2) <= k * eA) by (apply Z.mul_le_mono_nonneg_l; lia). lia. }
    assert (kb * (a2 / kb + 1) <= kb * (e - eA)) by (apply Z.mul_le_mono_nonneg_l; lia). lia.
Qed.
End Bound.

Theorem fully_settled_within P bk supply vault MP t0 sw sd :
  pr_bet_fee P <= pr_bet_min P -> 0 <= pr_bet_fee P ->
  bget bk POOL = 0 -> bget bk HOUSEFEE = 0 -> bget bk BETFEE = 0 -> (forall a, SUBBASE <= a -> 0 <= bget bk a) ->
  mparams_valid MP = true -> 0 < pr_bet_batch P -> 0 < pr_ob_batch P ->
  forall ops1 ops2 m, Forall user_op ops1 -> Forall user_op ops2 ->
  In m (c_mqueue (run (init bk supply P vault MP t0 sw sd) ops1)) ->
  (bets_measure (run (init bk supply P vault MP t0 sw sd) ops1) m / pr_bet_batch P + 1) +
  (queued_parts (run (init bk supply P vault MP t0 sw sd) ops1) m / pr_ob_batch P + 1) <= count_end ops2 ->
  exists x, get_ms (run (init bk supply P vault MP t0 sw sd) (ops1 ++ ops2)) m = Some x /\ bk_status (ms_book x) = BK_SETTLED /\
    (forall p, In p (bk_parts (ms_book x)) -> p_settled p = true) /\
    ms_pending x = [] /\ (forall b, In b (ms_bets x) -> b_status b = BS_SETTLED) /\
    ~ In m (c_mqueue (run (init bk supply P vault MP t0 sw sd) (ops1 ++ ops2))) /\
    ~ In m (c_bqueue (run (init bk supply P vault MP t0 sw sd) (ops1 ++ ops2))) /\
    owed_pool x = 0 /\ owed_hfee x = 0 /\ owed_bfee x = 0.
Proof.
  intros HP HF B1 B2 B3 Hb HM Hk Hkb ops1 ops2 m H1 H2 Hm Hc.
  apply (settled_means P bk supply vault MP t0 sw sd HP HF B1 B2 B3 Hb); [apply Forall_app; split; assumption|].
  apply (settled_within P bk supply vault MP t0 sw sd HP HF B1 B2 B3 Hb HM Hk Hkb ops1 ops2 m H1 H2 Hm Hc).
Qed.

(* Proofs/GenOvmK.v — generated kernels (Gen/kernels.v, regenerated from the Go source on every run) proved equal to the hand-written model:
   x/ovm/types: majority, vote count and verdict, expiry.  Split by module so that a change of one module only touches the properties that depend on it. *)
From Coq Require Import ZArith Bool List Lia.
From Sge Require Import Lib.Dec Model.Types Model.Orderbook Model.Mint Model.Chain Gen.kernels.
Import ListNotations.
Open Scope Z_scope.

(* ---- x/ovm ---------------------------------------------------------------------------------------------------------------------------- *)
(* MajorityCount = ceil(n x 0.6667), for every vault size up to 1000 (the vault holds 4 or 5 keys) *)
Definition kv_of (keys : list Z) : G_KeyVault := {| G_KeyVault_PublicKeys := keys |}.
Lemma gen_MajorityCount_len keys keys' : length keys = length keys' -> K_KeyVault_MajorityCount (kv_of keys) = K_KeyVault_MajorityCount (kv_of keys').
Proof. intros H. unfold K_KeyVault_MajorityCount, kv_of, klen. cbn [G_KeyVault_PublicKeys]. rewrite H. reflexivity. Qed.
Lemma gen_MajorityCount : forall keys, zlen keys <= 1000 -> K_KeyVault_MajorityCount (kv_of keys) = majority_count (zlen keys).
Proof.
  assert (H : forallb (fun i => K_KeyVault_MajorityCount (kv_of (List.repeat 0 i)) =? majority_count (Z.of_nat i)) (seq 0 1001) = true)
    by (vm_compute; reflexivity).
  intros keys Hn. unfold zlen in *. rewrite forallb_forall in H. specialize (H (length keys)).
  rewrite (gen_MajorityCount_len keys (List.repeat 0 (length keys))) by (rewrite repeat_length; reflexivity).
  apply Z.eqb_eq. apply H. apply in_seq. lia.
Qed.

Definition gprop_of (p : proposal) : G_PublicKeysChangeProposal :=
  {| G_PublicKeysChangeProposal_Id := pp_id p; G_PublicKeysChangeProposal_Creator := pp_creator p;
     G_PublicKeysChangeProposal_Modifications := {| G_PubkeysChangeProposalPayload_PublicKeys := pp_keys p; G_PubkeysChangeProposalPayload_LeaderIndex := pp_leader p |};
     G_PublicKeysChangeProposal_Votes := map (fun v => {| G_Vote_PublicKey := fst v; G_Vote_Vote := snd v |}) (pp_votes p);
     G_PublicKeysChangeProposal_StartTS := pp_start p; G_PublicKeysChangeProposal_Result := pp_result p; G_PublicKeysChangeProposal_ResultMeta := 0;
     G_PublicKeysChangeProposal_FinishTS := pp_finish p; G_PublicKeysChangeProposal_Status := pp_status p |}.
(* the expiry test of ovm_finish *)
Lemma gen_IsExpired p now : K_PublicKeysChangeProposal_IsExpired (gprop_of p) now = (1800 <? now - pp_start p).
Proof. reflexivity. Qed.

(* ---- kernels with range loops (generated as folds carrying the assigned variables and a "broke out" flag) ------------------------------- *)
(* proposal.go DecideResult: the vote count and the comparison with the majority *)
Lemma triple_eq (a b a' b' : Z) (c : bool) : a = a' -> b = b' -> (a, b, c) = (a', b', c).
Proof. intros -> ->. reflexivity. Qed.
Lemma decide_fold votes : forall y n,
  kfold (y, n, false) (map (fun v => {| G_Vote_PublicKey := fst v; G_Vote_Vote := snd v |}) votes)
    (fun '(g_yesCount, g_noCount, g__brk) g_v => if g__brk : bool then (g_yesCount, g_noCount, true) else
       (if (G_Vote_Vote g_v) =? 2 then let g_yesCount := g_yesCount + 1 in (g_yesCount, g_noCount, false)
        else (if (G_Vote_Vote g_v) =? 1 then let g_noCount := g_noCount + 1 in (g_yesCount, g_noCount, false) else (g_yesCount, g_noCount, false))))
  = (y + count_votes VOTE_YES votes, n + count_votes VOTE_NO votes, false).
Proof.
  unfold kfold, count_votes, VOTE_YES, VOTE_NO, zlen. induction votes as [|[k v] r IH]; intros y n; cbn [map fold_left filter snd fst G_Vote_Vote length].
  - apply triple_eq; lia.
  - destruct (v =? 2) eqn:E2.
    + apply Z.eqb_eq in E2. subst v. cbn [Z.eqb Pos.eqb]. rewrite IH. cbn [length]. apply triple_eq; lia.
    + destruct (v =? 1) eqn:E1; rewrite IH; cbn [length]; apply triple_eq; lia.
Qed.
Lemma gen_DecideResult p keys : zlen keys <= 1000 -> K_PublicKeysChangeProposal_DecideResult (gprop_of p) (kv_of keys) = decide p (zlen keys).
Proof.
  intros Hk. unfold K_PublicKeysChangeProposal_DecideResult, decide. cbn [gprop_of G_PublicKeysChangeProposal_Votes].
  rewrite decide_fold. rewrite gen_MajorityCount by exact Hk. cbn [Z.add]. unfold PR_REJECTED, PR_APPROVED.
  destruct (majority_count (zlen keys) <=? count_votes VOTE_NO (pp_votes p)); [reflexivity|].
  destruct (majority_count (zlen keys) <=? count_votes VOTE_YES (pp_votes p)); reflexivity.
Qed.

(* Proofs/WagerLoop.v — facts about ProcessWager / fulfillBetByParticipationQueue (C03, C01). *)
From Coq Require Import ZArith Bool List Lia.
From Sge Require Import Lib.Dec Model.Types Model.Orderbook Proofs.Tactics.
Import ListNotations.
Open Scope Z_scope.

Lemma zsum_app l1 l2 : zsum (l1 ++ l2) = zsum l1 + zsum l2.
Proof. induction l1 as [|x r IH]; cbn [zsum app]; lia. Qed.

(* the running total charged equals the sum of the stakes of the parts recorded so far *)
Definition ws_sum_inv (s : wstate) : Prop := ws_fulfilled s = zsum (map f_stake (ws_parts s)).

Lemma iter_betside_sum A p0 so s ba fu pr pa bk :
  iter_betside A p0 so s = (ba, fu, pr, pa, bk) -> ws_sum_inv s -> fu = zsum (map f_stake pa).
Proof.
  unfold iter_betside, ws_sum_inv. intros H Hinv. destruct so as [[stake pay]|]; inv H; [|exact Hinv].
  rewrite map_app, zsum_app. cbn [map zsum f_stake]. lia.
Qed.

Lemma wager_iter_sum A idx s s' : wager_iter A idx s = Some s' -> ws_sum_inv s -> ws_sum_inv s'.
Proof.
  unfold wager_iter. intros H Hinv.
  destruct (fmap_get (ws_fmap s) idx) as [it|]; [|discriminate].
  destruct (fi_pe it) as [pe0|]; [|discriminate].
  destruct (iter_switch A (fi_part it) pe0 s) as [[[[p1 pe1] setf] so] c1].
  destruct (iter_betside A (fi_part it) so s) as [[[[ba fu] pr] pa] bk0] eqn:EB.
  pose proof (iter_betside_sum _ _ _ _ _ _ _ _ _ EB Hinv) as Hs.
  destruct (iter_fulfilled A idx it setf p1 pe1 (ws_uq s) bk0) as [[[[p3 pe3] uq3] bk1]|]; [|discriminate].
  destruct ((p_enf p3 =? 0) && eligible_pre p3).
  - destruct (iter_refresh A idx it p3 _ (ws_fmap s) uq3) as [[bk5 fm2] uq5].
    inversion H. unfold ws_sum_inv. cbn [ws_fulfilled ws_parts]. exact Hs.
  - inversion H. unfold ws_sum_inv. cbn [ws_fulfilled ws_parts]. exact Hs.
Qed.

Lemma wager_loop_sum fuel : forall A q s s', wager_loop fuel A q s = Some s' -> ws_sum_inv s -> ws_sum_inv s'.
Proof.
  induction fuel as [|f IH]; intros A q s s' H Hinv; destruct q as [|idx rest]; cbn [wager_loop] in H.
  - inv H. exact Hinv.
  - discriminate.
  - inv H. exact Hinv.
  - destruct (wager_iter A idx s) as [s1|] eqn:E; [|discriminate].
    pose proof (wager_iter_sum _ _ _ _ E Hinv) as H1.
    destruct ((ws_profit s1 <? PREC) || _); [inv H; exact H1|].
    eapply IH; eassumption.
Qed.

(* ProcessWager: the bettor pays the fee to the bet fee collector and exactly the sum of the stakes of
   the returned backing parts to the liquidity pool; the parts list is never empty *)
Theorem process_wager_effects b A betamt profit bettor fee b' parts effs :
  process_wager b A betamt profit bettor fee = Some (b', parts, effs) ->
  effs = [Pay bettor BETFEE fee; Pay bettor POOL (zsum (map f_stake parts))] /\ parts <> [].
Proof.
  unfold process_wager. intros H.
  destruct (get_queue b (wa_sel A)) as [q|]; [|discriminate].
  destruct (init_fmap b (wa_sel A)) as [fm|]; [|discriminate].
  match type of H with context [wager_loop ?f ?a ?qq ?s0] => destruct (wager_loop f a qq s0) as [s|] eqn:EL end; [|discriminate].
  destruct (PREC <=? ws_profit s); [discriminate|].
  destruct (ws_parts s) as [|x r] eqn:EP; [discriminate|].
  inv H.
  assert (Hs : ws_sum_inv s) by (eapply wager_loop_sum; [exact EL|reflexivity]).
  unfold ws_sum_inv in Hs. rewrite Hs, EP. split; [reflexivity|discriminate].
Qed.

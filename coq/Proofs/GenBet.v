(* Proofs/GenBet.v — generated kernels (Gen/kernels.v, regenerated from the Go source on every run) proved equal to the hand-written model:
   x/bet/types: payout arithmetic, settlement eligibility, SetResult.  Split by module so that a change of one module only touches the properties that depend on it. *)
From Coq Require Import ZArith Bool List Lia.
From Sge Require Import Lib.Dec Model.Types Model.Orderbook Model.Mint Model.Chain Gen.kernels.
From Sge Require Import Proofs.GenMarket.
Import ListNotations.
Open Scope Z_scope.

(* ---- x/bet/types/payout.go, odds_type.go ---------------------------------------------------------------------------------------------- *)
(* the decimal odds string of the ticket is the model's Dec value (parsing belongs to the harness): CalculatePayoutProfit is payout_profit *)
Lemma gen_CalculatePayoutProfit ov amount : K__CalculatePayoutProfit ov amount = payout_profit ov amount.
Proof.
  unfold K__CalculatePayoutProfit, K__calculatePayout, K__CalculateDecimalPayout, payout_profit.
  destruct (0 <? ov) eqn:E1; cbn [negb].
  - destruct (ov <=? PREC); reflexivity.
  - apply Z.ltb_ge in E1. assert (E2 : ov <=? PREC = true) by (apply Z.leb_le; unfold PREC; lia). rewrite E2. reflexivity.
Qed.

Lemma gen_CalculateBetAmountInt ov profit carry : PREC < ov ->
  K__CalculateBetAmountInt ov profit carry = Some (bet_amount_int ov profit carry).
Proof.
  intros H. unfold K__CalculateBetAmountInt, K__CalculateBetAmount, K__calculateBetAmount, K__CalculateDecimalBetAmount, bet_amount_int.
  assert (E1 : 0 <? ov = true) by (apply Z.ltb_lt; unfold PREC in H; lia). assert (E2 : ov <=? PREC = false) by (apply Z.leb_gt; exact H).
  rewrite E1, E2. cbn [negb]. reflexivity.
Qed.

(* Bet_STATUS_CANCELED (2) is never assigned by any code path; apart from it the eligibility test is "not settled yet" *)
Lemma gen_bet_eligible st uid mkt odds ov amt fee res cr cat sh ml bf : st <> 2 ->
  K_Bet_CheckSettlementEligiblity {| G_Bet_UID := uid; G_Bet_MarketUID := mkt; G_Bet_OddsUID := odds; G_Bet_OddsValue := ov; G_Bet_Amount := amt;
      G_Bet_Fee := fee; G_Bet_Status := st; G_Bet_Result := res; G_Bet_Creator := cr; G_Bet_CreatedAt := cat; G_Bet_SettlementHeight := sh;
      G_Bet_MaxLossMultiplier := ml; G_Bet_BetFulfillment := bf |} = negb (st =? BS_SETTLED).
Proof.
  intros H. unfold K_Bet_CheckSettlementEligiblity, BS_SETTLED. cbn [G_Bet_Status].
  destruct (st =? 6); [reflexivity|]. destruct (Z.eqb_spec st 2); [contradiction|reflexivity].
Qed.

(* bet.go SetResult: the membership loop with break; the status / result written *)
Lemma set_result_fold o ws : forall e,
  kfold (e, true) ws (fun '(g_exist, g__brk) g_wid => if g__brk : bool then (g_exist, true) else
      (if g_wid =? o then let g_exist := true in (g_exist, true) else (g_exist, false))) = (e, true).
Proof. unfold kfold. induction ws as [|x l IH]; intros e; cbn [fold_left]; [reflexivity|apply IH]. Qed.
Lemma set_result_fold2 o ws :
  fst (kfold (false, false) ws (fun '(g_exist, g__brk) g_wid => if g__brk : bool then (g_exist, true) else
      (if g_wid =? o then let g_exist := true in (g_exist, true) else (g_exist, false)))) = zmem o ws.
Proof.
  unfold zmem. pose proof (set_result_fold o) as S. unfold kfold in *. induction ws as [|x l IH]; cbn [fold_left existsb]; [reflexivity|].
  rewrite (Z.eqb_sym o x). destruct (x =? o); [rewrite S; reflexivity|exact IH].
Qed.
Definition gbf_of (f : bpart) : G_BetFulfillment :=
  {| G_BetFulfillment_ParticipantAddress := f_owner f; G_BetFulfillment_ParticipationIndex := f_idx f;
     G_BetFulfillment_BetAmount := f_stake f; G_BetFulfillment_PayoutProfit := f_pay f |}.
Definition gb_of (b : bet) : G_Bet :=
  {| G_Bet_UID := b_uid b; G_Bet_MarketUID := b_mkt b; G_Bet_OddsUID := b_odds b; G_Bet_OddsValue := b_oddsval b; G_Bet_Amount := b_amount b;
     G_Bet_Fee := b_fee b; G_Bet_Status := b_status b; G_Bet_Result := b_result b; G_Bet_Creator := b_creator b; G_Bet_CreatedAt := b_created b;
     G_Bet_SettlementHeight := b_sheight b; G_Bet_MaxLossMultiplier := b_mult b; G_Bet_BetFulfillment := map gbf_of (b_parts b) |}.
(* settle_bet: "not declared => error", then won iff the bet's outcome is among the market's winners *)
Lemma gen_SetResult b mk :
  K_Bet_SetResult (gb_of b) (gm_of mk) =
  if negb (k_status mk =? MK_DECLARED) then None
  else Some (gb_of (bet_with b BS_DECLARED (if zmem (b_odds b) (k_winners mk) then BR_WON else BR_LOST) (b_sheight b))).
Proof.
  unfold K_Bet_SetResult, MK_DECLARED. cbn [gm_of G_Market_Status G_Market_WinnerOddsUIDs gb_of G_Bet_OddsUID].
  destruct (negb (k_status mk =? 5)); [reflexivity|].
  pose proof (set_result_fold2 (b_odds b) (k_winners mk)) as F.
  destruct (kfold (false, false) (k_winners mk) _) as [e brk]. cbn [fst] in F. subst e.
  destruct (zmem (b_odds b) (k_winners mk)); reflexivity.
Qed.

(* ---- x/bet/keeper/wager.go getMarket (generated over: the market stored under the wager's market id, whether it exists, the block time):
   the first three admission tests of the model's wager — the market exists, is active, and is not past its end time ----------------------- *)
Definition betmkt_state (found : bool) (mk : market) (now : Z) : S_betmkt :=
  {| S_betmkt_Market := gm_of mk; S_betmkt_Found := found; S_betmkt_Now := now |}.
Lemma gen_getMarket found mk now :
  K_betmkt_getMarket (betmkt_state found mk now) =
  if negb found then None else if negb (k_status mk =? MK_ACTIVE) then None else if k_end mk <? now then None else Some (gm_of mk).
Proof. reflexivity. Qed.

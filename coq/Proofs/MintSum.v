(* Proofs/MintSum.v — the carry law of x/mint BlockProvisions and the phase-sum theorem (C13). *)
From Coq Require Import ZArith Bool List Lia.
From Sge Require Import Lib.Dec Model.Mint Proofs.DecFacts.
Import ListNotations.
Open Scope Z_scope.

(* one block: provision q plus carried fraction t; integer part minted, fraction carried *)
Definition mint_one (q t : Z) : Z * Z := ((q + t) / PREC, (q + t) mod PREC).

Fixpoint mint_n (n : nat) (q t : Z) : Z * Z :=
  match n with
  | O => (0, t)
  | S k => let '(a, t1) := mint_one q t in
           let '(tot, t2) := mint_n k q t1 in (a + tot, t2)
  end.

Lemma mint_one_spec q t :
  0 <= q -> 0 <= t < PREC ->
  let '(a, t') := mint_one q t in a * PREC + t' = q + t /\ 0 <= t' < PREC /\ 0 <= a.
Proof.
  intros Hq Ht. unfold mint_one.
  pose proof (Z.div_mod (q + t) PREC ltac:(discriminate)).
  pose proof (Z.mod_pos_bound (q + t) PREC PREC_pos).
  assert (0 <= (q + t) / PREC) by (apply Z.div_pos; [lia | exact PREC_pos]).
  repeat split; lia.
Qed.

(* the sum law: nothing is lost, the carry stays a proper fraction *)
Lemma mint_n_sum n : forall q t,
  0 <= q -> 0 <= t < PREC ->
  let '(tot, t') := mint_n n q t in
  tot * PREC + t' = Z.of_nat n * q + t /\ 0 <= t' < PREC /\ 0 <= tot.
Proof.
  induction n as [|k IH]; intros q t Hq Ht.
  - cbn [mint_n]. repeat split; lia.
  - cbn [mint_n]. pose proof (mint_one_spec q t Hq Ht) as H1.
    destruct (mint_one q t) as [a t1]. destruct H1 as (E1 & B1 & A1).
    specialize (IH q t1 Hq B1). destruct (mint_n k q t1) as [tot t2].
    destruct IH as (E2 & B2 & A2). rewrite Nat2Z.inj_succ. repeat split; lia.
Qed.

Corollary mint_n_total n q t :
  0 <= q -> 0 <= t < PREC -> fst (mint_n n q t) = (Z.of_nat n * q + t) / PREC.
Proof.
  intros Hq Ht. pose proof (mint_n_sum n q t Hq Ht) as H.
  destruct (mint_n n q t) as [tot t']. destruct H as (E & B & _). cbn [fst].
  apply Z.div_unique with (r := t'); lia.
Qed.

(* ---- BlockProvisions is mint_one ------------------------------------------------------ *)
Definition step_phase (P : mparams) (step : Z) : phase :=
  nth_default end_phase (phases P) (Z.to_nat (step - 1)).

Lemma block_provisions_spec P m step amt tr :
  block_provisions P m step = Some (amt, tr) ->
  0 <= m_prov m -> 0 <= m_trunc m < PREC -> 0 <= phase_blocks_dec P (step_phase P step) ->
  0 < phase_blocks_dec P (step_phase P step) /\
  (amt, tr) = mint_one (dec_quo (m_prov m) (phase_blocks_dec P (step_phase P step))) (m_trunc m).
Proof.
  unfold block_provisions, step_phase. intros H Hp Ht Hb0.
  destruct ((step <? 1) || (Z.of_nat (length (phases P)) <? step)); [discriminate|].
  set (bl := phase_blocks_dec P (nth_default end_phase (phases P) (Z.to_nat (step - 1)))) in *.
  destruct (bl =? 0) eqn:Ebl; [discriminate|]. apply Z.eqb_neq in Ebl.
  assert (Hbl : 0 < bl) by lia.
  set (q := dec_quo (m_prov m) bl) in *.
  assert (Hq : 0 <= q) by (apply dec_quo_nonneg; assumption).
  cbv zeta in H.
  assert (Hprov : 0 <= q + m_trunc m) by lia.
  unfold dec_trunc_dec, dec_trunc_int in H.
  rewrite chop_trunc_of_int' in H.
  rewrite (chop_trunc_nonneg (q + m_trunc m) Hprov) in H.
  destruct ((q + m_trunc m) / PREC <? 0) eqn:Eneg; [discriminate|].
  inversion H; subst amt tr. split; [exact Hbl|].
  unfold mint_one. f_equal.
  pose proof (Z.div_mod (q + m_trunc m) PREC ltac:(discriminate)). lia.
Qed.

(* ---- phase-sum theorem ------------------------------------------------------------------ *)
(* n consecutive blocks of one phase: BlockProvisions iterated, threading TruncatedTokens *)
Fixpoint mint_run (n : nat) (P : mparams) (m : minter) (step : Z) : option (Z * minter) :=
  match n with
  | O => Some (0, m)
  | S k =>
      match block_provisions P m step with
      | None => None
      | Some (amt, tr) =>
          match mint_run k P {| m_infl := m_infl m; m_step := m_step m; m_prov := m_prov m; m_trunc := tr |} step with
          | None => None
          | Some (tot, m') => Some (amt + tot, m')
          end
      end
  end.

Lemma mint_run_spec n : forall P m step,
  0 <= m_prov m -> 0 <= m_trunc m < PREC -> 0 < phase_blocks_dec P (step_phase P step) ->
  1 <= step <= Z.of_nat (length (phases P)) ->
  let q := dec_quo (m_prov m) (phase_blocks_dec P (step_phase P step)) in
  exists m', mint_run n P m step = Some (fst (mint_n n q (m_trunc m)), m') /\
             m_prov m' = m_prov m /\ m_trunc m' = snd (mint_n n q (m_trunc m)).
Proof.
  induction n as [|k IH]; intros P m step Hp Ht Hb Hs; cbv zeta.
  - exists m. cbn. repeat split; reflexivity.
  - cbn [mint_run mint_n].
    set (bl := phase_blocks_dec P (step_phase P step)) in *.
    set (q := dec_quo (m_prov m) bl).
    assert (Hq : 0 <= q) by (apply dec_quo_nonneg; assumption).
    destruct (block_provisions P m step) as [[amt tr]|] eqn:EB.
    + destruct (block_provisions_spec P m step amt tr EB Hp Ht ltac:(fold bl; lia)) as [_ E1].
      fold bl in E1. fold q in E1.
      pose proof (mint_one_spec q (m_trunc m) Hq Ht) as H1. rewrite <- E1 in H1.
      destruct H1 as (_ & Btr & _).
      set (m1 := {| m_infl := m_infl m; m_step := m_step m; m_prov := m_prov m; m_trunc := tr |}).
      destruct (IH P m1 step Hp Btr Hb Hs) as (m' & ER & EP & ET). cbv zeta in ER.
      cbn [m_prov m_trunc m1] in ER, EP, ET. fold bl in ER, ET. fold q in ER, ET.
      rewrite ER. rewrite <- E1.
      destruct (mint_n k q tr) as [tot t2]. cbn [fst snd] in *.
      exists m'. repeat split; assumption.
    + (* cannot fail: blocks > 0, provisions non-negative *)
      exfalso. unfold block_provisions in EB.
      replace ((step <? 1) || (Z.of_nat (length (phases P)) <? step)) with false in EB
        by (symmetry; apply orb_false_iff; split; [apply Z.ltb_ge|apply Z.ltb_ge]; lia).
      fold (step_phase P step) in EB. fold bl in EB.
      destruct (bl =? 0) eqn:E0; [apply Z.eqb_eq in E0; lia|].
      cbv zeta in EB. fold q in EB.
      unfold dec_trunc_dec, dec_trunc_int in EB. rewrite chop_trunc_of_int' in EB.
      rewrite (chop_trunc_nonneg (q + m_trunc m)) in EB by lia.
      assert (0 <= (q + m_trunc m) / PREC) by (apply Z.div_pos; [lia|exact PREC_pos]).
      destruct ((q + m_trunc m) / PREC <? 0) eqn:E1; [apply Z.ltb_lt in E1; lia|discriminate].
Qed.

(* The phase-sum law (C13): over the B >= 1 blocks of a phase with provisions Pv >= 0 and incoming
   carry t0 in [0,1), the minted amounts add up to floor(B*q + t0) where q is the per-block quota,
   and B*q differs from Pv by at most B/2 + B*10^-18 (in units of 10^-18): the total is the phase
   provision to within one token plus B*10^-18.  The bonded ratio is not an input. *)
Theorem phase_sum P m step B :
  0 <= m_prov m -> 0 <= m_trunc m < PREC -> 1 <= step <= Z.of_nat (length (phases P)) ->
  phase_blocks_dec P (step_phase P step) = dec_of_int B -> 0 < B ->
  let q := dec_quo (m_prov m) (dec_of_int B) in
  exists m',
    mint_run (Z.to_nat B) P m step = Some ((B * q + m_trunc m) / PREC, m') /\
    2 * PREC * Z.abs (B * q - m_prov m) <= B * PREC + 2 * B /\
    Z.abs (((B * q + m_trunc m) / PREC) * PREC - m_prov m) < PREC + B.
Proof.
  intros Hp Ht Hs Hbl HB. cbv zeta.
  assert (Hbpos : 0 < phase_blocks_dec P (step_phase P step)) by (rewrite Hbl; unfold dec_of_int; pose proof PREC_pos; nia).
  destruct (mint_run_spec (Z.to_nat B) P m step Hp Ht Hbpos Hs) as (m' & ER & _ & _). cbv zeta in ER.
  rewrite Hbl in ER.
  set (q := dec_quo (m_prov m) (dec_of_int B)) in *.
  destruct (dec_quo_blocks (m_prov m) B Hp HB) as [Hq Hqb]. cbv zeta in Hq, Hqb. fold q in Hq, Hqb.
  rewrite (mint_n_total (Z.to_nat B) q (m_trunc m) Hq Ht) in ER. rewrite Z2Nat.id in ER by lia.
  exists m'. split; [exact ER|]. split; [exact Hqb|].
  pose proof PREC_pos as Hpp.
  pose proof (Z.div_mod (B * q + m_trunc m) PREC ltac:(lia)) as Hdm.
  pose proof (Z.mod_pos_bound (B * q + m_trunc m) PREC Hpp) as Hmb.
  (* total*PREC = B*q + t0 - r, with 0 <= t0, r < PREC *)
  set (T := (B * q + m_trunc m) / PREC) in *.
  set (r := (B * q + m_trunc m) mod PREC) in *.
  set (d := B * q - m_prov m) in *.
  assert (H1 : Z.abs (T * PREC - m_prov m) <= Z.abs d + PREC - 1) by (unfold d; lia).
  assert (H4 : 4 <= PREC) by (unfold PREC; lia).
  assert (H2 : Z.abs d <= B) by nia.
  lia.
Qed.

(* ---- after the last phase nothing is minted ------------------------------------------------- *)
Definition total_blocks_dec (P : mparams) : Z := fold_right (fun ph acc => phase_blocks_dec P ph + acc) 0 (phases P).

Lemma phase_blocks_dec_nonneg P ph : 0 < bpy P -> 0 < ph_coef ph -> 0 <= phase_blocks_dec P ph.
Proof.
  intros Hb Hc. unfold phase_blocks_dec, dec_trunc_dec, dec_mul, dec_of_int.
  pose proof PREC_pos.
  assert (0 <= ph_coef ph * (bpy P * PREC)) by nia.
  pose proof (chop_round_ge0 _ H0). pose proof (chop_trunc_ge0 _ H1). nia.
Qed.

Lemma find_phase_none P phs : forall i cum h,
  (forall ph, In ph phs -> 0 <= phase_blocks_dec P ph) ->
  cum + fold_right (fun ph acc => phase_blocks_dec P ph + acc) 0 phs < dec_of_int h ->
  find_phase P phs i cum h = None.
Proof.
  induction phs as [|ph r IH]; intros i cum h Hnn Hlt; cbn [find_phase]; [reflexivity|].
  cbn [fold_right] in Hlt.
  assert (Hr : 0 <= fold_right (fun ph acc => phase_blocks_dec P ph + acc) 0 r).
  { clear -Hnn. induction r as [|a r IH]; cbn [fold_right]; [lia|].
    assert (0 <= phase_blocks_dec P a) by (apply Hnn; right; left; reflexivity).
    assert (0 <= fold_right (fun ph acc => phase_blocks_dec P ph + acc) 0 r).
    { apply IH. intros p Hp. apply Hnn. destruct Hp as [Hp|Hp]; [left; exact Hp|right; right; exact Hp]. }
    lia. }
  destruct (dec_of_int h <=? cum + phase_blocks_dec P ph) eqn:E; [apply Z.leb_le in E; lia|].
  apply IH; [intros p Hp; apply Hnn; right; exact Hp|lia].
Qed.

Theorem end_phase_mints_nothing P m supply h :
  mparams_valid P = true -> 1 < h -> total_blocks_dec P < dec_of_int h ->
  exists m', begin_block P m supply h = BBok m' 0 /\ m_infl m' = 0.
Proof.
  intros Hv Hh Htot. unfold mparams_valid in Hv.
  rewrite !andb_true_iff in Hv. destruct Hv as ((((Hb & _) & _) & Hph) & Hblk).
  apply Z.ltb_lt in Hb.
  assert (Hnn : forall ph, In ph (phases P) -> 0 <= phase_blocks_dec P ph).
  { intros ph Hin. rewrite forallb_forall in Hblk. specialize (Hblk ph Hin). apply Z.ltb_lt in Hblk. lia. }
  unfold begin_block, current_phase.
  destruct (h =? 1) eqn:E1; [apply Z.eqb_eq in E1; lia|].
  rewrite (find_phase_none P (phases P) 0 0 h Hnn) by (unfold total_blocks_dec in Htot; lia).
  cbn [ph_infl end_phase].
  destruct (negb (END_STEP =? m_step m) || negb (m_infl m =? 0)) eqn:E2.
  - cbn [m_infl]. rewrite Z.eqb_refl. eexists. split; reflexivity.
  - apply orb_false_iff in E2 as [_ E2]. apply negb_false_iff in E2. rewrite E2.
    exists m. split; [reflexivity|apply Z.eqb_eq; exact E2].
Qed.

(* Proofs/GenMarket.v — generated kernels (Gen/kernels.v, regenerated from the Go source on every run) proved equal to the hand-written model:
   x/market: status tests, HasOdds, ValidateWinnerOdds, ticket payload validation, update / resolution handlers.  Split by module so that a change of one module only touches the properties that depend on it. *)
From Coq Require Import ZArith Bool List Lia.
From Sge Require Import Lib.Dec Model.Types Model.Orderbook Model.Mint Model.Chain Gen.kernels.
Import ListNotations.
Open Scope Z_scope.

(* ---- x/market/types/market.go, x/bet/types/bet.go, LockedBalance.Validate, ValidateWithdraw ------------------------------------------- *)
Definition gm_of (mk : market) : G_Market :=
  {| G_Market_UID := k_uid mk; G_Market_StartTS := k_start mk; G_Market_EndTS := k_end mk; G_Market_Odds := map (fun o => {| G_Odds_UID := o; G_Odds_Meta := 0 |}) (k_odds mk);
     G_Market_WinnerOddsUIDs := k_winners mk; G_Market_Status := k_status mk; G_Market_ResolutionTS := k_rts mk;
     G_Market_Creator := k_creator mk; G_Market_Meta := 0; G_Market_BookUID := k_uid mk |}.

Lemma gen_market_update_allowed mk : K_Market_IsUpdateAllowed (gm_of mk) = status_ai (k_status mk).
Proof. reflexivity. Qed.
Lemma gen_market_resolve_allowed mk : K_Market_IsResolveAllowed (gm_of mk) = status_ai (k_status mk).
Proof. reflexivity. Qed.
Lemma gen_market_resolved mk : K_Market_IsResolved (gm_of mk) = status_resolved (k_status mk).
Proof.
  unfold K_Market_IsResolved, status_resolved, MK_CANCELED, MK_ABORTED, MK_DECLARED. cbn [gm_of G_Market_Status].
  destruct (k_status mk =? 5), (k_status mk =? 3), (k_status mk =? 4); reflexivity.
Qed.

(* market.go HasOdds: a return inside the loop *)
Lemma has_odds_fold o odds : forall r,
  kfold (r, true) (map (fun o => {| G_Odds_UID := o; G_Odds_Meta := 0 |}) odds)
    (fun '(g__ret, g__brk) g_o => if g__brk : bool then (g__ret, true) else
      (if o =? G_Odds_UID g_o then let g__ret := Some true in (g__ret, true) else (g__ret, false))) = (r, true).
Proof. unfold kfold. induction odds as [|x l IH]; intros r; cbn [map fold_left]; [reflexivity|apply IH]. Qed.
Lemma gen_HasOdds mk o : K_Market_HasOdds (gm_of mk) o = zmem o (k_odds mk).
Proof.
  unfold K_Market_HasOdds, zmem. cbn [gm_of G_Market_Odds]. unfold kfold.
  induction (k_odds mk) as [|x l IH]; cbn [map fold_left existsb G_Odds_UID]; [reflexivity|].
  destruct (o =? x).
  - pose proof (has_odds_fold o l (Some true)) as F. unfold kfold in F. rewrite F. reflexivity.
  - exact IH.
Qed.

(* ticket.go ValidateWinnerOdds: nested loops; the guard of market_resolve *)
Lemma vwo_inner w odds : forall v,
  kfold (v, false) (map (fun o => {| G_Odds_UID := o; G_Odds_Meta := 0 |}) odds)
    (fun '(g_validWinnerOdds, g__brk) g_o => if g__brk : bool then (g_validWinnerOdds, true) else
      (if G_Odds_UID g_o =? w then let g_validWinnerOdds := true in (g_validWinnerOdds, false) else (g_validWinnerOdds, false)))
  = (v || zmem w odds, false).
Proof.
  unfold kfold, zmem. induction odds as [|x l IH]; intros v; cbn [map fold_left existsb G_Odds_UID]; [rewrite orb_false_r; reflexivity|].
  rewrite (Z.eqb_sym w x). destruct (x =? w); rewrite IH; [cbn [orb]; rewrite orb_true_r; reflexivity|cbn [orb]; reflexivity].
Qed.
Lemma gen_ValidateWinnerOdds uid rts winners status mk :
  K_MarketResolutionTicketPayload_ValidateWinnerOdds
    {| G_MarketResolutionTicketPayload_UID := uid; G_MarketResolutionTicketPayload_ResolutionTS := rts;
       G_MarketResolutionTicketPayload_WinnerOddsUIDs := winners; G_MarketResolutionTicketPayload_Status := status |} (gm_of mk)
  = negb ((status =? MK_DECLARED) && ((rts <? k_start mk) || negb (forallb (fun w => zmem w (k_odds mk)) winners))).
Proof.
  unfold K_MarketResolutionTicketPayload_ValidateWinnerOdds, MK_DECLARED.
  cbn [G_MarketResolutionTicketPayload_Status G_MarketResolutionTicketPayload_ResolutionTS G_MarketResolutionTicketPayload_WinnerOddsUIDs gm_of G_Market_StartTS G_Market_Odds].
  destruct (status =? 5); [|reflexivity]. cbn [andb]. destruct (rts <? k_start mk); [reflexivity|]. cbn [orb].
  match goal with |- (let '(_, _) := kfold _ _ ?f in _) = _ => set (F := f) end.
  assert (Hstop : forall ws v, fold_left F ws (v, true) = (v, true)) by (induction ws as [|x l IH]; intros v; cbn [fold_left]; [reflexivity|apply IH]).
  assert (Hrun : forall ws, fst (fold_left F ws (true, false)) = forallb (fun w => zmem w (k_odds mk)) ws).
  { induction ws as [|x l IH]; cbn [fold_left forallb]; [reflexivity|].
    unfold F at 2. cbv beta iota. rewrite vwo_inner. cbn [orb].
    destruct (zmem x (k_odds mk)); cbn [negb andb]; [exact IH|rewrite Hstop; reflexivity]. }
  specialize (Hrun winners). unfold kfold at 1. destruct (fold_left F winners (true, false)) as [v brk]. cbn [fst] in Hrun. subst v.
  destruct (forallb _ winners); reflexivity.
Qed.

(* ---- time checks and ticket payload validation with the block time (sdk.Context is its BlockTime().Unix()) ------------------------------------ *)
Lemma gen_validateMarketTS now st en : K__validateMarketTS now st en = market_ts_ok now st en.
Proof. unfold K__validateMarketTS, market_ts_ok. destruct (en <=? now); [reflexivity|]. destruct ((en <=? st) || (st =? 0)); reflexivity. Qed.
(* the two guards of market_update that come from the ticket payload *)
Lemma gen_update_Validate uid st en status now :
  K_MarketUpdateTicketPayload_Validate {| G_MarketUpdateTicketPayload_UID := uid; G_MarketUpdateTicketPayload_StartTS := st;
      G_MarketUpdateTicketPayload_EndTS := en; G_MarketUpdateTicketPayload_Status := status |} now
  = status_ai status && market_ts_ok now st en.
Proof.
  unfold K_MarketUpdateTicketPayload_Validate, status_ai, MK_ACTIVE, MK_INACTIVE.
  cbn [G_MarketUpdateTicketPayload_Status G_MarketUpdateTicketPayload_StartTS G_MarketUpdateTicketPayload_EndTS].
  rewrite gen_validateMarketTS. destruct ((status =? 1) || (status =? 2)); reflexivity.
Qed.
(* the payload guards of market_resolve (identifiers are integers, the invalid spellings the negative ones) *)
Lemma gen_resolution_Validate uid rts winners status :
  K_MarketResolutionTicketPayload_Validate
    {| G_MarketResolutionTicketPayload_UID := uid; G_MarketResolutionTicketPayload_ResolutionTS := rts;
       G_MarketResolutionTicketPayload_WinnerOddsUIDs := winners; G_MarketResolutionTicketPayload_Status := status |}
  = status_resolved status && negb ((status =? MK_DECLARED) && (1 <? zlen winners)) && negb (negb (status =? MK_DECLARED) && (0 <? zlen winners))
    && negb (rts =? 0) && negb (uid <? 0) && negb ((status =? MK_DECLARED) && (zlen winners <? 1)) && forallb (fun o => 0 <=? o) winners.
Proof.
  unfold K_MarketResolutionTicketPayload_Validate, status_resolved, MK_CANCELED, MK_ABORTED, MK_DECLARED.
  cbn [G_MarketResolutionTicketPayload_Status G_MarketResolutionTicketPayload_ResolutionTS G_MarketResolutionTicketPayload_WinnerOddsUIDs
       G_MarketResolutionTicketPayload_UID].
  match goal with |- context [kfold _ _ ?f] => set (F := f) end.
  assert (Hstop : forall l r, fold_left F l (r, true) = (r, true)).
  { induction l as [|x l IH]; intros r; cbn [fold_left]; [reflexivity|apply IH]. }
  assert (Hrun : forall l, kfold (None, false) l F = if forallb (fun o => 0 <=? o) l then (None, false) else (Some false, true)).
  { unfold kfold. induction l as [|x l IH]; cbn [fold_left forallb]; [reflexivity|].
    unfold F at 2. cbv beta iota. destruct (0 <=? x); cbn [negb andb]; [exact IH|apply Hstop]. }
  rewrite !Hrun. unfold klen, zlen. rewrite (Z.ltb_antisym 0 uid).
  destruct (status =? 3), (status =? 4), (status =? 5), (1 <? Z.of_nat (length winners)), (0 <? Z.of_nat (length winners)), (rts =? 0),
    (0 <=? uid), (Z.of_nat (length winners) <? 1), (forallb (fun o => 0 <=? o) winners); reflexivity.
Qed.

(* ---- the market update and resolution handlers (x/market/keeper msg_server_market.go Update, msg_server_market_resolve.go Resolve, market.go
   Resolve), generated as functions on the state they reach: whether the ticket verifies and the payload it carries, the market stored under
   the payload's uid and whether it exists, the queue of resolved markets, the block time ---------------------------------------------------- *)
Definition mkt_state (tok : bool) (up : G_MarketUpdateTicketPayload) (rp : G_MarketResolutionTicketPayload) (found : bool) (mk : market)
                     (q : list Z) (now : Z) : S_mkt :=
  {| S_mkt_TicketOK := tok; S_mkt_UpdPayload := up; S_mkt_ResPayload := rp; S_mkt_Found := found; S_mkt_Market := gm_of mk; S_mkt_Queue := q; S_mkt_Now := now |}.
Definition upd_payload (uid st en status : Z) : G_MarketUpdateTicketPayload :=
  {| G_MarketUpdateTicketPayload_UID := uid; G_MarketUpdateTicketPayload_StartTS := st; G_MarketUpdateTicketPayload_EndTS := en;
     G_MarketUpdateTicketPayload_Status := status |}.
Definition res_payload (uid rts : Z) (winners : list Z) (status : Z) : G_MarketResolutionTicketPayload :=
  {| G_MarketResolutionTicketPayload_UID := uid; G_MarketResolutionTicketPayload_ResolutionTS := rts;
     G_MarketResolutionTicketPayload_WinnerOddsUIDs := winners; G_MarketResolutionTicketPayload_Status := status |}.

(* = market_update after the ticket and the lookup: the three guards, then the three fields are replaced *)
Lemma gen_msgUpdate tok uid st en status rp found mk q now :
  K_mkt_msgUpdate (mkt_state tok (upd_payload uid st en status) rp found mk q now) =
  if negb tok then None else if negb found then None
  else if negb (status_ai (k_status mk)) then None
  else if negb (status_ai status) then None
  else if negb (market_ts_ok now st en) then None
  else Some (mkt_state tok (upd_payload uid st en status) rp true (market_with mk st en status (k_winners mk) (k_rts mk)) q now).
Proof.
  unfold K_mkt_msgUpdate, mkt_state. cbn [S_mkt_TicketOK S_mkt_UpdPayload S_mkt_Found S_mkt_Market S_mkt_Now].
  destruct tok; cbn [negb]; [|reflexivity]. destruct found; cbn [negb]; [|reflexivity].
  rewrite gen_market_update_allowed. destruct (status_ai (k_status mk)); cbn [negb]; [|reflexivity].
  unfold upd_payload at 1. rewrite gen_update_Validate.
  destruct (status_ai status); cbn [negb andb]; [|reflexivity]. destruct (market_ts_ok now st en); cbn [negb]; reflexivity.
Qed.

(* = market_resolve after the ticket: payload guards, lookup, status, winners; the record is rewritten and the market queued *)
Lemma gen_msgResolve tok up uid rts winners status found mk q now :
  K_mkt_msgResolve (mkt_state tok up (res_payload uid rts winners status) found mk q now) =
  if negb tok then None
  else if negb (status_resolved status && negb ((status =? MK_DECLARED) && (1 <? zlen winners)) && negb (negb (status =? MK_DECLARED) && (0 <? zlen winners))
                && negb (rts =? 0) && negb (uid <? 0) && negb ((status =? MK_DECLARED) && (zlen winners <? 1)) && forallb (fun o => 0 <=? o) winners) then None
  else if negb found then None
  else if negb (status_ai (k_status mk)) then None
  else if (status =? MK_DECLARED) && ((rts <? k_start mk) || negb (forallb (fun w => zmem w (k_odds mk)) winners)) then None
  else Some (mkt_state tok up (res_payload uid rts winners status) true
               (market_with mk (k_start mk) (k_end mk) status (if status =? MK_DECLARED then winners else k_winners mk) rts) (q ++ [k_uid mk]) now).
Proof.
  unfold K_mkt_msgResolve, mkt_state. cbn [S_mkt_TicketOK S_mkt_ResPayload S_mkt_Found S_mkt_Market S_mkt_Now].
  destruct tok; cbn [negb]; [|reflexivity].
  unfold res_payload at 1. rewrite gen_resolution_Validate.
  match goal with |- (if negb ?g then _ else _) = _ => destruct g eqn:EG end; cbn [negb]; [|reflexivity].
  destruct found; cbn [negb]; [|reflexivity].
  rewrite gen_market_resolve_allowed. destruct (status_ai (k_status mk)); cbn [negb]; [|reflexivity].
  unfold res_payload at 1. rewrite gen_ValidateWinnerOdds.
  destruct ((status =? MK_DECLARED) && ((rts <? k_start mk) || negb (forallb (fun w => zmem w (k_odds mk)) winners))); cbn [negb]; [reflexivity|].
  (* the resolved status is one of the three (from the payload guard) *)
  assert (HR : status_resolved status = true).
  { repeat (apply andb_true_iff in EG; destruct EG as [EG _]). exact EG. }
  unfold K_mkt_Resolve, res_payload, MK_DECLARED.
  cbn [G_MarketResolutionTicketPayload_ResolutionTS G_MarketResolutionTicketPayload_Status G_MarketResolutionTicketPayload_WinnerOddsUIDs].
  unfold status_resolved, MK_CANCELED, MK_ABORTED, MK_DECLARED in HR.
  unfold K_Market_IsResolved, set_G_Market_WinnerOddsUIDs, set_G_Market_Status, set_G_Market_ResolutionTS, gm_of.
  cbn [G_Market_Status G_Market_UID G_Market_StartTS G_Market_EndTS G_Market_Odds G_Market_WinnerOddsUIDs G_Market_ResolutionTS G_Market_Creator
       G_Market_Meta G_Market_BookUID].
  destruct (status =? 5) eqn:E5.
  - cbn [orb]. reflexivity.
  - rewrite orb_false_r in HR. cbn [orb]. rewrite HR. reflexivity.
Qed.

(* the model's handlers accept exactly when the generated handlers do (on the state assembled from the chain state), and gen_msgUpdate /
   gen_msgResolve say that the record and the queue the generated handlers store are the model's *)
Lemma model_market_update s tk uid st en status rp :
  market_update s tk uid st en status =
  match get_ms s uid with
  | None => None
  | Some x =>
      match K_mkt_msgUpdate (mkt_state (ticket_ok s tk) (upd_payload uid st en status) rp true (ms_mkt x) (c_mqueue s) (c_now s)) with
      | None => None
      | Some _ =>
          let x' := mstate_upd x (market_with (ms_mkt x) st en status (k_winners (ms_mkt x)) (k_rts (ms_mkt x))) (ms_book x)
                               (ms_bets x) (ms_pending x) (ms_deps x) (ms_wds x) in
          Some (chain_upd s (c_bank s) (set_ms_list (c_ms s) uid x') (c_mqueue s) (c_bqueue s) (c_betcnt s) (c_uid2id s) (c_settledix s) (c_grants s))
      end
  end.
Proof.
  unfold market_update. destruct (ticket_ok s tk) eqn:ET; cbn [negb].
  - destruct (get_ms s uid) as [x|]; [|reflexivity]. rewrite gen_msgUpdate. cbn [negb].
    destruct (status_ai (k_status (ms_mkt x))); cbn [negb]; [|reflexivity].
    destruct (status_ai status); cbn [negb]; [|reflexivity]. destruct (market_ts_ok (c_now s) st en); reflexivity.
  - destruct (get_ms s uid) as [x|]; [|reflexivity]. rewrite gen_msgUpdate. reflexivity.
Qed.

Lemma model_market_resolve s tk uid rts winners status up :
  market_resolve s tk uid rts winners status =
  match get_ms s uid with
  | None => match K_mkt_msgResolve (mkt_state (ticket_ok s tk) up (res_payload uid rts winners status) false
                                              {| k_uid := uid; k_creator := 0; k_start := 0; k_end := 0; k_odds := []; k_status := 0; k_winners := []; k_rts := 0 |}
                                              (c_mqueue s) (c_now s)) with
            | None => None | Some _ => None end
  | Some x =>
      match K_mkt_msgResolve (mkt_state (ticket_ok s tk) up (res_payload uid rts winners status) true (ms_mkt x) (c_mqueue s) (c_now s)) with
      | None => None
      | Some _ =>
          let mk' := market_with (ms_mkt x) (k_start (ms_mkt x)) (k_end (ms_mkt x)) status
                                 (if status =? MK_DECLARED then winners else k_winners (ms_mkt x)) rts in
          let x' := mstate_upd x mk' (ms_book x) (ms_bets x) (ms_pending x) (ms_deps x) (ms_wds x) in
          Some (chain_upd s (c_bank s) (set_ms_list (c_ms s) uid x') (c_mqueue s ++ [uid]) (c_bqueue s) (c_betcnt s) (c_uid2id s) (c_settledix s) (c_grants s))
      end
  end.
Proof.
  unfold market_resolve. destruct (get_ms s uid) as [x|]; rewrite gen_msgResolve; destruct (ticket_ok s tk); cbn [negb].
  2, 4: (repeat match goal with |- context [if ?c then None else _] => destruct c end); reflexivity.
  - destruct (status_resolved status); cbn [negb andb]; [|reflexivity].
    destruct ((status =? MK_DECLARED) && (1 <? zlen winners)); cbn [negb andb]; [reflexivity|].
    destruct (negb (status =? MK_DECLARED) && (0 <? zlen winners)); cbn [negb andb]; [reflexivity|].
    destruct (rts =? 0); cbn [negb andb]; [reflexivity|]. destruct (uid <? 0); cbn [negb andb]; [reflexivity|].
    destruct ((status =? MK_DECLARED) && (zlen winners <? 1)); cbn [negb andb]; [reflexivity|].
    destruct (forallb (fun o => 0 <=? o) winners); cbn [negb]; [|reflexivity].
    destruct (status_ai (k_status (ms_mkt x))); cbn [negb]; [|reflexivity].
    destruct ((status =? MK_DECLARED) && ((rts <? k_start (ms_mkt x)) || negb (forallb (fun w => zmem w (k_odds (ms_mkt x))) winners))); reflexivity.
  - destruct (status_resolved status); cbn [negb andb]; [|reflexivity].
    destruct ((status =? MK_DECLARED) && (1 <? zlen winners)); cbn [negb andb]; [reflexivity|].
    destruct (negb (status =? MK_DECLARED) && (0 <? zlen winners)); cbn [negb andb]; [reflexivity|].
    destruct (rts =? 0); cbn [negb andb]; [reflexivity|]. destruct (uid <? 0); cbn [negb andb]; [reflexivity|].
    destruct ((status =? MK_DECLARED) && (zlen winners <? 1)); cbn [negb andb]; [reflexivity|].
    destruct (forallb (fun o => 0 <=? o) winners); reflexivity.
Qed.

(* Proofs/Keys.v — market uids are unique keys of the market list in every reachable state (generated from the skeleton of Params.v). *)
From Coq Require Import ZArith Bool List Lia.
From Sge Require Import Lib.Dec Model.Types Model.Orderbook Model.Mint Model.Chain Proofs.Tactics Proofs.CustodyLocal.
Import ListNotations.
Open Scope Z_scope.

Lemma in_upd_keys {A} (f : A -> bool) (v : A) (l : list A) x : In x (upd f v l) -> x = v \/ In x l.
Proof.
  induction l as [|y r IH]; cbn [upd]; intros H.
  - destruct H as [H|[]]. left. symmetry. exact H.
  - destruct (f y); [destruct H as [H|H]; [left; symmetry; exact H|right; right; exact H]|].
    destruct H as [H|H]; [right; left; exact H|]. destruct (IH H) as [E|E]; [left; exact E|right; right; exact E].
Qed.

Definition keys_ok (s : chain) : Prop := NoDup (map fst (c_ms s)).
Definition kfr (s s' : chain) : Prop := keys_ok s -> keys_ok s'.

Lemma kfr_refl s : kfr s s.
Proof. intros H. exact H. Qed.
Lemma kfr_trans a b c : kfr a b -> kfr b c -> kfr a c.
Proof. unfold kfr. auto. Qed.

Lemma nodup_keys_set (l : list (Z * mstate)) m x' : NoDup (map fst l) -> NoDup (map fst (set_ms_list l m x')).
Proof.
  unfold set_ms_list. induction l as [|e r IH]; cbn [upd map]; intros H.
  - constructor; [intros []|constructor].
  - inversion H as [|? ? Hni Hnd]; subst. destruct (fst e =? m) eqn:E.
    + apply Z.eqb_eq in E. cbn [map fst]. rewrite <- E. constructor; assumption.
    + cbn [map]. constructor; [|apply IH; exact Hnd]. intros Hin. apply Hni.
      apply in_map_iff in Hin. destruct Hin as (e' & Ee & Hin). apply in_upd_keys in Hin. destruct Hin as [->|Hin].
      * cbn in Ee. apply Z.eqb_neq in E. congruence.
      * rewrite <- Ee. apply in_map. exact Hin.
Qed.

Ltac frame_upd :=
  unfold kfr, keys_ok; cbn [c_ms chain_upd with_subs chain_set_subs set_bank chain_set_ovm chain_core halt];
  let Hk := fresh "Hk" in intros Hk; first [exact Hk | apply nodup_keys_set; exact Hk].

Lemma kfr_subs s subs n : kfr s (chain_set_subs s subs n). Proof. frame_upd. Qed.
Lemma kfr_with_subs s subs : kfr s (with_subs s subs). Proof. frame_upd. Qed.
Lemma kfr_set_bank s b : kfr s (set_bank s b). Proof. frame_upd. Qed.
Lemma kfr_ovm s v p c : kfr s (chain_set_ovm s v p c). Proof. frame_upd. Qed.
Lemma kfr_upd_subs s subs bk m x mq bq bc u2i sidx gr : kfr s (chain_upd (with_subs s subs) bk (set_ms_list (c_ms s) m x) mq bq bc u2i sidx gr).
Proof. frame_upd. Qed.

Lemma market_add_frame s sg tk u st en od sts s' : market_add s sg tk u st en od sts = Some s' -> kfr s s'.
Proof.
  unfold market_add. intros H; dmatch H; inv H. unfold kfr, keys_ok. cbn [c_ms chain_upd]. intros Hk.
  rewrite map_app. cbn [map fst]. match goal with E : get_ms s u = None |- _ => rename E into Hn end.
  assert (Hni : ~ In u (map fst (c_ms s))).
  { intros Hin. apply in_map_iff in Hin. destruct Hin as (e & Ee & Hin). unfold get_ms, findb in Hn.
    destruct (find (fun x => fst x =? u) (c_ms s)) eqn:Ef; [discriminate|]. apply (find_none _ _ Ef) in Hin. apply Z.eqb_neq in Hin. contradiction. }
  clear - Hk Hni. induction (map fst (c_ms s)) as [|k r IH]; cbn [app]; [constructor; [intros []|constructor]|].
  inversion Hk as [|? ? A B]; subst. constructor; [|apply IH; [exact B|intros Hin; apply Hni; right; exact Hin]].
  intros Hin. apply in_app_or in Hin. destruct Hin as [Hin|[E|[]]]; [contradiction|]. apply Hni. left. symmetry. exact E.
Qed.
Lemma market_update_frame s tk u st en sts s' : market_update s tk u st en sts = Some s' -> kfr s s'.
Proof. unfold market_update. intros H; dmatch H; inv H; frame_upd. Qed.
Lemma market_resolve_frame s tk u r w sts s' : market_resolve s tk u r w sts = Some s' -> kfr s s'.
Proof. unfold market_resolve. intros H; dmatch H; inv H; frame_upd. Qed.
Lemma house_deposit_core_frame s c d m a g s' : house_deposit_core s c d m a g = Some s' -> kfr s s'.
Proof. unfold house_deposit_core. intros H; dmatch H; inv H; frame_upd. Qed.
Lemma house_deposit_frame s sg tk m a k d s' : house_deposit s sg tk m a k d = Some s' -> kfr s s'.
Proof. unfold house_deposit. intros H; dmatch H. eapply house_deposit_core_frame; exact H. Qed.
Lemma withdraw_core_frame s sg d m p mo a ob s' amt : withdraw_core s sg d m p mo a ob = Some (s', amt) -> kfr s s'.
Proof. unfold withdraw_core. intros H; dmatch H; inv H; frame_upd. Qed.
Lemma house_withdraw_frame s sg tk m p mo a k d s' : house_withdraw s sg tk m p mo a k d = Some s' -> kfr s s'.
Proof.
  unfold house_withdraw. intros H. dmatch H. inv H.
  match goal with E : withdraw_core _ _ _ _ _ _ _ _ = Some _ |- _ => eapply withdraw_core_frame; exact E end.
Qed.
Lemma wager_core_frame s sg u a sm so ov mu al s' : wager_core s sg u a sm so ov mu al = Some s' -> kfr s s'.
Proof. unfold wager_core. intros H; dmatch H; inv H; frame_upd. Qed.
Lemma bet_wager_frame s sg tk u a sm so ov mu al k ot s' : bet_wager s sg tk u a sm so ov mu al k ot = Some s' -> kfr s s'.
Proof. unfold bet_wager. intros H; dmatch H. eapply wager_core_frame; exact H. Qed.
Lemma do_grant_frame s a b k l e s' : do_grant s a b k l e = Some s' -> kfr s s'.
Proof. unfold do_grant. intros H; dmatch H; inv H; frame_upd. Qed.
Lemma do_revoke_frame s a b k s' : do_revoke s a b k = Some s' -> kfr s s'.
Proof. unfold do_revoke. intros H; dmatch H; inv H; frame_upd. Qed.
Lemma do_send_frame s a b k s' : do_send s a b k = Some s' -> kfr s s'.
Proof. unfold do_send. intros H; dmatch H; inv H; frame_upd. Qed.
Lemma ovm_propose_frame s sg tk ks li s' : ovm_propose s sg tk ks li = Some s' -> kfr s s'.
Proof. unfold ovm_propose. intros H; dmatch H; inv H; frame_upd. Qed.
Lemma ovm_vote_frame s tk vi pid v s' : ovm_vote s tk vi pid v = Some s' -> kfr s s'.
Proof. unfold ovm_vote. intros H; dmatch H; inv H; frame_upd. Qed.
Lemma sub_create_frame s c o l s' : sub_create s c o l = Some s' -> kfr s s'.
Proof.
  unfold sub_create. intros H; dmatch H; inv H.
  eapply kfr_trans; [apply kfr_subs|]. apply kfr_set_bank.
Qed.
Lemma sub_topup_frame s c o l s' : sub_topup s c o l = Some s' -> kfr s s'.
Proof.
  unfold sub_topup. intros H; dmatch H; inv H.
  eapply kfr_trans; [apply kfr_with_subs|]. apply kfr_set_bank.
Qed.
Lemma sub_withdraw_unlocked_frame s o s' : sub_withdraw_unlocked s o = Some s' -> kfr s s'.
Proof.
  unfold sub_withdraw_unlocked. intros H; dmatch H; inv H.
  eapply kfr_trans; [apply kfr_with_subs|]. apply kfr_set_bank.
Qed.
Lemma sub_wager_frame s sg tk ic tk2 u a sm so ov mu al k ot md sd s' :
  sub_wager s sg tk ic tk2 u a sm so ov mu al k ot md sd = Some s' -> kfr s s'.
Proof.
  unfold sub_wager. intros H; dmatch H.
  eapply kfr_trans; [|eapply wager_core_frame; exact H].
  eapply kfr_trans; [apply kfr_with_subs|]. apply kfr_set_bank.
Qed.
Lemma sub_house_deposit_frame s sg tk m a k d s' : sub_house_deposit s sg tk m a k d = Some s' -> kfr s s'.
Proof.
  unfold sub_house_deposit. intros H; dmatch H; inv H.
  eapply kfr_trans; [eapply house_deposit_core_frame; eassumption|apply kfr_with_subs].
Qed.
Lemma sub_house_withdraw_frame s sg tk m p mo a k d s' : sub_house_withdraw s sg tk m p mo a k d = Some s' -> kfr s s'.
Proof.
  unfold sub_house_withdraw. intros H; dmatch H; inv H.
  eapply kfr_trans; [eapply withdraw_core_frame; eassumption|apply kfr_with_subs].
Qed.

Lemma bet_endblock_frame fuel : forall s n s', bet_endblock fuel s n = Some s' -> kfr s s'.
Proof.
  induction fuel as [|f IH]; intros s n s' H; cbn [bet_endblock] in H.
  - destruct (n <=? 0); [inv H; apply kfr_refl|discriminate].
  - destruct (n <=? 0); [inv H; apply kfr_refl|].
    destruct (c_mqueue s) as [|m q] eqn:EQ; [inv H; apply kfr_refl|].
    destruct (get_ms s m) as [x|]; [|discriminate].
    destruct (settle_bets _ x (c_bank s) (c_subs s) (c_height s) (c_settledix s) 0) as [[[[[x1 bk1] subs1] sidx1] cnt]|] eqn:ES; [|discriminate].
    destruct (ms_pending x1).
    + destruct (negb (bk_status (ms_book x1) =? BK_ACTIVE)); [discriminate|].
      eapply kfr_trans; [|eapply IH; exact H]. frame_upd.
    + eapply kfr_trans; [|eapply IH; exact H]. frame_upd.
Qed.

Lemma ob_endblock_frame fuel : forall s n i s', ob_endblock fuel s n i = Some s' -> kfr s s'.
Proof.
  induction fuel as [|f IH]; intros s n i s' H; cbn [ob_endblock] in H.
  - destruct (n <=? 0); [inv H; apply kfr_refl|discriminate].
  - destruct (n <=? 0); [inv H; apply kfr_refl|].
    destruct (nth_error (c_bqueue s) i) as [m|]; [|inv H; apply kfr_refl].
    destruct (get_ms s m) as [x|]; [|discriminate].
    destruct (negb (bk_status (ms_book x) =? BK_RESOLVED)); [discriminate|].
    destruct (batch_parts _ _ _ _ _) as [[[[alls cnt] ps] effs]|]; [|discriminate].
    destruct (apply_effects (c_bank s) (c_subs s) effs) as [[bk1 subs1]|] eqn:EA; [|discriminate].
    eapply kfr_trans; [|eapply IH; exact H]. frame_upd.
Qed.

Lemma halt_frame s : kfr s (halt s).
Proof. frame_upd. Qed.

Lemma end_block_frame s : kfr s (fst (end_block s)).
Proof.
  unfold end_block.
  destruct (bet_endblock _ s _) as [s1|] eqn:E1; [|apply halt_frame].
  destruct (ob_endblock _ s1 _ _) as [s2|] eqn:E2; [|apply halt_frame].
  cbn [fst]. eapply kfr_trans; [eapply bet_endblock_frame; exact E1|].
  eapply kfr_trans; [eapply ob_endblock_frame; exact E2|].
  unfold ovm_endblock. destruct (ovm_finish _ _ _ _). apply kfr_ovm.
Qed.

Lemma tx_frame s r : (forall s', r = Some s' -> kfr s s') -> kfr s (fst (tx s r)).
Proof. intros H. unfold tx. destruct r as [s'|]; cbn [fst]; [apply H; reflexivity|apply kfr_refl]. Qed.

Theorem step_keys s o : kfr s (fst (step s o)).
Proof.
  unfold step. destruct (c_halted s); [apply kfr_refl|].
  destruct o; try (apply tx_frame; intros s' H).
  - unfold begin_block_op. destruct (begin_block _ _ _ _); cbn [fst]; frame_upd.
  - apply end_block_frame.
  - eapply market_add_frame; exact H.
  - eapply market_update_frame; exact H.
  - eapply market_resolve_frame; exact H.
  - eapply house_deposit_frame; exact H.
  - eapply house_withdraw_frame; exact H.
  - eapply bet_wager_frame; exact H.
  - eapply do_grant_frame; exact H.
  - eapply do_revoke_frame; exact H.
  - eapply do_send_frame; exact H.
  - eapply ovm_propose_frame; exact H.
  - eapply ovm_vote_frame; exact H.
  - eapply sub_create_frame; exact H.
  - eapply sub_topup_frame; exact H.
  - eapply sub_withdraw_unlocked_frame; exact H.
  - eapply sub_wager_frame; exact H.
  - eapply sub_house_deposit_frame; exact H.
  - eapply sub_house_withdraw_frame; exact H.
Qed.

Theorem run_keys ops : forall s, kfr s (run s ops).
Proof.
  induction ops as [|o r IH]; intros s; cbn [run fold_left]; [apply kfr_refl|].
  eapply kfr_trans; [apply step_keys|apply IH].
Qed.

(* Proofs/GenMintK.v — generated kernels (Gen/kernels.v, regenerated from the Go source on every run) proved equal to the hand-written model:
   x/mint/types/minter.go NextPhaseProvisions.  Split by module so that a change of one module only touches the properties that depend on it. *)
From Coq Require Import ZArith Bool List Lia.
From Sge Require Import Lib.Dec Model.Types Model.Orderbook Model.Mint Model.Chain Gen.kernels.
Import ListNotations.
Open Scope Z_scope.

(* ---- x/mint/types/minter.go ------------------------------------------------------------------------------------------------------------ *)
Lemma gen_NextPhaseProvisions infl step prov trunc supply exclude ph :
  K_Minter_NextPhaseProvisions {| G_Minter_Inflation := infl; G_Minter_PhaseStep := step; G_Minter_PhaseProvisions := prov; G_Minter_TruncatedTokens := trunc |}
    supply exclude {| G_Phase_Inflation := ph_infl ph; G_Phase_YearCoefficient := ph_coef ph |} =
  next_phase_provisions infl supply exclude ph.
Proof.
  unfold K_Minter_NextPhaseProvisions, next_phase_provisions, zmax0. cbn [G_Minter_Inflation G_Phase_YearCoefficient].
  destruct (supply - exclude <? 0) eqn:E; [apply Z.ltb_lt in E; rewrite Z.max_l by lia; reflexivity|apply Z.ltb_ge in E; rewrite Z.max_r by lia; reflexivity].
Qed.

(* Proofs/MarketFacts.v — market life cycle (C07) and the per-market frame (C01). *)
From Coq Require Import ZArith Bool List Lia.
From Sge Require Import Lib.Dec Model.Types Model.Orderbook Model.Mint Model.Chain Proofs.Tactics Proofs.Inversion.
Import ListNotations.
Open Scope Z_scope.

Lemma find_upd_other {A} (key : A -> Z) (l : list A) (m m' : Z) (v : A) :
  key v = m -> m' <> m ->
  findb (fun x => key x =? m') (upd (fun x => key x =? m) v l) = findb (fun x => key x =? m') l.
Proof.
  intros Hk Hne. induction l as [|x r IH]; cbn [upd findb find].
  - rewrite Hk. destruct (m =? m') eqn:E; [apply Z.eqb_eq in E; lia|reflexivity].
  - destruct (key x =? m) eqn:E1; cbn [findb find].
    + apply Z.eqb_eq in E1. rewrite Hk. rewrite E1.
      destruct (m =? m') eqn:E; [apply Z.eqb_eq in E; lia|reflexivity].
    + destruct (key x =? m'); [reflexivity|exact IH].
Qed.

Lemma find_upd_same {A} (key : A -> Z) (l : list A) (m : Z) (v : A) :
  key v = m -> findb (fun x => key x =? m) (upd (fun x => key x =? m) v l) = Some v.
Proof.
  intros Hk. induction l as [|x r IH]; cbn [upd findb find].
  - rewrite Hk, Z.eqb_refl. reflexivity.
  - destruct (key x =? m) eqn:E1; cbn [findb find].
    + rewrite Hk, Z.eqb_refl. reflexivity.
    + rewrite E1. exact IH.
Qed.

Lemma get_ms_set_other l m m' v : m' <> m ->
  (match findb (fun x => fst x =? m') (set_ms_list l m v) with Some x => Some (snd x) | None => None end) =
  (match findb (fun x => fst x =? m') l with Some x => Some (snd x) | None => None end).
Proof. intros H. unfold set_ms_list. rewrite (find_upd_other fst l m m' (m, v) eq_refl H). reflexivity. Qed.

Lemma find_app_other {A} (f : A -> bool) l x : f x = false -> findb f (l ++ [x]) = findb f l.
Proof. intros H. induction l as [|y r IH]; cbn [app findb find]; [rewrite H; reflexivity|]. destruct (f y); [reflexivity|exact IH]. Qed.

(* which market an operation names *)
Definition op_market (o : op) : option Z :=
  match o with
  | OMarketAdd _ _ uid _ _ _ _ | OMarketUpdate _ _ uid _ _ _ | OMarketResolve _ _ uid _ _ _ => Some uid
  | ODeposit _ _ m _ _ _ | OWithdraw _ _ m _ _ _ _ _ | OSubHouseDeposit _ _ m _ _ _ | OSubHouseWithdraw _ _ m _ _ _ _ _ => Some m
  | OWager _ _ _ _ sm _ _ _ _ _ _ | OSubWager _ _ _ _ _ _ sm _ _ _ _ _ _ _ _ => Some sm
  | _ => None
  end.

Ltac ms_other Hne :=
  unfold get_ms; cbn [c_ms chain_upd with_subs chain_set_subs chain_set_ovm set_bank];
  first [ apply get_ms_set_other; exact Hne
        | reflexivity ].

Lemma house_deposit_core_other s c d m a g s' m' : house_deposit_core s c d m a g = Some s' -> m' <> m -> get_ms s' m' = get_ms s m'.
Proof. unfold house_deposit_core. intros H Hne. dmatch H; inv H. ms_other Hne. Qed.
Lemma withdraw_core_other s sg d m p mo a ob s' amt m' : withdraw_core s sg d m p mo a ob = Some (s', amt) -> m' <> m -> get_ms s' m' = get_ms s m'.
Proof. unfold withdraw_core. intros H Hne. dmatch H; inv H. ms_other Hne. Qed.
Lemma wager_core_other s sg u a sm so ov mu al s' m' : wager_core s sg u a sm so ov mu al = Some s' -> m' <> sm -> get_ms s' m' = get_ms s m'.
Proof. unfold wager_core. intros H Hne. dmatch H; inv H. ms_other Hne. Qed.

(* C01 frame: a transaction naming market m leaves every other market's state — market record, book,
   participations, exposures, bets, deposits — untouched; operations naming no market touch none *)
Theorem tx_market_frame s o m' :
  o <> OEnd -> (forall m, op_market o = Some m -> m' <> m) -> get_ms (fst (step s o)) m' = get_ms s m'.
Proof.
  intros Hend Hm. unfold step. destruct (c_halted s); [reflexivity|].
  destruct o; try contradiction; unfold tx; cbn [op_market] in Hm.
  - unfold begin_block_op. destruct (begin_block _ _ _ _); reflexivity.
  - destruct (market_add _ _ _ _ _ _ _ _) eqn:E; [|reflexivity]. unfold market_add in E. dmatch E; inv E. cbn [fst].
    unfold get_ms. cbn [c_ms chain_upd]. rewrite find_app_other; [reflexivity|].
    cbn [fst]. apply Z.eqb_neq. intros Hc. apply (Hm uid eq_refl). symmetry. exact Hc.
  - destruct (market_update _ _ _ _ _ _) eqn:E; [|reflexivity]. unfold market_update in E. dmatch E; inv E. cbn [fst].
    ms_other (Hm uid eq_refl).
  - destruct (market_resolve _ _ _ _ _ _) eqn:E; [|reflexivity]. unfold market_resolve in E. dmatch E; inv E; cbn [fst];
    ms_other (Hm uid eq_refl).
  - destruct (house_deposit _ _ _ _ _ _ _) eqn:E; [|reflexivity]. unfold house_deposit in E. dmatch E. cbn [fst].
    eapply house_deposit_core_other; [exact E|exact (Hm mkt eq_refl)].
  - destruct (house_withdraw _ _ _ _ _ _ _ _ _) eqn:E; [|reflexivity]. unfold house_withdraw in E. dmatch E. inv E. cbn [fst].
    match goal with X : withdraw_core _ _ _ _ _ _ _ _ = Some _ |- _ => eapply withdraw_core_other; [exact X|exact (Hm mkt eq_refl)] end.
  - destruct (bet_wager _ _ _ _ _ _ _ _ _ _ _ _) eqn:E; [|reflexivity]. unfold bet_wager in E. dmatch E. cbn [fst].
    eapply wager_core_other; [exact E|exact (Hm selmkt eq_refl)].
  - destruct (do_grant _ _ _ _ _ _) eqn:E; [|reflexivity]. unfold do_grant in E. dmatch E; inv E; reflexivity.
  - destruct (do_revoke _ _ _ _) eqn:E; [|reflexivity]. unfold do_revoke in E. dmatch E; inv E; reflexivity.
  - destruct (do_send _ _ _ _) eqn:E; [|reflexivity]. unfold do_send in E. dmatch E; inv E; reflexivity.
  - destruct (ovm_propose _ _ _ _ _) eqn:E; [|reflexivity]. unfold ovm_propose in E. dmatch E; inv E; reflexivity.
  - destruct (ovm_vote _ _ _ _ _) eqn:E; [|reflexivity]. unfold ovm_vote in E. dmatch E; inv E; reflexivity.
  - destruct (sub_create _ _ _ _) eqn:E; [|reflexivity]. unfold sub_create in E. dmatch E; inv E; reflexivity.
  - destruct (sub_topup _ _ _ _) eqn:E; [|reflexivity]. unfold sub_topup in E. dmatch E; inv E; reflexivity.
  - destruct (sub_withdraw_unlocked _ _) eqn:E; [|reflexivity]. unfold sub_withdraw_unlocked in E. dmatch E; inv E; reflexivity.
  - destruct (sub_wager _ _ _ _ _ _ _ _ _ _ _ _ _ _ _ _) eqn:E; [|reflexivity]. unfold sub_wager in E. dmatch E. cbn [fst].
    rewrite (wager_core_other _ _ _ _ _ _ _ _ _ _ _ E (Hm selmkt eq_refl)). reflexivity.
  - destruct (sub_house_deposit _ _ _ _ _ _ _) eqn:E; [|reflexivity]. unfold sub_house_deposit in E. dmatch E; inv E. cbn [fst].
    match goal with X : house_deposit_core _ _ _ _ _ _ = Some _ |- _ => rewrite <- (house_deposit_core_other _ _ _ _ _ _ _ _ X (Hm mkt eq_refl)) end. reflexivity.
  - destruct (sub_house_withdraw _ _ _ _ _ _ _ _ _) eqn:E; [|reflexivity]. unfold sub_house_withdraw in E. dmatch E; inv E. cbn [fst].
    match goal with X : withdraw_core _ _ _ _ _ _ _ _ = Some _ |- _ => rewrite <- (withdraw_core_other _ _ _ _ _ _ _ _ _ _ _ X (Hm mkt eq_refl)) end. reflexivity.
Qed.

(* ---- C07 ---------------------------------------------------------------------------------------------------- *)
Definition resolved (mk : market) : bool := status_resolved (k_status mk).

(* once resolved, neither an update nor a second resolution is accepted *)
Theorem resolved_rejects_update s tk uid st en status x :
  get_ms s uid = Some x -> resolved (ms_mkt x) = true -> market_update s tk uid st en status = None.
Proof.
  intros Hg Hr. unfold market_update. destruct (negb (ticket_ok s tk)); [reflexivity|]. rewrite Hg.
  unfold resolved, status_resolved, status_ai in *.
  destruct (k_status (ms_mkt x) =? MK_ACTIVE) eqn:E1; [apply Z.eqb_eq in E1; rewrite E1 in Hr; discriminate|].
  destruct (k_status (ms_mkt x) =? MK_INACTIVE) eqn:E2; [apply Z.eqb_eq in E2; rewrite E2 in Hr; discriminate|].
  reflexivity.
Qed.

Theorem resolved_rejects_resolve s tk uid rts ws status x :
  get_ms s uid = Some x -> resolved (ms_mkt x) = true -> market_resolve s tk uid rts ws status = None.
Proof.
  intros Hg Hr. unfold market_resolve.
  repeat match goal with |- context [if ?c then None else _] => destruct c; [reflexivity|] end.
  rewrite Hg. unfold resolved, status_resolved, status_ai in *.
  destruct (k_status (ms_mkt x) =? MK_ACTIVE) eqn:E1; [apply Z.eqb_eq in E1; rewrite E1 in Hr; discriminate|].
  destruct (k_status (ms_mkt x) =? MK_INACTIVE) eqn:E2; [apply Z.eqb_eq in E2; rewrite E2 in Hr; discriminate|].
  reflexivity.
Qed.


(* Proofs/CoverHist.v — C02 / C10 over every history: for every market of every reachable state and every participation,
   (totals)   the book's total stake and, per outcome, the winnings promised and stakes received summed over all rounds equal the
              sums over the backing parts recorded in the bets; every backing part names an existing participation and its owner;
   (coverage) for every outcome o: liquidity + stakes of the bets on the other outcomes backed by the participation
              >= winnings promised by it on o.
   Proved against the eight local transitions (Local.mtrans) and lifted by local_invariant. *)
From Coq Require Import ZArith Bool List Lia.
From Sge Require Import Lib.Dec Model.Types Model.Orderbook Model.Mint Model.Chain
     Proofs.Tactics Proofs.DecFacts Proofs.WagerLoop Proofs.CustodyLocal Proofs.Custody Proofs.BookFacts Proofs.BookAPI Proofs.BookInv
     Proofs.WagerBounds Proofs.Local Proofs.BookHist Proofs.BookCover.
Import ListNotations.
Open Scope Z_scope.

Definition bets_of (x : mstate) : list (Z * list bpart) := map (fun b => (b_odds b, b_parts b)) (ms_bets x).

(* every backing part names an existing participation and its owner, and is non-negative *)
Definition refs (b : book) (fs : list bpart) : Prop :=
  forall f, In f fs -> exists p, get_part b (f_idx f) = Some p /\ p_owner p = f_owner f.

Record mcov (x : mstate) : Prop := {
  mc_wf : mwf x;
  mc_nonneg : forall o, In o (k_odds (ms_mkt x)) -> 0 <= o;
  mc_odds : forall bt, In bt (bets_of x) -> In (fst bt) (k_odds (ms_mkt x));
  mc_refs : forall bt, In bt (bets_of x) -> refs (ms_book x) (snd bt);
  mc_cinv : cinv (k_odds (ms_mkt x)) (ms_book x) (bets_of x) }.

(* ---- pc / pt depend on a participation only through these fields ------------------------------------------------------------------ *)
Definition psig (p : part) := (p_idx p, p_owner p, p_liq p, p_crl p, p_crml p, p_crml_odds p, p_crtb p, p_tba p).

Lemma pc_sig odds b i p p' : psig p' = psig p -> pc odds b i p -> pc odds b i p'.
Proof.
  unfold psig. intros E [C1 C2 C3 C4 C5]. injection E as E1 E2 E3 E4 E5 E6 E7 E8.
  assert (Hl : forall o, loss b i p' o = loss b i p o) by (intros o; unfold loss; rewrite E7; reflexivity).
  constructor.
  - exact C1.
  - intros o Ho. rewrite Hl, E5. apply C2. exact Ho.
  - rewrite E6, E5. intros Ho. rewrite Hl. apply C3. exact Ho.
  - intros o Ho. rewrite Hl, E4. apply C4. exact Ho.
  - intros o Ho. rewrite E3, E4. apply C5. exact Ho.
Qed.
Lemma pt_sig odds b i p p' bs : psig p' = psig p -> pt odds b i p bs -> pt odds b i p' bs.
Proof. unfold psig. intros E [T1 T2 T3]. injection E as E1 E2 E3 E4 E5 E6 E7 E8. constructor; [rewrite E8; exact T1|exact T2|exact T3]. Qed.

(* replacing a participation by one with the same signature *)
Lemma cinv_set_part_sig odds b p p0 bs :
  NoDup (map p_idx (bk_parts b)) -> get_part b (p_idx p) = Some p0 -> psig p = psig p0 -> cinv odds b bs -> cinv odds (set_part b p) bs.
Proof.
  intros Hnd Hg Hs CI q Hq.
  assert (Hnd' : NoDup (map p_idx (bk_parts (set_part b p)))) by (rewrite (pidx_set_part_existing _ _ _ Hg); exact Hnd).
  assert (Hin0 : In p0 (bk_parts b)) by (apply get_part_in in Hg; tauto).
  pose proof (gp_idx _ _ _ Hg) as Hi0.
  destruct (Z.eq_dec (p_idx q) (p_idx p)) as [Hi|Hne].
  - assert (q = p). { pose proof (gp_of_in _ _ Hnd' Hq) as G. rewrite Hi, gp_set_part_same in G. congruence. }
    subst q. destruct (CI p0 Hin0) as [X1 X2]. rewrite Hi0 in X1, X2.
    split; [apply (pc_ext odds b); [reflexivity|reflexivity|]; apply (pc_sig odds b _ p0); assumption
           |apply (pt_ext odds b); [reflexivity|reflexivity|]; apply (pt_sig odds b _ p0); assumption].
  - apply in_set_part in Hq. destruct Hq as [->|Hq]; [contradiction|]. destruct (CI q Hq) as [X1 X2].
    split; [apply (pc_ext odds b); [reflexivity|reflexivity|exact X1]|apply (pt_ext odds b); [reflexivity|reflexivity|exact X2]].
Qed.

Lemma refs_set_part_sig b p p0 fs : get_part b (p_idx p) = Some p0 -> p_owner p = p_owner p0 -> refs b fs -> refs (set_part b p) fs.
Proof.
  intros Hg Ho R f Hf. destruct (R f Hf) as (q & X1 & X2). destruct (Z.eq_dec (f_idx f) (p_idx p)) as [E|Hne].
  - rewrite E. exists p. rewrite gp_set_part_same. split; [reflexivity|]. rewrite E, Hg in X1. injection X1 as <-. congruence.
  - exists q. rewrite gp_set_part_other by exact Hne. split; assumption.
Qed.

(* ---- settlement of one bet ------------------------------------------------------------------------------------------------------------------ *)
Lemma set_profit_cov odds b p v bs fss :
  get_part b (p_idx p) = Some p -> bw odds b -> cinv odds b bs -> (forall fs, In fs fss -> refs b fs) ->
  cinv odds (set_part b (part_set_profit p v)) bs /\ (forall fs, In fs fss -> refs (set_part b (part_set_profit p v)) fs).
Proof.
  intros Hg W CI R. split.
  - eapply cinv_set_part_sig; [apply (bw_nodup _ _ W)|exact Hg|reflexivity|exact CI].
  - intros fs Hfs. eapply refs_set_part_sig; [exact Hg|reflexivity|apply R; exact Hfs].
Qed.

Lemma bettor_wins_cov odds fs : forall b bettor b' effs bs fss, bettor_wins b bettor fs = Some (b', effs) ->
  bw odds b -> queues_ok b -> cinv odds b bs -> (forall x, In x fss -> refs b x) ->
  cinv odds b' bs /\ (forall x, In x fss -> refs b' x).
Proof.
  induction fs as [|f r IH]; intros b bettor b' effs bs fss H W Q CI R; cbn [bettor_wins] in H; [inv H; split; assumption|].
  destruct (get_part b (f_idx f)) as [p|] eqn:Eg; [|discriminate].
  destruct (bettor_wins _ bettor r) as [[b2 e2]|] eqn:EB; [|discriminate]. inv H.
  pose proof (gp_idx _ _ _ Eg) as Hi. rewrite <- Hi in Eg.
  destruct (set_profit_keeps odds b p (p_profit p - f_pay f) Eg W Q) as [W1 Q1].
  destruct (set_profit_cov odds b p (p_profit p - f_pay f) bs fss Eg W CI R) as [C1 R1].
  eapply IH; eassumption.
Qed.
Lemma bettor_loses_cov odds fs : forall b b' bs fss, bettor_loses b fs = Some b' ->
  bw odds b -> queues_ok b -> cinv odds b bs -> (forall x, In x fss -> refs b x) ->
  cinv odds b' bs /\ (forall x, In x fss -> refs b' x).
Proof.
  induction fs as [|f r IH]; intros b b' bs fss H W Q CI R; cbn [bettor_loses] in H; [inv H; split; assumption|].
  destruct (get_part b (f_idx f)) as [p|] eqn:Eg; [|discriminate].
  pose proof (gp_idx _ _ _ Eg) as Hi. rewrite <- Hi in Eg.
  destruct (set_profit_keeps odds b p (p_profit p + f_stake f) Eg W Q) as [W1 Q1].
  destruct (set_profit_cov odds b p (p_profit p + f_stake f) bs fss Eg W CI R) as [C1 R1].
  eapply IH; eassumption.
Qed.

Lemma map_upd_same {A B} (g : A -> B) (f : A -> bool) (v : A) l :
  (forall y, In y l -> f y = true -> g y = g v) -> (exists y, In y l /\ f y = true) -> map g (upd f v l) = map g l.
Proof.
  intros H (y & Hy & Fy). apply upd_map_same; [apply existsb_exists; exists y; split; assumption|]. intros x Hx Fx. apply H; assumption.
Qed.

(* ---- settlement of participations: the list is replaced by one with the same signatures ---------------------------------------------------- *)
Lemma find_part_sig l l' i p : map psig l' = map psig l -> find (part_is i) l = Some p -> exists p', find (part_is i) l' = Some p' /\ psig p' = psig p.
Proof.
  revert l'. induction l as [|x r IH]; intros l' H Hf; [discriminate|]. destruct l' as [|y t]; [discriminate|].
  cbn [map] in H. pose proof (f_equal (hd (psig x)) H) as H1. pose proof (f_equal (@tl _) H) as H2. cbn [hd tl] in H1, H2.
  cbn [find] in *. unfold part_is in *.
  assert (E : p_idx y = p_idx x) by (unfold psig in H1; congruence). rewrite E.
  destruct (p_idx x =? i); [injection Hf as <-; exists y; split; [reflexivity|exact H1]|eapply IH; eassumption].
Qed.

Lemma psig_ssig l l' : map psig l' = map psig l -> map p_idx l' = map p_idx l.
Proof.
  intros H. replace (map p_idx l') with (map (fun t : Z*Z*Z*Z*Z*Z*Z*Z => fst (fst (fst (fst (fst (fst (fst t))))))) (map psig l')) by (rewrite map_map; reflexivity).
  rewrite H, map_map. reflexivity.
Qed.

Lemma cinv_with_parts odds b ps st bs : map psig ps = map psig (bk_parts b) -> cinv odds b bs -> cinv odds (with_parts b ps st) bs.
Proof.
  intros Hs CI q Hq. cbn [bk_parts with_parts book_upd] in Hq.
  destruct (map_eq_in psig _ _ q Hs Hq) as (q0 & Hq0 & E). destruct (CI q0 Hq0) as [X1 X2].
  assert (Ei : p_idx q = p_idx q0) by (unfold psig in E; congruence). rewrite Ei.
  split; [apply (pc_ext odds b); [reflexivity|reflexivity|]; apply (pc_sig odds b _ q0); [symmetry; exact E|exact X1]
         |apply (pt_ext odds b); [reflexivity|reflexivity|]; apply (pt_sig odds b _ q0); [symmetry; exact E|exact X2]].
Qed.
Lemma refs_with_parts b ps st fs : map psig ps = map psig (bk_parts b) -> refs b fs -> refs (with_parts b ps st) fs.
Proof.
  intros Hs R f Hf. destruct (R f Hf) as (q & X1 & X2). unfold get_part, findb in *. cbn [bk_parts with_parts book_upd].
  destruct (find_part_sig _ _ _ _ Hs X1) as (q' & Y1 & Y2). exists q'. split; [exact Y1|]. unfold psig in Y2. congruence.
Qed.

Lemma batch_parts_psig ps : forall st creator limit cnt alls c ps' effs,
  batch_parts ps st creator limit cnt = Some (alls, c, ps', effs) -> map psig ps' = map psig ps.
Proof.
  induction ps as [|p r IH]; intros st creator limit cnt alls c ps' effs H; cbn [batch_parts] in H; [inv H; reflexivity|].
  destruct (p_settled p).
  - destruct (limit <=? cnt); [inv H; reflexivity|].
    destruct (batch_parts r st creator limit cnt) as [[[[a2 c2] ps2] e2]|] eqn:EB; [|discriminate]. inv H. cbn [map]. f_equal. eapply IH; exact EB.
  - destruct (settle_participation p st creator) as [[p1 e1]|] eqn:ES; [|discriminate].
    assert (Hp1 : psig p1 = psig p) by (unfold settle_participation in ES; dmatch ES; inv ES; reflexivity).
    destruct (limit <=? cnt + 1); [inv H; cbn [map]; rewrite Hp1; reflexivity|].
    destruct (batch_parts r st creator limit (cnt + 1)) as [[[[a2 c2] ps2] e2]|] eqn:EB; [|discriminate]. inv H. cbn [map]. rewrite Hp1. f_equal. eapply IH; exact EB.
Qed.

(* ---- a deposit: what the new book reads ------------------------------------------------------------------------------------------------------- *)
Lemma init_participation_reads odds b mx owner amount fee b' idx effs :
  init_participation b mx owner amount fee = Some (b', idx, effs) -> NoDup odds -> bw odds b ->
  get_part b idx = None /\
  exists p, bk_parts b' = bk_parts b ++ [p] /\ psig p = (idx, owner, amount - fee, amount - fee, 0, -1, 0, 0) /\ p_fee p = fee /\
    (forall o i, i <> idx -> ge b' o i = ge b o i) /\
    (forall o, In o odds -> ge b' o idx = Some (new_expo idx o)) /\
    bk_hist b' = bk_hist b /\
    (forall i, i <> idx -> get_part b' i = get_part b i) /\ get_part b' idx = Some p.
Proof.
  unfold init_participation. intros H Hndo W.
  destruct (negb (bk_status b =? BK_ACTIVE)); [discriminate|].
  destruct (mx <=? bk_partcnt b); [discriminate|].
  destruct (get_part b (bk_partcnt b + 1)) eqn:EG; [discriminate|].
  injection H as <- <- _.
  set (idx := bk_partcnt b + 1) in *.
  set (p := {| p_idx := idx; p_owner := owner; p_liq := amount - fee; p_fee := fee; p_crl := amount - fee; p_enf := bk_oddscnt b; p_tba := 0;
               p_crtb := 0; p_maxloss := 0; p_crml := 0; p_crml_odds := -1; p_profit := 0; p_settled := false; p_returned := 0; p_reimb := 0 |}) in *.
  set (b1 := set_part b p) in *.
  destruct W as [W1 W2 W3 W4 W5 W6 W7 W8 W9 W10].
  assert (Hp1 : bk_parts b1 = bk_parts b ++ [p]) by (unfold b1, set_part; cbn [bk_parts book_upd]; apply upd_absent_app; exact EG).
  assert (Hnoexp : forall o, ge b o idx = None).
  { intros o. destruct (ge b o idx) as [e|] eqn:E; [|reflexivity]. destruct (ge_key _ _ _ _ E) as (_ & K2 & K3).
    destruct (W7 e K3) as [_ (q & X)]. rewrite K2, EG in X. discriminate. }
  change (fold_left _ (bk_queues b1) b1) with (fold_left (init_step idx) (bk_queues b1) b1).
  destruct (init_fold_spec idx (bk_queues b1) b1) as (A1 & A2 & A3 & A4 & A5 & A6 & A7 & A8).
  { change (bk_queues b1) with (bk_queues b). rewrite W9. exact Hndo. }
  { intros k Hk. split; [apply Hnoexp|exact Hk]. }
  set (b2 := fold_left (init_step idx) (bk_queues b1) b1) in *.
  change (bk_queues b1) with (bk_queues b) in *. rewrite W9 in A6.
  set (b3 := book_upd b2 (bk_status b2) idx (bk_queues b2) (bk_parts b2) (bk_expo b2) (bk_expo_ix b2) (bk_hist b2) (bk_pairs b2)).
  match goal with |- _ /\ exists q, bk_parts ?t = _ /\ _ => change t with b3 end.
  assert (Hge3 : forall o i, ge b3 o i = match ge b o i with Some e => Some e | None => if (i =? idx) && zmem o odds then Some (new_expo idx o) else None end).
  { intros o i. unfold ge, findb. change (bk_expo b3) with (bk_expo b2). rewrite A6. change (bk_expo b1) with (bk_expo b).
    destruct (find (expo_is o i) (bk_expo b)) as [e|] eqn:E; [apply find_app_l; exact E|]. rewrite (find_app_r_none _ _ _ E).
    destruct ((i =? idx) && zmem o odds) eqn:Ec.
    - apply andb_true_iff in Ec. destruct Ec as [E1 E2]. apply Z.eqb_eq in E1. subst i. apply find_new_expo. apply zmem_in. exact E2.
    - apply find_new_expo_other. apply andb_false_iff in Ec. destruct Ec as [Ec|Ec]; [left; apply Z.eqb_neq; exact Ec|right].
      intros Hin. assert (zmem o odds = true); [|congruence]. unfold zmem. apply existsb_exists. exists o. split; [exact Hin|apply Z.eqb_refl]. }
  assert (Hgp3 : forall i, get_part b3 i = if i =? idx then Some p else get_part b i).
  { intros i. unfold get_part, findb. change (bk_parts b3) with (bk_parts b2). rewrite A1, Hp1.
    destruct (i =? idx) eqn:E.
    - apply Z.eqb_eq in E. subst i. rewrite (find_app_r_none _ _ _ EG). cbn [find]. unfold part_is. cbn [p_idx p]. rewrite Z.eqb_refl. reflexivity.
    - destruct (find (part_is i) (bk_parts b)) as [q|] eqn:Ef; [apply find_app_l; exact Ef|]. rewrite (find_app_r_none _ _ _ Ef).
      cbn [find]. unfold part_is. cbn [p_idx p]. rewrite Z.eqb_sym, E. reflexivity. }
  split; [exact EG|]. exists p. split; [change (bk_parts b3) with (bk_parts b2); rewrite A1; exact Hp1|]. split; [reflexivity|]. split; [reflexivity|].
  split; [|split; [|split; [|split]]].
  - intros o i Hne. rewrite Hge3. destruct (ge b o i); [reflexivity|]. apply Z.eqb_neq in Hne. rewrite Hne. reflexivity.
  - intros o Ho. rewrite Hge3, Hnoexp, Z.eqb_refl. assert (zmem o odds = true) as ->; [|reflexivity].
    unfold zmem. apply existsb_exists. exists o. split; [exact Ho|apply Z.eqb_refl].
  - change (bk_hist b3) with (bk_hist b2). rewrite A2. reflexivity.
  - intros i Hne. rewrite Hgp3. apply Z.eqb_neq in Hne. rewrite Hne. reflexivity.
  - rewrite Hgp3, Z.eqb_refl. reflexivity.
Qed.

Lemma refs_none_zero b i fs : refs b fs -> get_part b i = None -> stk i fs = 0 /\ pyo i fs = 0.
Proof.
  intros R Hn. unfold stk, pyo, parts_i. assert (E : filter (fun f => f_idx f =? i) fs = []).
  { induction fs as [|f r IH]; [reflexivity|]. cbn [filter]. destruct (f_idx f =? i) eqn:Ef.
    - apply Z.eqb_eq in Ef. destruct (R f (or_introl eq_refl)) as (q & X & _). rewrite Ef, Hn in X. discriminate.
    - apply IH. intros g Hg. apply R. right. exact Hg. }
  rewrite E. split; reflexivity.
Qed.

Lemma sums_none_zero b i bs : (forall bt, In bt bs -> refs b (snd bt)) -> get_part b i = None ->
  stake_i i bs = 0 /\ (forall o, pay_io i o bs = 0 /\ stake_io i o bs = 0).
Proof.
  intros R Hn. induction bs as [|bt r IH]; [unfold stake_i, pay_io, stake_io; cbn; repeat split|].
  destruct (refs_none_zero b i (snd bt) (R bt (or_introl eq_refl)) Hn) as [Z1 Z2].
  destruct IH as [I1 I2]; [intros x Hx; apply R; right; exact Hx|].
  split; [unfold stake_i in *; cbn [map zsum]; rewrite Z1, I1; reflexivity|].
  intros o. destruct (I2 o) as [J1 J2]. unfold pay_io, stake_io in *. cbn [map zsum]. rewrite J1, J2, Z1, Z2. destruct (fst bt =? o); split; reflexivity.
Qed.

Lemma deposit_cov odds b mx owner amount fee b' idx effs bs :
  init_participation b mx owner amount fee = Some (b', idx, effs) -> NoDup odds -> (forall o, In o odds -> 0 <= o) -> bw odds b ->
  0 <= amount - fee -> (forall bt, In bt bs -> refs b (snd bt)) -> cinv odds b bs ->
  cinv odds b' bs /\ (forall bt, In bt bs -> refs b' (snd bt)).
Proof.
  intros H Hnd Hpos W Hliq R CI.
  destruct (init_participation_reads odds _ _ _ _ _ _ _ _ H Hnd W) as (Hnone & p & Hparts & Hsig & _ & Hge & Hgei & Hh & Hgp & Hgpi).
  unfold psig in Hsig. injection Hsig as S1 S2 S3 S4 S5 S6 S7 S8.
  destruct (sums_none_zero b idx bs R Hnone) as [Z1 Z2].
  assert (Hhist0 : hist_i b' idx = []).
  { unfold hist_i. rewrite Hh. destruct (filter _ (bk_hist b)) as [|h r] eqn:E; [reflexivity|]. exfalso.
    assert (Hin : In h (filter (fun h => e_part h =? idx) (bk_hist b))) by (rewrite E; left; reflexivity).
    apply filter_In in Hin. destruct Hin as [Hin Hp]. apply Z.eqb_eq in Hp. destruct (bw_hist _ _ W h Hin) as (q & X). rewrite Hp, Hnone in X. discriminate. }
  split.
  - intros q Hq. rewrite Hparts in Hq. apply in_app_or in Hq. destruct Hq as [Hq|[<-|[]]].
    + assert (Hne : p_idx q <> idx). { intros E. pose proof (gp_of_in _ _ (bw_nodup _ _ W) Hq) as G. rewrite E, Hnone in G. discriminate. }
      destruct (CI q Hq) as [X1 X2].
      assert (Hg : forall o, ge b' o (p_idx q) = ge b o (p_idx q)) by (intros o; apply Hge; exact Hne).
      assert (Hhh : hist_i b' (p_idx q) = hist_i b (p_idx q)) by (unfold hist_i; rewrite Hh; reflexivity).
      split; [apply (pc_ext odds b)|apply (pt_ext odds b)]; assumption.
    + rewrite S1.
      assert (Hv : forall o, In o odds -> eexp b' idx o = 0 /\ ebet b' idx o = 0).
      { intros o Ho. unfold eexp, ebet. rewrite (Hgei o Ho). cbn. split; reflexivity. }
      assert (Hl : forall o, In o odds -> loss b' idx p o = 0) by (intros o Ho; unfold loss; destruct (Hv o Ho) as [-> ->]; rewrite S7; lia).
      split; constructor.
      * intros o Ho. destruct (Hv o Ho) as [-> ->]. lia.
      * intros o Ho. rewrite (Hl o Ho), S5. lia.
      * rewrite S6. intros Ho. specialize (Hpos _ Ho). lia.
      * intros o Ho. rewrite (Hl o Ho), S4. exact Hliq.
      * intros o Ho. rewrite Hhist0, S3, S4. unfold past, hexp, hbet_all, hbet. cbn. lia.
      * rewrite S8, Z1. reflexivity.
      * intros o Ho. destruct (Hv o Ho) as [-> _]. rewrite Hhist0. destruct (Z2 o) as [-> _]. reflexivity.
      * intros o Ho. destruct (Hv o Ho) as [_ ->]. rewrite Hhist0. destruct (Z2 o) as [_ ->]. reflexivity.
  - intros bt Hbt f Hf. destruct (R bt Hbt f Hf) as (q & X1 & X2). exists q. split; [|exact X2].
    rewrite Hgp; [exact X1|]. intros E. rewrite E, Hnone in X1. discriminate.
Qed.

(* ---- a withdrawal ---------------------------------------------------------------------------------------------------------------------------------- *)
Lemma withdraw_cov odds b depositor idx mode wtotal amount amt b' effs bs :
  calc_withdrawal b depositor idx mode wtotal amount = Some amt ->
  withdraw_participation b idx amt = Some (b', effs) -> bw odds b ->
  (forall bt, In bt bs -> refs b (snd bt)) -> cinv odds b bs ->
  cinv odds b' bs /\ (forall bt, In bt bs -> refs b' (snd bt)).
Proof.
  intros HC H W R CI.
  destruct (calc_withdrawal_spec _ _ _ _ _ _ _ HC) as (p & Hg & _ & _ & Hle & _).
  unfold withdraw_participation in H. rewrite Hg in H.
  pose proof (gp_idx _ _ _ Hg) as Hi.
  set (p' := part_upd p (p_liq p - amt) (p_crl p - amt) (p_enf p) (p_tba p) (p_crtb p) (p_maxloss p) (p_crml p) (p_crml_odds p) (p_profit p)) in *.
  assert (Hin : In p (bk_parts b)) by (apply get_part_in in Hg; tauto).
  assert (Hnd' : NoDup (map p_idx (bk_parts (set_part b p')))).
  { rewrite (pidx_set_part_existing _ _ p); [apply (bw_nodup _ _ W)|change (p_idx p') with (p_idx p); rewrite Hi; exact Hg]. }
  assert (C1 : cinv odds (set_part b p') bs).
  { intros q Hq. destruct (Z.eq_dec (p_idx q) idx) as [E|Hne].
    - assert (q = p'). { pose proof (gp_of_in _ _ Hnd' Hq) as G. assert (Ei : p_idx q = p_idx p') by (cbn; congruence).
        rewrite Ei, gp_set_part_same in G. congruence. }
      subst q. destruct (CI p Hin) as [[X1 X2 X3 X4 X5] [T1 T2 T3]]. change (p_idx p') with (p_idx p).
      split; constructor; try assumption.
      + intros o Ho. change (loss (set_part b p') (p_idx p) p' o) with (loss b (p_idx p) p o). cbn [p_crl p' part_upd].
        pose proof (X2 o Ho). unfold zmax0 in Hle. lia.
      + intros o Ho. change (hist_i (set_part b p') (p_idx p)) with (hist_i b (p_idx p)). cbn [p_liq p_crl p' part_upd].
        pose proof (X5 o Ho). lia.
    - apply in_set_part in Hq. destruct Hq as [->|Hq]; [exfalso; apply Hne; exact Hi|]. destruct (CI q Hq) as [X1 X2].
      split; [apply (pc_ext odds b); [reflexivity|reflexivity|exact X1]|apply (pt_ext odds b); [reflexivity|reflexivity|exact X2]]. }
  assert (R1 : forall bt, In bt bs -> refs (set_part b p') (snd bt)).
  { intros bt Hbt. eapply refs_set_part_sig; [change (p_idx p') with (p_idx p); rewrite Hi; exact Hg|reflexivity|apply R; exact Hbt]. }
  destruct (0 <? p_crl p'); [injection H as <- _; split; assumption|].
  destruct (remove_from_queues _ idx) as [qs|]; [|discriminate]. injection H as <- _.
  split; [intros q Hq; destruct (C1 q Hq) as [X1 X2]; split; [apply (pc_ext odds (set_part b p')); [reflexivity|reflexivity|exact X1]
         |apply (pt_ext odds (set_part b p')); [reflexivity|reflexivity|exact X2]]|exact R1].
Qed.

(* ---- a wager: the backing parts name existing participations and their owners ------------------------------------------------------------------ *)
Definition keeps_owners (b b' : book) : Prop :=
  forall i q, get_part b i = Some q -> exists q', get_part b' i = Some q' /\ p_owner q' = p_owner q.

Lemma refs_keep b b' fs : keeps_owners b b' -> refs b fs -> refs b' fs.
Proof. intros K R f Hf. destruct (R f Hf) as (q & X1 & X2). destruct (K _ _ X1) as (q' & Y1 & Y2). exists q'. split; [exact Y1|congruence]. Qed.

Section WagerRefs.
Variable odds : list Z.
Hypothesis Hndo : NoDup odds.
Hypothesis Hsmall : zlen odds < U64.
Variable A : wargs.
Hypothesis Huids : wa_uids A = odds.
Hypothesis Hoc : wa_oddscnt A = zlen odds.
Hypothesis Hsel : In (wa_sel A) odds.

Lemma wager_iter_refs B idx rest s s' :
  wager_iter A idx s = Some s' -> linv odds A B (idx :: rest) s ->
  keeps_owners (ws_book s) (ws_book s') /\ (refs (ws_book s) (ws_parts s) -> refs (ws_book s') (ws_parts s')).
Proof.
  intros H L.
  destruct (wager_iter_decomp odds Hndo Hsmall A Huids Hsel B idx rest s s' H L)
    as (p0 & pe0 & so & setf & news & p1 & pe1 & p3 & pe3 & bk2 & st & pay & Hgp & Hge0 & HSt & Epe1 & Etba & Eown & Hst & Hpay & Hcase & Hparts & W2 & Hgp3 & Hbook).
  assert (Ho3 : p_owner p3 = p_owner p0).
  { dS HSt. rewrite S_p3. destruct setf; cbn; exact Eown. }
  assert (K2 : keeps_owners (ws_book s) bk2).
  { intros i q Hq. destruct (Z.eq_dec i idx) as [->|Hne].
    - exists p3. split; [exact Hgp3|]. rewrite Hgp in Hq. injection Hq as <-. exact Ho3.
    - exists q. dS HSt. rewrite S_gp_other by exact Hne. split; [exact Hq|reflexivity]. }
  assert (K : keeps_owners (ws_book s) (ws_book s')).
  { destruct Hbook as [->|(_ & Rf)]; [exact K2|]. intros i q Hq. destruct (K2 i q Hq) as (q2 & X1 & X2).
    destruct (Z.eq_dec i idx) as [->|Hne].
    - eexists. split; [apply (rf_gp_same _ _ _ _ _ Rf)|]. rewrite Hgp3 in X1. injection X1 as <-. cbn. exact X2.
    - exists q2. rewrite (rf_gp_other _ _ _ _ _ Rf) by exact Hne. split; assumption. }
  split; [exact K|]. intros R f Hf. rewrite Hparts in Hf. apply in_app_or in Hf. destruct Hf as [Hf|Hf].
  - apply (refs_keep _ _ _ K R f Hf).
  - destruct so as [[a b]|]; cbn [new_part] in Hf; [|destruct Hf]. destruct Hf as [<-|[]]. cbn [f_idx f_owner].
    rewrite (gp_idx _ _ _ Hgp). destruct (K idx p0 Hgp) as (q' & Y1 & Y2). exists q'. split; assumption.
Qed.

Lemma wager_loop_refs B fuel : forall q s s', wager_loop fuel A q s = Some s' -> linv odds A B q s ->
  keeps_owners (ws_book s) (ws_book s') /\ (refs (ws_book s) (ws_parts s) -> refs (ws_book s') (ws_parts s')).
Proof.
  assert (Hrefl : forall s, keeps_owners (ws_book s) (ws_book s) /\ (refs (ws_book s) (ws_parts s) -> refs (ws_book s) (ws_parts s))).
  { intros s. split; [intros i q Hq; exists q; split; [exact Hq|reflexivity]|trivial]. }
  induction fuel as [|f IH]; intros q s s' H L; destruct q as [|idx rest]; cbn [wager_loop] in H.
  - injection H as <-. apply Hrefl.
  - discriminate.
  - injection H as <-. apply Hrefl.
  - destruct (wager_iter A idx s) as [s1|] eqn:E; [|discriminate].
    destruct (wager_iter_refs B idx rest s s1 E L) as [K1 R1].
    pose proof (wager_iter_linv odds Hndo Hsmall A Huids Hoc Hsel B idx rest s s1 E L) as L1.
    destruct (wager_setf A idx s) eqn:Es.
    + destruct ((ws_profit s1 <? PREC) || _); [injection H as <-; split; assumption|].
      destruct (IH _ _ _ H L1) as [K2 R2]. split.
      * intros i x Hx. destruct (K1 i x Hx) as (y & Y1 & Y2). destruct (K2 i y Y1) as (z & Z1 & Z2). exists z. split; [exact Z1|congruence].
      * intros R. apply R2, R1, R.
    + pose proof (last_fill_ends A _ _ _ E Es (wb_profit _ _ (li_bound _ _ _ _ _ L))) as Hlt.
      apply Z.ltb_lt in Hlt. rewrite Hlt in H. cbn [orb] in H. injection H as <-. split; assumption.
Qed.

Theorem process_wager_refs b betamt profit bettor fee b' parts effs :
  process_wager b A betamt profit bettor fee = Some (b', parts, effs) ->
  bw odds b -> queues_ok b -> 0 <= betamt -> 0 <= profit -> keeps_owners b b' /\ refs b' parts.
Proof.
  unfold process_wager. intros H W Q Hb Hp.
  destruct (get_queue b (wa_sel A)) as [q|] eqn:Eq; [|discriminate].
  destruct (init_fmap b (wa_sel A)) as [fm|] eqn:EI; [|discriminate].
  match type of H with context [wager_loop ?f ?a ?qq ?s0] => destruct (wager_loop f a qq s0) as [s|] eqn:EL end; [|discriminate].
  destruct (PREC <=? ws_profit s); [discriminate|].
  destruct (ws_parts s) as [|x r] eqn:EP; [discriminate|]. injection H as <- <- _.
  destruct (Q _ _ Eq) as [Hnd Hel].
  destruct (wager_loop_refs betamt _ _ _ _ EL) as [K R].
  { constructor; cbn [ws_book ws_fmap ws_uq].
    - exact W.
    - intros o ql _ Hq. exact (Q o ql Hq).
    - exists []. rewrite app_nil_r. split; [reflexivity|]. split; [exact Hnd|intros i []].
    - intros i Hi. destruct (Hel i Hi) as (p & e & X1 & X2 & X3). split; [exists p, e; tauto|]. eapply init_fmap_agrees; eassumption.
    - constructor; cbn; try lia. constructor. }
  cbn [ws_book ws_parts] in K, R. split; [exact K|]. rewrite EP in R. apply R. intros f [].
Qed.
End WagerRefs.

(* ---- every local transition ---------------------------------------------------------------------------------------------------------------------- *)
Lemma cinv_same_reads odds b b' bs : bk_parts b' = bk_parts b -> (forall o i, ge b' o i = ge b o i) -> bk_hist b' = bk_hist b ->
  cinv odds b bs -> cinv odds b' bs.
Proof.
  intros Hp Hg Hh CI q Hq. rewrite Hp in Hq. destruct (CI q Hq) as [X1 X2].
  split; [apply (pc_ext odds b)|apply (pt_ext odds b)]; try assumption; try (intros o; apply Hg); unfold hist_i; rewrite Hh; reflexivity.
Qed.

Lemma mult_ok_bounds m : mult_ok m = true -> 0 < m <= PREC.
Proof. unfold mult_ok. intros H. apply andb_true_iff in H. destruct H as [H1 H2]. apply Z.ltb_lt in H1. apply Z.leb_le in H2. lia. Qed.

Theorem mcov_step P x x' : pr_bet_fee P <= pr_bet_min P -> mcov x -> mtrans P x x' -> mcov x'.
Proof.
  intros HP [MW MN MO MR MC] T.
  pose proof (mwf_step P x x' HP MW T) as MW'.
  destruct MW as (Hnd & Hsm & W & Q).
  destruct T.
  - constructor; assumption.
  - constructor; assumption.
  - (* deposit *)
    destruct (deposit_cov (k_odds (ms_mkt x)) _ _ _ _ _ _ _ _ (bets_of x) H3 Hnd MN W ltac:(lia) MR MC) as [C R].
    constructor; assumption.
  - (* withdrawal *)
    destruct (withdraw_cov (k_odds (ms_mkt x)) _ _ _ _ _ _ _ _ _ (bets_of x) H1 H3 W MR MC) as [C R].
    constructor; assumption.
  - (* wager *)
    assert (Hpr : 0 <= profit) by (eapply payout_profit_nonneg; [eassumption|lia]).
    assert (Hsel : In selodds (k_odds (ms_mkt x))) by (apply zmem_in; assumption).
    pose proof (mult_ok_bounds _ H4) as Hm.
    match goal with E : process_wager _ ?A _ _ _ _ = Some _ |- _ =>
      pose proof (process_wager_cov (k_odds (ms_mkt x)) Hnd Hsm A eq_refl (bw_oddscnt _ _ W) Hsel Hm _ _ _ _ _ _ _ _ (bets_of x) E W Q ltac:(lia) Hpr MC) as C;
      destruct (process_wager_refs (k_odds (ms_mkt x)) Hnd Hsm A eq_refl (bw_oddscnt _ _ W) Hsel _ _ _ _ _ _ _ _ E W Q ltac:(lia) Hpr) as [K R] end.
    assert (Eb : bets_of (mstate_upd x (ms_mkt x) bk
                   (ms_bets x ++ [{| b_id := betid; b_uid := betuid; b_creator := signer; b_mkt := selmkt; b_odds := selodds; b_oddsval := oddsval;
                                     b_amount := zsum (map f_stake parts); b_fee := pr_bet_fee P; b_status := BS_PLACED; b_result := BR_PENDING;
                                     b_mult := mult; b_created := now; b_sheight := 0; b_parts := parts |}])
                   (ms_pending x ++ [betid]) (ms_deps x) (ms_wds x)) = bets_of x ++ [(selodds, parts)]).
    { unfold bets_of. cbn [ms_bets mstate_upd]. rewrite map_app. reflexivity. }
    constructor; cbn [ms_mkt ms_book mstate_upd] in *.
    + exact MW'.
    + exact MN.
    + rewrite Eb. intros bt Hbt. apply in_app_or in Hbt. destruct Hbt as [Hbt|[<-|[]]]; [apply MO; exact Hbt|exact Hsel].
    + rewrite Eb. intros bt Hbt. apply in_app_or in Hbt. destruct Hbt as [Hbt|[<-|[]]]; [eapply refs_keep; [exact K|apply MR; exact Hbt]|exact R].
    + rewrite Eb. exact C.
  - (* settlement of one bet *)
    unfold settle_bet in H1. cbv zeta in H1.
    destruct (findb (fun b => b_id b =? id) (ms_bets x)) as [b|] eqn:EF; [|discriminate].
    destruct (b_status b =? BS_SETTLED); [discriminate|].
    assert (Eb : forall st r h bk pend, bets_of (mstate_upd x (ms_mkt x) bk (upd (fun c => b_id c =? id) (bet_with b st r h) (ms_bets x)) pend (ms_deps x) (ms_wds x)) = bets_of x).
    { intros. unfold bets_of. cbn [ms_bets mstate_upd]. apply (upd_map_first _ _ _ b); [exact EF|reflexivity]. }
    destruct ((k_status (ms_mkt x) =? MK_ABORTED) || (k_status (ms_mkt x) =? MK_CANCELED)).
    + destruct (payout_profit _ _); [|discriminate]. injection H1 as <- _.
      constructor; cbn [ms_mkt ms_book mstate_upd] in *; rewrite ?Eb; assumption.
    + destruct (negb (k_status (ms_mkt x) =? MK_DECLARED)); [discriminate|].
      destruct (zmem (b_odds b) (k_winners (ms_mkt x))).
      * destruct (bettor_wins _ _ _) as [[bk effs0]|] eqn:EB; [|discriminate]. injection H1 as <- _.
        destruct (bettor_wins_cov _ _ _ _ _ _ (bets_of x) (map snd (bets_of x)) EB W Q MC) as [C R].
        { intros fs Hfs. apply in_map_iff in Hfs. destruct Hfs as (bt & <- & Hbt). apply MR. exact Hbt. }
        constructor; cbn [ms_mkt ms_book mstate_upd] in *; rewrite ?Eb; try assumption.
        intros bt Hbt. apply R. apply in_map. exact Hbt.
      * destruct (bettor_loses _ _) as [bk|] eqn:EB; [|discriminate]. injection H1 as <- _.
        destruct (bettor_loses_cov _ _ _ _ (bets_of x) (map snd (bets_of x)) EB W Q MC) as [C R].
        { intros fs Hfs. apply in_map_iff in Hfs. destruct Hfs as (bt & <- & Hbt). apply MR. exact Hbt. }
        constructor; cbn [ms_mkt ms_book mstate_upd] in *; rewrite ?Eb; try assumption.
        intros bt Hbt. apply R. apply in_map. exact Hbt.
  - constructor; cbn [ms_mkt ms_book with_book mstate_upd] in *; try assumption.
    eapply cinv_same_reads; [| | |exact MC]; reflexivity.
  - pose proof (batch_parts_psig _ _ _ _ _ _ _ _ _ H0) as Hs.
    constructor; cbn [ms_mkt ms_book with_book mstate_upd] in *; try assumption.
    + intros bt Hbt. apply (refs_with_parts (ms_book x) ps _ (snd bt) Hs). apply MR. exact Hbt.
    + apply (cinv_with_parts _ (ms_book x) ps _ _ Hs MC).
Qed.

Lemma mcov_fresh mk : market_new mk -> mcov (fresh_ms mk).
Proof.
  intros M. constructor.
  - apply mwf_fresh. exact M.
  - cbn. intros o Ho. destruct M as [_ _ M3 _ _ _ _]. rewrite forallb_forall in M3. apply Z.leb_le. apply M3. exact Ho.
  - intros bt [].
  - intros bt [].
  - intros q [].
Qed.

Theorem cover_over_histories P bk supply vault MP t0 sw sd ops :
  pr_bet_fee P <= pr_bet_min P ->
  bget bk POOL = 0 -> bget bk HOUSEFEE = 0 -> bget bk BETFEE = 0 -> Forall valid_op ops ->
  forall m x, get_ms (run (init bk supply P vault MP t0 sw sd) ops) m = Some x -> mcov x.
Proof.
  intros HP. apply (local_invariant P mcov).
  - exact mcov_fresh.
  - intros x x' Hx T. exact (mcov_step P x x' HP Hx T).
Qed.

(* ---- the statements in terms of the bets ------------------------------------------------------------------------------------------------------------ *)
Lemma stake_decomp odds i bs : NoDup odds -> (forall bt, In bt bs -> In (fst bt) odds) ->
  stake_i i bs = sumo odds (fun o => stake_io i o bs).
Proof.
  intros Hnd. induction bs as [|bt r IH]; intros Hin.
  - unfold stake_i, stake_io. cbn. symmetry. rewrite (sumo_const odds _ 0); [lia|reflexivity].
  - unfold stake_i, stake_io in *. cbn [map zsum]. rewrite IH by (intros x Hx; apply Hin; right; exact Hx).
    symmetry. rewrite Z.add_comm.
    apply (sumo_point odds _ _ (fst bt) (stk i (snd bt)) Hnd (Hin bt (or_introl eq_refl))).
    intros o Ho. rewrite (Z.eqb_sym o). destruct (fst bt =? o); lia.
Qed.

(* C02: what participation p owes on outcome o in the worst case never exceeds the liquidity it left in the book *)
Theorem coverage_of_mcov x p o : mcov x -> In p (bk_parts (ms_book x)) -> In o (k_odds (ms_mkt x)) ->
  pay_io (p_idx p) o (bets_of x) - (stake_i (p_idx p) (bets_of x) - stake_io (p_idx p) o (bets_of x)) <= p_liq p.
Proof.
  intros [(Hnd & Hsm & W & Q) MN MO MR MC] Hp Ho.
  set (odds := k_odds (ms_mkt x)) in *. set (b := ms_book x) in *. set (i := p_idx p).
  destruct (MC p Hp) as [[C1 C2 C3 C4 C5] [T1 T2 T3]]. fold i in C1, C2, C3, C4, C5, T1, T2, T3.
  pose proof (bw_parts _ _ W p Hp) as PW. fold i in PW.
  rewrite <- (T2 o Ho).
  rewrite (stake_decomp odds i (bets_of x) Hnd MO).
  rewrite (sumo_ext odds (fun o' => stake_io i o' (bets_of x)) (fun o' => ebet b i o' + hbet (hist_i b i) o')) by (intros o' Ho'; symmetry; apply T3; exact Ho').
  assert (Hsplit : sumo odds (fun o' => ebet b i o' + hbet (hist_i b i) o') = p_crtb p + hbet_all (hist_i b i)).
  { rewrite (pw_crtb _ _ _ _ PW). unfold hbet_all. rewrite (sum_partition e_bet odds (hist_i b i) Hnd).
    - unfold sumo. clear. induction odds as [|y r IH]; cbn [map zsum]; [lia|]. unfold hbet at 1. lia.
    - intros h Hh. destruct (pw_round _ _ _ _ PW) as (r & _ & _ & R3). apply (R3 h Hh). }
  rewrite Hsplit, <- (T3 o Ho).
  pose proof (C4 o Ho) as X1. pose proof (C5 o Ho) as X2. unfold loss in X1. unfold past in X2. lia.
Qed.

Theorem coverage_over_histories P bk supply vault MP t0 sw sd ops :
  pr_bet_fee P <= pr_bet_min P ->
  bget bk POOL = 0 -> bget bk HOUSEFEE = 0 -> bget bk BETFEE = 0 -> Forall valid_op ops ->
  forall m x p o, get_ms (run (init bk supply P vault MP t0 sw sd) ops) m = Some x ->
  In p (bk_parts (ms_book x)) -> In o (k_odds (ms_mkt x)) ->
  pay_io (p_idx p) o (bets_of x) - (stake_i (p_idx p) (bets_of x) - stake_io (p_idx p) o (bets_of x)) <= p_liq p.
Proof.
  intros HP B1 B2 B3 Hv m x p o Hg Hp Ho. apply coverage_of_mcov; try assumption.
  eapply cover_over_histories; eassumption.
Qed.

(* C10: the book's totals equal the sums over the backing parts of the bets, and every backing part names an existing participation and
   its owner *)
Theorem totals_over_histories P bk supply vault MP t0 sw sd ops :
  pr_bet_fee P <= pr_bet_min P ->
  bget bk POOL = 0 -> bget bk HOUSEFEE = 0 -> bget bk BETFEE = 0 -> Forall valid_op ops ->
  forall m x, get_ms (run (init bk supply P vault MP t0 sw sd) ops) m = Some x ->
  (forall p, In p (bk_parts (ms_book x)) ->
     p_tba p = stake_i (p_idx p) (bets_of x) /\
     forall o, In o (k_odds (ms_mkt x)) ->
       eexp (ms_book x) (p_idx p) o + hexp (hist_i (ms_book x) (p_idx p)) o = pay_io (p_idx p) o (bets_of x) /\
       ebet (ms_book x) (p_idx p) o + hbet (hist_i (ms_book x) (p_idx p)) o = stake_io (p_idx p) o (bets_of x)) /\
  (forall bt f, In bt (ms_bets x) -> In f (b_parts bt) ->
     In (b_odds bt) (k_odds (ms_mkt x)) /\ exists p, get_part (ms_book x) (f_idx f) = Some p /\ p_owner p = f_owner f).
Proof.
  intros HP B1 B2 B3 Hv m x Hg.
  destruct (cover_over_histories P bk supply vault MP t0 sw sd ops HP B1 B2 B3 Hv m x Hg) as [_ _ MO MR MC].
  split.
  - intros p Hp. destruct (MC p Hp) as [_ [T1 T2 T3]]. split; [exact T1|]. intros o Ho. split; [apply T2|apply T3]; exact Ho.
  - intros bt f Hbt Hf. assert (Hin : In (b_odds bt, b_parts bt) (bets_of x)) by (unfold bets_of; apply in_map_iff; exists bt; split; [reflexivity|exact Hbt]).
    split; [apply (MO _ Hin)|apply (MR _ Hin f Hf)].
Qed.

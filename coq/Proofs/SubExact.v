(* Proofs/SubExact.v — C11, the "exactly equal" clause, PARTIAL: where no tokens are sent to a subaccount directly, the bank balance of every
   registered subaccount EQUALS deposited - withdrawn - spent - lost (not only covers it, which is C11_ledger over all histories).
   Proved here: exactness is kept by every settlement effect list whose plain payments go to ordinary accounts (the payment-plus-hook groups of
   the order book: win, loss, refund, fee refund), by the settlement of a participation for a market created by an ordinary account, and by
   top-ups.  NOT proved (so the clause stays per-run over whole histories): the lift over all handlers, which needs the additional invariant
   that market and bet creators are ordinary accounts and the exact versions of the house deposit / withdrawal and wager cores. *)
From Coq Require Import ZArith Bool List Lia.
From Sge Require Import Lib.Dec Model.Types Model.Orderbook Model.Mint Model.Chain Proofs.Custody Proofs.SubInv Proofs.SubHist.
Import ListNotations.
Open Scope Z_scope.

Definition exact (bk : bank) (subs : list subacc) : Prop :=
  ledger_ok bk subs /\ forall x, In x subs -> bget bk (sub_addr x) = sub_available x.

Inductive balanced_x : list effect -> Prop :=
| bx_nil : balanced_x []
| bx_pay f t a r : f < SUBBASE -> t < SUBBASE -> balanced_x r -> balanced_x (Pay f t a :: r)
| bx_win f a liq profit r : f < SUBBASE -> balanced_x r -> balanced_x (Pay f a (liq + profit) :: HookWin a liq profit :: r)
| bx_loss f a liq lost r : f < SUBBASE -> balanced_x r -> balanced_x (Pay f a (liq - lost) :: HookLoss a liq lost :: r)
| bx_refund f a amt r : f < SUBBASE -> balanced_x r -> balanced_x (Pay f a amt :: HookRefund a amt :: r)
| bx_feerefund f a fee r : f < SUBBASE -> balanced_x r -> balanced_x (Pay f a fee :: HookFeeRefund a fee :: r).

Lemma sub_addr_ge bk subs x : ledger_ok bk subs -> In x subs -> SUBBASE <= sub_addr x.
Proof. intros L Hin. destruct (lo_each _ _ L x Hin) as (A & _). unfold sub_addr. lia. Qed.

Lemma sub_by_addr_none subs a : sub_by_addr subs a = None -> forall x, In x subs -> sub_addr x <> a.
Proof.
  unfold sub_by_addr, findb. intros H x Hin E. pose proof (find_none _ _ H x Hin) as Hn. cbv beta in Hn. rewrite E, Z.eqb_refl in Hn. discriminate Hn.
Qed.

(* a plain payment between ordinary / module accounts does not touch any subaccount address *)
Lemma exact_pay bk subs f t a bk' : exact bk subs -> f < SUBBASE -> t < SUBBASE -> pay bk f t a = Some bk' -> exact bk' subs.
Proof.
  intros [L E] Hf Ht H. split; [exact (ledger_pay _ _ _ _ _ _ L Hf H)|].
  intros x Hin. pose proof (sub_addr_ge _ _ _ L Hin) as Hge. rewrite (pay_bget _ _ _ _ _ (sub_addr x) H).
  destruct (t =? sub_addr x) eqn:E1; [apply Z.eqb_eq in E1; lia|]. destruct (f =? sub_addr x) eqn:E2; [apply Z.eqb_eq in E2; lia|].
  rewrite (E x Hin). lia.
Qed.

(* a payment of rel - lost + fwd to the address a followed by the hook that releases rel, records lost and forwards fwd to the owner *)
Lemma group_step_x bk subs f a v (g : subacc -> option subacc) fwd bk2 subs2 rel lost :
  exact bk subs -> f < SUBBASE ->
  (forall x x', g x = Some x' -> sub_nonneg x -> sub_nonneg x' /\ sa_id x' = sa_id x /\ sa_owner x' = sa_owner x /\
                                 sub_available x' = sub_available x + rel - lost) ->
  v = rel - lost + fwd -> 0 <= fwd ->
  (match pay bk f a v with Some b1 => hook_sub b1 subs a g fwd | None => None end) = Some (bk2, subs2) ->
  exact bk2 subs2.
Proof.
  intros [L E] Hf Hg Hv Hfwd H. split; [eapply group_step; eassumption|].
  destruct (pay bk f a v) as [b1|] eqn:EP; [|discriminate].
  assert (Hb1 : forall y, In y subs -> bget b1 (sub_addr y) = bget bk (sub_addr y) + (if a =? sub_addr y then v else 0)).
  { intros y Hy. pose proof (sub_addr_ge _ _ _ L Hy). rewrite (pay_bget _ _ _ _ _ (sub_addr y) EP).
    destruct (f =? sub_addr y) eqn:E2; [apply Z.eqb_eq in E2; lia|]. lia. }
  unfold hook_sub in H. destruct (sub_by_addr subs a) as [x|] eqn:EA.
  - destruct (sub_by_addr_spec _ _ _ EA) as [Hin Hadr].
    destruct (g x) as [x'|] eqn:EG; [|discriminate].
    destruct (lo_each _ _ L x Hin) as (I1 & I2 & I3 & I4). destruct (Hg x x' EG I3) as (N1 & N2 & N3 & N4).
    assert (Ea : sub_addr x' = a) by (unfold sub_addr in *; lia).
    assert (Hother : forall y, In y subs -> sa_id y <> sa_id x' -> sub_addr y <> a).
    { intros y Hy Hne Eq. apply Hne. rewrite N2. apply sub_addr_inj. congruence. }
    destruct (fwd =? 0) eqn:E0.
    + apply Z.eqb_eq in E0. injection H as <- <-. intros y Hy.
      destruct (in_set_sub subs x' y (lo_ids _ _ L) Hy) as [->|[Hy1 Hy2]].
      * rewrite Ea. rewrite <- Hadr. rewrite (Hb1 x Hin), Hadr, Z.eqb_refl, N4. rewrite <- Hadr, (E x Hin). lia.
      * rewrite (Hb1 y Hy1). destruct (a =? sub_addr y) eqn:Eq; [apply Z.eqb_eq in Eq; exfalso; exact (Hother y Hy1 Hy2 (eq_sym Eq))|].
        rewrite (E y Hy1). lia.
    + destruct (pay b1 a (sa_owner x) fwd) as [b2|] eqn:EP2; [|discriminate]. injection H as <- <-. intros y Hy.
      assert (Hown : sa_owner x < SUBBASE) by (destruct I2; lia).
      destruct (in_set_sub subs x' y (lo_ids _ _ L) Hy) as [->|[Hy1 Hy2]].
      * rewrite Ea. rewrite (pay_bget _ _ _ _ _ a EP2), Z.eqb_refl.
        destruct (sa_owner x =? a) eqn:Eq; [apply Z.eqb_eq in Eq; unfold sub_addr in Hadr; lia|].
        rewrite <- Hadr at 1. rewrite (Hb1 x Hin), Hadr, Z.eqb_refl, N4. rewrite <- Hadr, (E x Hin). lia.
      * pose proof (sub_addr_ge _ _ _ L Hy1) as Hge. rewrite (pay_bget _ _ _ _ _ (sub_addr y) EP2).
        destruct (sa_owner x =? sub_addr y) eqn:Eq1; [apply Z.eqb_eq in Eq1; lia|].
        destruct (a =? sub_addr y) eqn:Eq; [apply Z.eqb_eq in Eq; exfalso; exact (Hother y Hy1 Hy2 (eq_sym Eq))|].
        rewrite (Hb1 y Hy1), Eq, (E y Hy1). lia.
  - injection H as <- <-. intros y Hy. rewrite (Hb1 y Hy).
    destruct (a =? sub_addr y) eqn:Eq; [apply Z.eqb_eq in Eq; exfalso; exact (sub_by_addr_none _ _ EA y Hy (eq_sym Eq))|].
    rewrite (E y Hy). lia.
Qed.

Lemma balanced_x_balanced effs : balanced_x effs -> balanced effs.
Proof. induction 1; constructor; assumption. Qed.

(* exactness is kept by every effect list made of plain payments between ordinary accounts and payment-plus-hook groups *)
Theorem apply_effects_exact effs : balanced_x effs -> forall bk subs bk' subs',
  apply_effects bk subs effs = Some (bk', subs') -> exact bk subs -> exact bk' subs'.
Proof.
  induction 1 as [|f t a r Hf Ht Hr IH|f a liq profit r Hf Hr IH|f a liq lost r Hf Hr IH|f a amt r Hf Hr IH|f a fee r Hf Hr IH];
    intros bk subs bk' subs' H X.
  - injection H as <- <-. exact X.
  - cbn [apply_effects] in H. destruct (pay bk f t a) as [b1|] eqn:EP; [|discriminate].
    eapply IH; [exact H|]. exact (exact_pay _ _ _ _ _ _ X Hf Ht EP).
  - cbn [apply_effects] in H. destruct (pay bk f a (liq + profit)) as [b1|] eqn:EP; [|discriminate].
    destruct (hook_sub b1 subs a (fun x => sub_unspend x liq) profit) as [[b2 s2]|] eqn:EH; [|discriminate].
    eapply IH; [exact H|].
    destruct (Z_lt_le_dec profit 0) as [Hneg|Hpos].
    + (* a negative profit cannot be forwarded: only reachable when no subaccount is registered at a *)
      unfold hook_sub in EH. destruct (sub_by_addr subs a) as [x|] eqn:EA.
      * destruct (sub_unspend x liq) as [x'|]; [|discriminate]. destruct (profit =? 0) eqn:E0; [apply Z.eqb_eq in E0; lia|].
        destruct (pay b1 a (sa_owner x) profit) as [b3|] eqn:EP3; [|discriminate]. unfold pay in EP3.
        destruct (profit <? 0) eqn:En; [discriminate|apply Z.ltb_ge in En; lia].
      * injection EH as <- <-. destruct X as [L E]. split; [exact (ledger_pay _ _ _ _ _ _ L Hf EP)|].
        intros y Hy. pose proof (sub_addr_ge _ _ _ L Hy). rewrite (pay_bget _ _ _ _ _ (sub_addr y) EP).
        destruct (f =? sub_addr y) eqn:E2; [apply Z.eqb_eq in E2; lia|].
        destruct (a =? sub_addr y) eqn:Eq; [apply Z.eqb_eq in Eq; exfalso; exact (sub_by_addr_none _ _ EA y Hy (eq_sym Eq))|].
        rewrite (E y Hy). lia.
    + eapply (group_step_x bk subs f a (liq + profit) (fun x => sub_unspend x liq) profit b2 s2 liq 0); try eassumption; try lia.
      * intros x x' E N. exact (unspend_props _ _ _ E N).
      * rewrite EP. exact EH.
  - cbn [apply_effects] in H. destruct (pay bk f a (liq - lost)) as [b1|] eqn:EP; [|discriminate].
    destruct (hook_sub b1 subs a (fun x => match sub_unspend x liq with Some y => sub_addloss y lost | None => None end) 0) as [[b2 s2]|] eqn:EH; [|discriminate].
    eapply IH; [exact H|].
    eapply (group_step_x bk subs f a (liq - lost) _ 0 b2 s2 liq lost); try eassumption; try lia.
    + intros x x' E N. exact (unspend_loss_props _ _ _ _ E N).
    + rewrite EP. exact EH.
  - cbn [apply_effects] in H. destruct (pay bk f a amt) as [b1|] eqn:EP; [|discriminate].
    destruct (hook_sub b1 subs a (fun x => sub_unspend x amt) 0) as [[b2 s2]|] eqn:EH; [|discriminate].
    eapply IH; [exact H|].
    eapply (group_step_x bk subs f a amt (fun x => sub_unspend x amt) 0 b2 s2 amt 0); try eassumption; try lia.
    + intros x x' E N. exact (unspend_props _ _ _ E N).
    + rewrite EP. exact EH.
  - cbn [apply_effects] in H. destruct (pay bk f a fee) as [b1|] eqn:EP; [|discriminate].
    destruct (hook_sub b1 subs a (fun x => sub_unspend x fee) 0) as [[b2 s2]|] eqn:EH; [|discriminate].
    eapply IH; [exact H|].
    eapply (group_step_x bk subs f a fee (fun x => sub_unspend x fee) 0 b2 s2 fee 0); try eassumption; try lia.
    + intros x x' E N. exact (unspend_props _ _ _ E N).
    + rewrite EP. exact EH.
Qed.

(* the effects of settling one participation are of that form when the market was created by an ordinary account *)
Lemma settle_participation_balanced_x p st creator p' effs : creator < SUBBASE ->
  settle_participation p st creator = Some (p', effs) -> balanced_x effs.
Proof.
  intros Hc. unfold settle_participation, POOL, HOUSEFEE. destruct (p_settled p); [discriminate|].
  destruct (st =? MK_DECLARED).
  - destruct (p_tba p =? 0); destruct (p_profit p <? 0) eqn:EN; intros H; injection H as _ <-.
    + replace (p_liq p + p_profit p) with (p_liq p - Z.abs (p_profit p)) by (apply Z.ltb_lt in EN; lia).
      apply bx_loss; [unfold SUBBASE; lia|]. apply bx_feerefund; [unfold SUBBASE; lia|]. constructor.
    + apply bx_win; [unfold SUBBASE; lia|]. apply bx_feerefund; [unfold SUBBASE; lia|]. constructor.
    + replace (p_liq p + p_profit p) with (p_liq p - Z.abs (p_profit p)) by (apply Z.ltb_lt in EN; lia).
      apply bx_loss; [unfold SUBBASE; lia|]. apply bx_pay; [unfold SUBBASE; lia|exact Hc|]. constructor.
    + apply bx_win; [unfold SUBBASE; lia|]. apply bx_pay; [unfold SUBBASE; lia|exact Hc|]. constructor.
  - destruct ((st =? MK_CANCELED) || (st =? MK_ABORTED)); [|discriminate]. intros H; injection H as _ <-.
    apply bx_refund; [unfold SUBBASE; lia|]. apply bx_feerefund; [unfold SUBBASE; lia|]. constructor.
Qed.

Theorem settle_participation_exact p st creator p' effs bk subs bk' subs' : creator < SUBBASE ->
  settle_participation p st creator = Some (p', effs) -> apply_effects bk subs effs = Some (bk', subs') -> exact bk subs -> exact bk' subs'.
Proof. intros Hc HS HA X. eapply apply_effects_exact; [eapply settle_participation_balanced_x; eassumption|exact HA|exact X]. Qed.

(* Proofs/ParamHist.v — histories with parameter changes (C17): the subaccount module's UpdateParams switches its two endpoints on and off
   between user operations.  The ledger invariant of C11 (sinv), the custody invariant of C01 (inv) and the time-lock law (xinv) do not depend
   on these switches, so they hold over every such history, whatever the sequence of accepted parameter values. *)
From Coq Require Import ZArith Bool List Lia.
From Sge Require Import Lib.Dec Model.Types Model.Orderbook Model.Mint Model.Chain Proofs.Custody Proofs.SubInv Proofs.SubHist Proofs.SubLock.
Import ListNotations.
Open Scope Z_scope.

Definition guser_op (g : gop) : Prop := match g with GUser o => user_op o | GSubParams _ _ => True | GBetFee _ => True end.

Lemma set_sub_params_sinv s w d : sinv s -> sinv (set_sub_params s w d).
Proof. intros [a b c e]. exact (Build_sinv (set_sub_params s w d) a b c e). Qed.
Lemma set_sub_params_inv s w d : inv s -> inv (set_sub_params s w d).
Proof. intros [a b c e f g]. exact (Build_inv (set_sub_params s w d) a b c e f g). Qed.

Lemma set_bet_fee_sinv s fee : sinv s -> sinv (set_bet_fee s fee).
Proof. intros [a b c e]. exact (Build_sinv (set_bet_fee s fee) a b c e). Qed.
Lemma set_bet_fee_inv s fee : inv s -> inv (set_bet_fee s fee).
Proof. intros [a b c e f g]. exact (Build_inv (set_bet_fee s fee) a b c e f g). Qed.

Lemma gstep_sinv s g : sinv s -> guser_op g -> sinv (fst (gstep s g)).
Proof.
  intros I U. destruct g as [o|w d|fee]; cbn [gstep].
  - apply step_sinv; assumption.
  - destruct (c_halted s); cbn [fst]; [exact I|apply set_sub_params_sinv; exact I].
  - destruct (c_halted s); cbn [fst]; [exact I|]. destruct ((fee <? 0) || (pr_bet_min (c_prm s) <=? fee)); cbn [fst]; [exact I|apply set_bet_fee_sinv; exact I].
Qed.
Lemma gstep_inv s g : inv s -> guser_op g -> inv (fst (gstep s g)).
Proof.
  intros I U. destruct g as [o|w d|fee]; cbn [gstep].
  - apply step_inv; [exact I|apply user_valid; exact U].
  - destruct (c_halted s); cbn [fst]; [exact I|apply set_sub_params_inv; exact I].
  - destruct (c_halted s); cbn [fst]; [exact I|]. destruct ((fee <? 0) || (pr_bet_min (c_prm s) <=? fee)); cbn [fst]; [exact I|apply set_bet_fee_inv; exact I].
Qed.

Lemma grun_sinv gs : forall s, sinv s -> Forall guser_op gs -> sinv (grun s gs).
Proof.
  induction gs as [|g r IH]; intros s I F; cbn [grun fold_left]; [exact I|].
  inversion F as [|? ? Hg Hr]; subst. apply IH; [apply gstep_sinv; assumption|exact Hr].
Qed.
Lemma grun_inv gs : forall s, inv s -> Forall guser_op gs -> inv (grun s gs).
Proof.
  induction gs as [|g r IH]; intros s I F; cbn [grun fold_left]; [exact I|].
  inversion F as [|? ? Hg Hr]; subst. apply IH; [apply gstep_inv; assumption|exact Hr].
Qed.

(* a history of user operations is the special case without parameter changes *)
Lemma grun_user ops : forall s, grun s (map GUser ops) = run s ops.
Proof. induction ops as [|o r IH]; intros s; cbn [map grun run fold_left]; [reflexivity|]. apply IH. Qed.

(* C11's ledger statement and C01's custody equations over every history of user operations interleaved with subaccount parameter changes *)
Theorem ledgers_over_parameter_histories bk supply P vault MP t0 sw sd gs :
  bget bk POOL = 0 -> bget bk HOUSEFEE = 0 -> bget bk BETFEE = 0 ->
  (forall a, SUBBASE <= a -> 0 <= bget bk a) -> Forall guser_op gs ->
  let s := grun (init bk supply P vault MP t0 sw sd) gs in
  (NoDup (map sa_id (c_subs s)) /\ NoDup (map sa_owner (c_subs s)) /\
   forall x, In x (c_subs s) ->
     0 <= sa_dep x /\ 0 <= sa_spent x /\ 0 <= sa_wd x /\ 0 <= sa_lost x /\
     sa_dep x - sa_wd x - sa_spent x - sa_lost x <= bget (c_bank s) (sub_addr x)) /\
  cust s.
Proof.
  intros B1 B2 B3 Hb Hv s. split.
  - assert (I : sinv s).
    { apply grun_sinv; [|exact Hv]. constructor; cbn; [constructor; cbn; [exact Hb|constructor|intros x []]|constructor|intros x []|lia]. }
    destruct I as [[L1 L2 L3] O _ _]. split; [exact L2|]. split; [exact O|].
    intros x Hx. destruct (L3 x Hx) as (_ & _ & (N1 & N2 & N3 & N4) & D). unfold sub_available in D. repeat split; assumption.
  - apply i_cust. apply grun_inv; [apply init_inv; assumption|exact Hv].
Qed.

(* Proofs/Gate.v — ticket gate (C06) and KYC lemmas over the model's handlers. *)
From Coq Require Import ZArith Bool List Lia.
From Sge Require Import Lib.Dec Model.Types Model.Orderbook Model.Mint Model.Chain Proofs.Tactics.
Import ListNotations.
Open Scope Z_scope.

(* which verification a ticket-bearing operation is subject to *)
Inductive tkrule := ByLeader | ByAnyRegistered | ByVoter (idx : Z).

Definition op_tickets (o : op) : list (ticket * tkrule) :=
  match o with
  | OMarketAdd _ tk _ _ _ _ _ | OMarketUpdate _ tk _ _ _ _ | OMarketResolve _ tk _ _ _ _
  | ODeposit _ tk _ _ _ _ | OWithdraw _ tk _ _ _ _ _ _ | OWager _ tk _ _ _ _ _ _ _ _ _
  | OSubHouseDeposit _ tk _ _ _ _ | OSubHouseWithdraw _ tk _ _ _ _ _ _ => [(tk, ByLeader)]
  | OSubWager _ tk _ tk2 _ _ _ _ _ _ _ _ _ _ _ => [(tk, ByLeader); (tk2, ByLeader)]
  | OPropose _ tk _ _ => [(tk, ByAnyRegistered)]
  | OVote _ tk vi _ _ => [(tk, ByVoter vi)]
  | _ => []
  end.

Definition rule_ok (s : chain) (t : ticket) (r : tkrule) : bool :=
  match r with
  | ByLeader => ticket_ok s t
  | ByAnyRegistered => (0 <=? tk_signer t) && zmem (tk_signer t) (c_vault s) && (c_now s <? tk_exp t)
  | ByVoter vi => (0 <=? vi) && (vi <? zlen (c_vault s)) && (0 <=? tk_signer t) &&
                  (tk_signer t =? nth (Z.to_nat vi) (c_vault s) (-1)) && (c_now s <? tk_exp t)
  end.

(* destruct every boolean test in the goal until the handler's result is visible *)
Ltac crush_none :=
  repeat match goal with
  | |- context [if ?c then _ else _] => destruct c eqn:?
  | |- context [match ?x with _ => _ end] => destruct x eqn:?
  end; try reflexivity; try discriminate.

Lemma market_add_gate s sg tk u st en od sts : ticket_ok s tk = false -> market_add s sg tk u st en od sts = None.
Proof. intros H. unfold market_add. rewrite H. reflexivity. Qed.
Lemma market_update_gate s tk u st en sts : ticket_ok s tk = false -> market_update s tk u st en sts = None.
Proof. intros H. unfold market_update. rewrite H. reflexivity. Qed.
Lemma market_resolve_gate s tk u r w sts : ticket_ok s tk = false -> market_resolve s tk u r w sts = None.
Proof. intros H. unfold market_resolve. rewrite H. reflexivity. Qed.
Lemma deposit_validate_gate s sg tk m a k d az : ticket_ok s tk = false -> deposit_validate s sg tk m a k d az = None.
Proof. intros H. unfold deposit_validate. rewrite H. cbn [negb]. crush_none. Qed.
Lemma withdraw_validate_gate s sg tk m p mo a k d : ticket_ok s tk = false -> withdraw_validate s sg tk m p mo a k d = None.
Proof. intros H. unfold withdraw_validate. rewrite H. cbn [negb]. crush_none. Qed.
Lemma wager_prepare_gate s c tk u a sm so mu al k ot : ticket_ok s tk = false -> wager_prepare s c tk u a sm so mu al k ot = false.
Proof. intros H. unfold wager_prepare. rewrite H. rewrite !andb_false_r. reflexivity. Qed.

Lemma tx_none s : tx s None = (s, Err). Proof. reflexivity. Qed.

(* C06 gate: an operation any of whose tickets fails its verification rule changes nothing *)
Theorem ticket_gate s o t r :
  c_halted s = false -> In (t, r) (op_tickets o) -> rule_ok s t r = false -> step s o = (s, Err).
Proof.
  intros Hh Hin Hbad. unfold step. rewrite Hh.
  destruct o; cbn [op_tickets] in Hin; try contradiction;
    repeat (destruct Hin as [Hin|Hin]; [inv Hin; cbn [rule_ok] in Hbad|]); try contradiction.
  - rewrite market_add_gate by exact Hbad. reflexivity.
  - rewrite market_update_gate by exact Hbad. reflexivity.
  - rewrite market_resolve_gate by exact Hbad. reflexivity.
  - unfold house_deposit. rewrite deposit_validate_gate by exact Hbad. reflexivity.
  - unfold house_withdraw. rewrite withdraw_validate_gate by exact Hbad. reflexivity.
  - unfold bet_wager. rewrite wager_prepare_gate by exact Hbad. reflexivity.
  - unfold ovm_propose. rewrite Hbad. reflexivity.
  - unfold ovm_vote.
    destruct ((voter_idx <? 0) || (zlen (c_vault s) <=? voter_idx)) eqn:E; [reflexivity|].
    apply orb_false_iff in E as [E1 E2]. apply Z.ltb_ge in E1. apply Z.leb_gt in E2.
    assert (H1 : (0 <=? voter_idx) = true) by (apply Z.leb_le; lia).
    assert (H2 : (voter_idx <? zlen (c_vault s)) = true) by (apply Z.ltb_lt; lia).
    rewrite H1, H2 in Hbad. cbn [andb] in Hbad. cbv zeta.
    destruct (0 <=? tk_signer t) eqn:A; cbn [andb negb]; [|reflexivity].
    destruct (tk_signer t =? nth (Z.to_nat voter_idx) (c_vault s) (-1)) eqn:B; cbn [andb negb]; [|reflexivity].
    destruct (c_now s <? tk_exp t) eqn:C; cbn [andb negb]; [|reflexivity].
    cbn in Hbad. discriminate.
  - unfold sub_wager. destruct (c_sub_wager s); [|reflexivity]. cbn [negb].
    destruct (sub_by_owner (c_subs s) signer); [|reflexivity]. rewrite Hbad. reflexivity.
  - unfold sub_wager. destruct (c_sub_wager s); [|reflexivity]. cbn [negb].
    destruct (sub_by_owner (c_subs s) signer); [|reflexivity].
    destruct (negb (ticket_ok s tk)); [reflexivity|]. destruct (negb (signer =? inner_creator)); [reflexivity|].
    rewrite wager_prepare_gate by exact Hbad. reflexivity.
  - unfold sub_house_deposit. destruct (negb (c_sub_deposit s)); [reflexivity|].
    destruct ((mkt <? 0) || (amount <=? 0)); [reflexivity|].
    destruct (sub_by_owner (c_subs s) signer); [|reflexivity].
    rewrite deposit_validate_gate by exact Hbad. reflexivity.
  - unfold sub_house_withdraw. destruct (sub_by_owner (c_subs s) signer); [|reflexivity].
    rewrite withdraw_validate_gate by exact Hbad. reflexivity.
Qed.

(* a leader ticket is valid exactly when it verifies under the current leader key and has not expired *)
Lemma ticket_ok_spec s t :
  ticket_ok s t = true <-> 0 <= tk_signer t /\ tk_signer t = leader s /\ c_now s < tk_exp t.
Proof.
  unfold ticket_ok. rewrite !andb_true_iff, Z.leb_le, Z.eqb_eq, Z.ltb_lt. tauto.
Qed.

(* the effect is determined by the signed payload: two valid tickets are interchangeable *)
Lemma deposit_validate_payload s sg t1 t2 m a k d az :
  ticket_ok s t1 = true -> ticket_ok s t2 = true ->
  deposit_validate s sg t1 m a k d az = deposit_validate s sg t2 m a k d az.
Proof. intros H1 H2. unfold deposit_validate. rewrite H1, H2. reflexivity. Qed.

(* KYC: an accepted wager / deposit / withdrawal names the approved acting account unless ignorable *)
Lemma wager_kyc s sg tk u a sm so ov mu al k ot s' :
  bet_wager s sg tk u a sm so ov mu al k ot = Some s' -> kyc_ok k sg = true.
Proof.
  unfold bet_wager, wager_prepare. intros H.
  destruct (kyc_ok k sg); [reflexivity|]. rewrite !andb_false_r in H. discriminate.
Qed.
Lemma deposit_validate_kyc s sg tk m a k d az dep g :
  deposit_validate s sg tk m a k d az = Some (dep, g) ->
  dep = (if (0 <=? d) && negb (d =? sg) then d else sg) /\ kyc_ok k dep = true /\ ticket_ok s tk = true.
Proof.
  unfold deposit_validate. intros H. dmatch H; inv H; repeat split;
    repeat match goal with E : negb _ = false |- _ => apply negb_false_iff in E end; assumption.
Qed.
Lemma deposit_kyc s sg tk m a k d s' :
  house_deposit s sg tk m a k d = Some s' ->
  kyc_ok k (if (0 <=? d) && negb (d =? sg) then d else sg) = true.
Proof.
  unfold house_deposit. intros H.
  destruct (deposit_validate s sg tk m a k d true) as [[dep g]|] eqn:E; [|discriminate].
  destruct (deposit_validate_kyc _ _ _ _ _ _ _ _ _ _ E) as (Hd & Hk & _). subst dep. exact Hk.
Qed.
Lemma withdraw_validate_kyc s sg tk m p mo a k d dep ob :
  withdraw_validate s sg tk m p mo a k d = Some (dep, ob) ->
  dep = (if 0 <=? d then d else sg) /\ ob = (0 <=? d) /\ kyc_ok k dep = true /\ ticket_ok s tk = true.
Proof.
  unfold withdraw_validate. intros H. dmatch H; inv H; repeat split;
    repeat match goal with E : negb _ = false |- _ => apply negb_false_iff in E end; assumption.
Qed.
Lemma withdraw_kyc s sg tk m p mo a k d s' :
  house_withdraw s sg tk m p mo a k d = Some s' -> kyc_ok k (if 0 <=? d then d else sg) = true.
Proof.
  unfold house_withdraw. intros H.
  destruct (withdraw_validate s sg tk m p mo a k d) as [[dep ob]|] eqn:E; [|discriminate].
  destruct (withdraw_validate_kyc _ _ _ _ _ _ _ _ _ _ _ E) as (Hd & _ & Hk & _). subst dep. exact Hk.
Qed.
Lemma kyc_ok_spec k a : kyc_ok k a = true <-> ky_ignore k = true \/ (ky_approved k = true /\ ky_id k = a).
Proof. unfold kyc_ok. rewrite orb_true_iff, andb_true_iff, Z.eqb_eq. tauto. Qed.

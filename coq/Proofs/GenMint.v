(* Proofs/GenMint.v — the phase functions of x/mint/types (params.go, minter.go) as generated from the Go source (Gen/kernels.v) are the
   functions of Model/Mint.v: EndPhase, NonePhase, IsEndPhase, GetPhaseAtStep, getPhaseBlocks, CurrentPhase (the counted loop with break),
   BlockProvisions. *)
From Coq Require Import ZArith Bool List Lia.
From Sge Require Import Lib.Dec Model.Mint Gen.kernels.
Import ListNotations.
Open Scope Z_scope.

Definition gph_of (ph : phase) : G_Phase := {| G_Phase_Inflation := ph_infl ph; G_Phase_YearCoefficient := ph_coef ph |}.
Definition gparams_of (P : mparams) : G_Params :=
  {| G_Params_MintDenom := 0; G_Params_BlocksPerYear := bpy P; G_Params_Phases := map gph_of (phases P); G_Params_ExcludeAmount := excl P |}.
Definition gminter_of (m : minter) : G_Minter :=
  {| G_Minter_Inflation := m_infl m; G_Minter_PhaseStep := m_step m; G_Minter_PhaseProvisions := m_prov m; G_Minter_TruncatedTokens := m_trunc m |}.

Lemma gen_EndPhase : K__EndPhase = gph_of end_phase.
Proof. reflexivity. Qed.
Lemma gen_NonePhase : K__NonePhase = gph_of none_phase.
Proof. reflexivity. Qed.
Lemma gen_IsEndPhase ph : K__IsEndPhase (gph_of ph) = is_end_phase ph.
Proof.
  unfold K__IsEndPhase, is_end_phase. rewrite gen_EndPhase. cbn [gph_of G_Phase_Inflation G_Phase_YearCoefficient end_phase ph_infl ph_coef].
  destruct ((ph_infl ph =? 0) && (ph_coef ph =? U64MAX_DEC)); reflexivity.
Qed.

Lemma nth_map_in (l : list phase) : forall k, (k < length l)%nat -> nth k (map gph_of l) G_Phase_zero = gph_of (nth_default end_phase l k).
Proof.
  induction l as [|a l IH]; intros k H; cbn [length] in H; [lia|].
  destruct k as [|k]; [reflexivity|]. cbn [map nth]. unfold nth_default. cbn [nth_error]. apply IH. lia.
Qed.
Lemma knth_map_in (l : list phase) (k : Z) : 0 <= k < Z.of_nat (length l) ->
  knth (map gph_of l) k G_Phase_zero = gph_of (nth_default end_phase l (Z.to_nat k)).
Proof.
  intros H. unfold knth. destruct (k <? 0) eqn:E; [apply Z.ltb_lt in E; lia|]. apply nth_map_in. lia.
Qed.
Lemma nth_default_mid (d x : phase) pre r : nth_default d (pre ++ x :: r) (length pre) = x.
Proof. unfold nth_default. rewrite nth_error_app2 by lia. rewrite Nat.sub_diag. reflexivity. Qed.

(* GetPhaseAtStep, for the steps the code ever passes (-1 = end alias, 0 = none, 1.. = index + 1; a step below -1 indexes out of range in Go) *)
Lemma gen_GetPhaseAtStep P step : -1 <= step -> K_Params_GetPhaseAtStep (gparams_of P) step = gph_of (phase_at_step P step).
Proof.
  intros H. unfold K_Params_GetPhaseAtStep, phase_at_step, END_STEP. cbn [gparams_of G_Params_Phases].
  destruct (step =? -1) eqn:E1; [apply gen_EndPhase|]. destruct (step =? 0) eqn:E0; [apply gen_NonePhase|].
  apply Z.eqb_neq in E1, E0. unfold klen. rewrite map_length.
  destruct (step - 1 <? Z.of_nat (length (phases P))) eqn:E.
  - apply Z.ltb_lt in E. apply knth_map_in. lia.
  - apply Z.ltb_ge in E. rewrite gen_EndPhase. f_equal. unfold nth_default.
    rewrite (proj2 (nth_error_None (phases P) (Z.to_nat (step - 1)))); [reflexivity|lia].
Qed.
Lemma gen_IsEndPhaseByStep P step : -1 <= step -> K_Params_IsEndPhaseByStep (gparams_of P) step = is_end_phase (phase_at_step P step).
Proof. intros H. unfold K_Params_IsEndPhaseByStep. rewrite gen_GetPhaseAtStep by exact H. apply gen_IsEndPhase. Qed.

(* getPhaseBlocks, for a step inside the schedule (outside it the Go code indexes out of range) *)
Lemma gen_getPhaseBlocks P step : 1 <= step <= Z.of_nat (length (phases P)) ->
  K_Params_getPhaseBlocks (gparams_of P) step = phase_blocks_dec P (nth_default end_phase (phases P) (Z.to_nat (step - 1))).
Proof.
  intros H. unfold K_Params_getPhaseBlocks, phase_blocks_dec. cbn [gparams_of G_Params_Phases G_Params_BlocksPerYear].
  rewrite knth_map_in by lia. reflexivity.
Qed.

(* CurrentPhase: the counted loop with break is find_phase *)
Lemma gen_CurrentPhase P m blk :
  K_Minter_CurrentPhase m (gparams_of P) blk = (gph_of (fst (current_phase P blk)), snd (current_phase P blk)).
Proof.
  unfold K_Minter_CurrentPhase, current_phase.
  destruct (blk =? 1). { rewrite gen_GetPhaseAtStep by lia. reflexivity. }
  match goal with |- context [kfold _ _ ?f] => set (F := f) end.
  unfold kfold, kseq, klen. cbn [gparams_of G_Params_Phases]. rewrite map_length, Nat2Z.id.
  assert (Hstop : forall l c s f, fold_left F l (c, s, f, true) = (c, s, f, true)).
  { induction l as [|x l IH]; intros; cbn [fold_left]; [reflexivity|apply IH]. }
  assert (HF : forall cum cs i, F (cum, cs, false, false) i =
            if dec_of_int blk <=? cum + K_Params_getPhaseBlocks (gparams_of P) (i + 1)
            then (cum + K_Params_getPhaseBlocks (gparams_of P) (i + 1), i + 1, true, true)
            else (cum + K_Params_getPhaseBlocks (gparams_of P) (i + 1), i + 1, false, false)) by reflexivity.
  assert (Hrun : forall rest pre cum cs, phases P = pre ++ rest ->
     match find_phase P rest (Z.of_nat (length pre)) cum blk with
     | Some (ph, st) => exists c, fold_left F (map Z.of_nat (seq (length pre) (length rest))) (cum, cs, false, false) = (c, st, true, true)
                         /\ nth_default end_phase (phases P) (Z.to_nat (st - 1)) = ph /\ 1 <= st <= Z.of_nat (length (phases P))
     | None => exists c s, fold_left F (map Z.of_nat (seq (length pre) (length rest))) (cum, cs, false, false) = (c, s, false, false)
     end).
  { induction rest as [|ph rest IH]; intros pre cum cs E; cbn [find_phase length seq map fold_left].
    - exists cum, cs. reflexivity.
    - assert (Hlen : Z.of_nat (length (phases P)) = Z.of_nat (length pre) + 1 + Z.of_nat (length rest))
        by (rewrite E, app_length; cbn [length]; lia).
      assert (Hnth : nth_default end_phase (phases P) (Z.to_nat (Z.of_nat (length pre) + 1 - 1)) = ph).
      { replace (Z.to_nat (Z.of_nat (length pre) + 1 - 1)) with (length pre) by lia. rewrite E. apply nth_default_mid. }
      rewrite HF. rewrite gen_getPhaseBlocks by lia. rewrite Hnth.
      destruct (dec_of_int blk <=? cum + phase_blocks_dec P ph) eqn:EL.
      + exists (cum + phase_blocks_dec P ph). split; [apply Hstop|]. split; [exact Hnth|lia].
      + specialize (IH (pre ++ [ph]) (cum + phase_blocks_dec P ph) (Z.of_nat (length pre) + 1)).
        rewrite app_length in IH. cbn [length] in IH. replace (length pre + 1)%nat with (S (length pre)) in IH by lia.
        rewrite Nat2Z.inj_succ in IH. unfold Z.succ in IH. apply IH. rewrite <- app_assoc. exact E. }
  specialize (Hrun (phases P) [] 0 0 eq_refl). cbn [length] in Hrun. change (Z.of_nat 0) with 0 in Hrun.
  change (dec_of_int 0) with 0.
  destruct (find_phase P (phases P) 0 0 blk) as [[ph st]|].
  - destruct Hrun as (c & Ef & Hn & Hst). rewrite Ef. cbn [negb fst snd]. rewrite gen_GetPhaseAtStep by lia.
    unfold phase_at_step, END_STEP. destruct (st =? -1) eqn:E1; [apply Z.eqb_eq in E1; lia|]. destruct (st =? 0) eqn:E0; [apply Z.eqb_eq in E0; lia|].
    rewrite Hn. reflexivity.
  - destruct Hrun as (c & s & Ef). rewrite Ef. cbn [negb fst snd]. rewrite gen_EndPhase. reflexivity.
Qed.

Lemma trunc_dec_idem x : dec_trunc_dec (dec_trunc_dec x) = dec_trunc_dec x.
Proof. unfold dec_trunc_dec, chop_trunc. rewrite Z.quot_mul by (unfold PREC; lia). reflexivity. Qed.

(* BlockProvisions, wherever the model says it does not panic (step inside the schedule, phase of at least one block, amount not negative) *)
Lemma gen_BlockProvisions P m step amt tr : block_provisions P m step = Some (amt, tr) ->
  K_Minter_BlockProvisions (gminter_of m) (gparams_of P) step = (amt, tr).
Proof.
  unfold block_provisions, K_Minter_BlockProvisions.
  destruct ((step <? 1) || (Z.of_nat (length (phases P)) <? step)) eqn:G; [discriminate|].
  apply orb_false_iff in G. destruct G as [G1 G2]. apply Z.ltb_ge in G1, G2. rewrite gen_getPhaseBlocks by lia.
  cbn [gminter_of G_Minter_PhaseProvisions G_Minter_TruncatedTokens].
  set (ph := nth_default end_phase (phases P) (Z.to_nat (step - 1))).
  replace (dec_trunc_dec (phase_blocks_dec P ph)) with (phase_blocks_dec P ph) by (unfold phase_blocks_dec; rewrite trunc_dec_idem; reflexivity).
  destruct (phase_blocks_dec P ph =? 0); [discriminate|].
  destruct (dec_trunc_int (dec_trunc_dec (dec_quo (m_prov m) (phase_blocks_dec P ph) + m_trunc m)) <? 0); [discriminate|].
  intros H. injection H as <- <-. reflexivity.
Qed.

Lemma gen_AnnualProvisions m ph : K_Minter_AnnualProvisions (gminter_of m) (gph_of ph) = dec_quo (m_prov m) (ph_coef ph).
Proof. reflexivity. Qed.

(* ---- Params.Validate of x/mint (the set of accepted parameters of C17) ---------------------------------------------------------------------
   validateMintDenom is taken to succeed (denomination strings are not modelled). *)
Lemma gen_validatePhases l : K__validatePhases (map gph_of l) = negb (Nat.eqb (length l) 0) && forallb phase_valid l.
Proof.
  unfold K__validatePhases. cbv zeta. cbn [negb]. unfold klen. rewrite map_length.
  destruct l as [|p0 l0]; [reflexivity|]. set (l := p0 :: l0).
  replace (Z.of_nat (length l) =? 0) with false by (symmetry; apply Z.eqb_neq; subst l; cbn [length]; lia).
  replace (Nat.eqb (length l) 0) with false by reflexivity. cbn [negb andb].
  match goal with |- context [kfold _ _ ?f] => set (F := f) end. unfold kfold.
  assert (Hstop : forall k r, fold_left F k (r, true) = (r, true)).
  { induction k as [|x k IH]; intros r; cbn [fold_left]; [reflexivity|apply IH]. }
  assert (Hrun : forall k, fold_left F (map gph_of k) (None, false) = if forallb phase_valid k then (None, false) else (Some false, true)).
  { induction k as [|p r IH]; cbn [map fold_left forallb]; [reflexivity|].
    assert (HF : F (None, false) (gph_of p) = if phase_valid p then (None, false) else (Some false, true)).
    { unfold F, phase_valid. cbv beta iota. cbn [gph_of G_Phase_YearCoefficient G_Phase_Inflation]. rewrite gen_IsEndPhase. cbn [orb].
      destruct (0 <? ph_coef p); cbn [negb andb]; [|reflexivity]. destruct (ph_infl p <? 0); cbn [negb andb]; [reflexivity|].
      destruct (is_end_phase p); reflexivity. }
    rewrite HF. destruct (phase_valid p); cbn [andb]; [apply IH|apply Hstop]. }
  rewrite Hrun. destruct (forallb phase_valid l); reflexivity.
Qed.

Lemma gen_mint_Validate P : K_Params_Validate (gparams_of P) = mparams_valid P.
Proof.
  unfold K_Params_Validate, mparams_valid, K__validateBlocksPerYear, K__validateExcludeAmount. cbv zeta.
  cbn [negb gparams_of G_Params_BlocksPerYear G_Params_Phases G_Params_ExcludeAmount].
  rewrite gen_validatePhases.
  match goal with |- context [kfold _ _ ?f] => set (F := f) end. unfold kfold, kseq, klen. rewrite map_length, Nat2Z.id.
  assert (Hstop : forall k r, fold_left F k (r, true) = (r, true)).
  { induction k as [|x k IH]; intros r; cbn [fold_left]; [reflexivity|apply IH]. }
  assert (Hrun : forall rest pre, phases P = pre ++ rest ->
     fold_left F (map Z.of_nat (seq (length pre) (length rest))) (None, false) =
     if forallb (fun ph => 0 <? phase_blocks_dec P ph) rest then (None, false) else (Some false, true)).
  { induction rest as [|ph rest IH]; intros pre E; cbn [length seq map fold_left forallb]; [reflexivity|].
    assert (Hlen : Z.of_nat (length (phases P)) = Z.of_nat (length pre) + 1 + Z.of_nat (length rest))
      by (rewrite E, app_length; cbn [length]; lia).
    assert (HF : F (None, false) (Z.of_nat (length pre)) = if 0 <? phase_blocks_dec P ph then (None, false) else (Some false, true)).
    { unfold F. cbv beta iota. fold (gparams_of P). rewrite gen_getPhaseBlocks by lia.
      replace (Z.to_nat (Z.of_nat (length pre) + 1 - 1)) with (length pre) by lia. rewrite E, nth_default_mid.
      destruct (0 <? phase_blocks_dec P ph); reflexivity. }
    rewrite HF. destruct (0 <? phase_blocks_dec P ph); cbn [andb]; [|apply Hstop].
    specialize (IH (pre ++ [ph])). rewrite app_length in IH. cbn [length] in IH.
    replace (length pre + 1)%nat with (S (length pre)) in IH by lia. apply IH. rewrite <- app_assoc. exact E. }
  specialize (Hrun (phases P) [] eq_refl). cbn [length] in Hrun. rewrite Hrun.
  rewrite (Z.leb_antisym 0 (bpy P)).
  destruct (0 <? bpy P); cbn [negb andb]; [|reflexivity].
  destruct (negb (Nat.eqb (length (phases P)) 0) && forallb phase_valid (phases P)) eqn:E1.
  - cbn [negb]. apply andb_true_iff in E1. destruct E1 as [E1 E2]. rewrite E1, E2.
    destruct (forallb (fun ph => 0 <? phase_blocks_dec P ph) (phases P)); destruct (excl P <? 0); reflexivity.
  - cbn [negb]. destruct (excl P <? 0); cbn [negb andb]; [reflexivity|].
    destruct (negb (Nat.eqb (length (phases P)) 0)); cbn [andb] in *; [rewrite E1; reflexivity|reflexivity].
Qed.

(* ---- x/mint/abci.go BeginBlocker, generated as a function on the state it reaches through its keeper (minter, params, supply, height;
   Minted accumulates what MintCoins was asked to mint): wherever the model's begin_block does not panic, the generated function
   computes the same minter and mints the same amount ------------------------------------------------------------------------------------- *)
From Sge Require Proofs.GenMintK.
Definition mint_state (P : mparams) (m : minter) (supply minted h : Z) : S_mint :=
  {| S_mint_Minter := gminter_of m; S_mint_Params := gparams_of P; S_mint_Supply := supply; S_mint_Minted := minted; S_mint_Height := h |}.

Lemma gen_BeginBlocker P m supply h m' minted : begin_block P m supply h = BBok m' minted ->
  K_mint_BeginBlocker (mint_state P m supply 0 h) = mint_state P m' (supply + minted) minted h.
Proof.
  unfold begin_block, K_mint_BeginBlocker, mint_state. cbn [S_mint_Minter S_mint_Params S_mint_Height S_mint_Supply S_mint_Minted].
  rewrite gen_CurrentPhase. destruct (current_phase P h) as [ph step]. cbn [fst snd].
  cbn [gminter_of gph_of G_Minter_PhaseStep G_Minter_Inflation G_Phase_Inflation].
  destruct (negb (step =? m_step m) || negb (m_infl m =? ph_infl ph)) eqn:EC.
  - (* the phase or the inflation changed: the minter is rewritten *)
    unfold set_G_Minter_PhaseProvisions, set_G_Minter_PhaseStep, set_G_Minter_Inflation, gminter_of, gph_of.
    cbn [set_G_Minter_Inflation set_G_Minter_PhaseStep set_G_Minter_PhaseProvisions G_Minter_Inflation G_Minter_PhaseStep G_Minter_PhaseProvisions
         G_Minter_TruncatedTokens gparams_of G_Params_ExcludeAmount m_infl m_step m_prov m_trunc
         set_S_mint_Minter S_mint_Minter S_mint_Params S_mint_Supply S_mint_Minted S_mint_Height].
    rewrite (GenMintK.gen_NextPhaseProvisions (ph_infl ph) step (m_prov m) (m_trunc m) supply (excl P) ph).
    set (m1 := {| m_infl := ph_infl ph; m_step := step; m_prov := next_phase_provisions (ph_infl ph) supply (excl P) ph; m_trunc := m_trunc m |}).
    destruct (ph_infl ph =? 0) eqn:EZ.
    + intros H. injection H as <- <-. rewrite Z.add_0_r. reflexivity.
    + destruct (block_provisions P m1 step) as [[amt tr]|] eqn:EB; [|discriminate].
      intros H. injection H as <- <-.
      change {| G_Minter_Inflation := ph_infl ph; G_Minter_PhaseStep := step;
                G_Minter_PhaseProvisions := next_phase_provisions (ph_infl ph) supply (excl P) ph; G_Minter_TruncatedTokens := m_trunc m |}
        with (gminter_of m1).
      fold (gparams_of P). rewrite (gen_BlockProvisions P m1 step amt tr EB).
      cbn [set_S_mint_Supply set_S_mint_Minted set_S_mint_Minter S_mint_Minter S_mint_Params S_mint_Supply S_mint_Minted S_mint_Height
           set_G_Minter_TruncatedTokens gminter_of G_Minter_Inflation G_Minter_PhaseStep G_Minter_PhaseProvisions m_infl m_step m_prov m_trunc m1 Z.add].
      reflexivity.
  - (* unchanged minter *)
    destruct (m_infl m =? 0) eqn:EZ.
    + intros H. injection H as <- <-. rewrite Z.add_0_r. reflexivity.
    + destruct (block_provisions P m step) as [[amt tr]|] eqn:EB; [|discriminate].
      intros H. injection H as <- <-.
      change {| G_Minter_Inflation := m_infl m; G_Minter_PhaseStep := m_step m; G_Minter_PhaseProvisions := m_prov m; G_Minter_TruncatedTokens := m_trunc m |}
        with (gminter_of m).
      fold (gparams_of P). rewrite (gen_BlockProvisions P m step amt tr EB).
      cbn [set_S_mint_Supply set_S_mint_Minted set_S_mint_Minter S_mint_Minter S_mint_Params S_mint_Supply S_mint_Minted S_mint_Height
           set_G_Minter_TruncatedTokens gminter_of G_Minter_Inflation G_Minter_PhaseStep G_Minter_PhaseProvisions m_infl m_step m_prov m_trunc Z.add].
      reflexivity.
Qed.

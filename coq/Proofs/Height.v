(* Proofs/Height.v — the block height never decreases (generated from the skeleton of Params.v); used by the mint liveness part of the
   no-abort theorem. *)
From Coq Require Import ZArith Bool List Lia.
From Sge Require Import Lib.Dec Model.Types Model.Orderbook Model.Mint Model.Chain Proofs.Tactics.
Import ListNotations.
Open Scope Z_scope.

Definition hgt_frame (s s' : chain) : Prop := c_height s <= c_height s'.

Lemma hgt_frame_refl s : hgt_frame s s.
Proof. unfold hgt_frame. cbn. lia. Qed.
Lemma hgt_frame_trans a b c : hgt_frame a b -> hgt_frame b c -> hgt_frame a c.
Proof. unfold hgt_frame. lia. Qed.
Lemma hgt_frame_upd s bk ms mq bq bc u2i sidx gr : hgt_frame s (chain_upd s bk ms mq bq bc u2i sidx gr).
Proof. unfold hgt_frame. cbn. lia. Qed.
Lemma hgt_frame_subs s subs n : hgt_frame s (chain_set_subs s subs n).
Proof. unfold hgt_frame. cbn. lia. Qed.
Lemma hgt_frame_with_subs s subs : hgt_frame s (with_subs s subs).
Proof. unfold hgt_frame. cbn. lia. Qed.
Lemma hgt_frame_ovm s v p c : hgt_frame s (chain_set_ovm s v p c).
Proof. unfold hgt_frame. cbn. lia. Qed.
Lemma hgt_frame_set_bank s b : hgt_frame s (set_bank s b).
Proof. unfold hgt_frame. cbn. lia. Qed.
Lemma hgt_frame_upd_subs s subs bk ms mq bq bc u2i sidx gr : hgt_frame s (chain_upd (with_subs s subs) bk ms mq bq bc u2i sidx gr).
Proof. unfold hgt_frame. cbn. lia. Qed.
Ltac frame_upd :=
  first [ apply hgt_frame_upd_subs | apply hgt_frame_upd | apply hgt_frame_set_bank
        | apply hgt_frame_ovm | apply hgt_frame_with_subs | apply hgt_frame_subs ].

Lemma market_add_frame s sg tk u st en od sts s' : market_add s sg tk u st en od sts = Some s' -> hgt_frame s s'.
Proof. unfold market_add. intros H; dmatch H; inv H; frame_upd. Qed.
Lemma market_update_frame s tk u st en sts s' : market_update s tk u st en sts = Some s' -> hgt_frame s s'.
Proof. unfold market_update. intros H; dmatch H; inv H; frame_upd. Qed.
Lemma market_resolve_frame s tk u r w sts s' : market_resolve s tk u r w sts = Some s' -> hgt_frame s s'.
Proof. unfold market_resolve. intros H; dmatch H; inv H; frame_upd. Qed.
Lemma house_deposit_core_frame s c d m a g s' : house_deposit_core s c d m a g = Some s' -> hgt_frame s s'.
Proof. unfold house_deposit_core. intros H; dmatch H; inv H; frame_upd. Qed.
Lemma house_deposit_frame s sg tk m a k d s' : house_deposit s sg tk m a k d = Some s' -> hgt_frame s s'.
Proof. unfold house_deposit. intros H; dmatch H. eapply house_deposit_core_frame; exact H. Qed.
Lemma withdraw_core_frame s sg d m p mo a ob s' amt : withdraw_core s sg d m p mo a ob = Some (s', amt) -> hgt_frame s s'.
Proof. unfold withdraw_core. intros H; dmatch H; inv H; frame_upd. Qed.
Lemma house_withdraw_frame s sg tk m p mo a k d s' : house_withdraw s sg tk m p mo a k d = Some s' -> hgt_frame s s'.
Proof.
  unfold house_withdraw. intros H. dmatch H. inv H.
  match goal with E : withdraw_core _ _ _ _ _ _ _ _ = Some _ |- _ => eapply withdraw_core_frame; exact E end.
Qed.
Lemma wager_core_frame s sg u a sm so ov mu al s' : wager_core s sg u a sm so ov mu al = Some s' -> hgt_frame s s'.
Proof. unfold wager_core. intros H; dmatch H; inv H; frame_upd. Qed.
Lemma bet_wager_frame s sg tk u a sm so ov mu al k ot s' : bet_wager s sg tk u a sm so ov mu al k ot = Some s' -> hgt_frame s s'.
Proof. unfold bet_wager. intros H; dmatch H. eapply wager_core_frame; exact H. Qed.
Lemma do_grant_frame s a b k l e s' : do_grant s a b k l e = Some s' -> hgt_frame s s'.
Proof. unfold do_grant. intros H; dmatch H; inv H; frame_upd. Qed.
Lemma do_revoke_frame s a b k s' : do_revoke s a b k = Some s' -> hgt_frame s s'.
Proof. unfold do_revoke. intros H; dmatch H; inv H; frame_upd. Qed.
Lemma do_send_frame s a b k s' : do_send s a b k = Some s' -> hgt_frame s s'.
Proof. unfold do_send. intros H; dmatch H; inv H; frame_upd. Qed.
Lemma ovm_propose_frame s sg tk ks li s' : ovm_propose s sg tk ks li = Some s' -> hgt_frame s s'.
Proof. unfold ovm_propose. intros H; dmatch H; inv H; frame_upd. Qed.
Lemma ovm_vote_frame s tk vi pid v s' : ovm_vote s tk vi pid v = Some s' -> hgt_frame s s'.
Proof. unfold ovm_vote. intros H; dmatch H; inv H; frame_upd. Qed.
Lemma sub_create_frame s c o l s' : sub_create s c o l = Some s' -> hgt_frame s s'.
Proof.
  unfold sub_create. intros H; dmatch H; inv H.
  eapply hgt_frame_trans; [apply hgt_frame_subs|]. apply hgt_frame_set_bank.
Qed.
Lemma sub_topup_frame s c o l s' : sub_topup s c o l = Some s' -> hgt_frame s s'.
Proof.
  unfold sub_topup. intros H; dmatch H; inv H.
  eapply hgt_frame_trans; [apply hgt_frame_with_subs|]. apply hgt_frame_set_bank.
Qed.
Lemma sub_withdraw_unlocked_frame s o s' : sub_withdraw_unlocked s o = Some s' -> hgt_frame s s'.
Proof.
  unfold sub_withdraw_unlocked. intros H; dmatch H; inv H.
  eapply hgt_frame_trans; [apply hgt_frame_with_subs|]. apply hgt_frame_set_bank.
Qed.
Lemma sub_wager_frame s sg tk ic tk2 u a sm so ov mu al k ot md sd s' :
  sub_wager s sg tk ic tk2 u a sm so ov mu al k ot md sd = Some s' -> hgt_frame s s'.
Proof.
  unfold sub_wager. intros H; dmatch H.
  eapply hgt_frame_trans; [|eapply wager_core_frame; exact H].
  eapply hgt_frame_trans; [apply hgt_frame_with_subs|]. apply hgt_frame_set_bank.
Qed.
Lemma sub_house_deposit_frame s sg tk m a k d s' : sub_house_deposit s sg tk m a k d = Some s' -> hgt_frame s s'.
Proof.
  unfold sub_house_deposit. intros H; dmatch H; inv H.
  eapply hgt_frame_trans; [eapply house_deposit_core_frame; eassumption|apply hgt_frame_with_subs].
Qed.
Lemma sub_house_withdraw_frame s sg tk m p mo a k d s' : sub_house_withdraw s sg tk m p mo a k d = Some s' -> hgt_frame s s'.
Proof.
  unfold sub_house_withdraw. intros H; dmatch H; inv H.
  eapply hgt_frame_trans; [eapply withdraw_core_frame; eassumption|apply hgt_frame_with_subs].
Qed.

Lemma bet_endblock_frame fuel : forall s n s', bet_endblock fuel s n = Some s' -> hgt_frame s s'.
Proof.
  induction fuel as [|f IH]; intros s n s' H; cbn [bet_endblock] in H.
  - destruct (n <=? 0); [inv H; apply hgt_frame_refl|discriminate].
  - destruct (n <=? 0); [inv H; apply hgt_frame_refl|].
    destruct (c_mqueue s) as [|m q] eqn:EQ; [inv H; apply hgt_frame_refl|].
    destruct (get_ms s m) as [x|]; [|discriminate].
    destruct (settle_bets _ x (c_bank s) (c_subs s) (c_height s) (c_settledix s) 0) as [[[[[x1 bk1] subs1] sidx1] cnt]|] eqn:ES; [|discriminate].
    destruct (ms_pending x1).
    + destruct (negb (bk_status (ms_book x1) =? BK_ACTIVE)); [discriminate|].
      eapply hgt_frame_trans; [|eapply IH; exact H]. apply hgt_frame_upd_subs.
    + eapply hgt_frame_trans; [|eapply IH; exact H]. apply hgt_frame_upd_subs.
Qed.

Lemma ob_endblock_frame fuel : forall s n i s', ob_endblock fuel s n i = Some s' -> hgt_frame s s'.
Proof.
  induction fuel as [|f IH]; intros s n i s' H; cbn [ob_endblock] in H.
  - destruct (n <=? 0); [inv H; apply hgt_frame_refl|discriminate].
  - destruct (n <=? 0); [inv H; apply hgt_frame_refl|].
    destruct (nth_error (c_bqueue s) i) as [m|]; [|inv H; apply hgt_frame_refl].
    destruct (get_ms s m) as [x|]; [|discriminate].
    destruct (negb (bk_status (ms_book x) =? BK_RESOLVED)); [discriminate|].
    destruct (batch_parts _ _ _ _ _) as [[[[alls cnt] ps] effs]|]; [|discriminate].
    destruct (apply_effects (c_bank s) (c_subs s) effs) as [[bk1 subs1]|] eqn:EA; [|discriminate].
    eapply hgt_frame_trans; [|eapply IH; exact H]. apply hgt_frame_upd_subs.
Qed.

Lemma halt_frame s : hgt_frame s (halt s).
Proof. unfold hgt_frame. cbn. lia. Qed.

Lemma end_block_frame s : hgt_frame s (fst (end_block s)).
Proof.
  unfold end_block.
  destruct (bet_endblock _ s _) as [s1|] eqn:E1; [|apply halt_frame].
  destruct (ob_endblock _ s1 _ _) as [s2|] eqn:E2; [|apply halt_frame].
  cbn [fst]. eapply hgt_frame_trans; [eapply bet_endblock_frame; exact E1|].
  eapply hgt_frame_trans; [eapply ob_endblock_frame; exact E2|].
  unfold ovm_endblock. destruct (ovm_finish _ _ _ _). apply hgt_frame_ovm.
Qed.

Lemma tx_frame s r : (forall s', r = Some s' -> hgt_frame s s') -> hgt_frame s (fst (tx s r)).
Proof. intros H. unfold tx. destruct r as [s'|]; cbn [fst]; [apply H; reflexivity|apply hgt_frame_refl]. Qed.

Theorem step_hgt s o : hgt_frame s (fst (step s o)).
Proof.
  unfold step. destruct (c_halted s); [apply hgt_frame_refl|].
  destruct o; try (apply tx_frame; intros s' H).
  - unfold begin_block_op. destruct (begin_block _ _ _ _); cbn [fst]; unfold hgt_frame; cbn; lia.
  - apply end_block_frame.
  - eapply market_add_frame; exact H.
  - eapply market_update_frame; exact H.
  - eapply market_resolve_frame; exact H.
  - eapply house_deposit_frame; exact H.
  - eapply house_withdraw_frame; exact H.
  - eapply bet_wager_frame; exact H.
  - eapply do_grant_frame; exact H.
  - eapply do_revoke_frame; exact H.
  - eapply do_send_frame; exact H.
  - eapply ovm_propose_frame; exact H.
  - eapply ovm_vote_frame; exact H.
  - eapply sub_create_frame; exact H.
  - eapply sub_topup_frame; exact H.
  - eapply sub_withdraw_unlocked_frame; exact H.
  - eapply sub_wager_frame; exact H.
  - eapply sub_house_deposit_frame; exact H.
  - eapply sub_house_withdraw_frame; exact H.
Qed.

Theorem run_hgt ops : forall s, hgt_frame s (run s ops).
Proof.
  induction ops as [|o r IH]; intros s; cbn [run fold_left]; [apply hgt_frame_refl|].
  eapply hgt_frame_trans; [apply step_hgt|apply IH].
Qed.

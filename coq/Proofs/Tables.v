(* Proofs/Tables.v — finite facts over the tables regenerated from /repo's source on every run
   (coq/Gen/*.v, written by /verif/translator). *)
From Coq Require Import String List ZArith Bool.
From Sge Require Import Gen.handlers Gen.perms Gen.nondet.
Import ListNotations.
Open Scope string_scope.

(* ---- C06: every ticketed handler verifies its ticket before its first write ------------------ *)
Fixpoint verify_before_write (evs : list hevent) : bool :=
  match evs with
  | [] => false                      (* a ticketed handler that never verifies *)
  | HVerify :: _ => true
  | HWrite :: _ => false
  | HRead :: r => verify_before_write r
  end.
Definition handler_ok (h : handler) : bool :=
  if h_has_ticket h then verify_before_write (h_events h) else true.
Definition ticketed_handlers : list handler := filter h_has_ticket handlers.

Lemma all_handlers_verify_first : forallb handler_ok handlers = true.
Proof. vm_compute. reflexivity. Qed.

(* every message type carrying a Ticket field is served by a ticketed handler (counted per module) *)
Definition count_mod (m : string) (l : list string) : nat := length (filter (String.eqb m) l).
Definition modules : list string := ["bet"; "house"; "market"; "mint"; "orderbook"; "ovm"; "reward"; "subaccount"].
Lemma ticket_msgs_all_served :
  forallb (fun m => Nat.eqb (count_mod m (map fst ticket_msgs)) (count_mod m (map h_module ticketed_handlers))) modules = true.
Proof. vm_compute. reflexivity. Qed.

(* ---- C13 / C01: module-account permissions ------------------------------------------------------- *)
Definition perms_of (a : string) : list string :=
  match find (fun x => String.eqb (fst x) a) macc_perms with Some x => snd x | None => [] end.
Definition has_perm (p a : string) : bool := existsb (String.eqb p) (perms_of a).
Definition mem_str (a : string) (l : list string) : bool := existsb (String.eqb a) l.

Lemma custody_accounts_cannot_mint_or_burn :
  forallb (fun a => negb (has_perm "minter" a) && negb (has_perm "burner" a) && mem_str a blocked_module_accounts
                    && mem_str a (map fst macc_perms)) sge_custody_accounts = true.
Proof. vm_compute. reflexivity. Qed.

(* among the accounts of the sge modules only `mint` can mint; none can burn *)
Definition sge_accounts : list string := "mint" :: sge_custody_accounts.
Lemma only_mint_mints :
  forallb (fun a => Bool.eqb (has_perm "minter" a) (String.eqb a "mint") && negb (has_perm "burner" a)) sge_accounts = true.
Proof. vm_compute. reflexivity. Qed.

(* the bet end-blocker runs before the order-book end-blocker; mint begins before distribution *)
Fixpoint index_of (a : string) (l : list string) : nat :=
  match l with [] => 0 | x :: r => if String.eqb x a then 0 else S (index_of a r) end.
Lemma blocker_order :
  (Nat.ltb (index_of "bet" end_blockers) (index_of "orderbook" end_blockers) &&
   Nat.ltb (index_of "mint" begin_blockers) (index_of "distribution" begin_blockers) &&
   mem_str "bet" end_blockers && mem_str "orderbook" end_blockers && mem_str "ovm" end_blockers)%bool = true.
Proof. vm_compute. reflexivity. Qed.

(* ---- C15: no order-sensitive map traversal, wall clock, goroutine, randomness or select in the
        state-transition code of the custom modules ------------------------------------------------- *)
Definition site_ok (s : ndsite) : bool :=
  match nd_kind s with
  | MapIndexOnly | MapRangeBuildsSetOnly | WallClockTelemetryOnly => true
  | _ => false
  end.
Lemma no_nondeterminism_sources : forallb site_ok ndsites = true.
Proof. vm_compute. reflexivity. Qed.

(* ---- C16: every store collection of every custom module takes part in export and import ------------ *)
From Sge Require Import Gen.genesis.
(* collections that are legitimately absent, each with its reason *)
Definition not_exported_ok : list (string * string) := [
  ("orderbook", "ParticipationExposureByIndexKeyPrefix");    (* derived index: exported as a copy of prefix 03, equal by C10 *)
  ("orderbook", "FeeGrantPrefix");                            (* declared, never used *)
  ("orderbook", "SettledOrderbookParticipationListPrefix");   (* never written *)
  ("subaccount", "SubaccountOwnerPrefix");                    (* derived index: rebuilt by SetSubaccountOwner at import *)
  ("reward", "RewardGrantStatKeyPrefix")                      (* KNOWN FINDING D8b: cap counters are lost on restart *)
].
Definition not_imported_ok : list (string * string) := [
  ("orderbook", "FeeGrantPrefix");
  ("orderbook", "SettledOrderbookParticipationListPrefix");
  ("reward", "RewardGrantStatKeyPrefix")                      (* KNOWN FINDING D8b *)
].
Definition pair_mem (m p : string) (l : list (string * string)) : bool :=
  existsb (fun x => String.eqb (fst x) m && String.eqb (snd x) p) l.
Definition module_covered (g : gmodule) : bool :=
  forallb (fun p => (mem_str (fst p) (gm_exported g) || pair_mem (gm_name g) (fst p) not_exported_ok) &&
                    (mem_str (fst p) (gm_imported g) || pair_mem (gm_name g) (fst p) not_imported_ok)) (gm_prefixes g).
Lemma genesis_collections_covered : forallb module_covered genesis_modules = true.
Proof. vm_compute. reflexivity. Qed.
(* the exception lists are tight: each listed collection really is absent (so a repair shows up here) *)
Lemma genesis_exceptions_tight :
  forallb (fun x => existsb (fun g => String.eqb (gm_name g) (fst x) && mem_str (snd x) (map fst (gm_prefixes g)) &&
                                      negb (mem_str (snd x) (gm_exported g))) genesis_modules) not_exported_ok = true.
Proof. vm_compute. reflexivity. Qed.
(* all eight custom modules are in the table *)
Lemma genesis_all_modules :
  forallb (fun m => existsb (fun g => String.eqb (gm_name g) m) genesis_modules)
          ["bet"; "house"; "market"; "mint"; "orderbook"; "ovm"; "reward"; "subaccount"] = true.
Proof. vm_compute. reflexivity. Qed.

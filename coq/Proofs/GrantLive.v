(* Proofs/GrantLive.v — C09: every grant in the authz store is unexpired (no expiry, or block time <= expiry) in every reachable state, so a
   delegated deposit or withdrawal is only ever executed under an unexpired grant.  Frames generated from the skeleton of Params.v. *)
From Coq Require Import ZArith Bool List Lia.
From Sge Require Import Lib.Dec Model.Types Model.Orderbook Model.Mint Model.Chain Proofs.Tactics.
Import ListNotations.
Open Scope Z_scope.

(* the block time and the authz grants are left alone by everything except BeginBlock, the grant/revoke messages and the delegated
   house deposits / withdrawals *)
Definition gframe (s s' : chain) : Prop := c_now s' = c_now s /\ c_grants s' = c_grants s.

Lemma gframe_refl s : gframe s s.
Proof. repeat split. Qed.
Lemma gframe_trans a b c : gframe a b -> gframe b c -> gframe a c.
Proof. unfold gframe. intros (A1&A2) (B1&B2). split; congruence. Qed.
Lemma gframe_upd s bk ms mq bq bc u2i sidx : gframe s (chain_upd s bk ms mq bq bc u2i sidx (c_grants s)).
Proof. repeat split. Qed.
Lemma gframe_subs s subs n : gframe s (chain_set_subs s subs n).
Proof. repeat split. Qed.
Lemma gframe_with_subs s subs : gframe s (with_subs s subs).
Proof. repeat split. Qed.
Lemma gframe_ovm s v p c : gframe s (chain_set_ovm s v p c).
Proof. repeat split. Qed.
Lemma gframe_set_bank s b : gframe s (set_bank s b).
Proof. repeat split. Qed.
Lemma gframe_upd_subs s subs bk ms mq bq bc u2i sidx : gframe s (chain_upd (with_subs s subs) bk ms mq bq bc u2i sidx (c_grants s)).
Proof. repeat split. Qed.
Ltac frame_upd :=
  first [ apply gframe_upd_subs | apply gframe_upd | apply gframe_set_bank
        | apply gframe_ovm | apply gframe_with_subs | apply gframe_subs ].

Lemma market_add_frame s sg tk u st en od sts s' : market_add s sg tk u st en od sts = Some s' -> gframe s s'.
Proof. unfold market_add. intros H; dmatch H; inv H; frame_upd. Qed.
Lemma market_update_frame s tk u st en sts s' : market_update s tk u st en sts = Some s' -> gframe s s'.
Proof. unfold market_update. intros H; dmatch H; inv H; frame_upd. Qed.
Lemma market_resolve_frame s tk u r w sts s' : market_resolve s tk u r w sts = Some s' -> gframe s s'.
Proof. unfold market_resolve. intros H; dmatch H; inv H; frame_upd. Qed.

Lemma wager_core_frame s sg u a sm so ov mu al s' : wager_core s sg u a sm so ov mu al = Some s' -> gframe s s'.
Proof. unfold wager_core. intros H; dmatch H; inv H; frame_upd. Qed.
Lemma bet_wager_frame s sg tk u a sm so ov mu al k ot s' : bet_wager s sg tk u a sm so ov mu al k ot = Some s' -> gframe s s'.
Proof. unfold bet_wager. intros H; dmatch H. eapply wager_core_frame; exact H. Qed.
Lemma do_send_frame s a b k s' : do_send s a b k = Some s' -> gframe s s'.
Proof. unfold do_send. intros H; dmatch H; inv H; frame_upd. Qed.
Lemma ovm_propose_frame s sg tk ks li s' : ovm_propose s sg tk ks li = Some s' -> gframe s s'.
Proof. unfold ovm_propose. intros H; dmatch H; inv H; frame_upd. Qed.
Lemma ovm_vote_frame s tk vi pid v s' : ovm_vote s tk vi pid v = Some s' -> gframe s s'.
Proof. unfold ovm_vote. intros H; dmatch H; inv H; frame_upd. Qed.
Lemma sub_create_frame s c o l s' : sub_create s c o l = Some s' -> gframe s s'.
Proof. unfold sub_create. intros H; dmatch H; inv H. eapply gframe_trans; [apply gframe_subs|]. apply gframe_set_bank. Qed.
Lemma sub_topup_frame s c o l s' : sub_topup s c o l = Some s' -> gframe s s'.
Proof. unfold sub_topup. intros H; dmatch H; inv H. eapply gframe_trans; [apply gframe_with_subs|]. apply gframe_set_bank. Qed.
Lemma sub_withdraw_unlocked_frame s o s' : sub_withdraw_unlocked s o = Some s' -> gframe s s'.
Proof. unfold sub_withdraw_unlocked. intros H; dmatch H; inv H. eapply gframe_trans; [apply gframe_with_subs|]. apply gframe_set_bank. Qed.
Lemma sub_wager_frame s sg tk ic tk2 u a sm so ov mu al k ot md sd s' :
  sub_wager s sg tk ic tk2 u a sm so ov mu al k ot md sd = Some s' -> gframe s s'.
Proof.
  unfold sub_wager. intros H; dmatch H.
  eapply gframe_trans; [|eapply wager_core_frame; exact H].
  eapply gframe_trans; [apply gframe_with_subs|]. apply gframe_set_bank.
Qed.

Lemma bet_endblock_frame fuel : forall s n s', bet_endblock fuel s n = Some s' -> gframe s s'.
Proof.
  induction fuel as [|f IH]; intros s n s' H; cbn [bet_endblock] in H.
  - destruct (n <=? 0); [inv H; apply gframe_refl|discriminate].
  - destruct (n <=? 0); [inv H; apply gframe_refl|].
    destruct (c_mqueue s) as [|m q] eqn:EQ; [inv H; apply gframe_refl|].
    destruct (get_ms s m) as [x|]; [|discriminate].
    destruct (settle_bets _ x (c_bank s) (c_subs s) (c_height s) (c_settledix s) 0) as [[[[[x1 bk1] subs1] sidx1] cnt]|] eqn:ES; [|discriminate].
    destruct (ms_pending x1).
    + destruct (negb (bk_status (ms_book x1) =? BK_ACTIVE)); [discriminate|].
      eapply gframe_trans; [|eapply IH; exact H]. apply gframe_upd_subs.
    + eapply gframe_trans; [|eapply IH; exact H]. apply gframe_upd_subs.
Qed.

Lemma ob_endblock_frame fuel : forall s n i s', ob_endblock fuel s n i = Some s' -> gframe s s'.
Proof.
  induction fuel as [|f IH]; intros s n i s' H; cbn [ob_endblock] in H.
  - destruct (n <=? 0); [inv H; apply gframe_refl|discriminate].
  - destruct (n <=? 0); [inv H; apply gframe_refl|].
    destruct (nth_error (c_bqueue s) i) as [m|]; [|inv H; apply gframe_refl].
    destruct (get_ms s m) as [x|]; [|discriminate].
    destruct (negb (bk_status (ms_book x) =? BK_RESOLVED)); [discriminate|].
    destruct (batch_parts _ _ _ _ _) as [[[[alls cnt] ps] effs]|]; [|discriminate].
    destruct (apply_effects (c_bank s) (c_subs s) effs) as [[bk1 subs1]|] eqn:EA; [|discriminate].
    eapply gframe_trans; [|eapply IH; exact H]. apply gframe_upd_subs.
Qed.

Lemma end_block_frame s : gframe s (fst (end_block s)).
Proof.
  unfold end_block.
  destruct (bet_endblock _ s _) as [s1|] eqn:E1; [|repeat split].
  destruct (ob_endblock _ s1 _ _) as [s2|] eqn:E2; [|repeat split].
  cbn [fst]. eapply gframe_trans; [eapply bet_endblock_frame; exact E1|].
  eapply gframe_trans; [eapply ob_endblock_frame; exact E2|].
  unfold ovm_endblock. destruct (ovm_finish _ _ _ _). apply gframe_ovm.
Qed.

(* ---- the invariant ------------------------------------------------------------------------------------------------------------------------ *)
Definition unexpired (now : Z) (g : grant) : Prop := g_exp g < 0 \/ now <= g_exp g.
Definition glive (s : chain) : Prop := forall g, In g (c_grants s) -> unexpired (c_now s) g.

Lemma glive_frame s s' : gframe s s' -> glive s -> glive s'.
Proof. intros [E1 E2] G g Hg. rewrite E1. apply G. rewrite <- E2. exact Hg. Qed.

Lemma in_remb {A} (f : A -> bool) l x : In x (remb f l) -> In x l.
Proof. unfold remb. intros H. apply filter_In in H. tauto. Qed.

Lemma in_upd' {A} (f : A -> bool) (v : A) (l : list A) x : In x (upd f v l) -> x = v \/ In x l.
Proof.
  induction l as [|y r IH]; cbn [upd]; intros H.
  - destruct H as [H|[]]. left. symmetry. exact H.
  - destruct (f y).
    + destruct H as [H|H]; [left; symmetry; exact H|right; right; exact H].
    + destruct H as [H|H]; [right; left; exact H|]. destruct (IH H) as [E|E]; [left; exact E|right; right; exact E].
Qed.

(* a delegated action needs a grant, and that grant is unexpired; what is left of the store is unexpired too *)
Lemma use_grant_live now gs grantee granter kind amount gs' :
  use_grant now gs grantee granter kind amount = Some gs' -> (forall g, In g gs -> unexpired now g) ->
  (exists g, findb (grant_is grantee granter kind) gs = Some g /\ unexpired now g /\ amount <= g_limit g) /\
  forall g, In g gs' -> unexpired now g.
Proof.
  unfold use_grant. intros H G.
  destruct (findb (grant_is grantee granter kind) gs) as [g|] eqn:EF; [|discriminate].
  assert (Hg : In g gs) by (apply find_some in EF; tauto).
  destruct (g_limit g - amount <? 0) eqn:E1; [discriminate|]. apply Z.ltb_ge in E1.
  split; [exists g; split; [reflexivity|split; [apply G; exact Hg|lia]]|].
  destruct (g_limit g - amount =? 0).
  - inv H. intros h Hh. apply G. apply in_remb in Hh. exact Hh.
  - destruct ((0 <=? g_exp g) && (g_exp g <=? now)); [discriminate|]. inv H. intros h Hh. apply in_upd' in Hh. destruct Hh as [->|Hh]; [|apply G; exact Hh].
    pose proof (G g Hg) as U. unfold unexpired in *. cbn [g_exp]. exact U.
Qed.

Lemma glive_grants s bk ms mq bq bc u2i sidx gr subs :
  (forall g, In g gr -> unexpired (c_now s) g) -> glive (chain_upd (with_subs s subs) bk ms mq bq bc u2i sidx gr).
Proof. intros H g Hg. exact (H g Hg). Qed.

Lemma house_deposit_core_live s c d m a gr s' : house_deposit_core s c d m a gr = Some s' ->
  (forall g, In g gr -> unexpired (c_now s) g) -> glive s'.
Proof. unfold house_deposit_core. intros H G; dmatch H; inv H. apply glive_grants. exact G. Qed.

Lemma deposit_validate_live s sg tk m a k d az dp gr : deposit_validate s sg tk m a k d az = Some (dp, gr) -> glive s ->
  forall g, In g gr -> unexpired (c_now s) g.
Proof.
  unfold deposit_validate. intros H G. cbv zeta in H.
  repeat (match type of H with (if ?c then None else _) = _ => destruct c; [discriminate|] end).
  destruct ((0 <=? d) && negb (d =? sg)) eqn:EO.
  - destruct (use_grant (c_now s) (c_grants s) sg d GK_DEPOSIT a) as [gr0|] eqn:EG; [|discriminate].
    destruct (negb (kyc_ok k d)); [discriminate|]. inv H. exact (proj2 (use_grant_live _ _ _ _ _ _ _ EG G)).
  - destruct (negb (kyc_ok k sg)); [discriminate|]. inv H. exact G.
Qed.

Lemma house_deposit_live s sg tk m a k d s' : house_deposit s sg tk m a k d = Some s' -> glive s -> glive s'.
Proof.
  unfold house_deposit. intros H G. destruct (deposit_validate s sg tk m a k d true) as [[dp gr]|] eqn:EV; [|discriminate].
  eapply house_deposit_core_live; [exact H|]. eapply deposit_validate_live; eassumption.
Qed.

Lemma withdraw_core_live s sg d m p mo a ob s' amt : withdraw_core s sg d m p mo a ob = Some (s', amt) -> glive s -> glive s'.
Proof.
  unfold withdraw_core. intros H G.
  destruct (get_ms s m) as [x|]; [|discriminate]. destruct (findb _ _); [|discriminate]. destruct (_ <=? _); [discriminate|].
  destruct (calc_withdrawal _ _ _ _ _ _) as [amt0|]; [|discriminate].
  destruct (if ob then use_grant (c_now s) (c_grants s) sg d GK_WITHDRAW amt0 else Some (c_grants s)) as [gr|] eqn:EG; [|discriminate].
  destruct (withdraw_participation _ _ _) as [[bk effs]|]; [|discriminate].
  destruct (apply_effects _ _ _) as [[bank' subs']|]; [|discriminate]. injection H as <- _.
  apply glive_grants. destruct ob; [exact (proj2 (use_grant_live _ _ _ _ _ _ _ EG G))|inv EG; exact G].
Qed.

Lemma do_grant_live s a b k l e s' : do_grant s a b k l e = Some s' -> glive s -> glive s'.
Proof.
  unfold do_grant. intros H G. cbv zeta in H. dmatch H. inv H. intros h Hh. cbn [c_grants c_now chain_upd] in *.
  apply in_upd' in Hh. destruct Hh as [->|Hh]; [|apply G; exact Hh].
  unfold unexpired. cbn [g_exp].
  match goal with E : (0 <=? e) && (e <=? c_now s) = false |- _ => apply andb_false_iff in E; destruct E as [E|E]; apply Z.leb_gt in E; lia end.
Qed.

Lemma do_revoke_live s a b k s' : do_revoke s a b k = Some s' -> glive s -> glive s'.
Proof. unfold do_revoke. intros H G. dmatch H. inv H. intros h Hh. cbn [c_grants c_now chain_upd] in *. apply G. apply in_remb in Hh. exact Hh. Qed.

Lemma begin_block_live s t : glive s -> glive (fst (begin_block_op s t)).
Proof.
  intros G. unfold begin_block_op. destruct (begin_block _ _ _ _) as [m minted|]; cbn [fst].
  - intros g Hg. cbn [c_grants c_now chain_core] in *. apply filter_In in Hg. destruct Hg as [_ Hg].
    apply orb_true_iff in Hg. destruct Hg as [Hg|Hg]; [left; apply Z.ltb_lt in Hg; exact Hg|right; apply Z.leb_le in Hg; exact Hg].
  - intros g Hg. apply (G g Hg).
Qed.

Lemma tx_live s r : glive s -> (forall s', r = Some s' -> glive s') -> glive (fst (tx s r)).
Proof. intros G H. unfold tx. destruct r as [s'|]; cbn [fst]; [apply H; reflexivity|exact G]. Qed.

Theorem step_glive s o : glive s -> glive (fst (step s o)).
Proof.
  intros G. unfold step. destruct (c_halted s); [exact G|].
  destruct o; try (apply tx_live; [exact G|intros s' H]).
  - apply begin_block_live. exact G.
  - apply (glive_frame s); [apply end_block_frame|exact G].
  - apply (glive_frame s); [eapply market_add_frame; exact H|exact G].
  - apply (glive_frame s); [eapply market_update_frame; exact H|exact G].
  - apply (glive_frame s); [eapply market_resolve_frame; exact H|exact G].
  - eapply house_deposit_live; eassumption.
  - unfold house_withdraw in H. dmatch H. inv H. match goal with E : withdraw_core _ _ _ _ _ _ _ _ = Some _ |- _ => eapply withdraw_core_live; [exact E|exact G] end.
  - apply (glive_frame s); [eapply bet_wager_frame; exact H|exact G].
  - eapply do_grant_live; eassumption.
  - eapply do_revoke_live; eassumption.
  - apply (glive_frame s); [eapply do_send_frame; exact H|exact G].
  - apply (glive_frame s); [eapply ovm_propose_frame; exact H|exact G].
  - apply (glive_frame s); [eapply ovm_vote_frame; exact H|exact G].
  - apply (glive_frame s); [eapply sub_create_frame; exact H|exact G].
  - apply (glive_frame s); [eapply sub_topup_frame; exact H|exact G].
  - apply (glive_frame s); [eapply sub_withdraw_unlocked_frame; exact H|exact G].
  - apply (glive_frame s); [eapply sub_wager_frame; exact H|exact G].
  - (* deposit through the subaccount: the authz store is handed through unchanged *)
    unfold sub_house_deposit in H. dmatch H. inv H.
    match goal with E1 : deposit_validate _ _ _ _ _ _ _ _ = Some (_, ?gr), E2 : house_deposit_core _ _ _ _ _ _ = Some ?s1 |- _ =>
      pose proof (house_deposit_core_live _ _ _ _ _ _ _ E2 (deposit_validate_live _ _ _ _ _ _ _ _ _ _ E1 G)) as G1 end.
    intros g Hg. apply (G1 g Hg).
  - unfold sub_house_withdraw in H. dmatch H. inv H.
    match goal with E : withdraw_core _ _ _ _ _ _ _ _ = Some (?s1, _) |- _ => pose proof (withdraw_core_live _ _ _ _ _ _ _ _ _ _ E G) as G1 end.
    intros g Hg. apply (G1 g Hg).
Qed.

Theorem run_glive ops : forall s, glive s -> glive (run s ops).
Proof. induction ops as [|o r IH]; intros s G; cbn [run fold_left]; [exact G|]. apply IH. apply step_glive. exact G. Qed.

(* over every history: the authz store only holds unexpired grants, hence (use_grant_live) every delegated deposit or withdrawal is
   executed under an existing, unexpired grant whose limit covers the executed amount *)
Theorem grants_unexpired_over_histories bk supply P vault MP t0 sw sd ops g :
  In g (c_grants (run (init bk supply P vault MP t0 sw sd) ops)) ->
  g_exp g < 0 \/ c_now (run (init bk supply P vault MP t0 sw sd) ops) <= g_exp g.
Proof. intros Hg. apply (run_glive ops (init bk supply P vault MP t0 sw sd)); [intros h []|exact Hg]. Qed.

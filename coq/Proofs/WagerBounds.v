(* Proofs/WagerBounds.v — C03: through the whole fulfilment loop no backing part is negative (neither its stake nor
   its promised payout) and the stakes taken never add up to more than the requested stake.
   True since the repair of D3 (the stake of a partial fill is kept within [0, remaining bet amount]). *)
From Coq Require Import ZArith Bool List Lia.
From Sge Require Import Lib.Dec Model.Types Model.Orderbook Proofs.Tactics Proofs.DecFacts Proofs.WagerLoop.
Import ListNotations.
Open Scope Z_scope.

Definition part_nonneg (f : bpart) : Prop := 0 <= f_stake f /\ 0 <= f_pay f.

(* B = the requested stake (amount - fee) *)
Record wbound (B : Z) (s : wstate) : Prop := {
  wb_left : 0 <= ws_betamt s;
  wb_total : ws_betamt s + ws_fulfilled s = B;
  wb_profit : 0 <= ws_profit s;
  wb_parts : Forall part_nonneg (ws_parts s) }.

Lemma trunc_le a : 0 <= a -> 0 <= dec_trunc_int a /\ dec_of_int (dec_trunc_int a) <= a.
Proof.
  intros Ha. unfold dec_trunc_int, dec_of_int. rewrite chop_trunc_nonneg by exact Ha.
  pose proof PREC_pos as HP. split; [apply Z.div_pos; lia|].
  pose proof (Z.mul_div_le a PREC HP). lia.
Qed.

(* what fulfill() is called with *)
Lemma iter_switch_bounds A p0 pe0 s p1 pe1 setf so c1 :
  iter_switch A p0 pe0 s = (p1, pe1, setf, so, c1) -> 0 <= ws_betamt s -> 0 <= ws_profit s ->
  match so with
  | Some (stake, pay) => 0 <= stake <= ws_betamt s /\ 0 <= pay /\ dec_of_int pay <= ws_profit s
  | None => True
  end.
Proof.
  unfold iter_switch. intros H Hb Hp.
  destruct (trunc_le _ Hp) as [Ht0 Ht1].
  destruct (avail_liq (wa_mult A) p0 pe0 <=? 0) eqn:E0; [inv H; exact I|].
  destruct (avail_liq (wa_mult A) p0 pe0 <=? dec_trunc_int (ws_profit s)) eqn:E1.
  - destruct (bet_amount_int _ _ _) as [st0 c].
    destruct (fulfil_records _ _ _ _ _) as [p e]. inv H.
    apply Z.leb_gt in E0. apply Z.leb_le in E1.
    repeat split; try lia. unfold dec_of_int in *. pose proof PREC_pos. nia.
  - destruct (fulfil_records _ _ _ _ _) as [p e]. inv H.
    repeat split; try lia.
Qed.

Lemma wager_iter_bound B A idx s s' : wager_iter A idx s = Some s' -> wbound B s -> wbound B s'.
Proof.
  unfold wager_iter. intros H [Hl Ht Hp Hps].
  destruct (fmap_get (ws_fmap s) idx) as [it|]; [|discriminate].
  destruct (fi_pe it) as [pe0|]; [|discriminate].
  destruct (iter_switch A (fi_part it) pe0 s) as [[[[p1 pe1] setf] so] c1] eqn:ES.
  pose proof (iter_switch_bounds _ _ _ _ _ _ _ _ _ ES Hl Hp) as Hso.
  destruct (iter_betside A (fi_part it) so s) as [[[[ba fu] pr] pa] bk0] eqn:EB.
  assert (HB : 0 <= ba /\ ba + fu = B /\ 0 <= pr /\ Forall part_nonneg pa).
  { unfold iter_betside in EB. destruct so as [[stake pay]|]; inv EB.
    - destruct Hso as [Hs [Hpay Hle]]. repeat split; try lia.
      apply Forall_app. split; [exact Hps|]. constructor; [|constructor]. split; cbn; lia.
    - repeat split; assumption. }
  destruct HB as [H1 [H2 [H3 H4]]].
  destruct (iter_fulfilled A idx it setf p1 pe1 (ws_uq s) bk0) as [[[[p3 pe3] uq3] bk1]|]; [|discriminate].
  destruct ((p_enf p3 =? 0) && eligible_pre p3).
  - destruct (iter_refresh A idx it p3 _ (ws_fmap s) uq3) as [[bk5 fm2] uq5].
    inversion H. constructor; cbn; assumption.
  - inversion H. constructor; cbn; assumption.
Qed.

Lemma wager_loop_bound B fuel : forall A q s s', wager_loop fuel A q s = Some s' -> wbound B s -> wbound B s'.
Proof.
  induction fuel as [|f IH]; intros A q s s' H Hinv; destruct q as [|idx rest]; cbn [wager_loop] in H.
  - inv H. exact Hinv.
  - discriminate.
  - inv H. exact Hinv.
  - destruct (wager_iter A idx s) as [s1|] eqn:E; [|discriminate].
    pose proof (wager_iter_bound _ _ _ _ _ E Hinv) as H1.
    destruct ((ws_profit s1 <? PREC) || _); [inv H; exact H1|].
    eapply IH; eassumption.
Qed.

(* ProcessWager called with a non-negative requested stake and profit: every part is non-negative and the stakes add up
   to at most the requested stake *)
Theorem process_wager_bounds b A betamt profit bettor fee b' parts effs :
  process_wager b A betamt profit bettor fee = Some (b', parts, effs) -> 0 <= betamt -> 0 <= profit ->
  Forall part_nonneg parts /\ 0 <= zsum (map f_stake parts) <= betamt.
Proof.
  unfold process_wager. intros H Hb Hp.
  destruct (get_queue b (wa_sel A)) as [q|]; [|discriminate].
  destruct (init_fmap b (wa_sel A)) as [fm|]; [|discriminate].
  match type of H with context [wager_loop ?f ?a ?qq ?s0] => destruct (wager_loop f a qq s0) as [s|] eqn:EL end; [|discriminate].
  destruct (PREC <=? ws_profit s); [discriminate|].
  destruct (ws_parts s) as [|x r] eqn:EP; [discriminate|].
  inv H.
  assert (Hw : wbound betamt s).
  { eapply wager_loop_bound; [exact EL|]. constructor; cbn; try lia. constructor. }
  assert (Hs : ws_sum_inv s) by (eapply wager_loop_sum; [exact EL|reflexivity]).
  destruct Hw as [Hl Ht _ Hps]. unfold ws_sum_inv in Hs. rewrite EP in *.
  split; [exact Hps|]. rewrite <- Hs.
  assert (0 <= ws_fulfilled s); [|lia].
  rewrite Hs. clear -Hps. induction Hps as [|f l [Hf _] _ IH]; cbn; lia.
Qed.

(* ---- the stored bet ---------------------------------------------------------------------------------------- *)
From Sge Require Import Model.Mint Model.Chain.

Lemma payout_profit_nonneg ov amt pr : payout_profit ov amt = Some pr -> 0 <= amt -> 0 <= pr.
Proof.
  unfold payout_profit, dec_mulint, dec_of_int. destruct (ov <=? PREC) eqn:E; [discriminate|].
  intros H Ha. inv H. apply Z.leb_gt in E. nia.
Qed.

(* a successful wager records a bet none of whose backing parts is negative and whose stake (= the amount charged, by
   wager_core_record) is at most the requested amount minus the fee; the only hypothesis is the validated parameter
   constraint fee <= minimum amount *)
Theorem wager_core_bounds s sg u a sm so ov mu al s' :
  wager_core s sg u a sm so ov mu al = Some s' -> pr_bet_fee (c_prm s) <= pr_bet_min (c_prm s) ->
  exists x x' b,
    get_ms s sm = Some x /\ get_ms s' sm = Some x' /\ ms_bets x' = ms_bets x ++ [b] /\ b_uid b = u /\
    Forall part_nonneg (b_parts b) /\ 0 <= b_amount b <= a - pr_bet_fee (c_prm s).
Proof.
  unfold wager_core. intros H HP.
  destruct (get_ms s sm) as [x|] eqn:EM; [|discriminate].
  dmatch H. inv H.
  match goal with E : (a <? _) = false |- _ => apply Z.ltb_ge in E; rename E into Hmin end.
  match goal with E : payout_profit _ _ = Some _ |- _ => pose proof (payout_profit_nonneg _ _ _ E ltac:(lia)) as Hpr end.
  match goal with E : process_wager _ _ _ _ _ _ = Some _ |- _ =>
    destruct (process_wager_bounds _ _ _ _ _ _ _ _ _ E ltac:(lia) Hpr) as [Hnn Hsum] end.
  eexists x, _, _. split; [reflexivity|]. split.
  { unfold get_ms. cbn [c_ms chain_upd]. unfold set_ms_list.
    unfold get_ms in EM. destruct (findb (fun y => fst y =? sm) (c_ms s)) as [[k v]|] eqn:EF; [|discriminate].
    inv EM. clear - EF. induction (c_ms s) as [|[k2 v2] r IH]; cbn [findb find] in EF; [discriminate|].
    cbn [upd findb find fst] in *. destruct (k2 =? sm) eqn:Ek; cbn [findb find fst].
    - rewrite Z.eqb_refl. reflexivity.
    - rewrite Ek. apply IH. exact EF. }
  cbn [ms_bets mstate_upd b_uid b_parts b_amount]. split; [reflexivity|]. split; [reflexivity|]. split; [exact Hnn|]. cbn [b_amount]. exact Hsum.
Qed.

(* Proofs/Supply.v — token conservation: every custom operation is a transfer (C13 neutrality). *)
From Coq Require Import ZArith Bool List Lia.
From Sge Require Import Lib.Dec Model.Types Model.Orderbook Model.Mint Model.Chain Proofs.Tactics.
Import ListNotations.
Open Scope Z_scope.

Lemma bsum_badd b k d : bsum (badd b k d) = bsum b + d.
Proof.
  unfold bsum. induction b as [|[k' v] r IH]; cbn [badd map snd zsum]; [lia|].
  destruct (k' =? k); cbn [map snd zsum]; lia.
Qed.

Lemma bget_badd_same b k d : bget (badd b k d) k = bget b k + d.
Proof.
  induction b as [|[k' v] r IH]; cbn [badd bget].
  - rewrite Z.eqb_refl. lia.
  - destruct (k' =? k) eqn:E; cbn [bget]; rewrite E; [lia|exact IH].
Qed.

Lemma bget_badd_other b k k2 d : k2 <> k -> bget (badd b k d) k2 = bget b k2.
Proof.
  intros Hne. induction b as [|[k' v] r IH]; cbn [badd bget].
  - destruct (k =? k2) eqn:E; [apply Z.eqb_eq in E; lia|reflexivity].
  - destruct (k' =? k) eqn:E; cbn [bget].
    + apply Z.eqb_eq in E. subst k'. destruct (k =? k2) eqn:E2; [apply Z.eqb_eq in E2; lia|reflexivity].
    + destruct (k' =? k2); [reflexivity|exact IH].
Qed.

Lemma pay_bsum b f t a b' : pay b f t a = Some b' -> bsum b' = bsum b.
Proof.
  unfold pay. intros H. dmatch H. inv H. rewrite !bsum_badd. lia.
Qed.

Lemma hook_sub_bsum b subs a f fwd b' subs' :
  hook_sub b subs a f fwd = Some (b', subs') -> bsum b' = bsum b.
Proof.
  unfold hook_sub. intros H. dmatch H; inv H; try reflexivity.
  eapply pay_bsum; eassumption.
Qed.

Lemma apply_effects_bsum effs : forall b subs b' subs', apply_effects b subs effs = Some (b', subs') -> bsum b' = bsum b.
Proof.
  induction effs as [|e r IH]; intros b subs b' subs' H; cbn [apply_effects] in H.
  - inv H. reflexivity.
  - destruct e.
    + destruct (pay b from to amt) as [b1|] eqn:E; [|discriminate].
      rewrite (IH _ _ _ _ H). eapply pay_bsum; exact E.
    + destruct (hook_sub b subs a _ profit) as [[b1 s1]|] eqn:E; [|discriminate].
      rewrite (IH _ _ _ _ H). eapply hook_sub_bsum; exact E.
    + destruct (hook_sub b subs a _ 0) as [[b1 s1]|] eqn:E; [|discriminate].
      rewrite (IH _ _ _ _ H). eapply hook_sub_bsum; exact E.
    + destruct (hook_sub b subs a _ 0) as [[b1 s1]|] eqn:E; [|discriminate].
      rewrite (IH _ _ _ _ H). eapply hook_sub_bsum; exact E.
    + destruct (hook_sub b subs a _ 0) as [[b1 s1]|] eqn:E; [|discriminate].
      rewrite (IH _ _ _ _ H). eapply hook_sub_bsum; exact E.
Qed.

(* what a transaction-level handler may change: everything but supply, minter, mint params *)
Definition mint_frame (s s' : chain) : Prop :=
  c_supply s' = c_supply s /\ c_minter s' = c_minter s /\ c_mparams s' = c_mparams s /\
  bsum (c_bank s') = bsum (c_bank s).

Lemma mint_frame_refl s : mint_frame s s.
Proof. repeat split. Qed.

Lemma mint_frame_trans a b c : mint_frame a b -> mint_frame b c -> mint_frame a c.
Proof. unfold mint_frame. intros (A1&A2&A3&A4) (B1&B2&B3&B4). repeat split; congruence. Qed.

Lemma mint_frame_upd s bk ms mq bq bc u2i sidx gr :
  bsum bk = bsum (c_bank s) -> mint_frame s (chain_upd s bk ms mq bq bc u2i sidx gr).
Proof. intros H. repeat split; cbn; assumption. Qed.

Lemma mint_frame_subs s subs n : mint_frame s (chain_set_subs s subs n).
Proof. repeat split. Qed.
Lemma mint_frame_with_subs s subs : mint_frame s (with_subs s subs).
Proof. repeat split. Qed.
Lemma mint_frame_ovm s v p c : mint_frame s (chain_set_ovm s v p c).
Proof. repeat split. Qed.
Lemma mint_frame_set_bank s b : bsum b = bsum (c_bank s) -> mint_frame s (set_bank s b).
Proof. intros H. repeat split; cbn; assumption. Qed.

(* chain_upd over a state whose subaccounts were replaced *)
Lemma mint_frame_upd_subs s subs bk ms mq bq bc u2i sidx gr :
  bsum bk = bsum (c_bank s) -> mint_frame s (chain_upd (with_subs s subs) bk ms mq bq bc u2i sidx gr).
Proof. intros H. repeat split; cbn; assumption. Qed.

Ltac bsum_hyps :=
  repeat match goal with
  | H : apply_effects _ _ _ = Some _ |- _ => rewrite (apply_effects_bsum _ _ _ _ _ H); clear H
  | H : pay _ _ _ _ = Some _ |- _ => rewrite (pay_bsum _ _ _ _ _ H); clear H
  end; try reflexivity.
Ltac frame_upd :=
  first [ apply mint_frame_upd_subs | apply mint_frame_upd | apply mint_frame_set_bank
        | apply mint_frame_ovm | apply mint_frame_with_subs | apply mint_frame_subs ]; bsum_hyps.

Lemma market_add_frame s sg tk u st en od sts s' : market_add s sg tk u st en od sts = Some s' -> mint_frame s s'.
Proof. unfold market_add. intros H; dmatch H; inv H; frame_upd. Qed.
Lemma market_update_frame s tk u st en sts s' : market_update s tk u st en sts = Some s' -> mint_frame s s'.
Proof. unfold market_update. intros H; dmatch H; inv H; frame_upd. Qed.
Lemma market_resolve_frame s tk u r w sts s' : market_resolve s tk u r w sts = Some s' -> mint_frame s s'.
Proof. unfold market_resolve. intros H; dmatch H; inv H; frame_upd. Qed.
Lemma house_deposit_core_frame s c d m a g s' : house_deposit_core s c d m a g = Some s' -> mint_frame s s'.
Proof. unfold house_deposit_core. intros H; dmatch H; inv H; frame_upd. Qed.
Lemma house_deposit_frame s sg tk m a k d s' : house_deposit s sg tk m a k d = Some s' -> mint_frame s s'.
Proof. unfold house_deposit. intros H; dmatch H. eapply house_deposit_core_frame; exact H. Qed.
Lemma withdraw_core_frame s sg d m p mo a ob s' amt : withdraw_core s sg d m p mo a ob = Some (s', amt) -> mint_frame s s'.
Proof. unfold withdraw_core. intros H; dmatch H; inv H; frame_upd. Qed.
Lemma house_withdraw_frame s sg tk m p mo a k d s' : house_withdraw s sg tk m p mo a k d = Some s' -> mint_frame s s'.
Proof.
  unfold house_withdraw. intros H. dmatch H. inv H.
  match goal with E : withdraw_core _ _ _ _ _ _ _ _ = Some _ |- _ => eapply withdraw_core_frame; exact E end.
Qed.
Lemma wager_core_frame s sg u a sm so ov mu al s' : wager_core s sg u a sm so ov mu al = Some s' -> mint_frame s s'.
Proof. unfold wager_core. intros H; dmatch H; inv H; frame_upd. Qed.
Lemma bet_wager_frame s sg tk u a sm so ov mu al k ot s' : bet_wager s sg tk u a sm so ov mu al k ot = Some s' -> mint_frame s s'.
Proof. unfold bet_wager. intros H; dmatch H. eapply wager_core_frame; exact H. Qed.
Lemma do_grant_frame s a b k l e s' : do_grant s a b k l e = Some s' -> mint_frame s s'.
Proof. unfold do_grant. intros H; dmatch H; inv H; frame_upd. Qed.
Lemma do_revoke_frame s a b k s' : do_revoke s a b k = Some s' -> mint_frame s s'.
Proof. unfold do_revoke. intros H; dmatch H; inv H; frame_upd. Qed.
Lemma do_send_frame s a b k s' : do_send s a b k = Some s' -> mint_frame s s'.
Proof. unfold do_send. intros H; dmatch H; inv H; frame_upd. Qed.
Lemma ovm_propose_frame s sg tk ks li s' : ovm_propose s sg tk ks li = Some s' -> mint_frame s s'.
Proof. unfold ovm_propose. intros H; dmatch H; inv H; frame_upd. Qed.
Lemma ovm_vote_frame s tk vi pid v s' : ovm_vote s tk vi pid v = Some s' -> mint_frame s s'.
Proof. unfold ovm_vote. intros H; dmatch H; inv H; frame_upd. Qed.
Lemma sub_create_frame s c o l s' : sub_create s c o l = Some s' -> mint_frame s s'.
Proof.
  unfold sub_create. intros H; dmatch H; inv H.
  eapply mint_frame_trans; [apply mint_frame_subs|]. apply mint_frame_set_bank. cbn. bsum_hyps.
Qed.
Lemma sub_topup_frame s c o l s' : sub_topup s c o l = Some s' -> mint_frame s s'.
Proof.
  unfold sub_topup. intros H; dmatch H; inv H.
  eapply mint_frame_trans; [apply mint_frame_with_subs|]. apply mint_frame_set_bank. cbn. bsum_hyps.
Qed.
Lemma sub_withdraw_unlocked_frame s o s' : sub_withdraw_unlocked s o = Some s' -> mint_frame s s'.
Proof.
  unfold sub_withdraw_unlocked. intros H; dmatch H; inv H.
  eapply mint_frame_trans; [apply mint_frame_with_subs|]. apply mint_frame_set_bank. cbn. bsum_hyps.
Qed.
Lemma sub_wager_frame s sg tk ic tk2 u a sm so ov mu al k ot md sd s' :
  sub_wager s sg tk ic tk2 u a sm so ov mu al k ot md sd = Some s' -> mint_frame s s'.
Proof.
  unfold sub_wager. intros H; dmatch H.
  eapply mint_frame_trans; [|eapply wager_core_frame; exact H].
  eapply mint_frame_trans; [apply mint_frame_with_subs|]. apply mint_frame_set_bank. cbn. bsum_hyps.
Qed.
Lemma sub_house_deposit_frame s sg tk m a k d s' : sub_house_deposit s sg tk m a k d = Some s' -> mint_frame s s'.
Proof.
  unfold sub_house_deposit. intros H; dmatch H; inv H.
  eapply mint_frame_trans; [eapply house_deposit_core_frame; eassumption|apply mint_frame_with_subs].
Qed.
Lemma sub_house_withdraw_frame s sg tk m p mo a k d s' : sub_house_withdraw s sg tk m p mo a k d = Some s' -> mint_frame s s'.
Proof.
  unfold sub_house_withdraw. intros H; dmatch H; inv H.
  eapply mint_frame_trans; [eapply withdraw_core_frame; eassumption|apply mint_frame_with_subs].
Qed.

Lemma settle_bets_bsum ids : forall x bk subs h sidx cnt x' bk' subs' sidx' cnt',
  settle_bets ids x bk subs h sidx cnt = Some (x', bk', subs', sidx', cnt') -> bsum bk' = bsum bk.
Proof.
  induction ids as [|id r IH]; intros x bk subs h sidx cnt x' bk' subs' sidx' cnt' H; cbn [settle_bets] in H.
  - inv H. reflexivity.
  - destruct (settle_bet x h id) as [[x1 effs]|]; [|discriminate].
    destruct (apply_effects bk subs effs) as [[bk1 subs1]|] eqn:E; [|discriminate].
    rewrite (IH _ _ _ _ _ _ _ _ _ _ _ H). eapply apply_effects_bsum; exact E.
Qed.

Lemma bet_endblock_frame fuel : forall s n s', bet_endblock fuel s n = Some s' -> mint_frame s s'.
Proof.
  induction fuel as [|f IH]; intros s n s' H; cbn [bet_endblock] in H.
  - destruct (n <=? 0); [inv H; apply mint_frame_refl|discriminate].
  - destruct (n <=? 0); [inv H; apply mint_frame_refl|].
    destruct (c_mqueue s) as [|m q] eqn:EQ; [inv H; apply mint_frame_refl|].
    destruct (get_ms s m) as [x|]; [|discriminate].
    destruct (settle_bets _ x (c_bank s) (c_subs s) (c_height s) (c_settledix s) 0) as [[[[[x1 bk1] subs1] sidx1] cnt]|] eqn:ES; [|discriminate].
    pose proof (settle_bets_bsum _ _ _ _ _ _ _ _ _ _ _ _ ES) as Hb.
    destruct (ms_pending x1).
    + destruct (negb (bk_status (ms_book x1) =? BK_ACTIVE)); [discriminate|].
      eapply mint_frame_trans; [|eapply IH; exact H]. apply mint_frame_upd_subs. exact Hb.
    + eapply mint_frame_trans; [|eapply IH; exact H]. apply mint_frame_upd_subs. exact Hb.
Qed.

Lemma ob_endblock_frame fuel : forall s n i s', ob_endblock fuel s n i = Some s' -> mint_frame s s'.
Proof.
  induction fuel as [|f IH]; intros s n i s' H; cbn [ob_endblock] in H.
  - destruct (n <=? 0); [inv H; apply mint_frame_refl|discriminate].
  - destruct (n <=? 0); [inv H; apply mint_frame_refl|].
    destruct (nth_error (c_bqueue s) i) as [m|]; [|inv H; apply mint_frame_refl].
    destruct (get_ms s m) as [x|]; [|discriminate].
    destruct (negb (bk_status (ms_book x) =? BK_RESOLVED)); [discriminate|].
    destruct (batch_parts _ _ _ _ _) as [[[[alls cnt] ps] effs]|]; [|discriminate].
    destruct (apply_effects (c_bank s) (c_subs s) effs) as [[bk1 subs1]|] eqn:EA; [|discriminate].
    eapply mint_frame_trans; [|eapply IH; exact H]. apply mint_frame_upd_subs.
    eapply apply_effects_bsum; exact EA.
Qed.

Lemma halt_frame s : mint_frame s (halt s).
Proof. repeat split. Qed.

Lemma end_block_frame s : mint_frame s (fst (end_block s)).
Proof.
  unfold end_block.
  destruct (bet_endblock _ s _) as [s1|] eqn:E1; [|apply halt_frame].
  destruct (ob_endblock _ s1 _ _) as [s2|] eqn:E2; [|apply halt_frame].
  cbn [fst]. eapply mint_frame_trans; [eapply bet_endblock_frame; exact E1|].
  eapply mint_frame_trans; [eapply ob_endblock_frame; exact E2|].
  unfold ovm_endblock. destruct (ovm_finish _ _ _ _). apply mint_frame_ovm.
Qed.

Lemma tx_frame s r : (forall s', r = Some s' -> mint_frame s s') -> mint_frame s (fst (tx s r)).
Proof. intros H. unfold tx. destruct r as [s'|]; cbn [fst]; [apply H; reflexivity|apply mint_frame_refl]. Qed.

(* C13 neutrality: every operation other than BeginBlock leaves supply, minter and the sum of all
   balances unchanged *)
Theorem step_neutral s o : (forall t, o <> OBegin t) -> mint_frame s (fst (step s o)).
Proof.
  intros Hnb. unfold step. destruct (c_halted s); [apply mint_frame_refl|].
  destruct o; try (apply tx_frame; intros s' H).
  - exfalso. eapply Hnb. reflexivity.
  - apply end_block_frame.
  - eapply market_add_frame; exact H.
  - eapply market_update_frame; exact H.
  - eapply market_resolve_frame; exact H.
  - eapply house_deposit_frame; exact H.
  - eapply house_withdraw_frame; exact H.
  - eapply bet_wager_frame; exact H.
  - eapply do_grant_frame; exact H.
  - eapply do_revoke_frame; exact H.
  - eapply do_send_frame; exact H.
  - eapply ovm_propose_frame; exact H.
  - eapply ovm_vote_frame; exact H.
  - eapply sub_create_frame; exact H.
  - eapply sub_topup_frame; exact H.
  - eapply sub_withdraw_unlocked_frame; exact H.
  - eapply sub_wager_frame; exact H.
  - eapply sub_house_deposit_frame; exact H.
  - eapply sub_house_withdraw_frame; exact H.
Qed.

(* BeginBlock: supply grows by exactly the minted amount, all of it credited to the fee collector *)
Theorem begin_block_supply s t s' :
  begin_block_op s t = (s', Ok) ->
  exists m minted, begin_block (c_mparams s) (c_minter s) (c_supply s) (c_height s + 1) = BBok m minted /\
    c_supply s' = c_supply s + minted /\ c_minter s' = m /\
    bget (c_bank s') FEECOLL = bget (c_bank s) FEECOLL + minted /\
    (forall k, k <> FEECOLL -> bget (c_bank s') k = bget (c_bank s) k) /\
    bsum (c_bank s') = bsum (c_bank s) + minted.
Proof.
  unfold begin_block_op. intros H.
  destruct (begin_block _ _ _ _) as [m minted|] eqn:E; [|discriminate].
  inv H. exists m, minted. cbn. repeat split.
  - apply bget_badd_same.
  - intros k Hk. apply bget_badd_other. exact Hk.
  - apply bsum_badd.
Qed.

(* the invariant "sum of all balances = total supply" over every history *)
Definition supply_inv (s : chain) : Prop := bsum (c_bank s) = c_supply s.

Lemma step_supply_inv s o : supply_inv s -> supply_inv (fst (step s o)).
Proof.
  unfold supply_inv. intros Hinv.
  destruct o as [t| | | | | | | | | | | | | | | | | | ];
    try (match goal with |- bsum (c_bank (fst (step s ?o))) = _ =>
           destruct (step_neutral s o ltac:(intros t0; discriminate)) as (A&_&_&B); congruence end).
  unfold step. destruct (c_halted s); [exact Hinv|].
  destruct (begin_block_op s t) as [s' r] eqn:E. cbn [fst].
  destruct r.
  - destruct (begin_block_supply s t s' E) as (m & minted & _ & A & _ & _ & _ & B). congruence.
  - unfold begin_block_op in E. destruct (begin_block _ _ _ _); inv E.
  - unfold begin_block_op in E. destruct (begin_block _ _ _ _); inv E. exact Hinv.
Qed.

Theorem run_supply_inv ops : forall s, supply_inv s -> supply_inv (run s ops).
Proof.
  induction ops as [|o r IH]; intros s H; cbn [run fold_left]; [exact H|].
  apply IH. apply step_supply_inv. exact H.
Qed.

(* Proofs/BookAPI.v — the order book as a keyed store: what each write of Model/Orderbook.v does to each read.
   Reads: get_part (participation by index), ge (current exposure by outcome and index), hist_i (archived exposures of
   an index), get_queue.  Writes: set_part, set_expo, move_to_hist, set_queue(s), drop_from_queue, add_pair, set_status. *)
From Coq Require Import ZArith Bool List Lia.
From Sge Require Import Lib.Dec Model.Types Model.Orderbook Proofs.Tactics Proofs.WagerLoop Proofs.CustodyLocal Proofs.Custody.
Import ListNotations.
Open Scope Z_scope.

Definition ge (b : book) (o i : Z) : option expo := findb (expo_is o i) (bk_expo b).
Definition hist_i (b : book) (i : Z) : list expo := filter (fun h => e_part h =? i) (bk_hist b).

(* ---- generic ------------------------------------------------------------------------------------------------------ *)
Lemma find_remb_same {A} (f : A -> bool) l : find f (remb f l) = None.
Proof.
  unfold remb. induction l as [|x r IH]; cbn; [reflexivity|].
  destruct (f x) eqn:E; cbn; [exact IH|rewrite E; exact IH].
Qed.
Lemma find_remb_other {A} (f g : A -> bool) l : (forall y, f y = true -> g y = false) -> find g (remb f l) = find g l.
Proof.
  intros H. unfold remb. induction l as [|x r IH]; cbn; [reflexivity|].
  destruct (f x) eqn:E; cbn.
  - rewrite (H x E). exact IH.
  - destruct (g x); [reflexivity|exact IH].
Qed.
Lemma filter_upd_other {A} (f g : A -> bool) (v : A) l :
  g v = false -> (forall y, f y = true -> g y = false) -> filter g (upd f v l) = filter g l.
Proof.
  intros Hv H. induction l as [|x r IH]; cbn [upd filter]; [rewrite Hv; reflexivity|].
  destruct (f x) eqn:E; cbn [filter].
  - rewrite Hv, (H x E). reflexivity.
  - destruct (g x); [f_equal|]; exact IH.
Qed.
Lemma filter_remb_other {A} (f g : A -> bool) l : (forall y, f y = true -> g y = false) -> filter g (remb f l) = filter g l.
Proof.
  intros H. unfold remb. induction l as [|x r IH]; cbn; [reflexivity|].
  destruct (f x) eqn:E; cbn.
  - rewrite (H x E). exact IH.
  - destruct (g x); [f_equal|]; exact IH.
Qed.
Lemma find_filter {A} (f g : A -> bool) l : find f (filter g l) = find (fun x => g x && f x) l.
Proof.
  induction l as [|x r IH]; cbn; [reflexivity|]. destruct (g x) eqn:Eg; cbn; [|exact IH].
  destruct (f x); [reflexivity|exact IH].
Qed.
Lemma find_ext {A} (f g : A -> bool) l : (forall x, f x = g x) -> find f l = find g l.
Proof. intros H. induction l as [|x r IH]; cbn; [reflexivity|]. rewrite H, IH. reflexivity. Qed.

Lemma expo_is_key o i e : expo_is o i e = true <-> e_odds e = o /\ e_part e = i.
Proof. unfold expo_is. rewrite andb_true_iff, !Z.eqb_eq. tauto. Qed.
Lemma expo_is_self e : expo_is (e_odds e) (e_part e) e = true.
Proof. apply expo_is_key. split; reflexivity. Qed.
Lemma expo_is_other o i o' i' y : (o, i) <> (o', i') -> expo_is o' i' y = true -> expo_is o i y = false.
Proof.
  intros Hne H. apply expo_is_key in H. destruct H as [<- <-].
  destruct (expo_is o i y) eqn:E; [|reflexivity]. apply expo_is_key in E. destruct E as [<- <-]. congruence.
Qed.

(* ---- get_part --------------------------------------------------------------------------------------------------------- *)
Lemma gp_set_part_same b p : get_part (set_part b p) (p_idx p) = Some p.
Proof. unfold get_part, set_part, findb. cbn [bk_parts book_upd]. apply find_upd_same. unfold part_is. apply Z.eqb_refl. Qed.
Lemma gp_set_part_other b p i : i <> p_idx p -> get_part (set_part b p) i = get_part b i.
Proof.
  intros Hne. unfold get_part, set_part, findb. cbn [bk_parts book_upd]. apply find_upd_other; unfold part_is.
  - apply Z.eqb_neq. lia.
  - intros y Hy. apply Z.eqb_eq in Hy. apply Z.eqb_neq. lia.
Qed.
Lemma gp_set_expo b e i : get_part (set_expo b e) i = get_part b i. Proof. reflexivity. Qed.
Lemma gp_move b e i : get_part (move_to_hist b e) i = get_part b i. Proof. reflexivity. Qed.
Lemma gp_set_queue b o q i : get_part (set_queue b o q) i = get_part b i. Proof. reflexivity. Qed.
Lemma gp_set_queues b q i : get_part (set_queues b q) i = get_part b i. Proof. reflexivity. Qed.
Lemma gp_add_pair b x y i : get_part (add_pair b x y) i = get_part b i. Proof. reflexivity. Qed.
Lemma gp_drop b o x i : get_part (drop_from_queue b o x) i = get_part b i.
Proof. unfold drop_from_queue. destruct (get_queue b o); reflexivity. Qed.

(* ---- ge ------------------------------------------------------------------------------------------------------------------ *)
Lemma ge_set_expo_same b e : ge (set_expo b e) (e_odds e) (e_part e) = Some e.
Proof. unfold ge, set_expo, findb. cbn [bk_expo book_upd]. apply find_upd_same. apply expo_is_self. Qed.
Lemma ge_set_expo_other b e o i : (o, i) <> (e_odds e, e_part e) -> ge (set_expo b e) o i = ge b o i.
Proof.
  intros Hne. unfold ge, set_expo, findb. cbn [bk_expo book_upd]. apply find_upd_other.
  - eapply expo_is_other; [exact Hne|apply expo_is_self].
  - intros y Hy. eapply expo_is_other; eassumption.
Qed.
Lemma ge_move_same b e : ge (move_to_hist b e) (e_odds e) (e_part e) = None.
Proof. unfold ge, move_to_hist, findb. cbn [bk_expo book_upd]. apply find_remb_same. Qed.
Lemma ge_move_other b e o i : (o, i) <> (e_odds e, e_part e) -> ge (move_to_hist b e) o i = ge b o i.
Proof.
  intros Hne. unfold ge, move_to_hist, findb. cbn [bk_expo book_upd]. apply find_remb_other.
  intros y Hy. eapply expo_is_other; eassumption.
Qed.
Lemma ge_set_part b p o i : ge (set_part b p) o i = ge b o i. Proof. reflexivity. Qed.
Lemma ge_set_queue b o q o' i : ge (set_queue b o q) o' i = ge b o' i. Proof. reflexivity. Qed.
Lemma ge_set_queues b q o' i : ge (set_queues b q) o' i = ge b o' i. Proof. reflexivity. Qed.
Lemma ge_add_pair b x y o i : ge (add_pair b x y) o i = ge b o i. Proof. reflexivity. Qed.
Lemma ge_drop b o x o' i : ge (drop_from_queue b o x) o' i = ge b o' i.
Proof. unfold drop_from_queue. destruct (get_queue b o); reflexivity. Qed.

(* ---- hist_i ---------------------------------------------------------------------------------------------------------------- *)
Lemma hist_set_part b p i : hist_i (set_part b p) i = hist_i b i. Proof. reflexivity. Qed.
Lemma hist_set_expo b e i : hist_i (set_expo b e) i = hist_i b i. Proof. reflexivity. Qed.
Lemma hist_set_queue b o q i : hist_i (set_queue b o q) i = hist_i b i. Proof. reflexivity. Qed.
Lemma hist_set_queues b q i : hist_i (set_queues b q) i = hist_i b i. Proof. reflexivity. Qed.
Lemma hist_add_pair b x y i : hist_i (add_pair b x y) i = hist_i b i. Proof. reflexivity. Qed.
Lemma hist_drop b o x i : hist_i (drop_from_queue b o x) i = hist_i b i.
Proof. unfold drop_from_queue. destruct (get_queue b o); reflexivity. Qed.
Lemma hist_move_other b e i : i <> e_part e -> hist_i (move_to_hist b e) i = hist_i b i.
Proof.
  intros Hne. unfold hist_i, move_to_hist. cbn [bk_hist book_upd]. apply filter_upd_other.
  - apply Z.eqb_neq. lia.
  - intros y Hy. apply andb_true_iff in Hy. destruct Hy as [Hy _]. apply expo_is_key in Hy. destruct Hy as [_ Hy].
    apply Z.eqb_neq. lia.
Qed.

(* ---- queues ---------------------------------------------------------------------------------------------------------------- *)
Lemma gq_set_queue_same b o q : get_queue (set_queue b o q) o = Some q.
Proof.
  unfold get_queue, set_queue, findb. cbn [bk_queues book_upd].
  rewrite (find_upd_same (fun x : Z * list Z => fst x =? o) (o, q)); [reflexivity|cbn; apply Z.eqb_refl].
Qed.
Lemma gq_set_queue_other b o q o' : o' <> o -> get_queue (set_queue b o q) o' = get_queue b o'.
Proof.
  intros Hne. unfold get_queue, set_queue, findb. cbn [bk_queues book_upd].
  rewrite (find_upd_other (fun x : Z * list Z => fst x =? o) (fun x => fst x =? o') (o, q)); [reflexivity| |].
  - cbn. apply Z.eqb_neq. lia.
  - intros y Hy. apply Z.eqb_eq in Hy. apply Z.eqb_neq. lia.
Qed.
Lemma gq_set_part b p o : get_queue (set_part b p) o = get_queue b o. Proof. reflexivity. Qed.
Lemma gq_set_expo b e o : get_queue (set_expo b e) o = get_queue b o. Proof. reflexivity. Qed.
Lemma gq_move b e o : get_queue (move_to_hist b e) o = get_queue b o. Proof. reflexivity. Qed.
Lemma gq_add_pair b x y o : get_queue (add_pair b x y) o = get_queue b o. Proof. reflexivity. Qed.

Lemma qkeys_set_queue b o q : In o (map fst (bk_queues b)) -> map fst (bk_queues (set_queue b o q)) = map fst (bk_queues b).
Proof.
  intros Hin. unfold set_queue. cbn [bk_queues book_upd]. apply upd_map_same.
  - apply existsb_exists. apply in_map_iff in Hin. destruct Hin as (x & Hx & Hi). exists x. split; [exact Hi|]. apply Z.eqb_eq. exact Hx.
  - intros x _ Hx. apply Z.eqb_eq in Hx. exact Hx.
Qed.

Lemma gq_in_keys b o q : get_queue b o = Some q -> In o (map fst (bk_queues b)).
Proof.
  unfold get_queue, findb. destruct (find _ _) as [x|] eqn:E; [|discriminate]. intros _.
  apply find_some in E. destruct E as [Hi Hx]. apply Z.eqb_eq in Hx. subst o. apply in_map. exact Hi.
Qed.
Lemma keys_in_gq b o : In o (map fst (bk_queues b)) -> exists q, get_queue b o = Some q.
Proof.
  intros Hin. unfold get_queue, findb. destruct (find (fun q => fst q =? o) (bk_queues b)) as [x|] eqn:E; [eexists; reflexivity|].
  exfalso. apply in_map_iff in Hin. destruct Hin as (x & Hx & Hi).
  pose proof (find_none _ _ E x Hi) as H. cbn in H. apply Z.eqb_neq in H. congruence.
Qed.

Lemma gq_drop_same b o x q : get_queue b o = Some q -> get_queue (drop_from_queue b o x) o = Some (filter (fun y => negb (y =? x)) q).
Proof. intros H. unfold drop_from_queue. rewrite H. apply gq_set_queue_same. Qed.
Lemma gq_drop_other b o x o' : o' <> o -> get_queue (drop_from_queue b o x) o' = get_queue b o'.
Proof. intros Hne. unfold drop_from_queue. destruct (get_queue b o); [apply gq_set_queue_other; exact Hne|reflexivity]. Qed.
Lemma qkeys_drop b o x : map fst (bk_queues (drop_from_queue b o x)) = map fst (bk_queues b).
Proof.
  unfold drop_from_queue. destruct (get_queue b o) eqn:E; [|reflexivity]. apply qkeys_set_queue. eapply gq_in_keys; exact E.
Qed.

(* ---- scalar fields -------------------------------------------------------------------------------------------------------- *)
Lemma parts_set_expo b e : bk_parts (set_expo b e) = bk_parts b. Proof. reflexivity. Qed.
Lemma parts_move b e : bk_parts (move_to_hist b e) = bk_parts b. Proof. reflexivity. Qed.
Lemma parts_drop b o x : bk_parts (drop_from_queue b o x) = bk_parts b.
Proof. unfold drop_from_queue. destruct (get_queue b o); reflexivity. Qed.
Lemma partcnt_drop b o x : bk_partcnt (drop_from_queue b o x) = bk_partcnt b.
Proof. unfold drop_from_queue. destruct (get_queue b o); reflexivity. Qed.
Lemma oddscnt_drop b o x : bk_oddscnt (drop_from_queue b o x) = bk_oddscnt b.
Proof. unfold drop_from_queue. destruct (get_queue b o); reflexivity. Qed.
Lemma expo_drop b o x : bk_expo (drop_from_queue b o x) = bk_expo b.
Proof. unfold drop_from_queue. destruct (get_queue b o); reflexivity. Qed.

(* Proofs/SubHist.v — C11 over every history: every subaccount holds at least deposited - withdrawn - spent - lost, none of the four
   amounts is ever negative, each owner has at most one subaccount, and subaccount ids are distinct.
   Signers are user accounts (addresses below the subaccount address range: subaccount addresses are module-derived and have no
   keys); direct bank sends TO a subaccount are allowed (they only add to what it holds). *)
From Coq Require Import ZArith Bool List Lia.
From Sge Require Import Lib.Dec Model.Types Model.Orderbook Model.Mint Model.Chain Proofs.Tactics Proofs.Supply Proofs.WagerLoop
     Proofs.CustodyLocal Proofs.Custody Proofs.SubInv Proofs.Mono Proofs.BookFacts.
Import ListNotations.
Open Scope Z_scope.

Definition user (a : Z) : Prop := 0 <= a < SUBBASE.

Record ledger_ok (bk : bank) (subs : list subacc) : Prop := {
  lo_bank : forall a, SUBBASE <= a -> 0 <= bget bk a;
  lo_ids : NoDup (map sa_id subs);
  lo_each : forall x, In x subs -> 0 <= sa_id x /\ user (sa_owner x) /\ sub_nonneg x /\ sub_available x <= bget bk (sub_addr x) }.

(* ---- replacing a subaccount record ----------------------------------------------------------------------------------------------------- *)
Lemma in_set_sub subs x' y : NoDup (map sa_id subs) -> In y (set_sub subs x') -> y = x' \/ (In y subs /\ sa_id y <> sa_id x').
Proof.
  unfold set_sub. induction subs as [|z r IH]; cbn [upd map]; intros Hnd Hy.
  - destruct Hy as [<-|[]]. left. reflexivity.
  - inversion Hnd as [|? ? Hni Hnd']; subst. destruct (sa_id z =? sa_id x') eqn:E.
    + apply Z.eqb_eq in E. destruct Hy as [<-|Hy]; [left; reflexivity|]. right. split; [right; exact Hy|].
      intros E2. apply Hni. rewrite E, <- E2. apply in_map. exact Hy.
    + apply Z.eqb_neq in E. destruct Hy as [<-|Hy]; [right; split; [left; reflexivity|exact E]|].
      destruct (IH Hnd' Hy) as [->|[H1 H2]]; [left; reflexivity|right; split; [right; exact H1|exact H2]].
Qed.

Lemma set_sub_ids subs x x' : In x subs -> sa_id x' = sa_id x -> map sa_id (set_sub subs x') = map sa_id subs.
Proof.
  intros Hin E. unfold set_sub. apply upd_map_same.
  - apply existsb_exists. exists x. split; [exact Hin|apply Z.eqb_eq; symmetry; exact E].
  - intros y _ Hy. apply Z.eqb_eq in Hy. exact Hy.
Qed.

Lemma sub_addr_inj x y : sub_addr x = sub_addr y -> sa_id x = sa_id y.
Proof. unfold sub_addr. lia. Qed.

(* one subaccount's record and balance change together; the others keep theirs *)
Lemma ledger_set bk subs bk' x x' :
  ledger_ok bk subs -> In x subs -> sa_id x' = sa_id x -> sa_owner x' = sa_owner x -> sub_nonneg x' ->
  (forall a, SUBBASE <= a -> 0 <= bget bk' a) -> sub_available x' <= bget bk' (sub_addr x') ->
  (forall y, In y subs -> sa_id y <> sa_id x -> bget bk (sub_addr y) <= bget bk' (sub_addr y)) ->
  ledger_ok bk' (set_sub subs x').
Proof.
  intros [L1 L2 L3] Hin Ei Eo Hnn Hb Hav Hoth. constructor.
  - exact Hb.
  - rewrite (set_sub_ids subs x x' Hin Ei). exact L2.
  - intros y Hy. destruct (in_set_sub subs x' y L2 Hy) as [->|[Hy1 Hy2]].
    + destruct (L3 x Hin) as (A & B & _). split; [rewrite Ei; exact A|]. split; [rewrite Eo; exact B|]. split; [exact Hnn|exact Hav].
    + destruct (L3 y Hy1) as (A & B & C & D). split; [exact A|]. split; [exact B|]. split; [exact C|]. rewrite Ei in Hy2. pose proof (Hoth y Hy1 Hy2). lia.
Qed.

(* only the bank moves, no subaccount address is debited *)
Lemma ledger_bank bk subs bk' : ledger_ok bk subs -> (forall a, SUBBASE <= a -> 0 <= bget bk' a) ->
  (forall a, SUBBASE <= a -> bget bk a <= bget bk' a) -> ledger_ok bk' subs.
Proof.
  intros [L1 L2 L3] Hb Hm. constructor; [exact Hb|exact L2|].
  intros x Hx. destruct (L3 x Hx) as (A & B & C & D). split; [exact A|]. split; [exact B|]. split; [exact C|].
  assert (SUBBASE <= sub_addr x) by (unfold sub_addr; lia). pose proof (Hm _ H). lia.
Qed.

Lemma pay_nonneg bk f t a bk' : pay bk f t a = Some bk' -> (forall x, SUBBASE <= x -> 0 <= bget bk x) ->
  0 <= a /\ a <= bget bk f /\ forall x, SUBBASE <= x -> 0 <= bget bk' x.
Proof.
  intros H Hb. pose proof (fun x => pay_bget _ _ _ _ _ x H) as E. unfold pay in H. destruct (a <? 0) eqn:E1; [discriminate|]. apply Z.ltb_ge in E1.
  destruct (bget bk f <? a) eqn:E2; [discriminate|]. apply Z.ltb_ge in E2. split; [exact E1|]. split; [exact E2|].
  intros x Hx. rewrite (E x). pose proof (Hb x Hx). destruct (t =? x), (f =? x) eqn:Ef; try lia; apply Z.eqb_eq in Ef; subst x; lia.
Qed.

(* a payment from a module account or a user keeps the ledgers covered *)
Lemma ledger_pay bk subs f t a bk' : ledger_ok bk subs -> f < SUBBASE -> pay bk f t a = Some bk' -> ledger_ok bk' subs.
Proof.
  intros L Hf H. destruct (pay_nonneg _ _ _ _ _ H (lo_bank _ _ L)) as (Ha & _ & Hb).
  apply (ledger_bank bk); [exact L|exact Hb|]. intros x Hx. rewrite (pay_bget _ _ _ _ _ x H).
  destruct (f =? x) eqn:E; [apply Z.eqb_eq in E; lia|]. destruct (t =? x); lia.
Qed.

Lemma sub_by_addr_spec subs a x : sub_by_addr subs a = Some x -> In x subs /\ sub_addr x = a.
Proof. apply sub_by_addr_in. Qed.

(* ---- the settlement groups: a payment to the owner followed by the matching hook ------------------------------------------------------- *)
Inductive balanced : list effect -> Prop :=
| bal_nil : balanced []
| bal_pay f t a r : f < SUBBASE -> balanced r -> balanced (Pay f t a :: r)
| bal_win f a liq profit r : f < SUBBASE -> balanced r -> balanced (Pay f a (liq + profit) :: HookWin a liq profit :: r)
| bal_loss f a liq lost r : f < SUBBASE -> balanced r -> balanced (Pay f a (liq - lost) :: HookLoss a liq lost :: r)
| bal_refund f a amt r : f < SUBBASE -> balanced r -> balanced (Pay f a amt :: HookRefund a amt :: r)
| bal_feerefund f a fee r : f < SUBBASE -> balanced r -> balanced (Pay f a fee :: HookFeeRefund a fee :: r).

Lemma balanced_app a b : balanced a -> balanced b -> balanced (a ++ b).
Proof. intros Ha Hb. induction Ha; cbn [app]; try (constructor; assumption). exact Hb. Qed.

(* a hook that releases `rel` of the spent amount (and records `lost`, forwards `fwd` to the owner) after the subaccount received
   at least rel - lost + fwd ... stated directly on the two-step computation *)
Lemma group_step bk subs f a v (g : subacc -> option subacc) fwd bk2 subs2 rel lost :
  ledger_ok bk subs -> f < SUBBASE ->
  (forall x x', g x = Some x' -> sub_nonneg x -> sub_nonneg x' /\ sa_id x' = sa_id x /\ sa_owner x' = sa_owner x /\
                                 sub_available x' = sub_available x + rel - lost) ->
  v = rel - lost + fwd -> 0 <= fwd ->
  (match pay bk f a v with Some b1 => hook_sub b1 subs a g fwd | None => None end) = Some (bk2, subs2) ->
  ledger_ok bk2 subs2.
Proof.
  intros L Hf Hg Hv Hfwd H.
  destruct (pay bk f a v) as [b1|] eqn:EP; [|discriminate].
  pose proof (ledger_pay _ _ _ _ _ _ L Hf EP) as L1.
  unfold hook_sub in H. destruct (sub_by_addr subs a) as [x|] eqn:EA; [|injection H as <- <-; exact L1].
  destruct (sub_by_addr_spec _ _ _ EA) as [Hin Hadr].
  destruct (g x) as [x'|] eqn:EG; [|discriminate].
  destruct (lo_each _ _ L x Hin) as (I1 & I2 & I3 & I4).
  destruct (Hg x x' EG I3) as (N1 & N2 & N3 & N4).
  assert (Hb1 : bget b1 a = bget bk a + v).
  { rewrite (pay_bget _ _ _ _ _ a EP), Z.eqb_refl. destruct (f =? a) eqn:E; [apply Z.eqb_eq in E; unfold sub_addr in Hadr; lia|lia]. }
  destruct (fwd =? 0) eqn:E0.
  - apply Z.eqb_eq in E0. injection H as <- <-.
    apply (ledger_set b1 subs b1 x x' L1 Hin N2 N3 N1 (lo_bank _ _ L1)); [|intros; lia].
    assert (Ea : sub_addr x' = a) by (unfold sub_addr in *; lia). rewrite Ea, Hb1, N4. rewrite Hadr in I4. lia.
  - destruct (pay b1 a (sa_owner x) fwd) as [b2|] eqn:EP2; [|discriminate]. injection H as <- <-.
    destruct (pay_nonneg _ _ _ _ _ EP2 (lo_bank _ _ L1)) as (_ & _ & Hb2).
    assert (Hown : sa_owner x <> a) by (destruct I2; unfold sub_addr in Hadr; lia).
    apply (ledger_set b1 subs b2 x x' L1 Hin N2 N3 N1 Hb2).
    + assert (Ea : sub_addr x' = a) by (unfold sub_addr in *; lia). rewrite Ea.
      rewrite (pay_bget _ _ _ _ _ a EP2), Z.eqb_refl. destruct (sa_owner x =? a) eqn:E; [apply Z.eqb_eq in E; contradiction|].
      rewrite Hb1, N4. rewrite Hadr in I4. lia.
    + intros y Hy Hne. rewrite (pay_bget _ _ _ _ _ (sub_addr y) EP2).
      destruct (a =? sub_addr y) eqn:E; [apply Z.eqb_eq in E; exfalso; apply Hne; apply sub_addr_inj; congruence|].
      destruct (sa_owner x =? sub_addr y); lia.
Qed.

Lemma unspend_props x a x' : sub_unspend x a = Some x' -> sub_nonneg x ->
  sub_nonneg x' /\ sa_id x' = sa_id x /\ sa_owner x' = sa_owner x /\ sub_available x' = sub_available x + a - 0.
Proof.
  unfold sub_unspend, sub_nonneg, sub_available. intros H (A & B & C & D).
  destruct (a <? 0) eqn:E1; [discriminate|]. destruct (sa_spent x <? a) eqn:E2; [discriminate|]. injection H as <-.
  apply Z.ltb_ge in E1. apply Z.ltb_ge in E2. cbn. repeat split; lia.
Qed.
Lemma unspend_loss_props x liq lost x' :
  (match sub_unspend x liq with Some y => sub_addloss y lost | None => None end) = Some x' -> sub_nonneg x ->
  sub_nonneg x' /\ sa_id x' = sa_id x /\ sa_owner x' = sa_owner x /\ sub_available x' = sub_available x + liq - lost.
Proof.
  unfold sub_unspend, sub_addloss, sub_nonneg, sub_available. intros H (A & B & C & D).
  destruct (liq <? 0) eqn:E1; [discriminate|]. destruct (sa_spent x <? liq) eqn:E2; [discriminate|]. cbn [sa_dep sa_spent sa_wd sa_lost sa_locks sub_with sa_id sa_owner] in H.
  destruct (lost <? 0) eqn:E3; [discriminate|]. injection H as <-.
  apply Z.ltb_ge in E1. apply Z.ltb_ge in E2. apply Z.ltb_ge in E3. cbn. repeat split; lia.
Qed.

Lemma apply_effects_ledger effs : balanced effs -> forall bk subs bk' subs',
  apply_effects bk subs effs = Some (bk', subs') -> ledger_ok bk subs -> ledger_ok bk' subs'.
Proof.
  induction 1 as [|f t a r Hf Hr IH|f a liq profit r Hf Hr IH|f a liq lost r Hf Hr IH|f a amt r Hf Hr IH|f a fee r Hf Hr IH];
    intros bk subs bk' subs' H L.
  - injection H as <- <-. exact L.
  - cbn [apply_effects] in H. destruct (pay bk f t a) as [b1|] eqn:EP; [|discriminate].
    eapply IH; [exact H|]. eapply ledger_pay; eassumption.
  - cbn [apply_effects] in H. destruct (pay bk f a (liq + profit)) as [b1|] eqn:EP; [|discriminate].
    destruct (hook_sub b1 subs a (fun x => sub_unspend x liq) profit) as [[b2 s2]|] eqn:EH; [|discriminate].
    eapply IH; [exact H|].
    (* profit >= 0 on this branch is not needed: a negative forward makes pay fail *)
    destruct (Z_lt_le_dec profit 0) as [Hneg|Hpos].
    + (* the forward would be negative: only reachable with profit = 0 shortcut or no subaccount *)
      unfold hook_sub in EH. destruct (sub_by_addr subs a) as [x|] eqn:EA.
      * destruct (sub_unspend x liq) as [x'|]; [|discriminate]. destruct (profit =? 0) eqn:E0; [apply Z.eqb_eq in E0; lia|].
        destruct (pay b1 a (sa_owner x) profit) as [b3|] eqn:EP3; [|discriminate]. unfold pay in EP3.
        destruct (profit <? 0) eqn:En; [discriminate|apply Z.ltb_ge in En; lia].
      * injection EH as <- <-. eapply ledger_pay; eassumption.
    + eapply (group_step bk subs f a (liq + profit) (fun x => sub_unspend x liq) profit b2 s2 liq 0); try eassumption; try lia.
      * intros x x' E N. exact (unspend_props _ _ _ E N).
      * rewrite EP. exact EH.
  - cbn [apply_effects] in H. destruct (pay bk f a (liq - lost)) as [b1|] eqn:EP; [|discriminate].
    destruct (hook_sub b1 subs a (fun x => match sub_unspend x liq with Some y => sub_addloss y lost | None => None end) 0) as [[b2 s2]|] eqn:EH; [|discriminate].
    eapply IH; [exact H|].
    eapply (group_step bk subs f a (liq - lost) _ 0 b2 s2 liq lost); try eassumption; try lia.
    + intros x x' E N. exact (unspend_loss_props _ _ _ _ E N).
    + rewrite EP. exact EH.
  - cbn [apply_effects] in H. destruct (pay bk f a amt) as [b1|] eqn:EP; [|discriminate].
    destruct (hook_sub b1 subs a (fun x => sub_unspend x amt) 0) as [[b2 s2]|] eqn:EH; [|discriminate].
    eapply IH; [exact H|].
    eapply (group_step bk subs f a amt (fun x => sub_unspend x amt) 0 b2 s2 amt 0); try eassumption; try lia.
    + intros x x' E N. exact (unspend_props _ _ _ E N).
    + rewrite EP. exact EH.
  - cbn [apply_effects] in H. destruct (pay bk f a fee) as [b1|] eqn:EP; [|discriminate].
    destruct (hook_sub b1 subs a (fun x => sub_unspend x fee) 0) as [[b2 s2]|] eqn:EH; [|discriminate].
    eapply IH; [exact H|].
    eapply (group_step bk subs f a fee (fun x => sub_unspend x fee) 0 b2 s2 fee 0); try eassumption; try lia.
    + intros x x' E N. exact (unspend_props _ _ _ E N).
    + rewrite EP. exact EH.
Qed.

(* ---- the effect lists of the handlers are balanced ---------------------------------------------------------------------------------------------- *)
Lemma settle_participation_balanced p st creator p' effs : settle_participation p st creator = Some (p', effs) -> balanced effs.
Proof.
  unfold settle_participation. intros H. destruct (p_settled p); [discriminate|].
  assert (P1 : POOL < SUBBASE) by (unfold POOL, SUBBASE; lia). assert (P2 : HOUSEFEE < SUBBASE) by (unfold HOUSEFEE, SUBBASE; lia).
  destruct (st =? MK_DECLARED).
  - destruct (p_profit p <? 0) eqn:En.
    + apply Z.ltb_lt in En. replace (p_liq p + p_profit p) with (p_liq p - Z.abs (p_profit p)) in H by lia.
      destruct (p_tba p =? 0); injection H as _ <-.
      * apply bal_loss; [exact P1|]. apply bal_feerefund; [exact P2|constructor].
      * apply bal_loss; [exact P1|]. apply bal_pay; [exact P2|constructor].
    + destruct (p_tba p =? 0); injection H as _ <-.
      * apply bal_win; [exact P1|]. apply bal_feerefund; [exact P2|constructor].
      * apply bal_win; [exact P1|]. apply bal_pay; [exact P2|constructor].
  - destruct ((st =? MK_CANCELED) || (st =? MK_ABORTED)); [|discriminate]. injection H as _ <-.
    apply bal_refund; [exact P1|]. apply bal_feerefund; [exact P2|constructor].
Qed.

Lemma batch_parts_balanced ps : forall st creator limit cnt alls c ps' effs,
  batch_parts ps st creator limit cnt = Some (alls, c, ps', effs) -> balanced effs.
Proof.
  induction ps as [|p r IH]; intros st creator limit cnt alls c ps' effs H; cbn [batch_parts] in H; [inv H; constructor|].
  destruct (p_settled p).
  - destruct (limit <=? cnt); [inv H; constructor|].
    destruct (batch_parts r st creator limit cnt) as [[[[a2 c2] ps2] e2]|] eqn:EB; [|discriminate]. inv H. cbn [app]. eapply IH; exact EB.
  - destruct (settle_participation p st creator) as [[p1 e1]|] eqn:ES; [|discriminate].
    pose proof (settle_participation_balanced _ _ _ _ _ ES) as B1.
    destruct (limit <=? cnt + 1); [inv H; exact B1|].
    destruct (batch_parts r st creator limit (cnt + 1)) as [[[[a2 c2] ps2] e2]|] eqn:EB; [|discriminate]. inv H.
    apply balanced_app; [exact B1|eapply IH; exact EB].
Qed.

Lemma pays_balanced f l r : f < SUBBASE -> balanced r -> balanced (map (fun x : Z * Z => Pay f (fst x) (snd x)) l ++ r).
Proof. intros Hf Hr. induction l as [|x t IH]; cbn [map app]; [exact Hr|apply bal_pay; assumption]. Qed.

Lemma settle_bet_balanced x h id x' effs : settle_bet x h id = Some (x', effs) -> balanced effs.
Proof.
  intros H. destruct (settle_bet_payout _ _ _ _ _ H) as (b & _ & _ & Hc). cbv zeta in Hc.
  assert (P1 : POOL < SUBBASE) by (unfold POOL, SUBBASE; lia). assert (P3 : BETFEE < SUBBASE) by (unfold BETFEE, SUBBASE; lia).
  destruct Hc as [(_ & ->)|[(_ & _ & ->)|(_ & _ & ->)]].
  - apply bal_pay; [exact P1|]. apply bal_pay; [exact P3|constructor].
  - clear H. induction (b_parts b) as [|f r IH]; cbn [map app]; [apply bal_pay; [exact P3|constructor]|apply bal_pay; [exact P1|exact IH]].
  - apply bal_pay; [exact P3|constructor].
Qed.

Lemma settle_bets_ledger ids : forall x bk subs h sidx cnt x' bk' subs' sidx' cnt',
  settle_bets ids x bk subs h sidx cnt = Some (x', bk', subs', sidx', cnt') -> ledger_ok bk subs -> ledger_ok bk' subs'.
Proof.
  induction ids as [|id r IH]; intros x bk subs h sidx cnt x' bk' subs' sidx' cnt' H L; cbn [settle_bets] in H; [inv H; exact L|].
  destruct (settle_bet x h id) as [[x1 effs]|] eqn:ES; [|discriminate].
  destruct (apply_effects bk subs effs) as [[bk1 subs1]|] eqn:EA; [|discriminate].
  eapply IH; [exact H|]. eapply apply_effects_ledger; [eapply settle_bet_balanced; exact ES|exact EA|exact L].
Qed.

(* ---- the chain-level invariant ----------------------------------------------------------------------------------------------------------------------- *)
Record sinv (s : chain) : Prop := {
  sv_led : ledger_ok (c_bank s) (c_subs s);
  sv_own : NoDup (map sa_owner (c_subs s));
  sv_next : forall x, In x (c_subs s) -> sa_id x < c_subnext s;
  sv_n0 : 0 <= c_subnext s }.

Definition user_op (o : op) : Prop :=
  match o with
  | OMarketAdd sg _ _ _ _ odds _ => user sg /\ zlen odds < U64
  | ODeposit sg _ _ _ _ dep => user sg /\ dep < SUBBASE
  | OWithdraw sg _ _ _ _ _ _ dep => user sg /\ dep < SUBBASE
  | OWager sg _ _ _ _ _ _ _ _ _ _ => user sg
  | OSend f _ _ => user f
  | OSubCreate c o _ => user c /\ user o
  | OSubTopUp c _ _ => user c
  | _ => True
  end.

Lemma user_valid o : user_op o -> valid_op o.
Proof. destruct o; cbn; unfold user; intros H; try exact I; try lia; try (destruct H as [[? ?] [? ?]]; split; lia); try (destruct H as [[? ?] ?]; try split; lia). Qed.

Definition same_struct (subs subs' : list subacc) : Prop :=
  map sa_id subs' = map sa_id subs /\ map sa_owner subs' = map sa_owner subs.
Lemma same_struct_refl l : same_struct l l. Proof. split; reflexivity. Qed.
Lemma same_struct_trans a b c : same_struct a b -> same_struct b c -> same_struct a c.
Proof. intros [A1 A2] [B1 B2]. split; congruence. Qed.

Lemma set_sub_struct subs x x' : NoDup (map sa_id subs) -> In x subs -> sa_id x' = sa_id x -> sa_owner x' = sa_owner x ->
  same_struct subs (set_sub subs x').
Proof.
  intros Hnd Hin Ei Eo. split; [apply (set_sub_ids subs x x' Hin Ei)|].
  unfold set_sub. apply upd_map_same.
  - apply existsb_exists. exists x. split; [exact Hin|apply Z.eqb_eq; symmetry; exact Ei].
  - intros y Hy Hk. apply Z.eqb_eq in Hk. assert (y = x) by (apply (NoDup_map_inj sa_id subs y x Hnd Hy Hin); congruence). subst y. symmetry. exact Eo.
Qed.

Lemma hook_sub_struct b subs a g fwd b' subs' :
  NoDup (map sa_id subs) -> (forall x x', g x = Some x' -> sa_id x' = sa_id x /\ sa_owner x' = sa_owner x) ->
  hook_sub b subs a g fwd = Some (b', subs') -> same_struct subs subs'.
Proof.
  unfold hook_sub. intros Hnd Hg H. destruct (sub_by_addr subs a) as [x|] eqn:EA; [|injection H as _ <-; apply same_struct_refl].
  destruct (sub_by_addr_spec _ _ _ EA) as [Hin _]. destruct (g x) as [x'|] eqn:EG; [|discriminate]. destruct (Hg _ _ EG) as [E1 E2].
  destruct (fwd =? 0); [injection H as _ <-; apply (set_sub_struct subs x x' Hnd Hin E1 E2)|].
  destruct (pay b a (sa_owner x) fwd); [|discriminate]. injection H as _ <-. apply (set_sub_struct subs x x' Hnd Hin E1 E2).
Qed.

Lemma unspend_loss_id x liq lost x' : (match sub_unspend x liq with Some y => sub_addloss y lost | None => None end) = Some x' ->
  sa_id x' = sa_id x /\ sa_owner x' = sa_owner x.
Proof.
  intros H. destruct (sub_unspend x liq) as [y|] eqn:E; [|discriminate]. destruct (sub_unspend_id _ _ _ E) as [A B].
  destruct (sub_addloss_id _ _ _ H) as [C D]. split; congruence.
Qed.

Lemma apply_effects_struct effs : forall b subs b' subs', NoDup (map sa_id subs) ->
  apply_effects b subs effs = Some (b', subs') -> same_struct subs subs'.
Proof.
  induction effs as [|e r IH]; intros b subs b' subs' Hnd H; cbn [apply_effects] in H; [injection H as _ <-; apply same_struct_refl|].
  assert (K : forall b1 s1, same_struct subs s1 -> apply_effects b1 s1 r = Some (b', subs') -> same_struct subs subs').
  { intros b1 s1 S1 H1. eapply same_struct_trans; [exact S1|]. eapply IH; [|exact H1]. destruct S1 as [E _]. rewrite E. exact Hnd. }
  destruct e as [f t a|a liq profit|a liq lost|a amt|a fee].
  - destruct (pay b f t a) as [b1|]; [|discriminate]. eapply K; [apply same_struct_refl|exact H].
  - destruct (hook_sub b subs a (fun x => sub_unspend x liq) profit) as [[b1 s1]|] eqn:EH; [|discriminate].
    eapply K; [|exact H]. eapply hook_sub_struct; [exact Hnd| |exact EH]. intros x x' E. exact (sub_unspend_id _ _ _ E).
  - destruct (hook_sub b subs a _ 0) as [[b1 s1]|] eqn:EH; [|discriminate].
    eapply K; [|exact H]. eapply hook_sub_struct; [exact Hnd| |exact EH]. intros x x' E. exact (unspend_loss_id _ _ _ _ E).
  - destruct (hook_sub b subs a (fun x => sub_unspend x amt) 0) as [[b1 s1]|] eqn:EH; [|discriminate].
    eapply K; [|exact H]. eapply hook_sub_struct; [exact Hnd| |exact EH]. intros x x' E. exact (sub_unspend_id _ _ _ E).
  - destruct (hook_sub b subs a (fun x => sub_unspend x fee) 0) as [[b1 s1]|] eqn:EH; [|discriminate].
    eapply K; [|exact H]. eapply hook_sub_struct; [exact Hnd| |exact EH]. intros x x' E. exact (sub_unspend_id _ _ _ E).
Qed.

(* the chain-level invariant is a function of the bank, the subaccount list and the id counter *)
Lemma sinv_of s bk subs nxt :
  ledger_ok bk subs -> same_struct (c_subs s) subs -> c_subnext s <= nxt -> sinv s ->
  forall s', c_bank s' = bk -> c_subs s' = subs -> c_subnext s' = nxt -> sinv s'.
Proof.
  intros L [E1 E2] Hn [_ O N Z0] s' B S X. constructor; rewrite ?B, ?S, ?X.
  - exact L.
  - rewrite E2. exact O.
  - intros x Hx. assert (In (sa_id x) (map sa_id (c_subs s))) by (rewrite <- E1; apply in_map; exact Hx).
    apply in_map_iff in H. destruct H as (y & Hy1 & Hy2). pose proof (N y Hy2). lia.
  - lia.
Qed.

Lemma effects_sinv s effs bk' subs' : balanced effs -> apply_effects (c_bank s) (c_subs s) effs = Some (bk', subs') -> sinv s ->
  ledger_ok bk' subs' /\ same_struct (c_subs s) subs'.
Proof.
  intros B H I. split; [eapply apply_effects_ledger; [exact B|exact H|apply (sv_led _ I)]|].
  eapply apply_effects_struct; [apply (lo_ids _ _ (sv_led _ I))|exact H].
Qed.

(* ---- end of block ------------------------------------------------------------------------------------------------------------------------------------ *)
Lemma settle_bets_struct ids : forall x bk subs h sidx cnt x' bk' subs' sidx' cnt',
  settle_bets ids x bk subs h sidx cnt = Some (x', bk', subs', sidx', cnt') -> NoDup (map sa_id subs) -> same_struct subs subs'.
Proof.
  induction ids as [|id r IH]; intros x bk subs h sidx cnt x' bk' subs' sidx' cnt' H Hnd; cbn [settle_bets] in H; [inv H; apply same_struct_refl|].
  destruct (settle_bet x h id) as [[x1 effs]|]; [|discriminate].
  destruct (apply_effects bk subs effs) as [[bk1 subs1]|] eqn:EA; [|discriminate].
  pose proof (apply_effects_struct _ _ _ _ _ Hnd EA) as S1.
  eapply same_struct_trans; [exact S1|]. eapply IH; [exact H|]. destruct S1 as [E _]. rewrite E. exact Hnd.
Qed.

Lemma bet_endblock_sinv fuel : forall s n s', bet_endblock fuel s n = Some s' -> sinv s -> sinv s'.
Proof.
  induction fuel as [|f IH]; intros s n s' H I; cbn [bet_endblock] in H.
  - destruct (n <=? 0); [inv H; exact I|discriminate].
  - destruct (n <=? 0); [inv H; exact I|].
    destruct (c_mqueue s) as [|m q]; [inv H; exact I|].
    destruct (get_ms s m) as [x|]; [|discriminate].
    destruct (settle_bets _ x (c_bank s) (c_subs s) (c_height s) (c_settledix s) 0) as [[[[[x1 bk1] subs1] sidx1] cnt]|] eqn:ES; [|discriminate].
    pose proof (settle_bets_ledger _ _ _ _ _ _ _ _ _ _ _ _ ES (sv_led _ I)) as L1.
    pose proof (settle_bets_struct _ _ _ _ _ _ _ _ _ _ _ _ ES (lo_ids _ _ (sv_led _ I))) as S1.
    destruct (ms_pending x1).
    + destruct (negb _); [discriminate|]. eapply IH; [exact H|]. eapply (sinv_of s bk1 subs1 (c_subnext s)); try eassumption; try reflexivity; lia.
    + eapply IH; [exact H|]. eapply (sinv_of s bk1 subs1 (c_subnext s)); try eassumption; try reflexivity; lia.
Qed.

Lemma ob_endblock_sinv fuel : forall s n i s', ob_endblock fuel s n i = Some s' -> sinv s -> sinv s'.
Proof.
  induction fuel as [|f IH]; intros s n i s' H I; cbn [ob_endblock] in H.
  - destruct (n <=? 0); [inv H; exact I|discriminate].
  - destruct (n <=? 0); [inv H; exact I|].
    destruct (nth_error (c_bqueue s) i) as [m|]; [|inv H; exact I].
    destruct (get_ms s m) as [x|]; [|discriminate].
    destruct (negb _); [discriminate|].
    destruct (batch_parts _ _ _ _ _) as [[[[alls cnt] ps] effs]|] eqn:EB; [|discriminate].
    destruct (apply_effects (c_bank s) (c_subs s) effs) as [[bk1 subs1]|] eqn:EA; [|discriminate].
    destruct (effects_sinv s effs bk1 subs1 (batch_parts_balanced _ _ _ _ _ _ _ _ _ EB) EA I) as [L1 S1].
    eapply IH; [exact H|]. eapply (sinv_of s bk1 subs1 (c_subnext s)); try eassumption; try reflexivity; lia.
Qed.

Lemma sinv_same s s' : c_bank s' = c_bank s -> c_subs s' = c_subs s -> c_subnext s' = c_subnext s -> sinv s -> sinv s'.
Proof.
  intros B S X I. eapply (sinv_of s (c_bank s) (c_subs s) (c_subnext s)); try eassumption; try lia; [apply (sv_led _ I)|apply same_struct_refl].
Qed.

Lemma end_block_sinv s : sinv s -> sinv (fst (end_block s)).
Proof.
  intros I. unfold end_block.
  destruct (bet_endblock _ s _) as [s1|] eqn:E1; [|cbn [fst]; eapply sinv_same; [| | |exact I]; reflexivity].
  destruct (ob_endblock _ s1 _ _) as [s2|] eqn:E2; [|cbn [fst]; eapply sinv_same; [| | |exact I]; reflexivity].
  cbn [fst]. pose proof (ob_endblock_sinv _ _ _ _ _ E2 (bet_endblock_sinv _ _ _ _ E1 I)) as I2.
  unfold ovm_endblock. destruct (ovm_finish _ _ _ _). eapply sinv_same; [| | |exact I2]; reflexivity.
Qed.

(* ---- transactions ------------------------------------------------------------------------------------------------------------------------------------- *)
Lemma house_deposit_core_sinv s c d m a g s' : d < SUBBASE -> house_deposit_core s c d m a g = Some s' -> sinv s -> sinv s'.
Proof.
  intros Hd H I. unfold house_deposit_core in H.
  destruct (get_ms s m) as [x|]; [|discriminate]. destruct (negb _); [discriminate|].
  destruct (init_participation _ _ _ _ _) as [[[bk idx] effs]|] eqn:EI; [|discriminate].
  destruct (apply_effects _ _ _) as [[bank' subs']|] eqn:EA; [|discriminate]. inv H.
  destruct (init_participation_delta _ _ _ _ _ _ _ _ EI) as (_ & _ & Ee & _).
  assert (B : balanced effs) by (rewrite Ee; apply bal_pay; [exact Hd|apply bal_pay; [exact Hd|constructor]]).
  destruct (effects_sinv s effs bank' subs' B EA I) as [L1 S1].
  eapply (sinv_of s bank' subs' (c_subnext s)); try eassumption; try reflexivity; lia.
Qed.

Lemma withdraw_effs b idx amt b' effs : withdraw_participation b idx amt = Some (b', effs) ->
  exists p, get_part b idx = Some p /\ effs = [Pay POOL (p_owner p) amt].
Proof.
  unfold withdraw_participation. intros H. destruct (get_part b idx) as [p|]; [|discriminate]. exists p. split; [reflexivity|].
  destruct (0 <? _); [injection H as _ <-; reflexivity|]. destruct (remove_from_queues _ _); [|discriminate]. injection H as _ <-. reflexivity.
Qed.

Lemma withdraw_core_sinv s sg d m pidx mo a ob s' amt : withdraw_core s sg d m pidx mo a ob = Some (s', amt) -> sinv s -> sinv s'.
Proof.
  intros H I. unfold withdraw_core in H.
  destruct (get_ms s m) as [x|]; [|discriminate]. destruct (findb _ _); [|discriminate]. destruct (_ <=? _); [discriminate|].
  destruct (calc_withdrawal _ _ _ _ _ _); [|discriminate]. destruct (if ob then _ else _); [|discriminate].
  destruct (withdraw_participation _ _ _) as [[bk effs]|] eqn:EW; [|discriminate].
  destruct (apply_effects _ _ _) as [[bank' subs']|] eqn:EA; [|discriminate]. inv H.
  destruct (withdraw_effs _ _ _ _ _ EW) as (p & _ & Ee).
  assert (B : balanced effs) by (rewrite Ee; apply bal_pay; [unfold POOL, SUBBASE; lia|constructor]).
  destruct (effects_sinv s effs bank' subs' B EA I) as [L1 S1].
  eapply (sinv_of s bank' subs' (c_subnext s)); try eassumption; try reflexivity; lia.
Qed.

Lemma wager_core_sinv s sg u a sm so ov mu al s' : sg < SUBBASE -> wager_core s sg u a sm so ov mu al = Some s' -> sinv s -> sinv s'.
Proof.
  intros Hsg H I. unfold wager_core in H.
  destruct (get_ms s sm) as [x|]; [|discriminate]. dmatchS H. inv H.
  match goal with E : process_wager _ _ _ _ _ _ = Some _ |- _ => destruct (process_wager_effects _ _ _ _ _ _ _ _ _ E) as [Ee _] end.
  match goal with E : apply_effects _ _ ?effs = Some (?b1, ?s1) |- _ =>
    assert (B : balanced effs) by (rewrite Ee; apply bal_pay; [exact Hsg|apply bal_pay; [exact Hsg|constructor]]);
    destruct (effects_sinv s effs b1 s1 B E I) as [L1 S1] end.
  eapply (sinv_of s _ _ (c_subnext s)); try eassumption; try reflexivity; lia.
Qed.

Lemma zsum_locks_nonneg now locks : forallb (lock_ok now) locks = true -> 0 <= zsum (map snd locks).
Proof.
  induction locks as [|l r IH]; cbn; intros H; [lia|]. apply andb_true_iff in H. destruct H as [H1 H2].
  unfold lock_ok in H1. apply andb_true_iff in H1. destruct H1 as [_ H1]. apply negb_true_iff, Z.ltb_ge in H1. specialize (IH H2). lia.
Qed.

Lemma sub_create_sinv s c o l s' : user c -> user o -> sub_create s c o l = Some s' -> sinv s -> sinv s'.
Proof.
  intros Hc Ho H I. unfold sub_create in H.
  destruct (negb (forallb _ l)) eqn:EL; [discriminate|]. apply negb_false_iff in EL.
  destruct (sum_locks (c_now s) l) as [tot|] eqn:ES; [|discriminate].
  destruct (sub_by_owner (c_subs s) o) eqn:EO; [discriminate|].
  destruct (pay (c_bank s) c (SUBBASE + c_subnext s) tot) as [b|] eqn:EP; [|discriminate]. inv H.
  destruct I as [L O N Z0].
  assert (Htot : 0 <= tot). { unfold sum_locks in ES. destruct (existsb _ l); [discriminate|]. inv ES. eapply zsum_locks_nonneg; exact EL. }
  pose proof (ledger_pay _ _ _ _ _ _ L (proj2 Hc) EP) as L1.
  set (x := {| sa_id := c_subnext s; sa_owner := o; sa_dep := tot; sa_spent := 0; sa_wd := 0; sa_lost := 0; sa_locks := set_locks [] l |}).
  constructor; cbn [c_bank c_subs c_subnext set_bank chain_set_subs chain_upd].
  - destruct L1 as [M1 M2 M3]. constructor.
    + exact M1.
    + rewrite map_app. cbn [map]. apply NoDup_snoc; [exact M2|]. intros Hin. apply in_map_iff in Hin. destruct Hin as (y & Hy1 & Hy2).
      pose proof (N y Hy2). cbn in Hy1. lia.
    + intros y Hy. apply in_app_or in Hy. destruct Hy as [Hy|[<-|[]]]; [apply M3; exact Hy|].
      cbn [sa_id sa_owner x]. split; [exact Z0|]. split; [exact Ho|]. split; [unfold sub_nonneg; cbn; lia|].
      unfold sub_available, sub_addr. cbn [sa_dep sa_wd sa_spent sa_lost sa_id x].
      rewrite (pay_bget _ _ _ _ _ (SUBBASE + c_subnext s) EP), Z.eqb_refl.
      destruct (c =? SUBBASE + c_subnext s) eqn:E; [apply Z.eqb_eq in E; destruct Hc; lia|].
      pose proof (lo_bank _ _ L (SUBBASE + c_subnext s) ltac:(lia)). lia.
  - rewrite map_app. cbn [map sa_owner x]. apply NoDup_snoc; [exact O|]. intros Hin. apply in_map_iff in Hin. destruct Hin as (y & Hy1 & Hy2).
    unfold sub_by_owner, findb in EO. pose proof (find_none _ _ EO y Hy2) as Hf. cbn in Hf. apply Z.eqb_neq in Hf. contradiction.
  - intros y Hy. apply in_app_or in Hy. destruct Hy as [Hy|[<-|[]]]; [pose proof (N y Hy); lia|cbn; lia].
  - lia.
Qed.

Lemma sub_by_owner_spec subs o x : sub_by_owner subs o = Some x -> In x subs /\ sa_owner x = o.
Proof. apply sub_by_owner_in. Qed.

(* a subaccount record and the bank change together: the chain-level wrapper *)
Lemma sinv_set s bk' x x' :
  sinv s -> In x (c_subs s) -> sa_id x' = sa_id x -> sa_owner x' = sa_owner x -> sub_nonneg x' ->
  (forall a, SUBBASE <= a -> 0 <= bget bk' a) -> sub_available x' <= bget bk' (sub_addr x') ->
  (forall y, In y (c_subs s) -> sa_id y <> sa_id x -> bget (c_bank s) (sub_addr y) <= bget bk' (sub_addr y)) ->
  forall s', c_bank s' = bk' -> c_subs s' = set_sub (c_subs s) x' -> c_subnext s' = c_subnext s -> sinv s'.
Proof.
  intros I Hin Ei Eo Hnn Hb Hav Hoth s' B S X.
  eapply (sinv_of s bk' (set_sub (c_subs s) x') (c_subnext s)); try eassumption; try lia.
  - eapply ledger_set; try eassumption. apply (sv_led _ I).
  - apply (set_sub_struct (c_subs s) x x' (lo_ids _ _ (sv_led _ I)) Hin Ei Eo).
Qed.

Lemma sub_other_addr x y : sa_id y <> sa_id x -> sub_addr y <> sub_addr x.
Proof. unfold sub_addr. lia. Qed.

Lemma sub_topup_sinv s c o l s' : user c -> sub_topup s c o l = Some s' -> sinv s -> sinv s'.
Proof.
  intros Hc H I. unfold sub_topup in H.
  destruct (negb (forallb _ l)) eqn:EL; [discriminate|]. apply negb_false_iff in EL.
  destruct (sum_locks (c_now s) l) as [tot|] eqn:ES; [|discriminate].
  destruct (sub_by_owner (c_subs s) o) as [x|] eqn:EO; [|discriminate]. destruct (existsb _ l); [discriminate|].
  destruct (pay (c_bank s) c (sub_addr x) tot) as [b|] eqn:EP; [|discriminate]. inv H.
  destruct (sub_by_owner_spec _ _ _ EO) as [Hin _].
  assert (Htot : 0 <= tot). { unfold sum_locks in ES. destruct (existsb _ l); [discriminate|]. inv ES. eapply zsum_locks_nonneg; exact EL. }
  destruct (lo_each _ _ (sv_led _ I) x Hin) as (A & B & (N1 & N2 & N3 & N4) & D).
  destruct (pay_nonneg _ _ _ _ _ EP (lo_bank _ _ (sv_led _ I))) as (_ & _ & Hb).
  eapply (sinv_set s b x (sub_with x (sa_dep x + tot) (sa_spent x) (sa_wd x) (sa_lost x) (set_locks (sa_locks x) l)) I Hin); try reflexivity; try eassumption.
  - unfold sub_nonneg. cbn. lia.
  - unfold sub_available, sub_addr in *. cbn [sa_dep sa_wd sa_spent sa_lost sa_id sub_with].
    rewrite (pay_bget _ _ _ _ _ (SUBBASE + sa_id x) EP), Z.eqb_refl.
    destruct (c =? SUBBASE + sa_id x) eqn:Eqq; [apply Z.eqb_eq in Eqq; destruct Hc; lia|]. lia.
  - intros y Hy Hne. rewrite (pay_bget _ _ _ _ _ (sub_addr y) EP).
    destruct (c =? sub_addr y) eqn:Eqq; [apply Z.eqb_eq in Eqq; destruct Hc; unfold sub_addr in Eqq; destruct (lo_each _ _ (sv_led _ I) y Hy); lia|].
    destruct (sub_addr x =? sub_addr y); lia.
Qed.

Lemma sub_withdraw_unlocked_sinv s o s' : sub_withdraw_unlocked s o = Some s' -> sinv s -> sinv s'.
Proof.
  intros H I. destruct (withdraw_unlocked_bound _ _ _ H) as (x & x' & w & EO & Hw & E1 & _ & Hav & Hbk & EP & ES & _ & Edep).
  destruct (sub_by_owner_spec _ _ _ EO) as [Hin Eown].
  destruct (lo_each _ _ (sv_led _ I) x Hin) as (A & B & N & D).
  unfold sub_withdraw_unlocked in H. rewrite EO in H. dmatchS H. inv H.
  match goal with E : sub_withdraw x _ = Some ?y |- _ => destruct (sub_withdraw_ok _ _ _ E N) as (N' & W1 & W2 & W3); destruct (sub_withdraw_id _ _ _ E) as [I1 I2]; rename y into x2 end.
  match goal with E : pay (c_bank s) (sub_addr x) (sa_owner x) ?ww = Some ?bb |- _ => rename E into EP2; rename bb into b2; set (w2 := ww) in * end.
  destruct (pay_nonneg _ _ _ _ _ EP2 (lo_bank _ _ (sv_led _ I))) as (_ & _ & Hb).
  eapply (sinv_set s b2 x x2 I Hin I1 I2 N' Hb); try reflexivity.
  - assert (Ea : sub_addr x2 = sub_addr x) by (unfold sub_addr; rewrite I1; reflexivity). rewrite Ea.
    rewrite (pay_bget _ _ _ _ _ (sub_addr x) EP2), Z.eqb_refl.
    destruct (sa_owner x =? sub_addr x) eqn:Eqq; [apply Z.eqb_eq in Eqq; destruct B; unfold sub_addr in Eqq; lia|]. lia.
  - intros y Hy Hne. rewrite (pay_bget _ _ _ _ _ (sub_addr y) EP2).
    destruct (sub_addr x =? sub_addr y) eqn:Eqq; [apply Z.eqb_eq in Eqq; exfalso; apply Hne; apply sub_addr_inj; congruence|].
    destruct (sa_owner x =? sub_addr y); lia.
Qed.

Lemma sub_wager_sinv s sg tk ic tk2 u a sm so ov mu al k ot md sd s' :
  sub_wager s sg tk ic tk2 u a sm so ov mu al k ot md sd = Some s' -> sinv s -> sinv s'.
Proof.
  intros H I. unfold sub_wager in H. dmatchS H.
  match goal with E : sub_by_owner _ sg = Some ?y |- _ => rename y into x; destruct (sub_by_owner_spec _ _ _ E) as [Hin Eown] end.
  destruct (lo_each _ _ (sv_led _ I) x Hin) as (A & B & N & D).
  match goal with E : sub_withdraw x sd = Some ?y |- _ => destruct (sub_withdraw_ok _ _ _ E N) as (N' & W1 & W2 & W3); destruct (sub_withdraw_id _ _ _ E) as [I1 I2]; rename y into x2 end.
  match goal with E : pay (c_bank s) (sub_addr x) sg sd = Some ?bb |- _ => rename E into EP2; rename bb into b2 end.
  destruct (pay_nonneg _ _ _ _ _ EP2 (lo_bank _ _ (sv_led _ I))) as (_ & _ & Hb).
  assert (Hsg : sg < SUBBASE) by (rewrite <- Eown; destruct B; lia).
  eapply wager_core_sinv; [exact Hsg|exact H|].
  eapply (sinv_set s b2 x x2 I Hin I1 I2 N' Hb); try reflexivity.
  - assert (Ea : sub_addr x2 = sub_addr x) by (unfold sub_addr; rewrite I1; reflexivity). rewrite Ea.
    rewrite (pay_bget _ _ _ _ _ (sub_addr x) EP2), Z.eqb_refl.
    destruct (sg =? sub_addr x) eqn:Eqq; [apply Z.eqb_eq in Eqq; unfold sub_addr in Eqq; lia|]. lia.
  - intros y Hy Hne. rewrite (pay_bget _ _ _ _ _ (sub_addr y) EP2).
    destruct (sub_addr x =? sub_addr y) eqn:Eqq; [apply Z.eqb_eq in Eqq; exfalso; apply Hne; apply sub_addr_inj; congruence|].
    destruct (sg =? sub_addr y); lia.
Qed.

Lemma house_deposit_core_bank s c d m a g s' : house_deposit_core s c d m a g = Some s' ->
  exists f b1, pay (c_bank s) d POOL (a - f) = Some b1 /\ pay b1 d HOUSEFEE f = Some (c_bank s') /\
                 c_subs s' = c_subs s /\ c_subnext s' = c_subnext s.
Proof.
  intros H. unfold house_deposit_core in H.
  destruct (get_ms s m) as [x|]; [|discriminate]. destruct (negb _); [discriminate|].
  destruct (init_participation _ _ _ _ _) as [[[bk idx] effs]|] eqn:EI; [|discriminate].
  destruct (apply_effects _ _ _) as [[bank' subs']|] eqn:EA; [|discriminate]. inv H.
  destruct (init_participation_delta _ _ _ _ _ _ _ _ EI) as (_ & _ & Ee & _). rewrite Ee in EA.
  cbn [apply_effects] in EA.
  destruct (pay (c_bank s) d POOL _) as [b1|] eqn:P1; [|discriminate].
  destruct (pay b1 d HOUSEFEE _) as [b2|] eqn:P2; [|discriminate]. injection EA as <- <-.
  eexists _, b1. split; [exact P1|]. split; [exact P2|]. split; reflexivity.
Qed.

Lemma withdraw_core_bank s sg d m pidx mo a ob s' amt : withdraw_core s sg d m pidx mo a ob = Some (s', amt) ->
  pay (c_bank s) POOL d amt = Some (c_bank s') /\ c_subs s' = c_subs s /\ c_subnext s' = c_subnext s.
Proof.
  intros H. unfold withdraw_core in H.
  destruct (get_ms s m) as [x|]; [|discriminate]. destruct (findb _ _); [|discriminate]. destruct (_ <=? _); [discriminate|].
  destruct (calc_withdrawal _ _ _ _ _ _) as [amt0|] eqn:EC; [|discriminate]. destruct (if ob then _ else _); [|discriminate].
  destruct (withdraw_participation _ _ _) as [[bk effs]|] eqn:EP; [|discriminate].
  destruct (apply_effects _ _ _) as [[bank' subs']|] eqn:EA; [|discriminate]. injection H as <- <-.
  destruct (withdraw_effs _ _ _ _ _ EP) as (pp & Gp & Ee).
  destruct (calc_withdrawal_spec _ _ _ _ _ _ _ EC) as (pp' & Gp' & _ & Eow & _). rewrite Gp in Gp'. injection Gp' as <-.
  rewrite Ee, Eow in EA. cbn [apply_effects] in EA. destruct (pay (c_bank s) POOL d amt0) as [b1|] eqn:P1; [|discriminate]. injection EA as <- <-.
  split; [reflexivity|]. split; reflexivity.
Qed.

Lemma sub_house_deposit_sinv s sg tk m a k d s' : sub_house_deposit s sg tk m a k d = Some s' -> sinv s -> sinv s'.
Proof.
  intros H I. unfold sub_house_deposit in H. dmatchS H. inv H.
  match goal with E : sub_by_owner _ sg = Some ?y |- _ => rename y into x; destruct (sub_by_owner_spec _ _ _ E) as [Hin Eown] end.
  destruct (lo_each _ _ (sv_led _ I) x Hin) as (A & B & N & D).
  match goal with E : sub_spend x a = Some ?y |- _ => destruct (sub_spend_ok _ _ _ E N) as (N' & W1 & W2 & W3 & I1 & I2 & _); rename y into x2 end.
  match goal with E : house_deposit_core s sg (sub_addr x) m a _ = Some ?t |- _ => rename E into EH; rename t into s1 end.
  destruct (house_deposit_core_bank _ _ _ _ _ _ _ EH) as (f & b1 & P1 & P2 & S1 & X1).
  destruct (pay_nonneg _ _ _ _ _ P1 (lo_bank _ _ (sv_led _ I))) as (Hl & _ & Hb1).
  destruct (pay_nonneg _ _ _ _ _ P2 Hb1) as (Hf & _ & Hb2).
  assert (Hmod : forall zz, SUBBASE <= zz -> (POOL =? zz) = false /\ (HOUSEFEE =? zz) = false).
  { intros zz Hz. split; apply Z.eqb_neq; unfold POOL, HOUSEFEE, SUBBASE in *; lia. }
  eapply (sinv_set s (c_bank s1) x x2 I Hin I1 I2 N' Hb2); try reflexivity.
  - assert (Ea : sub_addr x2 = sub_addr x) by (unfold sub_addr; rewrite I1; reflexivity). rewrite Ea.
    rewrite (pay_bget _ _ _ _ _ (sub_addr x) P2), (pay_bget _ _ _ _ _ (sub_addr x) P1), !Z.eqb_refl.
    destruct (Hmod (sub_addr x) ltac:(unfold sub_addr; lia)) as [-> ->]. lia.
  - intros y Hy Hne. rewrite (pay_bget _ _ _ _ _ (sub_addr y) P2), (pay_bget _ _ _ _ _ (sub_addr y) P1).
    destruct (lo_each _ _ (sv_led _ I) y Hy) as (Ay & _).
    destruct (Hmod (sub_addr y) ltac:(unfold sub_addr; lia)) as [-> ->].
    destruct (sub_addr x =? sub_addr y) eqn:Eqq; [apply Z.eqb_eq in Eqq; exfalso; apply Hne; apply sub_addr_inj; congruence|]. lia.
  - cbn. rewrite S1. reflexivity.
  - cbn. exact X1.
Qed.

Lemma sub_house_withdraw_sinv s sg tk m p mo a k d s' : sub_house_withdraw s sg tk m p mo a k d = Some s' -> sinv s -> sinv s'.
Proof.
  intros H I. unfold sub_house_withdraw in H.
  destruct (sub_by_owner (c_subs s) sg) as [x|] eqn:EO; [|discriminate]. destruct (sub_by_owner_spec _ _ _ EO) as [Hin Eown].
  destruct (withdraw_validate _ _ _ _ _ _ _ _ _); [|discriminate].
  destruct (withdraw_core s sg (sub_addr x) m p mo a false) as [[s1 amt]|] eqn:EW; [|discriminate].
  destruct (sub_unspend x amt) as [x2|] eqn:EU; [|discriminate]. inv H.
  pose proof (withdraw_core_sinv _ _ _ _ _ _ _ _ _ _ EW I) as I1.
  destruct (withdraw_core_bank _ _ _ _ _ _ _ _ _ _ EW) as (P1 & S1 & X1).
  rewrite <- S1 in Hin.
  destruct (lo_each _ _ (sv_led _ I1) x Hin) as (A & B & N & D).
  destruct (unspend_props _ _ _ EU N) as (N' & J1 & J2 & J3).
  eapply (sinv_set s1 (c_bank s1) x x2 I1 Hin J1 J2 N' (lo_bank _ _ (sv_led _ I1))); try reflexivity.
  - assert (Ea : sub_addr x2 = sub_addr x) by (unfold sub_addr; rewrite J1; reflexivity). rewrite Ea, J3.
    (* the ledger of x before the core ran already fitted the bank before; the core added amt to the address *)
    rewrite S1 in Hin. destruct (lo_each _ _ (sv_led _ I) x Hin) as (_ & _ & _ & D0).
    rewrite (pay_bget _ _ _ _ _ (sub_addr x) P1), Z.eqb_refl.
    destruct (POOL =? sub_addr x) eqn:Eqq; [apply Z.eqb_eq in Eqq; unfold POOL, sub_addr, SUBBASE in *; lia|]. lia.
Qed.

Lemma do_send_sinv s f t a s' : f < SUBBASE -> do_send s f t a = Some s' -> sinv s -> sinv s'.
Proof.
  intros Hf H I. unfold do_send in H. dmatchS H. inv H.
  match goal with E : pay _ _ _ _ = Some ?b |- _ => pose proof (ledger_pay _ _ _ _ _ _ (sv_led _ I) Hf E) as L1 end.
  eapply (sinv_of s _ (c_subs s) (c_subnext s)); try eassumption; try reflexivity; try lia. apply same_struct_refl.
Qed.

Lemma begin_block_sinv s t : sinv s -> sinv (fst (begin_block_op s t)).
Proof.
  intros I. unfold begin_block_op. destruct (begin_block _ _ _ _) as [m minted|]; cbn [fst]; [|eapply sinv_same; [| | |exact I]; reflexivity].
  eapply (sinv_of s _ (c_subs s) (c_subnext s)); try exact I; try reflexivity; try lia; [|apply same_struct_refl].
  cbn [c_bank chain_core]. apply (ledger_bank (c_bank s)); [apply (sv_led _ I)| |].
  - intros a Ha. rewrite bget_badd_other by (unfold FEECOLL, SUBBASE in *; lia). apply (lo_bank _ _ (sv_led _ I)). exact Ha.
  - intros a Ha. rewrite bget_badd_other by (unfold FEECOLL, SUBBASE in *; lia). lia.
Qed.

(* ---- every operation, every history -------------------------------------------------------------------------------------------------------------------- *)
Lemma tx_sinv s r : sinv s -> (forall s', r = Some s' -> sinv s') -> sinv (fst (tx s r)).
Proof. intros I H. unfold tx. destruct r as [s'|]; cbn [fst]; [apply H; reflexivity|exact I]. Qed.

Theorem step_sinv s o : sinv s -> user_op o -> sinv (fst (step s o)).
Proof.
  intros I Hv. unfold step. destruct (c_halted s); [exact I|].
  destruct o; cbn [user_op] in Hv; try (apply tx_sinv; [exact I|intros s' H]).
  - apply begin_block_sinv. exact I.
  - apply end_block_sinv. exact I.
  - unfold market_add in H. dmatchS H. inv H. eapply sinv_same; [| | |exact I]; reflexivity.
  - unfold market_update in H. dmatchS H. inv H. eapply sinv_same; [| | |exact I]; reflexivity.
  - unfold market_resolve in H. dmatchS H. inv H. eapply sinv_same; [| | |exact I]; reflexivity.
  - unfold house_deposit in H. destruct (deposit_validate _ _ _ _ _ _ _ _) as [[dp gr]|] eqn:EV; [|discriminate].
    eapply house_deposit_core_sinv; [|exact H|exact I].
    unfold deposit_validate in EV. dmatchS EV. inv EV. destruct Hv as [[? ?] ?]. destruct ((0 <=? depositor) && negb (depositor =? signer)); lia.
  - unfold house_withdraw in H. destruct (withdraw_validate _ _ _ _ _ _ _ _ _) as [[dp ob]|]; [|discriminate].
    destruct (withdraw_core _ _ _ _ _ _ _ _) as [[s1 amt0]|] eqn:EW; [|discriminate]. inv H. eapply withdraw_core_sinv; eassumption.
  - unfold bet_wager in H. destruct (wager_prepare _ _ _ _ _ _ _ _ _ _ _); [|discriminate].
    eapply wager_core_sinv; [|exact H|exact I]. destruct Hv; lia.
  - unfold do_grant in H. dmatchS H. inv H. eapply sinv_same; [| | |exact I]; reflexivity.
  - unfold do_revoke in H. dmatchS H. inv H. eapply sinv_same; [| | |exact I]; reflexivity.
  - eapply do_send_sinv; [|exact H|exact I]. destruct Hv; lia.
  - unfold ovm_propose in H. dmatchS H. inv H. eapply sinv_same; [| | |exact I]; reflexivity.
  - unfold ovm_vote in H. dmatchS H. inv H. eapply sinv_same; [| | |exact I]; reflexivity.
  - destruct Hv as [Hc Ho]. eapply sub_create_sinv; [exact Hc|exact Ho|exact H|exact I].
  - eapply sub_topup_sinv; [exact Hv|exact H|exact I].
  - eapply sub_withdraw_unlocked_sinv; eassumption.
  - eapply sub_wager_sinv; eassumption.
  - eapply sub_house_deposit_sinv; eassumption.
  - eapply sub_house_withdraw_sinv; eassumption.
Qed.

Theorem run_sinv ops : forall s, sinv s -> Forall user_op ops -> sinv (run s ops).
Proof.
  induction ops as [|o r IH]; intros s I Hv; cbn [run fold_left]; [exact I|]. inversion Hv; subst. apply IH; [apply step_sinv; assumption|assumption].
Qed.

(* C11 over histories: from a genesis whose balances in the subaccount address range are not negative *)
Theorem subaccounts_over_histories bk supply P vault MP t0 sw sd ops :
  (forall a, SUBBASE <= a -> 0 <= bget bk a) -> Forall user_op ops ->
  let s := run (init bk supply P vault MP t0 sw sd) ops in
  NoDup (map sa_id (c_subs s)) /\ NoDup (map sa_owner (c_subs s)) /\
  forall x, In x (c_subs s) ->
    0 <= sa_dep x /\ 0 <= sa_spent x /\ 0 <= sa_wd x /\ 0 <= sa_lost x /\
    sa_dep x - sa_wd x - sa_spent x - sa_lost x <= bget (c_bank s) (sub_addr x).
Proof.
  intros Hb Hv s. assert (I : sinv s).
  { apply run_sinv; [|exact Hv]. constructor; cbn; [constructor; cbn; [exact Hb|constructor|intros x []]|constructor|intros x []|lia]. }
  destruct I as [[L1 L2 L3] O _ _]. split; [exact L2|]. split; [exact O|].
  intros x Hx. destruct (L3 x Hx) as (_ & _ & (N1 & N2 & N3 & N4) & D). unfold sub_available in D. repeat split; assumption.
Qed.

(* boolean form of the hypothesis on operations, for concrete histories *)
Definition userb (a : Z) : bool := (0 <=? a) && (a <? SUBBASE).
Definition user_opb (o : op) : bool :=
  match o with
  | OMarketAdd sg _ _ _ _ odds _ => userb sg && (zlen odds <? U64)
  | ODeposit sg _ _ _ _ dep => userb sg && (dep <? SUBBASE)
  | OWithdraw sg _ _ _ _ _ _ dep => userb sg && (dep <? SUBBASE)
  | OWager sg _ _ _ _ _ _ _ _ _ _ => userb sg
  | OSend f _ _ => userb f
  | OSubCreate c o _ => userb c && userb o
  | OSubTopUp c _ _ => userb c
  | _ => true
  end.
Lemma userb_ok a : userb a = true -> user a.
Proof. unfold userb, user. intros H. apply andb_true_iff in H. destruct H as [H1 H2]. apply Z.leb_le in H1. apply Z.ltb_lt in H2. lia. Qed.
Lemma user_opb_ok o : user_opb o = true -> user_op o.
Proof.
  destruct o; cbn [user_opb user_op]; intros H; try exact I; try (apply userb_ok; exact H);
    apply andb_true_iff in H; destruct H as [H1 H2]; (split; [apply userb_ok; exact H1|]); try (apply userb_ok; exact H2); apply Z.ltb_lt; exact H2.
Qed.
Lemma user_ops_ok ops : forallb user_opb ops = true -> Forall user_op ops.
Proof. intros H. apply Forall_forall. intros o Ho. apply user_opb_ok. rewrite forallb_forall in H. apply H. exact Ho. Qed.

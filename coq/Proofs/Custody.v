(* Proofs/Custody.v — C01: the custody invariant over every history.
   The three custody module accounts hold exactly what the records of the markets say they owe:
     liquidity pool      = Σ_markets ( Σ_unsettled participations (liquidity + actual profit) + Σ_unsettled bets amount )
     house fee collector = Σ_markets   Σ_unsettled participations fee
     bet fee collector   = Σ_markets   Σ_unsettled bets fee
   proved for every reachable state of Model/Chain.v (run_inv), from the local deltas of CustodyLocal.v. *)
From Coq Require Import ZArith Bool List Lia.
From Sge Require Import Lib.Dec Model.Types Model.Orderbook Model.Mint Model.Chain
     Proofs.Tactics Proofs.Supply Proofs.WagerLoop Proofs.CustodyLocal.
Import ListNotations.
Open Scope Z_scope.

(* ---- what a market owes ------------------------------------------------------------------------------- *)
Definition bet_open_amt (b : bet) : Z := if b_status b =? BS_SETTLED then 0 else b_amount b.
Definition bet_open_fee (b : bet) : Z := if b_status b =? BS_SETTLED then 0 else b_fee b.
Definition open_amt (x : mstate) : Z := zsum (map bet_open_amt (ms_bets x)).
Definition open_fee (x : mstate) : Z := zsum (map bet_open_fee (ms_bets x)).
Definition owed_pool (x : mstate) : Z := pool_parts (ms_book x) + open_amt x.
Definition owed_hfee (x : mstate) : Z := fee_parts (ms_book x).
Definition owed_bfee (x : mstate) : Z := open_fee x.
Definition tot (f : mstate -> Z) (l : list (Z * mstate)) : Z := zsum (map (fun e => f (snd e)) l).

Definition cust (s : chain) : Prop :=
  bget (c_bank s) POOL = tot owed_pool (c_ms s) /\
  bget (c_bank s) HOUSEFEE = tot owed_hfee (c_ms s) /\
  bget (c_bank s) BETFEE = tot owed_bfee (c_ms s).

(* ---- supporting invariants ------------------------------------------------------------------------------ *)
Definition status_res (st : Z) : Prop := st = MK_CANCELED \/ st = MK_ABORTED \/ st = MK_DECLARED.
Definition status_AI (st : Z) : Prop := st = MK_ACTIVE \/ st = MK_INACTIVE.

Record minv (x : mstate) : Prop := {
  mi_nodup : NoDup (map p_idx (bk_parts (ms_book x)));
  mi_unsettled : bk_status (ms_book x) = BK_ACTIVE -> all_unsettled (ms_book x);
  mi_profit : k_status (ms_mkt x) <> MK_DECLARED -> forall p, In p (bk_parts (ms_book x)) -> p_profit p = 0;
  mi_owner : forall p, In p (bk_parts (ms_book x)) -> 0 <= p_owner p;
  mi_creator : 0 <= k_creator (ms_mkt x);
  mi_bets : forall b, In b (ms_bets x) -> 0 <= b_creator b /\ b_amount b = zsum (map f_stake (b_parts b));
  mi_ai : status_AI (k_status (ms_mkt x)) -> bk_status (ms_book x) = BK_ACTIVE;
  mi_status : status_AI (k_status (ms_mkt x)) \/ status_res (k_status (ms_mkt x)) }.

Definition subs_ok (subs : list subacc) : Prop := forall x, In x subs -> 0 <= sa_id x /\ 0 <= sa_owner x.

Record inv (s : chain) : Prop := {
  i_cust : cust s;
  i_minv : forall e, In e (c_ms s) -> minv (snd e);
  i_mq_nodup : NoDup (c_mqueue s);
  i_mq : forall m, In m (c_mqueue s) -> exists x, get_ms s m = Some x /\ status_res (k_status (ms_mkt x)) /\ bk_status (ms_book x) = BK_ACTIVE;
  i_subs : subs_ok (c_subs s);
  i_subnext : 0 <= c_subnext s }.

(* ---- generic list facts ----------------------------------------------------------------------------------- *)
Lemma in_upd {A} (f : A -> bool) (v : A) (l : list A) x : In x (upd f v l) -> x = v \/ In x l.
Proof.
  induction l as [|y r IH]; cbn [upd]; intros H.
  - destruct H as [H|[]]. left. symmetry. exact H.
  - destruct (f y).
    + destruct H as [H|H]; [left; symmetry; exact H|right; right; exact H].
    + destruct H as [H|H]; [right; left; exact H|]. destruct (IH H) as [E|E]; [left; exact E|right; right; exact E].
Qed.

Lemma find_fst_in {B} (l : list (Z * B)) m e : find (fun x => fst x =? m) l = Some e -> In e l /\ fst e = m.
Proof. intros H. apply find_some in H. destruct H as [Hi He]. apply Z.eqb_eq in He. split; assumption. Qed.

Lemma get_ms_in s m x : get_ms s m = Some x -> In (m, x) (c_ms s).
Proof.
  unfold get_ms, findb. destruct (find _ (c_ms s)) as [e|] eqn:E; [|discriminate].
  intros H. inv H. destruct (find_fst_in _ _ _ E) as [Hi Hm]. destruct e as [k v]. cbn in *. subst k. exact Hi.
Qed.

Lemma tot_set f l m x x' :
  find (fun e => fst e =? m) l = Some (m, x) -> tot f (set_ms_list l m x') = tot f l - f x + f x'.
Proof.
  intros H. unfold tot, set_ms_list.
  rewrite (upd_sum_found (fun e => fst e =? m) (fun e => f (snd e)) (m, x') (m, x) l H). reflexivity.
Qed.

Lemma get_ms_find s m x : get_ms s m = Some x -> find (fun e => fst e =? m) (c_ms s) = Some (m, x).
Proof.
  unfold get_ms, findb. destruct (find _ (c_ms s)) as [e|] eqn:E; [|discriminate].
  intros H. inv H. destruct (find_fst_in _ _ _ E) as [_ Hm]. destruct e as [k v]. cbn in *. subst k. reflexivity.
Qed.

Lemma tot_app f l e : tot f (l ++ [e]) = tot f l + f (snd e).
Proof. unfold tot. rewrite map_app. cbn. induction (map _ l); cbn; lia. Qed.

(* looking a market up after another one was written *)
Lemma find_upd_same {A} (f : A -> bool) (v : A) (l : list A) : f v = true -> find f (upd f v l) = Some v.
Proof.
  intros Hv. induction l as [|y r IH]; cbn [upd find].
  - rewrite Hv. reflexivity.
  - destruct (f y) eqn:E; cbn [find]; [rewrite Hv; reflexivity|rewrite E; exact IH].
Qed.

Lemma find_upd_other {A} (f g : A -> bool) (v : A) (l : list A) :
  g v = false -> (forall y, f y = true -> g y = false) -> find g (upd f v l) = find g l.
Proof.
  intros Hv Hfg. induction l as [|y r IH]; cbn [upd find].
  - rewrite Hv. reflexivity.
  - destruct (f y) eqn:E; cbn [find].
    + rewrite Hv, (Hfg y E). reflexivity.
    + destruct (g y); [reflexivity|exact IH].
Qed.

Lemma get_set_same l m x : find (fun e : Z * mstate => fst e =? m) (set_ms_list l m x) = Some (m, x).
Proof. unfold set_ms_list. apply find_upd_same. cbn. apply Z.eqb_refl. Qed.

Lemma get_set_other l m m' x : m' <> m ->
  find (fun e : Z * mstate => fst e =? m') (set_ms_list l m x) = find (fun e => fst e =? m') l.
Proof.
  intros Hne. unfold set_ms_list. apply find_upd_other.
  - cbn. apply Z.eqb_neq. lia.
  - intros y Hy. apply Z.eqb_eq in Hy. apply Z.eqb_neq. lia.
Qed.

(* ---- the bank under effects ----------------------------------------------------------------------------------- *)
Lemma bget_badd b k d x : bget (badd b k d) x = bget b x + (if k =? x then d else 0).
Proof.
  destruct (k =? x) eqn:E.
  - apply Z.eqb_eq in E. subst x. apply bget_badd_same.
  - apply Z.eqb_neq in E. rewrite bget_badd_other by lia. lia.
Qed.

Lemma pay_bget b f t a b' x : pay b f t a = Some b' ->
  bget b' x = bget b x + (if t =? x then a else 0) - (if f =? x then a else 0).
Proof.
  unfold pay. intros H. dmatch H. inv H. rewrite !bget_badd.
  destruct (t =? x), (f =? x); lia.
Qed.

Lemma sub_unspend_id x a x' : sub_unspend x a = Some x' -> sa_id x' = sa_id x /\ sa_owner x' = sa_owner x.
Proof. unfold sub_unspend. intros H. dmatch H. inv H. split; reflexivity. Qed.
Lemma sub_addloss_id x a x' : sub_addloss x a = Some x' -> sa_id x' = sa_id x /\ sa_owner x' = sa_owner x.
Proof. unfold sub_addloss. intros H. dmatch H. inv H. split; reflexivity. Qed.
Lemma sub_spend_id x a x' : sub_spend x a = Some x' -> sa_id x' = sa_id x /\ sa_owner x' = sa_owner x.
Proof. unfold sub_spend. intros H. dmatch H. inv H. split; reflexivity. Qed.
Lemma sub_withdraw_id x a x' : sub_withdraw x a = Some x' -> sa_id x' = sa_id x /\ sa_owner x' = sa_owner x.
Proof. unfold sub_withdraw. intros H. dmatch H. inv H. split; reflexivity. Qed.

Lemma subs_ok_set subs x x' : subs_ok subs -> In x subs -> sa_id x' = sa_id x -> sa_owner x' = sa_owner x ->
  subs_ok (set_sub subs x').
Proof.
  intros Hok Hin Hid How y Hy. unfold set_sub in Hy. apply in_upd in Hy. destruct Hy as [Hy|Hy].
  - subst y. rewrite Hid, How. apply Hok. exact Hin.
  - apply Hok. exact Hy.
Qed.

Lemma sub_by_addr_in subs a x : sub_by_addr subs a = Some x -> In x subs /\ sub_addr x = a.
Proof. unfold sub_by_addr, findb. intros H. apply find_some in H. destruct H as [Hi He]. apply Z.eqb_eq in He. split; assumption. Qed.
Lemma sub_by_owner_in subs o x : sub_by_owner subs o = Some x -> In x subs /\ sa_owner x = o.
Proof. unfold sub_by_owner, findb. intros H. apply find_some in H. destruct H as [Hi He]. apply Z.eqb_eq in He. split; assumption. Qed.

Lemma hook_sub_custody b subs a f fwd b' subs' :
  subs_ok subs -> (forall x x', f x = Some x' -> sa_id x' = sa_id x /\ sa_owner x' = sa_owner x) ->
  hook_sub b subs a f fwd = Some (b', subs') ->
  subs_ok subs' /\ forall c, c < 0 -> bget b' c = bget b c.
Proof.
  unfold hook_sub. intros Hok Hf H.
  destruct (sub_by_addr subs a) as [x|] eqn:EA; [|inv H; split; [exact Hok|reflexivity]].
  destruct (sub_by_addr_in _ _ _ EA) as [Hin Hadr].
  destruct (f x) as [x'|] eqn:EF; [|discriminate]. destruct (Hf _ _ EF) as [Hid How].
  destruct (Hok x Hin) as [Hid0 How0].
  destruct (fwd =? 0).
  - inv H. split; [eapply subs_ok_set; eassumption|reflexivity].
  - destruct (pay b a (sa_owner x) fwd) as [b1|] eqn:EP; [|discriminate]. inv H.
    split; [eapply subs_ok_set; eassumption|].
    intros c Hc. rewrite (pay_bget _ _ _ _ _ c EP).
    unfold sub_addr, SUBBASE in *.
    replace (sa_owner x =? c) with false by (symmetry; apply Z.eqb_neq; lia).
    replace (1000 + sa_id x =? c) with false by (symmetry; apply Z.eqb_neq; lia). lia.
Qed.

Lemma apply_effects_custody effs : forall b subs b' subs',
  subs_ok subs -> apply_effects b subs effs = Some (b', subs') ->
  subs_ok subs' /\ forall c, c < 0 -> bget b' c = bget b c + net_in c effs.
Proof.
  induction effs as [|e r IH]; intros b subs b' subs' Hok H; cbn [apply_effects] in H.
  - inv H. split; [exact Hok|]. intros c _. cbn. lia.
  - destruct e; cbn [net_in].
    + destruct (pay b from to amt) as [b1|] eqn:E; [|discriminate].
      destruct (IH _ _ _ _ Hok H) as [Hok' Hb]. split; [exact Hok'|].
      intros c Hc. rewrite (Hb c Hc), (pay_bget _ _ _ _ _ c E). lia.
    + destruct (hook_sub b subs a _ profit) as [[b1 s1]|] eqn:E; [|discriminate].
      destruct (hook_sub_custody _ _ _ _ _ _ _ Hok (fun x x' => sub_unspend_id x liq x') E) as [Hok1 Hb1].
      destruct (IH _ _ _ _ Hok1 H) as [Hok' Hb]. split; [exact Hok'|].
      intros c Hc. rewrite (Hb c Hc), (Hb1 c Hc). reflexivity.
    + destruct (hook_sub b subs a _ 0) as [[b1 s1]|] eqn:E; [|discriminate].
      assert (Hf : forall x x', match sub_unspend x liq with Some y => sub_addloss y lost | None => None end = Some x' ->
                               sa_id x' = sa_id x /\ sa_owner x' = sa_owner x).
      { intros x x' Hx. destruct (sub_unspend x liq) as [y|] eqn:EU; [|discriminate].
        destruct (sub_unspend_id _ _ _ EU) as [A1 A2]. destruct (sub_addloss_id _ _ _ Hx) as [B1 B2]. split; congruence. }
      destruct (hook_sub_custody _ _ _ _ _ _ _ Hok Hf E) as [Hok1 Hb1].
      destruct (IH _ _ _ _ Hok1 H) as [Hok' Hb]. split; [exact Hok'|].
      intros c Hc. rewrite (Hb c Hc), (Hb1 c Hc). reflexivity.
    + destruct (hook_sub b subs a _ 0) as [[b1 s1]|] eqn:E; [|discriminate].
      destruct (hook_sub_custody _ _ _ _ _ _ _ Hok (fun x x' => sub_unspend_id x amt x') E) as [Hok1 Hb1].
      destruct (IH _ _ _ _ Hok1 H) as [Hok' Hb]. split; [exact Hok'|].
      intros c Hc. rewrite (Hb c Hc), (Hb1 c Hc). reflexivity.
    + destruct (hook_sub b subs a _ 0) as [[b1 s1]|] eqn:E; [|discriminate].
      destruct (hook_sub_custody _ _ _ _ _ _ _ Hok (fun x x' => sub_unspend_id x fee x') E) as [Hok1 Hb1].
      destruct (IH _ _ _ _ Hok1 H) as [Hok' Hb]. split; [exact Hok'|].
      intros c Hc. rewrite (Hb c Hc), (Hb1 c Hc). reflexivity.
Qed.

(* ---- re-establishing the invariant ---------------------------------------------------------------------------- *)
Lemma get_ms_ext s s' m : c_ms s' = c_ms s -> get_ms s' m = get_ms s m.
Proof. unfold get_ms. intros ->. reflexivity. Qed.

(* nothing the invariant reads has changed, except balances of accounts other than the custody accounts *)
Lemma inv_same s s' :
  inv s -> c_ms s' = c_ms s -> c_mqueue s' = c_mqueue s ->
  bget (c_bank s') POOL = bget (c_bank s) POOL -> bget (c_bank s') HOUSEFEE = bget (c_bank s) HOUSEFEE ->
  bget (c_bank s') BETFEE = bget (c_bank s) BETFEE ->
  subs_ok (c_subs s') -> 0 <= c_subnext s' -> inv s'.
Proof.
  intros [[C1 [C2 C3]] Hm Hnd Hq Hs Hn] Ems Emq B1 B2 B3 Hs' Hn'.
  constructor.
  - unfold cust. rewrite Ems, B1, B2, B3. repeat split; assumption.
  - rewrite Ems. exact Hm.
  - rewrite Emq. exact Hnd.
  - rewrite Emq. intros m Hin. rewrite (get_ms_ext s s' m Ems). apply Hq. exact Hin.
  - exact Hs'.
  - exact Hn'.
Qed.

(* one market's state is replaced; the custody balances move by exactly the change of what that market owes *)
Lemma inv_upd_market s m x x' bank' subs' mq bq bc u2i sidx gr :
  inv s -> get_ms s m = Some x -> minv x' ->
  bget bank' POOL = bget (c_bank s) POOL + (owed_pool x' - owed_pool x) ->
  bget bank' HOUSEFEE = bget (c_bank s) HOUSEFEE + (owed_hfee x' - owed_hfee x) ->
  bget bank' BETFEE = bget (c_bank s) BETFEE + (owed_bfee x' - owed_bfee x) ->
  subs_ok subs' ->
  NoDup mq -> (forall m0, In m0 mq -> m0 <> m -> In m0 (c_mqueue s)) ->
  (In m mq -> status_res (k_status (ms_mkt x')) /\ bk_status (ms_book x') = BK_ACTIVE) ->
  inv (chain_upd (with_subs s subs') bank' (set_ms_list (c_ms s) m x') mq bq bc u2i sidx gr).
Proof.
  intros [[C1 [C2 C3]] Hm Hnd Hq Hs Hn] Hg Hx' B1 B2 B3 Hs' Hnd' Hq1 Hq2.
  pose proof (get_ms_find _ _ _ Hg) as Hf.
  constructor; cbn [c_bank c_ms c_mqueue c_subs c_subnext chain_upd with_subs chain_set_subs].
  - unfold cust. cbn [c_bank c_ms c_mqueue c_subs c_subnext chain_upd with_subs chain_set_subs].
    rewrite !(tot_set _ _ _ _ _ Hf). repeat split; lia.
  - intros e He. unfold set_ms_list in He. apply in_upd in He. destruct He as [He|He]; [subst e; exact Hx'|apply Hm; exact He].
  - exact Hnd'.
  - intros m0 Hin. unfold get_ms, findb. cbn [c_bank c_ms c_mqueue c_subs c_subnext chain_upd with_subs chain_set_subs].
    destruct (Z.eq_dec m0 m) as [->|Hne].
    + rewrite get_set_same. exists x'. split; [reflexivity|]. apply Hq2. exact Hin.
    + rewrite (get_set_other _ _ _ _ Hne). apply (Hq m0). apply Hq1; assumption.
  - exact Hs'.
  - exact Hn.
Qed.

(* ---- status predicates ------------------------------------------------------------------------------------------ *)
Lemma status_ai_iff st : status_ai st = true <-> status_AI st.
Proof. unfold status_ai, status_AI. rewrite orb_true_iff, !Z.eqb_eq. tauto. Qed.
Lemma status_resolved_iff st : status_resolved st = true <-> status_res st.
Proof. unfold status_resolved, status_res. rewrite !orb_true_iff, !Z.eqb_eq. tauto. Qed.
Lemma ai_not_res st : status_AI st -> status_res st -> False.
Proof. unfold status_AI, status_res, MK_ACTIVE, MK_INACTIVE, MK_CANCELED, MK_ABORTED, MK_DECLARED. lia. Qed.
Lemma ai_not_declared st : status_AI st -> st <> MK_DECLARED.
Proof. unfold status_AI, MK_ACTIVE, MK_INACTIVE, MK_DECLARED. lia. Qed.
Lemma negb_false_true b : negb b = false -> b = true.
Proof. destruct b; [reflexivity|discriminate]. Qed.

Lemma find_app_l {A} (f : A -> bool) l1 l2 x : find f l1 = Some x -> find f (l1 ++ l2) = Some x.
Proof. induction l1 as [|y r IH]; cbn; [discriminate|]. destruct (f y); [trivial|exact IH]. Qed.

(* like dmatch, but stops as soon as the hypothesis is an equation between two Some: scrutinees inside the
   result are left alone *)
Ltac dmatchS H :=
  repeat match type of H with
  | Some _ = Some _ => fail 1
  | context [match ?x with _ => _ end] =>
      let E := fresh "E" in destruct x eqn:E; try discriminate H
  | context [if ?x then _ else _] =>
      let E := fresh "E" in destruct x eqn:E; try discriminate H
  end.

Ltac simp_chain := cbn [c_bank c_ms c_mqueue c_subs c_subnext chain_upd with_subs chain_set_subs set_bank chain_set_ovm chain_core halt].

(* ---- market transactions --------------------------------------------------------------------------------------------- *)
Lemma market_add_inv s sg tk u st en od sts s' :
  inv s -> 0 <= sg -> market_add s sg tk u st en od sts = Some s' -> inv s'.
Proof.
  intros Hinv Hsg H. unfold market_add in H. dmatch H. inv H.
  match goal with E : negb (status_ai sts) = false |- _ => apply negb_false_true, status_ai_iff in E; rename E into Hai end.
  destruct Hinv as [[C1 [C2 C3]] Hm Hnd Hq Hs Hn].
  constructor; simp_chain.
  - unfold cust. simp_chain. rewrite !tot_app. cbn [snd].
    match goal with |- context [owed_pool ?x] =>
      assert (Z1 : owed_pool x = 0) by reflexivity; assert (Z2 : owed_hfee x = 0) by reflexivity;
      assert (Z3 : owed_bfee x = 0) by reflexivity; rewrite Z1, Z2, Z3 end.
    repeat split; lia.
  - intros e He. apply in_app_or in He. destruct He as [He|[He|[]]]; [apply Hm; exact He|]. subst e. cbn [snd].
    constructor; cbn.
    + constructor.
    + intros _ p [].
    + intros _ p [].
    + intros p [].
    + exact Hsg.
    + intros b [].
    + intros _. reflexivity.
    + left. exact Hai.
  - exact Hnd.
  - intros m Hin. destruct (Hq m Hin) as (x & Hg & Hr & Hb). exists x. split; [|split; assumption].
    unfold get_ms, findb in *. simp_chain.
    destruct (find (fun x0 => fst x0 =? m) (c_ms s)) as [e|] eqn:EF; [|discriminate].
    rewrite (find_app_l _ _ _ _ EF). exact Hg.
  - exact Hs.
  - exact Hn.
Qed.

Lemma market_update_inv s tk u st en sts s' : inv s -> market_update s tk u st en sts = Some s' -> inv s'.
Proof.
  intros Hinv H. unfold market_update in H. dmatch H. inv H.
  match goal with E : negb (status_ai sts) = false |- _ => apply negb_false_true, status_ai_iff in E; rename E into Hnew end.
  match goal with E : negb (status_ai (k_status (ms_mkt ?x))) = false |- _ => apply negb_false_true, status_ai_iff in E; rename E into Hold end.
  match goal with E : get_ms s u = Some ?x |- _ => rename E into Hg; rename x into x0 end.
  pose proof (i_minv s Hinv _ (get_ms_in _ _ _ Hg)) as Hx. cbn [snd] in Hx.
  replace (chain_upd s) with (chain_upd (with_subs s (c_subs s))) by (destruct s; reflexivity).
  eapply inv_upd_market; try eassumption.
  - destruct Hx. constructor; cbn; try assumption.
    + intros _. apply mi_profit0. apply ai_not_declared. exact Hold.
    + intros _. apply mi_ai0. exact Hold.
    + left. exact Hnew.
  - unfold owed_pool, open_amt. cbn. lia.
  - unfold owed_hfee. cbn. lia.
  - unfold owed_bfee, open_fee. cbn. lia.
  - apply (i_subs s Hinv).
  - apply (i_mq_nodup s Hinv).
  - intros m0 Hin _. exact Hin.
  - intros Hin. exfalso. destruct (i_mq s Hinv _ Hin) as (x1 & Hg1 & Hr & _). rewrite Hg in Hg1. inv Hg1.
    exact (ai_not_res _ Hold Hr).
Qed.

Lemma NoDup_snoc {A} (l : list A) x : NoDup l -> ~ In x l -> NoDup (l ++ [x]).
Proof.
  induction l as [|y r IH]; cbn; intros Hn Hx.
  - constructor; [intros []|constructor].
  - inversion Hn; subst. constructor.
    + intros Hin. apply in_app_or in Hin. destruct Hin as [Hin|[Hin|[]]]; [contradiction|]. subst. apply Hx. left. reflexivity.
    + apply IH; [assumption|]. intros Hin. apply Hx. right. exact Hin.
Qed.

Lemma market_resolve_inv s tk u r w sts s' : inv s -> market_resolve s tk u r w sts = Some s' -> inv s'.
Proof.
  intros Hinv H. unfold market_resolve in H. dmatchS H. inv H.
  match goal with E : negb (status_resolved sts) = false |- _ => apply negb_false_true, status_resolved_iff in E; rename E into Hnew end.
  match goal with E : negb (status_ai (k_status (ms_mkt ?x))) = false |- _ => apply negb_false_true, status_ai_iff in E; rename E into Hold end.
  match goal with E : get_ms s u = Some ?x |- _ => rename E into Hg; rename x into x0 end.
  pose proof (i_minv s Hinv _ (get_ms_in _ _ _ Hg)) as Hx. cbn [snd] in Hx.
  assert (Hnotin : ~ In u (c_mqueue s)).
  { intros Hin. destruct (i_mq s Hinv _ Hin) as (x1 & Hg1 & Hr & _). rewrite Hg in Hg1. inv Hg1. exact (ai_not_res _ Hold Hr). }
  replace (chain_upd s) with (chain_upd (with_subs s (c_subs s))) by (destruct s; reflexivity).
  eapply inv_upd_market; try eassumption.
  - destruct Hx. constructor; cbn; try assumption.
    + intros _. apply mi_profit0. apply ai_not_declared. exact Hold.
    + intros Hai. exfalso. exact (ai_not_res _ Hai Hnew).
    + right. exact Hnew.
  - unfold owed_pool, open_amt. cbn. lia.
  - unfold owed_hfee. cbn. lia.
  - unfold owed_bfee, open_fee. cbn. lia.
  - apply (i_subs s Hinv).
  - apply NoDup_snoc; [apply (i_mq_nodup s Hinv)|exact Hnotin].
  - intros m0 Hin Hne. apply in_app_or in Hin. destruct Hin as [Hin|[Hin|[]]]; [exact Hin|]. congruence.
  - intros _. cbn. split; [exact Hnew|]. apply (mi_ai _ Hx). exact Hold.
Qed.

(* net flow of a concrete effect list into a custody account *)
Ltac netin :=
  cbn [net_in map app];
  repeat match goal with |- context [?a =? ?b] => destruct (Z.eqb_spec a b) end;
  unfold POOL, HOUSEFEE, BETFEE in *; try lia.

Lemma get_part_none_notin b idx : get_part b idx = None -> ~ In idx (map p_idx (bk_parts b)).
Proof.
  unfold get_part, findb. intros H Hin. apply in_map_iff in Hin. destruct Hin as (q & Hq & Hin).
  pose proof (find_none _ _ H q Hin) as Hf. unfold part_is in Hf. apply Z.eqb_neq in Hf. congruence.
Qed.

Lemma house_deposit_core_inv s c d m a g s' : inv s -> 0 <= d -> house_deposit_core s c d m a g = Some s' -> inv s'.
Proof.
  intros Hinv Hd H. unfold house_deposit_core in H. dmatch H. inv H.
  match goal with E : get_ms s m = Some ?x |- _ => rename E into Hg; rename x into x0 end.
  match goal with E : init_participation _ _ _ _ _ = Some _ |- _ => rename E into EI end.
  match goal with E : apply_effects _ _ _ = Some _ |- _ => rename E into EA end.
  pose proof (i_minv s Hinv _ (get_ms_in _ _ _ Hg)) as Hx. cbn [snd] in Hx.
  destruct (init_participation_delta _ _ _ _ _ _ _ _ EI) as (P1 & P2 & Pe & Pst & Pact & p & Pparts & Ps & Ppr & Pow & Pidx & Pnone).
  destruct (apply_effects_custody _ _ _ _ _ (i_subs s Hinv) EA) as [Hs' Hb].
  eapply inv_upd_market; try eassumption.
  - destruct Hx. constructor; cbn [ms_book ms_mkt ms_bets mstate_upd]; try assumption.
    + rewrite Pparts, map_app. cbn [map]. apply NoDup_snoc; [assumption|]. rewrite Pidx. apply get_part_none_notin. exact Pnone.
    + intros _ q Hq. rewrite Pparts in Hq. apply in_app_or in Hq. destruct Hq as [Hq|[Hq|[]]]; [apply (mi_unsettled0 Pact q Hq)|subst q; exact Ps].
    + intros Hnd q Hq. rewrite Pparts in Hq. apply in_app_or in Hq. destruct Hq as [Hq|[Hq|[]]]; [apply (mi_profit0 Hnd q Hq)|subst q; exact Ppr].
    + intros q Hq. rewrite Pparts in Hq. apply in_app_or in Hq. destruct Hq as [Hq|[Hq|[]]]; [apply (mi_owner0 q Hq)|subst q; lia].
    + intros _. rewrite Pst. exact Pact.
  - rewrite (Hb POOL) by (unfold POOL; lia). subst. unfold owed_pool, open_amt. cbn [ms_book ms_bets mstate_upd]. rewrite P1. netin.
  - rewrite (Hb HOUSEFEE) by (unfold HOUSEFEE; lia). subst. unfold owed_hfee. cbn [ms_book ms_bets mstate_upd]. rewrite P2. netin.
  - rewrite (Hb BETFEE) by (unfold BETFEE; lia). subst. unfold owed_bfee, open_fee. cbn [ms_book ms_bets mstate_upd]. netin.
  - apply (i_mq_nodup s Hinv).
  - intros m0 Hin _. exact Hin.
  - intros Hin. exfalso. destruct (i_mq s Hinv _ Hin) as (x1 & Hg1 & Hr & _). rewrite Hg in Hg1. inv Hg1.
    match goal with E : negb (k_status (ms_mkt x1) =? MK_ACTIVE) = false |- _ => apply negb_false_true, Z.eqb_eq in E;
      apply (ai_not_res (k_status (ms_mkt x1))); [left; exact E|exact Hr] end.
Qed.

(* ---- transferring the market invariant along a projection-preserving change of the book -------------------------- *)
Lemma map_eq_in {A B} (f : A -> B) l l' q' : map f l' = map f l -> In q' l' -> exists q, In q l /\ f q = f q'.
Proof.
  intros H Hin. apply (in_map f) in Hin. rewrite H in Hin. apply in_map_iff in Hin.
  destruct Hin as (q & Hq & Hi). exists q. split; assumption.
Qed.

Lemma sproj_idx l l' : map sproj l' = map sproj l -> map p_idx l' = map p_idx l.
Proof.
  intros H. assert (E : forall k, map p_idx k = map (fun t : Z * bool * Z * Z => fst (fst (fst t))) (map sproj k)).
  { intros k. rewrite map_map. reflexivity. }
  rewrite !E, H. reflexivity.
Qed.

Lemma cproj_sproj l l' : map cproj l' = map cproj l -> map sproj l' = map sproj l.
Proof.
  intros H.
  assert (E : forall k, map sproj k = map (fun c : Z * Z * Z * Z * Z * bool => let '(i, o, _, pr, _, st) := c in (i, st, pr, o)) (map cproj k)).
  { intros k. rewrite map_map. reflexivity. }
  rewrite !E, H. reflexivity.
Qed.

Lemma minv_transfer x x' :
  minv x -> ms_mkt x' = ms_mkt x -> bk_status (ms_book x') = bk_status (ms_book x) ->
  map sproj (bk_parts (ms_book x')) = map sproj (bk_parts (ms_book x)) ->
  (forall b, In b (ms_bets x') -> 0 <= b_creator b /\ b_amount b = zsum (map f_stake (b_parts b))) ->
  minv x'.
Proof.
  intros [N U P O C B A S] Hm Hs Hp Hb.
  constructor; rewrite ?Hm, ?Hs; try assumption.
  - rewrite (sproj_idx _ _ Hp). exact N.
  - intros Hact q' Hq'. destruct (map_eq_in _ _ _ _ Hp Hq') as (q & Hq & E). unfold sproj in E.
    injection E as E1 E2 E3 E4. pose proof (U Hact q Hq). congruence.
  - intros Hnd q' Hq'. destruct (map_eq_in _ _ _ _ Hp Hq') as (q & Hq & E). unfold sproj in E.
    injection E as E1 E2 E3 E4. pose proof (P Hnd q Hq). congruence.
  - intros q' Hq'. destruct (map_eq_in _ _ _ _ Hp Hq') as (q & Hq & E). unfold sproj in E.
    injection E as E1 E2 E3 E4. pose proof (O q Hq). congruence.
Qed.

(* ---- house withdrawal ------------------------------------------------------------------------------------------------ *)
Lemma calc_withdrawal_part b d idx mode wt a amt : calc_withdrawal b d idx mode wt a = Some amt ->
  exists p, get_part b idx = Some p /\ p_settled p = false /\ p_owner p = d.
Proof.
  unfold calc_withdrawal. intros H. destruct (get_part b idx) as [p|]; [|discriminate]. exists p.
  destruct (p_settled p) eqn:ES; [discriminate|]. destruct (negb (p_owner p =? d)) eqn:EO; [discriminate|].
  apply negb_false_true, Z.eqb_eq in EO. repeat split; assumption.
Qed.

Lemma mq_keep s m x x' : inv s -> get_ms s m = Some x -> ms_mkt x' = ms_mkt x -> bk_status (ms_book x') = bk_status (ms_book x) ->
  In m (c_mqueue s) -> status_res (k_status (ms_mkt x')) /\ bk_status (ms_book x') = BK_ACTIVE.
Proof.
  intros Hinv Hg Hm Hs Hin. destruct (i_mq s Hinv _ Hin) as (x1 & Hg1 & Hr & Ha). rewrite Hg in Hg1. inv Hg1.
  rewrite Hm, Hs. split; assumption.
Qed.

Lemma withdraw_core_inv s sg d m pidx mo a ob s' amt :
  inv s -> 0 <= d -> withdraw_core s sg d m pidx mo a ob = Some (s', amt) -> inv s'.
Proof.
  intros Hinv Hd H. unfold withdraw_core in H. dmatchS H. inv H.
  match goal with E : get_ms s m = Some ?x |- _ => rename E into Hg; rename x into x0 end.
  match goal with E : calc_withdrawal _ _ _ _ _ _ = Some _ |- _ => rename E into EC end.
  match goal with E : withdraw_participation _ _ _ = Some _ |- _ => rename E into EW end.
  match goal with E : apply_effects _ _ _ = Some _ |- _ => rename E into EA end.
  pose proof (i_minv s Hinv _ (get_ms_in _ _ _ Hg)) as Hx. cbn [snd] in Hx.
  destruct (calc_withdrawal_part _ _ _ _ _ _ _ EC) as (p & Hgp & Hps & Hpo).
  destruct (withdraw_participation_delta _ _ _ _ _ p EW Hgp Hps) as (P1 & P2 & Pe & Pst & Pmap).
  destruct (apply_effects_custody _ _ _ _ _ (i_subs s Hinv) EA) as [Hs' Hb].
  eapply inv_upd_market; try eassumption.
  - eapply minv_transfer; [exact Hx|reflexivity|exact Pst|exact Pmap|]. cbn. apply (mi_bets _ Hx).
  - rewrite (Hb POOL) by (unfold POOL; lia). subst. unfold owed_pool, open_amt. cbn [ms_book ms_bets mstate_upd]. rewrite P1. netin.
  - rewrite (Hb HOUSEFEE) by (unfold HOUSEFEE; lia). subst. unfold owed_hfee. cbn [ms_book ms_bets mstate_upd]. rewrite P2. netin.
  - rewrite (Hb BETFEE) by (unfold BETFEE; lia). subst. unfold owed_bfee, open_fee. cbn [ms_book ms_bets mstate_upd]. netin.
  - apply (i_mq_nodup s Hinv).
  - intros m0 Hin _. exact Hin.
  - intros Hin. eapply mq_keep; try eassumption; reflexivity.
Qed.

(* ---- wager -------------------------------------------------------------------------------------------------------------- *)
Lemma NoDup_map_inj {A B} (f : A -> B) l a b : NoDup (map f l) -> In a l -> In b l -> f a = f b -> a = b.
Proof.
  induction l as [|y r IH]; cbn [map]; intros Hn Ha Hb E; [destruct Ha|].
  inversion Hn as [|? ? Hny Hnr]; subst.
  destruct Ha as [Ha|Ha], Hb as [Hb|Hb]; subst.
  - reflexivity.
  - exfalso. apply Hny. rewrite E. apply in_map. exact Hb.
  - exfalso. apply Hny. rewrite <- E. apply in_map. exact Ha.
  - apply IH; assumption.
Qed.

Lemma nodup_cidx_unique b : NoDup (map p_idx (bk_parts b)) ->
  forall c1 c2, In c1 (book_cproj b) -> In c2 (book_cproj b) -> cidx c1 = cidx c2 -> c1 = c2.
Proof.
  intros Hn c1 c2 H1 H2 E. unfold book_cproj in *. apply in_map_iff in H1, H2.
  destruct H1 as (q1 & <- & Hq1). destruct H2 as (q2 & <- & Hq2).
  f_equal. eapply NoDup_map_inj; try eassumption.
Qed.

Lemma zsum_app l1 l2 : zsum (l1 ++ l2) = zsum l1 + zsum l2.
Proof. induction l1; cbn; lia. Qed.

Lemma wager_core_inv s sg u a sm so ov mu al s' : inv s -> 0 <= sg -> wager_core s sg u a sm so ov mu al = Some s' -> inv s'.
Proof.
  intros Hinv Hsg H. unfold wager_core in H. dmatchS H. inv H.
  match goal with E : get_ms s sm = Some ?x |- _ => rename E into Hg; rename x into x0 end.
  match goal with E : process_wager _ _ _ _ _ _ = Some _ |- _ => rename E into EW end.
  match goal with E : apply_effects _ _ _ = Some _ |- _ => rename E into EA end.
  pose proof (i_minv s Hinv _ (get_ms_in _ _ _ Hg)) as Hx. cbn [snd] in Hx.
  pose proof (process_wager_cproj _ _ _ _ _ _ _ _ _ EW (nodup_cidx_unique _ (mi_nodup _ Hx))) as Pc.
  pose proof (process_wager_status _ _ _ _ _ _ _ _ _ EW) as Pst.
  destruct (process_wager_effects _ _ _ _ _ _ _ _ _ EW) as [Pe _].
  destruct (apply_effects_custody _ _ _ _ _ (i_subs s Hinv) EA) as [Hs' Hb].
  eapply inv_upd_market; try eassumption.
  - eapply minv_transfer; [exact Hx|reflexivity|exact Pst|apply cproj_sproj; exact Pc|].
    cbn [ms_bets mstate_upd]. intros bb Hin. apply in_app_or in Hin. destruct Hin as [Hin|[Hin|[]]]; [apply (mi_bets _ Hx bb Hin)|].
    subst bb. cbn. split; [exact Hsg|reflexivity].
  - rewrite (Hb POOL) by (unfold POOL; lia). subst. unfold owed_pool, open_amt, pool_parts. cbn [ms_book ms_bets mstate_upd].
    rewrite Pc, map_app, zsum_app. cbn [map zsum]. unfold bet_open_amt at 2. cbn [b_status b_amount]. change (BS_PLACED =? BS_SETTLED) with false. netin.
  - rewrite (Hb HOUSEFEE) by (unfold HOUSEFEE; lia). subst. unfold owed_hfee, fee_parts. cbn [ms_book ms_bets mstate_upd]. rewrite Pc. netin.
  - rewrite (Hb BETFEE) by (unfold BETFEE; lia). subst. unfold owed_bfee, open_fee. cbn [ms_book ms_bets mstate_upd].
    rewrite map_app, zsum_app. cbn [map zsum]. unfold bet_open_fee at 2. cbn [b_status b_fee]. change (BS_PLACED =? BS_SETTLED) with false. netin.
  - apply (i_mq_nodup s Hinv).
  - intros m0 Hin _. exact Hin.
  - intros Hin. exfalso. destruct (i_mq s Hinv _ Hin) as (x1 & Hg1 & Hr & _). rewrite Hg in Hg1. inv Hg1.
    match goal with E : negb (k_status (ms_mkt x1) =? MK_ACTIVE) = false |- _ => apply negb_false_true, Z.eqb_eq in E;
      apply (ai_not_res (k_status (ms_mkt x1))); [left; exact E|exact Hr] end.
Qed.

(* ---- settlement of one bet ------------------------------------------------------------------------------------------- *)
Lemma iproj_idx l l' : map iproj l' = map iproj l -> map p_idx l' = map p_idx l.
Proof.
  intros H. assert (E : forall k, map p_idx k = map (fun t : Z * Z => fst t) (map iproj k)).
  { intros k. rewrite map_map. reflexivity. }
  rewrite !E, H. reflexivity.
Qed.

Lemma minv_profit_change x x' :
  minv x -> ms_mkt x' = ms_mkt x -> k_status (ms_mkt x) = MK_DECLARED ->
  bk_status (ms_book x') = bk_status (ms_book x) ->
  map iproj (bk_parts (ms_book x')) = map iproj (bk_parts (ms_book x)) -> all_unsettled (ms_book x') ->
  (forall b, In b (ms_bets x') -> 0 <= b_creator b /\ b_amount b = zsum (map f_stake (b_parts b))) ->
  minv x'.
Proof.
  intros [N U P O C B A S] Hm Hd Hs Hp Hu Hb.
  constructor; rewrite ?Hm, ?Hs; try assumption.
  - rewrite (iproj_idx _ _ Hp). exact N.
  - intros _. exact Hu.
  - intros Hnd. contradiction.
  - intros q' Hq'. destruct (map_eq_in _ _ _ _ Hp Hq') as (q & Hq & E). unfold iproj in E.
    injection E as E1 E2. pose proof (O q Hq). congruence.
Qed.

Lemma net_in_wins a bettor fs : 0 <= bettor -> a < 0 ->
  net_in a (map (fun f => Pay POOL bettor (f_pay f + f_stake f)) fs) =
  if a =? POOL then - (zsum (map f_pay fs) + zsum (map f_stake fs)) else 0.
Proof.
  intros Hb Ha. induction fs as [|f r IH]; cbn [map net_in zsum].
  - destruct (a =? POOL); reflexivity.
  - rewrite IH. destruct (Z.eqb_spec bettor a); [lia|]. destruct (Z.eqb_spec POOL a), (Z.eqb_spec a POOL); try lia; congruence.
Qed.

Lemma bets_upd_ok x id b b' :
  (forall c, In c (ms_bets x) -> 0 <= b_creator c /\ b_amount c = zsum (map f_stake (b_parts c))) ->
  In b (ms_bets x) -> b_creator b' = b_creator b -> b_amount b' = b_amount b -> b_parts b' = b_parts b ->
  forall c, In c (upd (fun c => b_id c =? id) b' (ms_bets x)) -> 0 <= b_creator c /\ b_amount c = zsum (map f_stake (b_parts c)).
Proof.
  intros Hall Hin E1 E2 E3 c Hc. apply in_upd in Hc. destruct Hc as [Hc|Hc]; [|apply Hall; exact Hc].
  subst c. rewrite E1, E2, E3. apply Hall. exact Hin.
Qed.

Lemma settle_bet_delta x h id x' effs :
  minv x -> bk_status (ms_book x) = BK_ACTIVE -> settle_bet x h id = Some (x', effs) ->
  minv x' /\ bk_status (ms_book x') = BK_ACTIVE /\ ms_mkt x' = ms_mkt x /\
  owed_pool x' = owed_pool x + net_in POOL effs /\
  owed_hfee x' = owed_hfee x + net_in HOUSEFEE effs /\
  owed_bfee x' = owed_bfee x + net_in BETFEE effs.
Proof.
  intros Hx Hact H. unfold settle_bet in H. cbv beta zeta in H.
  destruct (findb (fun b => b_id b =? id) (ms_bets x)) as [b|] eqn:EF; [|discriminate].
  destruct (b_status b =? BS_SETTLED) eqn:EST; [discriminate|].
  assert (Hin : In b (ms_bets x)) by (apply find_some in EF; tauto).
  destruct (mi_bets _ Hx b Hin) as [Hbc Hba].
  pose proof (mi_creator _ Hx) as Hmc.
  assert (Hoa : forall r mk bk pend deps wds,
            open_amt (mstate_upd x mk bk (upd (fun c => b_id c =? id) (bet_with b BS_SETTLED r h) (ms_bets x)) pend deps wds) =
            open_amt x - b_amount b).
  { intros. unfold open_amt. cbn [ms_bets mstate_upd]. rewrite (upd_sum_found _ bet_open_amt _ b _ EF).
    unfold bet_open_amt at 2 3. rewrite EST. cbn [b_status bet_with]. change (BS_SETTLED =? BS_SETTLED) with true. cbv iota. lia. }
  assert (Hof : forall r mk bk pend deps wds,
            open_fee (mstate_upd x mk bk (upd (fun c => b_id c =? id) (bet_with b BS_SETTLED r h) (ms_bets x)) pend deps wds) =
            open_fee x - b_fee b).
  { intros. unfold open_fee. cbn [ms_bets mstate_upd]. rewrite (upd_sum_found _ bet_open_fee _ b _ EF).
    unfold bet_open_fee at 2 3. rewrite EST. cbn [b_status bet_with]. change (BS_SETTLED =? BS_SETTLED) with true. cbv iota. lia. }
  assert (Hbets : forall st r c, In c (upd (fun c => b_id c =? id) (bet_with b st r h) (ms_bets x)) ->
                                 0 <= b_creator c /\ b_amount c = zsum (map f_stake (b_parts c))).
  { intros st r. eapply bets_upd_ok; [apply (mi_bets _ Hx)|exact Hin|reflexivity|reflexivity|reflexivity]. }
  destruct ((k_status (ms_mkt x) =? MK_ABORTED) || (k_status (ms_mkt x) =? MK_CANCELED)) eqn:ERF.
  - (* refund *)
    destruct (payout_profit (b_oddsval b) (b_amount b)); [|discriminate]. inv H.
    split; [|split; [exact Hact|split; [reflexivity|]]].
    + eapply minv_transfer; [exact Hx|reflexivity|reflexivity|reflexivity|]. cbn [ms_bets mstate_upd]. apply Hbets.
    + unfold owed_pool, owed_hfee, owed_bfee. rewrite Hoa, Hof. cbn [ms_book mstate_upd].
      repeat split; netin.
  - destruct (negb (k_status (ms_mkt x) =? MK_DECLARED)) eqn:ED; [discriminate|].
    apply negb_false_true, Z.eqb_eq in ED.
    destruct (zmem (b_odds b) (k_winners (ms_mkt x))).
    + (* the bettor wins *)
      destruct (bettor_wins (ms_book x) (b_creator b) (b_parts b)) as [[bk effs0]|] eqn:EW; [|discriminate]. inv H.
      destruct (bettor_wins_delta _ _ _ _ _ EW (mi_unsettled _ Hx Hact)) as (W1 & W2 & W3 & W4 & W5 & W6).
      split; [|split; [cbn; congruence|split; [reflexivity|]]].
      * eapply minv_profit_change; [exact Hx|reflexivity|exact ED|exact W4|exact W5|exact W1|]. cbn [ms_bets mstate_upd]. apply Hbets.
      * unfold owed_pool, owed_hfee, owed_bfee. rewrite Hoa, Hof. cbn [ms_book mstate_upd]. rewrite W2, W3.
        rewrite !net_in_app, W6, !net_in_wins by (unfold POOL, HOUSEFEE, BETFEE; lia).
        change (POOL =? POOL) with true. change (HOUSEFEE =? POOL) with false. change (BETFEE =? POOL) with false. cbv iota.
        rewrite Hba. repeat split; netin.
    + (* the bettor loses *)
      destruct (bettor_loses (ms_book x) (b_parts b)) as [bk|] eqn:EL; [|discriminate]. inv H.
      destruct (bettor_loses_delta _ _ _ EL (mi_unsettled _ Hx Hact)) as (L1 & L2 & L3 & L4 & L5).
      split; [|split; [cbn; congruence|split; [reflexivity|]]].
      * eapply minv_profit_change; [exact Hx|reflexivity|exact ED|exact L4|exact L5|exact L1|]. cbn [ms_bets mstate_upd]. apply Hbets.
      * unfold owed_pool, owed_hfee, owed_bfee. rewrite Hoa, Hof. cbn [ms_book mstate_upd]. rewrite L2, L3.
        rewrite Hba. repeat split; netin.
Qed.

(* ---- the bet end blocker ------------------------------------------------------------------------------------------------ *)
Lemma settle_bets_delta ids : forall x bk subs h sidx cnt x' bk' subs' sidx' cnt',
  settle_bets ids x bk subs h sidx cnt = Some (x', bk', subs', sidx', cnt') ->
  minv x -> bk_status (ms_book x) = BK_ACTIVE -> subs_ok subs ->
  minv x' /\ bk_status (ms_book x') = BK_ACTIVE /\ ms_mkt x' = ms_mkt x /\ subs_ok subs' /\
  bget bk' POOL = bget bk POOL + (owed_pool x' - owed_pool x) /\
  bget bk' HOUSEFEE = bget bk HOUSEFEE + (owed_hfee x' - owed_hfee x) /\
  bget bk' BETFEE = bget bk BETFEE + (owed_bfee x' - owed_bfee x).
Proof.
  induction ids as [|id r IH]; intros x bk subs h sidx cnt x' bk' subs' sidx' cnt' H Hx Hact Hs; cbn [settle_bets] in H.
  - inv H. split; [exact Hx|]. split; [exact Hact|]. split; [reflexivity|]. split; [exact Hs|]. repeat split; lia.
  - destruct (settle_bet x h id) as [[x1 effs]|] eqn:ES; [|discriminate].
    destruct (apply_effects bk subs effs) as [[bk1 subs1]|] eqn:EA; [|discriminate].
    destruct (settle_bet_delta _ _ _ _ _ Hx Hact ES) as (Hx1 & Hact1 & Hm1 & D1 & D2 & D3).
    destruct (apply_effects_custody _ _ _ _ _ Hs EA) as [Hs1 Hb1].
    destruct (IH _ _ _ _ _ _ _ _ _ _ _ H Hx1 Hact1 Hs1) as (Hx' & Hact' & Hm' & Hs' & B1 & B2 & B3).
    split; [exact Hx'|]. split; [exact Hact'|]. split; [congruence|]. split; [exact Hs'|]. split; [|split].
    + rewrite B1, (Hb1 POOL) by (unfold POOL; lia). lia.
    + rewrite B2, (Hb1 HOUSEFEE) by (unfold HOUSEFEE; lia). lia.
    + rewrite B3, (Hb1 BETFEE) by (unfold BETFEE; lia). lia.
Qed.

(* one iteration of the bet end blocker: both states it can hand to the next iteration satisfy the invariant
   (pending bets left: the market stays at the head of the queue; none left: the book is marked resolved and the
   market moves to the order-book queue) *)
Lemma bet_iter_inv s m q x ids x1 bk1 subs1 sidx1 cnt pend :
  inv s -> c_mqueue s = m :: q -> get_ms s m = Some x ->
  settle_bets ids x (c_bank s) (c_subs s) (c_height s) (c_settledix s) 0 = Some (x1, bk1, subs1, sidx1, cnt) ->
  inv (chain_upd (with_subs s subs1) bk1 (set_ms_list (c_ms s) m x1) (m :: q) (c_bqueue s)
                 (c_betcnt s) (c_uid2id s) sidx1 (c_grants s)) /\
  inv (chain_upd (with_subs s subs1) bk1
                 (set_ms_list (c_ms s) m (mstate_upd x1 (ms_mkt x1) (set_status (ms_book x1) BK_RESOLVED) (ms_bets x1)
                                                     pend (ms_deps x1) (ms_wds x1)))
                 (remove_uid m (m :: q)) (c_bqueue s ++ [m]) (c_betcnt s) (c_uid2id s) sidx1 (c_grants s)).
Proof.
  intros Hinv EQ Hg ES.
  assert (Hmin : In m (c_mqueue s)) by (rewrite EQ; left; reflexivity).
  destruct (i_mq s Hinv _ Hmin) as (x0 & Hg0 & Hres & Hact). rewrite Hg in Hg0. inv Hg0.
  pose proof (i_minv s Hinv _ (get_ms_in _ _ _ Hg)) as Hx. cbn [snd] in Hx.
  destruct (settle_bets_delta _ _ _ _ _ _ _ _ _ _ _ _ ES Hx Hact (i_subs s Hinv)) as (Hx1 & Hact1 & Hm1 & Hs1 & B1 & B2 & B3).
  pose proof (i_mq_nodup s Hinv) as Hnd. rewrite EQ in Hnd. inversion Hnd as [|? ? Hnotin Hndq]; subst.
  split.
  - eapply inv_upd_market; try eassumption.
    + intros m0 Hin _. rewrite EQ. exact Hin.
    + intros _. split; [rewrite Hm1; exact Hres|exact Hact1].
  - eapply inv_upd_market; try eassumption.
    + destruct Hx1 as [N U P O C B A S]. constructor; cbn [ms_book ms_mkt ms_bets mstate_upd set_status bk_status bk_parts book_upd]; try assumption.
      * intros Habs. discriminate Habs.
      * intros Hai. exfalso. rewrite Hm1 in Hai. exact (ai_not_res _ Hai Hres).
    + unfold remove_uid. cbn [remove_first]. rewrite Z.eqb_refl. exact Hndq.
    + unfold remove_uid. cbn [remove_first]. rewrite Z.eqb_refl. intros m0 Hin _. rewrite EQ. right. exact Hin.
    + unfold remove_uid. cbn [remove_first]. rewrite Z.eqb_refl. intros Hin. contradiction.
Qed.

Lemma bet_endblock_inv fuel : forall s n s', bet_endblock fuel s n = Some s' -> inv s -> inv s'.
Proof.
  induction fuel as [|f IH]; intros s n s' H Hinv; cbn [bet_endblock] in H.
  - destruct (n <=? 0); [inv H; exact Hinv|discriminate].
  - destruct (n <=? 0); [inv H; exact Hinv|].
    destruct (c_mqueue s) as [|m q] eqn:EQ; [inv H; exact Hinv|].
    destruct (get_ms s m) as [x|] eqn:Hg; [|discriminate].
    destruct (settle_bets _ x (c_bank s) (c_subs s) (c_height s) (c_settledix s) 0) as [[[[[x1 bk1] subs1] sidx1] cnt]|] eqn:ES; [|discriminate].
    destruct (ms_pending x1) eqn:EP.
    + destruct (negb (bk_status (ms_book x1) =? BK_ACTIVE)); [discriminate|].
      eapply IH; [exact H|]. exact (proj2 (bet_iter_inv _ _ _ _ _ _ _ _ _ _ [] Hinv EQ Hg ES)).
    + eapply IH; [exact H|]. exact (proj1 (bet_iter_inv _ _ _ _ _ _ _ _ _ _ [] Hinv EQ Hg ES)).
Qed.

(* ---- the order-book end blocker -------------------------------------------------------------------------------------- *)
Lemma batch_parts_profit ps : forall st creator limit cnt alls c ps' effs,
  batch_parts ps st creator limit cnt = Some (alls, c, ps', effs) -> map p_profit ps' = map p_profit ps.
Proof.
  induction ps as [|p r IH]; intros st creator limit cnt alls c ps' effs H; cbn [batch_parts] in H.
  - inv H. reflexivity.
  - match type of H with match ?r0 with _ => _ end = _ => destruct r0 as [[[p' e] k]|] eqn:ER end; [|discriminate].
    assert (Hpp : p_profit p' = p_profit p).
    { destruct (p_settled p); [inv ER; reflexivity|].
      destruct (settle_participation p st creator) as [[p2 e2]|] eqn:ESP; [|discriminate]. inv ER.
      unfold settle_participation in ESP. dmatch ESP; inv ESP; reflexivity. }
    destruct (limit <=? k).
    + inv H. cbn [map]. rewrite Hpp. reflexivity.
    + destruct (batch_parts r st creator limit k) as [[[[alls2 c2] ps2] effs2]|] eqn:EB; [|discriminate]. inv H.
      cbn [map]. rewrite Hpp, (IH _ _ _ _ _ _ _ _ EB). reflexivity.
Qed.

Lemma map_eq_forall {A B} (f : A -> B) (P : B -> Prop) l l' : map f l' = map f l ->
  (forall q, In q l -> P (f q)) -> forall q', In q' l' -> P (f q').
Proof. intros H Hl q' Hq'. destruct (map_eq_in _ _ _ _ H Hq') as (q & Hq & E). rewrite <- E. apply Hl. exact Hq. Qed.

(* one iteration of the order-book end blocker *)
Lemma ob_iter_inv s m x limit alls cnt ps effs bk1 subs1 bq :
  inv s -> get_ms s m = Some x -> bk_status (ms_book x) = BK_RESOLVED ->
  batch_parts (bk_parts (ms_book x)) (k_status (ms_mkt x)) (k_creator (ms_mkt x)) limit 0 = Some (alls, cnt, ps, effs) ->
  apply_effects (c_bank s) (c_subs s) effs = Some (bk1, subs1) ->
  inv (chain_upd (with_subs s subs1) bk1
        (set_ms_list (c_ms s) m
           (mstate_upd x (ms_mkt x)
              (book_upd (ms_book x) (if alls then BK_SETTLED else bk_status (ms_book x)) (bk_partcnt (ms_book x)) (bk_queues (ms_book x)) ps
                        (bk_expo (ms_book x)) (bk_expo_ix (ms_book x)) (bk_hist (ms_book x)) (bk_pairs (ms_book x)))
              (ms_bets x) (ms_pending x) (ms_deps x) (ms_wds x)))
        (c_mqueue s) bq (c_betcnt s) (c_uid2id s) (c_settledix s) (c_grants s)).
Proof.
  intros Hinv Hg ER EB EA.
  pose proof (i_minv s Hinv _ (get_ms_in _ _ _ Hg)) as Hx. cbn [snd] in Hx.
  destruct (apply_effects_custody _ _ _ _ _ (i_subs s Hinv) EA) as [Hs1 Hb1].
  assert (Hprof : k_status (ms_mkt x) = MK_DECLARED \/ forall p, In p (bk_parts (ms_book x)) -> p_profit p = 0).
  { destruct (Z.eq_dec (k_status (ms_mkt x)) MK_DECLARED) as [E|E]; [left; exact E|right; apply (mi_profit _ Hx E)]. }
  destruct (batch_parts_delta _ _ _ _ _ _ _ _ _ EB (mi_owner _ Hx) (mi_creator _ Hx) Hprof) as (D1 & D2 & D3 & D4 & D5).
  pose proof (batch_parts_profit _ _ _ _ _ _ _ _ _ EB) as D6.
  eapply inv_upd_market; try eassumption.
  + destruct Hx as [N U P O C B A S].
    constructor; cbn [ms_book ms_mkt ms_bets mstate_upd bk_status bk_parts book_upd]; try assumption.
    * rewrite D4. exact N.
    * intros Habs. exfalso. destruct alls; [discriminate Habs|]. rewrite ER in Habs. discriminate Habs.
    * intros Hnd. apply (map_eq_forall p_profit (fun v => v = 0) _ _ D6). intros q Hq. apply (P Hnd q Hq).
    * intros Hai. pose proof (A Hai) as Habs. rewrite ER in Habs. discriminate Habs.
  + rewrite (Hb1 POOL) by (unfold POOL; lia). unfold owed_pool, open_amt. rewrite !pool_parts_eq. cbn [ms_book ms_bets mstate_upd bk_parts book_upd]. lia.
  + rewrite (Hb1 HOUSEFEE) by (unfold HOUSEFEE; lia). unfold owed_hfee. rewrite !fee_parts_eq. cbn [ms_book ms_bets mstate_upd bk_parts book_upd]. lia.
  + rewrite (Hb1 BETFEE) by (unfold BETFEE; lia). unfold owed_bfee, open_fee. cbn [ms_book ms_bets mstate_upd]. lia.
  + apply (i_mq_nodup s Hinv).
  + intros m0 Hin _. exact Hin.
  + intros Hin. exfalso. destruct (i_mq s Hinv _ Hin) as (x1 & Hg1 & _ & Ha). rewrite Hg in Hg1. inv Hg1.
    rewrite ER in Ha. discriminate Ha.
Qed.

Lemma ob_endblock_inv fuel : forall s n i s', ob_endblock fuel s n i = Some s' -> inv s -> inv s'.
Proof.
  induction fuel as [|f IH]; intros s n i s' H Hinv; cbn [ob_endblock] in H.
  - destruct (n <=? 0); [inv H; exact Hinv|discriminate].
  - destruct (n <=? 0); [inv H; exact Hinv|].
    destruct (nth_error (c_bqueue s) i) as [m|]; [|inv H; exact Hinv].
    destruct (get_ms s m) as [x|] eqn:Hg; [|discriminate].
    destruct (negb (bk_status (ms_book x) =? BK_RESOLVED)) eqn:ER; [discriminate|]. apply negb_false_true, Z.eqb_eq in ER.
    destruct (batch_parts _ _ _ _ _) as [[[[alls cnt] ps] effs]|] eqn:EB; [|discriminate].
    destruct (apply_effects (c_bank s) (c_subs s) effs) as [[bk1 subs1]|] eqn:EA; [|discriminate].
    eapply IH; [exact H|]. eapply ob_iter_inv; eassumption.
Qed.

(* ---- the remaining operations ---------------------------------------------------------------------------------------- *)
Lemma pay_custody b f t a b' c : pay b f t a = Some b' -> 0 <= f -> 0 <= t -> c < 0 -> bget b' c = bget b c.
Proof.
  intros H Hf Ht Hc. rewrite (pay_bget _ _ _ _ _ c H).
  destruct (Z.eqb_spec t c), (Z.eqb_spec f c); lia.
Qed.

Lemma subs_ok_set' subs x' : subs_ok subs -> 0 <= sa_id x' -> 0 <= sa_owner x' -> subs_ok (set_sub subs x').
Proof.
  intros Hok Hid How y Hy. unfold set_sub in Hy. apply in_upd in Hy. destruct Hy as [Hy|Hy]; [subst y; split; assumption|apply Hok; exact Hy].
Qed.

Lemma inv_bank_subs s b subs nxt :
  inv s -> (forall c, c < 0 -> bget b c = bget (c_bank s) c) -> subs_ok subs -> 0 <= nxt ->
  inv (set_bank (chain_set_subs s subs nxt) b).
Proof.
  intros Hinv Hb Hs Hn. eapply inv_same; [exact Hinv|reflexivity|reflexivity| | | |exact Hs|exact Hn];
    simp_chain; apply Hb; unfold POOL, HOUSEFEE, BETFEE; lia.
Qed.

Lemma house_deposit_inv s sg tk m a k d s' : inv s -> 0 <= sg -> house_deposit s sg tk m a k d = Some s' -> inv s'.
Proof.
  intros Hinv Hsg H. unfold house_deposit in H.
  destruct (deposit_validate s sg tk m a k d true) as [[depositor grants]|] eqn:EV; [|discriminate].
  eapply house_deposit_core_inv; [exact Hinv| |exact H].
  unfold deposit_validate in EV. dmatchS EV. inv EV.
  match goal with |- 0 <= (if ?c then _ else _) => destruct c eqn:EC end; [|exact Hsg].
  apply andb_true_iff in EC. destruct EC as [EC _]. apply Z.leb_le in EC. exact EC.
Qed.

Lemma house_withdraw_inv s sg tk m p mo a k d s' : inv s -> 0 <= sg -> house_withdraw s sg tk m p mo a k d = Some s' -> inv s'.
Proof.
  intros Hinv Hsg H. unfold house_withdraw in H.
  destruct (withdraw_validate s sg tk m p mo a k d) as [[depositor ob]|] eqn:EV; [|discriminate].
  destruct (withdraw_core s sg depositor m p mo a ob) as [[s1 amt]|] eqn:EW; [|discriminate]. inv H.
  eapply withdraw_core_inv; [exact Hinv| |exact EW].
  unfold withdraw_validate in EV. dmatchS EV. inv EV.
  match goal with |- 0 <= (if ?c then _ else _) => destruct c eqn:EC end; [|exact Hsg].
  apply Z.leb_le in EC. exact EC.
Qed.

Lemma bet_wager_inv s sg tk u a sm so ov mu al k ot s' : inv s -> 0 <= sg -> bet_wager s sg tk u a sm so ov mu al k ot = Some s' -> inv s'.
Proof.
  intros Hinv Hsg H. unfold bet_wager in H. destruct (wager_prepare _ _ _ _ _ _ _ _ _ _ _); [|discriminate].
  eapply wager_core_inv; eassumption.
Qed.

Lemma do_grant_inv s a b k l e s' : inv s -> do_grant s a b k l e = Some s' -> inv s'.
Proof.
  intros Hinv H. unfold do_grant in H. dmatchS H. inv H.
  eapply inv_same; [exact Hinv|reflexivity|reflexivity|reflexivity|reflexivity|reflexivity|apply (i_subs s Hinv)|apply (i_subnext s Hinv)].
Qed.
Lemma do_revoke_inv s a b k s' : inv s -> do_revoke s a b k = Some s' -> inv s'.
Proof.
  intros Hinv H. unfold do_revoke in H. dmatchS H. inv H.
  eapply inv_same; [exact Hinv|reflexivity|reflexivity|reflexivity|reflexivity|reflexivity|apply (i_subs s Hinv)|apply (i_subnext s Hinv)].
Qed.
Lemma do_send_inv s f t a s' : inv s -> 0 <= f -> do_send s f t a = Some s' -> inv s'.
Proof.
  intros Hinv Hf H. unfold do_send in H. dmatchS H. inv H.
  match goal with E : (t <? 0) = false |- _ => apply Z.ltb_ge in E; rename E into Ht end.
  match goal with E : pay _ _ _ _ = Some _ |- _ => rename E into EP end.
  eapply inv_same; [exact Hinv|reflexivity|reflexivity| | | |apply (i_subs s Hinv)|apply (i_subnext s Hinv)];
    simp_chain; eapply pay_custody; try eassumption; unfold POOL, HOUSEFEE, BETFEE; lia.
Qed.
Lemma ovm_propose_inv s sg tk ks li s' : inv s -> ovm_propose s sg tk ks li = Some s' -> inv s'.
Proof.
  intros Hinv H. unfold ovm_propose in H. dmatchS H. inv H.
  eapply inv_same; [exact Hinv|reflexivity|reflexivity|reflexivity|reflexivity|reflexivity|apply (i_subs s Hinv)|apply (i_subnext s Hinv)].
Qed.
Lemma ovm_vote_inv s tk vi pid v s' : inv s -> ovm_vote s tk vi pid v = Some s' -> inv s'.
Proof.
  intros Hinv H. unfold ovm_vote in H. dmatchS H. inv H.
  eapply inv_same; [exact Hinv|reflexivity|reflexivity|reflexivity|reflexivity|reflexivity|apply (i_subs s Hinv)|apply (i_subnext s Hinv)].
Qed.

Lemma sub_create_inv s c o l s' : inv s -> 0 <= c -> 0 <= o -> sub_create s c o l = Some s' -> inv s'.
Proof.
  intros Hinv Hc Ho H. unfold sub_create in H. dmatchS H. inv H.
  match goal with E : pay _ _ _ _ = Some _ |- _ => rename E into EP end.
  pose proof (i_subnext s Hinv) as Hn.
  apply inv_bank_subs; [exact Hinv| | |lia].
  - intros c0 Hc0. eapply pay_custody; try eassumption. unfold SUBBASE. lia.
  - intros y Hy. apply in_app_or in Hy. destruct Hy as [Hy|[Hy|[]]]; [apply (i_subs s Hinv y Hy)|]. subst y. cbn. split; assumption.
Qed.

Lemma sub_topup_inv s c o l s' : inv s -> 0 <= c -> sub_topup s c o l = Some s' -> inv s'.
Proof.
  intros Hinv Hc H. unfold sub_topup in H. dmatchS H. inv H.
  match goal with E : pay _ _ _ _ = Some _ |- _ => rename E into EP end.
  match goal with E : sub_by_owner _ _ = Some ?x |- _ => destruct (sub_by_owner_in _ _ _ E) as [Hin _]; rename x into x0 end.
  destruct (i_subs s Hinv x0 Hin) as [Hid How].
  apply inv_bank_subs; [exact Hinv| | |apply (i_subnext s Hinv)].
  - intros c0 Hc0. eapply pay_custody; try eassumption. unfold sub_addr, SUBBASE. lia.
  - apply subs_ok_set'; [apply (i_subs s Hinv)|exact Hid|exact How].
Qed.

Lemma sub_withdraw_unlocked_inv s o s' : inv s -> sub_withdraw_unlocked s o = Some s' -> inv s'.
Proof.
  intros Hinv H. unfold sub_withdraw_unlocked in H. dmatchS H. inv H.
  match goal with E : pay _ _ _ _ = Some _ |- _ => rename E into EP end.
  match goal with E : sub_by_owner _ _ = Some ?x |- _ => destruct (sub_by_owner_in _ _ _ E) as [Hin Ho]; rename x into x0 end.
  match goal with E : sub_withdraw x0 _ = Some ?y |- _ => destruct (sub_withdraw_id _ _ _ E) as [I1 I2] end.
  destruct (i_subs s Hinv x0 Hin) as [Hid How].
  apply inv_bank_subs; [exact Hinv| | |apply (i_subnext s Hinv)].
  - intros c0 Hc0. eapply pay_custody; try eassumption; [unfold sub_addr, SUBBASE; lia|lia].
  - apply subs_ok_set'; [apply (i_subs s Hinv)|lia|lia].
Qed.

Lemma sub_wager_inv s sg tk ic tk2 u a sm so ov mu al k ot md sd s' :
  inv s -> sub_wager s sg tk ic tk2 u a sm so ov mu al k ot md sd = Some s' -> inv s'.
Proof.
  intros Hinv H. unfold sub_wager in H. dmatchS H.
  match goal with E : pay _ _ _ _ = Some _ |- _ => rename E into EP end.
  match goal with E : sub_by_owner _ _ = Some ?x |- _ => destruct (sub_by_owner_in _ _ _ E) as [Hin Ho]; rename x into x0 end.
  match goal with E : sub_withdraw x0 _ = Some ?y |- _ => destruct (sub_withdraw_id _ _ _ E) as [I1 I2] end.
  destruct (i_subs s Hinv x0 Hin) as [Hid How].
  eapply wager_core_inv; [| |exact H]; [|lia].
  apply inv_bank_subs; [exact Hinv| | |apply (i_subnext s Hinv)].
  - intros c0 Hc0. eapply pay_custody; try eassumption; [unfold sub_addr, SUBBASE; lia|lia].
  - apply subs_ok_set'; [apply (i_subs s Hinv)|lia|lia].
Qed.

Lemma inv_with_subs s subs : inv s -> subs_ok subs -> inv (with_subs s subs).
Proof.
  intros Hinv Hs. eapply inv_same; [exact Hinv|reflexivity|reflexivity|reflexivity|reflexivity|reflexivity|exact Hs|apply (i_subnext s Hinv)].
Qed.

Lemma sub_house_deposit_inv s sg tk m a k d s' : inv s -> sub_house_deposit s sg tk m a k d = Some s' -> inv s'.
Proof.
  intros Hinv H. unfold sub_house_deposit in H. dmatchS H. inv H.
  match goal with E : sub_by_owner _ _ = Some ?x |- _ => destruct (sub_by_owner_in _ _ _ E) as [Hin Ho]; rename x into x0 end.
  match goal with E : sub_spend x0 _ = Some ?y |- _ => destruct (sub_spend_id _ _ _ E) as [I1 I2] end.
  match goal with E : house_deposit_core _ _ _ _ _ _ = Some ?s1 |- _ => rename E into ED; rename s1 into sd end.
  destruct (i_subs s Hinv x0 Hin) as [Hid How].
  assert (Hinv1 : inv sd) by (eapply house_deposit_core_inv; [exact Hinv| |exact ED]; unfold sub_addr, SUBBASE; lia).
  apply inv_with_subs; [exact Hinv1|]. apply subs_ok_set'; [apply (i_subs _ Hinv1)|lia|lia].
Qed.

Lemma sub_house_withdraw_inv s sg tk m p mo a k d s' : inv s -> sub_house_withdraw s sg tk m p mo a k d = Some s' -> inv s'.
Proof.
  intros Hinv H. unfold sub_house_withdraw in H. dmatchS H. inv H.
  match goal with E : sub_by_owner _ _ = Some ?x |- _ => destruct (sub_by_owner_in _ _ _ E) as [Hin Ho]; rename x into x0 end.
  match goal with E : sub_unspend x0 _ = Some ?y |- _ => destruct (sub_unspend_id _ _ _ E) as [I1 I2] end.
  match goal with E : withdraw_core _ _ _ _ _ _ _ _ = Some (?s1, _) |- _ => rename E into EW; rename s1 into sd end.
  destruct (i_subs s Hinv x0 Hin) as [Hid How].
  assert (Hinv1 : inv sd) by (eapply withdraw_core_inv; [exact Hinv| |exact EW]; unfold sub_addr, SUBBASE; lia).
  apply inv_with_subs; [exact Hinv1|]. apply subs_ok_set'; [apply (i_subs _ Hinv1)|lia|lia].
Qed.

(* ---- blocks, step, run ---------------------------------------------------------------------------------------------------- *)
Lemma halt_inv s : inv s -> inv (halt s).
Proof.
  intros Hinv. eapply inv_same; [exact Hinv|reflexivity|reflexivity|reflexivity|reflexivity|reflexivity|apply (i_subs s Hinv)|apply (i_subnext s Hinv)].
Qed.

Lemma end_block_inv s : inv s -> inv (fst (end_block s)).
Proof.
  intros Hinv. unfold end_block.
  destruct (bet_endblock _ s _) as [s1|] eqn:E1; [|apply halt_inv; exact Hinv].
  pose proof (bet_endblock_inv _ _ _ _ E1 Hinv) as H1.
  destruct (ob_endblock _ s1 _ _) as [s2|] eqn:E2; [|apply halt_inv; exact Hinv].
  pose proof (ob_endblock_inv _ _ _ _ _ E2 H1) as H2.
  cbn [fst]. unfold ovm_endblock. destruct (ovm_finish _ _ _ _) as [ps v].
  eapply inv_same; [exact H2|reflexivity|reflexivity|reflexivity|reflexivity|reflexivity|apply (i_subs _ H2)|apply (i_subnext _ H2)].
Qed.

Lemma begin_block_inv s t : inv s -> inv (fst (begin_block_op s t)).
Proof.
  intros Hinv. unfold begin_block_op. destruct (begin_block _ _ _ _) as [m minted|]; cbn [fst]; [|apply halt_inv; exact Hinv].
  eapply inv_same; [exact Hinv|reflexivity|reflexivity| | | |apply (i_subs s Hinv)|apply (i_subnext s Hinv)];
    simp_chain; apply bget_badd_other; unfold POOL, HOUSEFEE, BETFEE, FEECOLL; lia.
Qed.

(* who may sign: module accounts have no keys, so the account arguments of an operation are user accounts; and what can be
   written down: a market's outcome list is a Go slice, its length fits the uint64 counter the book stores *)
Definition valid_op (o : op) : Prop :=
  match o with
  | OMarketAdd sg _ _ _ _ odds _ => 0 <= sg /\ zlen odds < U64
  | ODeposit sg _ _ _ _ _ => 0 <= sg
  | OWithdraw sg _ _ _ _ _ _ _ => 0 <= sg
  | OWager sg _ _ _ _ _ _ _ _ _ _ => 0 <= sg
  | OSend f _ _ => 0 <= f
  | OSubCreate c o _ => 0 <= c /\ 0 <= o
  | OSubTopUp c _ _ => 0 <= c
  | _ => True
  end.

Lemma tx_inv s r : inv s -> (forall s', r = Some s' -> inv s') -> inv (fst (tx s r)).
Proof. intros Hinv H. unfold tx. destruct r as [s'|]; cbn [fst]; [apply H; reflexivity|exact Hinv]. Qed.

Theorem step_inv s o : inv s -> valid_op o -> inv (fst (step s o)).
Proof.
  intros Hinv Hv. unfold step. destruct (c_halted s); [exact Hinv|].
  destruct o; cbn [valid_op] in Hv; try (apply tx_inv; [exact Hinv|intros s' H]).
  - apply begin_block_inv. exact Hinv.
  - apply end_block_inv. exact Hinv.
  - destruct Hv as [Hv _]. eapply market_add_inv; eassumption.
  - eapply market_update_inv; eassumption.
  - eapply market_resolve_inv; eassumption.
  - eapply house_deposit_inv; eassumption.
  - eapply house_withdraw_inv; eassumption.
  - eapply bet_wager_inv; eassumption.
  - eapply do_grant_inv; eassumption.
  - eapply do_revoke_inv; eassumption.
  - eapply do_send_inv; eassumption.
  - eapply ovm_propose_inv; eassumption.
  - eapply ovm_vote_inv; eassumption.
  - destruct Hv as [Hc Ho]. eapply sub_create_inv; [exact Hinv|exact Hc|exact Ho|exact H].
  - eapply sub_topup_inv; eassumption.
  - eapply sub_withdraw_unlocked_inv; eassumption.
  - eapply sub_wager_inv; eassumption.
  - eapply sub_house_deposit_inv; eassumption.
  - eapply sub_house_withdraw_inv; eassumption.
Qed.

Theorem run_inv ops : forall s, inv s -> Forall valid_op ops -> inv (run s ops).
Proof.
  induction ops as [|o r IH]; intros s Hinv Hv; cbn [run fold_left]; [exact Hinv|].
  inversion Hv; subst. apply IH; [apply step_inv; assumption|assumption].
Qed.

(* genesis: no market exists; the custody accounts are empty *)
Lemma init_inv bk supply P vault MP t0 sw sd :
  bget bk POOL = 0 -> bget bk HOUSEFEE = 0 -> bget bk BETFEE = 0 -> inv (init bk supply P vault MP t0 sw sd).
Proof.
  intros B1 B2 B3. constructor; cbn.
  - unfold cust. cbn. repeat split; assumption.
  - intros e [].
  - constructor.
  - intros m [].
  - intros x [].
  - lia.
Qed.

(* C01 over histories: after any sequence of operations from genesis, each custody account holds exactly the sum,
   over all markets, of what the records of that market say is owed *)
Theorem custody_over_histories bk supply P vault MP t0 sw sd ops :
  bget bk POOL = 0 -> bget bk HOUSEFEE = 0 -> bget bk BETFEE = 0 -> Forall valid_op ops ->
  cust (run (init bk supply P vault MP t0 sw sd) ops).
Proof.
  intros B1 B2 B3 Hv. apply i_cust. apply run_inv; [apply init_inv; assumption|exact Hv].
Qed.

(* a decidable version of the signer condition, for concrete histories *)
Definition valid_opb (o : op) : bool :=
  match o with
  | OMarketAdd sg _ _ _ _ odds _ => (0 <=? sg) && (zlen odds <? U64)
  | ODeposit sg _ _ _ _ _ => 0 <=? sg
  | OWithdraw sg _ _ _ _ _ _ _ => 0 <=? sg
  | OWager sg _ _ _ _ _ _ _ _ _ _ => 0 <=? sg
  | OSend f _ _ => 0 <=? f
  | OSubCreate c o _ => (0 <=? c) && (0 <=? o)
  | OSubTopUp c _ _ => 0 <=? c
  | _ => true
  end.
Lemma valid_opb_ok o : valid_opb o = true -> valid_op o.
Proof.
  destruct o; cbn; intros H; try exact I; try (apply Z.leb_le; exact H).
  - apply andb_true_iff in H. destruct H as [H1 H2]. split; [apply Z.leb_le|apply Z.ltb_lt]; assumption.
  - apply andb_true_iff in H. destruct H as [H1 H2]. split; apply Z.leb_le; assumption.
Qed.
Lemma valid_ops_ok ops : forallb valid_opb ops = true -> Forall valid_op ops.
Proof. intros H. apply Forall_forall. intros o Ho. apply valid_opb_ok. rewrite forallb_forall in H. apply H. exact Ho. Qed.

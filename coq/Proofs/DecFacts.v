(* Proofs/DecFacts.v — arithmetic facts about the LegacyDec kernels of Lib/Dec.v *)
From Coq Require Import ZArith Bool List Lia.
From Sge Require Import Lib.Dec.
Open Scope Z_scope.

Lemma PREC_pos : 0 < PREC. Proof. reflexivity. Qed.
Lemma HALF_double : 2 * HALF = PREC. Proof. reflexivity. Qed.

Lemma chop_trunc_nonneg a : 0 <= a -> chop_trunc a = a / PREC.
Proof. intros Ha. unfold chop_trunc. apply Z.quot_div_nonneg; [exact Ha | exact PREC_pos]. Qed.

Lemma chop_trunc_ge0 a : 0 <= a -> 0 <= chop_trunc a.
Proof. intros Ha. rewrite chop_trunc_nonneg by exact Ha. apply Z.div_pos; [exact Ha | exact PREC_pos]. Qed.

Lemma chop_trunc_of_int i : chop_trunc (dec_of_int i) = i.
Proof. unfold chop_trunc, dec_of_int. apply Z.quot_mul. discriminate. Qed.

(* rounding error of chopPrecisionAndRound on non-negative input: at most one half *)
Lemma chop_round_nonneg_spec a :
  0 <= a ->
  let q := chop_round_nonneg a in
  0 <= q /\ 2 * Z.abs (q * PREC - a) <= PREC.
Proof.
  intros Ha. unfold chop_round_nonneg. cbv zeta.
  pose proof (Z.div_mod a PREC ltac:(discriminate)) as Hdm.
  pose proof (Z.mod_pos_bound a PREC PREC_pos) as Hm.
  assert (Hq : 0 <= a / PREC) by (apply Z.div_pos; [exact Ha|exact PREC_pos]).
  pose proof HALF_double as HH.
  destruct (a mod PREC =? 0) eqn:E0; [apply Z.eqb_eq in E0; split; [lia|lia]|].
  destruct (a mod PREC <? HALF) eqn:E1; [apply Z.ltb_lt in E1; split; [lia|lia]|].
  apply Z.ltb_ge in E1.
  destruct (HALF <? a mod PREC) eqn:E2; [apply Z.ltb_lt in E2; split; [lia|lia]|].
  apply Z.ltb_ge in E2.
  destruct (Z.even (a / PREC)); split; lia.
Qed.

Lemma chop_round_of_nonneg a : 0 <= a -> chop_round a = chop_round_nonneg a.
Proof. intros Ha. unfold chop_round. destruct (a <? 0) eqn:E; [apply Z.ltb_lt in E; lia|reflexivity]. Qed.

Lemma chop_round_ge0 a : 0 <= a -> 0 <= chop_round a.
Proof. intros Ha. rewrite chop_round_of_nonneg by exact Ha. apply (chop_round_nonneg_spec a Ha). Qed.

(* Quo of a non-negative Dec by a positive Dec *)
Lemma dec_quo_nonneg a b : 0 <= a -> 0 < b -> 0 <= dec_quo a b.
Proof.
  intros Ha Hb. unfold dec_quo. apply chop_round_ge0.
  rewrite Z.quot_div_nonneg; [| pose proof PREC_pos; nia | exact Hb].
  apply Z.div_pos; [pose proof PREC_pos; nia | exact Hb].
Qed.

(* P / (B blocks): the per-block quota q satisfies |B*q - P| <= B/2 + B/10^18 *)
Lemma dec_quo_blocks P B :
  0 <= P -> 0 < B ->
  let q := dec_quo P (dec_of_int B) in
  0 <= q /\ 2 * PREC * Z.abs (B * q - P) <= B * PREC + 2 * B.
Proof.
  intros HP HB. cbv zeta. unfold dec_quo, dec_of_int.
  pose proof PREC_pos as Hp.
  assert (Hx : Z.quot (P * PREC * PREC) (B * PREC) = (P * PREC) / B).
  { rewrite Z.quot_div_nonneg; [| nia | nia].
    replace (P * PREC * PREC) with ((P * PREC) * PREC) by ring.
    rewrite Z.div_mul_cancel_r; [reflexivity | lia | lia]. }
  rewrite Hx.
  set (x := (P * PREC) / B).
  assert (Hx0 : 0 <= x) by (apply Z.div_pos; nia).
  pose proof (Z.div_mod (P * PREC) B ltac:(lia)) as Hdm. fold x in Hdm.
  pose proof (Z.mod_pos_bound (P * PREC) B HB) as Hm.
  rewrite chop_round_of_nonneg by exact Hx0.
  pose proof (chop_round_nonneg_spec x Hx0) as [Hq Herr]. cbv zeta in Hq, Herr.
  set (q := chop_round_nonneg x) in *.
  split; [exact Hq|].
  (* B*q*PREC - P*PREC = B*(q*PREC - x) - (P*PREC mod B) *)
  assert (HE : (B * q - P) * PREC = B * (q * PREC - x) - (P * PREC) mod B).
  { set (r := (P * PREC) mod B) in *.
    replace ((B * q - P) * PREC) with (B * q * PREC - P * PREC) by ring.
    rewrite Hdm. ring. }
  assert (Habs : Z.abs ((B * q - P) * PREC) <= B * Z.abs (q * PREC - x) + B).
  { rewrite HE. set (d := q * PREC - x).
    assert (Hbd : Z.abs (B * d) = B * Z.abs d) by (rewrite Z.abs_mul, (Z.abs_eq B) by lia; reflexivity).
    lia. }
  rewrite Z.abs_mul in Habs. rewrite (Z.abs_eq PREC) in Habs by lia. nia.
Qed.

Lemma chop_trunc_of_int' i : chop_trunc (i * PREC) = i.
Proof. exact (chop_trunc_of_int i). Qed.

(* Proofs/Mono.v — what never changes again, over histories (C07, and the "exactly once" parts of C03 and C04).
   For every operation, every market that exists before the operation still exists after it, and:
     - its id, creator and outcome list are unchanged;
     - once it is resolved (declared, cancelled or aborted) the whole market record is unchanged: status, winners,
       resolution time, start and end time are final;
     - the status of its order book only moves forward (active -> resolved -> settled);
     - a settled bet is never touched again (same record, in particular same result and settlement height);
     - a paid-out participation is never touched again;
     - every bet keeps its id, uid, creator, amount, fee, outcome, odds and backing parts.
   mono is reflexive and transitive, so the same holds between any two points of a history (run_mono). *)
From Coq Require Import ZArith Bool List Lia.
From Sge Require Import Lib.Dec Model.Types Model.Orderbook Model.Mint Model.Chain
     Proofs.Tactics Proofs.CustodyLocal Proofs.Custody Proofs.BetIndex.
Import ListNotations.
Open Scope Z_scope.

Definition bet_core (b : bet) := (b_id b, b_uid b, b_creator b, b_mkt b, b_odds b, b_oddsval b, b_amount b, b_fee b, b_parts b).

Record mono (x x' : mstate) : Prop := {
  mo_ident : k_uid (ms_mkt x') = k_uid (ms_mkt x) /\ k_creator (ms_mkt x') = k_creator (ms_mkt x) /\
             k_odds (ms_mkt x') = k_odds (ms_mkt x);
  mo_final : status_res (k_status (ms_mkt x)) -> ms_mkt x' = ms_mkt x;
  mo_book : bk_status (ms_book x) <= bk_status (ms_book x');
  mo_bets : forall b, In b (ms_bets x) -> b_status b = BS_SETTLED -> In b (ms_bets x');
  mo_parts : forall p, In p (bk_parts (ms_book x)) -> p_settled p = true -> In p (bk_parts (ms_book x'));
  mo_core : forall b, In b (ms_bets x) -> exists b', In b' (ms_bets x') /\ bet_core b' = bet_core b }.

Lemma mono_refl x : mono x x.
Proof. constructor; try tauto; try lia. intros bb Hbb. exists bb. split; [exact Hbb|reflexivity]. Qed.

Lemma ai_or_res_dec st : status_res st \/ ~ status_res st.
Proof. unfold status_res. lia. Qed.

Lemma mono_trans x y z : mono x y -> mono y z -> mono x z.
Proof.
  intros [A1 A2 A3 A4 A5 A6] [B1 B2 B3 B4 B5 B6]. constructor.
  - destruct A1 as (a & b & c), B1 as (d & e & f). repeat split; congruence.
  - intros Hr. rewrite (B2 ltac:(rewrite (A2 Hr); exact Hr)). apply A2. exact Hr.
  - lia.
  - intros b Hb Hs. apply B4; [apply A4; assumption|exact Hs].
  - intros p Hp Hs. apply B5; [apply A5; assumption|exact Hs].
  - intros b Hb. destruct (A6 b Hb) as (b1 & H1 & E1). destruct (B6 b1 H1) as (b2 & H2 & E2). exists b2. split; [exact H2|congruence].
Qed.

(* chain level: every market of s is still there in s', monotonically *)
Definition cmono (s s' : chain) : Prop :=
  forall m x, get_ms s m = Some x -> exists x', get_ms s' m = Some x' /\ mono x x'.

Lemma cmono_refl s : cmono s s.
Proof. intros m x H. exists x. split; [exact H|apply mono_refl]. Qed.
Lemma cmono_trans a b c : cmono a b -> cmono b c -> cmono a c.
Proof.
  intros H1 H2 m x Hg. destruct (H1 m x Hg) as (y & Hy & M1). destruct (H2 m y Hy) as (z & Hz & M2).
  exists z. split; [exact Hz|eapply mono_trans; eassumption].
Qed.

Lemma cmono_same s s' : c_ms s' = c_ms s -> cmono s s'.
Proof. intros E m x H. exists x. split; [rewrite (get_ms_ext s s' m E); exact H|apply mono_refl]. Qed.

Lemma cmono_upd s s' m0 x0 x0' :
  get_ms s m0 = Some x0 -> mono x0 x0' -> c_ms s' = set_ms_list (c_ms s) m0 x0' -> cmono s s'.
Proof.
  intros Hg Hm E m x H. unfold get_ms, findb in *. rewrite E.
  destruct (Z.eq_dec m m0) as [->|Hne].
  - rewrite get_set_same. exists x0'. split; [reflexivity|]. rewrite Hg in H. inv H. exact Hm.
  - rewrite (get_set_other _ _ _ _ Hne). exists x. split; [exact H|apply mono_refl].
Qed.

Lemma cmono_add s s' e : c_ms s' = c_ms s ++ [e] -> cmono s s'.
Proof.
  intros E m x H. exists x. split; [|apply mono_refl]. unfold get_ms, findb in *. rewrite E.
  destruct (find (fun x0 => fst x0 =? m) (c_ms s)) as [e0|] eqn:EF; [|discriminate].
  rewrite (find_app_l _ _ _ _ EF). exact H.
Qed.

(* ---- list facts -------------------------------------------------------------------------------------------------------- *)
Lemma in_upd_other {A} (f : A -> bool) (v p q : A) l : find f l = Some p -> In q l -> q <> p -> In q (upd f v l).
Proof.
  induction l as [|y r IH]; cbn [find upd]; intros Hf Hq Hne; [destruct Hq|].
  destruct (f y) eqn:E.
  - inv Hf. destruct Hq as [->|Hq]; [contradiction|right; exact Hq].
  - destruct Hq as [->|Hq]; [left; reflexivity|right; apply IH; assumption].
Qed.

Lemma in_upd_new {A} (f : A -> bool) (v : A) l : In v (upd f v l).
Proof.
  induction l as [|y r IH]; cbn [upd]; [left; reflexivity|]. destruct (f y); [left; reflexivity|right; exact IH].
Qed.

Lemma upd_core {A B} (f : A -> bool) (g : A -> B) (v p : A) l : find f l = Some p -> g v = g p ->
  forall c, In c l -> exists c', In c' (upd f v l) /\ g c' = g c.
Proof.
  induction l as [|y r IH]; cbn [find upd]; intros Hf Hg c Hc; [destruct Hc|].
  destruct (f y) eqn:E.
  - inv Hf. destruct Hc as [->|Hc]; [exists v; split; [left; reflexivity|exact Hg]|exists c; split; [right; exact Hc|reflexivity]].
  - destruct Hc as [->|Hc]; [exists c; split; [left; reflexivity|reflexivity]|].
    destruct (IH Hf Hg c Hc) as (c' & Hc' & Ec). exists c'. split; [right; exact Hc'|exact Ec].
Qed.

(* replacing the bet found under an id by a re-statused copy keeps every other bet and every bet's core *)
Lemma bets_settle_mono bets id b st r h :
  find (fun c => b_id c =? id) bets = Some b -> b_status b <> BS_SETTLED ->
  (forall c, In c bets -> b_status c = BS_SETTLED -> In c (upd (fun c => b_id c =? id) (bet_with b st r h) bets)) /\
  (forall c, In c bets -> exists c', In c' (upd (fun c => b_id c =? id) (bet_with b st r h) bets) /\ bet_core c' = bet_core c).
Proof.
  intros Hf Hst. split.
  - intros c Hc Hs. eapply in_upd_other; [exact Hf|exact Hc|]. intros ->. contradiction.
  - apply (upd_core _ bet_core _ b); [exact Hf|reflexivity].
Qed.

(* ---- transactions ---------------------------------------------------------------------------------------------------------- *)
Ltac cm_same := apply cmono_same; reflexivity.

Lemma market_add_cmono s sg tk u st en od sts s' : market_add s sg tk u st en od sts = Some s' -> cmono s s'.
Proof. intros H. unfold market_add in H. dmatchS H. inv H. eapply cmono_add. reflexivity. Qed.

Lemma market_update_cmono s tk u st en sts s' : market_update s tk u st en sts = Some s' -> cmono s s'.
Proof.
  intros H. unfold market_update in H. dmatchS H. inv H.
  match goal with E : negb (status_ai (k_status (ms_mkt ?x))) = false |- _ => apply negb_false_true, status_ai_iff in E; rename E into Hold end.
  eapply cmono_upd; [eassumption| |reflexivity].
  constructor; cbn; try tauto; try lia.
  - intros Hr. exfalso. exact (ai_not_res _ Hold Hr).
  - intros bb Hbb. exists bb. split; [exact Hbb|reflexivity].
Qed.

Lemma market_resolve_cmono s tk u r w sts s' : market_resolve s tk u r w sts = Some s' -> cmono s s'.
Proof.
  intros H. unfold market_resolve in H. dmatchS H. inv H.
  match goal with E : negb (status_ai (k_status (ms_mkt ?x))) = false |- _ => apply negb_false_true, status_ai_iff in E; rename E into Hold end.
  eapply cmono_upd; [eassumption| |reflexivity].
  constructor; cbn; try tauto; try lia.
  - intros Hr. exfalso. exact (ai_not_res _ Hold Hr).
  - intros bb Hbb. exists bb. split; [exact Hbb|reflexivity].
Qed.

Lemma house_deposit_core_cmono s c d m a g s' : house_deposit_core s c d m a g = Some s' -> cmono s s'.
Proof.
  intros H. unfold house_deposit_core in H. dmatchS H. inv H.
  match goal with E : init_participation _ _ _ _ _ = Some _ |- _ => rename E into EI end.
  destruct (init_participation_delta _ _ _ _ _ _ _ _ EI) as (_ & _ & _ & Pst & _ & p & Pparts & _).
  eapply cmono_upd; [eassumption| |reflexivity].
  constructor; cbn [ms_mkt ms_book ms_bets mstate_upd]; try tauto.
  - rewrite Pst. lia.
  - intros q Hq _. rewrite Pparts. apply in_or_app. left. exact Hq.
  - intros bb Hbb. exists bb. split; [exact Hbb|reflexivity].
Qed.

Lemma withdraw_participation_parts b idx amt b' effs p :
  withdraw_participation b idx amt = Some (b', effs) -> get_part b idx = Some p ->
  exists p', bk_parts b' = upd (part_is idx) p' (bk_parts b) /\ bk_status b' = bk_status b.
Proof.
  unfold withdraw_participation. intros H Hg. rewrite Hg in H.
  assert (Hidx : p_idx p = idx) by (apply get_part_in in Hg; tauto).
  match type of H with context [set_part b ?q] => exists q end.
  destruct (0 <? _).
  - inv H. unfold set_part. cbn [bk_parts bk_status book_upd p_idx part_upd]. split; reflexivity.
  - destruct (remove_from_queues _ idx) as [qs|]; [|discriminate]. inv H.
    unfold set_queues, set_part. cbn [bk_parts bk_status book_upd p_idx part_upd]. split; reflexivity.
Qed.

Lemma withdraw_core_cmono s sg d m pidx mo a ob s' amt : withdraw_core s sg d m pidx mo a ob = Some (s', amt) -> cmono s s'.
Proof.
  intros H. unfold withdraw_core in H. dmatchS H. inv H.
  match goal with E : calc_withdrawal _ _ _ _ _ _ = Some _ |- _ => rename E into EC end.
  match goal with E : withdraw_participation _ _ _ = Some _ |- _ => rename E into EW end.
  destruct (calc_withdrawal_part _ _ _ _ _ _ _ EC) as (p & Hgp & Hps & _).
  destruct (withdraw_participation_parts _ _ _ _ _ _ EW Hgp) as (p' & Ep & Es).
  eapply cmono_upd; [eassumption| |reflexivity].
  constructor; cbn [ms_mkt ms_book ms_bets mstate_upd]; try tauto.
  - rewrite Es. lia.
  - intros q Hq Hs. rewrite Ep. eapply in_upd_other; [exact Hgp|exact Hq|]. intros ->. congruence.
  - intros bb Hbb. exists bb. split; [exact Hbb|reflexivity].
Qed.

Lemma wager_core_cmono s sg u a sm so ov mu al s' : inv s -> wager_core s sg u a sm so ov mu al = Some s' -> cmono s s'.
Proof.
  intros Hinv H. unfold wager_core in H. dmatchS H. inv H.
  match goal with E : get_ms s sm = Some ?x |- _ => rename E into Hg; rename x into x0 end.
  match goal with E : process_wager _ _ _ _ _ _ = Some _ |- _ => rename E into EW end.
  match goal with E : negb (k_status (ms_mkt x0) =? MK_ACTIVE) = false |- _ => apply negb_false_true, Z.eqb_eq in E; rename E into Hact end.
  pose proof (i_minv s Hinv _ (get_ms_in _ _ _ Hg)) as Hx. cbn [snd] in Hx.
  pose proof (process_wager_status _ _ _ _ _ _ _ _ _ EW) as Pst.
  assert (Hun : all_unsettled (ms_book x0)) by (apply (mi_unsettled _ Hx); apply (mi_ai _ Hx); left; exact Hact).
  eapply cmono_upd; [exact Hg| |reflexivity].
  constructor; cbn [ms_mkt ms_book ms_bets mstate_upd]; try tauto.
  - rewrite Pst. lia.
  - intros c Hc _. apply in_or_app. left. exact Hc.
  - intros q Hq Hs. rewrite (Hun q Hq) in Hs. discriminate.
  - intros c Hc. exists c. split; [apply in_or_app; left; exact Hc|reflexivity].
Qed.

(* ---- settlement ---------------------------------------------------------------------------------------------------------------- *)
Lemma settle_bet_mono x h id x' effs :
  minv x -> bk_status (ms_book x) = BK_ACTIVE -> settle_bet x h id = Some (x', effs) -> mono x x'.
Proof.
  intros Hx Hact H. pose proof (mi_unsettled _ Hx Hact) as Hun.
  destruct (settle_bet_shape _ _ _ _ _ H) as (b & r & EF & Hst & Eb & _).
  destruct (settle_bet_delta _ _ _ _ _ Hx Hact H) as (_ & Hact' & Hm & _).
  destruct (bets_settle_mono _ _ _ BS_SETTLED r h EF Hst) as [K1 K2].
  constructor.
  - rewrite Hm. repeat split; reflexivity.
  - intros _. exact Hm.
  - rewrite Hact, Hact'. lia.
  - rewrite Eb. exact K1.
  - intros q Hq Hs. rewrite (Hun q Hq) in Hs. discriminate.
  - rewrite Eb. exact K2.
Qed.

Lemma settle_bets_mono ids : forall x bk subs h sidx cnt x' bk' subs' sidx' cnt',
  settle_bets ids x bk subs h sidx cnt = Some (x', bk', subs', sidx', cnt') ->
  minv x -> bk_status (ms_book x) = BK_ACTIVE -> mono x x'.
Proof.
  induction ids as [|id r IH]; intros x bk subs h sidx cnt x' bk' subs' sidx' cnt' H Hx Hact; cbn [settle_bets] in H.
  - inv H. apply mono_refl.
  - destruct (settle_bet x h id) as [[x1 effs]|] eqn:ES; [|discriminate].
    destruct (apply_effects bk subs effs) as [[bk1 subs1]|] eqn:EA; [|discriminate].
    destruct (settle_bet_delta _ _ _ _ _ Hx Hact ES) as (Hx1 & Hact1 & _).
    eapply mono_trans; [eapply settle_bet_mono; eassumption|eapply IH; eassumption].
Qed.

Lemma bet_endblock_cmono fuel : forall s n s', bet_endblock fuel s n = Some s' -> inv s -> cmono s s'.
Proof.
  induction fuel as [|f IH]; intros s n s' H Hinv; cbn [bet_endblock] in H.
  - destruct (n <=? 0); [inv H; apply cmono_refl|discriminate].
  - destruct (n <=? 0); [inv H; apply cmono_refl|].
    destruct (c_mqueue s) as [|m q] eqn:EQ; [inv H; apply cmono_refl|].
    destruct (get_ms s m) as [x|] eqn:Hg; [|discriminate].
    destruct (settle_bets _ x (c_bank s) (c_subs s) (c_height s) (c_settledix s) 0) as [[[[[x1 bk1] subs1] sidx1] cnt]|] eqn:ES; [|discriminate].
    assert (Hmin : In m (c_mqueue s)) by (rewrite EQ; left; reflexivity).
    destruct (i_mq s Hinv _ Hmin) as (x0 & Hg0 & Hres & Hact). rewrite Hg in Hg0. inv Hg0.
    pose proof (i_minv s Hinv _ (get_ms_in _ _ _ Hg)) as Hx. cbn [snd] in Hx.
    pose proof (settle_bets_mono _ _ _ _ _ _ _ _ _ _ _ _ ES Hx Hact) as Hm1.
    destruct (settle_bets_delta _ _ _ _ _ _ _ _ _ _ _ _ ES Hx Hact (i_subs s Hinv)) as (_ & Hact1 & _).
    destruct (bet_iter_inv _ _ _ _ _ _ _ _ _ _ [] Hinv EQ Hg ES) as [I1 I2].
    destruct (ms_pending x1) eqn:EP.
    + destruct (negb (bk_status (ms_book x1) =? BK_ACTIVE)) eqn:EA; [discriminate|].
      eapply cmono_trans; [|eapply IH; [exact H|exact I2]].
      eapply cmono_upd; [exact Hg| |reflexivity].
      eapply mono_trans; [exact Hm1|].
      constructor; cbn [ms_mkt ms_book ms_bets mstate_upd set_status bk_status bk_parts book_upd]; try tauto.
      * rewrite Hact1. unfold BK_ACTIVE, BK_RESOLVED. lia.
      * intros bb Hbb. exists bb. split; [exact Hbb|reflexivity].
    + eapply cmono_trans; [|eapply IH; [exact H|exact I1]].
      eapply cmono_upd; [exact Hg|exact Hm1|reflexivity].
Qed.

Lemma batch_parts_keep ps : forall st creator limit cnt alls c ps' effs,
  batch_parts ps st creator limit cnt = Some (alls, c, ps', effs) ->
  forall p, In p ps -> p_settled p = true -> In p ps'.
Proof.
  induction ps as [|p0 r IH]; intros st creator limit cnt alls c ps' effs H p Hp Hs; [destruct Hp|].
  cbn [batch_parts] in H.
  destruct (p_settled p0) eqn:E0.
  - destruct (limit <=? cnt).
    + inv H. exact Hp.
    + destruct (batch_parts r st creator limit cnt) as [[[[alls2 c2] ps2] effs2]|] eqn:EB; [|discriminate]. inv H.
      destruct Hp as [->|Hp]; [left; reflexivity|right; eapply IH; eassumption].
  - destruct (settle_participation p0 st creator) as [[p1 e1]|]; [|discriminate].
    assert (Hne : In p r) by (destruct Hp as [->|Hp]; [congruence|exact Hp]).
    destruct (limit <=? cnt + 1).
    + inv H. right. exact Hne.
    + destruct (batch_parts r st creator limit (cnt + 1)) as [[[[alls2 c2] ps2] effs2]|] eqn:EB; [|discriminate]. inv H.
      right. eapply IH; eassumption.
Qed.

Lemma ob_endblock_cmono fuel : forall s n i s', ob_endblock fuel s n i = Some s' -> inv s -> cmono s s'.
Proof.
  induction fuel as [|f IH]; intros s n i s' H Hinv; cbn [ob_endblock] in H.
  - destruct (n <=? 0); [inv H; apply cmono_refl|discriminate].
  - destruct (n <=? 0); [inv H; apply cmono_refl|].
    destruct (nth_error (c_bqueue s) i) as [m|]; [|inv H; apply cmono_refl].
    destruct (get_ms s m) as [x|] eqn:Hg; [|discriminate].
    destruct (negb (bk_status (ms_book x) =? BK_RESOLVED)) eqn:ER; [discriminate|]. apply negb_false_true, Z.eqb_eq in ER.
    destruct (batch_parts _ _ _ _ _) as [[[[alls cnt] ps] effs]|] eqn:EB; [|discriminate].
    destruct (apply_effects (c_bank s) (c_subs s) effs) as [[bk1 subs1]|] eqn:EA; [|discriminate].
    eapply cmono_trans; [|eapply IH; [exact H|eapply ob_iter_inv; eassumption]].
    eapply cmono_upd; [exact Hg| |reflexivity].
    constructor; cbn [ms_mkt ms_book ms_bets mstate_upd bk_status bk_parts book_upd]; try tauto.
    + destruct alls; [rewrite ER; unfold BK_RESOLVED, BK_SETTLED; lia|lia].
    + intros p Hp Hs. eapply batch_parts_keep; eassumption.
    + intros bb Hbb. exists bb. split; [exact Hbb|reflexivity].
Qed.

Lemma end_block_cmono s : inv s -> cmono s (fst (end_block s)).
Proof.
  intros Hinv. unfold end_block.
  destruct (bet_endblock _ s _) as [s1|] eqn:E1; [|cbn [fst]; cm_same].
  pose proof (bet_endblock_inv _ _ _ _ E1 Hinv) as H1.
  destruct (ob_endblock _ s1 _ _) as [s2|] eqn:E2; [|cbn [fst]; cm_same].
  cbn [fst]. eapply cmono_trans; [eapply bet_endblock_cmono; eassumption|].
  eapply cmono_trans; [eapply ob_endblock_cmono; eassumption|].
  unfold ovm_endblock. destruct (ovm_finish _ _ _ _) as [ps v]. cm_same.
Qed.

Lemma tx_cmono s r : (forall s', r = Some s' -> cmono s s') -> cmono s (fst (tx s r)).
Proof. intros H. unfold tx. destruct r as [s'|]; cbn [fst]; [apply H; reflexivity|apply cmono_refl]. Qed.

Theorem step_cmono s o : inv s -> cmono s (fst (step s o)).
Proof.
  intros Hinv. unfold step. destruct (c_halted s); [apply cmono_refl|].
  destruct o; try (apply tx_cmono; intros s' H).
  - unfold begin_block_op. destruct (begin_block _ _ _ _); cbn [fst]; cm_same.
  - apply end_block_cmono. exact Hinv.
  - eapply market_add_cmono; eassumption.
  - eapply market_update_cmono; eassumption.
  - eapply market_resolve_cmono; eassumption.
  - unfold house_deposit in H. destruct (deposit_validate _ _ _ _ _ _ _ _) as [[dp gr]|]; [|discriminate].
    eapply house_deposit_core_cmono; eassumption.
  - unfold house_withdraw in H. destruct (withdraw_validate _ _ _ _ _ _ _ _ _) as [[dp ob]|]; [|discriminate].
    destruct (withdraw_core _ _ _ _ _ _ _ _) as [[s1 amt0]|] eqn:EW; [|discriminate]. inv H.
    eapply withdraw_core_cmono; eassumption.
  - unfold bet_wager in H. destruct (wager_prepare _ _ _ _ _ _ _ _ _ _ _); [|discriminate].
    eapply wager_core_cmono; eassumption.
  - unfold do_grant in H. dmatchS H. inv H. cm_same.
  - unfold do_revoke in H. dmatchS H. inv H. cm_same.
  - unfold do_send in H. dmatchS H. inv H. cm_same.
  - unfold ovm_propose in H. dmatchS H. inv H. cm_same.
  - unfold ovm_vote in H. dmatchS H. inv H. cm_same.
  - unfold sub_create in H. dmatchS H. inv H. cm_same.
  - unfold sub_topup in H. dmatchS H. inv H. cm_same.
  - unfold sub_withdraw_unlocked in H. dmatchS H. inv H. cm_same.
  - pose proof H as H0. unfold sub_wager in H. dmatchS H.
    match type of H with wager_core ?st _ _ _ _ _ _ _ _ = _ =>
      assert (Hst : inv st);
      [|eapply cmono_trans; [apply (cmono_same s st); reflexivity|eapply wager_core_cmono; [exact Hst|exact H]]] end.
    (* the intermediate state: only the bank and the subaccount ledger moved *)
    match goal with E : pay _ _ _ _ = Some _ |- _ => rename E into EP end.
    match goal with E : sub_by_owner _ _ = Some ?x |- _ => destruct (sub_by_owner_in _ _ _ E) as [Hin Ho]; rename x into x0 end.
    match goal with E : sub_withdraw x0 _ = Some ?y |- _ => destruct (sub_withdraw_id _ _ _ E) as [I1 I2] end.
    destruct (i_subs s Hinv x0 Hin) as [Hid How].
    apply inv_bank_subs; [exact Hinv| | |apply (i_subnext s Hinv)].
    + intros c0 Hc0. eapply pay_custody; try eassumption; [unfold sub_addr, SUBBASE; lia|lia].
    + apply subs_ok_set'; [apply (i_subs s Hinv)|lia|lia].
  - unfold sub_house_deposit in H. dmatchS H. inv H.
    match goal with E : house_deposit_core _ _ _ _ _ _ = Some ?s1 |- _ => pose proof (house_deposit_core_cmono _ _ _ _ _ _ _ E) as H1 end.
    eapply cmono_trans; [exact H1|cm_same].
  - unfold sub_house_withdraw in H. dmatchS H. inv H.
    match goal with E : withdraw_core _ _ _ _ _ _ _ _ = Some _ |- _ => pose proof (withdraw_core_cmono _ _ _ _ _ _ _ _ _ _ E) as H1 end.
    eapply cmono_trans; [exact H1|cm_same].
Qed.

(* between any two points of a history *)
Theorem run_cmono ops : forall s, inv s -> Forall valid_op ops -> cmono s (run s ops).
Proof.
  induction ops as [|o r IH]; intros s Hinv Hv; cbn [run fold_left]; [apply cmono_refl|].
  inversion Hv; subst. eapply cmono_trans; [apply step_cmono; exact Hinv|].
  apply IH; [apply step_inv; assumption|assumption].
Qed.

Theorem history_mono bk supply P vault MP t0 sw sd ops1 ops2 :
  bget bk POOL = 0 -> bget bk HOUSEFEE = 0 -> bget bk BETFEE = 0 -> Forall valid_op ops1 -> Forall valid_op ops2 ->
  cmono (run (init bk supply P vault MP t0 sw sd) ops1) (run (init bk supply P vault MP t0 sw sd) (ops1 ++ ops2)).
Proof.
  intros B1 B2 B3 V1 V2. unfold run. rewrite fold_left_app. apply run_cmono; [|exact V2].
  apply run_inv; [apply init_inv; assumption|exact V1].
Qed.

(* the three readings used by the property files *)
Section Readings.
  Variables (bk : bank) (supply : Z) (P : params) (vault : list Z) (MP : mparams) (t0 : Z) (sw sd : bool).
  Let s0 := init bk supply P vault MP t0 sw sd.
  Hypothesis B1 : bget bk POOL = 0.
  Hypothesis B2 : bget bk HOUSEFEE = 0.
  Hypothesis B3 : bget bk BETFEE = 0.

  Theorem resolution_is_final ops1 ops2 m x :
    Forall valid_op ops1 -> Forall valid_op ops2 ->
    get_ms (run s0 ops1) m = Some x -> status_res (k_status (ms_mkt x)) ->
    exists x', get_ms (run s0 (ops1 ++ ops2)) m = Some x' /\ ms_mkt x' = ms_mkt x.
  Proof.
    intros V1 V2 Hg Hr. destruct (history_mono bk supply P vault MP t0 sw sd ops1 ops2 B1 B2 B3 V1 V2 m x Hg) as (x' & Hg' & M).
    exists x'. split; [exact Hg'|apply (mo_final _ _ M Hr)].
  Qed.

  Theorem market_identity_is_fixed ops1 ops2 m x :
    Forall valid_op ops1 -> Forall valid_op ops2 -> get_ms (run s0 ops1) m = Some x ->
    exists x', get_ms (run s0 (ops1 ++ ops2)) m = Some x' /\
      k_uid (ms_mkt x') = k_uid (ms_mkt x) /\ k_creator (ms_mkt x') = k_creator (ms_mkt x) /\ k_odds (ms_mkt x') = k_odds (ms_mkt x) /\
      bk_status (ms_book x) <= bk_status (ms_book x').
  Proof.
    intros V1 V2 Hg. destruct (history_mono bk supply P vault MP t0 sw sd ops1 ops2 B1 B2 B3 V1 V2 m x Hg) as (x' & Hg' & M).
    exists x'. split; [exact Hg'|]. destruct (mo_ident _ _ M) as (a & b & c). repeat split; try assumption. apply (mo_book _ _ M).
  Qed.

  Theorem settled_bet_is_final ops1 ops2 m x b :
    Forall valid_op ops1 -> Forall valid_op ops2 ->
    get_ms (run s0 ops1) m = Some x -> In b (ms_bets x) -> b_status b = BS_SETTLED ->
    exists x', get_ms (run s0 (ops1 ++ ops2)) m = Some x' /\ In b (ms_bets x').
  Proof.
    intros V1 V2 Hg Hb Hs. destruct (history_mono bk supply P vault MP t0 sw sd ops1 ops2 B1 B2 B3 V1 V2 m x Hg) as (x' & Hg' & M).
    exists x'. split; [exact Hg'|apply (mo_bets _ _ M b Hb Hs)].
  Qed.

  Theorem bet_terms_are_fixed ops1 ops2 m x b :
    Forall valid_op ops1 -> Forall valid_op ops2 -> get_ms (run s0 ops1) m = Some x -> In b (ms_bets x) ->
    exists x' b', get_ms (run s0 (ops1 ++ ops2)) m = Some x' /\ In b' (ms_bets x') /\ bet_core b' = bet_core b.
  Proof.
    intros V1 V2 Hg Hb. destruct (history_mono bk supply P vault MP t0 sw sd ops1 ops2 B1 B2 B3 V1 V2 m x Hg) as (x' & Hg' & M).
    destruct (mo_core _ _ M b Hb) as (b' & Hb' & E). exists x', b'. repeat split; assumption.
  Qed.

  Theorem paid_participation_is_final ops1 ops2 m x p :
    Forall valid_op ops1 -> Forall valid_op ops2 ->
    get_ms (run s0 ops1) m = Some x -> In p (bk_parts (ms_book x)) -> p_settled p = true ->
    exists x', get_ms (run s0 (ops1 ++ ops2)) m = Some x' /\ In p (bk_parts (ms_book x')).
  Proof.
    intros V1 V2 Hg Hp Hs. destruct (history_mono bk supply P vault MP t0 sw sd ops1 ops2 B1 B2 B3 V1 V2 m x Hg) as (x' & Hg' & M).
    exists x'. split; [exact Hg'|apply (mo_parts _ _ M p Hp Hs)].
  Qed.
End Readings.

(* ---- what the settlement of a bet pays (C03) ------------------------------------------------------------------------------- *)
Lemma bettor_wins_effs fs : forall b bettor b' effs,
  bettor_wins b bettor fs = Some (b', effs) -> effs = map (fun f => Pay POOL bettor (f_pay f + f_stake f)) fs.
Proof.
  induction fs as [|f r IH]; intros b bettor b' effs H; cbn [bettor_wins] in H.
  - inv H. reflexivity.
  - destruct (get_part b (f_idx f)) as [p|]; [|discriminate].
    destruct (bettor_wins _ bettor r) as [[b2 effs2]|] eqn:ER; [|discriminate]. inv H.
    cbn [map]. f_equal. eapply IH. exact ER.
Qed.

Theorem settle_bet_payout x h id x' effs :
  settle_bet x h id = Some (x', effs) ->
  exists b, find (fun c => b_id c =? id) (ms_bets x) = Some b /\ b_status b <> BS_SETTLED /\
    let mk := ms_mkt x in
    ((k_status mk = MK_ABORTED \/ k_status mk = MK_CANCELED) /\
       effs = [Pay POOL (b_creator b) (b_amount b); Pay BETFEE (b_creator b) (b_fee b)]) \/
    (k_status mk = MK_DECLARED /\ zmem (b_odds b) (k_winners mk) = true /\
       effs = map (fun f => Pay POOL (b_creator b) (f_pay f + f_stake f)) (b_parts b) ++ [Pay BETFEE (k_creator mk) (b_fee b)]) \/
    (k_status mk = MK_DECLARED /\ zmem (b_odds b) (k_winners mk) = false /\ effs = [Pay BETFEE (k_creator mk) (b_fee b)]).
Proof.
  intros H. unfold settle_bet in H. cbv beta zeta in H.
  destruct (findb (fun b => b_id b =? id) (ms_bets x)) as [b|] eqn:EF; [|discriminate].
  destruct (b_status b =? BS_SETTLED) eqn:EST; [discriminate|]. apply Z.eqb_neq in EST.
  exists b. split; [exact EF|]. split; [exact EST|]. cbv zeta.
  destruct ((k_status (ms_mkt x) =? MK_ABORTED) || (k_status (ms_mkt x) =? MK_CANCELED)) eqn:ERF.
  - destruct (payout_profit _ _); [|discriminate]. inv H. left. split; [|reflexivity].
    apply orb_true_iff in ERF. rewrite !Z.eqb_eq in ERF. exact ERF.
  - destruct (negb (k_status (ms_mkt x) =? MK_DECLARED)) eqn:ED; [discriminate|]. apply negb_false_true, Z.eqb_eq in ED.
    destruct (zmem (b_odds b) (k_winners (ms_mkt x))) eqn:EW.
    + destruct (bettor_wins _ _ _) as [[bk effs0]|] eqn:EB; [|discriminate]. inv H.
      right. left. split; [exact ED|]. split; [reflexivity|]. rewrite (bettor_wins_effs _ _ _ _ _ EB). reflexivity.
    + destruct (bettor_loses _ _); [|discriminate]. inv H. right. right. repeat split; assumption.
Qed.

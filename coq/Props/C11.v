(* Props/C11.v — Subaccount balances add up and time locks cannot be bypassed.
   Proved over every history (C11_ledger): each subaccount address holds at least deposited - withdrawn - spent - lost, none
   of the four amounts is ever negative, ids are distinct and each owner has at most one subaccount; plus the ledger kernel
   laws, the lock bound of unlocked-balance withdrawals (true since fix 2a757de) and the creation law.
   PARTIAL: the "exactly equal when nobody sent it tokens directly" clause and the "locked tokens reach the owner only by being
   staked" clause are decided per run by the Go monitor + correspondence (known finding D6: a subaccount wager leaves the
   unfilled remainder of the stake free in the owner's account). *)
From Coq Require Import ZArith Bool List.
From Sge Require Import Lib.Dec Model.Types Model.Mint Model.Chain Proofs.SubInv Proofs.SubHist Witness.C11w.
Import ListNotations.
Open Scope Z_scope.

Theorem C11_spend : forall x a x', sub_spend x a = Some x' -> sub_nonneg x ->
  sub_nonneg x' /\ sa_spent x' = sa_spent x + a /\ 0 <= a <= sub_available x /\ sub_available x' = sub_available x - a /\
  sa_id x' = sa_id x /\ sa_owner x' = sa_owner x /\ sa_locks x' = sa_locks x.
Proof. exact sub_spend_ok. Qed.
Theorem C11_unspend : forall x a x', sub_unspend x a = Some x' -> sub_nonneg x ->
  sub_nonneg x' /\ sa_spent x' = sa_spent x - a /\ 0 <= a <= sa_spent x /\
  sa_id x' = sa_id x /\ sa_owner x' = sa_owner x /\ sa_locks x' = sa_locks x.
Proof. exact sub_unspend_ok. Qed.
Theorem C11_addloss : forall x a x', sub_addloss x a = Some x' -> sub_nonneg x -> sub_nonneg x' /\ sa_lost x' = sa_lost x + a /\ 0 <= a.
Proof. exact sub_addloss_ok. Qed.
Theorem C11_withdraw : forall x a x', sub_withdraw x a = Some x' -> sub_nonneg x ->
  sub_nonneg x' /\ sa_wd x' = sa_wd x + a /\ 0 <= a <= sub_available x /\ sub_available x' = sub_available x - a.
Proof. exact sub_withdraw_ok. Qed.
Print Assumptions C11_withdraw.

Theorem C11_lock : forall s owner s',
  sub_withdraw_unlocked s owner = Some s' ->
  exists x x' w,
    sub_by_owner (c_subs s) owner = Some x /\ 0 < w /\
    sa_wd x' = sa_wd x + w /\ sa_wd x' <= unlocked_total (c_now s) x /\
    w <= sub_available x /\ w <= bget (c_bank s) (sub_addr x) /\
    pay (c_bank s) (sub_addr x) owner w = Some (c_bank s') /\
    c_subs s' = set_sub (c_subs s) x' /\ sa_locks x' = sa_locks x /\ sa_dep x' = sa_dep x.
Proof. exact withdraw_unlocked_bound. Qed.
Print Assumptions C11_lock.

Theorem C11_one : forall s creator owner locks s',
  sub_create s creator owner locks = Some s' ->
  sub_by_owner (c_subs s) owner = None /\
  exists x, c_subs s' = c_subs s ++ [x] /\ sa_id x = c_subnext s /\ sa_owner x = owner /\ c_subnext s' = c_subnext s + 1 /\
            sa_spent x = 0 /\ sa_wd x = 0 /\ sa_lost x = 0 /\
            sum_locks (c_now s) locks = Some (sa_dep x) /\
            pay (c_bank s) creator (SUBBASE + c_subnext s) (sa_dep x) = Some (c_bank s').
Proof. exact sub_create_fresh. Qed.
Print Assumptions C11_one.

(* Over every history of operations signed by user accounts (addresses below the subaccount address range, which is
   module-derived and has no keys), from any genesis whose balances in that range are not negative: *)
Theorem C11_ledger : forall bk supply P vault MP t0 sw sd ops,
  (forall a, SUBBASE <= a -> 0 <= bget bk a) -> Forall user_op ops ->
  let s := run (init bk supply P vault MP t0 sw sd) ops in
  NoDup (map sa_id (c_subs s)) /\ NoDup (map sa_owner (c_subs s)) /\
  forall x, In x (c_subs s) ->
    0 <= sa_dep x /\ 0 <= sa_spent x /\ 0 <= sa_wd x /\ 0 <= sa_lost x /\
    sa_dep x - sa_wd x - sa_spent x - sa_lost x <= bget (c_bank s) (sub_addr x).
Proof. exact subaccounts_over_histories. Qed.
Print Assumptions C11_ledger.

(* the invariant behind it is preserved by every single operation, from any state *)
Theorem C11_ledger_step : forall s o, sinv s -> user_op o -> sinv (fst (step s o)).
Proof. exact step_sinv. Qed.
Print Assumptions C11_ledger_step.

(* non-vacuity: a harness-generated history meets the hypotheses, ends with several subaccounts that have deposited, spent,
   withdrawn and lost amounts *)
Example C11_ledger_witness :
  forallb user_opb c11w_ops = true /\
  (let s := run c11w_init c11w_ops in
   (2 <=? Z.of_nat (length (c_subs s))) && existsb (fun x => 0 <? sa_spent x) (c_subs s) && existsb (fun x => 0 <? sa_wd x) (c_subs s)
   && existsb (fun x => 0 <? sa_dep x) (c_subs s) && existsb (fun x => 0 <? sa_lost x) (c_subs s)) = true.
Proof. vm_compute. split; reflexivity. Qed.

From Sge Require Import Gen.kernels Proofs.GenSub.
(* the ledger kernels of the model ARE the Go methods: K_AccountSummary_* are generated from x/subaccount/types/accsummary.go on every run
   (Gen/kernels.v) and proved equal to the model's functions; a change of one of these methods breaks this theorem *)
Theorem C11_kernels_generated : forall x a unlocked bank,
  K_AccountSummary_Available (as_of x) = sub_available x /\
  K_AccountSummary_Spend (as_of x) a = option_map as_of (sub_spend x a) /\
  K_AccountSummary_Unspend (as_of x) a = option_map as_of (sub_unspend x a) /\
  K_AccountSummary_AddLoss (as_of x) a = option_map as_of (sub_addloss x a) /\
  K_AccountSummary_Withdraw (as_of x) a = option_map as_of (sub_withdraw x a) /\
  K_AccountSummary_WithdrawableUnlockedBalance (as_of x) unlocked bank = Z.min (Z.min (sub_available x) (zmax0 (unlocked - sa_wd x))) bank /\
  K_AccountSummary_WithdrawableBalance (as_of x) bank = Z.min (sub_available x) bank.
Proof. intros. repeat split; first [apply gen_Spend|apply gen_Unspend|apply gen_AddLoss|apply gen_Withdraw|apply gen_WithdrawableUnlockedBalance]. Qed.
Print Assumptions C11_kernels_generated.

(* the split of a subaccount wager into a main-account part and a subaccount part is checked by the Go method
   SubAccWagerTicketPayload.Validate (x/subaccount/types/ticket.go, generated on every run): the model's handler accepts exactly the
   splits it accepts, and an accepted split takes between nothing and the stake from the subaccount - never more than the stake, which
   would hand the (possibly still locked) difference to the owner's free balance (defect D13, repaired) *)
Theorem C11_wager_parts_generated :
  (forall md sd amount,
     K_SubAccWagerTicketPayload_Validate {| G_SubAccWagerTicketPayload_MainaccDeductAmount := md; G_SubAccWagerTicketPayload_SubaccDeductAmount := sd |} amount
     = wager_parts_ok md sd amount) /\
  (forall s sg tk ic tk2 u a sm so ov mu al k ot md sd s',
     sub_wager s sg tk ic tk2 u a sm so ov mu al k ot md sd = Some s' -> wager_parts_ok md sd a = true /\ 0 <= md /\ 0 <= sd <= a).
Proof. split; [exact gen_wager_parts|exact sub_wager_parts]. Qed.
Print Assumptions C11_wager_parts_generated.

(* the amount a create / top-up message locks and the refusal of an unlock time before the block time ARE the keeper's sumLockedBalance
   (loop with an early error return), generated from x/subaccount/keeper/subaccount.go on every run *)
Theorem C11_lock_sum_generated : forall now ls, K__sumLockedBalance now (map glb_of ls) = sum_locks now ls.
Proof. exact gen_sumLockedBalance. Qed.
Print Assumptions C11_lock_sum_generated.

(* the two keeper functions through which tokens leave a subaccount are generated from x/subaccount/keeper/balance.go as functions on the
   state they reach through the keeper (account summary, unlocked total, the two bank balances; SendCoins = guarded transfer) and are the
   model's computations: withdrawUnlocked (the body of sub_withdraw_unlocked, and the model's handler is that function applied to the
   chain state) and withdrawLockedAndUnlocked (the subaccount part of sub_wager) *)
Theorem C11_withdraw_handlers_generated :
  (forall x unl sb ob,
     K_subwd_withdrawUnlocked (subwd_state x unl sb ob) =
     let w := Z.min (Z.min (sub_available x) (zmax0 (unl - sa_wd x))) sb in
     if w =? 0 then None else
     match sub_withdraw x w with
     | None => None
     | Some x' => if sb <? w then None else Some (subwd_state x' unl (sb - w) (ob + w))
     end) /\
  (forall x unl sb ob d,
     K_subwd_withdrawLockedAndUnlocked (subwd_state x unl sb ob) d =
     if Z.min (Z.min (sub_available x) sb) d <? d then None else
     if sb <? d then None else
     match sub_withdraw x d with None => None | Some x' => Some (subwd_state x' unl (sb - d) (ob + d)) end) /\
  (forall s owner x, sub_by_owner (c_subs s) owner = Some x ->
     sub_withdraw_unlocked s owner =
     match K_subwd_withdrawUnlocked (subwd_state x (unlocked_total (c_now s) x) (bget (c_bank s) (sub_addr x)) (bget (c_bank s) owner)) with
     | None => None
     | Some st => match sub_withdraw x (bget (c_bank s) (sub_addr x) - S_subwd_SubBal st) with
                  | None => None
                  | Some x' => match pay (c_bank s) (sub_addr x) owner (bget (c_bank s) (sub_addr x) - S_subwd_SubBal st) with
                               | None => None
                               | Some b => Some (set_bank (with_subs s (set_sub (c_subs s) x')) b)
                               end
                  end
     end).
Proof. split; [exact gen_withdrawUnlocked|split; [exact gen_withdrawLockedAndUnlocked|exact model_is_withdrawUnlocked]]. Qed.
Print Assumptions C11_withdraw_handlers_generated.

(* the handler that puts (time-locked) tokens into an existing subaccount, x/subaccount/keeper/balance.go TopUp with sumLockedBalance, is
   generated over the state it reaches (owner has a subaccount, its summary and lock records, the two bank balances, the block time): it
   refuses an unlock time before the block time or one that already has a record, adds the sum to the deposited amount, writes the lock
   records and moves exactly the sum from the funding account; the model's sub_topup refuses exactly when it does *)
Theorem C11_topup_generated :
  (forall x locks cb sb now,
     K_subtop_TopUp (subtop_state true x true cb sb now) (map glb_of locks) =
     match sum_locks now locks with
     | None => None
     | Some tot =>
         if existsb (fun l => existsb (fun o => fst o =? fst l) (sa_locks x)) locks then None
         else if cb <? tot then None
         else Some (subtop_state true (sub_with x (sa_dep x + tot) (sa_spent x) (sa_wd x) (sa_lost x) (set_locks (sa_locks x) locks)) true (cb - tot) (sb + tot) now)
     end) /\
  (forall s creator owner locks x,
     forallb (lock_ok (c_now s)) locks = true -> sub_by_owner (c_subs s) owner = Some x ->
     (sub_topup s creator owner locks = None <->
      K_subtop_TopUp (subtop_state true x true (bget (c_bank s) creator) (bget (c_bank s) (sub_addr x)) (c_now s)) (map glb_of locks) = None)).
Proof. split; [exact gen_TopUp|exact model_sub_topup]. Qed.
Print Assumptions C11_topup_generated.

(* the four order-book hooks of x/subaccount/keeper/hooks.go (what the settlement of a participation books on the subaccount that made the
   deposit) are generated on every run as functions on (account summary stored for the address / whether there is one / owner record /
   the two bank balances; a panic is None) and are exactly the two steps of the model's hook_sub: nothing for an address without a
   subaccount, else Unspend (and AddLoss for a loss) and, for a win, the guarded transfer of the profit to the owner.  They do not read any
   parameter: a change of the module parameters between deposit and settlement cannot change them (C17, seed round 8) *)
Theorem C11_hooks_generated : forall ex x own sb ob a c,
  K_subhook_AfterHouseWin (hook_state ex x own sb ob) a c =
    (if negb ex then Some (hook_state ex x own sb ob) else
     match sub_unspend x a with
     | None => None
     | Some x' => if negb own then None else if sb <? c then None else Some (hook_state ex x' own (sb - c) (ob + c))
     end) /\
  K_subhook_AfterHouseLoss (hook_state ex x own sb ob) a c =
    (if negb ex then Some (hook_state ex x own sb ob) else
     match sub_unspend x a with
     | None => None
     | Some y => match sub_addloss y c with None => None | Some x' => Some (hook_state ex x' own sb ob) end
     end) /\
  K_subhook_AfterHouseRefund (hook_state ex x own sb ob) a =
    (if negb ex then Some (hook_state ex x own sb ob) else
     match sub_unspend x a with None => None | Some x' => Some (hook_state ex x' own sb ob) end) /\
  K_subhook_AfterHouseFeeRefund (hook_state ex x own sb ob) a =
    (if negb ex then Some (hook_state ex x own sb ob) else
     match sub_unspend x a with None => None | Some x' => Some (hook_state ex x' own sb ob) end).
Proof. intros. repeat split; [apply gen_AfterHouseWin|apply gen_AfterHouseLoss|apply gen_AfterHouseRefund|apply gen_AfterHouseFeeRefund]. Qed.
Print Assumptions C11_hooks_generated.
Theorem C11_hook_model_steps : forall b subs a f fwd,
  (sub_by_addr subs a = None -> hook_sub b subs a f fwd = Some (b, subs)) /\
  (forall x, sub_by_addr subs a = Some x ->
     hook_sub b subs a f fwd =
     match f x with
     | None => None
     | Some x' => if fwd =? 0 then Some (b, set_sub subs x')
                  else if fwd <? 0 then None else if bget b a <? fwd then None
                  else Some (badd (badd b a (- fwd)) (sa_owner x) fwd, set_sub subs x')
     end).
Proof. intros. split; [apply hook_sub_none|intros x E; apply hook_sub_found; exact E]. Qed.
Print Assumptions C11_hook_model_steps.

From Sge Require Import Model.Orderbook Proofs.SubExact.
(* PARTIAL (the full clause "exactly equal when nobody sent it tokens directly" over all histories stays a per-run check): exactness —
   every registered subaccount's bank balance EQUALS deposited - withdrawn - spent - lost — is kept by every list of settlement effects made
   of plain payments between ordinary accounts and payment-plus-hook groups (win with the profit forwarded to the owner, loss, refund, fee
   refund), in particular by the settlement of any participation of a market created by an ordinary account.  Missing for the full statement:
   the invariant that market and bet creators are ordinary accounts, and exact versions of the house deposit / withdrawal and wager cores. *)
Theorem C11_exact_partial :
  (forall effs, balanced_x effs -> forall bk subs bk' subs',
     apply_effects bk subs effs = Some (bk', subs') -> exact bk subs -> exact bk' subs') /\
  (forall p st creator p' effs bk subs bk' subs', creator < SUBBASE ->
     settle_participation p st creator = Some (p', effs) -> apply_effects bk subs effs = Some (bk', subs') -> exact bk subs -> exact bk' subs').
Proof. split; [exact apply_effects_exact|exact settle_participation_exact]. Qed.
Print Assumptions C11_exact_partial.

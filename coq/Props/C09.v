(* Props/C09.v — Withdrawals are safe and go to the depositor; delegated actions respect grants.
   The withdrawal bound / ownership / round-1 law and the grant-accounting law are proved; preservation of
   C01/C02 and the balance effects are decided per run by the Go monitors + correspondence. *)
From Coq Require Import ZArith Bool List.
From Sge Require Import Lib.Dec Model.Types Model.Orderbook Model.Chain Proofs.BookFacts Proofs.Gate.
Open Scope Z_scope.

Theorem C09_withdraw : forall b depositor idx mode wtotal amount w,
  calc_withdrawal b depositor idx mode wtotal amount = Some w ->
  exists p, get_part b idx = Some p /\ p_settled p = false /\ p_owner p = depositor /\
            w <= p_crl p - zmax0 (p_crml p) /\
            (exists e r, expos_of_part_ix b idx = e :: r /\ e_round e = 1).
Proof. exact calc_withdrawal_spec. Qed.
Print Assumptions C09_withdraw.

(* the acting depositor of a withdrawal is the signer, or the account named on the ticket (then a grant is needed) *)
Theorem C09_withdraw_identity : forall s sg tk m p mo a k d dep ob,
  withdraw_validate s sg tk m p mo a k d = Some (dep, ob) ->
  dep = (if 0 <=? d then d else sg) /\ ob = (0 <=? d) /\ kyc_ok k dep = true /\ ticket_ok s tk = true.
Proof. exact withdraw_validate_kyc. Qed.
Print Assumptions C09_withdraw_identity.

From Sge Require Import Proofs.GrantFacts.
(* a delegated deposit/withdrawal requires an existing grant, never exceeds it and reduces it by exactly
   the executed amount (deleted when used up) *)
Theorem C09_grant : forall gs grantee granter kind amount gs',
  use_grant gs grantee granter kind amount = Some gs' ->
  exists g, findb (grant_is grantee granter kind) gs = Some g /\ amount <= g_limit g /\
    ((g_limit g = amount /\ gs' = remb (grant_is grantee granter kind) gs) \/
     (amount < g_limit g /\
      gs' = upd (grant_is grantee granter kind)
                {| g_grantee := grantee; g_granter := granter; g_kind := kind; g_limit := g_limit g - amount; g_exp := g_exp g |} gs)).
Proof. exact use_grant_spec. Qed.
Print Assumptions C09_grant.

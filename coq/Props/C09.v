(* Props/C09.v — Withdrawals are safe and go to the depositor; delegated actions respect grants.
   The withdrawal bound / ownership / round-1 law and the grant-accounting law are proved per call; over ALL histories
   (C09_records, Proofs/HouseHist.v over the local transitions of a market): every deposit's participation exists and belongs to
   the depositor, its withdrawal count is the number of recorded withdrawals of that participation and never exceeds the
   configured maximum, its withdrawn total is the sum of their amounts, liquidity left + withdrawn total = deposited amount -
   participation fee, and every recorded withdrawal is a non-negative amount booked on the depositor's own deposit.  That withdrawals
   leave C01 and C02 intact is part of C01_custody and C02_coverage (both invariants go through the withdrawal transition).
   Grant expiry over ALL histories (C09_grants_unexpired, C09_delegated_needs_live_grant; Proofs/GrantLive.v): the authz store only ever
   holds unexpired grants (no expiry, or block time <= expiry: BeginBlock prunes, MsgGrant refuses a past expiry, consumption keeps the
   expiry), so a delegated deposit or withdrawal is executed only under an existing, unexpired grant whose limit covers the amount.
   The balance effects are decided per run by the Go monitors + correspondence. *)
From Coq Require Import ZArith Bool List.
From Sge Require Import Lib.Dec Model.Types Model.Orderbook Model.Chain Proofs.BookFacts Proofs.Gate.
Open Scope Z_scope.

Theorem C09_withdraw : forall b depositor idx mode wtotal amount w,
  calc_withdrawal b depositor idx mode wtotal amount = Some w ->
  exists p, get_part b idx = Some p /\ p_settled p = false /\ p_owner p = depositor /\
            w <= p_crl p - zmax0 (p_crml p) /\
            (exists e r, expos_of_part_ix b idx = e :: r /\ e_round e = 1).
Proof. exact calc_withdrawal_spec. Qed.
Print Assumptions C09_withdraw.

(* the acting depositor of a withdrawal is the signer, or the account named on the ticket (then a grant is needed) *)
Theorem C09_withdraw_identity : forall s sg tk m p mo a k d dep ob,
  withdraw_validate s sg tk m p mo a k d = Some (dep, ob) ->
  dep = (if 0 <=? d then d else sg) /\ ob = (0 <=? d) /\ kyc_ok k dep = true /\ ticket_ok s tk = true.
Proof. exact withdraw_validate_kyc. Qed.
Print Assumptions C09_withdraw_identity.

From Sge Require Import Proofs.GrantFacts.
(* a delegated deposit/withdrawal requires an existing grant, never exceeds it and reduces it by exactly
   the executed amount (deleted when used up; a grant expiring exactly at the block time can only be used up, as authz.NewGrant
   refuses to re-save it) *)
Theorem C09_grant : forall now gs grantee granter kind amount gs',
  use_grant now gs grantee granter kind amount = Some gs' ->
  exists g, findb (grant_is grantee granter kind) gs = Some g /\ amount <= g_limit g /\
    ((g_limit g = amount /\ gs' = remb (grant_is grantee granter kind) gs) \/
     (amount < g_limit g /\ (g_exp g < 0 \/ now < g_exp g) /\
      gs' = upd (grant_is grantee granter kind)
                {| g_grantee := grantee; g_granter := granter; g_kind := kind; g_limit := g_limit g - amount; g_exp := g_exp g |} gs)).
Proof. exact use_grant_spec. Qed.
Print Assumptions C09_grant.

From Sge Require Import Model.Mint Proofs.Custody Proofs.HouseHist.
Theorem C09_records : forall P bk supply vault MP t0 sw sd ops,
  pr_bet_fee P <= pr_bet_min P ->
  bget bk POOL = 0 -> bget bk HOUSEFEE = 0 -> bget bk BETFEE = 0 -> Forall valid_op ops ->
  forall m x, get_ms (run (init bk supply P vault MP t0 sw sd) ops) m = Some x ->
  (forall d, In d (ms_deps x) ->
     d_wcount d = zlen (wds_of (d_pidx d) (ms_wds x)) /\ d_wcount d <= zmax0 (pr_h_maxw P) /\
     d_wtotal d = zsum (map w_amount (wds_of (d_pidx d) (ms_wds x))) /\
     exists p, get_part (ms_book x) (d_pidx d) = Some p /\ p_owner p = d_depositor d /\ p_liq p + d_wtotal d = d_amount d - p_fee p) /\
  NoDup (map d_pidx (ms_deps x)) /\
  (forall w, In w (ms_wds x) -> 0 <= w_amount w /\ exists d, In d (ms_deps x) /\ d_pidx d = w_pidx w /\ d_depositor d = w_depositor w).
Proof. exact house_records_spelled. Qed.
Print Assumptions C09_records.

From Sge Require Import Proofs.GrantLive.
(* every grant in the authz store of every reachable state is unexpired *)
Theorem C09_grants_unexpired : forall bk supply P vault MP t0 sw sd ops g,
  In g (c_grants (run (init bk supply P vault MP t0 sw sd) ops)) ->
  g_exp g < 0 \/ c_now (run (init bk supply P vault MP t0 sw sd) ops) <= g_exp g.
Proof. exact grants_unexpired_over_histories. Qed.
Print Assumptions C09_grants_unexpired.

(* consuming a grant from a store of unexpired grants: the grant exists, is unexpired, covers the amount; the store stays unexpired *)
Theorem C09_delegated_needs_live_grant : forall now gs grantee granter kind amount gs',
  use_grant now gs grantee granter kind amount = Some gs' -> (forall g, In g gs -> unexpired now g) ->
  (exists g, findb (grant_is grantee granter kind) gs = Some g /\ unexpired now g /\ amount <= g_limit g) /\
  forall g, In g gs' -> unexpired now g.
Proof. exact use_grant_live. Qed.
Print Assumptions C09_delegated_needs_live_grant.

From Sge Require Import Model.Orderbook Gen.kernels Proofs.GenOb Proofs.GenSub.
(* what can be withdrawn: maxWithdrawalAmount / WithdrawableAmount / SetLiquidityAfterWithdrawal are generated from
   x/orderbook/types/participation.go on every run and proved equal to the model's functions *)
Theorem C09_kernels_generated : forall p mode amount amt,
  K_OrderBookParticipation_maxWithdrawalAmount (gp_of p) = max_withdrawal p /\
  K_OrderBookParticipation_WithdrawableAmount (gp_of p) mode amount = withdrawable_amount p mode amount /\
  K_OrderBookParticipation_SetLiquidityAfterWithdrawal (gp_of p) amt =
    gp_of (part_upd p (p_liq p - amt) (p_crl p - amt) (p_enf p) (p_tba p) (p_crtb p) (p_maxloss p) (p_crml p) (p_crml_odds p) (p_profit p)).
Proof. intros. split; [reflexivity|]. split; [apply gen_WithdrawableAmount|reflexivity]. Qed.
Print Assumptions C09_kernels_generated.

(* the keeper function that decides what a house withdrawal may take, CalcWithdrawalAmount of x/orderbook/keeper/participation.go, is
   generated on every run as a function on (participations of the book, exposures recorded for the participation asked about) and IS the
   model's calc_withdrawal - the participation exists, is not settled, belongs to the named depositor, is still in its first round, a partial
   amount is within what was deposited minus what was withdrawn, and then WithdrawableAmount - so C09_withdraw above speaks about that Go
   function *)
Theorem C09_calc_withdrawal_generated : forall b depositor idx mode wtotal amount,
  K_obwd_CalcWithdrawalAmount (obwd_state b idx) depositor idx mode wtotal amount = calc_withdrawal b depositor idx mode wtotal amount.
Proof. exact gen_CalcWithdrawalAmount. Qed.
Print Assumptions C09_calc_withdrawal_generated.

From Sge Require Import Proofs.GenHouse.
(* the records of an executed withdrawal: Keeper.Withdraw of x/house/keeper/withdrawal.go, generated on every run (the order-book side,
   WithdrawOrderBookParticipation, is represented by its verdict), writes exactly what the model's withdraw_core writes - one new
   withdrawal, numbered count + 1, for this signer / depositor / market / participation / mode and the executed amount, appended to the
   records, and on the deposit count + 1 and total + amount (the facts C09_records is an invariant of); nothing is recorded when the
   order-book side refuses *)
Theorem C09_withdraw_records_generated : forall ok wds d0 d signer depositor mkt pidx mode amt,
  K_hwd_Withdraw (hwd_state ok wds d0) (gd_of d) signer depositor mkt pidx mode amt =
  if negb ok then None else
  Some (hwd_state ok
          (wds ++ ({| w_id := d_wcount d + 1; w_creator := signer; w_depositor := depositor; w_mkt := mkt; w_pidx := pidx; w_mode := mode; w_amount := amt |} :: nil))
          {| d_creator := d_creator d; d_depositor := d_depositor d; d_mkt := d_mkt d; d_pidx := d_pidx d; d_amount := d_amount d;
             d_wcount := d_wcount d + 1; d_wtotal := d_wtotal d + amt |},
        d_wcount d + 1).
Proof. exact gen_house_Withdraw. Qed.
Print Assumptions C09_withdraw_records_generated.

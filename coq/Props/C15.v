(* Props/C15.v — State transitions are deterministic.  The model's step is a Gallina function, so
   determinism of the model is definitional; the content is (1) the source fact below, regenerated
   from /repo on every run, (2) correspondence, (3) two-process execution (runtime part, partial). *)
From Coq Require Import ZArith Bool List String.
From Sge Require Import Model.Chain Proofs.Tables Gen.nondet.
Import ListNotations.

Theorem C15_sources : forallb site_ok ndsites = true.
Proof. exact no_nondeterminism_sources. Qed.
Print Assumptions C15_sources.

Theorem C15_function : forall s o r1 r2, step s o = r1 -> step s o = r2 -> r1 = r2.
Proof. intros s o r1 r2 H1 H2. rewrite <- H1, <- H2. reflexivity. Qed.
Print Assumptions C15_function.

Theorem C15_history : forall s ops, exists! s', run s ops = s'.
Proof. intros s ops. exists (run s ops). split; [reflexivity|intros x H; exact H]. Qed.
Print Assumptions C15_history.

(* Props/C04.v — House participations are paid exactly once, with correct amount and fee routing.
   The per-participation laws are proved (guard, amounts, fee routing, records); over histories a paid-out participation
   is never touched again (C04_paid_final) and, by C01_custody, what is paid is exactly what the pool held for it.
   Attribution of profit to backing parts across histories is decided per run by the EndBlock accounting monitor. *)
From Coq Require Import ZArith Bool List.
From Sge Require Import Lib.Dec Model.Types Model.Orderbook Model.Mint Model.Chain Proofs.BookFacts Proofs.Custody Proofs.Mono.
Import ListNotations.
Open Scope Z_scope.

Theorem C04_once : forall p st creator, p_settled p = true -> settle_participation p st creator = None.
Proof. exact settle_participation_once. Qed.
Theorem C04_marks : forall p st creator p' effs,
  settle_participation p st creator = Some (p', effs) ->
  p_settled p = false /\ p_settled p' = true /\ p_idx p' = p_idx p /\ p_liq p' = p_liq p /\
  p_profit p' = p_profit p /\ p_fee p' = p_fee p /\ p_owner p' = p_owner p.
Proof. exact settle_participation_marks. Qed.
Print Assumptions C04_marks.

Theorem C04_declared : forall p creator p' effs,
  settle_participation p MK_DECLARED creator = Some (p', effs) ->
  exists hook,
    effs = Pay POOL (p_owner p) (p_liq p + p_profit p) :: hook ::
           (if p_tba p =? 0 then [Pay HOUSEFEE (p_owner p) (p_fee p); HookFeeRefund (p_owner p) (p_fee p)]
            else [Pay HOUSEFEE creator (p_fee p)]) /\
    (forall f t a, hook <> Pay f t a) /\
    p_returned p' = p_liq p + p_profit p + (if p_tba p =? 0 then p_fee p else 0) /\
    p_reimb p' = (if p_tba p =? 0 then p_fee p else 0).
Proof. exact settle_participation_declared. Qed.
Print Assumptions C04_declared.

Theorem C04_refund : forall p st creator p' effs,
  st = MK_CANCELED \/ st = MK_ABORTED ->
  settle_participation p st creator = Some (p', effs) ->
  effs = [Pay POOL (p_owner p) (p_liq p); HookRefund (p_owner p) (p_liq p);
          Pay HOUSEFEE (p_owner p) (p_fee p); HookFeeRefund (p_owner p) (p_fee p)] /\
  p_returned p' = p_liq p + p_fee p /\ p_reimb p' = p_fee p.
Proof. exact settle_participation_refund. Qed.
Print Assumptions C04_refund.

Theorem C04_paid_final : forall bk supply P vault MP t0 sw sd,
  bget bk POOL = 0 -> bget bk HOUSEFEE = 0 -> bget bk BETFEE = 0 ->
  forall ops1 ops2 m x p, Forall valid_op ops1 -> Forall valid_op ops2 ->
  get_ms (run (init bk supply P vault MP t0 sw sd) ops1) m = Some x -> In p (bk_parts (ms_book x)) -> p_settled p = true ->
  exists x', get_ms (run (init bk supply P vault MP t0 sw sd) (ops1 ++ ops2)) m = Some x' /\ In p (bk_parts (ms_book x')).
Proof. exact paid_participation_is_final. Qed.
Print Assumptions C04_paid_final.

(* Props/C04.v — House participations are paid exactly once, with correct amount and fee routing.
   The per-participation laws are proved (guard, amounts, fee routing, records); over histories a paid-out participation
   is never touched again (C04_paid_final) and, by C01_custody, what is paid is exactly what the pool held for it.
   Over ALL histories (C04_attribution, C04_declared_amount, C04_refund_amount; Proofs/Settle.v, Solvent.v, NoAbort.v): the profit recorded
   on a participation is exactly the stakes of the settled losing bets it backed minus the winnings of the settled winning bets it
   backed; once the book is resolved every bet is settled and the payout liquidity + profit equals liquidity + losing stakes - winnings
   and is never negative; on cancel/abort the profit is 0, so exactly the remaining liquidity is returned. *)
From Coq Require Import ZArith Bool List.
From Sge Require Import Lib.Dec Model.Types Model.Orderbook Model.Mint Model.Chain Proofs.BookFacts Proofs.Custody Proofs.Mono
     Proofs.BookCover Proofs.CoverHist Proofs.SubHist Proofs.Settle Proofs.NoAbort Witness.C11w.
Import ListNotations.
Open Scope Z_scope.

Theorem C04_once : forall p st creator, p_settled p = true -> settle_participation p st creator = None.
Proof. exact settle_participation_once. Qed.
Theorem C04_marks : forall p st creator p' effs,
  settle_participation p st creator = Some (p', effs) ->
  p_settled p = false /\ p_settled p' = true /\ p_idx p' = p_idx p /\ p_liq p' = p_liq p /\
  p_profit p' = p_profit p /\ p_fee p' = p_fee p /\ p_owner p' = p_owner p.
Proof. exact settle_participation_marks. Qed.
Print Assumptions C04_marks.

Theorem C04_declared : forall p creator p' effs,
  settle_participation p MK_DECLARED creator = Some (p', effs) ->
  exists hook,
    effs = Pay POOL (p_owner p) (p_liq p + p_profit p) :: hook ::
           (if p_tba p =? 0 then [Pay HOUSEFEE (p_owner p) (p_fee p); HookFeeRefund (p_owner p) (p_fee p)]
            else [Pay HOUSEFEE creator (p_fee p)]) /\
    (forall f t a, hook <> Pay f t a) /\
    p_returned p' = p_liq p + p_profit p + (if p_tba p =? 0 then p_fee p else 0) /\
    p_reimb p' = (if p_tba p =? 0 then p_fee p else 0).
Proof. exact settle_participation_declared. Qed.
Print Assumptions C04_declared.

Theorem C04_refund : forall p st creator p' effs,
  st = MK_CANCELED \/ st = MK_ABORTED ->
  settle_participation p st creator = Some (p', effs) ->
  effs = [Pay POOL (p_owner p) (p_liq p); HookRefund (p_owner p) (p_liq p);
          Pay HOUSEFEE (p_owner p) (p_fee p); HookFeeRefund (p_owner p) (p_fee p)] /\
  p_returned p' = p_liq p + p_fee p /\ p_reimb p' = p_fee p.
Proof. exact settle_participation_refund. Qed.
Print Assumptions C04_refund.

Theorem C04_paid_final : forall bk supply P vault MP t0 sw sd,
  bget bk POOL = 0 -> bget bk HOUSEFEE = 0 -> bget bk BETFEE = 0 ->
  forall ops1 ops2 m x p, Forall valid_op ops1 -> Forall valid_op ops2 ->
  get_ms (run (init bk supply P vault MP t0 sw sd) ops1) m = Some x -> In p (bk_parts (ms_book x)) -> p_settled p = true ->
  exists x', get_ms (run (init bk supply P vault MP t0 sw sd) (ops1 ++ ops2)) m = Some x' /\ In p (bk_parts (ms_book x')).
Proof. exact paid_participation_is_final. Qed.
Print Assumptions C04_paid_final.

(* profit attribution in every reachable state: exp_profit x i = (if the market's result is declared, with winner w) the sum over the
   SETTLED bets b of (if b backed w then - winnings paid by participation i else + stake taken by participation i), else 0 *)
Theorem C04_attribution : forall P bk supply vault MP t0 sw sd,
  pr_bet_fee P <= pr_bet_min P -> 0 <= pr_bet_fee P ->
  bget bk POOL = 0 -> bget bk HOUSEFEE = 0 -> bget bk BETFEE = 0 -> (forall a, SUBBASE <= a -> 0 <= bget bk a) ->
  forall ops m x p, Forall user_op ops -> get_ms (run (init bk supply P vault MP t0 sw sd) ops) m = Some x ->
  In p (bk_parts (ms_book x)) -> p_profit p = exp_profit x (p_idx p).
Proof. exact attribution_over_histories. Qed.
Print Assumptions C04_attribution.

(* declared result, book no longer active (being paid out or paid): all bets are settled, and liquidity + profit -- what
   settle_participation pays (C04_declared) -- is the remaining liquidity plus the stakes of the losing bets the participation
   backed minus the winnings of the winning bets it backed; it is never negative *)
Theorem C04_declared_amount : forall P bk supply vault MP t0 sw sd,
  pr_bet_fee P <= pr_bet_min P -> 0 <= pr_bet_fee P ->
  bget bk POOL = 0 -> bget bk HOUSEFEE = 0 -> bget bk BETFEE = 0 -> (forall a, SUBBASE <= a -> 0 <= bget bk a) ->
  forall ops m x p w, Forall user_op ops -> get_ms (run (init bk supply P vault MP t0 sw sd) ops) m = Some x ->
  In p (bk_parts (ms_book x)) -> bk_status (ms_book x) <> BK_ACTIVE -> k_status (ms_mkt x) = MK_DECLARED -> k_winners (ms_mkt x) = [w] ->
  (forall b, In b (ms_bets x) -> b_status b = BS_SETTLED) /\
  p_liq p + p_profit p =
    p_liq p + (stake_i (p_idx p) (bets_of x) - stake_io (p_idx p) w (bets_of x)) - pay_io (p_idx p) w (bets_of x) /\
  0 <= p_liq p + p_profit p.
Proof. exact payout_over_histories. Qed.
Print Assumptions C04_declared_amount.

(* cancelled / aborted (or still open): no profit is ever recorded, so the refund (C04_refund) is exactly the remaining liquidity,
   and liquidity and fee are never negative *)
Theorem C04_refund_amount : forall P bk supply vault MP t0 sw sd,
  pr_bet_fee P <= pr_bet_min P -> 0 <= pr_bet_fee P ->
  bget bk POOL = 0 -> bget bk HOUSEFEE = 0 -> bget bk BETFEE = 0 -> (forall a, SUBBASE <= a -> 0 <= bget bk a) ->
  forall ops m x p, Forall user_op ops -> get_ms (run (init bk supply P vault MP t0 sw sd) ops) m = Some x ->
  In p (bk_parts (ms_book x)) -> k_status (ms_mkt x) <> MK_DECLARED -> p_profit p = 0 /\ 0 <= p_liq p /\ 0 <= p_fee p.
Proof. exact refund_over_histories. Qed.
Print Assumptions C04_refund_amount.

(* non-vacuity: in the witness history a declared market has a paid participation with a non-zero recorded profit *)
Example C04_attribution_witness :
  existsb (fun e => (k_status (ms_mkt (snd e)) =? MK_DECLARED) &&
                    existsb (fun p => p_settled p && negb (p_profit p =? 0)) (bk_parts (ms_book (snd e))))
          (c_ms (run c11w_init c11w_ops)) = true.
Proof. vm_compute. reflexivity. Qed.

From Sge Require Import Gen.kernels Proofs.GenOb Proofs.GenHouse.
(* "never received any stake" (fee back to the depositor) is the Go method NotParticipatedInBetFulfillment, and the house fee is
   CalcHouseParticipationFeeAmount: generated from the sources on every run *)
Theorem C04_kernels_generated : forall p creator dep mkt idx amount wc wt fee,
  K_OrderBookParticipation_NotParticipatedInBetFulfillment (gp_of p) = (p_tba p =? 0) /\
  K_Deposit_CalcHouseParticipationFeeAmount
    {| G_Deposit_Creator := creator; G_Deposit_DepositorAddress := dep; G_Deposit_MarketUID := mkt; G_Deposit_ParticipationIndex := idx;
       G_Deposit_Amount := amount; G_Deposit_WithdrawalCount := wc; G_Deposit_TotalWithdrawalAmount := wt |} fee = dec_round_int (dec_mulint fee amount).
Proof. intros. split; reflexivity. Qed.
Print Assumptions C04_kernels_generated.

From Sge Require Import Proofs.GenSettle.
(* the settlement of one participation in the model IS x/orderbook/keeper settleParticipation, generated from the source with its payments and
   hook calls emitted as effects in order (payment out of the liquidity pool / the house-fee collector, win / loss / refund / fee-refund hook)
   and the participation record it stores (replacing the record of the same index): same refusals (already settled, market not resolved),
   same amounts, same receivers, same order *)
Theorem C04_settle_participation_generated : forall effs0 parts p mstatus creator, p_reimb p = 0 ->
  K_settle_settleParticipation (settle_state effs0 parts) (gp_of p) (gmk mstatus creator) =
  match settle_participation p mstatus creator with
  | None => None
  | Some (p', effs) => Some (settle_state (effs0 ++ effs) (upd (part_is (p_idx p)) p' parts))
  end.
Proof. exact gen_settleParticipation. Qed.
Print Assumptions C04_settle_participation_generated.

(* the per-book batch, batchSettlementOfParticipation (loop over the book's participations with the budget, the settled count and the
   "all settled" flag), generated from the source, IS the model's batch_parts: the same participations are paid in the same order with the
   same effects, the same count is reported and the book is reported completely settled in exactly the same cases *)
Theorem C04_batch_generated : forall effs0 ps mstatus creator limit,
  NoDup (map p_idx ps) -> Forall part_ok ps ->
  K_settle_batchSettlementOfParticipation (settle_state effs0 ps) (gmk mstatus creator) limit =
  match batch_parts ps mstatus creator limit 0 with
  | None => None
  | Some (alls, c, ps', effs) => Some (settle_state (effs0 ++ effs) ps', (alls, c))
  end.
Proof. exact gen_batch. Qed.
Print Assumptions C04_batch_generated.

(* Props/C16.v — Export and re-import of state at any height preserves what users are owed.
   In the model a restart is the identity on the custom state (the model state IS the set of collections),
   so the model-level statement is definitional and stated only for completeness.  The deciding parts:
   (1) the real export -> ValidateGenesis -> InitChain of a fresh app -> raw comparison of the eight custom
   stores -> continuation of the history on the restarted chain, at block boundaries of sampled histories
   of every profile (harness mode genesis/rgenesis); (2) the source fact C16_collections over genesis.v,
   regenerated from /repo on every run (added when the translator table is available). *)
From Coq Require Import ZArith Bool List.
From Sge Require Import Model.Chain.
Import ListNotations.

(* continuing a history is independent of where it is cut: run (run s a) b = run s (a ++ b) *)
Theorem C16_continue : forall s a b, run (run s a) b = run s (a ++ b).
Proof. intros s a b. unfold run. rewrite fold_left_app. reflexivity. Qed.
Print Assumptions C16_continue.

From Coq Require Import String.
From Sge Require Import Proofs.Tables Gen.genesis.
(* source fact, regenerated from /repo on every run: every KV collection (store prefix) of each of the eight
   custom modules is read by the module's ExportGenesis and written by its InitGenesis, except the listed
   derived/dead ones and the reward cap counters (known finding D8b) *)
Theorem C16_collections : forallb module_covered genesis_modules = true.
Proof. exact genesis_collections_covered. Qed.
Theorem C16_exceptions_tight :
  forallb (fun x => existsb (fun g => String.eqb (gm_name g) (fst x) && mem_str (snd x) (map fst (gm_prefixes g)) &&
                                      negb (mem_str (snd x) (gm_exported g))) genesis_modules) not_exported_ok = true.
Proof. exact genesis_exceptions_tight. Qed.
Theorem C16_all_modules :
  forallb (fun m => existsb (fun g => String.eqb (gm_name g) m) genesis_modules)
          ["bet"; "house"; "market"; "mint"; "orderbook"; "ovm"; "reward"; "subaccount"]%string = true.
Proof. exact genesis_all_modules. Qed.
Print Assumptions C16_collections.

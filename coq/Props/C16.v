(* Props/C16.v — Export and re-import of state at any height preserves what users are owed.
   In the model a restart is the identity on the custom state (the model state IS the set of collections),
   so the model-level statement is definitional and stated only for completeness.  The deciding parts:
   (1) the real export -> ValidateGenesis -> InitChain of a fresh app -> raw comparison of the eight custom
   stores -> continuation of the history on the restarted chain, at block boundaries of sampled histories
   of every profile (harness mode genesis/rgenesis); (2) the source fact C16_collections over genesis.v,
   regenerated from /repo on every run (added when the translator table is available). *)
From Coq Require Import ZArith Bool List.
From Sge Require Import Model.Chain.
Import ListNotations.

(* continuing a history is independent of where it is cut: run (run s a) b = run s (a ++ b) *)
Theorem C16_continue : forall s a b, run (run s a) b = run s (a ++ b).
Proof. intros s a b. unfold run. rewrite fold_left_app. reflexivity. Qed.
Print Assumptions C16_continue.

(* Props/C05.v — Resolved markets always finish settling; block processing never aborts.
   Proved over every history (C05_no_abort, C05_no_panic; Proofs/NoAbort.v): begin-block and end-block processing never abort --
   every bet settlement, every participation payout with its subaccount hooks and every mint step succeeds -- for every accepted
   parameter set and every pair of batch sizes; plus the ordering fact and transaction atomicity.
   PARTIAL: the progress bound (settled within pending/batch blocks) and the independence of final balances from the batch sizes
   are decided per run: the work-conserving progress monitor runs on every EndBlock, and sampled histories are re-executed under
   other batch sizes and their final balances compared. *)
From Coq Require Import ZArith Bool List String.
From Sge Require Import Lib.Dec Model.Types Model.Mint Model.Chain Proofs.Inversion Proofs.Tables Gen.perms Proofs.SubHist Proofs.NoAbort Witness.C11w.
Import ListNotations.

(* the bet end-blocker runs before the order-book end-blocker (regenerated from app/modules.go) *)
Theorem C05_order :
  (Nat.ltb (index_of "bet" end_blockers) (index_of "orderbook" end_blockers) &&
   Nat.ltb (index_of "mint" begin_blockers) (index_of "distribution" begin_blockers) &&
   mem_str "bet" end_blockers && mem_str "orderbook" end_blockers && mem_str "ovm" end_blockers)%bool = true.
Proof. exact blocker_order. Qed.
Print Assumptions C05_order.

(* a failing transaction cannot leave partial state behind that a later EndBlock would trip over *)
Theorem C05_failed_tx_no_trace : forall s o, snd (step s o) = Err -> fst (step s o) = s.
Proof. exact failed_tx_no_trace. Qed.
Print Assumptions C05_failed_tx_no_trace.

Open Scope Z_scope.
(* Over every history of operations signed by user accounts, for every bet fee within [0, minimum bet amount] (what
   validateConstraints accepts), every mint parameter set accepted by Params.Validate, every pair of batch sizes, from any genesis
   whose custody accounts are empty: the chain never halts and no operation outputs Panic *)
Theorem C05_no_abort : forall P bk supply vault MP t0 sw sd,
  pr_bet_fee P <= pr_bet_min P -> 0 <= pr_bet_fee P ->
  bget bk POOL = 0 -> bget bk HOUSEFEE = 0 -> bget bk BETFEE = 0 -> (forall a, SUBBASE <= a -> 0 <= bget bk a) ->
  mparams_valid MP = true ->
  forall ops, Forall user_op ops -> c_halted (run (init bk supply P vault MP t0 sw sd) ops) = false.
Proof. exact no_abort. Qed.
Print Assumptions C05_no_abort.

Theorem C05_no_panic : forall P bk supply vault MP t0 sw sd,
  pr_bet_fee P <= pr_bet_min P -> 0 <= pr_bet_fee P ->
  bget bk POOL = 0 -> bget bk HOUSEFEE = 0 -> bget bk BETFEE = 0 -> (forall a, SUBBASE <= a -> 0 <= bget bk a) ->
  mparams_valid MP = true ->
  forall ops o, Forall user_op ops -> snd (step (run (init bk supply P vault MP t0 sw sd) ops) o) <> Panic.
Proof. exact no_panic. Qed.
Print Assumptions C05_no_panic.

(* non-vacuity: a harness-generated history (markets, deposits and wagers directly and through subaccounts, resolutions, end blocks
   that settle bets and pay participations) consists of user operations, and its genesis meets the hypotheses *)
Example C05_no_abort_witness :
  forallb user_opb c11w_ops = true /\
  (let s := run c11w_init c11w_ops in
   negb (c_halted s) && (0 <? Z.of_nat (List.length (c_settledix s))) &&
   existsb (fun e => existsb p_settled (bk_parts (ms_book (snd e)))) (c_ms s)) = true /\
  mparams_valid (c_mparams c11w_init) = true /\ (pr_bet_fee (c_prm c11w_init) <=? pr_bet_min (c_prm c11w_init)) = true /\
  forallb (fun a => bget (c_bank c11w_init) a =? 0) [POOL; HOUSEFEE; BETFEE] = true.
Proof. vm_compute. repeat split; reflexivity. Qed.

(* Props/C05.v — Resolved markets always finish settling; block processing never aborts.
   PARTIAL: the ordering fact and the transaction-atomicity fact are proved here; absence of aborts and
   the progress bound over histories are decided per run: every Begin/EndBlock panic of the real app is a
   violation, the work-conserving progress monitor runs on every EndBlock, and sampled histories are
   re-executed under other batch sizes and their final balances compared. *)
From Coq Require Import ZArith Bool List String.
From Sge Require Import Model.Chain Proofs.Inversion Proofs.Tables Gen.perms.
Import ListNotations.

(* the bet end-blocker runs before the order-book end-blocker (regenerated from app/modules.go) *)
Theorem C05_order :
  (Nat.ltb (index_of "bet" end_blockers) (index_of "orderbook" end_blockers) &&
   Nat.ltb (index_of "mint" begin_blockers) (index_of "distribution" begin_blockers) &&
   mem_str "bet" end_blockers && mem_str "orderbook" end_blockers && mem_str "ovm" end_blockers)%bool = true.
Proof. exact blocker_order. Qed.
Print Assumptions C05_order.

(* a failing transaction cannot leave partial state behind that a later EndBlock would trip over *)
Theorem C05_failed_tx_no_trace : forall s o, snd (step s o) = Err -> fst (step s o) = s.
Proof. exact failed_tx_no_trace. Qed.
Print Assumptions C05_failed_tx_no_trace.

(* Props/C05.v — Resolved markets always finish settling; block processing never aborts.
   Proved over every history (C05_no_abort, C05_no_panic; Proofs/NoAbort.v): begin-block and end-block processing never abort --
   every bet settlement, every participation payout with its subaccount hooks and every mint step succeeds -- for every accepted
   parameter set and every pair of batch sizes; plus the ordering fact and transaction atomicity.
   Progress bound, over every history (C05_bets_settled_within, C05_book_settled_within; Proofs/Progress.v): a market queued for bet
   settlement with `a` pending bets queued up to and including its own has all its bets settled and has left that queue after
   a / batch + 1 end blocks; a book queued for payment with `a` unpaid participations queued up to and including its own is marked
   settled, every participation paid, out of both queues and with nothing left in custody, after a / batch + 1 end blocks -- whatever
   other transactions and blocks come in between; C05_settled_within composes the two: a resolved market is completely settled after
   (pending bets ahead / bet batch + 1) + (unpaid participations ahead / book batch + 1) end blocks.  All rest on the work-conserving law of one end-blocker run and on the frame
   "no transaction touches the queued work of a resolved market" proved for every message handler.
   Independence of the batch sizes and of the interleaving (C05_settlement_conserves, C05_settlement_determined; Proofs/Entitle.v):
   ent x a = what account a is still to receive out of custody from the settlement of the resolved market x, computed from the market's
   record alone.  Between any two points of any history a resolved market has made a sequence of settlement transitions (settle one bet,
   mark the book resolved, pay a batch of participations of ANY size, withdrawals) whose payments, account by account, equal the
   entitlement it lost; once the market is settled every account has received exactly its entitlement at the first point.  What is paid
   is therefore a function of the market's record at resolution, not of the batch sizes or of what else happened in between.
   The witness evaluates this on a concrete history under two pairs of batch sizes: same final balances, equal to balance + ent.
   Outside the theorem (decided per run by the batch-size differential): what the subaccount hooks forward from a subaccount address to
   its owner after such a payment, and the side condition that the compared runs accept the same transactions. *)
From Coq Require Import ZArith Bool List String.
From Sge Require Import Lib.Dec Model.Types Model.Mint Model.Chain Proofs.Inversion Proofs.Tables Gen.perms Proofs.SubHist Proofs.NoAbort Proofs.Custody Proofs.Local Proofs.Progress Proofs.Entitle Witness.C11w Witness.C05w.
Import ListNotations.

(* the bet end-blocker runs before the order-book end-blocker (regenerated from app/modules.go) *)
Theorem C05_order :
  (Nat.ltb (index_of "bet" end_blockers) (index_of "orderbook" end_blockers) &&
   Nat.ltb (index_of "mint" begin_blockers) (index_of "distribution" begin_blockers) &&
   mem_str "bet" end_blockers && mem_str "orderbook" end_blockers && mem_str "ovm" end_blockers)%bool = true.
Proof. exact blocker_order. Qed.
Print Assumptions C05_order.

(* a failing transaction cannot leave partial state behind that a later EndBlock would trip over *)
Theorem C05_failed_tx_no_trace : forall s o, snd (step s o) = Err -> fst (step s o) = s.
Proof. exact failed_tx_no_trace. Qed.
Print Assumptions C05_failed_tx_no_trace.

Open Scope Z_scope.
(* Over every history of operations signed by user accounts, for every bet fee within [0, minimum bet amount] (what
   validateConstraints accepts), every mint parameter set accepted by Params.Validate, every pair of batch sizes, from any genesis
   whose custody accounts are empty: the chain never halts and no operation outputs Panic *)
Theorem C05_no_abort : forall P bk supply vault MP t0 sw sd,
  pr_bet_fee P <= pr_bet_min P -> 0 <= pr_bet_fee P ->
  bget bk POOL = 0 -> bget bk HOUSEFEE = 0 -> bget bk BETFEE = 0 -> (forall a, SUBBASE <= a -> 0 <= bget bk a) ->
  mparams_valid MP = true ->
  forall ops, Forall user_op ops -> c_halted (run (init bk supply P vault MP t0 sw sd) ops) = false.
Proof. exact no_abort. Qed.
Print Assumptions C05_no_abort.

Theorem C05_no_panic : forall P bk supply vault MP t0 sw sd,
  pr_bet_fee P <= pr_bet_min P -> 0 <= pr_bet_fee P ->
  bget bk POOL = 0 -> bget bk HOUSEFEE = 0 -> bget bk BETFEE = 0 -> (forall a, SUBBASE <= a -> 0 <= bget bk a) ->
  mparams_valid MP = true ->
  forall ops o, Forall user_op ops -> snd (step (run (init bk supply P vault MP t0 sw sd) ops) o) <> Panic.
Proof. exact no_panic. Qed.
Print Assumptions C05_no_panic.

(* non-vacuity: a harness-generated history (markets, deposits and wagers directly and through subaccounts, resolutions, end blocks
   that settle bets and pay participations) consists of user operations, and its genesis meets the hypotheses *)
Example C05_no_abort_witness :
  forallb user_opb c11w_ops = true /\
  (let s := run c11w_init c11w_ops in
   negb (c_halted s) && (0 <? Z.of_nat (List.length (c_settledix s))) &&
   existsb (fun e => existsb p_settled (bk_parts (ms_book (snd e)))) (c_ms s)) = true /\
  mparams_valid (c_mparams c11w_init) = true /\ (pr_bet_fee (c_prm c11w_init) <=? pr_bet_min (c_prm c11w_init)) = true /\
  forallb (fun a => bget (c_bank c11w_init) a =? 0) [POOL; HOUSEFEE; BETFEE] = true.
Proof. vm_compute. repeat split; reflexivity. Qed.

(* ---- progress: settled within a bounded number of blocks, over every history ---------------------------------------------------------- *)
(* bets_measure s m = number of pending bets of the markets queued for bet settlement up to and including m;
   parts_measure s m = number of unpaid participations of the books queued for payment up to and including m;
   count_end ops = number of end blocks among ops.  ops2 is ANY continuation of the history (other markets, wagers, deposits, ...). *)
Theorem C05_bets_settled_within : forall P bk supply vault MP t0 sw sd,
  pr_bet_fee P <= pr_bet_min P -> 0 <= pr_bet_fee P ->
  bget bk POOL = 0 -> bget bk HOUSEFEE = 0 -> bget bk BETFEE = 0 -> (forall a, SUBBASE <= a -> 0 <= bget bk a) ->
  mparams_valid MP = true ->
  forall ops1 ops2 m, Forall user_op ops1 -> Forall user_op ops2 ->
  In m (c_mqueue (run (init bk supply P vault MP t0 sw sd) ops1)) -> 0 < pr_bet_batch P ->
  bets_measure (run (init bk supply P vault MP t0 sw sd) ops1) m / pr_bet_batch P + 1 <= count_end ops2 ->
  exists x, get_ms (run (init bk supply P vault MP t0 sw sd) (ops1 ++ ops2)) m = Some x /\ ms_pending x = [] /\
    (forall b, In b (ms_bets x) -> b_status b = BS_SETTLED) /\
    ~ In m (c_mqueue (run (init bk supply P vault MP t0 sw sd) (ops1 ++ ops2))) /\
    (bk_status (ms_book x) = BK_RESOLVED \/ bk_status (ms_book x) = BK_SETTLED).
Proof. exact bets_done_within. Qed.
Print Assumptions C05_bets_settled_within.

Theorem C05_book_settled_within : forall P bk supply vault MP t0 sw sd,
  pr_bet_fee P <= pr_bet_min P -> 0 <= pr_bet_fee P ->
  bget bk POOL = 0 -> bget bk HOUSEFEE = 0 -> bget bk BETFEE = 0 -> (forall a, SUBBASE <= a -> 0 <= bget bk a) ->
  mparams_valid MP = true ->
  forall ops1 ops2 m, Forall user_op ops1 -> Forall user_op ops2 ->
  In m (c_bqueue (run (init bk supply P vault MP t0 sw sd) ops1)) -> 0 < pr_ob_batch P ->
  parts_measure (run (init bk supply P vault MP t0 sw sd) ops1) m / pr_ob_batch P + 1 <= count_end ops2 ->
  exists x, get_ms (run (init bk supply P vault MP t0 sw sd) (ops1 ++ ops2)) m = Some x /\ bk_status (ms_book x) = BK_SETTLED /\
    (forall p, In p (bk_parts (ms_book x)) -> p_settled p = true) /\
    ms_pending x = [] /\ (forall b, In b (ms_bets x) -> b_status b = BS_SETTLED) /\
    ~ In m (c_mqueue (run (init bk supply P vault MP t0 sw sd) (ops1 ++ ops2))) /\
    ~ In m (c_bqueue (run (init bk supply P vault MP t0 sw sd) (ops1 ++ ops2))) /\
    owed_pool x = 0 /\ owed_hfee x = 0 /\ owed_bfee x = 0.
Proof. exact book_done_within. Qed.
Print Assumptions C05_book_settled_within.

(* from resolution to the settled book in one bound: queued_parts s m = number of unpaid participations queued up to and including m over
   both settlement queues read as one list (payment queue first); it never grows while m waits *)
Theorem C05_settled_within : forall P bk supply vault MP t0 sw sd,
  pr_bet_fee P <= pr_bet_min P -> 0 <= pr_bet_fee P ->
  bget bk POOL = 0 -> bget bk HOUSEFEE = 0 -> bget bk BETFEE = 0 -> (forall a, SUBBASE <= a -> 0 <= bget bk a) ->
  mparams_valid MP = true -> 0 < pr_bet_batch P -> 0 < pr_ob_batch P ->
  forall ops1 ops2 m, Forall user_op ops1 -> Forall user_op ops2 ->
  In m (c_mqueue (run (init bk supply P vault MP t0 sw sd) ops1)) ->
  (bets_measure (run (init bk supply P vault MP t0 sw sd) ops1) m / pr_bet_batch P + 1) +
  (queued_parts (run (init bk supply P vault MP t0 sw sd) ops1) m / pr_ob_batch P + 1) <= count_end ops2 ->
  exists x, get_ms (run (init bk supply P vault MP t0 sw sd) (ops1 ++ ops2)) m = Some x /\ bk_status (ms_book x) = BK_SETTLED /\
    (forall p, In p (bk_parts (ms_book x)) -> p_settled p = true) /\
    ms_pending x = [] /\ (forall b, In b (ms_bets x) -> b_status b = BS_SETTLED) /\
    ~ In m (c_mqueue (run (init bk supply P vault MP t0 sw sd) (ops1 ++ ops2))) /\
    ~ In m (c_bqueue (run (init bk supply P vault MP t0 sw sd) (ops1 ++ ops2))) /\
    owed_pool x = 0 /\ owed_hfee x = 0 /\ owed_bfee x = 0.
Proof. exact fully_settled_within. Qed.
Print Assumptions C05_settled_within.

(* one run of each end blocker is work-conserving: with budget n it takes exactly n units of the work queued up to and including a
   market, or moves the market on (the laws the two bounds are built from) *)
Theorem C05_bet_endblocker_law : forall fuel s n s', bet_endblock fuel s n = Some s' -> qok s -> 0 <= n ->
  forall m, In m (c_mqueue s) ->
    (ahead (pend_of s) (c_mqueue s) m < n -> moved s' m) /\
    (moved s' m \/ (In m (c_mqueue s') /\ ahead (pend_of s') (c_mqueue s') m = ahead (pend_of s) (c_mqueue s) m - n)).
Proof. intros fuel s n s' H Q Hn. exact (proj2 (proj2 (bet_endblock_ahead fuel s n s' H Q Hn))). Qed.
Print Assumptions C05_bet_endblocker_law.

(* no transaction (any operation other than the end blocker) touches the pending list, the paid flags or the book status of a resolved
   market, and the settlement queues only grow at the tail *)
Theorem C05_tx_frame : forall s o, o <> OEnd -> qframe s (fst (step s o)).
Proof. exact step_qframe. Qed.
Print Assumptions C05_tx_frame.

(* non-vacuity: in the witness history (order-book batch size 2), after 25 operations market 0 waits for bet settlement with 3 pending
   bets, after 27 operations its book waits for payment with 2 unpaid participations, and the rest of the history contains enough end
   blocks for both theorems; their conclusions are then read off the theorems, not computed *)
Example C05_progress_witness :
  forallb user_opb c05w_ops = true /\
  (let s := run c05w_init (firstn 25 c05w_ops) in
   c_mqueue s = [0] /\ bets_measure s 0 = 3 /\ (bets_measure s 0 / pr_bet_batch (c_prm c05w_init) + 1 <=? count_end (skipn 25 c05w_ops)) = true) /\
  (let s := run c05w_init (firstn 27 c05w_ops) in
   c_bqueue s = [0] /\ parts_measure s 0 = 2 /\ pr_ob_batch (c_prm c05w_init) = 2 /\
   (parts_measure s 0 / pr_ob_batch (c_prm c05w_init) + 1 <=? count_end (skipn 27 c05w_ops)) = true).
Proof. vm_compute. repeat split; reflexivity. Qed.

(* ---- the final payments do not depend on the batch sizes or on the interleaving ----------------------------------------------------------- *)
(* ent x a: Proofs/Entitle.v (unsettled bets: refund of stake and fee / winnings and stake / nothing, bet fee to the market creator on a
   declared result; unpaid participations: liquidity + the contributions of ALL bets of the market, fee to the depositor or the creator);
   recv a effs = what the payments in effs pay to a; sreach P x effs x' = a sequence of settlement transitions from x to x' paying effs *)
Theorem C05_settlement_conserves : forall P bk supply vault MP t0 sw sd,
  pr_bet_fee P <= pr_bet_min P -> 0 <= pr_bet_fee P ->
  bget bk POOL = 0 -> bget bk HOUSEFEE = 0 -> bget bk BETFEE = 0 -> (forall a, SUBBASE <= a -> 0 <= bget bk a) ->
  forall ops1 ops2 m x, Forall user_op ops1 -> Forall user_op ops2 ->
  get_ms (run (init bk supply P vault MP t0 sw sd) ops1) m = Some x -> status_res (k_status (ms_mkt x)) ->
  exists x' effs, get_ms (run (init bk supply P vault MP t0 sw sd) (ops1 ++ ops2)) m = Some x' /\ sreach P x effs x' /\
    forall a, ent x a = ent x' a + recv a effs.
Proof. exact settlement_conserves. Qed.
Print Assumptions C05_settlement_conserves.

Theorem C05_settlement_determined : forall P bk supply vault MP t0 sw sd,
  pr_bet_fee P <= pr_bet_min P -> 0 <= pr_bet_fee P ->
  bget bk POOL = 0 -> bget bk HOUSEFEE = 0 -> bget bk BETFEE = 0 -> (forall a, SUBBASE <= a -> 0 <= bget bk a) ->
  forall ops1 ops2 m x, Forall user_op ops1 -> Forall user_op ops2 ->
  get_ms (run (init bk supply P vault MP t0 sw sd) ops1) m = Some x -> status_res (k_status (ms_mkt x)) ->
  book_at_least BK_SETTLED (run (init bk supply P vault MP t0 sw sd) (ops1 ++ ops2)) m ->
  exists x' effs, get_ms (run (init bk supply P vault MP t0 sw sd) (ops1 ++ ops2)) m = Some x' /\ sreach P x effs x' /\
    forall a, recv a effs = ent x a.
Proof. exact settlement_determined. Qed.
Print Assumptions C05_settlement_determined.

(* every local transition a resolved market can make is one of the four settlement transitions, and each conserves entitlement + paid *)
Theorem C05_transition_conserves : forall P x effs x', pr_bet_fee P <= pr_bet_min P -> 0 <= pr_bet_fee P ->
  sgood x -> strans P x effs x' -> sgood x' /\ forall a, ent x a = ent x' a + recv a effs.
Proof. intros P x effs x' HP HF. exact (strans_conserves P HP HF x effs x'). Qed.
Print Assumptions C05_transition_conserves.

(* non-vacuity and meaning: the witness history up to the point where market 0 waits for settlement (3 pending bets, 2 participations),
   continued with empty blocks only, under batch sizes (1000, 2) and under batch sizes (1, 1): both chains drain completely, and in
   both every account's balance has grown by exactly its entitlement ent x a computed at the first point *)
Definition c05w_drain : list op := List.concat (List.repeat [OBegin 1800000000; OEnd] 8).
Definition c05w_check (i0 : chain) : bool :=
  let s := run i0 (firstn 25 c05w_ops) in
  let s' := run s c05w_drain in
  match get_ms s 0, get_ms s' 0 with
  | Some x, Some y =>
      forallb (fun a => bget (c_bank s') a - bget (c_bank s) a =? ent x a) [0; 1; 2; 3; 4; 5] &&
      (0 <? ent x 2) && (0 <? ent x 3) && (bk_status (ms_book y) =? BK_SETTLED) && negb (c_halted s') &&
      match c_mqueue s, c_mqueue s', c_bqueue s' with [0], [], [] => true | _, _, _ => false end
  | _, _ => false
  end.
Example C05_batch_independence_witness :
  c05w_check c05w_init = true /\ c05w_check c05w_init_b11 = true /\
  pr_bet_batch (c_prm c05w_init_b11) = 1 /\ pr_ob_batch (c_prm c05w_init_b11) = 1 /\ pr_bet_batch (c_prm c05w_init) = 1000.
Proof. vm_compute. repeat split; reflexivity. Qed.

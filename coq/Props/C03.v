(* Props/C03.v — Each bet settles exactly once and pays exactly what the ticket promised.
   PARTIAL: placement facts are proved (recorded stake = stake taken = Σ parts, never empty); settlement
   amounts, once-only and non-negativity of parts are decided per run by the Go monitors (placement and
   EndBlock accounting on the real state) + correspondence + kernel stream. *)
From Coq Require Import ZArith Bool List.
From Sge Require Import Lib.Dec Model.Types Model.Orderbook Model.Mint Model.Chain Proofs.WagerLoop Proofs.Inversion.
Import ListNotations.
Open Scope Z_scope.

Theorem C03_sum : forall b A betamt profit bettor fee b' parts effs,
  process_wager b A betamt profit bettor fee = Some (b', parts, effs) ->
  effs = [Pay bettor BETFEE fee; Pay bettor POOL (zsum (map f_stake parts))] /\ parts <> [].
Proof. exact process_wager_effects. Qed.
Print Assumptions C03_sum.

(* the stored bet: next sequence number, pending, amount = Σ stakes of its parts, and the bank moved exactly
   fee + amount out of the bettor's account *)
Theorem C03_place : forall s sg u a sm so ov mu al s',
  wager_core s sg u a sm so ov mu al = Some s' ->
  exists x x' b,
    get_ms s sm = Some x /\ get_ms s' sm = Some x' /\
    ms_bets x' = ms_bets x ++ [b] /\ ms_pending x' = ms_pending x ++ [b_id b] /\
    b_id b = c_betcnt s + 1 /\ b_uid b = u /\ b_creator b = sg /\ b_status b = BS_PLACED /\
    b_fee b = pr_bet_fee (c_prm s) /\
    b_amount b = zsum (map f_stake (b_parts b)) /\ b_parts b <> [] /\
    apply_effects (c_bank s) (c_subs s)
      [Pay sg BETFEE (b_fee b); Pay sg POOL (b_amount b)] = Some (c_bank s', c_subs s').
Proof. exact wager_core_record. Qed.
Print Assumptions C03_place.

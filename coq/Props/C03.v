(* Props/C03.v — Each bet settles exactly once and pays exactly what the ticket promised.
   Proved: placement (recorded stake = stake taken = Σ parts, never empty); what a settlement pays (refund of stake and
   fee on cancel/abort; Σ(part payout + part stake) to a winner; nothing to a loser; the bet fee to the market creator);
   over histories: a settled bet is never touched again and the terms of a bet (id, creator, amount, fee, outcome, odds,
   backing parts) never change (C03_settled_final, C03_terms_fixed), together with C08_indexes (exactly once in the
   settled index).  Since the repair of D3 (e3645c4) also: no backing part is negative and the stake taken never exceeds the requested stake
   (C03_parts_nonneg, C03_within_requested), for every split of the bet over the queue; the histories that exhibited
   D3 on the real code are kept as regression examples (Witness/D3w.v, corpus/C03).  C03_promised: for every split of the bet over
   the queue, the winnings promised by its backing parts add up to exactly the integer part of (amount - fee) x (odds - 1)
   (Proofs/WagerPay.v); with C03_payout and C03_terms_fixed a winner therefore receives the stake charged plus exactly that. *)
From Coq Require Import ZArith Bool List.
From Sge Require Import Lib.Dec Model.Types Model.Orderbook Model.Mint Model.Chain Proofs.WagerLoop Proofs.Inversion Proofs.Custody Proofs.Mono Proofs.WagerBounds Proofs.WagerPay Witness.D3w.
Import ListNotations.
Open Scope Z_scope.

Theorem C03_sum : forall b A betamt profit bettor fee b' parts effs,
  process_wager b A betamt profit bettor fee = Some (b', parts, effs) ->
  effs = [Pay bettor BETFEE fee; Pay bettor POOL (zsum (map f_stake parts))] /\ parts <> [].
Proof. exact process_wager_effects. Qed.
Print Assumptions C03_sum.

(* the stored bet: next sequence number, pending, amount = Σ stakes of its parts, and the bank moved exactly
   fee + amount out of the bettor's account *)
Theorem C03_place : forall s sg u a sm so ov mu al s',
  wager_core s sg u a sm so ov mu al = Some s' ->
  exists x x' b,
    get_ms s sm = Some x /\ get_ms s' sm = Some x' /\
    ms_bets x' = ms_bets x ++ [b] /\ ms_pending x' = ms_pending x ++ [b_id b] /\
    b_id b = c_betcnt s + 1 /\ b_uid b = u /\ b_creator b = sg /\ b_status b = BS_PLACED /\
    b_fee b = pr_bet_fee (c_prm s) /\
    b_amount b = zsum (map f_stake (b_parts b)) /\ b_parts b <> [] /\
    apply_effects (c_bank s) (c_subs s)
      [Pay sg BETFEE (b_fee b); Pay sg POOL (b_amount b)] = Some (c_bank s', c_subs s').
Proof. exact wager_core_record. Qed.
Print Assumptions C03_place.

Theorem C03_payout : forall x h id x' effs,
  settle_bet x h id = Some (x', effs) ->
  exists b, find (fun c => b_id c =? id) (ms_bets x) = Some b /\ b_status b <> BS_SETTLED /\
    let mk := ms_mkt x in
    ((k_status mk = MK_ABORTED \/ k_status mk = MK_CANCELED) /\
       effs = [Pay POOL (b_creator b) (b_amount b); Pay BETFEE (b_creator b) (b_fee b)]) \/
    (k_status mk = MK_DECLARED /\ zmem (b_odds b) (k_winners mk) = true /\
       effs = map (fun f => Pay POOL (b_creator b) (f_pay f + f_stake f)) (b_parts b) ++ [Pay BETFEE (k_creator mk) (b_fee b)]) \/
    (k_status mk = MK_DECLARED /\ zmem (b_odds b) (k_winners mk) = false /\ effs = [Pay BETFEE (k_creator mk) (b_fee b)]).
Proof. exact settle_bet_payout. Qed.
Print Assumptions C03_payout.

Theorem C03_settled_final : forall bk supply P vault MP t0 sw sd,
  bget bk POOL = 0 -> bget bk HOUSEFEE = 0 -> bget bk BETFEE = 0 ->
  forall ops1 ops2 m x b, Forall valid_op ops1 -> Forall valid_op ops2 ->
  get_ms (run (init bk supply P vault MP t0 sw sd) ops1) m = Some x -> In b (ms_bets x) -> b_status b = BS_SETTLED ->
  exists x', get_ms (run (init bk supply P vault MP t0 sw sd) (ops1 ++ ops2)) m = Some x' /\ In b (ms_bets x').
Proof. exact settled_bet_is_final. Qed.
Print Assumptions C03_settled_final.

Theorem C03_terms_fixed : forall bk supply P vault MP t0 sw sd,
  bget bk POOL = 0 -> bget bk HOUSEFEE = 0 -> bget bk BETFEE = 0 ->
  forall ops1 ops2 m x b, Forall valid_op ops1 -> Forall valid_op ops2 ->
  get_ms (run (init bk supply P vault MP t0 sw sd) ops1) m = Some x -> In b (ms_bets x) ->
  exists x' b', get_ms (run (init bk supply P vault MP t0 sw sd) (ops1 ++ ops2)) m = Some x' /\ In b' (ms_bets x') /\ bet_core b' = bet_core b.
Proof. exact bet_terms_are_fixed. Qed.
Print Assumptions C03_terms_fixed.


(* no backing part is negative (stake and promised payout), and the stakes add up to at most the requested stake, for
   every book, queue, odds and liquidity split *)
Theorem C03_parts_nonneg : forall b A betamt profit bettor fee b' parts effs,
  process_wager b A betamt profit bettor fee = Some (b', parts, effs) -> 0 <= betamt -> 0 <= profit ->
  Forall part_nonneg parts /\ 0 <= zsum (map f_stake parts) <= betamt.
Proof. exact process_wager_bounds. Qed.
Print Assumptions C03_parts_nonneg.

(* the stored bet of a successful wager: parts non-negative, 0 <= recorded stake <= requested amount - fee.
   Hypothesis: the validated constraint fee <= minimum amount (x/bet Params.Validate since f805ade) *)
Theorem C03_within_requested : forall s sg u a sm so ov mu al s',
  wager_core s sg u a sm so ov mu al = Some s' -> pr_bet_fee (c_prm s) <= pr_bet_min (c_prm s) ->
  exists x x' b,
    get_ms s sm = Some x /\ get_ms s' sm = Some x' /\ ms_bets x' = ms_bets x ++ [b] /\ b_uid b = u /\
    Forall part_nonneg (b_parts b) /\ 0 <= b_amount b <= a - pr_bet_fee (c_prm s).
Proof. exact wager_core_bounds. Qed.
Print Assumptions C03_within_requested.

(* regression: the two histories that exhibited D3 on the real code (negative part -> EndBlock panic; stake 3 charged for a
   requested stake of 2) now run without a negative part, without a halt, within the requested stake *)
Definition has_negative_part (s : chain) : bool :=
  existsb (fun e => existsb (fun b => existsb (fun f => (f_stake f <? 0) || (f_pay f <? 0)) (b_parts b)) (ms_bets (snd e))) (c_ms s).
Definition stake_above_requested (s : chain) (uid requested : Z) : bool :=
  existsb (fun e => existsb (fun b => (b_uid b =? uid) && (requested - b_fee b <? b_amount b)) (ms_bets (snd e))) (c_ms s).
Example C03_regression_D3 :
  c_halted (run d3neg_init d3neg_ops) = false /\ has_negative_part (run d3neg_init d3neg_ops) = false /\
  c_betcnt (run d3neg_init d3neg_ops) = 2 /\ c_bqueue (run d3neg_init d3neg_ops) = [] /\
  c_halted (run d3over_init d3over_ops) = false /\ c_betcnt (run d3over_init d3over_ops) = 1 /\
  stake_above_requested (run d3over_init d3over_ops) 50 3 = false.
Proof. vm_compute. repeat split; reflexivity. Qed.

(* what the ticket promised: the payouts of the backing parts of the stored bet add up to the integer part of
   (amount - fee) x odds - (amount - fee), for all odds > 1 and every distribution of liquidity over the queue *)
Theorem C03_promised : forall s sg u a sm so ov mu al s',
  wager_core s sg u a sm so ov mu al = Some s' -> pr_bet_fee (c_prm s) <= pr_bet_min (c_prm s) ->
  exists x x' b profit,
    get_ms s sm = Some x /\ get_ms s' sm = Some x' /\ ms_bets x' = ms_bets x ++ [b] /\ b_uid b = u /\ b_oddsval b = ov /\
    payout_profit ov (a - pr_bet_fee (c_prm s)) = Some profit /\ 0 <= profit /\
    zsum (map f_pay (b_parts b)) = dec_trunc_int profit /\
    profit = dec_mulint ov (a - pr_bet_fee (c_prm s)) - dec_of_int (a - pr_bet_fee (c_prm s)).
Proof. exact wager_core_promised. Qed.
Print Assumptions C03_promised.

From Sge Require Import Gen.kernels Proofs.GenMarket Proofs.GenBet.
(* the promised winnings and the stake of a partial fill in the model ARE the Go functions: CalculatePayoutProfit and CalculateBetAmountInt
   (with CalculateDecimalPayout / CalculateDecimalBetAmount behind them) are generated from x/bet/types on every run (Gen/kernels.v) and
   proved equal to payout_profit and bet_amount_int *)
Theorem C03_kernels_generated : forall ov amount profit carry,
  K__CalculatePayoutProfit ov amount = payout_profit ov amount /\
  (PREC < ov -> K__CalculateBetAmountInt ov profit carry = Some (bet_amount_int ov profit carry)).
Proof. intros. split; [apply gen_CalculatePayoutProfit|apply gen_CalculateBetAmountInt]. Qed.
(* which side is paid: Bet.SetResult (the loop over the market's winners with its break) IS the won / lost decision of settle_bet *)
Theorem C03_verdict_generated : forall b mk,
  K_Bet_SetResult (gb_of b) (gm_of mk) =
  if negb (k_status mk =? MK_DECLARED) then None
  else Some (gb_of (bet_with b BS_DECLARED (if zmem (b_odds b) (k_winners mk) then BR_WON else BR_LOST) (b_sheight b))).
Proof. exact gen_SetResult. Qed.
Print Assumptions C03_verdict_generated.
Print Assumptions C03_kernels_generated.

From Sge Require Import Proofs.GenSettle Proofs.GenBetSettle.
(* what a settled bet is paid and what is booked on the participations behind it ARE the Go functions of x/orderbook/keeper/bet_settle.go,
   generated on every run as functions on (effect log, participations): a refunded bet gets its stake out of the pool and its fee out of the
   fee collector; a won bet gets stake + payout profit of every part out of the pool, in the order of the parts, each taken off the profit of
   the participation behind it; a lost bet pays nothing and adds each stake to that profit; a missing participation is an error in both *)
Theorem C03_bet_settlement_generated :
  (forall effs0 parts bettor amount fee x,
     K_settle_RefundBettor (settle_state effs0 parts) bettor amount fee x =
     Some (settle_state (effs0 ++ [Pay POOL bettor amount; Pay BETFEE bettor fee]) parts)) /\
  (forall fs b effs0 bettor,
     K_settle_BettorWins (settle_state effs0 (bk_parts b)) bettor (map gbf_of fs) =
     match bettor_wins b bettor fs with
     | None => None
     | Some (b', effs) => Some (settle_state (effs0 ++ effs) (bk_parts b'))
     end) /\
  (forall fs b effs0,
     K_settle_BettorLoses (settle_state effs0 (bk_parts b)) (map gbf_of fs) =
     match bettor_loses b fs with
     | None => None
     | Some b' => Some (settle_state effs0 (bk_parts b'))
     end).
Proof. split; [exact gen_RefundBettor|split; [exact gen_BettorWins|exact gen_BettorLoses]]. Qed.
Print Assumptions C03_bet_settlement_generated.

(* Keeper.Settle of x/bet/keeper/settle.go (with updateSettlementState, settleResolved and the order-book keeper's WithdrawBetFee), generated
   on every run as a function on the state it reaches through its keepers - the uid index entry, the stored bet, its market, the
   participations and effect log of the order book, the pending and settled indexes, the block height - IS the model's settle_bet: the same
   refusals (unknown or foreign bet, already settled, market not resolved, a missing participation), the same payments in the same order,
   the same participation updates, the bet recorded as settled with the same result at this height, removed from the pending index and
   entered once in the settled index.  C03_payout and the history theorems above are therefore statements about this Go function *)
Theorem C03_settle_generated : forall x h id b,
  findb (fun c => b_id c =? id) (ms_bets x) = Some b -> 0 <= b_uid b -> b_status b <> 2 ->
  K_bset_Settle (bset_state x b id h) (b_creator b) (b_uid b) =
  match settle_bet x h id with
  | None => None
  | Some (x', effs) => Some (bset_after x b id h x' effs (settled_as (ms_mkt x) b))
  end.
Proof. exact gen_Settle. Qed.
Print Assumptions C03_settle_generated.
(* non-vacuity: in a state reached by a history (deposit, wager, result declared for the bet's outcome) the hypotheses hold for the pending
   bet, the generated Settle accepts, and it pays the winner stake + winnings out of the pool and the bet fee to the market creator *)
From Sge Require Import Witness.C03w.
Example C03_settle_generated_witness :
  match get_ms c03w_s 1 with
  | Some x =>
      match findb (fun c => b_id c =? 1) (ms_bets x) with
      | Some b =>
          (0 <=? b_uid b) && negb (b_status b =? 2) &&
          match K_bset_Settle (bset_state x b 1 2) (b_creator b) (b_uid b) with
          | Some st => match S_settle_Effects (S_bset_Ob st) with
                       | [(a1, a2, a3, a4); (c1, c2, c3, c4)] =>
                           (a1 =? 0) && (a2 =? -1) && (a3 =? 2) && (a4 =? 98) && (c1 =? 0) && (c2 =? -2) && (c3 =? 1) && (c4 =? 1)
                       | _ => false
                       end
                       && (G_Bet_Status (S_bset_Bet st) =? 6) && (G_Bet_Result (S_bset_Bet st) =? 2)
          | None => false
          end
      | None => false
      end
  | None => false
  end = true.
Proof. vm_compute. reflexivity. Qed.

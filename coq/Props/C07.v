(* Props/C07.v — Market life cycle is monotone and resolution is final.
   Over histories of the model (Proofs/Mono.v): between ANY two points of a history a market keeps its id, creator and
   outcome list, its book status only moves forward, and once it is resolved its whole record (status, winners,
   resolution time, start/end) never changes again (C07_resolution_final, C07_identity); in every state updates and
   second resolutions of a resolved market are rejected; a transaction naming one market leaves the others untouched.
   C07_lifecycle (Proofs/Lifecycle.v), for every market of every reachable state of every history: at least two distinct outcomes;
   status active/inactive or one of the three resolutions; a declared market has exactly one winner and it is one of the market's own
   outcomes; no bet of an unresolved market is settled; every settled bet carries the result its outcome has under the market's
   resolution (refunded on cancel/abort, won iff its outcome is the winner) -- and that resolution is final (C07_resolution_final). *)
From Coq Require Import ZArith Bool List.
From Sge Require Import Lib.Dec Model.Types Model.Orderbook Model.Mint Model.Chain Proofs.MarketFacts Proofs.Custody Proofs.Mono Proofs.Local Proofs.Settle Proofs.Lifecycle.
Open Scope Z_scope.

Theorem C07_resolution_final : forall bk supply P vault MP t0 sw sd,
  bget bk POOL = 0 -> bget bk HOUSEFEE = 0 -> bget bk BETFEE = 0 ->
  forall ops1 ops2 m x, Forall valid_op ops1 -> Forall valid_op ops2 ->
  get_ms (run (init bk supply P vault MP t0 sw sd) ops1) m = Some x -> status_res (k_status (ms_mkt x)) ->
  exists x', get_ms (run (init bk supply P vault MP t0 sw sd) (ops1 ++ ops2)) m = Some x' /\ ms_mkt x' = ms_mkt x.
Proof. exact resolution_is_final. Qed.
Print Assumptions C07_resolution_final.

Theorem C07_identity : forall bk supply P vault MP t0 sw sd,
  bget bk POOL = 0 -> bget bk HOUSEFEE = 0 -> bget bk BETFEE = 0 ->
  forall ops1 ops2 m x, Forall valid_op ops1 -> Forall valid_op ops2 ->
  get_ms (run (init bk supply P vault MP t0 sw sd) ops1) m = Some x ->
  exists x', get_ms (run (init bk supply P vault MP t0 sw sd) (ops1 ++ ops2)) m = Some x' /\
    k_uid (ms_mkt x') = k_uid (ms_mkt x) /\ k_creator (ms_mkt x') = k_creator (ms_mkt x) /\ k_odds (ms_mkt x') = k_odds (ms_mkt x) /\
    bk_status (ms_book x) <= bk_status (ms_book x').
Proof. exact market_identity_is_fixed. Qed.
Print Assumptions C07_identity.

Theorem C07_no_update_after_resolution : forall s tk uid st en status x,
  get_ms s uid = Some x -> resolved (ms_mkt x) = true -> market_update s tk uid st en status = None.
Proof. exact resolved_rejects_update. Qed.
Theorem C07_no_second_resolution : forall s tk uid rts ws status x,
  get_ms s uid = Some x -> resolved (ms_mkt x) = true -> market_resolve s tk uid rts ws status = None.
Proof. exact resolved_rejects_resolve. Qed.
Print Assumptions C07_no_second_resolution.

Theorem C07_other_markets_untouched : forall s o m',
  o <> OEnd -> (forall m, op_market o = Some m -> m' <> m) -> get_ms (fst (step s o)) m' = get_ms s m'.
Proof. exact tx_market_frame. Qed.
Print Assumptions C07_other_markets_untouched.

Theorem C07_lifecycle : forall P bk supply vault MP t0 sw sd ops,
  pr_bet_fee P <= pr_bet_min P -> 0 <= pr_bet_fee P ->
  bget bk POOL = 0 -> bget bk HOUSEFEE = 0 -> bget bk BETFEE = 0 -> Forall valid_op ops ->
  forall m x, get_ms (run (init bk supply P vault MP t0 sw sd) ops) m = Some x ->
  2 <= zlen (k_odds (ms_mkt x)) /\ zdistinct (k_odds (ms_mkt x)) = true /\
  (status_AI (k_status (ms_mkt x)) \/ status_res (k_status (ms_mkt x))) /\
  (k_status (ms_mkt x) = MK_DECLARED -> exists w, k_winners (ms_mkt x) = (w :: nil) /\ In w (k_odds (ms_mkt x))) /\
  (status_AI (k_status (ms_mkt x)) -> forall b, In b (ms_bets x) -> b_status b <> BS_SETTLED) /\
  (forall b, In b (ms_bets x) -> b_status b = BS_SETTLED ->
     status_res (k_status (ms_mkt x)) /\ b_result b = result_of (ms_mkt x) b).
Proof. exact lifecycle_over_histories. Qed.
Print Assumptions C07_lifecycle.

From Sge Require Import Model.Orderbook Gen.kernels Proofs.GenMarket.
(* the status tests of the life cycle in the model ARE the Go methods of x/market/types/market.go, and the guard of a resolution
   (result declared => not before the start, every winner is one of the market's outcomes) IS ticket.go ValidateWinnerOdds with its
   nested loops; Market.HasOdds IS the membership test used when a wager names an outcome (generated on every run) *)
Theorem C07_kernels_generated : forall mk,
  K_Market_IsUpdateAllowed (gm_of mk) = status_ai (k_status mk) /\
  K_Market_IsResolveAllowed (gm_of mk) = status_ai (k_status mk) /\
  K_Market_IsResolved (gm_of mk) = status_resolved (k_status mk) /\
  (forall o, K_Market_HasOdds (gm_of mk) o = zmem o (k_odds mk)) /\
  (forall uid rts winners status,
     K_MarketResolutionTicketPayload_ValidateWinnerOdds
       {| G_MarketResolutionTicketPayload_UID := uid; G_MarketResolutionTicketPayload_ResolutionTS := rts;
          G_MarketResolutionTicketPayload_WinnerOddsUIDs := winners; G_MarketResolutionTicketPayload_Status := status |} (gm_of mk)
     = negb ((status =? MK_DECLARED) && ((rts <? k_start mk) || negb (forallb (fun w => zmem w (k_odds mk)) winners)))).
Proof.
  intros. split; [reflexivity|]. split; [reflexivity|]. split; [apply gen_market_resolved|].
  split; [intros; apply gen_HasOdds|intros; apply gen_ValidateWinnerOdds].
Qed.
Print Assumptions C07_kernels_generated.

(* the payload guards of a market update and of a resolution in the model ARE MarketUpdateTicketPayload.Validate (with validateMarketTS under
   the block time) and MarketResolutionTicketPayload.Validate (status one of canceled / aborted / declared, at most and at least one winner
   exactly when declared, resolution time set, well-formed identifiers), generated from x/market/types/ticket.go on every run *)
Theorem C07_ticket_guards_generated : forall uid st en rts winners status now,
  K_MarketUpdateTicketPayload_Validate {| G_MarketUpdateTicketPayload_UID := uid; G_MarketUpdateTicketPayload_StartTS := st;
      G_MarketUpdateTicketPayload_EndTS := en; G_MarketUpdateTicketPayload_Status := status |} now
  = status_ai status && market_ts_ok now st en /\
  K_MarketResolutionTicketPayload_Validate
    {| G_MarketResolutionTicketPayload_UID := uid; G_MarketResolutionTicketPayload_ResolutionTS := rts;
       G_MarketResolutionTicketPayload_WinnerOddsUIDs := winners; G_MarketResolutionTicketPayload_Status := status |}
  = status_resolved status && negb ((status =? MK_DECLARED) && (1 <? zlen winners)) && negb (negb (status =? MK_DECLARED) && (0 <? zlen winners))
    && negb (rts =? 0) && negb (uid <? 0) && negb ((status =? MK_DECLARED) && (zlen winners <? 1)) && forallb (fun o => 0 <=? o) winners.
Proof. intros. split; [apply gen_update_Validate|apply gen_resolution_Validate]. Qed.
Print Assumptions C07_ticket_guards_generated.

(* the two handlers that move a market through its life cycle are generated from the source (msg_server_market.go Update,
   msg_server_market_resolve.go Resolve with keeper Resolve) as functions on the state they reach (ticket verdict and payload, the market
   stored under the payload's uid, the queue of resolved markets, the block time): the model's market_update / market_resolve accept exactly
   when the generated handlers do, and what the generated handlers store is the model's new market record and queue *)
Theorem C07_handlers_generated :
  (forall tok uid st en status rp found mk q now,
     K_mkt_msgUpdate (mkt_state tok (upd_payload uid st en status) rp found mk q now) =
     if negb tok then None else if negb found then None
     else if negb (status_ai (k_status mk)) then None
     else if negb (status_ai status) then None
     else if negb (market_ts_ok now st en) then None
     else Some (mkt_state tok (upd_payload uid st en status) rp true (market_with mk st en status (k_winners mk) (k_rts mk)) q now)) /\
  (forall tok up uid rts winners status found mk q now,
     K_mkt_msgResolve (mkt_state tok up (res_payload uid rts winners status) found mk q now) =
     if negb tok then None
     else if negb (status_resolved status && negb ((status =? MK_DECLARED) && (1 <? zlen winners)) && negb (negb (status =? MK_DECLARED) && (0 <? zlen winners))
                   && negb (rts =? 0) && negb (uid <? 0) && negb ((status =? MK_DECLARED) && (zlen winners <? 1)) && forallb (fun o => 0 <=? o) winners) then None
     else if negb found then None
     else if negb (status_ai (k_status mk)) then None
     else if (status =? MK_DECLARED) && ((rts <? k_start mk) || negb (forallb (fun w => zmem w (k_odds mk)) winners)) then None
     else Some (mkt_state tok up (res_payload uid rts winners status) true
                  (market_with mk (k_start mk) (k_end mk) status (if status =? MK_DECLARED then winners else k_winners mk) rts) (q ++ (k_uid mk :: nil)) now)) /\
  (forall s tk uid st en status rp x, get_ms s uid = Some x ->
     (market_update s tk uid st en status = None <->
      K_mkt_msgUpdate (mkt_state (ticket_ok s tk) (upd_payload uid st en status) rp true (ms_mkt x) (c_mqueue s) (c_now s)) = None)) /\
  (forall s tk uid rts winners status up x, get_ms s uid = Some x ->
     (market_resolve s tk uid rts winners status = None <->
      K_mkt_msgResolve (mkt_state (ticket_ok s tk) up (res_payload uid rts winners status) true (ms_mkt x) (c_mqueue s) (c_now s)) = None)).
Proof.
  split; [exact gen_msgUpdate|]. split; [exact gen_msgResolve|]. split.
  - intros s tk uid st en status rp x E. rewrite (model_market_update s tk uid st en status rp), E.
    destruct (K_mkt_msgUpdate _); split; intros H; try reflexivity; discriminate.
  - intros s tk uid rts winners status up x E. rewrite (model_market_resolve s tk uid rts winners status up), E.
    destruct (K_mkt_msgResolve _); split; intros H; try reflexivity; discriminate.
Qed.
Print Assumptions C07_handlers_generated.

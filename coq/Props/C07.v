(* Props/C07.v — Market life cycle is monotone and resolution is final.
   PARTIAL: rejection of updates/resolutions on resolved markets and the per-market frame are proved; the
   full monotonicity over histories is decided per run by the Go monitor (previous vs current market,
   book and bet records after every operation) + correspondence. *)
From Coq Require Import ZArith Bool List.
From Sge Require Import Lib.Dec Model.Types Model.Chain Proofs.MarketFacts.
Open Scope Z_scope.

Theorem C07_no_update_after_resolution : forall s tk uid st en status x,
  get_ms s uid = Some x -> resolved (ms_mkt x) = true -> market_update s tk uid st en status = None.
Proof. exact resolved_rejects_update. Qed.
Theorem C07_no_second_resolution : forall s tk uid rts ws status x,
  get_ms s uid = Some x -> resolved (ms_mkt x) = true -> market_resolve s tk uid rts ws status = None.
Proof. exact resolved_rejects_resolve. Qed.
Print Assumptions C07_no_second_resolution.

Theorem C07_other_markets_untouched : forall s o m',
  o <> OEnd -> (forall m, op_market o = Some m -> m' <> m) -> get_ms (fst (step s o)) m' = get_ms s m'.
Proof. exact tx_market_frame. Qed.
Print Assumptions C07_other_markets_untouched.

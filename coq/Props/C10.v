(* Props/C10.v — The bet records and the order-book records always tell the same story.
   The index-equality invariant is proved through the whole wager loop, deposits and withdrawals; the
   totals-vs-parts equations over histories are decided per run by the Go monitor + correspondence
   (they were FALSE before the fix of D4: corpus/C10/d4_duplicate_queue_entry.txt must now pass). *)
From Coq Require Import ZArith Bool List.
From Sge Require Import Lib.Dec Model.Types Model.Orderbook Proofs.BookFacts.
Open Scope Z_scope.

Theorem C10_index_new : forall odds, ix_eq (new_book odds).
Proof. exact ix_new. Qed.
Theorem C10_index_wager : forall b A betamt profit bettor fee b' parts effs,
  process_wager b A betamt profit bettor fee = Some (b', parts, effs) -> ix_eq b -> ix_eq b'.
Proof. exact process_wager_ix. Qed.
Theorem C10_index_deposit : forall b mx owner amount fee b' idx effs,
  init_participation b mx owner amount fee = Some (b', idx, effs) -> ix_eq b -> ix_eq b'.
Proof. exact init_participation_ix. Qed.
Theorem C10_index_withdraw : forall b idx amt b' effs,
  withdraw_participation b idx amt = Some (b', effs) -> ix_eq b -> ix_eq b'.
Proof. exact withdraw_participation_ix. Qed.
Print Assumptions C10_index_wager.

(* Props/C10.v — The bet records and the order-book records always tell the same story.
   The index-equality invariant is proved through the whole wager loop, deposits and withdrawals; the
   totals-vs-parts equations over histories are decided per run by the Go monitor + correspondence
   (they were FALSE before the fix of D4: corpus/C10/d4_duplicate_queue_entry.txt must now pass). *)
From Coq Require Import ZArith Bool List.
From Sge Require Import Lib.Dec Model.Types Model.Orderbook Model.Mint Model.Chain Proofs.BookFacts Proofs.Custody Proofs.BookAPI Proofs.BookInv Proofs.BookHist Proofs.BookCover Proofs.CoverHist.
Import ListNotations.
Open Scope Z_scope.

Theorem C10_index_new : forall odds, ix_eq (new_book odds).
Proof. exact ix_new. Qed.
Theorem C10_index_wager : forall b A betamt profit bettor fee b' parts effs,
  process_wager b A betamt profit bettor fee = Some (b', parts, effs) -> ix_eq b -> ix_eq b'.
Proof. exact process_wager_ix. Qed.
Theorem C10_index_deposit : forall b mx owner amount fee b' idx effs,
  init_participation b mx owner amount fee = Some (b', idx, effs) -> ix_eq b -> ix_eq b'.
Proof. exact init_participation_ix. Qed.
Theorem C10_index_withdraw : forall b idx amt b' effs,
  withdraw_participation b idx amt = Some (b', effs) -> ix_eq b -> ix_eq b'.
Proof. exact withdraw_participation_ix. Qed.
Print Assumptions C10_index_wager.

(* Over ALL histories of the model (Proofs/BookInv.v, BookHist.v, through the fulfilment loop with its in-memory copies, re-queues
   and secondary fulfilments): in every reachable state and for every market the number of participations equals the book's
   counter, their indexes are distinct and lie in 1..counter, the two exposure indexes hold the same entries, exposure keys
   (outcome, participation) are unique, every current and every archived exposure belongs to an existing participation (and
   to an outcome of the market), and every fulfilment queue is a duplicate-free list of existing participations whose exposure on
   that outcome is not yet fulfilled - so no participation is ever visited twice by one wager (the root of D4).
   Hypotheses: signers are user accounts and the validated constraint bet fee <= minimum bet amount. *)
Theorem C10_book_structure : forall P bk supply vault MP t0 sw sd ops,
  pr_bet_fee P <= pr_bet_min P ->
  bget bk POOL = 0 -> bget bk HOUSEFEE = 0 -> bget bk BETFEE = 0 -> Forall valid_op ops ->
  forall m x, get_ms (run (init bk supply P vault MP t0 sw sd) ops) m = Some x ->
  let b := ms_book x in
  bk_partcnt b = zlen (bk_parts b) /\ NoDup (map p_idx (bk_parts b)) /\ (forall p, In p (bk_parts b) -> 1 <= p_idx p <= bk_partcnt b) /\
  bk_expo_ix b = bk_expo b /\ NoDup (map ekey (bk_expo b)) /\
  (forall e, In e (bk_expo b) -> In (e_odds e) (k_odds (ms_mkt x)) /\ exists p, get_part b (e_part e) = Some p) /\
  (forall h, In h (bk_hist b) -> exists p, get_part b (e_part h) = Some p) /\
  (forall o q, get_queue b o = Some q ->
     NoDup q /\ forall i, In i q -> exists p e, get_part b i = Some p /\ ge b o i = Some e /\ e_ful e = false).
Proof. exact book_structure_over_histories. Qed.
Print Assumptions C10_book_structure.

(* the transition-level statement: each of the eight local transitions of a market keeps its book well formed *)
Theorem C10_book_step : forall P x x', pr_bet_fee P <= pr_bet_min P -> mwf x -> Local.mtrans P x x' -> mwf x'.
Proof. exact mwf_step. Qed.
Print Assumptions C10_book_step.

(* Over ALL histories: for every participation the total stake the book reports, and per outcome the winnings promised and the
   stakes received summed over all rounds (current exposure + archive), equal the sums over the backing parts recorded in the bets;
   every bet is on an outcome of its market and every backing part names an existing participation of that market and its owner *)
Theorem C10_totals : forall P bk supply vault MP t0 sw sd ops,
  pr_bet_fee P <= pr_bet_min P ->
  bget bk POOL = 0 -> bget bk HOUSEFEE = 0 -> bget bk BETFEE = 0 -> Forall valid_op ops ->
  forall m x, get_ms (run (init bk supply P vault MP t0 sw sd) ops) m = Some x ->
  (forall p, In p (bk_parts (ms_book x)) ->
     p_tba p = stake_i (p_idx p) (bets_of x) /\
     forall o, In o (k_odds (ms_mkt x)) ->
       eexp (ms_book x) (p_idx p) o + hexp (hist_i (ms_book x) (p_idx p)) o = pay_io (p_idx p) o (bets_of x) /\
       ebet (ms_book x) (p_idx p) o + hbet (hist_i (ms_book x) (p_idx p)) o = stake_io (p_idx p) o (bets_of x)) /\
  (forall bt f, In bt (ms_bets x) -> In f (b_parts bt) ->
     In (b_odds bt) (k_odds (ms_mkt x)) /\ exists p, get_part (ms_book x) (f_idx f) = Some p /\ p_owner p = f_owner f).
Proof. exact totals_over_histories. Qed.
Print Assumptions C10_totals.

(* Props/C13.v — Token supply follows the configured inflation phases and nothing else.
   Statements only; each is closed by `exact` of a lemma proved in Proofs/. *)
From Coq Require Import ZArith Bool List.
From Sge Require Import Lib.Dec Model.Types Model.Mint Model.Chain Proofs.MintSum Proofs.Supply.
Import ListNotations.
Open Scope Z_scope.

(* In every block the supply grows by exactly the amount minted at the start of that block, all of
   which is credited to the fee collector and to no other account. *)
Theorem C13_block : forall s t s',
  begin_block_op s t = (s', Ok) ->
  exists m minted, begin_block (c_mparams s) (c_minter s) (c_supply s) (c_height s + 1) = BBok m minted /\
    c_supply s' = c_supply s + minted /\ c_minter s' = m /\
    bget (c_bank s') FEECOLL = bget (c_bank s) FEECOLL + minted /\
    (forall k, k <> FEECOLL -> bget (c_bank s') k = bget (c_bank s) k) /\
    bsum (c_bank s') = bsum (c_bank s) + minted.
Proof. exact begin_block_supply. Qed.
Print Assumptions C13_block.

(* No betting, house, market, authz or bank-send operation (nor an EndBlock with its settlements)
   creates or destroys tokens, or touches the minter. *)
Theorem C13_neutral : forall s o, (forall t, o <> OBegin t) ->
  c_supply (fst (step s o)) = c_supply s /\ c_minter (fst (step s o)) = c_minter s /\
  c_mparams (fst (step s o)) = c_mparams s /\ bsum (c_bank (fst (step s o))) = bsum (c_bank s).
Proof. exact step_neutral. Qed.
Print Assumptions C13_neutral.

(* Over every finite history the sum of all balances equals the tracked total supply. *)
Theorem C13_conservation : forall ops s, bsum (c_bank s) = c_supply s -> bsum (c_bank (run s ops)) = c_supply (run s ops).
Proof. exact run_supply_inv. Qed.
Print Assumptions C13_conservation.

(* Within a phase of B >= 1 blocks with provisions Pv >= 0 and incoming carried fraction in [0,1):
   the B minted amounts add up to floor((B*q + carry)/1), q the per-block quota, and the total
   differs from Pv by less than one token plus B*10^-18 (all Dec values scaled by 10^18). *)
Theorem C13_phase_sum : forall P m step B,
  0 <= m_prov m -> 0 <= m_trunc m < PREC -> 1 <= step <= Z.of_nat (length (phases P)) ->
  phase_blocks_dec P (step_phase P step) = dec_of_int B -> 0 < B ->
  let q := dec_quo (m_prov m) (dec_of_int B) in
  exists m',
    mint_run (Z.to_nat B) P m step = Some ((B * q + m_trunc m) / PREC, m') /\
    2 * PREC * Z.abs (B * q - m_prov m) <= B * PREC + 2 * B /\
    Z.abs (((B * q + m_trunc m) / PREC) * PREC - m_prov m) < PREC + B.
Proof. exact phase_sum. Qed.
Print Assumptions C13_phase_sum.

(* After the last phase nothing is minted. *)
Theorem C13_end : forall P m supply h,
  mparams_valid P = true -> 1 < h -> total_blocks_dec P < dec_of_int h ->
  exists m', begin_block P m supply h = BBok m' 0 /\ m_infl m' = 0.
Proof. exact end_phase_mints_nothing. Qed.
Print Assumptions C13_end.

(* non-vacuity: a concrete phase satisfying the hypotheses of C13_phase_sum *)
Example C13_phase_sum_witness :
  let P := {| bpy := 10; excl := 0; phases := [{| ph_infl := PREC / 10; ph_coef := PREC / 2 |}] |} in
  let m := {| m_infl := PREC / 10; m_step := 1; m_prov := 1234567 * PREC + 89; m_trunc := 0 |} in
  phase_blocks_dec P (step_phase P 1) = dec_of_int 5 /\
  mint_run 5 P m 1 = Some (1234567, {| m_infl := PREC / 10; m_step := 1; m_prov := 1234567 * PREC + 89; m_trunc := 90 |}).
Proof. vm_compute. split; reflexivity. Qed.

From Sge Require Import Gen.kernels Proofs.GenMintK.
(* the provision of a phase in the model IS Minter.NextPhaseProvisions, generated from x/mint/types/minter.go on every run *)
Theorem C13_kernels_generated : forall infl step prov trunc supply exclude ph,
  K_Minter_NextPhaseProvisions {| G_Minter_Inflation := infl; G_Minter_PhaseStep := step; G_Minter_PhaseProvisions := prov; G_Minter_TruncatedTokens := trunc |}
    supply exclude {| G_Phase_Inflation := ph_infl ph; G_Phase_YearCoefficient := ph_coef ph |} =
  next_phase_provisions infl supply exclude ph.
Proof. exact gen_NextPhaseProvisions. Qed.
Print Assumptions C13_kernels_generated.

From Sge Require Import Proofs.GenMint.
(* which phase a block belongs to, how many blocks a phase has and what one block is paid in the model ARE Minter.CurrentPhase (the counted
   loop with break over the cumulative truncated phase lengths), Params.getPhaseBlocks / GetPhaseAtStep and Minter.BlockProvisions, generated
   from x/mint/types on every run.  Guards: the steps the code passes (-1, 0, 1..); BlockProvisions wherever the model does not panic. *)
Theorem C13_phase_kernels_generated : forall P m,
  (forall blk, K_Minter_CurrentPhase (gminter_of m) (gparams_of P) blk = (gph_of (fst (current_phase P blk)), snd (current_phase P blk))) /\
  (forall step, -1 <= step -> K_Params_GetPhaseAtStep (gparams_of P) step = gph_of (phase_at_step P step)) /\
  (forall step, 1 <= step <= Z.of_nat (length (phases P)) ->
     K_Params_getPhaseBlocks (gparams_of P) step = phase_blocks_dec P (nth_default end_phase (phases P) (Z.to_nat (step - 1)))) /\
  (forall step amt tr, block_provisions P m step = Some (amt, tr) -> K_Minter_BlockProvisions (gminter_of m) (gparams_of P) step = (amt, tr)) /\
  (forall ph, K__IsEndPhase (gph_of ph) = is_end_phase ph).
Proof.
  intros P m. split; [intros; apply gen_CurrentPhase|]. split; [intros; apply gen_GetPhaseAtStep; assumption|].
  split; [intros; apply gen_getPhaseBlocks; assumption|]. split; [intros; apply gen_BlockProvisions; assumption|intros; apply gen_IsEndPhase].
Qed.
Print Assumptions C13_phase_kernels_generated.

(* the whole per-block transition of the mint module: x/mint/abci.go BeginBlocker is generated as a function on the state it reaches
   through its keeper (minter, params, token supply, block height; MintCoins adds to the supply) and computes, wherever the model's
   begin_block does not panic, the model's minter and minted amount: the theorems above about begin_block are theorems about this code *)
Theorem C13_begin_block_generated : forall P m supply h m' minted, begin_block P m supply h = BBok m' minted ->
  K_mint_BeginBlocker (mint_state P m supply 0 h) = mint_state P m' (supply + minted) minted h.
Proof. exact gen_BeginBlocker. Qed.
Print Assumptions C13_begin_block_generated.

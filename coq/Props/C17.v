(* Props/C17.v — Parameters accepted by validation keep the chain live and the ledgers sound.
   Proved for the mint module: under every parameter set accepted by Params.Validate (as transcribed in
   mparams_valid, kernel-checked against the real Validate on every run) BeginBlock never aborts, mints a
   non-negative amount and keeps the minter well formed, at every height and for every supply.
   For bet/house/orderbook/subaccount parameters the arithmetic guards are decided per run: boundary
   parameter sets at genesis + histories + panic/ledger monitors (profile params). *)
From Coq Require Import ZArith Bool List.
From Sge Require Import Lib.Dec Model.Mint Proofs.MintLive Proofs.MintSum.
Import ListNotations.
Open Scope Z_scope.

Theorem C17_mint_live : forall P m supply h,
  mparams_valid P = true -> minter_ok m -> 1 <= h ->
  exists m' minted, begin_block P m supply h = BBok m' minted /\ minter_ok m' /\ 0 <= minted.
Proof. exact begin_block_live. Qed.
Print Assumptions C17_mint_live.

(* the initial minter is well formed, so by induction every block of every chain started from genesis is live *)
Theorem C17_mint_genesis : minter_ok {| m_infl := 0; m_step := 0; m_prov := 0; m_trunc := 0 |}.
Proof. unfold minter_ok, PREC. cbn. repeat split; try discriminate; reflexivity. Qed.
Print Assumptions C17_mint_genesis.

(* non-vacuity: the default parameters of the chain are accepted *)
Example C17_default_params_valid :
  mparams_valid {| bpy := 6311520; excl := 0;
                   phases := [{| ph_infl := 229787234042553191; ph_coef := PREC / 2 |};
                              {| ph_infl := 286259541984732824; ph_coef := PREC / 2 |}] |} = true.
Proof. vm_compute. reflexivity. Qed.

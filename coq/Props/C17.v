(* Props/C17.v — Parameters accepted by validation keep the chain live and the ledgers sound.
   Proved for the mint module: under every parameter set accepted by Params.Validate (as transcribed in
   mparams_valid, kernel-checked against the real Validate on every run) BeginBlock never aborts, mints a
   non-negative amount and keeps the minter well formed, at every height and for every supply.
   Over ALL histories (C17_no_abort, Proofs/NoAbort.v): for every mint parameter set accepted by Params.Validate, every bet fee in
   [0, minimum amount] (what validateConstraints accepts since fix f805ade), every house participation fee for which a deposit's two
   payments succeed, every batch size, every withdrawal limit and every participation limit, block processing never aborts; the
   ledgers of C01, C02, C03, C10, C11 are proved under the same (or weaker) parameter hypotheses in their own files.
   Per run: boundary parameter sets at genesis + histories + panic/ledger monitors (profile params). *)
From Coq Require Import ZArith Bool List.
From Sge Require Import Lib.Dec Model.Types Model.Mint Model.Chain Proofs.MintLive Proofs.MintSum Proofs.SubHist Proofs.NoAbort.
Import ListNotations.
Open Scope Z_scope.

Theorem C17_mint_live : forall P m supply h,
  mparams_valid P = true -> minter_ok m -> 1 <= h ->
  exists m' minted, begin_block P m supply h = BBok m' minted /\ minter_ok m' /\ 0 <= minted.
Proof. exact begin_block_live. Qed.
Print Assumptions C17_mint_live.

(* the initial minter is well formed, so by induction every block of every chain started from genesis is live *)
Theorem C17_mint_genesis : minter_ok {| m_infl := 0; m_step := 0; m_prov := 0; m_trunc := 0 |}.
Proof. unfold minter_ok, PREC. cbn. repeat split; try discriminate; reflexivity. Qed.
Print Assumptions C17_mint_genesis.

(* non-vacuity: the default parameters of the chain are accepted *)
Example C17_default_params_valid :
  mparams_valid {| bpy := 6311520; excl := 0;
                   phases := [{| ph_infl := 229787234042553191; ph_coef := PREC / 2 |};
                              {| ph_infl := 286259541984732824; ph_coef := PREC / 2 |}] |} = true.
Proof. vm_compute. reflexivity. Qed.

(* no accepted parameter combination makes block processing abort: the only hypotheses on the parameters are those enforced by the
   modules' validators (bet fee within [0, min amount]; mint parameters valid); nothing is assumed about the batch sizes, the house
   fee, the minimum deposit, the withdrawal and participation limits or the order-book threshold *)
Theorem C17_no_abort : forall P bk supply vault MP t0 sw sd,
  pr_bet_fee P <= pr_bet_min P -> 0 <= pr_bet_fee P ->
  bget bk POOL = 0 -> bget bk HOUSEFEE = 0 -> bget bk BETFEE = 0 -> (forall a, SUBBASE <= a -> 0 <= bget bk a) ->
  mparams_valid MP = true ->
  forall ops o, Forall user_op ops -> snd (step (run (init bk supply P vault MP t0 sw sd) ops) o) <> Panic.
Proof. exact no_panic. Qed.
Print Assumptions C17_no_abort.

From Coq Require Import Lia.
From Sge Require Import Gen.kernels Proofs.GenParams Proofs.GenMint.
(* the accepted parameter sets ARE what the Go validators accept: Params.Validate of x/mint (with validateBlocksPerYear, validatePhases,
   validateExcludeAmount, the "every phase lasts a block" loop) and of x/bet (validateBatchSettlementCount, validateMaxBetByUIDQueryCount,
   validateConstraints) are generated from the source on every run and proved equal to the model's predicates *)
Theorem C17_validators_generated : forall MP P qc,
  K_Params_Validate (gparams_of MP) = mparams_valid MP /\
  K_betParams_Validate (gbp_of P qc) =
    ((0 <? pr_bet_batch P) && (0 <? qc) && (1 <? pr_bet_min P) && (0 <=? pr_bet_fee P) && (pr_bet_fee P <? pr_bet_min P)).
Proof. intros. split; [apply gen_mint_Validate|apply gen_bet_Validate]. Qed.
Print Assumptions C17_validators_generated.

(* C17_no_abort with its parameter hypotheses replaced by the verdicts of the generated validators: whatever x/mint's and x/bet's
   Params.Validate accept (and any value whatsoever of the house, order-book and subaccount parameters) never aborts block processing *)
Theorem C17_no_abort_validated : forall P qc bk supply vault MP t0 sw sd,
  K_betParams_Validate (gbp_of P qc) = true -> K_Params_Validate (gparams_of MP) = true ->
  bget bk POOL = 0 -> bget bk HOUSEFEE = 0 -> bget bk BETFEE = 0 -> (forall a, SUBBASE <= a -> 0 <= bget bk a) ->
  forall ops o, Forall user_op ops -> snd (step (run (init bk supply P vault MP t0 sw sd) ops) o) <> Panic.
Proof.
  intros P qc bk supply vault MP t0 sw sd HB HM H1 H2 H3 H4.
  apply bet_Validate_accepts in HB. rewrite gen_mint_Validate in HM.
  apply no_panic; try assumption; lia.
Qed.
Print Assumptions C17_no_abort_validated.

(* every parameter hypothesis used by the theorems of C01-C05, C07, C09, C10 and C17 (fee within the minimum amount, positive batch sizes,
   valid mint parameters) follows from the verdicts of the generated validators of the four modules; the order-book counts are uint64 in Go,
   hence the non-negativity premise *)
Theorem C17_accepted_parameters : forall P qc MP,
  K_betParams_Validate (gbp_of P qc) = true -> K_orderbookParams_Validate (gobp_of P) = true -> K_houseParams_Validate (ghp_of P) = true ->
  K_Params_Validate (gparams_of MP) = true -> 0 <= pr_ob_batch P -> 0 <= pr_ob_maxpart P ->
  pr_bet_fee P <= pr_bet_min P /\ 0 <= pr_bet_fee P /\ 0 < pr_bet_batch P /\ 0 < pr_ob_batch P /\ 0 < pr_ob_maxpart P /\
  1 < pr_h_mindep P /\ 0 <= pr_h_fee P /\ mparams_valid MP = true.
Proof.
  intros P qc MP HB HO HH HM N1 N2. apply bet_Validate_accepts in HB. rewrite gen_mint_Validate in HM.
  rewrite gen_ob_Validate in HO. rewrite gen_house_Validate in HH.
  apply andb_true_iff in HO. destruct HO as [O1 O2]. apply andb_true_iff in HH. destruct HH as [H1 H2].
  apply negb_true_iff, Z.eqb_neq in O1, O2. apply Z.ltb_lt in H1. apply Z.leb_le in H2.
  repeat split; try assumption; lia.
Qed.
Print Assumptions C17_accepted_parameters.

(* non-vacuity: the chain's default bet and mint parameters are accepted by the generated validators *)
Example C17_defaults_accepted :
  K_betParams_Validate {| G_betParams_BatchSettlementCount := 1000; G_betParams_MaxBetByUidQueryCount := 10;
                          G_betParams_Constraints := {| G_Constraints_MinAmount := 1000000; G_Constraints_Fee := 0 |} |} = true /\
  K_Params_Validate (gparams_of {| bpy := 6311520; excl := 0;
                   phases := [{| ph_infl := 229787234042553191; ph_coef := PREC / 2 |};
                              {| ph_infl := 286259541984732824; ph_coef := PREC / 2 |}] |}) = true.
Proof. vm_compute. split; reflexivity. Qed.

(* liveness of minting stated on the generated code alone: under every parameter set the generated Params.Validate accepts, the generated
   BeginBlocker maps a well-formed minter to a well-formed minter and mints a non-negative amount (and this is the run of the model that
   does not panic), at every height and supply *)
Theorem C17_mint_live_generated : forall P m supply h,
  K_Params_Validate (gparams_of P) = true -> minter_ok m -> 1 <= h ->
  exists m' minted, K_mint_BeginBlocker (mint_state P m supply 0 h) = mint_state P m' (supply + minted) minted h /\
                    minter_ok m' /\ 0 <= minted /\ begin_block P m supply h = BBok m' minted.
Proof.
  intros P m supply h HV Hm Hh. rewrite gen_mint_Validate in HV.
  destruct (begin_block_live P m supply h HV Hm Hh) as (m' & minted & E & Hok & Hnn).
  exists m', minted. split; [apply gen_BeginBlocker; exact E|]. split; [exact Hok|]. split; [exact Hnn|exact E].
Qed.
Print Assumptions C17_mint_live_generated.

From Sge Require Import Model.Orderbook Proofs.Custody Proofs.ParamHist.
(* parameter HISTORIES: accepted parameter updates - the subaccount module's two endpoint switches (GSubParams) and the bet module's wager
   fee (GBetFee, refused unless 0 <= fee < minimum amount as validateConstraints demands) - may occur anywhere between user
   operations; the subaccount ledger of C11 (ids and owners distinct, no negative amount, every subaccount address holds at least
   deposited - withdrawn - spent - lost) and the custody equations of C01 hold after every such history.  `gstep` is what the correspondence
   runs execute for the history operation SPRM (x/subaccount UpdateParams under the governance authority) *)
Theorem C17_subaccount_parameter_histories : forall bk supply P vault MP t0 sw sd gs,
  bget bk POOL = 0 -> bget bk HOUSEFEE = 0 -> bget bk BETFEE = 0 ->
  (forall a, SUBBASE <= a -> 0 <= bget bk a) -> Forall guser_op gs ->
  let s := grun (init bk supply P vault MP t0 sw sd) gs in
  (NoDup (map sa_id (c_subs s)) /\ NoDup (map sa_owner (c_subs s)) /\
   forall x, In x (c_subs s) ->
     0 <= sa_dep x /\ 0 <= sa_spent x /\ 0 <= sa_wd x /\ 0 <= sa_lost x /\
     sa_dep x - sa_wd x - sa_spent x - sa_lost x <= bget (c_bank s) (sub_addr x)) /\
  cust s.
Proof. exact ledgers_over_parameter_histories. Qed.
Print Assumptions C17_subaccount_parameter_histories.
(* without parameter changes this is the ordinary run *)
Theorem C17_parameter_histories_extend_runs : forall ops s, grun s (map GUser ops) = run s ops.
Proof. exact grun_user. Qed.
Print Assumptions C17_parameter_histories_extend_runs.

(* Props/C17.v — Parameters accepted by validation keep the chain live and the ledgers sound.
   Proved for the mint module: under every parameter set accepted by Params.Validate (as transcribed in
   mparams_valid, kernel-checked against the real Validate on every run) BeginBlock never aborts, mints a
   non-negative amount and keeps the minter well formed, at every height and for every supply.
   Over ALL histories (C17_no_abort, Proofs/NoAbort.v): for every mint parameter set accepted by Params.Validate, every bet fee in
   [0, minimum amount] (what validateConstraints accepts since fix f805ade), every house participation fee for which a deposit's two
   payments succeed, every batch size, every withdrawal limit and every participation limit, block processing never aborts; the
   ledgers of C01, C02, C03, C10, C11 are proved under the same (or weaker) parameter hypotheses in their own files.
   Per run: boundary parameter sets at genesis + histories + panic/ledger monitors (profile params). *)
From Coq Require Import ZArith Bool List.
From Sge Require Import Lib.Dec Model.Types Model.Mint Model.Chain Proofs.MintLive Proofs.MintSum Proofs.SubHist Proofs.NoAbort.
Import ListNotations.
Open Scope Z_scope.

Theorem C17_mint_live : forall P m supply h,
  mparams_valid P = true -> minter_ok m -> 1 <= h ->
  exists m' minted, begin_block P m supply h = BBok m' minted /\ minter_ok m' /\ 0 <= minted.
Proof. exact begin_block_live. Qed.
Print Assumptions C17_mint_live.

(* the initial minter is well formed, so by induction every block of every chain started from genesis is live *)
Theorem C17_mint_genesis : minter_ok {| m_infl := 0; m_step := 0; m_prov := 0; m_trunc := 0 |}.
Proof. unfold minter_ok, PREC. cbn. repeat split; try discriminate; reflexivity. Qed.
Print Assumptions C17_mint_genesis.

(* non-vacuity: the default parameters of the chain are accepted *)
Example C17_default_params_valid :
  mparams_valid {| bpy := 6311520; excl := 0;
                   phases := [{| ph_infl := 229787234042553191; ph_coef := PREC / 2 |};
                              {| ph_infl := 286259541984732824; ph_coef := PREC / 2 |}] |} = true.
Proof. vm_compute. reflexivity. Qed.

(* no accepted parameter combination makes block processing abort: the only hypotheses on the parameters are those enforced by the
   modules' validators (bet fee within [0, min amount]; mint parameters valid); nothing is assumed about the batch sizes, the house
   fee, the minimum deposit, the withdrawal and participation limits or the order-book threshold *)
Theorem C17_no_abort : forall P bk supply vault MP t0 sw sd,
  pr_bet_fee P <= pr_bet_min P -> 0 <= pr_bet_fee P ->
  bget bk POOL = 0 -> bget bk HOUSEFEE = 0 -> bget bk BETFEE = 0 -> (forall a, SUBBASE <= a -> 0 <= bget bk a) ->
  mparams_valid MP = true ->
  forall ops o, Forall user_op ops -> snd (step (run (init bk supply P vault MP t0 sw sd) ops) o) <> Panic.
Proof. exact no_panic. Qed.
Print Assumptions C17_no_abort.

(* Props/C14.v — Oracle key set changes only by super-majority vote of registered keys.  Statements only. *)
From Coq Require Import ZArith Bool List.
From Sge Require Import Lib.Dec Model.Types Model.Mint Model.Chain Proofs.OvmInv Proofs.OvmHist.
Import ListNotations.
Open Scope Z_scope.

(* over ALL histories from a genesis vault of 4 to 5 distinct valid keys: the vault always holds 4 to 5 distinct valid keys (so ticket
   verification always has a leader), every proposal carries 4 to 5 distinct valid keys with its leader index in range, each key
   has voted at most once on each proposal, and every vote is yes or no *)
Theorem C14_vault_wellformed : forall bk supply P vault MP t0 sw sd ops,
  key_list_ok vault ->
  let s := run (init bk supply P vault MP t0 sw sd) ops in
  4 <= zlen (c_vault s) <= 5 /\ NoDup (c_vault s) /\ Forall (fun k => 0 <= k) (c_vault s) /\ 0 <= leader s /\
  (forall p, In p (c_props s) -> key_list_ok (pp_keys p) /\ 0 <= pp_leader p < zlen (pp_keys p) /\ NoDup (map fst (pp_votes p)) /\
                                 Forall (fun v => snd v = VOTE_YES \/ snd v = VOTE_NO) (pp_votes p)).
Proof. exact vault_over_histories. Qed.
Print Assumptions C14_vault_wellformed.

(* when EndBlock changes the vault, the key set is the approved proposal's with the proposed leader first *)
Theorem C14_leader_first : forall s, ovminv s -> c_halted s = false -> c_vault (fst (step s OEnd)) <> c_vault s ->
  exists p, In p (c_props s) /\ c_vault (fst (step s OEnd)) = set_leader (pp_keys p) (pp_leader p) /\
            leader (fst (step s OEnd)) = nth (Z.to_nat (pp_leader p)) (pp_keys p) (-1).
Proof. exact vault_change_leader. Qed.
Print Assumptions C14_leader_first.

(* the vault changes in no operation other than EndBlock *)
Theorem C14_only_in_endblock : forall s o, o <> OEnd -> c_vault (fst (step s o)) = c_vault s.
Proof. exact vault_fixed_outside_end. Qed.
Print Assumptions C14_only_in_endblock.

(* PARTIAL (what the code guarantees): when EndBlock changes the vault, an active proposal not older
   than 30 minutes had >= MajorityCount(vault size at block start) yes votes among ALL recorded votes,
   and the vault becomes its key list with the proposed leader first.
   The FULL property additionally demands that only votes of keys registered at the moment of decision
   count; that is refuted below (known finding D10). *)
Theorem C14_change_partial : forall s,
  c_halted s = false -> c_vault (fst (step s OEnd)) <> c_vault s ->
  exists p, In p (c_props s) /\ pp_status p = PS_ACTIVE /\ c_now s - pp_start p <= 1800 /\
            majority_count (zlen (c_vault s)) <= yes_votes p /\
            c_vault (fst (step s OEnd)) = set_leader (pp_keys p) (pp_leader p).
Proof. exact vault_change_at_end. Qed.
Print Assumptions C14_change_partial.

(* 0.6667 is the two-thirds super-majority rounded up exactly for the admissible vault sizes 4 and 5 *)
Theorem C14_threshold : forall n, n = 4 \/ n = 5 -> majority_count n = (2 * n + 2) / 3.
Proof. exact majority_two_thirds. Qed.
Print Assumptions C14_threshold.

(* a recorded vote carries a ticket of the voting key (still unexpired), is yes or no, and the key had
   not voted on that active proposal before *)
Theorem C14_vote : forall s tk vi pid v s',
  ovm_vote s tk vi pid v = Some s' ->
  0 <= vi < zlen (c_vault s) /\
  tk_signer tk = nth (Z.to_nat vi) (c_vault s) (-1) /\ c_now s < tk_exp tk /\
  (v = VOTE_YES \/ v = VOTE_NO) /\
  exists p, findb (fun p => (pp_id p =? pid) && (pp_status p =? PS_ACTIVE)) (c_props s) = Some p /\
            existsb (fun x => fst x =? tk_signer tk) (pp_votes p) = false.
Proof. exact ovm_vote_spec. Qed.
Print Assumptions C14_vote.

(* ---- the full statement is FALSE of the faithful model: votes of removed keys are counted ------------ *)
Definition valid_yes (vault : list Z) (p : proposal) : Z :=
  zlen (filter (fun v => (snd v =? VOTE_YES) && zmem (fst v) vault) (pp_votes p)).
Definition no_valid_supermajority (s : chain) : bool :=
  forallb (fun p => negb (pp_status p =? PS_ACTIVE) ||
                    (valid_yes (c_vault s) p <? (2 * zlen (c_vault s) + 2) / 3)) (c_props s).

Definition d10_init : chain := init [(0, 5000000); (1, 5000000); (2, 5000000); (3, 5000000); (4, 5000000); (5, 5000000)] 31000000 {| pr_bet_batch := 3; pr_bet_min := 2; pr_bet_fee := 1; pr_ob_maxpart := 100; pr_ob_batch := 5; pr_ob_thr := 1; pr_h_mindep := 100; pr_h_fee := 500000000000000000; pr_h_maxw := 3 |} [0; 1; 2; 3] {| bpy := 24; excl := 99999999999999; phases := [{| ph_infl := 500000000000000000; ph_coef := 200000000000000000 |}; {| ph_infl := 0; ph_coef := 100000000000000000 |}; {| ph_infl := 500000000000000000; ph_coef := 333333333333333333 |}] |} 1700000000 true false.
Definition d10_ops : list op := [
  OBegin 1700000228;
  OPropose 1 {| tk_signer := 2; tk_exp := 1700000414 |} [4; 3; 8; 2] 2;
  OEnd;
  OBegin 1700000256;
  OVote 5 {| tk_signer := 1; tk_exp := 1700000681 |} 1 1 2;
  OPropose 0 {| tk_signer := 3; tk_exp := 1700000333 |} [7; 1; 0; 3] 3;
  OEnd;
  OBegin 1700000429;
  OVote 3 {| tk_signer := 1; tk_exp := 1700000744 |} 1 2 2;
  OVote 3 {| tk_signer := 3; tk_exp := 1700000641 |} 3 1 2;
  OEnd;
  OBegin 1700000608;
  OVote 2 {| tk_signer := 3; tk_exp := 1700000966 |} 3 2 2;
  OEnd;
  OBegin 1700000906;
  OVote 2 {| tk_signer := 2; tk_exp := 1700001068 |} 2 1 2;
  OEnd;
  OBegin 1700000910;
  OVote 4 {| tk_signer := 4; tk_exp := 1700001118 |} 1 2 2
].

Theorem C14_removed_keys_refuted :
  exists s0 ops, let s := run s0 ops in
    c_halted s = false /\ c_vault (fst (step s OEnd)) <> c_vault s /\ no_valid_supermajority s = true.
Proof.
  exists d10_init, d10_ops. vm_compute. repeat split; try reflexivity. discriminate.
Qed.
Print Assumptions C14_removed_keys_refuted.

From Sge Require Import Gen.kernels Proofs.GenOvmK.
(* the threshold, the vote count with its verdict, and the expiry test of the model ARE the Go methods (KeyVault.MajorityCount for every
   vault size up to 1000, PublicKeysChangeProposal.DecideResult with its loop over the recorded votes, PublicKeysChangeProposal.IsExpired):
   generated from x/ovm/types on every run *)
Theorem C14_kernels_generated :
  (forall keys, zlen keys <= 1000 -> K_KeyVault_MajorityCount (kv_of keys) = majority_count (zlen keys)) /\
  (forall p keys, zlen keys <= 1000 -> K_PublicKeysChangeProposal_DecideResult (gprop_of p) (kv_of keys) = decide p (zlen keys)) /\
  (forall p now, K_PublicKeysChangeProposal_IsExpired (gprop_of p) now = (1800 <? now - pp_start p)).
Proof. split; [exact gen_MajorityCount|split; [exact gen_DecideResult|exact gen_IsExpired]]. Qed.
Print Assumptions C14_kernels_generated.

From Sge Require Import Proofs.GenOvm.
(* the end-block decision procedure of x/ovm (finishPubkeysChangeProposals with finishPubkeysChangeProposal, KeyVault.SetLeader,
   utils.PopStrAtIndex, DecideResult, IsExpired), generated from the source as a function on the state it reaches through the keeper,
   computes the model's ovm_finish on every well-formed proposal list: the same proposals stay active, the same key vault is installed.
   The theorems above about the model's end block (vault well-formedness over all histories, the threshold) are statements about this code. *)
Theorem C14_endblock_generated : forall ps fin vault now,
  NoDup (map pp_id ps) -> Forall prop_wf ps -> Forall (fun p => pp_status p = PS_ACTIVE \/ pp_status p = PS_FINISHED) ps -> zlen vault <= 1000 ->
  exists st', K_ovm_finishPubkeysChangeProposals (ovm_state (filter is_active ps) fin vault now) = Some st' /\
              S_ovm_Active st' = map gprop_of (filter is_active (fst (ovm_finish ps now (zlen vault) vault))) /\
              S_ovm_Vault st' = kv_of (snd (ovm_finish ps now (zlen vault) vault)) /\ S_ovm_Now st' = now.
Proof. exact gen_ovm_endblock. Qed.
Print Assumptions C14_endblock_generated.

(* finding D10 exhibited on the generated code itself (not only on the model): votes of keys removed by an earlier approval of the same
   end block still count *)
Theorem C14_removed_keys_on_generated_code :
  let votes := [(0, 2); (1, 2); (2, 2)] in
  let p1 := {| pp_id := 1; pp_creator := 0; pp_keys := [4; 5; 6; 7]; pp_leader := 0; pp_start := 100; pp_votes := votes; pp_status := PS_ACTIVE; pp_result := 0; pp_finish := 0 |} in
  let p2 := {| pp_id := 2; pp_creator := 0; pp_keys := [8; 9; 10; 11]; pp_leader := 0; pp_start := 100; pp_votes := votes; pp_status := PS_ACTIVE; pp_result := 0; pp_finish := 0 |} in
  option_map (fun st => (G_KeyVault_PublicKeys (S_ovm_Vault st), map G_PublicKeysChangeProposal_Result (S_ovm_Finished st)))
             (K_ovm_finishPubkeysChangeProposals (ovm_state [p1; p2] [] [0; 1; 2; 3] 200)) = Some ([8; 9; 10; 11], [1; 1]).
Proof. exact d10_on_generated_code. Qed.
Print Assumptions C14_removed_keys_on_generated_code.

(* the vote handler, msg_server_vote.go VotePubkeysChange (with ProposalVotePayload.Validate and NewVote), generated over the state it reaches
   (does the ticket verify and under which key, the payload it carries, the key vault, the active proposals): voter index inside the vault,
   ticket signed by exactly the key at that index, vote yes or no, an active proposal with that id, no earlier vote of the same key, and
   then exactly that vote appended to exactly that proposal — the clauses of the model's ovm_vote, read on the active proposals *)
Theorem C14_vote_generated : forall tok tkey pid vote vault act creator ticket idx, 0 <= idx ->
  K_vote_msgVotePubkeysChange (vote_state tok tkey pid vote vault act) (vmsg creator ticket idx) =
  if zlen vault <=? idx then None else
  let key := nth (Z.to_nat idx) vault (-1) in
  if negb (tok && (tkey =? key)) then None
  else if negb ((vote =? VOTE_YES) || (vote =? VOTE_NO)) then None
  else match find (fun p => pp_id p =? pid) act with
       | None => None
       | Some p => if existsb (fun v => fst v =? key) (pp_votes p) then None
                   else Some (vote_state tok tkey pid vote vault (upd (fun q => pp_id q =? pid) (with_vote p key vote) act))
       end.
Proof. exact gen_vote. Qed.
Print Assumptions C14_vote_generated.

(* Props/C12.v — "The reward-pool balance always equals the sum over campaigns of funded minus spent minus
   withdrawn amounts, and no campaign's available amount is ever negative.  A reward is granted at most once
   per reward id, only from an active campaign inside its time window with enough available funds, only to
   the receiver named on the ticket, for exactly the amounts the campaign defines, and never beyond the
   per-account and per-category caps; only the promoter (or its grantee) can update the campaign or withdraw,
   and only up to what is available."
   Statements only, over ALL histories of the reward machine (Model/Reward.v: rrun = fold_left of rstep);
   each is closed by `exact` of a lemma proved in Proofs/RewardInv.v. *)
From Coq Require Import ZArith Bool List.
From Sge Require Import Lib.Dec Model.Types Model.Reward Proofs.RewardInv.
Import ListNotations.
Open Scope Z_scope.

(* ---- (a) pool conservation --------------------------------------------------------------------------------------
   cinv s = pool_eq s /\ rwf s /\ sguard s, where
     pool_eq s : bget (r_bank s) REWARDPOOL = sum over campaigns of total - withdrawn - spent
     rwf s     : promoters are key holders, subaccount ids are counters (book-keeping well-formedness)
     sguard s  : no STORED campaign has a negative amount or percentage, no recorded bet a negative amount.
   sguard is an invariant, not a hypothesis about campaign-creating operations: CreateCampaignPayload.Validate
   (as repaired in /repo commit f6ab6fd) refuses every negative component (payload_valid_nonneg).  The ONLY hypothesis
   about operations is oguard, which constrains RSYNCBET alone: the bet amount the harness reads from the real bet store
   is not negative (RSYNCBET is a modelled interface, not code of x/reward).
   History: before the repair this statement was false (finding D7; the refuting history is kept below as
   C12_regression_D7 and in corpus/C12/C12-D7-negative-main.txt, where CCREATE is now rejected). *)
Theorem C12_pool : forall ops s, Forall oguard ops -> cinv s -> cinv (rrun s ops).
Proof. exact rrun_pool. Qed.
Print Assumptions C12_pool.

(* from genesis (empty module account), for every history: the pool balance IS the sum of the availables *)
Theorem C12_pool_genesis : forall bk t l ops, bget bk REWARDPOOL = 0 -> Forall oguard ops ->
  bget (r_bank (rrun (rinit bk t l) ops)) REWARDPOOL = camps_sum (r_camps (rrun (rinit bk t l) ops)).
Proof. exact rrun_pool_genesis. Qed.
Print Assumptions C12_pool_genesis.

(* the same fact in the form it had while D7 was open (kept; now equivalent to C12_pool) *)
Theorem C12_pool_partial : forall ops s, Forall oguard ops -> rinv s -> sguard s ->
  rinv (rrun s ops) /\ sguard (rrun s ops).
Proof. exact rrun_pool_partial. Qed.
Print Assumptions C12_pool_partial.

(* validation is what establishes the invariant on stored campaigns *)
Theorem C12_validation_nonneg : forall now st en cat ty at_ ra, payload_valid now st en cat ty at_ ra = true ->
  optnn (rp_main ra) /\ optnn (rp_sub ra) /\ optnn (rp_mainpct ra) /\ optnn (rp_subpct ra).
Proof. exact payload_valid_nonneg. Qed.
Print Assumptions C12_validation_nonneg.

(* genesis satisfies every hypothesis (the module account starts empty) *)
Theorem C12_genesis : forall bk t l, bget bk REWARDPOOL = 0 ->
  rinv (rinit bk t l) /\ sguard (rinit bk t l) /\ avail_nonneg (rinit bk t l).
Proof. exact rinit_inv. Qed.
Print Assumptions C12_genesis.

(* ---- (b) no campaign's available amount is ever negative (no guard needed) ----------------------------------------- *)
Theorem C12_avail_nonneg : forall ops s, rwf s -> avail_nonneg s -> avail_nonneg (rrun s ops).
Proof. exact rrun_avail_nonneg. Qed.
Print Assumptions C12_avail_nonneg.

(* ---- (c) at most one grant per reward uid ---------------------------------------------------------------------------- *)
Theorem C12_once : forall s sg tk uid camp hk ky rcv src peer bet s',
  rstep s (RGrant sg tk uid camp hk ky rcv src peer bet) = (s', ROk) ->
  find_reward (r_rewards s) uid = None /\
  exists rw, find_reward (r_rewards s') uid = Some rw /\ rw_receiver rw = rcv /\ rw_camp rw = camp /\ rw_creator rw = sg.
Proof. exact grant_once. Qed.
Print Assumptions C12_once.

Theorem C12_once_replay : forall s sg tk uid camp hk ky rcv src peer bet,
  find_reward (r_rewards s) uid <> None ->
  rstep s (RGrant sg tk uid camp hk ky rcv src peer bet) = (s, RErr).
Proof. exact grant_replay_rejected. Qed.
Print Assumptions C12_once_replay.

(* ---- (d) what every successful grant satisfied --------------------------------------------------------------------------
   active campaign, StartTS <= now <= EndTS, valid ticket and KYC for the receiver named on the ticket, the
   recorded receiver is that receiver, the recorded amounts are the campaign's definition (or, for a bet bonus,
   trunc(min(bet, max) * pct) of a won / lost main-market bet of the receiver: recv_spec), main + sub <=
   available, per-account count < campaign cap, per-category count < promoter cap, and the campaign's spent
   amount grows by main + sub. *)
Theorem C12_grant_guard : forall s sg tk uid camp hk ky rcv src peer bet s',
  rstep s (RGrant sg tk uid camp hk ky rcv src peer bet) = (s', ROk) ->
  exists c rw puid p,
    find_camp (r_camps s) camp = Some c /\ cm_active c = true /\ cm_start c <= r_now s <= cm_end c /\
    rticket_ok s tk = true /\ hk = true /\ kyc_ok ky rcv = true /\
    find_reward (r_rewards s') uid = Some rw /\ rw_receiver rw = rcv /\ rw_camp rw = camp /\
    recv_spec s c rcv bet {| rc_main := rcv; rc_subaddr := 0; rc_amt := rw_amt rw |} /\
    ra_main (rw_amt rw) + ra_sub (rw_amt rw) <= cm_total c - cm_withdrawn c - cm_spent c /\
    (0 < cm_cap c -> stat_get (r_stats s) (cm_uid c) rcv < cm_cap c) /\
    prom_of_addr (r_promaddr s) (cm_promoter c) = Some puid /\ find_prom (r_proms s) puid = Some p /\
    (forall cap, In (cm_cat c, cap) (pm_conf p) -> count_bycat (r_bycat s) puid rcv (cm_cat c) < cap) /\
    find_camp (r_camps s') camp =
      Some (camp_pool c (cm_total c) (cm_spent c + (ra_main (rw_amt rw) + ra_sub (rw_amt rw))) (cm_withdrawn c)
                      (cm_active c) (cm_end c)).
Proof. exact grant_guard. Qed.
Print Assumptions C12_grant_guard.

(* ---- (e) only the promoter or a holder of a matching authz grant updates / withdraws; withdrawals are bounded ------- *)
Theorem C12_owner_update : forall s sg tk uid topup en act s',
  rstep s (RUpdateCampaign sg tk uid topup en act) = (s', ROk) ->
  exists c, find_camp (r_camps s) uid = Some c /\ cm_active c = true /\ authorized s sg (cm_promoter c) GK_UPDATE /\
            rticket_ok s tk = true.
Proof. exact update_owner. Qed.
Print Assumptions C12_owner_update.

Theorem C12_owner_withdraw : forall s sg tk uid amount prom s',
  rstep s (RWithdraw sg tk uid amount prom) = (s', ROk) ->
  exists c, find_camp (r_camps s) uid = Some c /\ authorized s sg (cm_promoter c) GK_RWITHDRAW /\ prom = cm_promoter c /\
            0 <= amount <= cm_total c - cm_withdrawn c - cm_spent c /\ rticket_ok s tk = true /\
            bget (r_bank s') prom = bget (r_bank s) prom + amount.
Proof. exact withdraw_owner. Qed.
Print Assumptions C12_owner_withdraw.

(* ---- promoters: one promoter per address (CreatePromoter refuses a creator that already belongs to a promoter,
   /repo commit 6834bf6).  Over every history from genesis: promoter uids are unique, an address has one by-address
   entry, the entry names exactly the promoter whose address list contains the address, and no two promoters share
   an address (so the category caps of a campaign are always counted against the promoter that created it). *)
Theorem C12_promoter_unique : forall bk t l ops, let s := rrun (rinit bk t l) ops in
  NoDup (map pm_uid (r_proms s)) /\ NoDup (map fst (r_promaddr s)) /\
  (forall a u, prom_of_addr (r_promaddr s) a = Some u <-> exists p, In p (r_proms s) /\ pm_uid p = u /\ In a (pm_addrs p)) /\
  (forall p q a, In p (r_proms s) -> In q (r_proms s) -> In a (pm_addrs p) -> In a (pm_addrs q) -> p = q).
Proof. exact promoter_unique. Qed.
Print Assumptions C12_promoter_unique.

(* ---- non-vacuity ------------------------------------------------------------------------------------------------------------ *)
(* C12_pool / C12_pool_genesis / C12_pool_partial / C12_avail_nonneg / C12_genesis: a history from genesis in which a
   campaign is created, a reward granted, the campaign topped up and partly withdrawn, every step succeeding *)
Example C12_pool_witness :
  Forall oguard (good_ops ++ [good_grant; good_update; good_withdraw; REnd]) /\
  bget (r_bank wit_state) REWARDPOOL = 0 /\
  let s := rrun wit_state good_ops in
  let s1 := fst (rstep s good_grant) in let s2 := fst (rstep s1 good_update) in let s3 := fst (rstep s2 good_withdraw) in
  (snd (rstep s good_grant), snd (rstep s1 good_update), snd (rstep s2 good_withdraw)) = (ROk, ROk, ROk) /\
  (bget (r_bank s3) REWARDPOOL, camps_sum (r_camps s3)) = (1185, 1185).
Proof. split; [exact good_ops_guard|]. vm_compute. repeat split; reflexivity. Qed.

(* the RSYNCBET hypothesis is satisfiable and the bet-bonus path is live: 10% + 25% of min(2000, 500) *)
Example C12_bonus_witness :
  Forall oguard (bonus_ops ++ [bonus_grant]) /\
  let s := rrun wit_state bonus_ops in let s1 := fst (rstep s bonus_grant) in
  snd (rstep s bonus_grant) = ROk /\
  (bget (r_bank s1) 1, bget (r_bank s1) 1001, bget (r_bank s1) REWARDPOOL, camps_sum (r_camps s1))
  = (1000050, 125, 99825, 99825).
Proof. split; [exact bonus_ops_guard|]. vm_compute. repeat split; reflexivity. Qed.

(* regression for finding D7: the history that used to leave 990 in the pool against 995 promised now stops at
   validation (CCREATE and the dependent grant are refused) and the invariant holds after it *)
Example C12_regression_D7 :
  map (fun k => snd (rstep (rrun wit_state (firstn k wit_ops)) (nth k wit_ops REnd))) [0%nat; 1%nat; 2%nat; 3%nat; 4%nat]
  = [ROk; ROk; RErr; RErr; ROk] /\
  (bget (r_bank (rrun wit_state wit_ops)) REWARDPOOL, camps_sum (r_camps (rrun wit_state wit_ops))) = (0, 0) /\
  r_camps (rrun wit_state wit_ops) = [].
Proof. vm_compute. repeat split; reflexivity. Qed.

(* C12_once / C12_grant_guard: the hypothesis is satisfiable, and the replayed uid is then refused *)
Example C12_grant_witness :
  let s := rrun wit_state good_ops in
  rstep s good_grant = (fst (rstep s good_grant), ROk) /\ snd (rstep (fst (rstep s good_grant)) good_grant) = RErr /\
  find_reward (r_rewards (fst (rstep s good_grant))) 0 <> None.
Proof. vm_compute. split; [reflexivity|]. split; [reflexivity|discriminate]. Qed.

(* C12_owner_update / C12_owner_withdraw: successful update and withdrawal by the promoter; a stranger is refused *)
Example C12_owner_witness :
  let s := rrun wit_state (good_ops ++ [good_grant]) in
  snd (rstep s good_update) = ROk /\ snd (rstep s good_withdraw) = ROk /\
  snd (rstep s (RWithdraw 1 wit_tk 0 300 0)) = RErr /\ snd (rstep s (RUpdateCampaign 1 wit_tk 0 500 2000 true)) = RErr.
Proof. vm_compute. repeat split; reflexivity. Qed.

(* C12_promoter_unique: two addresses become promoters; a second promoter for address 0 is refused, as is a reused uid *)
Example C12_promoter_witness :
  let s := rrun wit_state [RBegin 101; RCreatePromoter 0 wit_tk 0 []; RCreatePromoter 1 wit_tk 1 [(CAT_SIGNUP, 1)]] in
  (r_promaddr s, map pm_uid (r_proms s)) = ([(0, 0); (1, 1)], [0; 1]) /\
  snd (rstep s (RCreatePromoter 0 wit_tk 2 [])) = RErr /\ snd (rstep s (RCreatePromoter 1 wit_tk 0 [])) = RErr.
Proof. vm_compute. repeat split; reflexivity. Qed.

From Coq Require Import ZArith.
From Sge Require Model.Reward.
From Sge Require Import Gen.kernels Proofs.GenReward.
Open Scope Z_scope.
(* the pool arithmetic of the reward machine IS the Go code: Pool.AvailableAmount / CheckBalance / Spend / TopUp / Withdraw are generated
   from x/reward/types/pool.go on every run and proved equal to the model's expressions *)
Theorem C12_kernels_generated : forall c x,
  K_Pool_AvailableAmount (pool_of c) = Reward.cm_avail c /\
  K_Pool_CheckBalance (pool_of c) x = negb (Reward.cm_avail c <? x) /\
  K_Pool_Spend (pool_of c) x = {| G_Pool_Total := Reward.cm_total c; G_Pool_Spent := Reward.cm_spent c + x; G_Pool_Withdrawn := Reward.cm_withdrawn c |} /\
  K_Pool_TopUp (pool_of c) x = {| G_Pool_Total := Reward.cm_total c + x; G_Pool_Spent := Reward.cm_spent c; G_Pool_Withdrawn := Reward.cm_withdrawn c |} /\
  K_Pool_Withdraw (pool_of c) x = {| G_Pool_Total := Reward.cm_total c; G_Pool_Spent := Reward.cm_spent c; G_Pool_Withdrawn := Reward.cm_withdrawn c + x |}.
Proof. intros. split; [reflexivity|]. split; [apply gen_CheckBalance|]. repeat split. Qed.
Print Assumptions C12_kernels_generated.

(* the time window test of a grant IS Campaign.CheckTS, generated from x/reward/types/campaign.go on every run *)
Theorem C12_window_generated : forall c now,
  K_Campaign_CheckTS c now = negb ((G_Campaign_EndTS c <? now) || (now <? G_Campaign_StartTS c)).
Proof. intros. unfold K_Campaign_CheckTS. destruct (G_Campaign_EndTS c <? now); [reflexivity|]. destruct (now <? G_Campaign_StartTS c); reflexivity. Qed.
Print Assumptions C12_window_generated.

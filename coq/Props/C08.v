(* Props/C08.v — Bets are admitted only under the published rules and indexed exactly once.
   Admission (inversion of a successful wager), sequence numbering and the no-trace law are proved for every state;
   C08_indexes is the index invariant over ALL histories of the model (no hypothesis on the operations): counter =
   number of bets, ids 1..counter pairwise distinct, uid index complete with distinct uids, pending index of a market =
   exactly the ids of its unsettled bets (each once), settled index = exactly (settlement height, id) of the settled
   bets (each once).  The Go monitor evaluates the same on the raw bet store of the real app. *)
From Coq Require Import ZArith Bool List.
From Sge Require Import Lib.Dec Model.Types Model.Orderbook Model.Mint Model.Chain Proofs.Inversion Proofs.BetIndex Witness.C01w.
Import ListNotations.
Open Scope Z_scope.

Theorem C08_admit : forall s sg tk u a sm so ov mu al k ot s',
  bet_wager s sg tk u a sm so ov mu al k ot = Some s' ->
  existsb (fun x => fst x =? u) (c_uid2id s) = false /\
  ticket_ok s tk = true /\ kyc_ok k sg = true /\
  exists x, get_ms s sm = Some x /\
    k_status (ms_mkt x) = MK_ACTIVE /\ c_now s <= k_end (ms_mkt x) /\
    zmem so (k_odds (ms_mkt x)) = true /\
    zlen (k_odds (ms_mkt x)) = zlen (znodup (map fst al)) /\
    forallb (fun o => zmem o (map fst al)) (k_odds (ms_mkt x)) = true /\
    pr_bet_min (c_prm s) <= a /\
    c_betcnt s' = c_betcnt s + 1 /\
    c_uid2id s' = c_uid2id s ++ [(u, c_betcnt s + 1)].
Proof. exact wager_admission. Qed.
Print Assumptions C08_admit.

Theorem C08_fail_clean : forall s o, snd (step s o) = Err -> fst (step s o) = s.
Proof. exact failed_tx_no_trace. Qed.
Print Assumptions C08_fail_clean.

Theorem C08_indexed : forall s sg u a sm so ov mu al s',
  wager_core s sg u a sm so ov mu al = Some s' ->
  exists x x' b,
    get_ms s sm = Some x /\ get_ms s' sm = Some x' /\
    ms_bets x' = ms_bets x ++ [b] /\ ms_pending x' = ms_pending x ++ [b_id b] /\
    b_id b = c_betcnt s + 1 /\ b_uid b = u /\ b_creator b = sg /\ b_status b = BS_PLACED /\
    b_fee b = pr_bet_fee (c_prm s) /\
    b_amount b = zsum (map f_stake (b_parts b)) /\ b_parts b <> [] /\
    apply_effects (c_bank s) (c_subs s)
      [Pay sg BETFEE (b_fee b); Pay sg POOL (b_amount b)] = Some (c_bank s', c_subs s').
Proof. exact wager_core_record. Qed.
Print Assumptions C08_indexed.

Theorem C08_indexes : forall bk supply P vault MP t0 sw sd ops,
  let s := run (init bk supply P vault MP t0 sw sd) ops in
  zlen (all_bets (c_ms s)) = c_betcnt s /\
  (forall b, In b (all_bets (c_ms s)) -> 1 <= b_id b <= c_betcnt s /\ In (b_uid b, b_id b) (c_uid2id s)) /\
  NoDup (map b_id (all_bets (c_ms s))) /\
  zlen (c_uid2id s) = c_betcnt s /\ NoDup (map fst (c_uid2id s)) /\
  (forall m x, get_ms s m = Some x -> ms_pending x = unsettled_ids (ms_bets x) /\ NoDup (ms_pending x)) /\
  NoDup (c_settledix s) /\
  (forall h id, In (h, id) (c_settledix s) <->
     exists b, In b (all_bets (c_ms s)) /\ b_id b = id /\ b_status b = BS_SETTLED /\ b_sheight b = h).
Proof. exact bet_indexes_over_histories. Qed.
Print Assumptions C08_indexes.

Theorem C08_indexes_step : forall s o, binv s -> binv (fst (step s o)).
Proof. exact step_binv. Qed.
Print Assumptions C08_indexes_step.

(* non-vacuity: in the witness history bets exist, some are settled and some still pending *)
Example C08_indexes_witness :
  (3 <=? c_betcnt (run c01w_init c01w_ops)) = true /\
  (1 <=? zlen (c_settledix (run c01w_init c01w_ops))) = true /\
  existsb (fun e => negb (match ms_pending (snd e) with [] => true | _ => false end)) (c_ms (run c01w_init c01w_ops)) = true.
Proof. repeat split; vm_compute; reflexivity. Qed.

From Sge Require Import Gen.kernels Proofs.GenMarket Proofs.GenBet.
(* the market tests of a wager's admission ARE x/bet/keeper getMarket (the market exists, is active, is not past its end time at the block
   time; equality at the end time is still accepted) and Market.HasOdds (the selected outcome is one of the market's), generated from the
   source on every run *)
Theorem C08_market_tests_generated : forall found mk now o,
  K_betmkt_getMarket (betmkt_state found mk now) =
    (if negb found then None else if negb (k_status mk =? MK_ACTIVE) then None else if k_end mk <? now then None else Some (gm_of mk)) /\
  K_Market_HasOdds (gm_of mk) o = zmem o (k_odds mk).
Proof. intros. split; [apply gen_getMarket|apply gen_HasOdds]. Qed.
Print Assumptions C08_market_tests_generated.

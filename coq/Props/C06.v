(* Props/C06.v — Only authentic, unexpired oracle tickets can change state, and only as signed.
   The cryptographic core (EdDSA, JWT parsing) is abstracted: a ticket is (signer key id or -1, exp);
   see DESIGN.md 6/C06.  Statements only. *)
From Coq Require Import ZArith Bool List String.
From Sge Require Import Lib.Dec Model.Types Model.Chain Proofs.Gate Proofs.Tables Gen.handlers.
Import ListNotations.
Open Scope Z_scope.

(* every ticket-bearing operation of every modelled module (market, house, bet, ovm, subaccount):
   if any of its tickets fails the rule that applies to it (leader key; any registered key for a
   proposal; the voter's own key for a vote; exp strictly after the block time) the operation fails
   and the state is unchanged *)
Theorem C06_gate : forall s o t r,
  c_halted s = false -> In (t, r) (op_tickets o) -> rule_ok s t r = false -> step s o = (s, Err).
Proof. exact ticket_gate. Qed.
Print Assumptions C06_gate.

Theorem C06_leader_rule : forall s t,
  ticket_ok s t = true <-> 0 <= tk_signer t /\ tk_signer t = leader s /\ c_now s < tk_exp t.
Proof. exact ticket_ok_spec. Qed.
Print Assumptions C06_leader_rule.

(* the effect depends on the signed payload only: two valid tickets are interchangeable *)
Theorem C06_payload : forall s sg t1 t2 m a k d az,
  ticket_ok s t1 = true -> ticket_ok s t2 = true ->
  deposit_validate s sg t1 m a k d az = deposit_validate s sg t2 m a k d az.
Proof. exact deposit_validate_payload. Qed.
Print Assumptions C06_payload.

(* identity data not marked ignorable must name the approved acting account *)
Theorem C06_kyc_wager : forall s sg tk u a sm so ov mu al k ot s',
  bet_wager s sg tk u a sm so ov mu al k ot = Some s' -> kyc_ok k sg = true.
Proof. exact wager_kyc. Qed.
Theorem C06_kyc_deposit : forall s sg tk m a k d s',
  house_deposit s sg tk m a k d = Some s' -> kyc_ok k (if (0 <=? d) && negb (d =? sg) then d else sg) = true.
Proof. exact deposit_kyc. Qed.
Theorem C06_kyc_withdraw : forall s sg tk m p mo a k d s',
  house_withdraw s sg tk m p mo a k d = Some s' -> kyc_ok k (if 0 <=? d then d else sg) = true.
Proof. exact withdraw_kyc. Qed.
Theorem C06_kyc_rule : forall k a, kyc_ok k a = true <-> ky_ignore k = true \/ (ky_approved k = true /\ ky_id k = a).
Proof. exact kyc_ok_spec. Qed.
Print Assumptions C06_kyc_deposit.

(* source fact, regenerated from /repo on every run: every handler of a ticket-bearing message calls
   ticket verification before its first state write, and every such message type has a handler *)
Theorem C06_order : forallb handler_ok handlers = true.
Proof. exact all_handlers_verify_first. Qed.
Theorem C06_all_served :
  forallb (fun m => Nat.eqb (count_mod m (map fst ticket_msgs)) (count_mod m (map h_module ticketed_handlers))) modules = true.
Proof. exact ticket_msgs_all_served. Qed.
Print Assumptions C06_order.

(* Props/C01.v — Custody accounts hold exactly what the chain owes, per market.  Statements only.
   C01_custody is the property over histories of the model: after ANY sequence of operations from a genesis
   with empty custody accounts, the liquidity pool, the house fee collector and the bet fee collector each
   hold exactly the sum over all markets of what the market's records say is owed (unsettled participations'
   liquidity + realised profit, unsettled bets' amounts; unsettled participations' fees; unsettled bets' fees).
   The per-market frame, the shape of a wager's custody movement and token conservation are separate theorems.
   The model is tied to the code by the correspondence run; the Go monitor evaluates the same equations on the
   real state. *)
From Coq Require Import ZArith Bool List String.
From Sge Require Import Lib.Dec Model.Types Model.Orderbook Model.Mint Model.Chain
     Proofs.MarketFacts Proofs.WagerLoop Proofs.Supply Proofs.Tables Proofs.CustodyLocal Proofs.Custody Proofs.SubHist Proofs.Progress Witness.C01w.
Import ListNotations.
Open Scope Z_scope.

(* the custody equations hold in every state reachable from genesis; the only hypothesis on the operations is that
   their signer arguments are user accounts (module accounts have no keys) *)
Theorem C01_custody : forall bk supply P vault MP t0 sw sd ops,
  bget bk POOL = 0 -> bget bk HOUSEFEE = 0 -> bget bk BETFEE = 0 -> Forall valid_op ops ->
  let s := run (init bk supply P vault MP t0 sw sd) ops in
  bget (c_bank s) POOL = tot owed_pool (c_ms s) /\
  bget (c_bank s) HOUSEFEE = tot owed_hfee (c_ms s) /\
  bget (c_bank s) BETFEE = tot owed_bfee (c_ms s).
Proof. exact custody_over_histories. Qed.
Print Assumptions C01_custody.

(* the invariant that carries it (also: unique participation indexes, active books hold no settled participation,
   realised profit only after a declared result, resolved-unsettled queue entries are distinct resolved markets) *)
Theorem C01_invariant_step : forall s o, inv s -> valid_op o -> inv (fst (step s o)).
Proof. exact step_inv. Qed.
Print Assumptions C01_invariant_step.

(* non-vacuity: a generated history with deposits, wagers, resolutions and settlements meets the hypotheses, and the
   pool balance it ends with is not trivially zero *)
Example C01_custody_witness :
  Forall valid_op c01w_ops /\ cust (run c01w_init c01w_ops) /\
  (0 <? bget (c_bank (run c01w_init c01w_ops)) POOL) = true /\
  (2 <=? zlen (c_ms (run c01w_init c01w_ops))) = true /\
  existsb (fun e => existsb (fun b => b_status b =? BS_SETTLED) (ms_bets (snd e))) (c_ms (run c01w_init c01w_ops)) = true.
Proof.
  assert (Hv : Forall valid_op c01w_ops) by (apply valid_ops_ok; vm_compute; reflexivity).
  split; [exact Hv|]. split; [apply custody_over_histories; try reflexivity; exact Hv|].
  repeat split; vm_compute; reflexivity.
Qed.

(* an action on one market never changes anything recorded for another market *)
Theorem C01_frame : forall s o m',
  o <> OEnd -> (forall m, op_market o = Some m -> m' <> m) -> get_ms (fst (step s o)) m' = get_ms s m'.
Proof. exact tx_market_frame. Qed.
Print Assumptions C01_frame.

(* a wager moves exactly fee -> bet fee collector and Σ stakes of its backing parts -> liquidity pool *)
Theorem C01_wager_flows : forall b A betamt profit bettor fee b' parts effs,
  process_wager b A betamt profit bettor fee = Some (b', parts, effs) ->
  effs = [Pay bettor BETFEE fee; Pay bettor POOL (zsum (map f_stake parts))] /\ parts <> [].
Proof. exact process_wager_effects. Qed.
Print Assumptions C01_wager_flows.

(* no operation other than BeginBlock creates or destroys tokens: custody is funded only by transfers *)
Theorem C01_conservation : forall s o, (forall t, o <> OBegin t) -> bsum (c_bank (fst (step s o))) = bsum (c_bank s).
Proof. intros s o H. exact (proj2 (proj2 (proj2 (step_neutral s o H)))). Qed.
Print Assumptions C01_conservation.

(* source fact: the custody module accounts can neither mint nor burn and are blocked bank recipients *)
Theorem C01_custody_perms :
  forallb (fun a => negb (has_perm "minter"%string a) && negb (has_perm "burner"%string a) && mem_str a Gen.perms.blocked_module_accounts
                    && mem_str a (map fst Gen.perms.macc_perms)) Gen.perms.sge_custody_accounts = true.
Proof. exact custody_accounts_cannot_mint_or_burn. Qed.
Print Assumptions C01_custody_perms.

(* once every market is fully settled (its book marked settled) the three custody accounts are empty; and for one market: a settled book
   means every participation paid, every bet settled, nothing owed on it (C05_book_settled_within says when that is reached) *)
Theorem C01_drained : forall P bk supply vault MP t0 sw sd,
  pr_bet_fee P <= pr_bet_min P -> 0 <= pr_bet_fee P ->
  bget bk POOL = 0 -> bget bk HOUSEFEE = 0 -> bget bk BETFEE = 0 -> (forall a, SUBBASE <= a -> 0 <= bget bk a) ->
  forall ops, Forall user_op ops ->
  (forall m x, get_ms (run (init bk supply P vault MP t0 sw sd) ops) m = Some x -> bk_status (ms_book x) = BK_SETTLED) ->
  bget (c_bank (run (init bk supply P vault MP t0 sw sd) ops)) POOL = 0 /\
  bget (c_bank (run (init bk supply P vault MP t0 sw sd) ops)) HOUSEFEE = 0 /\
  bget (c_bank (run (init bk supply P vault MP t0 sw sd) ops)) BETFEE = 0.
Proof. exact drained. Qed.
Print Assumptions C01_drained.

(* Props/C01.v — Custody accounts hold exactly what the chain owes, per market.  Statements only.
   PARTIAL: the per-market frame, the shape of every wager's custody movement and token conservation are
   proved; the full custody equation (pool = Σ owed) as an invariant over histories is stated in
   DESIGN.md 6/C01 and decided on every run by the Go monitor on the real state + correspondence. *)
From Coq Require Import ZArith Bool List String.
From Sge Require Import Lib.Dec Model.Types Model.Orderbook Model.Mint Model.Chain
     Proofs.MarketFacts Proofs.WagerLoop Proofs.Supply Proofs.Tables.
Import ListNotations.
Open Scope Z_scope.

(* an action on one market never changes anything recorded for another market *)
Theorem C01_frame : forall s o m',
  o <> OEnd -> (forall m, op_market o = Some m -> m' <> m) -> get_ms (fst (step s o)) m' = get_ms s m'.
Proof. exact tx_market_frame. Qed.
Print Assumptions C01_frame.

(* a wager moves exactly fee -> bet fee collector and Σ stakes of its backing parts -> liquidity pool *)
Theorem C01_wager_flows : forall b A betamt profit bettor fee b' parts effs,
  process_wager b A betamt profit bettor fee = Some (b', parts, effs) ->
  effs = [Pay bettor BETFEE fee; Pay bettor POOL (zsum (map f_stake parts))] /\ parts <> [].
Proof. exact process_wager_effects. Qed.
Print Assumptions C01_wager_flows.

(* no operation other than BeginBlock creates or destroys tokens: custody is funded only by transfers *)
Theorem C01_conservation : forall s o, (forall t, o <> OBegin t) -> bsum (c_bank (fst (step s o))) = bsum (c_bank s).
Proof. intros s o H. exact (proj2 (proj2 (proj2 (step_neutral s o H)))). Qed.
Print Assumptions C01_conservation.

(* source fact: the custody module accounts can neither mint nor burn and are blocked bank recipients *)
Theorem C01_custody_perms :
  forallb (fun a => negb (has_perm "minter"%string a) && negb (has_perm "burner"%string a) && mem_str a Gen.perms.blocked_module_accounts
                    && mem_str a (map fst Gen.perms.macc_perms)) Gen.perms.sge_custody_accounts = true.
Proof. exact custody_accounts_cannot_mint_or_burn. Qed.
Print Assumptions C01_custody_perms.

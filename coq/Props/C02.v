(* Props/C02.v — Accepted bets are fully collateralised; house loss is bounded by its deposit.
   PARTIAL: the per-step kernel facts of the max-loss bookkeeping and the withdrawal bound are proved; the
   full coverage invariant over histories (DESIGN.md 6/C02, Appendix B) is decided per run by the Go
   monitor (cover >= 0 for every participation and every outcome that can still win) + correspondence. *)
From Coq Require Import ZArith Bool List.
From Sge Require Import Lib.Dec Model.Types Model.Orderbook Proofs.BookFacts.
Open Scope Z_scope.

(* after every fulfilment the recorded current-round max loss covers the loss on the outcome just backed,
   while liquidity, profit, fee and settlement flag are untouched *)
Theorem C02_maxloss_step : forall p e o stake pay p' e',
  fulfil_records p e o stake pay = (p', e') ->
  e_exp e' = e_exp e + pay /\ e_bet e' = e_bet e + stake /\
  p_tba p' = p_tba p + stake /\ p_crtb p' = p_crtb p + stake /\
  p_liq p' = p_liq p /\ p_crl p' = p_crl p /\ p_profit p' = p_profit p /\ p_fee p' = p_fee p /\
  p_settled p' = p_settled p /\ p_idx p' = p_idx p /\ p_owner p' = p_owner p /\
  e_exp e' + e_bet e' - p_crtb p' <= p_crml p' /\
  (p_crml p - stake <= p_crml p' \/ p_crml_odds p = o).
Proof. exact fulfil_records_maxloss. Qed.
Print Assumptions C02_maxloss_step.

(* a withdrawal never takes liquidity needed to cover the recorded worst case of the round *)
Theorem C02_withdraw_bound : forall b depositor idx mode wtotal amount w,
  calc_withdrawal b depositor idx mode wtotal amount = Some w ->
  exists p, get_part b idx = Some p /\ p_settled p = false /\ p_owner p = depositor /\
            w <= p_crl p - zmax0 (p_crml p) /\
            (exists e r, expos_of_part_ix b idx = e :: r /\ e_round e = 1).
Proof. exact calc_withdrawal_spec. Qed.
Print Assumptions C02_withdraw_bound.

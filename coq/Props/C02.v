(* Props/C02.v — Accepted bets are fully collateralised; house loss is bounded by its deposit.
   C02_coverage is the property over ALL histories of the model: in every reachable state, for every market, every participation p
   and every outcome o of the market, the winnings p has promised on o (summed over the backing parts of all bets on o) minus
   the stakes it has received on the other outcomes never exceed the liquidity p left in the book.  Proved by an invariant
   through every local transition of a market (Proofs/Local.v) and through the whole fulfilment loop (Proofs/BookInv.v,
   BookCover.v, CoverHist.v): max-loss bookkeeping (setMaxLoss), available-liquidity bound, round refresh with trimming, archive.
   It needed the repair of D3 (stakes are non-negative).  Hypotheses: signers are user accounts, a market has fewer than 2^64
   outcomes, and the validated constraint bet fee <= minimum bet amount.
   After resolution the same inequality for the declared outcome says that what the participation is paid (liquidity + realised
   profit once all its bets are settled) is not negative: C02_payout_nonneg, over ALL histories, from the profit attribution of
   Proofs/Settle.v (see Props/C04.v) -- a house never loses more than it left in the book. *)
From Coq Require Import ZArith Bool List.
From Sge Require Import Lib.Dec Model.Types Model.Orderbook Model.Mint Model.Chain Proofs.BookFacts Proofs.Custody
     Proofs.BookAPI Proofs.BookInv Proofs.BookHist Proofs.BookCover Proofs.CoverHist Proofs.Local Proofs.SubHist Proofs.NoAbort Witness.C01w.
Import ListNotations.
Open Scope Z_scope.

Theorem C02_coverage : forall P bk supply vault MP t0 sw sd ops,
  pr_bet_fee P <= pr_bet_min P ->
  bget bk POOL = 0 -> bget bk HOUSEFEE = 0 -> bget bk BETFEE = 0 -> Forall valid_op ops ->
  forall m x p o, get_ms (run (init bk supply P vault MP t0 sw sd) ops) m = Some x ->
  In p (bk_parts (ms_book x)) -> In o (k_odds (ms_mkt x)) ->
  pay_io (p_idx p) o (bets_of x) - (stake_i (p_idx p) (bets_of x) - stake_io (p_idx p) o (bets_of x)) <= p_liq p.
Proof. exact coverage_over_histories. Qed.
Print Assumptions C02_coverage.

(* the invariant that carries it, per local transition of a market *)
Theorem C02_invariant_step : forall P x x', pr_bet_fee P <= pr_bet_min P -> mcov x -> mtrans P x x' -> mcov x'.
Proof. exact mcov_step. Qed.
Print Assumptions C02_invariant_step.

(* non-vacuity: in the witness history a participation has promised winnings on an outcome *)
Example C02_coverage_witness :
  existsb (fun e => existsb (fun p => existsb (fun o => 0 <? pay_io (p_idx p) o (bets_of (snd e))) (k_odds (ms_mkt (snd e))))
                            (bk_parts (ms_book (snd e)))) (c_ms (run c01w_init c01w_ops)) = true.
Proof. vm_compute. reflexivity. Qed.

(* after every fulfilment the recorded current-round max loss covers the loss on the outcome just backed,
   while liquidity, profit, fee and settlement flag are untouched *)
Theorem C02_maxloss_step : forall p e o stake pay p' e',
  fulfil_records p e o stake pay = (p', e') ->
  e_exp e' = e_exp e + pay /\ e_bet e' = e_bet e + stake /\
  p_tba p' = p_tba p + stake /\ p_crtb p' = p_crtb p + stake /\
  p_liq p' = p_liq p /\ p_crl p' = p_crl p /\ p_profit p' = p_profit p /\ p_fee p' = p_fee p /\
  p_settled p' = p_settled p /\ p_idx p' = p_idx p /\ p_owner p' = p_owner p /\
  e_exp e' + e_bet e' - p_crtb p' <= p_crml p' /\
  (p_crml p - stake <= p_crml p' \/ p_crml_odds p = o).
Proof. exact fulfil_records_maxloss. Qed.
Print Assumptions C02_maxloss_step.

(* a withdrawal never takes liquidity needed to cover the recorded worst case of the round *)
Theorem C02_withdraw_bound : forall b depositor idx mode wtotal amount w,
  calc_withdrawal b depositor idx mode wtotal amount = Some w ->
  exists p, get_part b idx = Some p /\ p_settled p = false /\ p_owner p = depositor /\
            w <= p_crl p - zmax0 (p_crml p) /\
            (exists e r, expos_of_part_ix b idx = e :: r /\ e_round e = 1).
Proof. exact calc_withdrawal_spec. Qed.
Print Assumptions C02_withdraw_bound.

(* the house's loss is bounded by its deposit: once the book of a declared market is resolved, every bet is settled and
   liquidity + recorded profit (the amount settleParticipation pays back) is never negative *)
Theorem C02_payout_nonneg : forall P bk supply vault MP t0 sw sd,
  pr_bet_fee P <= pr_bet_min P -> 0 <= pr_bet_fee P ->
  bget bk POOL = 0 -> bget bk HOUSEFEE = 0 -> bget bk BETFEE = 0 -> (forall a, SUBBASE <= a -> 0 <= bget bk a) ->
  forall ops m x p w, Forall user_op ops -> get_ms (run (init bk supply P vault MP t0 sw sd) ops) m = Some x ->
  In p (bk_parts (ms_book x)) -> bk_status (ms_book x) <> BK_ACTIVE -> k_status (ms_mkt x) = MK_DECLARED -> k_winners (ms_mkt x) = [w] ->
  (forall b, In b (ms_bets x) -> b_status b = BS_SETTLED) /\
  p_liq p + p_profit p =
    p_liq p + (stake_i (p_idx p) (bets_of x) - stake_io (p_idx p) w (bets_of x)) - pay_io (p_idx p) w (bets_of x) /\
  0 <= p_liq p + p_profit p.
Proof. exact payout_over_histories. Qed.
Print Assumptions C02_payout_nonneg.

From Sge Require Import Gen.kernels Proofs.GenOb.
(* the max-loss bookkeeping of one fulfilment and the liquidity trimming / round reset of a re-queue in the model ARE the Go methods
   (exposure.SetCurrentRound, participation.SetCurrentRound / setMaxLoss, TrimCurrentRoundLiquidity, ResetForNextRound, the two eligibility tests):
   generated from x/orderbook/types on every run and proved equal to the model's functions *)
Theorem C02_kernels_generated : forall p e o stake pay n,
  (let pe' := K_ParticipationExposure_SetCurrentRound (ge_of e) stake pay in
   let p' := K_OrderBookParticipation_SetCurrentRound (gp_of p) pe' o stake in
   (p', pe') = (gp_of (fst (fulfil_records p e o stake pay)), ge_of (snd (fulfil_records p e o stake pay)))) /\
  K_OrderBookParticipation_TrimCurrentRoundLiquidity (gp_of p) = gp_of (part_set_crl p (p_crl p - zmax0 (p_crml p))) /\
  K_OrderBookParticipation_ResetForNextRound (gp_of p) n =
    gp_of (part_upd p (p_liq p) (p_crl p) n (p_tba p) 0 (p_maxloss p + p_crml p) 0 (p_crml_odds p) (p_profit p)) /\
  K_OrderBookParticipation_IsEligibleForNextRoundPreLiquidityReduction (gp_of p) = eligible_pre p /\
  K_OrderBookParticipation_IsEligibleForNextRound (gp_of p) = eligible_next p.
Proof. intros. split; [apply gen_fulfil_records|]. repeat split. Qed.
Print Assumptions C02_kernels_generated.

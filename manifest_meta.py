# manifest_meta.py — the words of MANIFEST.json per property (kept honest by hand).
NOTES = ('Every check = Coq theorems (coq/Props/<id>.v, no axioms) about the executable model + correspondence of that model '
         'with the real app on seeded histories/kernels + Go-side monitors of the property on the real state. '
         'Properties not yet built are listed under not_applicable with reason "not built yet" until their check exists.')
ALL = ['C%02d' % i for i in range(1, 18)]
META = {
 'C13': dict(
   text='Theorems for all histories/inputs over the model: per-block supply law, neutrality of every non-BeginBlock operation, '
        'conservation (sum of balances = supply) by induction over histories, the phase-sum carry law for all B, P, carry, and '
        'the end-phase law; the model is tied to x/mint and the custom handlers by kernel + history correspondence on every run.',
   note='Trusted: Coq kernel; extraction + OCaml driver; Go harness; the model is hand-written (correspondence-checked, not generated). '
        'Bank keeper, distribution sweep of the fee collector and baseapp are modelled, not verified. No axioms (Print Assumptions: closed).',
   technique='Coq proof (induction over op lists + integer arithmetic lemmas) with differential correspondence of the extracted model'),
}
from props import PROPS
NOT_APPLICABLE = [{'property_id': p, 'reason': 'not built yet in this round (planned, see DESIGN.md section 9); no technique limitation claimed'}
                  for p in ALL if p not in PROPS]

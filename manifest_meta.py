# manifest_meta.py — the words of MANIFEST.json per property (kept honest by hand).
NOTES = ('Every check = Coq theorems (coq/Props/<id>.v, no axioms) about the executable model + correspondence of that model '
         'with the real app on seeded histories/kernels + Go-side monitors of the property on the real state. '
         'Properties not yet built are listed under not_applicable with reason "not built yet" until their check exists.')
ALL = ['C%02d' % i for i in range(1, 18)]
META = {
 'C06': dict(
   text='Theorem C06_gate over the model: for EVERY ticket-bearing operation of market, house, bet, ovm and subaccount (both tickets of a subaccount wager), in every state, a ticket failing its rule (leader key / any registered key / the voter\'s key; exp > block time) makes the step return (same state, Err); KYC inversion lemmas; payload-determinism; plus finite facts re-proved on tables regenerated from /repo on every run: every handler of a ticketed message verifies before its first write, every ticketed message type is served. Reward handlers are covered by the source fact and by C12\'s own machine.',
   note='PARTIAL for the cryptographic core: EdDSA/JWT are abstracted (signer id or -1); that real tokens map to the abstraction is exercised with 10 forgery kinds per run, not proved. Translator is trusted (over-approximates paths by concatenating branches). No axioms.',
   technique='Coq proof (case analysis over handlers) + vm_compute facts over regenerated source tables + differential correspondence'),
 'C14': dict(
   text='Over ALL histories from a genesis vault of 4-5 distinct valid keys (C14_vault_wellformed, Proofs/OvmHist.v): the vault always holds 4 to 5 distinct valid keys, so ticket verification always has a leader; every proposal carries 4-5 distinct valid keys with its leader index in range; each key has voted at most once per proposal and every vote is yes or no; when EndBlock changes the vault the key set is the approved proposal\'s with the proposed leader first (C14_leader_first). Further theorems: the vault changes in no operation but EndBlock; when it changes, an active unexpired proposal had >= MajorityCount yes votes and the vault becomes its keys, leader first (C14_change_partial); 0.6667 = ceil(2n/3) for n in {4,5}; vote inversion (own key ticket, once per key). The full statement (only votes of currently registered keys count) is REFUTED by a vm_compute witness (C14_removed_keys_refuted) that replays on the real app: recorded as known finding D10.',
   note='Known finding D10 is reported as KNOWN-FINDING, any other C14 monitor failure is a VIOLATION. Model hand-written, correspondence-checked. No axioms.',
   technique='Coq proof by induction over the proposal list + refutation witness by vm_compute + differential correspondence'),
 'C15': dict(
   text='Model determinism is definitional (step is a function; stated). The deciding facts: (1) C15_sources, re-proved on every run over nondet.v regenerated from /repo: no order-sensitive map range, wall clock, goroutine, select or rand in the custom modules\' state-transition code; (2) the code agrees with a function (correspondence); (3) each sampled history is executed in two fresh processes with different GOMAXPROCS and the per-block app hashes and event digests are compared.',
   note='PARTIAL: the Go runtime, the SDK stores and non-sge modules are outside the model; (3) is exploration, not proof. Translator trusted.',
   technique='vm_compute fact over regenerated source table + two-process differential execution'),
 'C13': dict(
   text='Theorems for all histories/inputs over the model: per-block supply law, neutrality of every non-BeginBlock operation, '
        'conservation (sum of balances = supply) by induction over histories, the phase-sum carry law for all B, P, carry, and '
        'the end-phase law; the model is tied to x/mint and the custom handlers by kernel + history correspondence on every run.',
   note='Trusted: Coq kernel; extraction + OCaml driver; Go harness; the model is hand-written (correspondence-checked, not generated). '
        'Bank keeper, distribution sweep of the fee collector and baseapp are modelled, not verified. No axioms (Print Assumptions: closed).',
   technique='Coq proof (induction over op lists + integer arithmetic lemmas) with differential correspondence of the extracted model'),
}
from props import PROPS
from manifest_texts import TEXTS, PART
for _k, (_t, _tech) in TEXTS.items():
    META.setdefault(_k, dict(text=_t, note=PART, technique=_tech))
NOT_APPLICABLE = [{'property_id': p, 'reason': 'not built yet in this round (planned, see DESIGN.md section 9); no technique limitation claimed'}
                  for p in ALL if p not in PROPS]
